import Pkgcore.Spec.C33
/-! Helper lemmas for C33 (property theorems are in `Pkgcore/Props/C33.lean`). -/
namespace Pkgcore.C33
open Pkgcore.C33.Spec

/-! ## `splitOn` / `joinWith` -/

theorem splitOn_ne_nil (sep : Char) (s : Str) : splitOn sep s ≠ [] := by
  induction s with
  | nil => simp [splitOn]
  | cons c cs ih =>
    unfold splitOn
    split
    · simp
    · split <;> simp

theorem splitOn_cons_sep (sep : Char) (s : Str) : splitOn sep (sep :: s) = [] :: splitOn sep s := by
  simp [splitOn]

theorem splitOn_exists_cons (sep : Char) (s : Str) : ∃ h t, splitOn sep s = h :: t := by
  cases hs : splitOn sep s with
  | nil => exact absurd hs (splitOn_ne_nil sep s)
  | cons a t => exact ⟨a, t, rfl⟩

theorem splitOn_cons_ne (sep c : Char) (s : Str) (h : c ≠ sep) (a : Str) (t : List Str)
    (hs : splitOn sep s = a :: t) : splitOn sep (c :: s) = (c :: a) :: t := by
  rw [splitOn]
  simp only [h, if_false, hs]

theorem splitOn_append_sep (sep : Char) (a b : Str) :
    splitOn sep (a ++ sep :: b) = splitOn sep a ++ splitOn sep b := by
  induction a with
  | nil => simp [splitOn]
  | cons c a ih =>
    by_cases h : c = sep
    · subst h
      simp [splitOn_cons_sep, ih]
    · obtain ⟨x, t, hs⟩ := splitOn_exists_cons sep a
      have hs' : splitOn sep (a ++ sep :: b) = x :: (t ++ splitOn sep b) := by rw [ih, hs]; simp
      simp only [List.cons_append]
      rw [splitOn_cons_ne sep c _ h _ _ hs', splitOn_cons_ne sep c _ h _ _ hs]
      simp

theorem splitOn_of_not_mem (sep : Char) (s : Str) (h : sep ∉ s) : splitOn sep s = [s] := by
  induction s with
  | nil => simp [splitOn]
  | cons c cs ih =>
    have hc : c ≠ sep := fun e => h (by simp [e])
    have hcs : sep ∉ cs := fun e => h (by simp [e])
    exact splitOn_cons_ne sep c cs hc cs [] (ih hcs)

theorem not_mem_of_mem_splitOn (sep : Char) (s : Str) : ∀ c ∈ splitOn sep s, sep ∉ c := by
  induction s with
  | nil => simp [splitOn]
  | cons x xs ih =>
    by_cases h : x = sep
    · subst h
      rw [splitOn_cons_sep]
      intro c hc
      simp only [List.mem_cons] at hc
      rcases hc with rfl | hc
      · simp
      · exact ih c hc
    · obtain ⟨a, t, hs⟩ := splitOn_exists_cons sep xs
      rw [splitOn_cons_ne sep x xs h a t hs]
      rw [hs] at ih
      intro c hc
      simp only [List.mem_cons] at hc
      rcases hc with rfl | hc
      · intro hm
        simp only [List.mem_cons] at hm
        rcases hm with e | hm
        · exact h e.symm
        · exact ih a (by simp) hm
      · exact ih c (by simp [hc])

theorem splitOn_joinWith (sep : Char) (cs : List Str) (hne : cs ≠ []) (h : ∀ c ∈ cs, sep ∉ c) :
    splitOn sep (joinWith sep cs) = cs := by
  induction cs with
  | nil => exact absurd rfl hne
  | cons c rest ih =>
    cases rest with
    | nil => simpa [joinWith] using splitOn_of_not_mem sep c (h c (by simp))
    | cons d rest' =>
      simp only [joinWith]
      rw [splitOn_append_sep, splitOn_of_not_mem sep c (h c (by simp))]
      rw [ih (by simp) (fun x hx => h x (by simp [hx]))]
      simp

theorem joinWith_splitOn (sep : Char) (s : Str) : joinWith sep (splitOn sep s) = s := by
  induction s with
  | nil => simp [splitOn, joinWith]
  | cons c cs ih =>
    obtain ⟨a, t, hs⟩ := splitOn_exists_cons sep cs
    rw [hs] at ih
    by_cases h : c = sep
    · subst h
      rw [splitOn_cons_sep, hs]
      simp [joinWith, ih]
    · rw [splitOn_cons_ne sep c cs h a t hs]
      cases t with
      | nil => simp [joinWith] at ih ⊢; exact ih
      | cons b t' => simp [joinWith] at ih ⊢; exact ih

/-- last-occurrence decomposition -/
theorem last_sep (sep : Char) (s : Str) :
    sep ∉ s ∨ ∃ r e, s = r ++ sep :: e ∧ sep ∉ e := by
  induction s with
  | nil => left; simp
  | cons c cs ih =>
    rcases ih with h | ⟨r, e, rfl, he⟩
    · by_cases hc : c = sep
      · right; exact ⟨[], cs, by simp [hc], h⟩
      · left; simp [h, Ne.symm hc]
    · right; exact ⟨c :: r, e, by simp, he⟩

theorem takeWhile_append_stop {α} (p : α → Bool) (l₁ : List α) (y : α) (l₂ : List α)
    (h₁ : ∀ x ∈ l₁, p x = true) (hy : p y = false) : (l₁ ++ y :: l₂).takeWhile p = l₁ := by
  induction l₁ with
  | nil => simp [List.takeWhile, hy]
  | cons a l ih =>
    simp only [List.cons_append, List.takeWhile_cons, h₁ a (by simp), if_true]
    rw [ih (fun x hx => h₁ x (by simp [hx]))]

theorem dropWhile_append_stop {α} (p : α → Bool) (l₁ : List α) (y : α) (l₂ : List α)
    (h₁ : ∀ x ∈ l₁, p x = true) (hy : p y = false) : (l₁ ++ y :: l₂).dropWhile p = y :: l₂ := by
  induction l₁ with
  | nil => simp [List.dropWhile, hy]
  | cons a l ih =>
    simp only [List.cons_append, List.dropWhile_cons, h₁ a (by simp), if_true]
    exact ih (fun x hx => h₁ x (by simp [hx]))

theorem takeWhile_all {α} (p : α → Bool) (l : List α) (h : ∀ x ∈ l, p x = true) : l.takeWhile p = l := by
  induction l with
  | nil => rfl
  | cons a l ih => simp [List.takeWhile_cons, h a (by simp), ih (fun x hx => h x (by simp [hx]))]

theorem dropWhile_all {α} (p : α → Bool) (l : List α) (h : ∀ x ∈ l, p x = true) : l.dropWhile p = [] := by
  induction l with
  | nil => rfl
  | cons a l ih => simp [List.dropWhile_cons, h a (by simp), ih (fun x hx => h x (by simp [hx]))]

/-- the tail after the last separator, computed on the reversed string -/
theorem rev_takeWhile_of_decomp (sep : Char) (r e : Str) (he : sep ∉ e) :
    ((r ++ sep :: e).reverse.takeWhile (· ≠ sep)).reverse = e := by
  have : (r ++ sep :: e).reverse = e.reverse ++ sep :: r.reverse := by simp
  rw [this, takeWhile_append_stop]
  · simp
  · intro x hx; simp at hx; simpa using fun (h : x = sep) => he (h ▸ hx)
  · simp

theorem rev_dropWhile_of_decomp (sep : Char) (r e : Str) (he : sep ∉ e) :
    (r ++ sep :: e).reverse.dropWhile (· ≠ sep) = sep :: r.reverse := by
  have : (r ++ sep :: e).reverse = e.reverse ++ sep :: r.reverse := by simp
  rw [this, dropWhile_append_stop]
  · intro x hx; simp at hx; simpa using fun (h : x = sep) => he (h ▸ hx)
  · simp

theorem rev_takeWhile_of_not_mem (sep : Char) (s : Str) (h : sep ∉ s) :
    (s.reverse.takeWhile (· ≠ sep)).reverse = s := by
  rw [takeWhile_all]
  · simp
  · intro x hx; simp at hx; simpa using fun (e : x = sep) => h (e ▸ hx)

theorem rev_dropWhile_of_not_mem (sep : Char) (s : Str) (h : sep ∉ s) :
    s.reverse.dropWhile (· ≠ sep) = [] := by
  apply dropWhile_all
  intro x hx; simp at hx; simpa using fun (e : x = sep) => h (e ▸ hx)

theorem splitOn_decomp (sep : Char) (r e : Str) (he : sep ∉ e) :
    splitOn sep (r ++ sep :: e) = splitOn sep r ++ [e] := by
  rw [splitOn_append_sep, splitOn_of_not_mem sep e he]

/-- `os.path.basename` is the last `/`-separated component -/
theorem basename_eq_lastComp (p : Str) : basename p = lastComp p := by
  unfold basename lastComp
  rcases last_sep '/' p with h | ⟨r, e, rfl, he⟩
  · rw [rev_takeWhile_of_not_mem '/' p h, splitOn_of_not_mem '/' p h]; simp
  · rw [rev_takeWhile_of_decomp '/' r e he, splitOn_decomp '/' r e he]; simp

theorem lastComp_no_slash (p : Str) : '/' ∉ lastComp p := by
  unfold lastComp
  have hne := splitOn_ne_nil '/' p
  cases h : (splitOn '/' p).getLast? with
  | none => simp
  | some x =>
    simp only [Option.getD_some]
    exact not_mem_of_mem_splitOn '/' p x (List.mem_of_getLast? h)

/-! ## lexical resolution and `relpath` -/

/-- an ordinary path component -/
def Ordinary (c : Str) : Prop := c ≠ [] ∧ c ≠ ['.'] ∧ c ≠ ['.', '.'] ∧ '/' ∉ c

theorem step_ordinary (st : List Str) (c : Str) (hst : ∀ x ∈ st, Ordinary x) (hc : '/' ∉ c) :
    ∀ x ∈ step st c, Ordinary x := by
  unfold step
  split
  · exact hst
  · split
    · intro x hx; exact hst x (List.dropLast_subset _ hx)
    · rename_i h1 h2
      intro x hx
      simp only [List.mem_append, List.mem_singleton] at hx
      rcases hx with hx | rfl
      · exact hst x hx
      · simp only [not_or] at h1
        exact ⟨h1.1, h1.2, h2, hc⟩

theorem foldl_step_ordinary (cs : List Str) (st : List Str) (hst : ∀ x ∈ st, Ordinary x)
    (hcs : ∀ c ∈ cs, '/' ∉ c) : ∀ x ∈ cs.foldl step st, Ordinary x := by
  induction cs generalizing st with
  | nil => simpa using hst
  | cons c cs ih =>
    simp only [List.foldl_cons]
    exact ih _ (step_ordinary st c hst (hcs c (by simp))) (fun x hx => hcs x (by simp [hx]))

theorem resolve_ordinary (p : Str) : ∀ x ∈ resolve p, Ordinary x :=
  foldl_step_ordinary _ [] (by simp) (not_mem_of_mem_splitOn '/' p)

theorem foldl_step_ords (cs st : List Str) (h : ∀ c ∈ cs, Ordinary c) : cs.foldl step st = st ++ cs := by
  induction cs generalizing st with
  | nil => simp
  | cons c cs ih =>
    have hc := h c (by simp)
    have : step st c = st ++ [c] := by
      unfold step
      simp [hc.1, hc.2.1, hc.2.2.1]
    simp only [List.foldl_cons, this]
    rw [ih _ (fun x hx => h x (by simp [hx]))]
    simp

theorem foldl_step_dotdots (k : Nat) (st : List Str) :
    (List.replicate k ['.', '.']).foldl step st = st.take (st.length - k) := by
  induction k generalizing st with
  | zero => simp
  | succ k ih =>
    have : step st ['.', '.'] = st.dropLast := by unfold step; simp
    simp only [List.replicate_succ, List.foldl_cons, this]
    rw [ih, List.dropLast_eq_take, List.take_take]
    simp only [List.length_take]
    congr 1
    omega

theorem normStep_eq_step (st : List Str) (c : Str) (hst : ∀ x ∈ st, x ≠ ['.', '.']) :
    normStep true st c = step st c := by
  unfold normStep step
  by_cases h1 : c = [] ∨ c = ['.']
  · simp [h1]
  · simp only [h1, if_false]
    by_cases h2 : c = ['.', '.']
    · have : ¬ (st ≠ [] ∧ st.getLast? = some ['.', '.']) := by
        rintro ⟨_, hl⟩
        exact hst _ (List.mem_of_getLast? hl) rfl
      simp [h2, this]
    · simp [h2]

theorem step_no_dotdot (st : List Str) (c : Str) (hst : ∀ x ∈ st, x ≠ ['.', '.']) :
    ∀ x ∈ step st c, x ≠ ['.', '.'] := by
  unfold step
  split
  · exact hst
  · split
    · intro x hx; exact hst x (List.dropLast_subset _ hx)
    · rename_i h2
      intro x hx
      simp only [List.mem_append, List.mem_singleton] at hx
      rcases hx with hx | rfl
      · exact hst x hx
      · exact h2

theorem foldl_normStep_eq (cs st : List Str) (hst : ∀ x ∈ st, x ≠ ['.', '.']) :
    cs.foldl (normStep true) st = cs.foldl step st := by
  induction cs generalizing st with
  | nil => rfl
  | cons c cs ih =>
    simp only [List.foldl_cons, normStep_eq_step st c hst]
    exact ih _ (step_no_dotdot st c hst)

theorem splitOn_replicate_sep (sep : Char) (k : Nat) (s : Str) :
    splitOn sep (List.replicate k sep ++ s) = List.replicate k [] ++ splitOn sep s := by
  induction k with
  | zero => simp
  | succ k ih => simp [List.replicate_succ, splitOn_cons_sep, ih]

theorem filter_ne_nil_of_ordinary (cs : List Str) (h : ∀ c ∈ cs, Ordinary c) :
    cs.filter (· ≠ []) = cs := by
  apply List.filter_eq_self.2
  intro c hc
  simpa using (h c hc).1

/-- the non-empty components of `normpath p` are the lexical resolution of `p` (absolute `p`) -/
theorem comps_normpath (p : Str) (hp : isAbs p = true) :
    (splitOn '/' (normpath p)).filter (· ≠ []) = resolve p := by
  have hne : p ≠ [] := by intro h; simp [h, isAbs] at hp
  unfold normpath
  simp only [hne, if_false, hp, if_true]
  generalize hk : (if p.take 2 = ['/', '/'] ∧ p.take 3 ≠ ['/', '/', '/'] then 2 else 1 : Nat) = k
  have hkpos : k > 0 := by rw [← hk]; split <;> omega
  have hfold : (splitOn '/' p).foldl (normStep (decide (k > 0))) [] = resolve p := by
    simp only [hkpos, decide_true]
    exact foldl_normStep_eq _ [] (by simp)
  simp only [hfold]
  have hout : List.replicate k '/' ++ joinWith '/' (resolve p) ≠ [] := by
    cases k with
    | zero => omega
    | succ k => simp [List.replicate_succ]
  simp only [hout, if_false]
  rw [splitOn_replicate_sep]
  rw [List.filter_append]
  have : (List.replicate k ([] : Str)).filter (· ≠ []) = [] := by
    apply List.filter_eq_nil_iff.2
    intro a ha
    simp [(List.mem_replicate.1 ha).2]
  rw [this, List.nil_append]
  by_cases hr : resolve p = []
  · simp [hr, joinWith, splitOn]
  · rw [splitOn_joinWith '/' _ hr (fun c hc => (resolve_ordinary p c hc).2.2.2)]
    exact filter_ne_nil_of_ordinary _ (resolve_ordinary p)

theorem commonLen_le_left (a b : List Str) : commonLen a b ≤ a.length := by
  induction a generalizing b with
  | nil => simp [commonLen]
  | cons x xs ih =>
    cases b with
    | nil => simp [commonLen]
    | cons y ys =>
      simp only [commonLen]
      split
      · simpa using ih ys
      · simp

theorem commonLen_le_right (a b : List Str) : commonLen a b ≤ b.length := by
  induction a generalizing b with
  | nil => simp [commonLen]
  | cons x xs ih =>
    cases b with
    | nil => simp [commonLen]
    | cons y ys =>
      simp only [commonLen]
      split
      · simpa using ih ys
      · simp

theorem take_commonLen (a b : List Str) : a.take (commonLen a b) = b.take (commonLen a b) := by
  induction a generalizing b with
  | nil => simp [commonLen]
  | cons x xs ih =>
    cases b with
    | nil => simp [commonLen]
    | cons y ys =>
      simp only [commonLen]
      split
      · rename_i h; subst h; simp [ih ys]
      · simp

theorem resolve_append_sep (a b : Str) :
    resolve (a ++ '/' :: b) = (splitOn '/' b).foldl step (resolve a) := by
  unfold resolve
  rw [splitOn_append_sep, List.foldl_append]

/-- core of the relative-link theorem -/
theorem relpath_resolves_aux (path start : Str) (hp : isAbs path = true) (hs : isAbs start = true) :
    resolve (start ++ '/' :: relpath path start) = resolve path := by
  rw [resolve_append_sep]
  unfold relpath
  simp only [comps_normpath path hp, comps_normpath start hs]
  generalize hS : resolve start = S
  generalize hP : resolve path = P
  have hSo : ∀ x ∈ S, Ordinary x := hS ▸ resolve_ordinary start
  have hPo : ∀ x ∈ P, Ordinary x := hP ▸ resolve_ordinary path
  have h1 := commonLen_le_left S P
  have h2 := commonLen_le_right S P
  have h3 := take_commonLen S P
  generalize commonLen S P = i at h1 h2 h3
  by_cases hrel : List.replicate (S.length - i) ['.', '.'] ++ List.drop i P = []
  · simp only [hrel, if_true]
    have hstep : (splitOn '/' ['.']).foldl step S = S := by
      simp [splitOn, step]
    rw [hstep]
    simp only [List.append_eq_nil_iff, List.replicate_eq_nil_iff, List.drop_eq_nil_iff] at hrel
    have hi1 : i = S.length := by omega
    have hi2 : i = P.length := by omega
    have := h3
    rw [hi1, List.take_length] at this
    rw [this, ← hi1, hi2, List.take_length]
  · simp only [hrel, if_false]
    rw [splitOn_joinWith '/' _ hrel]
    · rw [List.foldl_append, foldl_step_dotdots]
      have : S.length - (S.length - i) = i := by omega
      rw [this, foldl_step_ords _ _ (fun c hc => hPo c (List.mem_of_mem_drop hc)), h3]
      exact List.take_append_drop i P
    · intro c hc
      simp only [List.mem_append, List.mem_replicate] at hc
      rcases hc with ⟨_, rfl⟩ | hc
      · decide
      · exact (hPo c (List.mem_of_mem_drop hc)).2.2.2

theorem isAbs_pjoin_root (d : Str) : isAbs (pjoin ['/'] d) = true := by
  unfold pjoin
  split
  · assumption
  · simp [isAbs]

/-! ## the interpreter -/

/-- every entry's parent is a directory -/
def WF (fs : Fs) : Prop := ∀ p n, fs p = some n → p ≠ [] → fs.isDir p.dropLast = true

theorem wf_empty : WF emptyFs := by intro p n h; simp [emptyFs] at h

theorem isDir_set_dir (fs : Fs) (p a : Path) (m : Perm) (h : fs.isDir a = true) :
    (fs.set p (.dir m)).isDir a = true := by
  unfold Fs.isDir Fs.set at *
  by_cases ha : a = []
  · simp [ha]
  · by_cases hap : a = p
    · simp [hap]
    · simpa [ha, hap] using h

theorem isDir_set_self (fs : Fs) (p : Path) (m : Perm) : (fs.set p (.dir m)).isDir p = true := by
  unfold Fs.isDir Fs.set; simp

theorem isDir_cases (fs : Fs) (p : Path) (h : fs.isDir p = true) : p = [] ∨ ∃ m, fs p = some (.dir m) := by
  unfold Fs.isDir at h
  by_cases hp : p = []
  · exact Or.inl hp
  · right
    simp only [hp, decide_false, Bool.false_or] at h
    split at h
    · rename_i m hm; exact ⟨m, hm⟩
    · exact absurd h (by simp)

theorem isDir_of_dir (fs : Fs) (p : Path) (m : Perm) (h : fs p = some (.dir m)) : fs.isDir p = true := by
  unfold Fs.isDir; simp [h]

structure MkFacts (u : Umask) (fs fs' : Fs) (target : Path) : Prop where
  frame : ∀ q, ¬ q <+: target → fs' q = fs q
  wf : WF fs → WF fs'
  mono : ∀ q, fs.isDir q = true → fs'.isDir q = true
  keep : ∀ q, (fs q).isSome → (fs' q).isSome
  isdir : fs'.isDir target = true

theorem mkdirsAux_facts (u : Umask) (rest : List Str) : ∀ (fs : Fs) (pre : Path) (fs' : Fs),
    fs.isDir pre = true → mkdirsAux u fs pre rest = .ok fs' → MkFacts u fs fs' (pre ++ rest) := by
  induction rest with
  | nil =>
    intro fs pre fs' hpre h
    simp only [mkdirsAux, Except.ok.injEq] at h
    subst h
    exact ⟨fun _ _ => rfl, id, fun _ h => h, fun _ h => h, by simpa using hpre⟩
  | cons comp rest ih =>
    intro fs pre fs' hpre h
    have happ : pre ++ comp :: rest = (pre ++ [comp]) ++ rest := by simp
    rw [mkdirsAux] at h
    split at h
    · -- free: create the directory
      rename_i hnone
      have hdir : (fs.set (pre ++ [comp]) (.dir u.dirMode)).isDir (pre ++ [comp]) = true := isDir_set_self _ _ _
      have f := ih _ _ _ hdir h
      rw [happ]
      refine ⟨?_, ?_, ?_, ?_, f.isdir⟩
      · intro q hq
        rw [f.frame q hq]
        have : q ≠ pre ++ [comp] := fun e => hq (e ▸ List.prefix_append _ _)
        simp [Fs.set, this]
      · intro hwf
        apply f.wf
        intro q n hqn hq
        by_cases hqp : q = pre ++ [comp]
        · subst hqp
          simp only [List.dropLast_concat]
          exact isDir_set_dir fs _ _ _ hpre
        · have : fs q = some n := by simpa [Fs.set, hqp] using hqn
          exact isDir_set_dir fs _ _ _ (hwf q n this hq)
      · intro q hq; exact f.mono q (isDir_set_dir fs _ _ _ hq)
      · intro q hq
        apply f.keep
        by_cases hqp : q = pre ++ [comp]
        · simp [Fs.set, hqp]
        · simpa [Fs.set, hqp] using hq
    · -- already a directory
      rename_i m hm
      have f := ih _ _ _ (isDir_of_dir fs _ m hm) h
      rw [happ]
      exact f
    · exact absurd h (by simp)
    · exact absurd h (by simp)

theorem placeLeaf_ok (fs : Fs) (p : Path) (n : Node) (fs' : Fs) (h : placeLeaf fs p n = .ok fs') :
    fs' = fs.set p n ∧ p ≠ [] ∧ fs.isDir p.dropLast = true ∧ ∀ m, fs p ≠ some (.dir m) := by
  unfold placeLeaf at h
  by_cases hp : p = []
  · rw [if_pos hp] at h; exact absurd h (by simp)
  · rw [if_neg hp] at h
    by_cases hl : isLinkAt fs p.dropLast = true
    · rw [if_pos hl] at h; exact absurd h (by simp)
    · rw [if_neg hl] at h
      by_cases hd : (!fs.isDir p.dropLast) = true
      · rw [if_pos hd] at h; exact absurd h (by simp)
      · rw [if_neg hd] at h
        split at h
        · exact absurd h (by simp)
        · rename_i hnd
          simp only [Except.ok.injEq] at h
          refine ⟨h.symm, hp, by simpa using hd, ?_⟩
          intro m hm
          exact hnd m hm

/-- the facts about one successfully applied operation -/
structure OpFacts (fs fs' : Fs) (target : Path) : Prop where
  frame : ∀ q, ¬ q <+: target → fs' q = fs q
  wf : WF fs → WF fs'
  mono : ∀ q, fs.isDir q = true → fs'.isDir q = true
  keep : ∀ q, (fs q).isSome → (fs' q).isSome
  there : target ≠ [] → (fs' target).isSome

def Node.isDirNode : Node → Bool
  | .dir _ => true
  | _ => false

theorem placeLeaf_facts (fs : Fs) (p : Path) (n : Node) (fs' : Fs) (hn : n.isDirNode = false)
    (h : placeLeaf fs p n = .ok fs') : OpFacts fs fs' p ∧ fs' p = some n := by
  obtain ⟨rfl, hp, hpar, hnd⟩ := placeLeaf_ok fs p n fs' h
  refine ⟨⟨?_, ?_, ?_, ?_, ?_⟩, by simp [Fs.set]⟩
  · intro q hq
    have : q ≠ p := fun e => hq (e ▸ List.prefix_refl _)
    simp [Fs.set, this]
  · intro hwf q k hqk hq
    have hkeepdir : ∀ a, fs.isDir a = true → (fs.set p n).isDir a = true := by
      intro a ha
      rcases isDir_cases fs a ha with rfl | ⟨m, hm⟩
      · simp [Fs.isDir]
      · have : a ≠ p := fun e => hnd m (e ▸ hm)
        unfold Fs.isDir Fs.set; simp [this, hm]
    by_cases hqp : q = p
    · subst hqp; exact hkeepdir _ hpar
    · have : fs q = some k := by simpa [Fs.set, hqp] using hqk
      exact hkeepdir _ (hwf q k this hq)
  · intro a ha
    rcases isDir_cases fs a ha with rfl | ⟨m, hm⟩
    · simp [Fs.isDir]
    · have : a ≠ p := fun e => hnd m (e ▸ hm)
      unfold Fs.isDir Fs.set; simp [this, hm]
  · intro q hq
    by_cases hqp : q = p
    · simp [Fs.set, hqp]
    · simpa [Fs.set, hqp] using hq
  · intro _; simp [Fs.set]

/-- what an operation leaves at its own path (`before` = the image it was applied to) -/
def Op.leafOk (u : Umask) (before : Fs) : Op → Option Node → Prop
  | .mkdirs p (some a), r => p = [] ∨ ∃ q, r = some (.dir (a.over q))
  | .mkdirs p none, r => p = [] ∨ ∃ m, r = some (.dir m)
  | .copy (.file id) _ mode, r => r = some (.file ((mode.map (·.over u.fileMode)).getD u.fileMode) id)
  | .copy (.link t) _ mode, r =>
    r = some (.link t ((mode.map (·.over u.fileMode)).getD u.fileMode).uid ((mode.map (·.over u.fileMode)).getD u.fileMode).gid)
  | .symlink t _, r => r = some (.link t u.fileMode.uid u.fileMode.gid)
  | .relink t _, r => r = some (.link t u.fileMode.uid u.fileMode.gid)
  | .hardlink src _, r => ∃ m id, before src = some (.file m id) ∧ r = some (.file m id)
  | .touch _, r => ∃ m, r = some (.file m 0)

theorem applyOpRaw_facts (u : Umask) (fs fs' : Fs) (op : Op) (h : applyOpRaw u fs op = .ok fs') :
    OpFacts fs fs' op.path ∧ op.leafOk u fs (fs' op.path) := by
  cases op with
  | mkdirs p mode =>
    simp only [applyOpRaw, bind, Except.bind] at h
    split at h
    · exact absurd h (by simp)
    · rename_i fs1 h1
      have f := mkdirsAux_facts u p fs [] fs1 (by simp [Fs.isDir]) h1
      simp only [List.nil_append] at f
      cases mode with
      | none =>
        simp only [pure, Except.pure, Except.ok.injEq] at h
        subst h
        refine ⟨⟨f.frame, f.wf, f.mono, f.keep, ?_⟩, ?_⟩
        · intro hp
          rcases isDir_cases _ _ f.isdir with e | ⟨m, hm⟩
          · exact absurd e hp
          · show (fs1 p).isSome = true
            simp [hm]
        · simp only [Op.leafOk, Op.path]
          rcases isDir_cases _ _ f.isdir with e | ⟨m, hm⟩
          · exact Or.inl e
          · exact Or.inr ⟨m, hm⟩
      | some m =>
        simp only [pure, Except.pure] at h
        rcases isDir_cases _ _ f.isdir with hp | ⟨q0, hq0⟩
        · -- the image root: nothing stored there in a well-formed run, or a directory is re-attributed
          subst hp
          refine ⟨?_, Or.inl rfl⟩
          split at h
          · rename_i q hq
            simp only [Except.ok.injEq] at h
            subst h
            refine ⟨?_, ?_, ?_, ?_, fun h => absurd rfl h⟩
            · intro q' hq'
              have : q' ≠ [] := fun e => hq' (e ▸ List.nil_prefix)
              simp [Fs.set, this, f.frame q' hq']
            · intro hwf q' k hqk hq'
              by_cases hqp : q' = []
              · exact absurd hqp hq'
              · have : fs1 q' = some k := by simpa [Fs.set, hqp] using hqk
                exact isDir_set_dir _ _ _ _ (f.wf hwf q' k this hq')
            · intro q' hq'; exact isDir_set_dir _ _ _ _ (f.mono q' hq')
            · intro q' hq'
              by_cases hqp : q' = []
              · simp [Fs.set, hqp]
              · simpa [Fs.set, hqp] using f.keep q' hq'
          · simp only [Except.ok.injEq] at h
            subst h
            exact ⟨f.frame, f.wf, f.mono, f.keep, fun h => absurd rfl h⟩
        · rw [hq0] at h
          simp only [Except.ok.injEq] at h
          subst h
          have hp : p ≠ [] ∨ p = [] := by by_cases hpe : p = [] <;> simp [hpe]
          refine ⟨⟨?_, ?_, ?_, ?_, ?_⟩, Or.inr ⟨q0, by simp [Op.path, Fs.set]⟩⟩
          · intro q hq
            have : q ≠ p := fun e => hq (e ▸ List.prefix_refl _)
            simp only [Fs.set, Op.path, this, if_false]
            exact f.frame q hq
          · intro hwf q k hqk hq
            by_cases hqp : q = p
            · subst hqp
              exact isDir_set_dir _ _ _ _ (f.wf hwf q _ hq0 hq)
            · have : fs1 q = some k := by simpa [Fs.set, hqp] using hqk
              exact isDir_set_dir _ _ _ _ (f.wf hwf q k this hq)
          · intro q hq; exact isDir_set_dir _ _ _ _ (f.mono q hq)
          · intro q hq
            by_cases hqp : q = p
            · simp [Fs.set, hqp]
            · simpa [Fs.set, hqp] using f.keep q hq
          · intro _; simp [Op.path, Fs.set]
  | copy c p mode =>
    cases c with
    | file id =>
      have h' : placeLeaf fs p (.file ((mode.map (·.over u.fileMode)).getD u.fileMode) id) = .ok fs' := by
        simpa [applyOpRaw] using h
      have := placeLeaf_facts fs p _ fs' rfl h'
      exact ⟨this.1, by simpa [Op.leafOk, Op.path] using this.2⟩
    | link t =>
      have h' : placeLeaf fs p (.link t ((mode.map (·.over u.fileMode)).getD u.fileMode).uid
          ((mode.map (·.over u.fileMode)).getD u.fileMode).gid) = .ok fs' := by simpa [applyOpRaw] using h
      have := placeLeaf_facts fs p _ fs' rfl h'
      exact ⟨this.1, by simpa [Op.leafOk, Op.path] using this.2⟩
  | symlink t p =>
    simp only [applyOpRaw] at h
    split at h
    · exact absurd h (by simp)
    · have := placeLeaf_facts fs p _ fs' rfl h
      exact ⟨this.1, by simpa [Op.leafOk, Op.path] using this.2⟩
  | relink t p =>
    have h' : placeLeaf fs p (.link t u.fileMode.uid u.fileMode.gid) = .ok fs' := by simpa [applyOpRaw] using h
    have := placeLeaf_facts fs p _ fs' rfl h'
    exact ⟨this.1, by simpa [Op.leafOk, Op.path] using this.2⟩
  | hardlink src p =>
    simp only [applyOpRaw] at h
    split at h
    · rename_i m id hsrc
      split at h
      · exact absurd h (by simp)
      · have := placeLeaf_facts fs p _ fs' rfl h
        exact ⟨this.1, ⟨m, id, hsrc, by simpa [Op.path] using this.2⟩⟩
    · exact absurd h (by simp)
    · exact absurd h (by simp)
  | touch p =>
    simp only [applyOpRaw] at h
    split at h
    · rename_i m _ _
      have := placeLeaf_facts fs p _ fs' rfl h
      exact ⟨this.1, ⟨m, by simpa [Op.path] using this.2⟩⟩
    · exact absurd h (by simp)
    · have := placeLeaf_facts fs p _ fs' rfl h
      exact ⟨this.1, ⟨u.fileMode, by simpa [Op.path] using this.2⟩⟩

theorem applyOp_facts (u : Umask) (fs fs' : Fs) (op : Op) (h : applyOp u fs op = .ok fs') :
    OpFacts fs fs' op.path ∧ op.leafOk u fs (fs' op.path) := by
  unfold applyOp at h
  by_cases hd : op.dotted = true
  · rw [if_pos hd] at h; exact absurd h (by simp)
  · rw [if_neg hd] at h; exact applyOpRaw_facts u fs fs' op h

theorem runOps_cons (u : Umask) (fs : Fs) (op : Op) (ops : List Op) (fs' : Fs)
    (h : runOps u fs (op :: ops) = .ok fs') : ∃ fs1, applyOp u fs op = .ok fs1 ∧ runOps u fs1 ops = .ok fs' := by
  rw [runOps] at h
  split at h
  · rename_i fs1 h1; exact ⟨fs1, h1, h⟩
  · exact absurd h (by simp)

theorem runOps_append (u : Umask) (a b : List Op) (fs fs' : Fs) (h : runOps u fs (a ++ b) = .ok fs') :
    ∃ fs1, runOps u fs a = .ok fs1 ∧ runOps u fs1 b = .ok fs' := by
  induction a generalizing fs with
  | nil => exact ⟨fs, rfl, h⟩
  | cons op a ih =>
    obtain ⟨fs1, h1, h2⟩ := runOps_cons u fs op (a ++ b) fs' h
    obtain ⟨fs2, h3, h4⟩ := ih fs1 h2
    exact ⟨fs2, by simp [runOps, h1, h3], h4⟩

/-- facts about a whole successful run -/
structure RunFacts (fs fs' : Fs) (ops : List Op) : Prop where
  frame : ∀ q, (∀ op ∈ ops, ¬ q <+: op.path) → fs' q = fs q
  wf : WF fs → WF fs'
  mono : ∀ q, fs.isDir q = true → fs'.isDir q = true
  keep : ∀ q, (fs q).isSome → (fs' q).isSome
  there : ∀ op ∈ ops, op.path ≠ [] → (fs' op.path).isSome

theorem runOps_facts (u : Umask) (ops : List Op) : ∀ (fs fs' : Fs), runOps u fs ops = .ok fs' → RunFacts fs fs' ops := by
  induction ops with
  | nil =>
    intro fs fs' h
    simp only [runOps, Except.ok.injEq] at h
    subst h
    exact ⟨fun _ _ => rfl, id, fun _ h => h, fun _ h => h, fun _ h => absurd h (by simp)⟩
  | cons op ops ih =>
    intro fs fs' h
    obtain ⟨fs1, h1, h2⟩ := runOps_cons u fs op ops fs' h
    have f1 := (applyOp_facts u fs fs1 op h1).1
    have f2 := ih fs1 fs' h2
    refine ⟨?_, fun w => f2.wf (f1.wf w), fun q hq => f2.mono q (f1.mono q hq), fun q hq => f2.keep q (f1.keep q hq), ?_⟩
    · intro q hq
      rw [f2.frame q (fun o ho => hq o (by simp [ho])), f1.frame q (hq op (by simp))]
    · intro o ho hp
      simp only [List.mem_cons] at ho
      rcases ho with rfl | ho
      · exact f2.keep _ (f1.there hp)
      · exact f2.there o ho hp

/-- in a well-formed image every proper prefix of an existing path is a directory -/
theorem wf_ancestors (fs : Fs) (hwf : WF fs) : ∀ (k : Nat) (q : Path) (n : Node), q.length = k → fs q = some n →
    ∀ a, a <+: q → fs.isDir a = true ∨ a = q := by
  intro k
  induction k with
  | zero =>
    intro q n hk _ a ha
    have hq : q = [] := List.length_eq_zero_iff.1 hk
    subst hq
    right; exact List.prefix_nil.1 ha
  | succ k ih =>
    intro q n hk hn a ha
    have hne : q ≠ [] := by intro e; simp [e] at hk
    have hq := List.dropLast_concat_getLast hne
    have hpar : fs.isDir q.dropLast = true := hwf q n hn hne
    rw [← hq] at ha
    rcases List.prefix_concat_iff.1 ha with e | haq
    · right; rw [e, hq]
    · left
      rcases isDir_cases fs _ hpar with e | ⟨m, hm⟩
      · rw [e] at haq
        have : a = [] := List.prefix_nil.1 haq
        simp [this, Fs.isDir]
      · rcases ih q.dropLast (.dir m) (by simp [hk]) hm a haq with h | h
        · exact h
        · rw [h]; exact hpar

/-! ## plans versus prescribed entries -/

/-- the entry an operation is meant to produce -/
def Op.toEntry : Op → Entry
  | .mkdirs p m => .dir p m
  | .copy (.file id) p m => .file p m id
  | .copy (.link t) p m => .link p t m
  | .symlink t p => .newlink p t
  | .relink t p => .link p t none
  | .hardlink s p => .hard s p
  | .touch p => .keep p

theorem toEntry_path (op : Op) : op.toEntry.path = op.path := by
  cases op with
  | copy c p m => cases c <;> rfl
  | _ => rfl

theorem mapM_map_congr {α β γ ε} (f : α → Except ε β) (g : α → Except ε γ) (h : β → γ)
    (hfg : ∀ a, (f a).map h = g a) : ∀ l : List α, (l.mapM f).map (List.map h) = l.mapM g := by
  intro l
  induction l with
  | nil => rfl
  | cons a l ih =>
    simp only [List.mapM_cons]
    rw [← hfg a, ← ih]
    cases f a with
    | error e => rfl
    | ok b =>
      cases List.mapM f l with
      | error e => rfl
      | ok bs => rfl

theorem argsOk_eq (ts : List Target) : argsOk ts = checkTargets ts := by
  unfold argsOk checkTargets
  rfl

theorem installOne_entry (c : Ctx) (t : Target) :
    (installOne c t.node (basename t.arg)).map Op.toEntry =
      (match t.node with
       | .dir _ => .error .copyFailed
       | n => match leaf c (under c (toPath (lastComp t.arg))) n with
         | some e => .ok e
         | none => .error .cannotStat) := by
  rw [basename_eq_lastComp]
  cases hn : t.node with
  | missing => rfl
  | file id => rfl
  | link text kind => cases kind <;> rfl
  | dir kids => rfl

theorem installByBasename_entries (c : Ctx) (ts : List Target) :
    (installByBasename c ts).map (List.map Op.toEntry) = byName c ts := by
  unfold installByBasename byName
  exact mapM_map_congr _ _ _ (installOne_entry c) ts

theorem wrapperRun_entries (c : Ctx) (ts : List Target) (body : Except Rej (List Op))
    (sbody : Except Rej (List Entry)) (h : body.map (List.map Op.toEntry) = sbody) :
    (wrapperRun c ts body).map (List.map Op.toEntry) = withDest c ts sbody := by
  unfold wrapperRun withDest
  rw [argsOk_eq, ← h]
  cases checkTargets ts with
  | error e => rfl
  | ok _ =>
    cases body with
    | error e => rfl
    | ok ops => rfl

/-! ## doman: `splitext` versus dot-separated parts -/

theorem any_parts_eq_not_all_dots (r : Str) :
    (splitOn '.' r).any (· ≠ []) = !(r.all (· = '.')) := by
  induction r with
  | nil => simp [splitOn]
  | cons c cs ih =>
    by_cases h : c = '.'
    · subst h
      rw [splitOn_cons_sep]
      simpa using ih
    · obtain ⟨a, t, hs⟩ := splitOn_exists_cons '.' cs
      rw [splitOn_cons_ne '.' c cs h a t hs]
      simp [h]

theorem hasStem_no_dot (b : Str) (h : '.' ∉ b) : hasStem (splitOn '.' b) = false := by
  rw [splitOn_of_not_mem '.' b h]; simp [hasStem]

theorem hasStem_decomp (r e : Str) (he : '.' ∉ e) :
    hasStem (splitOn '.' (r ++ '.' :: e)) = !(r.all (· = '.')) := by
  rw [splitOn_decomp '.' r e he]
  simp only [hasStem, List.dropLast_concat]
  exact any_parts_eq_not_all_dots r

theorem splitext_no_dot (b : Str) (h : '.' ∉ b) : splitext b = (b, []) := by
  unfold splitext
  rw [rev_dropWhile_of_not_mem '.' b h]

theorem splitext_decomp (r e : Str) (he : '.' ∉ e) :
    splitext (r ++ '.' :: e) = if r.all (· = '.') then (r ++ '.' :: e, []) else (r, '.' :: e) := by
  unfold splitext
  rw [rev_dropWhile_of_decomp '.' r e he, rev_takeWhile_of_decomp '.' r e he]
  simp only [List.all_reverse, List.reverse_reverse]

theorem rsplit1Head_no_sep (sep : Char) (b : Str) (h : sep ∉ b) : rsplit1Head sep b = b := by
  unfold rsplit1Head
  rw [rev_dropWhile_of_not_mem sep b h]

theorem rsplit1Head_decomp (sep : Char) (r e : Str) (he : sep ∉ e) : rsplit1Head sep (r ++ sep :: e) = r := by
  unfold rsplit1Head
  rw [rev_dropWhile_of_decomp sep r e he]
  simp

/-- the extension in terms of the dot-separated parts -/
theorem splitext_snd (b : Str) :
    (splitext b).2 = if hasStem (splitOn '.' b) then '.' :: ((splitOn '.' b).getLast?.getD []) else [] := by
  rcases last_sep '.' b with h | ⟨r, e, rfl, he⟩
  · rw [splitext_no_dot b h, hasStem_no_dot b h]; simp
  · rw [splitext_decomp r e he, hasStem_decomp r e he, splitOn_decomp '.' r e he]
    by_cases ha : r.all (· = '.') = true
    · simp [ha]
    · simp [ha]

theorem splitext_fst (b : Str) : (splitext b).1 = stemOf b := by
  rcases last_sep '.' b with h | ⟨r, e, rfl, he⟩
  · simp only [stemOf, splitext_no_dot b h, hasStem_no_dot b h]; simp
  · have hd : (splitOn '.' (r ++ '.' :: e)).dropLast = splitOn '.' r := by
      rw [splitOn_decomp '.' r e he]; simp
    simp only [stemOf, splitext_decomp r e he, hasStem_decomp r e he, hd, joinWith_splitOn]
    by_cases ha : r.all (· = '.') = true
    · simp [ha]
    · simp [ha]

theorem any_dropLast {α} (p : α → Bool) (l : List α) (h : l.any p = false) : l.dropLast.any p = false := by
  rw [List.any_eq_false] at *
  intro x hx
  exact h x (List.dropLast_subset _ hx)

/-- the section extension computed by `Doman` equals the section of the PMS table -/
theorem manExt_section (m : ManCtx) (b : Str) :
    (manExt m b).drop 1 = sectionOf m (splitOn '.' b) := by
  unfold manExt sectionOf
  simp only [splitext_snd b]
  rcases last_sep '.' b with h | ⟨r, e, rfl, he⟩
  · -- no dot at all
    simp only [hasStem_no_dot b h, Bool.false_eq_true, if_false, rsplit1Head_no_sep '.' b h, splitext_snd b,
      Bool.not_false, if_true]
    split <;> rfl
  · simp only [rsplit1Head_decomp '.' r e he, splitext_snd r]
    by_cases hst : hasStem (splitOn '.' (r ++ '.' :: e)) = true
    · simp only [hst, if_true, Bool.not_true, Bool.false_eq_true, if_false]
      have hlast : (splitOn '.' (r ++ '.' :: e)).getLast?.getD [] = e := by
        rw [splitOn_decomp '.' r e he]; simp
      have hdl : (splitOn '.' (r ++ '.' :: e)).dropLast = splitOn '.' r := by
        rw [splitOn_decomp '.' r e he]; simp
      rw [hlast, hdl]
      by_cases ha : isArchiveExt m ('.' :: e) = true
      · simp only [ha, if_true]
        split <;> simp
      · simp [ha]
    · have hst' : hasStem (splitOn '.' (r ++ '.' :: e)) = false := by simpa using hst
      simp only [hst', Bool.false_eq_true, if_false, Bool.not_false, if_true]
      have : hasStem (splitOn '.' r) = false := by
        rw [splitOn_decomp '.' r e he] at hst'
        simp only [hasStem, List.dropLast_concat] at hst'
        exact any_dropLast _ _ hst'
      simp [this]

theorem detectLang_eq_langOf (b : Str) : detectLang b = langOf (splitOn '.' b) := by
  unfold detectLang langOf
  generalize splitOn '.' b = parts
  have hrev : parts = parts.reverse.reverse := by simp
  cases hrp : parts.reverse with
  | nil => rw [hrev, hrp]; simp
  | cons g4 t1 =>
    cases t1 with
    | nil => rw [hrev, hrp]; simp
    | cons g2 t2 =>
      cases t2 with
      | nil => rw [hrev, hrp]; simp
      | cons g1 more =>
        rw [hrev, hrp]
        have e : (g4 :: g2 :: g1 :: more).reverse = ((more.reverse ++ [g1]) ++ [g2]) ++ [g4] := by simp
        rw [e]
        have hlen : ¬ (((more.reverse ++ [g1]) ++ [g2]) ++ [g4]).length < 3 := by simp
        simp only [hlen, if_false, List.dropLast_concat, List.getLast?_concat, Option.getD_some,
          List.reverse_cons]

theorem mem_of_mem_splitOn (sep : Char) (s : Str) : ∀ c ∈ splitOn sep s, ∀ x ∈ c, x ∈ s := by
  induction s with
  | nil => simp [splitOn]
  | cons a as ih =>
    by_cases h : a = sep
    · subst h
      rw [splitOn_cons_sep]
      intro c hc x hx
      simp only [List.mem_cons] at hc
      rcases hc with rfl | hc
      · simp at hx
      · exact List.mem_cons_of_mem _ (ih c hc x hx)
    · obtain ⟨y, t, hs⟩ := splitOn_exists_cons sep as
      rw [splitOn_cons_ne sep a as h y t hs]
      rw [hs] at ih
      intro c hc x hx
      simp only [List.mem_cons] at hc
      rcases hc with rfl | hc
      · simp only [List.mem_cons] at hx
        rcases hx with rfl | hx
        · simp
        · exact List.mem_cons_of_mem _ (ih y (by simp) x hx)
      · exact List.mem_cons_of_mem _ (ih c (by simp [hc]) x hx)

theorem getLastD_mem_or_nil {α} (l : List (List α)) : l.getLast?.getD [] = [] ∨ l.getLast?.getD [] ∈ l := by
  cases h : l.getLast? with
  | none => left; rfl
  | some x => right; simpa using List.mem_of_getLast? h

theorem sectionOf_no_slash (m : ManCtx) (b : Str) (hb : '/' ∉ b) : '/' ∉ sectionOf m (splitOn '.' b) := by
  have key : ∀ c, c = [] ∨ c ∈ splitOn '.' b → '/' ∉ c := by
    intro c hc
    rcases hc with rfl | hc
    · simp
    · intro hx; exact hb (mem_of_mem_splitOn '.' b c hc '/' hx)
  have hlast := key _ (getLastD_mem_or_nil (splitOn '.' b))
  have hlast2 : '/' ∉ (splitOn '.' b).dropLast.getLast?.getD [] := by
    apply key
    rcases getLastD_mem_or_nil (splitOn '.' b).dropLast with h | h
    · exact Or.inl h
    · exact Or.inr (List.dropLast_subset _ h)
  simp only [sectionOf]
  by_cases h1 : (!hasStem (splitOn '.' b)) = true
  · rw [if_pos h1]; simp
  · rw [if_neg h1]
    by_cases h2 : isArchiveExt m ('.' :: (splitOn '.' b).getLast?.getD []) = true
    · rw [if_pos h2]
      by_cases h3 : hasStem (splitOn '.' b).dropLast = true
      · rw [if_pos h3]; exact hlast2
      · rw [if_neg h3]; simp
    · rw [if_neg h2]; exact hlast

theorem basename_pjoin (a n : Str) (hn : '/' ∉ n) (hne : n ≠ []) : basename (pjoin a n) = n := by
  have habs : isAbs n = false := by
    unfold isAbs
    cases n with
    | nil => exact absurd rfl hne
    | cons x xs =>
      have : x ≠ '/' := fun e => hn (by simp [e])
      simp [this]
  unfold pjoin basename
  simp only [habs, Bool.false_eq_true, if_false]
  by_cases h : a = [] ∨ a.getLast? = some '/'
  · simp only [h, if_true]
    rcases h with rfl | h
    · simpa using rev_takeWhile_of_not_mem '/' n hn
    · obtain ⟨a', rfl⟩ : ∃ a', a = a' ++ ['/'] := by
        rcases List.eq_nil_or_concat a with rfl | ⟨a', x, rfl⟩
        · simp at h
        · simp only [List.concat_eq_append, List.getLast?_concat, Option.some.injEq] at h
          exact ⟨a', by simp [h]⟩
      have : a' ++ ['/'] ++ n = a' ++ '/' :: n := by simp
      rw [this]
      exact rev_takeWhile_of_decomp '/' a' n hn
  · simp only [h, if_false]
    exact rev_takeWhile_of_decomp '/' a n hn

theorem validMandir_man (sec : Str) : validMandir (['m', 'a', 'n'] ++ sec) = validSection sec := by
  cases sec with
  | nil => rfl
  | cons d suf => rfl

theorem basename_no_slash (n : Str) (hn : '/' ∉ n) : basename n = n := by
  unfold basename; exact rev_takeWhile_of_not_mem '/' n hn

theorem manLang_basename (m : ManCtx) (b mandir : Str) (hn : '/' ∉ mandir) (hne : mandir ≠ []) :
    basename (manLang m b mandir).2 = mandir := by
  unfold manLang
  split
  · exact basename_pjoin _ _ hn hne
  · split
    · split
      · exact basename_pjoin _ _ hn hne
      · split
        · exact basename_pjoin _ _ hn hne
        · exact basename_no_slash _ hn
    · exact basename_no_slash _ hn

/-- `Doman`'s placement of one page is the PMS table's -/
theorem manPlace_eq_manDest (m : ManCtx) (arg : Str) : manPlace m arg = manDest m (lastComp arg) := by
  unfold manPlace manDest
  rw [basename_eq_lastComp]
  generalize hb : lastComp arg = b
  have hbs : '/' ∉ b := hb ▸ lastComp_no_slash arg
  have hsec := sectionOf_no_slash m b hbs
  simp only [manExt_section m b]
  generalize sectionOf m (splitOn '.' b) = sec at hsec
  have hman : '/' ∉ ['m', 'a', 'n'] ++ sec := by
    intro h
    simp only [List.mem_append, List.mem_cons] at h
    rcases h with h | h
    · rcases h with h | h | h | h <;> simp at h
    · exact hsec h
  rw [manLang_basename m b _ hman (by simp), validMandir_man]
  by_cases hv : validSection sec = true
  · simp only [hv, if_true, Bool.not_true, Bool.false_eq_true, if_false]
    unfold manLang
    rw [detectLang_eq_langOf]
    have e : "man".toList = ['m', 'a', 'n'] := rfl
    simp only [e]
    split
    · rfl
    · split
      · split
        · rename_i h; simp only [h]
        · rename_i h; simp only [h]; split <;> rfl
      · rfl
  · simp [hv]

/-! ## image paths -/

theorem toPath_nil : toPath [] = [] := by simp [toPath, splitOn]

theorem toPath_append_sep (a b : Str) : toPath (a ++ '/' :: b) = toPath a ++ toPath b := by
  unfold toPath; rw [splitOn_append_sep, List.filter_append]

theorem toPath_no_slash (e : Str) (he : '/' ∉ e) (hne : e ≠ []) : toPath e = [e] := by
  unfold toPath; rw [splitOn_of_not_mem '/' e he]; simp [hne]

theorem toPath_snoc_slash (a : Str) : toPath (a ++ ['/']) = toPath a := by
  have : a ++ ['/'] = a ++ '/' :: [] := rfl
  rw [this, toPath_append_sep, toPath_nil, List.append_nil]

theorem toPath_pjoin (a b : Str) (hb : isAbs b = false) : toPath (pjoin a b) = toPath a ++ toPath b := by
  unfold pjoin
  simp only [hb, Bool.false_eq_true, if_false]
  by_cases h : a = [] ∨ a.getLast? = some '/'
  · simp only [h, if_true]
    rcases h with rfl | h
    · simp [toPath_nil]
    · rcases List.eq_nil_or_concat a with rfl | ⟨a', x, rfl⟩
      · simp at h
      · simp only [List.concat_eq_append, List.getLast?_concat, Option.some.injEq] at h
        subst h
        simp only [List.concat_eq_append]
        have : a' ++ ['/'] ++ b = a' ++ '/' :: b := by simp
        rw [this, toPath_append_sep, toPath_snoc_slash]
  · simp only [h, if_false]
    exact toPath_append_sep a b

theorem isAbs_false_of_no_slash (n : Str) (hn : '/' ∉ n) : isAbs n = false := by
  unfold isAbs
  cases n with
  | nil => rfl
  | cons x xs =>
    have : x ≠ '/' := fun e => hn (by simp [e])
    simp [this]

/-! ## doman / domo loops: a directory is created once, files in order -/

theorem installOne_entry' (c : Ctx) (node : Src) (d : Str) :
    (installOne c node d).map Op.toEntry =
      (match node with
       | .dir _ => .error .copyFailed
       | n => match leaf c (prefixed c d) n with
         | some e => .ok e
         | none => .error .cannotStat) := by
  cases node with
  | missing => rfl
  | file id => rfl
  | link text kind => cases kind <;> rfl
  | dir kids => rfl

/-- the common shape of `Doman._install_targets` and `Domo._install_targets` -/
def genLoop (c : Ctx) (place : Target → Option (Str × Str)) (bad : Rej) (seen : List Str) :
    List Target → Except Rej (List Op)
  | [] => pure []
  | t :: rest =>
    match place t with
    | none => .error bad
    | some (d, f) => do
      let mk := if seen.contains d then [] else [Op.mkdirs (prefixed c d) c.dirMode]
      let cp ← installOne c t.node f
      let r ← genLoop c place bad (if seen.contains d then seen else d :: seen) rest
      pure (mk ++ cp :: r)

/-- the common shape of the prescribed entries: per page its directory and the file -/
def genEntries (c : Ctx) (place : Target → Option (Str × Str)) (bad : Rej) : List Target → Except Rej (List Entry)
  | [] => pure []
  | t :: rest =>
    match place t with
    | none => .error bad
    | some (d, f) =>
      match (installOne c t.node f).map Op.toEntry with
      | .error e => .error e
      | .ok e => do
        let r ← genEntries c place bad rest
        pure (Entry.dir (prefixed c d) c.dirMode :: e :: r)

def Op.isMkdirs : Op → Bool
  | .mkdirs _ _ => true
  | _ => false

def Spec.Entry.isDir : Entry → Bool
  | .dir _ _ => true
  | _ => false

@[simp] theorem isDir_dir (p : Path) (m : Option Attr) : (Entry.dir p m).isDir = true := rfl
@[simp] theorem isMkdirs_mkdirs (p : Path) (m : Option Attr) : (Op.mkdirs p m).isMkdirs = true := rfl

/-- how the operations of a de-duplicating loop relate to the prescribed entries -/
def LoopRel (c : Ctx) (seen : List Str) : Except Rej (List Op) → Except Rej (List Entry) → Prop
  | .error e, .error e' => e = e'
  | .ok ops, .ok es =>
    (ops.filter (!·.isMkdirs)).map Op.toEntry = es.filter (!·.isDir) ∧
    (∀ o ∈ ops, o.toEntry ∈ es) ∧
    (∀ e ∈ es, e ∈ ops.map Op.toEntry ∨ ∃ d ∈ seen, e = Entry.dir (prefixed c d) c.dirMode)
  | _, _ => False

theorem installOne_not_mkdirs (c : Ctx) (node : Src) (f : Str) (op : Op) (h : installOne c node f = .ok op) :
    op.isMkdirs = false ∧ op.toEntry.isDir = false := by
  cases node with
  | missing => simp [installOne] at h
  | file id => simp [installOne] at h; subst h; exact ⟨rfl, rfl⟩
  | link text kind => cases kind <;> simp [installOne] at h <;> subst h <;> exact ⟨rfl, rfl⟩
  | dir kids => simp [installOne] at h

theorem genLoop_rel (c : Ctx) (place : Target → Option (Str × Str)) (bad : Rej) (ts : List Target) :
    ∀ seen, LoopRel c seen (genLoop c place bad seen ts) (genEntries c place bad ts) := by
  induction ts with
  | nil => intro seen; simp [genLoop, genEntries, LoopRel, pure, Except.pure]
  | cons t rest ih =>
    intro seen
    simp only [genLoop, genEntries]
    cases hp : place t with
    | none => simp [LoopRel]
    | some df =>
      obtain ⟨d, f⟩ := df
      simp only []
      cases hi : installOne c t.node f with
      | error e => simp [LoopRel, bind, Except.bind, Except.map]
      | ok cp =>
        obtain ⟨hcp1, hcp2⟩ := installOne_not_mkdirs c t.node f cp hi
        have ih' := ih (if seen.contains d then seen else d :: seen)
        simp only [bind, Except.bind, Except.map, pure, Except.pure]
        cases hl : genLoop c place bad (if seen.contains d then seen else d :: seen) rest with
        | error e =>
          rw [hl] at ih'
          cases hg : genEntries c place bad rest with
          | error e' => rw [hg] at ih'; simpa [LoopRel] using ih'
          | ok es => rw [hg] at ih'; simp [LoopRel] at ih'
        | ok ops =>
          rw [hl] at ih'
          cases hg : genEntries c place bad rest with
          | error e' => rw [hg] at ih'; simp [LoopRel] at ih'
          | ok es =>
            rw [hg] at ih'
            obtain ⟨h1, h2, h3⟩ := ih'
            simp only [LoopRel]
            by_cases hs : seen.contains d = true
            · simp only [hs, if_true, List.nil_append] at h3 ⊢
              refine ⟨?_, ?_, ?_⟩
              · simp [List.filter_cons, hcp1, hcp2, h1]
              · intro o ho
                simp only [List.mem_cons] at ho
                rcases ho with rfl | ho
                · simp
                · simp [h2 o ho]
              · intro e he
                simp only [List.mem_cons] at he
                rcases he with rfl | rfl | he
                · right; exact ⟨d, by simpa using hs, rfl⟩
                · left; simp
                · rcases h3 e he with h | h
                  · left; simp only [List.map_cons, List.mem_cons]; exact Or.inr h
                  · right; exact h
            · simp only [hs, Bool.false_eq_true, if_false] at h3 ⊢
              refine ⟨?_, ?_, ?_⟩
              · simp [List.filter_cons, hcp1, hcp2, h1]
              · intro o ho
                simp only [List.cons_append, List.nil_append, List.mem_cons] at ho
                rcases ho with rfl | rfl | ho
                · simp [Op.toEntry]
                · simp
                · simp [h2 o ho]
              · intro e he
                simp only [List.mem_cons] at he
                rcases he with rfl | rfl | he
                · left; simp [Op.toEntry]
                · left; simp
                · rcases h3 e he with h | ⟨d', hd', rfl⟩
                  · left; simp only [List.cons_append, List.nil_append, List.map_cons, List.mem_cons]; exact Or.inr (Or.inr h)
                  · simp only [List.mem_cons] at hd'
                    rcases hd' with rfl | hd'
                    · left; simp [Op.toEntry]
                    · right; exact ⟨d', hd', rfl⟩

theorem mem_joinWith (sep : Char) (l : List Str) : ∀ x ∈ joinWith sep l, x = sep ∨ ∃ c ∈ l, x ∈ c := by
  induction l with
  | nil => simp [joinWith]
  | cons c rest ih =>
    cases rest with
    | nil => intro x hx; right; exact ⟨c, by simp, by simpa [joinWith] using hx⟩
    | cons d rest' =>
      intro x hx
      simp only [joinWith, List.mem_append, List.mem_cons] at hx
      rcases hx with hx | rfl | hx
      · right; exact ⟨c, by simp, hx⟩
      · left; rfl
      · rcases ih x hx with h | ⟨c', hc', hx'⟩
        · left; exact h
        · right; exact ⟨c', by simp [hc'], hx'⟩

theorem langOf_no_slash (b foo l n : Str) (hb : '/' ∉ b) (h : langOf (splitOn '.' b) = some (foo, l, n)) :
    '/' ∉ foo ++ '.' :: n := by
  unfold langOf at h
  split at h
  · exact absurd h (by simp)
  · simp only [] at h
    split at h
    · simp only [Option.some.injEq, Prod.mk.injEq] at h
      obtain ⟨rfl, rfl, rfl⟩ := h
      have key : ∀ c ∈ splitOn '.' b, '/' ∉ c := fun c hc hx => hb (mem_of_mem_splitOn '.' b c hc '/' hx)
      intro hx
      simp only [List.mem_append, List.mem_cons] at hx
      rcases hx with hx | hx | hx
      · rcases mem_joinWith '.' _ '/' hx with e | ⟨c, hc, hxc⟩
        · exact absurd e (by decide)
        · exact key c (List.dropLast_subset _ (List.dropLast_subset _ hc)) hxc
      · exact absurd hx (by decide)
      · rcases getLastD_mem_or_nil (splitOn '.' b) with e | hm
        · rw [e] at hx; simp at hx
        · exact key _ hm hx
    · exact absurd h (by simp)

theorem manDest_name_no_slash (m : ManCtx) (b d name : Str) (hb : '/' ∉ b)
    (h : manDest m b = some (d, name)) : '/' ∉ name := by
  unfold manDest at h
  simp only [] at h
  split at h
  · exact absurd h (by simp)
  · split at h
    · simp only [Option.some.injEq, Prod.mk.injEq] at h; rw [← h.2]; exact hb
    · split at h
      · split at h
        · rename_i foo l n hl
          simp only [Option.some.injEq, Prod.mk.injEq] at h
          rw [← h.2]; exact langOf_no_slash b foo l n hb hl
        · split at h
          · simp only [Option.some.injEq, Prod.mk.injEq] at h; rw [← h.2]; exact hb
          · simp only [Option.some.injEq, Prod.mk.injEq] at h; rw [← h.2]; exact hb
      · simp only [Option.some.injEq, Prod.mk.injEq] at h; rw [← h.2]; exact hb

/-- where `Doman` puts a page, as `(directory, full destination)` -/
def manPlaceFull (m : ManCtx) (t : Target) : Option (Str × Str) :=
  (manPlace m t.arg).map fun r => (r.1, pjoin r.1 r.2)

theorem domanLoop_eq_gen (c : Ctx) (m : ManCtx) (ts : List Target) :
    ∀ seen, domanLoop c m seen ts = genLoop c (manPlaceFull m) .invalidManPage seen ts := by
  induction ts with
  | nil => intro seen; rfl
  | cons t rest ih =>
    intro seen
    simp only [domanLoop, genLoop, manPlaceFull]
    cases manPlace m t.arg with
    | none => rfl
    | some r =>
      obtain ⟨mandir, name⟩ := r
      simp only [Option.map_some, ih]

theorem manEntries_eq_gen (c : Ctx) (m : ManCtx) (ts : List Target) :
    manEntries c m ts = genEntries c (manPlaceFull m) .invalidManPage ts := by
  induction ts with
  | nil => rfl
  | cons t rest ih =>
    simp only [manEntries, genEntries, manPlaceFull, manPlace_eq_manDest]
    cases hd : manDest m (lastComp t.arg) with
    | none => rfl
    | some r =>
      obtain ⟨d, name⟩ := r
      have hname := manDest_name_no_slash m _ d name (lastComp_no_slash t.arg) hd
      have hpath : prefixed c (pjoin d name) = under c (toPath d ++ toPath name) := by
        unfold prefixed under
        rw [toPath_pjoin d name (isAbs_false_of_no_slash name hname)]
      simp only [Option.map_some, installOne_entry', hpath, ih]
      cases t.node with
      | dir kids => rfl
      | missing => rfl
      | file id => rfl
      | link text kind => cases kind <;> rfl

def moPlaceFull (pn : Str) (t : Target) : Option (Str × Str) :=
  let d := pjoin (splitext (basename t.arg)).1 "LC_MESSAGES".toList
  some (d, pjoin d (pn ++ ".mo".toList))

theorem domoLoop_eq_gen (c : Ctx) (pn : Str) (ts : List Target) :
    ∀ seen, domoLoop c pn seen ts = genLoop c (moPlaceFull pn) .invalidManPage seen ts := by
  induction ts with
  | nil => intro seen; rfl
  | cons t rest ih =>
    intro seen
    simp only [domoLoop, genLoop, moPlaceFull, ih]

theorem toPath_lc : toPath "LC_MESSAGES".toList = ["LC_MESSAGES".toList] := by decide

theorem moEntries_eq_gen (c : Ctx) (pn : Str) (hpn : isAbs pn = false) (ts : List Target) :
    moEntries c pn ts = genEntries c (moPlaceFull pn) .invalidManPage ts := by
  induction ts with
  | nil => rfl
  | cons t rest ih =>
    have hmo : isAbs (pn ++ ".mo".toList) = false := by
      cases pn with
      | nil => rfl
      | cons x xs => simpa [isAbs] using hpn
    have hd : toPath (pjoin (splitext (basename t.arg)).1 "LC_MESSAGES".toList)
        = toPath (stemOf (lastComp t.arg)) ++ ["LC_MESSAGES".toList] := by
      rw [toPath_pjoin _ _ (by rfl), splitext_fst, basename_eq_lastComp, toPath_lc]
    have hp1 : prefixed c (pjoin (splitext (basename t.arg)).1 "LC_MESSAGES".toList)
        = under c (toPath (stemOf (lastComp t.arg)) ++ ["LC_MESSAGES".toList]) := by
      unfold prefixed under; rw [hd]
    have hp2 : prefixed c (pjoin (pjoin (splitext (basename t.arg)).1 "LC_MESSAGES".toList) (pn ++ ".mo".toList))
        = under c (toPath (stemOf (lastComp t.arg)) ++ ["LC_MESSAGES".toList] ++ toPath (pn ++ ".mo".toList)) := by
      unfold prefixed under; rw [toPath_pjoin _ _ hmo, hd]
    simp only [moEntries, genEntries, moPlaceFull, installOne_entry', hp1, hp2, ih]
    cases t.node with
    | dir kids => rfl
    | missing => rfl
    | file id => rfl
    | link text kind => cases kind <;> rfl

/-! ## dodir / keepdir / dosym / dohard -/

theorem dodir_entries (c : Ctx) (ds : List Str) :
    (dodirPlan c ds).map (List.map Op.toEntry) = dodirEntries c ds := by
  unfold dodirPlan dodirEntries
  by_cases h : ds = []
  · simp [h, Except.map]
  · simp [h, Except.map, pure, Except.pure, Op.toEntry, prefixed, under, Function.comp_def]

theorem keepdir_entries (c : Ctx) (category pn slot : Str) (ds : List Str) :
    (keepdirPlan c category pn slot ds).map (List.map Op.toEntry) = keepdirEntries c category pn slot ds := by
  unfold keepdirPlan keepdirEntries dodirPlan
  by_cases h : ds = []
  · simp [h, Except.map, bind, Except.bind]
  · simp [h, Except.map, pure, Except.pure, bind, Except.bind, Op.toEntry, prefixed, under, Function.comp_def]

theorem parent_of_link_name (c : Ctx) (mk : Path → Op) (t : Str) (ht : t.getLast? ≠ some '/') :
    (symlinkRun c mk t).map Op.toEntry = parentEntry c t ++ [(mk (toPath t)).toEntry] := by
  unfold symlinkRun parentEntry
  rcases last_sep '/' t with h | ⟨r, e, rfl, he⟩
  · have : t.contains '/' = false := by simpa using h
    simp [rsplit1Head_no_sep '/' t h, h]
  · have hne : e ≠ [] := by
      intro h; subst h; simp at ht
    have hc : (r ++ '/' :: e).contains '/' = true := by simp
    have hr : r ≠ r ++ '/' :: e := by
      intro h
      have := congrArg List.length h
      simp at this
    simp only [rsplit1Head_decomp '/' r e he, ne_eq, hr, not_false_eq_true, if_true, hc,
      toPath_append_sep, toPath_no_slash e he hne, List.dropLast_concat, List.map_append, List.map_cons,
      List.map_nil, Op.toEntry, prefixed, under]

theorem dosym_entries (c : Ctx) (fs : Fs) (relAllowed relative : Bool) (source target : Str) :
    (dosymPlan c fs relAllowed relative source target).map (List.map Op.toEntry)
      = dosymEntries c fs relAllowed relative source target := by
  unfold dosymPlan dosymEntries
  by_cases h1 : target.getLast? = some '/' ∨ fs.isDir (toPath target) = true
  · simp [h1, Except.map]
  · have ht : target.getLast? ≠ some '/' := fun h => h1 (Or.inl h)
    simp only [h1, if_false]
    cases relative with
    | false =>
      simp [Except.map, pure, Except.pure, parent_of_link_name c _ target ht, Op.toEntry]
    | true =>
      cases relAllowed with
      | false => simp [Except.map]
      | true =>
        by_cases ha : isAbs source = true
        · simp [ha, Except.map, pure, Except.pure, parent_of_link_name c _ target ht, Op.toEntry]
        · simp [ha, Except.map]

theorem dohard_entries (c : Ctx) (source target : Str) (ht : target.getLast? ≠ some '/') :
    (dohardPlan c source target).map (List.map Op.toEntry) = dohardEntries c source target := by
  unfold dohardPlan dohardEntries
  simp [ht, Except.map, pure, Except.pure, parent_of_link_name c _ target ht, Op.toEntry]

/-! ## recursive installs: the `os.walk` order is a permutation of the depth-first listing -/

def symOps (c : Ctx) (dd : Path) (kids : List (Str × Src)) : List Op :=
  kids.filterMap fun (n, s) =>
    match s with
    | .link text .toDir => some (Op.symlink text (toPath c.dest ++ dd ++ [n]))
    | _ => none

/-- both reject, or both succeed with the same entries up to order -/
def TreeRel : Except Rej (List Op) → Except Rej (List Entry) → Prop
  | .ok ops, .ok es => (ops.map Op.toEntry).Perm es
  | .error _, .error _ => True
  | _, _ => False

/-- the three passes over one directory's children, as `walkDir` combines them -/
def walkKids (c : Ctx) (dd : Path) (kids : List (Str × Src)) : Except Rej (List Op) := do
  let f ← walkFiles c dd kids
  let s ← walkSubs c dd kids
  pure (symOps c dd kids ++ f ++ s)

theorem walkDir_eq (c : Ctx) (dd : Path) (kids : List (Str × Src)) :
    walkDir c dd kids = (walkKids c dd kids).map (Op.mkdirs (toPath c.dest ++ dd) c.dirMode :: ·) := by
  rw [walkDir]
  unfold walkKids symOps
  cases walkFiles c dd kids with
  | error e => rfl
  | ok f =>
    cases walkSubs c dd kids with
    | error e => rfl
    | ok s =>
      simp only [bind, Except.bind, pure, Except.pure, Except.map, Except.ok.injEq, List.cons.injEq, true_and,
        List.append_cancel_right_eq, List.cons_append, List.append_assoc]
      congr 1

theorem perm_insert_mid {α} (a : α) (x y z w : List α) (h : (x ++ y ++ z).Perm w) :
    (x ++ (a :: y) ++ z).Perm (a :: w) := by
  have : x ++ (a :: y) ++ z = x ++ a :: (y ++ z) := by simp
  rw [this]
  exact (List.perm_middle).trans (List.Perm.cons a (by simpa using h))

mutual
theorem walkDir_rel (c : Ctx) (dd : Path) (kids : List (Str × Src)) :
    TreeRel (walkDir c dd kids) (tree c (toPath c.dest ++ dd) (.dir kids)) := by
  rw [walkDir_eq, tree]
  have h := walkKids_rel c dd kids
  cases hw : walkKids c dd kids with
  | error e =>
    rw [hw] at h
    cases ht : treeKids c (toPath c.dest ++ dd) kids with
    | error e' => simp [TreeRel, Except.map, bind, Except.bind]
    | ok es => rw [ht] at h; simp [TreeRel] at h
  | ok ops =>
    rw [hw] at h
    cases ht : treeKids c (toPath c.dest ++ dd) kids with
    | error e' => rw [ht] at h; simp [TreeRel] at h
    | ok es =>
      rw [ht] at h
      simp only [TreeRel, Except.map, bind, Except.bind, pure, Except.pure, List.map_cons, Op.toEntry] at h ⊢
      exact List.Perm.cons _ h
termination_by (sizeOf kids, 1)
decreasing_by all_goals simp_wf <;> (try apply Prod.Lex.right) <;> omega
theorem walkKids_rel (c : Ctx) (dd : Path) (kids : List (Str × Src)) :
    TreeRel (walkKids c dd kids) (treeKids c (toPath c.dest ++ dd) kids) := by
  match kids with
  | [] => simp [walkKids, walkFiles, walkSubs, symOps, treeKids, TreeRel, bind, Except.bind, pure, Except.pure]
  | (n, s) :: rest =>
    have ih := walkKids_rel c dd rest
    unfold walkKids at ih ⊢
    rw [treeKids]
    match s with
    | .missing =>
      simp only [walkFiles, walkSubs, symOps, List.filterMap_cons, tree, pure, Except.pure, bind, Except.bind,
        List.nil_append] at ih ⊢
      cases hr : treeKids c (toPath c.dest ++ dd) rest with
      | error e => rw [hr] at ih; simpa using ih
      | ok es => rw [hr] at ih; simpa using ih
    | .file id =>
      simp only [walkFiles, walkSubs, symOps, List.filterMap_cons, tree, pure, Except.pure, bind, Except.bind] at ih ⊢
      cases hf : walkFiles c dd rest with
      | error e =>
        rw [hf] at ih
        cases hr : treeKids c (toPath c.dest ++ dd) rest with
        | error e' => simp [TreeRel]
        | ok es => rw [hr] at ih; simp [TreeRel] at ih
      | ok f =>
        rw [hf] at ih
        cases hs : walkSubs c dd rest with
        | error e =>
          rw [hs] at ih
          cases hr : treeKids c (toPath c.dest ++ dd) rest with
          | error e' => simp [TreeRel]
          | ok es => rw [hr] at ih; simp [TreeRel] at ih
        | ok sb =>
          rw [hs] at ih
          cases hr : treeKids c (toPath c.dest ++ dd) rest with
          | error e' => rw [hr] at ih; simp [TreeRel] at ih
          | ok es =>
            rw [hr] at ih
            simp only [TreeRel, List.map_append, List.map_cons, Op.toEntry, List.singleton_append] at ih ⊢
            have := perm_insert_mid (Entry.file (toPath c.dest ++ dd ++ [n]) c.insMode id) _ _ _ _ ih
            simpa using this
    | .link text .toFile =>
      simp only [walkFiles, walkSubs, symOps, List.filterMap_cons, tree, pure, Except.pure, bind, Except.bind] at ih ⊢
      cases hf : walkFiles c dd rest with
      | error e =>
        rw [hf] at ih
        cases hr : treeKids c (toPath c.dest ++ dd) rest with
        | error e' => simp [TreeRel]
        | ok es => rw [hr] at ih; simp [TreeRel] at ih
      | ok f =>
        rw [hf] at ih
        cases hs : walkSubs c dd rest with
        | error e =>
          rw [hs] at ih
          cases hr : treeKids c (toPath c.dest ++ dd) rest with
          | error e' => simp [TreeRel]
          | ok es => rw [hr] at ih; simp [TreeRel] at ih
        | ok sb =>
          rw [hs] at ih
          cases hr : treeKids c (toPath c.dest ++ dd) rest with
          | error e' => rw [hr] at ih; simp [TreeRel] at ih
          | ok es =>
            rw [hr] at ih
            simp only [TreeRel, List.map_append, List.map_cons, Op.toEntry, List.singleton_append] at ih ⊢
            have := perm_insert_mid (Entry.link (toPath c.dest ++ dd ++ [n]) text c.insMode) _ _ _ _ ih
            simpa using this
    | .link text .toDir =>
      simp only [walkFiles, walkSubs, symOps, List.filterMap_cons, tree, pure, Except.pure, bind, Except.bind] at ih ⊢
      cases hf : walkFiles c dd rest with
      | error e =>
        rw [hf] at ih
        cases hr : treeKids c (toPath c.dest ++ dd) rest with
        | error e' => simp [TreeRel]
        | ok es => rw [hr] at ih; simp [TreeRel] at ih
      | ok f =>
        rw [hf] at ih
        cases hs : walkSubs c dd rest with
        | error e =>
          rw [hs] at ih
          cases hr : treeKids c (toPath c.dest ++ dd) rest with
          | error e' => simp [TreeRel]
          | ok es => rw [hr] at ih; simp [TreeRel] at ih
        | ok sb =>
          rw [hs] at ih
          cases hr : treeKids c (toPath c.dest ++ dd) rest with
          | error e' => rw [hr] at ih; simp [TreeRel] at ih
          | ok es =>
            rw [hr] at ih
            simp only [TreeRel, List.map_append, List.map_cons, Op.toEntry, List.singleton_append,
              List.cons_append] at ih ⊢
            exact List.Perm.cons _ (by simpa using ih)
    | .link text .broken =>
      simp [walkFiles, tree, TreeRel, bind, Except.bind]
    | .dir kids' =>
      have ihd := walkDir_rel c (dd ++ [n]) kids'
      simp only [walkFiles, walkSubs, symOps, List.filterMap_cons, pure, Except.pure, bind, Except.bind] at ih ⊢
      rw [← List.append_assoc] at ihd
      cases hf : walkFiles c dd rest with
      | error e =>
        rw [hf] at ih
        cases hr : treeKids c (toPath c.dest ++ dd) rest with
        | error e' =>
          cases tree c (toPath c.dest ++ dd ++ [n]) (.dir kids') <;> simp [TreeRel]
        | ok es => rw [hr] at ih; simp [TreeRel] at ih
      | ok f =>
        rw [hf] at ih
        cases hd : walkDir c (dd ++ [n]) kids' with
        | error e =>
          rw [hd] at ihd
          cases htd : tree c (toPath c.dest ++ dd ++ [n]) (.dir kids') with
          | error e' => simp [TreeRel]
          | ok ea => rw [htd] at ihd; simp [TreeRel] at ihd
        | ok a =>
          rw [hd] at ihd
          cases htd : tree c (toPath c.dest ++ dd ++ [n]) (.dir kids') with
          | error e' => rw [htd] at ihd; simp [TreeRel] at ihd
          | ok ea =>
            rw [htd] at ihd
            cases hs : walkSubs c dd rest with
            | error e =>
              rw [hs] at ih
              cases hr : treeKids c (toPath c.dest ++ dd) rest with
              | error e' => simp [TreeRel]
              | ok es => rw [hr] at ih; simp [TreeRel] at ih
            | ok sb =>
              rw [hs] at ih
              cases hr : treeKids c (toPath c.dest ++ dd) rest with
              | error e' => rw [hr] at ih; simp [TreeRel] at ih
              | ok es =>
                rw [hr] at ih
                simp only [TreeRel, List.map_append] at ih ihd ⊢
                have h1 : (List.map Op.toEntry (symOps c dd rest) ++ List.map Op.toEntry f
                    ++ (List.map Op.toEntry a ++ List.map Op.toEntry sb)).Perm
                    (List.map Op.toEntry a ++ (List.map Op.toEntry (symOps c dd rest) ++ List.map Op.toEntry f
                    ++ List.map Op.toEntry sb)) := by
                  rw [← List.append_assoc]
                  exact (List.perm_append_comm.append_right _).trans (by simp)
                exact h1.trans (List.Perm.append ihd ih)
termination_by (sizeOf kids, 0)
decreasing_by all_goals simp_wf <;> (try apply Prod.Lex.left) <;> omega
end

/-! ## the name under which a directory argument is installed -/

theorem toPath_all_slash (t : Str) (h : ∀ x ∈ t, x = '/') : toPath t = [] := by
  induction t with
  | nil => exact toPath_nil
  | cons x t ih =>
    have hx : x = '/' := h x (by simp)
    subst hx
    have : '/' :: t = [] ++ '/' :: t := rfl
    rw [this, toPath_append_sep, toPath_nil, ih (fun y hy => h y (by simp [hy]))]
    rfl

theorem toPath_append_slashes (x t : Str) (h : ∀ y ∈ t, y = '/') : toPath (x ++ t) = toPath x := by
  cases t with
  | nil => simp
  | cons y t' =>
    have hy : y = '/' := h y (by simp)
    subst hy
    rw [toPath_append_sep, toPath_all_slash t' (fun z hz => h z (by simp [hz]))]
    simp

theorem head_dropWhile {α} (p : α → Bool) (l : List α) (x : α) (h : (l.dropWhile p).head? = some x) :
    p x = false := by
  induction l with
  | nil => simp at h
  | cons a l ih =>
    rw [List.dropWhile_cons] at h
    split at h
    · exact ih h
    · rename_i hp; simp at h; subst h; simpa using hp

/-- `basename(arg.rstrip("/"))` is the last non-empty component of `arg` -/
theorem lastName_eq (a : Str) : toPath (basename (rstripSlash a)) = lastName a := by
  unfold lastName
  have hsplit : a = rstripSlash a ++ (a.reverse.takeWhile (· = '/')).reverse := by
    unfold rstripSlash
    rw [← List.reverse_append, List.takeWhile_append_dropWhile, List.reverse_reverse]
  have htw : ∀ y ∈ (a.reverse.takeWhile (· = '/')).reverse, y = '/' := by
    intro y hy
    simp only [List.mem_reverse] at hy
    have key : ∀ (l : Str), ∀ z ∈ l.takeWhile (· = '/'), z = '/' := by
      intro l
      induction l with
      | nil => simp
      | cons b l ih =>
        intro z hz
        rw [List.takeWhile_cons] at hz
        split at hz
        · rename_i hb
          simp only [List.mem_cons] at hz
          rcases hz with rfl | hz
          · simpa using hb
          · exact ih z hz
        · simp at hz
    exact key _ y hy
  have hend : (rstripSlash a).getLast? ≠ some '/' := by
    unfold rstripSlash
    rw [List.getLast?_reverse]
    intro h
    have := head_dropWhile _ _ _ h
    simp at this
  have hp : toPath a = toPath (rstripSlash a) := by
    conv => lhs; rw [hsplit]
    exact toPath_append_slashes _ _ htw
  rw [hp, basename_eq_lastComp]
  generalize rstripSlash a = a' at hend
  rcases last_sep '/' a' with h | ⟨r, e, rfl, he⟩
  · unfold lastComp
    rw [splitOn_of_not_mem '/' a' h]
    by_cases hne : a' = []
    · subst hne; simp [toPath_nil]
    · simp [toPath_no_slash a' h hne]
  · have hne : e ≠ [] := by intro h; subst h; simp at hend
    unfold lastComp
    rw [splitOn_decomp '/' r e he, toPath_append_sep, toPath_no_slash e he hne]
    simp [toPath_no_slash e he hne]

/-- the top-level destination directory of `_install_from_dirs` is the prescribed one, `dir/.` included -/
theorem dirName_eq (a : Str) : topDir a = dirName a := by
  unfold topDir dirName
  simp only [lastName_eq]

theorem fromDirs_rel (c : Ctx) (ts : List Target) : TreeRel (fromDirs c ts) (trees c ts) := by
  induction ts with
  | nil => simp [fromDirs, trees, TreeRel, pure, Except.pure]
  | cons t rest ih =>
    rw [fromDirs, trees]
    cases hn : t.node with
    | dir kids =>
      have h := walkDir_rel c (topDir t.arg) kids
      rw [dirName_eq] at h
      simp only [under, bind, Except.bind, pure, Except.pure]
      cases hw : walkDir c (dirName t.arg) kids with
      | error e =>
        rw [dirName_eq, hw]
        rw [hw] at h
        cases ht : tree c (toPath c.dest ++ dirName t.arg) (.dir kids) with
        | error e' => simp [TreeRel]
        | ok ea => rw [ht] at h; simp [TreeRel] at h
      | ok a =>
        rw [dirName_eq, hw]
        rw [hw] at h
        cases ht : tree c (toPath c.dest ++ dirName t.arg) (.dir kids) with
        | error e' => rw [ht] at h; simp [TreeRel] at h
        | ok ea =>
          rw [ht] at h
          cases hf : fromDirs c rest with
          | error e =>
            rw [hf] at ih
            cases hr : trees c rest with
            | error e' => simp [TreeRel]
            | ok er => rw [hr] at ih; simp [TreeRel] at ih
          | ok r =>
            rw [hf] at ih
            cases hr : trees c rest with
            | error e' => rw [hr] at ih; simp [TreeRel] at ih
            | ok er =>
              rw [hr] at ih
              simp only [TreeRel, List.map_append] at h ih ⊢
              exact List.Perm.append h ih
    | missing => simp [TreeRel]
    | file id => simp [TreeRel]
    | link text kind => simp [TreeRel]

/-- the relation between `Doins/Dodoc/Dohtml._install_targets` and "files by name, trees with -r" -/
theorem filesAndTrees_rel (c : Ctx) (recursiveOk : Bool) (ts : List Target) (keepFile keepDir : Target → Bool)
    (model : Except Rej (List Op))
    (hmodel : model = (do
      let dirs := ts.filter (·.isDir)
      let files := ts.filter (!·.isDir)
      let dops ← if dirs = [] then pure [] else if recursiveOk then fromDirs c (dirs.filter keepDir)
        else .error .isDirectory
      let fops ← installByBasename c (files.filter keepFile)
      pure (dops ++ fops))) :
    TreeRel model (filesAndTrees c recursiveOk ts keepFile keepDir) := by
  subst hmodel
  unfold filesAndTrees isDirArg
  simp only []
  by_cases hd : ts.filter (·.isDir) = []
  · have h1 : trees c [] = .ok [] := rfl
    have hb := installByBasename_entries c (List.filter keepFile (List.filter (fun x => !x.isDir) ts))
    simp only [hd, if_true, ne_eq, not_true_eq_false, false_and, if_false, h1, bind, Except.bind, pure, Except.pure]
    rw [← hb]
    cases installByBasename c (List.filter keepFile (List.filter (fun x => !x.isDir) ts)) with
    | error e => simp [TreeRel, Except.map, h1, List.filter_nil]
    | ok fops => simp [TreeRel, Except.map, h1, List.filter_nil]
  · cases recursiveOk with
    | false => simp [hd, TreeRel, bind, Except.bind]
    | true =>
      have hr := fromDirs_rel c (List.filter keepDir (List.filter (fun x => x.isDir) ts))
      have hb := installByBasename_entries c (List.filter keepFile (List.filter (fun x => !x.isDir) ts))
      simp only [hd, if_false, if_true, ne_eq, not_false_eq_true, true_and, Bool.not_true, Bool.false_eq_true,
        bind, Except.bind, pure, Except.pure]
      rw [← hb]
      cases hf : fromDirs c (List.filter keepDir (List.filter (fun x => x.isDir) ts)) with
      | error e =>
        rw [hf] at hr
        cases ht : trees c (List.filter keepDir (List.filter (fun x => x.isDir) ts)) with
        | error e' => simp [TreeRel]
        | ok es => rw [ht] at hr; simp [TreeRel] at hr
      | ok dops =>
        rw [hf] at hr
        cases ht : trees c (List.filter keepDir (List.filter (fun x => x.isDir) ts)) with
        | error e' => rw [ht] at hr; simp [TreeRel] at hr
        | ok es =>
          rw [ht] at hr
          cases installByBasename c (List.filter keepFile (List.filter (fun x => !x.isDir) ts)) with
          | error e => simp [TreeRel, Except.map]
          | ok fops =>
            simp only [TreeRel, Except.map, List.map_append] at hr ⊢
            exact List.Perm.append hr (List.Perm.refl _)

theorem wrapperRun_rel (c : Ctx) (ts : List Target) (body : Except Rej (List Op)) (sbody : Except Rej (List Entry))
    (h : TreeRel body sbody) : TreeRel (wrapperRun c ts body) (withDest c ts sbody) := by
  unfold wrapperRun withDest
  rw [argsOk_eq]
  cases checkTargets ts with
  | error e => simp [TreeRel, bind, Except.bind]
  | ok _ =>
    cases body with
    | error e =>
      cases sbody with
      | error e' => simp [TreeRel, bind, Except.bind]
      | ok es => simp [TreeRel] at h
    | ok ops =>
      cases sbody with
      | error e' => simp [TreeRel] at h
      | ok es =>
        simp only [TreeRel, bind, Except.bind, pure, Except.pure, List.map_cons, Op.toEntry] at h ⊢
        exact List.Perm.cons _ h

/-- `Dohtml._allowed_file` (`splitext` of the basename) is the suffix test of the specification: the part after
the last dot of the last path component when something non-empty precedes that dot, the empty suffix otherwise,
or a `-f` name -/
theorem htmlAllowed_eq (o : HtmlOpts) (arg : Str) :
    htmlAllowed o arg =
      ((hasStem (splitOn '.' (lastComp arg)) &&
          (htmlAllowedExts o).contains ((splitOn '.' (lastComp arg)).getLast?.getD [])) ||
        (!hasStem (splitOn '.' (lastComp arg)) && (htmlAllowedExts o).contains []) ||
        o.fFiles.contains (lastComp arg)) := by
  unfold htmlAllowed
  simp only [basename_eq_lastComp, splitext_snd]
  cases hasStem (splitOn '.' (lastComp arg)) <;> simp

/-- `dohtml`, whole request, against the prescribed entries -/
theorem dohtml_rel (c : Ctx) (o : HtmlOpts) (ts : List Target) :
    TreeRel (installPlan (.dohtml o) c ts) (prescribed (.dohtml o) c ts) := by
  have hp : prescribed (.dohtml o) c ts =
      withDest { c with dest := pjoin c.dest (lstripSlash o.docPrefix) } ts
        (filesAndTrees { c with dest := pjoin c.dest (lstripSlash o.docPrefix) } o.recursive ts
          (fun f => htmlAllowed o f.arg) (fun d => !o.xDirs.contains d.arg)) := by
    unfold prescribed
    simp only []
    congr 2
    funext t
    rw [htmlAllowed_eq]
    rfl
  rw [hp]
  unfold installPlan
  simp only []
  apply wrapperRun_rel
  apply filesAndTrees_rel
  unfold dohtmlTargets
  cases o.recursive <;> simp

/-- a successful `dohtml` plan, spelled out: directories only with `-r`; the trees of the directory arguments not
named by `-x`, the file arguments that pass the suffix / `-f` test under their own names, all below `--dest` joined
with the `-p` prefix -/
theorem dohtml_ok (c : Ctx) (o : HtmlOpts) (ts : List Target) (ops : List Op)
    (hok : installPlan (.dohtml o) c ts = .ok ops) :
    ∃ ds fs,
      (ts.filter (·.isDir) ≠ [] → o.recursive = true) ∧
      trees { c with dest := pjoin c.dest (lstripSlash o.docPrefix) }
        ((ts.filter (·.isDir)).filter fun d => !o.xDirs.contains d.arg) = .ok ds ∧
      byName { c with dest := pjoin c.dest (lstripSlash o.docPrefix) }
        ((ts.filter (!·.isDir)).filter fun t =>
          (hasStem (splitOn '.' (lastComp t.arg)) &&
              (htmlAllowedExts o).contains ((splitOn '.' (lastComp t.arg)).getLast?.getD [])) ||
            (!hasStem (splitOn '.' (lastComp t.arg)) && (htmlAllowedExts o).contains []) ||
            o.fFiles.contains (lastComp t.arg)) = .ok fs ∧
      (ops.map Op.toEntry).Perm
        (Entry.dir (toPath (pjoin c.dest (lstripSlash o.docPrefix))) none :: (ds ++ fs)) := by
  have h := dohtml_rel c o ts
  rw [hok] at h
  unfold prescribed withDest filesAndTrees isDirArg htmlAllowedExts at *
  simp only [] at h
  cases hargs : argsOk ts with
  | error e => rw [hargs] at h; simp [TreeRel, bind, Except.bind] at h
  | ok _ =>
    rw [hargs] at h
    by_cases hd : ts.filter (·.isDir) ≠ [] ∧ (!o.recursive) = true
    · rw [if_pos hd] at h; simp [TreeRel, bind, Except.bind] at h
    · rw [if_neg hd] at h
      revert h
      generalize trees _ _ = T
      generalize byName _ _ = B
      intro h
      cases T with
      | error e => simp [TreeRel, bind, Except.bind] at h
      | ok ds =>
        cases B with
        | error e => simp [TreeRel, bind, Except.bind] at h
        | ok fs =>
          refine ⟨ds, fs, ?_, rfl, rfl, ?_⟩
          · intro hne
            cases hr : o.recursive with
            | true => rfl
            | false => exact absurd ⟨hne, by simp [hr]⟩ hd
          · simpa [TreeRel, bind, Except.bind, pure, Except.pure] using h

/-! ## dohard with a link name ending in a slash: rejected when the plan is run -/

theorem placeLeaf_dir_error (fs : Fs) (p : Path) (n : Node) (h : fs.isDir p = true) :
    ∃ e, placeLeaf fs p n = .error e := by
  unfold placeLeaf
  by_cases hp : p = []
  · rw [if_pos hp]; exact ⟨_, rfl⟩
  · rw [if_neg hp]
    split
    · exact ⟨_, rfl⟩
    · split
      · exact ⟨_, rfl⟩
      · cases hfp : fs p with
        | none => simp [Fs.isDir, hp, hfp] at h
        | some nd =>
          cases nd with
          | dir m => exact ⟨_, rfl⟩
          | file m id => simp [Fs.isDir, hp, hfp] at h
          | link t a b => simp [Fs.isDir, hp, hfp] at h

theorem hardlink_onto_dir_error (u : Umask) (fs : Fs) (src p : Path) (h : fs.isDir p = true) :
    ∃ e, applyOp u fs (.hardlink src p) = .error e := by
  unfold applyOp
  split
  · exact ⟨_, rfl⟩
  · simp only [applyOpRaw]
    cases fs src with
    | none => exact ⟨_, rfl⟩
    | some nd =>
      cases nd with
      | dir m => exact ⟨_, rfl⟩
      | link t a b => exact ⟨_, rfl⟩
      | file m id =>
        simp only []
        split
        · exact ⟨_, rfl⟩
        · exact placeLeaf_dir_error fs p _ h

theorem dohard_trailing_slash_run (c : Ctx) (hc : toPath c.dest = []) (u : Umask) (fs : Fs) (source d : Str) :
    dohardPlan c source (d ++ ['/']) =
      .ok [Op.mkdirs (toPath d) c.dirMode, Op.hardlink (toPath source) (toPath d)] ∧
    ∃ e, execute u fs (dohardPlan c source (d ++ ['/'])) = .error e := by
  have hplan : dohardPlan c source (d ++ ['/']) =
      .ok [Op.mkdirs (toPath d) c.dirMode, Op.hardlink (toPath source) (toPath d)] := by
    unfold dohardPlan symlinkRun
    have hr : rsplit1Head '/' (d ++ ['/']) = d := rsplit1Head_decomp '/' d [] (by simp)
    simp [hr, prefixed, hc, toPath_snoc_slash, pure, Except.pure]
  refine ⟨hplan, ?_⟩
  rw [hplan]
  simp only [execute, runOps]
  cases h1 : applyOp u fs (Op.mkdirs (toPath d) c.dirMode) with
  | error e => exact ⟨e, rfl⟩
  | ok fs1 =>
    have hl := (applyOp_facts u fs fs1 _ h1).2
    have hdir : fs1.isDir (toPath d) = true := by
      simp only [Op.path] at hl
      cases hm : c.dirMode with
      | none =>
        rw [hm] at hl
        rcases hl with h | ⟨m, h⟩
        · simp [Fs.isDir, h]
        · simp [Fs.isDir, h]
      | some a =>
        rw [hm] at hl
        rcases hl with h | ⟨m, h⟩
        · simp [Fs.isDir, h]
        · simp [Fs.isDir, h]
    obtain ⟨e, he⟩ := hardlink_onto_dir_error u fs1 (toPath source) (toPath d) hdir
    simp only [he]
    exact ⟨e, rfl⟩

end Pkgcore.C33
