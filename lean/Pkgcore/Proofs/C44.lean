import Pkgcore.Spec.C44
import Pkgcore.Proofs.C01
/-!
# C44 — helper lemmas: glob matching, Python string primitives on rendered queries, evaluation of restriction lists
-/
namespace Pkgcore.C44
open Spec

/-! ## shell patterns -/

theorem globMatch_nil (s : Str) : globMatch [] s = s.isEmpty := by rw [globMatch.eq_def]

theorem globMatch_star (p s : Str) :
    globMatch ('*' :: p) s = (globMatch p s || (match s with | [] => false | _ :: s' => globMatch ('*' :: p) s')) := by
  conv => lhs; rw [globMatch.eq_def]
  cases s <;> simp

theorem globMatch_lit (c : Char) (hc : c ≠ '*') (p s : Str) :
    globMatch (c :: p) s = (match s with | [] => false | x :: s' => decide (x = c) && globMatch p s') := by
  conv => lhs; rw [globMatch.eq_def]
  cases s <;> simp [hc]

theorem any_tails_eq (f : Str → Bool) (p : Str) (hf : ∀ s, f s = globMatch p s) (s : Str) :
    (tails s).any f = globMatch ('*' :: p) s := by
  induction s with
  | nil => rw [globMatch_star]; simp [tails, hf]
  | cons x s ih => rw [globMatch_star]; simp [tails, hf, ih]

theorem matchItems_eq_globMatch (p s : Str) : matchItems (compileGlob p) s = globMatch p s := by
  induction p generalizing s with
  | nil => simp [compileGlob, matchItems, globMatch_nil]
  | cons c p ih =>
    by_cases hc : c = '*'
    · subst hc
      have : compileGlob ('*' :: p) = Item.any :: compileGlob p := by simp [compileGlob]
      rw [this]
      simp only [matchItems]
      exact any_tails_eq _ p ih s
    · have : compileGlob (c :: p) = Item.lit c :: compileGlob p := by simp [compileGlob, hc]
      rw [this, globMatch_lit c hc]
      cases s with
      | nil => simp [matchItems]
      | cons x s' => simp [matchItems, ih]

theorem globMatch_star_only (s : Str) : globMatch ['*'] s = true := by
  induction s with
  | nil => rw [globMatch_star]; simp [globMatch_nil]
  | cons x s ih => rw [globMatch_star]; simp [ih]

theorem globMatch_nostar (p : Str) (hp : '*' ∉ p) (s : Str) : globMatch p s = decide (s = p) := by
  induction p generalizing s with
  | nil => rw [globMatch_nil]; cases s <;> simp
  | cons c p ih =>
    have hc : c ≠ '*' := fun e => hp (by simp [e])
    have hp' : '*' ∉ p := fun h => hp (by simp [h])
    rw [globMatch_lit c hc]
    cases s with
    | nil => simp
    | cons x s' => simp [ih hp']

/-! ## Python string primitives -/

theorem rsplit1_none {c : Char} {s : Str} (h : c ∉ s) : rsplit1 c s = none := by
  induction s with
  | nil => rfl
  | cons x xs ih =>
    have hx : x ≠ c := fun e => h (by simp [e])
    have := ih (fun hm => h (by simp [hm]))
    simp [rsplit1, this, hx]

theorem rsplit1_append {c : Char} (a b : Str) (h : c ∉ b) : rsplit1 c (a ++ c :: b) = some (a, b) := by
  induction a with
  | nil => simp [rsplit1, rsplit1_none h]
  | cons x a ih => simp [rsplit1, ih]

theorem startsColons_ne {x : Char} (xs : Str) (hx : x ≠ ':') : startsColons (x :: xs) = none := by
  unfold startsColons
  split
  · rename_i heq; cases heq; exact absurd rfl hx
  · rfl

theorem startsColons_one {v : Str} (hv : ':' ∉ v) : startsColons (':' :: v) = none := by
  unfold startsColons
  split
  · rename_i heq; cases heq; exact absurd (by simp) hv
  · rfl

theorem rsplit2_none {s : Str} (h : ':' ∉ s) : rsplit2 s = none := by
  induction s with
  | nil => rfl
  | cons x xs ih =>
    have hx : x ≠ ':' := fun e => h (by simp [e])
    have := ih (fun hm => h (by simp [hm]))
    unfold rsplit2
    rw [this, startsColons_ne xs hx]; rfl

theorem rsplit2_none_one {u v : Str} (hu : ':' ∉ u) (hv : ':' ∉ v) : rsplit2 (u ++ ':' :: v) = none := by
  induction u with
  | nil =>
    simp only [List.nil_append]
    unfold rsplit2
    rw [rsplit2_none hv, startsColons_one hv]; rfl
  | cons x u ih =>
    have hx : x ≠ ':' := fun e => hu (by simp [e])
    have := ih (fun hm => hu (by simp [hm]))
    simp only [List.cons_append]
    unfold rsplit2
    rw [this, startsColons_ne _ hx]; rfl

theorem rsplit2_append (a b : Str) (h : ':' ∉ b) : rsplit2 (a ++ ':' :: ':' :: b) = some (a, b) := by
  induction a with
  | nil =>
    have h1 : rsplit2 (':' :: b) = none := rsplit2_none_one (u := []) (by simp) h
    simp only [List.nil_append]
    unfold rsplit2
    rw [h1]; rfl
  | cons x a ih =>
    simp only [List.cons_append]
    unfold rsplit2
    rw [ih]

theorem partition1_none {c : Char} {a : Str} (h : c ∉ a) : partition1 c a = (a, []) := by
  induction a with
  | nil => rfl
  | cons x a ih =>
    have hx : x ≠ c := fun e => h (by simp [e])
    have := ih (fun hm => h (by simp [hm]))
    simp [partition1, hx, this]

theorem partition1_append {c : Char} (a b : Str) (h : c ∉ a) : partition1 c (a ++ c :: b) = (a, b) := by
  induction a with
  | nil => simp [partition1]
  | cons x a ih =>
    have hx : x ≠ c := fun e => h (by simp [e])
    have := ih (fun hm => h (by simp [hm]))
    simp [partition1, hx, this]

theorem dropWhile_id {p : Char → Bool} {s : Str} (h : ∀ c ∈ s, p c = false) : s.dropWhile p = s := by
  cases s with
  | nil => rfl
  | cons x s => simp [List.dropWhile, h x (by simp)]

theorem strip_id {s : Str} (h : ∀ c ∈ s, isWs c = false) : strip s = s := by
  unfold strip
  rw [dropWhile_id h, dropWhile_id (by intro c hc; exact h c (by simpa using hc)), List.reverse_reverse]

/-! ## evaluation of restriction lists -/

theorem evalAll_append {A : Type} (env : AtomEnv A) (p : Pkg) (a b : List (R A)) :
    R.evalAll env p (a ++ b) = (R.evalAll env p a && R.evalAll env p b) := by
  induction a with
  | nil => simp [R.evalAll]
  | cons r a ih => simp [R.evalAll, ih, Bool.and_assoc]

theorem eval_mkAnd {A : Type} (env : AtomEnv A) (p : Pkg) (rs : List (R A)) :
    (mkAnd rs).eval env p = R.evalAll env p rs := by
  unfold mkAnd
  split
  · simp [R.evalAll]
  · simp [R.eval]

/-! ## one-step unfoldings of `parseMatch` -/

theorem prepL_ok {A : Type} {s : Str} {p : Prep A} (h : prep s = .ok p) :
    ∃ hp, prepL (A := A) s = .ok ⟨p, hp⟩ := by
  unfold prepL
  split
  · rename_i p' h'
    rw [h] at h'
    cases h'
    exact ⟨prep_length h, rfl⟩
  · rename_i e h'
    rw [h] at h'
    cases h'

theorem prepL_err {A : Type} {s : Str} {e : Err} (h : prep (A := A) s = .error e) :
    prepL (A := A) s = .error e := by
  unfold prepL
  split
  · rename_i p' h'
    rw [h] at h'
    cases h'
  · rename_i e' h'
    rw [h] at h'

theorem globbedSplitL_ok {t op chunk : Str} {v : C01.Ver} (h : globbedSplit t = .ok (op, v, chunk)) :
    ∃ hg, globbedSplitL t = .ok ⟨(op, v, chunk), hg⟩ := by
  unfold globbedSplitL
  split
  · rename_i o' v' c' h'
    rw [h] at h'
    cases h'
    exact ⟨globbedSplit_length h, rfl⟩
  · rename_i e h'
    rw [h] at h'
    cases h'

theorem parseMatch_err {A : Type} (env : AtomEnv A) {s : Str} {e : Err} (h : prep (A := A) s = .error e) :
    parseMatch env s = .error e := by
  rw [parseMatch, prepL_err h]

theorem parseMatch_nocat {A : Type} (env : AtomEnv A) {s : Str} {p : Prep A} (h : prep s = .ok p)
    (hs : rsplit1 '/' p.text = none) : parseMatch env s = noCategory env p := by
  obtain ⟨hp, e⟩ := prepL_ok h
  rw [parseMatch, e]
  simp only [hs]

theorem parseMatch_generic {A : Type} (env : AtomEnv A) {s : Str} {p : Prep A} (h : prep s = .ok p) {c n : Str}
    (hs : rsplit1 '/' p.text = some (c, n)) (hop : (p.text.head?.map isOpChar).getD false = false) (hstar : '*' ∈ p.text) :
    parseMatch env s = generic p c n := by
  obtain ⟨hp, e⟩ := prepL_ok h
  rw [parseMatch, e]
  simp only [hs, hop, hstar]
  simp

theorem parseMatch_atom {A : Type} (env : AtomEnv A) {s : Str} {p : Prep A} (h : prep s = .ok p) {c n : Str}
    (hs : rsplit1 '/' p.text = some (c, n)) (hcond : (p.text.head?.map isOpChar).getD false = true ∨ '*' ∉ p.text)
    {a : A} (ha : env.parse p.orig = some a) : parseMatch env s = .ok (.atom a) := by
  obtain ⟨hp, e⟩ := prepL_ok h
  rw [parseMatch, e]
  simp only [hs, ha]
  rw [if_pos hcond]

theorem parseMatch_globbed {A : Type} (env : AtomEnv A) {s : Str} {p : Prep A} (h : prep s = .ok p) {c n : Str}
    (hs : rsplit1 '/' p.text = some (c, n)) (hop : (p.text.head?.map isOpChar).getD false = true)
    (ha : env.parse p.orig = none) (hstar : '*' ∈ p.text) {op chunk : Str} {v : C01.Ver}
    (hg : globbedSplit p.text = .ok (op, v, chunk)) :
    parseMatch env s = match parseMatch env chunk with
      | .error e => .error e
      | .ok inner => .ok (.and (p.restrictions ++ [.version op v, inner])) := by
  obtain ⟨hp, e⟩ := prepL_ok h
  obtain ⟨hg', e'⟩ := globbedSplitL_ok hg
  rw [parseMatch, e]
  simp only [hs, ha, e']
  rw [if_pos (Or.inl hop), if_pos hstar]
  cases parseMatch env chunk <;> rfl

theorem parseMatch_slotglob {A : Type} (env : AtomEnv A) {s : Str} {p : Prep A} (h : prep s = .ok p) {c n : Str}
    (hs : rsplit1 '/' p.text = some (c, n)) (ha : env.parse p.orig = none) (hstar : '*' ∉ p.text)
    (hg : p.globbedSlot = true) :
    parseMatch env s = match env.parse p.text with
      | some a => .ok (.and (p.restrictions ++ [.atom a]))
      | none => .error .parse := by
  obtain ⟨hp, e⟩ := prepL_ok h
  rw [parseMatch, e]
  simp only [hs, ha]
  rw [if_pos (Or.inr hstar), if_neg hstar]
  simp only [hg, Bool.not_true, Bool.false_eq_true, if_false]
  cases env.parse p.text <;> rfl

/-! ## characters of well-formed query parts -/

/-- characters allowed in a pattern part -/
def Plain (s : Str) : Prop := ∀ c ∈ s, isGlobChar c = true ∨ c = '*'

instance (s : Str) : Decidable (Plain s) := inferInstanceAs (Decidable (∀ c ∈ s, isGlobChar c = true ∨ c = '*'))

theorem plain_char {c : Char} (h : isGlobChar c = true ∨ c = '*') :
    c ≠ ':' ∧ c ≠ '/' ∧ c ≠ '!' ∧ isWs c = false ∧ isOpChar c = false := by
  refine ⟨?_, ?_, ?_, ?_, ?_⟩
  · rintro rfl; revert h; decide
  · rintro rfl; revert h; decide
  · rintro rfl; revert h; decide
  · cases hw : isWs c with
    | false => rfl
    | true =>
      simp only [isWs, Bool.or_eq_true, decide_eq_true_eq] at hw
      rcases hw with ((((rfl | rfl) | rfl) | rfl) | rfl) | rfl <;> revert h <;> decide
  · cases hw : isOpChar c with
    | false => rfl
    | true =>
      simp only [isOpChar, Bool.or_eq_true, decide_eq_true_eq] at hw
      rcases hw with ((rfl | rfl) | rfl) | rfl <;> revert h <;> decide

theorem opchar_facts {c : Char} (h : isOpChar c = true) : c ≠ ':' ∧ c ≠ '/' ∧ c ≠ '!' ∧ isWs c = false ∧ c ≠ '*' ∧ c ≠ '-' := by
  simp only [isOpChar, Bool.or_eq_true, decide_eq_true_eq] at h
  rcases h with ((rfl | rfl) | rfl) | rfl <;> decide

/-! ## `convert_glob` on a well-formed part -/

structure PartOk (s : Str) : Prop where
  ne : s ≠ []
  plain : Plain s
  valid : '*' ∈ s → validGlob s = true

def testOpt : Option VMatch → Str → Bool
  | none, _ => true
  | some m, x => m.test x

theorem convertGlob_spec {pat : Str} (h : PartOk pat) :
    ∃ r, convertGlob pat = .ok r ∧ ∀ x, testOpt r x = globMatch pat x := by
  unfold convertGlob
  by_cases h1 : pat = ['*']
  · subst h1
    exact ⟨none, by simp, fun x => by simp [testOpt, globMatch_star_only]⟩
  · have h0 : ¬ (pat = ['*'] ∨ pat = []) := fun e => e.elim h1 h.ne
    rw [if_neg h0]
    by_cases h2 : '*' ∈ pat
    · rw [if_neg (by simpa using h2), h.valid h2]
      exact ⟨_, rfl, fun x => by simp [testOpt, VMatch.test, matchItems_eq_globMatch]⟩
    · rw [if_pos h2]
      exact ⟨_, rfl, fun x => by simp [testOpt, VMatch.test, globMatch_nostar pat h2]⟩

theorem slotRestr_spec {A : Type} (env : AtomEnv A) (attr : Attr) {s : Str} (h : PartOk s) :
    ∃ rs, slotRestr (A := A) attr s = .ok rs ∧ ∀ pk, R.evalAll env pk rs = globMatch s (pk.get attr) := by
  unfold slotRestr
  rw [if_neg h.ne]
  by_cases h2 : '*' ∈ s
  · rw [if_pos h2]
    obtain ⟨r, hr, ht⟩ := convertGlob_spec h
    rw [hr]
    cases r with
    | none => exact ⟨[], rfl, fun pk => by simpa [R.evalAll, testOpt] using ht (pk.get attr)⟩
    | some m => exact ⟨_, rfl, fun pk => by simpa [R.evalAll, R.eval, testOpt] using ht (pk.get attr)⟩
  · rw [if_neg h2]
    exact ⟨_, rfl, fun pk => by simp [R.evalAll, R.eval, VMatch.test, globMatch_nostar s h2]⟩

theorem generic_spec {A : Type} (env : AtomEnv A) (p : Prep A) {cat pkg : Str} (hc : PartOk cat) (hp : PartOk pkg) :
    ∃ r, generic p cat pkg = .ok r ∧
      ∀ pk, r.eval env pk = (R.evalAll env pk p.restrictions && globMatch cat pk.category && globMatch pkg pk.package) := by
  obtain ⟨rc, hrc, htc⟩ := convertGlob_spec hc
  obtain ⟨rp, hrp, htp⟩ := convertGlob_spec hp
  unfold generic
  rw [hrc, hrp]
  cases rc <;> cases rp <;> refine ⟨_, rfl, fun pk => ?_⟩ <;>
    simp [eval_mkAnd, evalAll_append, R.evalAll, R.eval, Pkg.get, ← htc, ← htp, testOpt, Bool.and_assoc]

theorem collectOps_plain {s : Str} (hne : s ≠ []) (h : Plain s) : collectOps s = ([], s) := by
  cases s with
  | nil => exact absurd rfl hne
  | cons x s =>
    have := (plain_char (h x (by simp))).2.2.2.2
    simp [collectOps, List.takeWhile, List.dropWhile, this]

theorem noCategory_glob_spec {A : Type} (env : AtomEnv A) (p : Prep A) (hp : PartOk p.text) (hstar : '*' ∈ p.text) :
    ∃ r, noCategory env p = .ok r ∧
      ∀ pk, r.eval env pk = (R.evalAll env pk p.restrictions && globMatch p.text pk.package) := by
  obtain ⟨rp, hrp, htp⟩ := convertGlob_spec hp
  unfold noCategory
  rw [collectOps_plain hp.ne hp.plain]
  simp only [hstar, and_self, if_true, hrp]
  cases rp <;> refine ⟨_, rfl, fun pk => ?_⟩ <;>
    simp [eval_mkAnd, evalAll_append, R.evalAll, R.eval, Pkg.get, ← htp, testOpt]

/-! ## the slot / repository tail of a query and the first part of `parse_match` -/

abbrev Safe (c : Char) : Prop := c ≠ ':' ∧ c ≠ '!' ∧ isWs c = false
def SafeS (s : Str) : Prop := ∀ c ∈ s, Safe c

theorem SafeS.append {a b : Str} (ha : SafeS a) (hb : SafeS b) : SafeS (a ++ b) := by
  intro c hc; rw [List.mem_append] at hc; exact hc.elim (ha c) (hb c)
theorem SafeS.cons {x : Char} {a : Str} (hx : Safe x) (ha : SafeS a) : SafeS (x :: a) := by
  intro c hc; rw [List.mem_cons] at hc; rcases hc with rfl | hc; exact hx; exact ha c hc
theorem SafeS.nil : SafeS [] := by intro c hc; cases hc
theorem Plain.safe {s : Str} (h : Plain s) : SafeS s := fun c hc =>
  let f := plain_char (h c hc); ⟨f.1, f.2.2.1, f.2.2.2.1⟩
theorem safe_slash : Safe '/' := by decide
theorem safe_dash : Safe '-' := by decide
theorem SafeS.noColon {s : Str} (h : SafeS s) : ':' ∉ s := fun hc => (h _ hc).1 rfl
theorem SafeS.noBang {s : Str} (h : SafeS s) : '!' ∉ s := fun hc => (h _ hc).2.1 rfl
theorem SafeS.noWs {s : Str} (h : SafeS s) : ∀ c ∈ s, isWs c = false := fun c hc => (h c hc).2.2
theorem opchars_safe {o : Str} (h : ∀ c ∈ o, isOpChar c = true) : SafeS o := fun c hc =>
  let f := opchar_facts (h c hc); ⟨f.1, f.2.2.1, f.2.2.2.1⟩

/-- `[:slot[/subslot]][::repo]` -/
structure Tail where
  slot : Option (Str × Option Str)
  repo : Option Str

def Tail.slotTxt (t : Tail) : Option Str :=
  match t.slot with
  | none => none
  | some (s, none) => some s
  | some (s, some ss) => some (s ++ '/' :: ss)

def Tail.render (t : Tail) : Str :=
  (match t.slotTxt with | none => [] | some x => ':' :: x) ++ (match t.repo with | some r => ':' :: ':' :: r | none => [])

structure Tail.Wf (t : Tail) : Prop where
  slot : ∀ s ss, t.slot = some (s, ss) → PartOk s ∧ ∀ x, ss = some x → PartOk x
  repo : ∀ r, t.repo = some r → Plain r

def Tail.slotOK (t : Tail) (p : Pkg) : Bool :=
  match t.slot with
  | none => true
  | some (s, none) => globMatch s p.slot
  | some (s, some ss) => globMatch s p.slot && globMatch ss p.subslot

def Tail.repoOK (t : Tail) (p : Pkg) : Bool :=
  match t.repo with | some r => p.repo = r | none => true

def Tail.slotGlob (t : Tail) : Bool :=
  match t.slotTxt with | none => false | some x => decide ('*' ∈ x)

theorem Tail.slotTxt_safe {t : Tail} (ht : t.Wf) {x : Str} (hx : t.slotTxt = some x) : SafeS x := by
  unfold Tail.slotTxt at hx
  rcases hs : t.slot with _ | ⟨s, _ | ss⟩
  · simp [hs] at hx
  · simp only [hs, Option.some.injEq] at hx; subst hx
    exact (ht.slot s none hs).1.plain.safe
  · simp only [hs, Option.some.injEq] at hx; subst hx
    exact SafeS.append (ht.slot s _ hs).1.plain.safe (SafeS.cons safe_slash ((ht.slot s _ hs).2 ss rfl).plain.safe)

theorem tail_safe_parts {b : Str} (hb : SafeS b) {t : Tail} (ht : t.Wf) :
    (∀ c ∈ b ++ t.render, isWs c = false) ∧ '!' ∉ b ++ t.render := by
  unfold Tail.render
  constructor
  · intro c hc
    simp only [List.mem_append] at hc
    rcases hc with hc | hc | hc
    · exact hb.noWs c hc
    · rcases hx : t.slotTxt with _ | x
      · simp [hx] at hc
      · simp only [hx, List.mem_cons] at hc
        rcases hc with rfl | hc
        · decide
        · exact (Tail.slotTxt_safe ht hx).noWs c hc
    · rcases hr : t.repo with _ | r
      · simp [hr] at hc
      · simp only [hr, List.mem_cons] at hc
        rcases hc with rfl | rfl | hc
        · decide
        · decide
        · exact (ht.repo r hr).safe.noWs c hc
  · intro hc
    simp only [List.mem_append] at hc
    rcases hc with hc | hc | hc
    · exact hb.noBang hc
    · rcases hx : t.slotTxt with _ | x
      · simp [hx] at hc
      · simp only [hx, List.mem_cons] at hc
        rcases hc with hc | hc
        · exact absurd hc (by decide)
        · exact (Tail.slotTxt_safe ht hx).noBang hc
    · rcases hr : t.repo with _ | r
      · simp [hr] at hc
      · simp only [hr, List.mem_cons] at hc
        rcases hc with hc | hc | hc
        · exact absurd hc (by decide)
        · exact absurd hc (by decide)
        · exact (ht.repo r hr).safe.noBang hc

/-- the slot part of `prep` on `b ++ [":" slotTxt]` -/
theorem prep_slot {A : Type} (env : AtomEnv A) {b : Str} (hb : SafeS b) {t : Tail} (ht : t.Wf) (orig : Str) (r0 : List (R A)) :
    ∃ rs, (match rsplit1 ':' (b ++ (match t.slotTxt with | none => [] | some x => ':' :: x)) with
        | none => (.ok ⟨orig, b ++ (match t.slotTxt with | none => [] | some x => ':' :: x), r0, false⟩ : Except Err (Prep A))
        | some (t', slotTxt) =>
          let (slot, subslot) := partition1 '/' slotTxt
          match slotRestr (A := A) .slot slot with
          | .error e => .error e
          | .ok r1 =>
            match slotRestr (A := A) .subslot subslot with
            | .error e => .error e
            | .ok r2 => .ok ⟨orig, t', r0 ++ r1 ++ r2, decide ('*' ∈ slotTxt)⟩) = .ok ⟨orig, b, rs, t.slotGlob⟩ ∧
      ∀ pk, R.evalAll env pk rs = (R.evalAll env pk r0 && t.slotOK pk) := by
  unfold Tail.slotGlob Tail.slotTxt Tail.slotOK
  rcases hs : t.slot with _ | ⟨s, _ | ss⟩
  · simp only [List.append_nil]
    rw [rsplit1_none hb.noColon]
    exact ⟨r0, rfl, fun pk => by simp⟩
  · have h1 := ht.slot s none hs
    simp only
    rw [rsplit1_append _ _ h1.1.plain.safe.noColon]
    have hsl : '/' ∉ s := fun hc => (plain_char (h1.1.plain _ hc)).2.1 rfl
    simp only [partition1_none hsl]
    obtain ⟨r1, e1, t1⟩ := slotRestr_spec env .slot h1.1
    rw [e1]
    simp only [slotRestr, if_true]
    exact ⟨_, rfl, fun pk => by simp [evalAll_append, t1, Pkg.get]⟩
  · have h1 := ht.slot s (some ss) hs
    have h2 := h1.2 ss rfl
    have hsafe : SafeS (s ++ '/' :: ss) := SafeS.append h1.1.plain.safe (SafeS.cons safe_slash h2.plain.safe)
    simp only
    rw [rsplit1_append _ _ hsafe.noColon]
    have hsl : '/' ∉ s := fun hc => (plain_char (h1.1.plain _ hc)).2.1 rfl
    simp only [partition1_append _ _ hsl]
    obtain ⟨r1, e1, t1⟩ := slotRestr_spec env .slot h1.1
    obtain ⟨r2, e2, t2⟩ := slotRestr_spec env .subslot h2
    rw [e1, e2]
    exact ⟨_, rfl, fun pk => by simp [evalAll_append, t1, t2, Pkg.get]⟩

/-- **the first part of `parse_match`** on `b ++ [":" slot ["/" subslot]] ["::" repo]` for any text `b` free of
`:`, `!` and white space: the text is recovered and the collected restrictions mean "slot, sub-slot and
repository are as described" -/
theorem prep_tail {A : Type} (env : AtomEnv A) {b : Str} (hb : SafeS b) {t : Tail} (ht : t.Wf) :
    ∃ rs, prep (A := A) (b ++ t.render) = .ok ⟨b ++ t.render, b, rs, t.slotGlob⟩ ∧
      ∀ pk, R.evalAll env pk rs = (t.repoOK pk && t.slotOK pk) := by
  have hsafe := tail_safe_parts hb ht
  unfold prep
  simp only [strip_id hsafe.1, hsafe.2, if_false]
  unfold Tail.repoOK
  rcases hr : t.repo with _ | r
  · have hre : b ++ t.render = b ++ (match t.slotTxt with | none => [] | some x => ':' :: x) := by
      simp [Tail.render, hr]
    have hnone : rsplit2 (b ++ t.render) = none := by
      rw [hre]
      rcases hx : t.slotTxt with _ | x
      · simpa using rsplit2_none hb.noColon
      · exact rsplit2_none_one hb.noColon (Tail.slotTxt_safe ht hx).noColon
    rw [hnone]
    simp only
    obtain ⟨rs, e, h⟩ := prep_slot env hb ht (b ++ t.render) []
    rw [hre] at e ⊢
    exact ⟨rs, e, fun pk => by simp [h, R.evalAll]⟩
  · have hre : b ++ t.render = (b ++ (match t.slotTxt with | none => [] | some x => ':' :: x)) ++ ':' :: ':' :: r := by
      simp [Tail.render, hr]
    have hsome : rsplit2 (b ++ t.render) = some (b ++ (match t.slotTxt with | none => [] | some x => ':' :: x), r) := by
      rw [hre]; exact rsplit2_append _ _ (ht.repo r hr).safe.noColon
    rw [hsome]
    simp only
    obtain ⟨rs, e, h⟩ := prep_slot env hb ht (b ++ t.render) [R.repo r]
    exact ⟨rs, e, fun pk => by simp [h, R.evalAll, R.eval]⟩

/-! ## well-formed glob queries -/

def IsOp (o : Str) : Prop :=
  o = ['<'] ∨ o = ['<', '='] ∨ o = ['='] ∨ o = ['>', '='] ∨ o = ['>'] ∨ o = ['~']

theorem IsOp.safe {o : Str} (h : IsOp o) : SafeS o := by
  rcases h with rfl | rfl | rfl | rfl | rfl | rfl <;> intro c hc <;> simp at hc <;>
    (try rcases hc with rfl | rfl) <;> (try subst hc) <;> decide

def tailOf (q : Query) : Tail := ⟨q.slot, q.repo⟩

/-- the class of glob query strings (`render q` for a well-formed `q`) -/
structure Wf (q : Query) : Prop where
  pkg : PartOk q.pkg
  cat : ∀ c, q.cat = some c → PartOk c
  tail : (tailOf q).Wf
  op : ∀ o vt v, q.op = some (o, vt, v) →
    IsOp o ∧ lexVer vt = some v ∧ Plain vt ∧ '-' ∉ vt ∧ '*' ∉ vt ∧ q.cat.isSome = true
  glob : match q.cat with
    | none => '*' ∈ q.pkg
    | some c => '*' ∈ c ∨ '*' ∈ q.pkg

def body (q : Query) : Str :=
  (match q.op with | some (o, _, _) => o | none => []) ++
  (match q.cat with | some c => c ++ ['/'] | none => []) ++
  q.pkg ++
  (match q.op with | some (_, v, _) => '-' :: v | none => [])

theorem render_eq (q : Query) : render q = body q ++ (tailOf q).render := by
  obtain ⟨op, cat, pkg, slot, repo⟩ := q
  rcases op with _ | ⟨o, vt, v⟩ <;> rcases cat with _ | c <;> rcases slot with _ | ⟨s, _ | ss⟩ <;>
    rcases repo with _ | r <;> simp [render, body, tailOf, Tail.render, Tail.slotTxt]

theorem body_safe {q : Query} (hq : Wf q) : SafeS (body q) := by
  unfold body
  refine SafeS.append (SafeS.append (SafeS.append ?_ ?_) hq.pkg.plain.safe) ?_
  · rcases ho : q.op with _ | ⟨o, vt, v⟩
    · exact SafeS.nil
    · exact (hq.op o vt v ho).1.safe
  · rcases hc : q.cat with _ | c
    · exact SafeS.nil
    · exact SafeS.append (hq.cat c hc).plain.safe (SafeS.cons safe_slash SafeS.nil)
  · rcases ho : q.op with _ | ⟨o, vt, v⟩
    · exact SafeS.nil
    · exact SafeS.cons safe_dash (hq.op o vt v ho).2.2.1.safe

def slotOK (q : Query) (p : Pkg) : Bool := (tailOf q).slotOK p
def repoOK (q : Query) (p : Pkg) : Bool := (tailOf q).repoOK p

theorem prep_render {A : Type} (env : AtomEnv A) {q : Query} (hq : Wf q) :
    ∃ rs g, prep (A := A) (render q) = .ok ⟨render q, body q, rs, g⟩ ∧
      ∀ pk, R.evalAll env pk rs = (repoOK q pk && slotOK q pk) := by
  obtain ⟨rs, e, h⟩ := prep_tail env (body_safe hq) hq.tail
  rw [← render_eq] at e
  exact ⟨rs, _, e, h⟩

/-! ## the version restriction -/

theorem versionTest_eq {o : Str} (ho : IsOp o) (v : C01.Ver) (pk : Pkg) : versionTest o v pk = versionHolds o v pk := by
  have ok : C01.RevsOk (some pk.rev) (some []) := Or.inr ⟨rfl, rfl⟩
  have ok0 : C01.RevsOk none none := Or.inl ⟨rfl, rfl⟩
  rcases ho with rfl | rfl | rfl | rfl | rfl | rfl
  · have h1 : C01.opVals (String.ofList ['<']) = some ([-1], false) := by decide
    unfold versionTest versionHolds
    rw [h1]
    simp only [C01.versionMatch, Bool.false_eq_true, if_false, if_true, C01.verCmp_eq_pms_aux _ _ _ _ ok, C01.verCmp_eq_pms_aux _ _ _ _ ok0]
    generalize C01.Spec.pmsCmp pk.ver (some pk.rev) v (some []) = c1
    generalize C01.Spec.pmsCmp pk.ver none v none = c2
    cases c1 <;> cases c2 <;> decide
  · have h1 : C01.opVals (String.ofList ['<', '=']) = some ([-1, 0], false) := by decide
    unfold versionTest versionHolds
    rw [h1]
    simp only [C01.versionMatch, Bool.false_eq_true, if_false, if_true, C01.verCmp_eq_pms_aux _ _ _ _ ok, C01.verCmp_eq_pms_aux _ _ _ _ ok0]
    generalize C01.Spec.pmsCmp pk.ver (some pk.rev) v (some []) = c1
    generalize C01.Spec.pmsCmp pk.ver none v none = c2
    cases c1 <;> cases c2 <;> decide
  · have h1 : C01.opVals (String.ofList ['=']) = some ([0], false) := by decide
    unfold versionTest versionHolds
    rw [h1]
    simp only [C01.versionMatch, Bool.false_eq_true, if_false, if_true, C01.verCmp_eq_pms_aux _ _ _ _ ok, C01.verCmp_eq_pms_aux _ _ _ _ ok0]
    generalize C01.Spec.pmsCmp pk.ver (some pk.rev) v (some []) = c1
    generalize C01.Spec.pmsCmp pk.ver none v none = c2
    cases c1 <;> cases c2 <;> decide
  · have h1 : C01.opVals (String.ofList ['>', '=']) = some ([0, 1], false) := by decide
    unfold versionTest versionHolds
    rw [h1]
    simp only [C01.versionMatch, Bool.false_eq_true, if_false, if_true, C01.verCmp_eq_pms_aux _ _ _ _ ok, C01.verCmp_eq_pms_aux _ _ _ _ ok0]
    generalize C01.Spec.pmsCmp pk.ver (some pk.rev) v (some []) = c1
    generalize C01.Spec.pmsCmp pk.ver none v none = c2
    cases c1 <;> cases c2 <;> decide
  · have h1 : C01.opVals (String.ofList ['>']) = some ([1], false) := by decide
    unfold versionTest versionHolds
    rw [h1]
    simp only [C01.versionMatch, Bool.false_eq_true, if_false, if_true, C01.verCmp_eq_pms_aux _ _ _ _ ok, C01.verCmp_eq_pms_aux _ _ _ _ ok0]
    generalize C01.Spec.pmsCmp pk.ver (some pk.rev) v (some []) = c1
    generalize C01.Spec.pmsCmp pk.ver none v none = c2
    cases c1 <;> cases c2 <;> decide
  · have h1 : C01.opVals (String.ofList ['~']) = some ([0], true) := by decide
    unfold versionTest versionHolds
    rw [h1]
    simp only [C01.versionMatch, Bool.false_eq_true, if_false, if_true, C01.verCmp_eq_pms_aux _ _ _ _ ok, C01.verCmp_eq_pms_aux _ _ _ _ ok0]
    generalize C01.Spec.pmsCmp pk.ver (some pk.rev) v (some []) = c1
    generalize C01.Spec.pmsCmp pk.ver none v none = c2
    cases c1 <;> cases c2 <;> decide

/-! ## the three forms of a glob query -/

theorem longestOp_isOp {o rest : Str} (ho : IsOp o) (hr : rest.head? ≠ some '=') : longestOp (o ++ rest) = some (o, rest) := by
  rcases ho with rfl | rfl | rfl | rfl | rfl | rfl
  · cases rest with
    | nil => rfl
    | cons x r =>
      have hx : x ≠ '=' := fun e => hr (by simp [e])
      simp only [List.cons_append, List.nil_append]
      unfold longestOp
      split <;> simp_all
  · rfl
  · cases rest <;> rfl
  · rfl
  · cases rest with
    | nil => rfl
    | cons x r =>
      have hx : x ≠ '=' := fun e => hr (by simp [e])
      simp only [List.cons_append, List.nil_append]
      unfold longestOp
      split <;> simp_all
  · cases rest <;> rfl

theorem head_plain_not_op {s : Str} (hne : s ≠ []) (h : Plain s) (t : Str) :
    ((s ++ t).head?.map isOpChar).getD false = false ∧ (s ++ t).head? ≠ some '=' := by
  cases s with
  | nil => exact absurd rfl hne
  | cons x s =>
    have hx := plain_char (h x (by simp))
    refine ⟨by simp [hx.2.2.2.2], ?_⟩
    intro e
    simp at e
    subst e
    revert hx; decide

theorem selects_b (q : Query) (hop : q.op = none) (c : Str) (hc : q.cat = some c) (pk : Pkg) :
    selects q pk = (globMatch c pk.category && globMatch q.pkg pk.package && slotOK q pk && repoOK q pk) := by
  obtain ⟨op, cat, pkg, slot, repo⟩ := q
  simp only at hop hc
  subst hop hc
  rcases slot with _ | ⟨s, _ | ss⟩ <;> rcases repo with _ | r <;>
    simp [selects, slotOK, repoOK, tailOf, Tail.slotOK, Tail.repoOK]

/-- form (b): `cat/pkg[:slot[/subslot]][::repo]` with a glob in `cat` or `pkg` -/
theorem glob_b {A : Type} (env : AtomEnv A) (q : Query) (hq : Wf q) (hop : q.op = none) (c : Str) (hc : q.cat = some c) :
    ∃ r, parseMatch env (render q) = .ok r ∧ ∀ pk, r.eval env pk = selects q pk := by
  obtain ⟨rs, g, hprep, hrs⟩ := prep_render env hq
  have hcat := hq.cat c hc
  have hbody : body q = c ++ '/' :: q.pkg := by simp [body, hop, hc]
  have hsl : '/' ∉ q.pkg := fun hm => (plain_char (hq.pkg.plain _ hm)).2.1 rfl
  have hsplit : rsplit1 '/' (body q) = some (c, q.pkg) := by rw [hbody]; exact rsplit1_append _ _ hsl
  have hhead := (head_plain_not_op hcat.ne hcat.plain ('/' :: q.pkg)).1
  have hstar : '*' ∈ body q := by
    have := hq.glob
    rw [hc] at this
    rw [hbody]
    rcases this with h | h <;> simp [h]
  have := parseMatch_generic env hprep (c := c) (n := q.pkg) hsplit (by rw [hbody]; exact hhead) hstar
  obtain ⟨r, hr, he⟩ := generic_spec env ⟨render q, body q, rs, g⟩ hcat hq.pkg
  refine ⟨r, by rw [this, hr], fun pk => ?_⟩
  rw [he pk, selects_b q hop c hc, hrs pk]
  cases globMatch c pk.category <;> cases globMatch q.pkg pk.package <;> cases slotOK q pk <;> cases repoOK q pk <;> rfl

/-- form (a): `pkg[:slot[/subslot]][::repo]` with a glob in `pkg` -/
theorem glob_a {A : Type} (env : AtomEnv A) (q : Query) (hq : Wf q) (hop : q.op = none) (hc : q.cat = none) :
    ∃ r, parseMatch env (render q) = .ok r ∧ ∀ pk, r.eval env pk = selects q pk := by
  obtain ⟨rs, g, hprep, hrs⟩ := prep_render env hq
  have hbody : body q = q.pkg := by simp [body, hop, hc]
  have hsl : '/' ∉ q.pkg := fun hm => (plain_char (hq.pkg.plain _ hm)).2.1 rfl
  have hstar : '*' ∈ q.pkg := by have := hq.glob; rw [hc] at this; exact this
  have h1 := parseMatch_nocat env hprep (by show rsplit1 '/' (body q) = none; rw [hbody]; exact rsplit1_none hsl)
  obtain ⟨r, hr, he⟩ := noCategory_glob_spec env ⟨render q, body q, rs, g⟩ (by show PartOk (body q); rw [hbody]; exact hq.pkg)
    (by show '*' ∈ body q; rw [hbody]; exact hstar)
  refine ⟨r, by rw [h1, hr], fun pk => ?_⟩
  rw [he pk, hrs pk]
  show _ = selects q pk
  unfold selects
  simp only [hop, hc, hbody]
  show _ = (true && globMatch q.pkg pk.package && true && slotOK q pk && repoOK q pk)
  cases globMatch q.pkg pk.package <;> cases slotOK q pk <;> cases repoOK q pk <;> rfl

/-- form (c): `op cat/pkg-ver[:slot[/subslot]][::repo]` with a glob in `cat` or `pkg` -/
theorem glob_c {A : Type} (env : AtomEnv A) (q : Query) (hq : Wf q) (o vt : Str) (v : C01.Ver) (hop : q.op = some (o, vt, v))
    (hatom : env.parse (render q) = none) :
    ∃ r, parseMatch env (render q) = .ok r ∧ ∀ pk, r.eval env pk = selects q pk := by
  obtain ⟨rs, g, hprep, hrs⟩ := prep_render env hq
  obtain ⟨hio, hlex, hvplain, hvdash, hvstar, hcs⟩ := hq.op o vt v hop
  rw [Option.isSome_iff_exists] at hcs
  obtain ⟨c, hc⟩ := hcs
  have hcat := hq.cat c hc
  have hbody : body q = o ++ ((c ++ '/' :: q.pkg) ++ '-' :: vt) := by simp [body, hop, hc]
  have hsl : '/' ∉ q.pkg ++ '-' :: vt := by
    intro hm
    rw [List.mem_append, List.mem_cons] at hm
    rcases hm with hm | hm | hm
    · exact (plain_char (hq.pkg.plain _ hm)).2.1 rfl
    · exact absurd hm (by decide)
    · exact (plain_char (hvplain _ hm)).2.1 rfl
  have hsplit : rsplit1 '/' (body q) = some (o ++ c, q.pkg ++ '-' :: vt) := by
    have : body q = (o ++ c) ++ '/' :: (q.pkg ++ '-' :: vt) := by rw [hbody]; simp
    rw [this]; exact rsplit1_append _ _ hsl
  have hhead : ((body q).head?.map isOpChar).getD false = true := by
    rw [hbody]; rcases hio with rfl | rfl | rfl | rfl | rfl | rfl <;> rfl
  have hstar : '*' ∈ body q := by
    have := hq.glob
    rw [hc] at this
    rw [hbody]
    rcases this with h | h <;> simp [h]
  have hgs : globbedSplit (body q) = .ok (o, v, c ++ '/' :: q.pkg) := by
    unfold globbedSplit
    rw [hbody, longestOp_isOp hio (by
      rw [List.append_assoc]; exact (head_plain_not_op hcat.ne hcat.plain _).2)]
    simp only [rsplit1_append _ _ hvdash, hlex]
  -- the recursive call parses the form-(b) query `cat/pkg`
  let q' : Query := ⟨none, some c, q.pkg, none, none⟩
  have hq' : Wf q' := by
    refine ⟨hq.pkg, ?_, ⟨?_, ?_⟩, ?_, ?_⟩
    · intro c' h'; cases h'; exact hcat
    · intro s ss h'; cases h'
    · intro r h'; cases h'
    · intro o' vt' v' h'; cases h'
    · have := hq.glob; rw [hc] at this; exact this
  have hr' : render q' = c ++ '/' :: q.pkg := by simp [render, q']
  obtain ⟨ri, hri, hei⟩ := glob_b env q' hq' rfl c rfl
  rw [hr'] at hri
  have h1 := parseMatch_globbed env hprep hsplit hhead hatom hstar hgs
  rw [hri] at h1
  refine ⟨_, h1, fun pk => ?_⟩
  simp only [R.eval, evalAll_append, R.evalAll, Bool.and_true]
  rw [hrs pk, hei pk, versionTest_eq hio, selects_b q' rfl c rfl]
  unfold selects
  simp only [hop, hc]
  show _ = (globMatch c pk.category && globMatch q.pkg pk.package && versionHolds o v pk && slotOK q pk && repoOK q pk)
  have e1 : slotOK q' pk = true := rfl
  have e2 : repoOK q' pk = true := rfl
  rw [e1, e2]
  cases globMatch c pk.category <;> cases globMatch q.pkg pk.package <;> cases versionHolds o v pk <;>
    cases slotOK q pk <;> cases repoOK q pk <;> rfl

/-! ## atoms -/

theorem prep_orig {A : Type} {s : Str} {p : Prep A} (h : prep s = .ok p) : p.orig = strip s := by
  unfold prep at h
  simp only at h
  split at h
  · cases h
  · split at h
    · cases h; rfl
    · split at h
      · cases h
      · split at h
        · cases h
        · cases h; rfl

theorem prep_bang {A : Type} {s : Str} (h : '!' ∈ strip s) : prep (A := A) s = .error .parse := by
  unfold prep
  simp only [h, if_true]

theorem takeWhile_ops {ops t : Str} (hops : ∀ c ∈ ops, isOpChar c = true) (ht : (t.head?.map isOpChar).getD false = false) :
    (ops ++ t).takeWhile isOpChar = ops ∧ (ops ++ t).dropWhile isOpChar = t := by
  induction ops with
  | nil =>
    cases t with
    | nil => simp
    | cons x t => simp at ht; simp [List.takeWhile, List.dropWhile, ht]
  | cons x ops ih =>
    have hx := hops x (by simp)
    have := ih (fun c hc => hops c (by simp [hc]))
    simp [List.takeWhile, List.dropWhile, hx, this]

/-- category-less atom text: `[ops] name[-ver] [:slot[/subslot]] [::repo]` without globs in front of the colon -/
theorem nocat_atom {A : Type} (env : AtomEnv A) (ops t : Str) (hops : ∀ c ∈ ops, isOpChar c = true) (ht : PartOk t)
    (hns : '*' ∉ t) (tl : Tail) (htl : tl.Wf) (a : A) (ha : env.parse (ops ++ "category/".toList ++ t) = some a) :
    ∃ r, parseMatch env (ops ++ t ++ tl.render) = .ok r ∧
      ∀ pk, r.eval env pk = (tl.slotOK pk && tl.repoOK pk && env.isMatchNoCat a pk) := by
  have hb : SafeS (ops ++ t) := SafeS.append (opchars_safe hops) ht.plain.safe
  obtain ⟨rs, hprep, hrs⟩ := prep_tail env hb htl
  have hsl : '/' ∉ ops ++ t := by
    intro hm
    rw [List.mem_append] at hm
    rcases hm with hm | hm
    · exact (opchar_facts (hops _ hm)).2.1 rfl
    · exact (plain_char (ht.plain _ hm)).2.1 rfl
  have h1 := parseMatch_nocat env hprep (rsplit1_none hsl)
  have hhead : (t.head?.map isOpChar).getD false = false := by
    have := (head_plain_not_op ht.ne ht.plain []).1
    simpa using this
  have hco : collectOps (ops ++ t) = (ops, t) := by
    unfold collectOps
    rw [(takeWhile_ops hops hhead).1, (takeWhile_ops hops hhead).2]
  have hstar : t.head? ≠ some '*' := by
    intro e
    cases t with
    | nil => simp at e
    | cons x t => simp at e; subst e; exact hns (by simp)
  refine ⟨.and (rs ++ [.atomNoCat a]), ?_, fun pk => ?_⟩
  · rw [h1]
    unfold noCategory
    simp only [hco, hns, and_false, if_false, hstar, ha]
  · simp only [R.eval, evalAll_append, R.evalAll, Bool.and_true, hrs pk]
    cases tl.slotOK pk <;> cases tl.repoOK pk <;> rfl

/-- slot or sub-slot glob behind a glob-free `[op]cat/pkg[-ver]` that the atom parser accepts -/
theorem slotglob_atom {A : Type} (env : AtomEnv A) (b : Str) (hb : SafeS b) (hsl : '/' ∈ b) (hns : '*' ∉ b)
    (tl : Tail) (htl : tl.Wf) (hglob : tl.slotGlob = true)
    (hwhole : env.parse (b ++ tl.render) = none) (a : A) (ha : env.parse b = some a) :
    ∃ r, parseMatch env (b ++ tl.render) = .ok r ∧
      ∀ pk, r.eval env pk = (tl.slotOK pk && tl.repoOK pk && env.isMatch a pk) := by
  obtain ⟨rs, hprep, hrs⟩ := prep_tail env hb htl
  have hsome : ∃ c n, rsplit1 '/' b = some (c, n) := by
    cases h : rsplit1 '/' b with
    | some v => exact ⟨v.1, v.2, rfl⟩
    | none =>
      exfalso
      clear hprep hwhole ha
      induction b with
      | nil => simp at hsl
      | cons x b ih =>
        unfold rsplit1 at h
        cases hr : rsplit1 '/' b with
        | some v => simp [hr] at h
        | none =>
          simp only [hr] at h
          split at h
          · cases h
          · rename_i hx
            rw [List.mem_cons] at hsl
            rcases hsl with e | e
            · exact hx e.symm
            · exact ih (fun c hc => hb c (by simp [hc])) e (fun hm => hns (by simp [hm])) hr
  obtain ⟨c, n, hs⟩ := hsome
  have h1 := parseMatch_slotglob env hprep hs hwhole hns hglob
  refine ⟨.and (rs ++ [.atom a]), ?_, fun pk => ?_⟩
  · rw [h1]; simp only [ha]
  · simp only [R.eval, evalAll_append, R.evalAll, Bool.and_true, hrs pk]
    cases tl.slotOK pk <;> cases tl.repoOK pk <;> rfl

end Pkgcore.C44
