import Pkgcore.Spec.C06
/-! # C06 helper lemmas -/
namespace Pkgcore.C06
open Pkgcore.C06.Spec

/-! ## the spec's list helpers are the library's `all` / `any` / `countP` -/
theorem evalAll_eq (v : Val) : ∀ cs, evalAll v cs = cs.all (eval v)
  | [] => by simp [evalAll]
  | c :: cs => by simp [evalAll, evalAll_eq v cs]
theorem evalAny_eq (v : Val) : ∀ cs, evalAny v cs = cs.any (eval v)
  | [] => by simp [evalAny]
  | c :: cs => by simp [evalAny, evalAny_eq v cs]
theorem evalCount_eq (v : Val) : ∀ cs, evalCount v cs = cs.countP (eval v)
  | [] => by simp [evalCount]
  | c :: cs => by
    simp only [evalCount, evalCount_eq v cs, List.countP_cons]
    cases eval v c <;> simp <;> omega

/-! ## `match` -/
mutual
theorem mtch_eq (v : Val) : ∀ r, mtch v r = eval v r
  | .leaf i => by simp [mtch, eval]
  | .neg r => by simp [mtch, eval, mtch_eq v r]
  | .and n cs => by simp [mtch, eval, andLoop_eq v n cs]
  | .or n cs => by simp [mtch, eval, orLoop_eq v n cs]
  | .justOne n cs => by
    simp only [mtch, eval]
    cases cs with
    | nil => simp
    | cons c cs' => simp [justLoop_eq v n false (c :: cs')]
  | .atMostOne n cs => by simp [mtch, eval, amoLoop_eq v n false cs]
  | .atom cs => by simp [mtch, eval, andLoop_eq v false cs]
theorem andLoop_eq (v : Val) (n : Bool) : ∀ cs, andLoop v n cs = (evalAll v cs != n)
  | [] => by simp [andLoop, evalAll]
  | c :: cs => by
    simp only [andLoop, evalAll, mtch_eq v c, andLoop_eq v n cs]
    cases eval v c <;> simp
theorem orLoop_eq (v : Val) (n : Bool) : ∀ cs, orLoop v n cs = (evalAny v cs != n)
  | [] => by simp [orLoop, evalAny]
  | c :: cs => by
    simp only [orLoop, evalAny, mtch_eq v c, orLoop_eq v n cs]
    cases eval v c <;> simp
theorem justLoop_eq (v : Val) (n : Bool) : ∀ (armed : Bool) cs,
    justLoop v n armed cs = ((evalCount v cs + (if armed then 1 else 0) == 1) != n)
  | armed, [] => by cases armed <;> simp [justLoop, evalCount]
  | armed, c :: cs => by
    simp only [justLoop, evalCount, mtch_eq v c, justLoop_eq v n true cs, justLoop_eq v n armed cs]
    rcases Bool.eq_false_or_eq_true (eval v c) with hb | hb <;> cases armed <;> cases n <;>
      simp [hb] <;> (try rw [Bool.eq_iff_iff]) <;> (try simp) <;> (try omega)
theorem amoLoop_eq (v : Val) (n : Bool) : ∀ (armed : Bool) cs,
    amoLoop v n armed cs = (decide (evalCount v cs + (if armed then 1 else 0) ≤ 1) != n)
  | armed, [] => by cases armed <;> simp [amoLoop, evalCount]
  | armed, c :: cs => by
    simp only [amoLoop, evalCount, mtch_eq v c, amoLoop_eq v n true cs, amoLoop_eq v n armed cs]
    rcases Bool.eq_false_or_eq_true (eval v c) with hb | hb <;> cases armed <;> cases n <;>
      simp [hb] <;> (try rw [Bool.eq_iff_iff]) <;> (try simp) <;> (try omega)
end

/-! ## DNF -/
theorem evalConj_append (v : Val) (a b : Clause) : evalConj v (a ++ b) = (evalConj v a && evalConj v b) := by
  simp [evalConj, List.all_append]

theorem any_prepend (v : Val) (c : Clause) (l : List Clause) :
    (l.any fun c2 => evalConj v (c ++ c2)) = (evalConj v c && l.any (evalConj v)) := by
  induction l with
  | nil => simp
  | cons x xs ih => rw [List.any_cons, List.any_cons, ih, evalConj_append, Bool.and_or_distrib_left]

theorem evalDnf_flatMap_prepend (v : Val) (d l : List Clause) :
    evalDnf v (d.flatMap fun c => l.map fun c2 => c ++ c2) = (evalDnf v d && evalDnf v l) := by
  simp only [evalDnf, List.any_flatMap, List.any_map, Function.comp_def]
  induction d with
  | nil => simp
  | cons c cs ih => rw [List.any_cons, List.any_cons, ih, any_prepend, Bool.and_or_distrib_right]

/-- the cross product `f` of `AndRestriction.iter_dnf_solutions` is the conjunction of its arguments -/
theorem evalDnf_cross (v : Val) (ds : List (List Clause)) : evalDnf v (cross ds) = ds.all (evalDnf v) := by
  fun_induction cross ds with
  | case1 => simp [evalDnf, evalConj]
  | case2 d => simp
  | case3 d ds _ ih => rw [evalDnf_flatMap_prepend, ih, List.all_cons]

theorem evalDnf_single (v : Val) (c : Clause) : evalDnf v [c] = evalConj v c := by simp [evalDnf]
theorem evalConj_single (v : Val) (x : R) : evalConj v [x] = eval v x := by simp [evalConj]
theorem evalConj_cons (v : Val) (x : R) (c : Clause) : evalConj v (x :: c) = (eval v x && evalConj v c) := by
  simp [evalConj]
theorem evalDnf_cons (v : Val) (c : Clause) (d : List Clause) : evalDnf v (c :: d) = (evalConj v c || evalDnf v d) := by
  simp [evalDnf]
theorem evalDnf_append (v : Val) (a b : List Clause) : evalDnf v (a ++ b) = (evalDnf v a || evalDnf v b) := by
  simp [evalDnf, List.any_append]

@[simp] theorem eval_neg (v : Val) (x : R) : eval v (.neg x) = !eval v x := by simp [eval]
theorem any_not (v : Val) (cs : List R) : (cs.any fun x => !eval v x) = !cs.all (eval v) := by
  induction cs with
  | nil => simp
  | cons c cs ih => simp [ih]
theorem all_not (v : Val) (cs : List R) : (cs.all fun x => !eval v x) = !cs.any (eval v) := by
  induction cs with
  | nil => simp
  | cons c cs ih => simp [ih]

mutual
theorem dnf_sound (v : Val) (full : Bool) : ∀ r, okDnf full r = true → evalDnf v (dnf full r) = eval v r
  | .leaf i, _ => by simp [dnf, evalDnf, evalConj]
  | .neg r, _ => by simp [dnf, evalDnf, evalConj]
  | .justOne n cs, _ => by simp [dnf, evalDnf, evalConj]
  | .atMostOne n cs, _ => by simp [dnf, evalDnf, evalConj]
  | .atom cs, h => by
    cases full with
    | false => simp [dnf, evalDnf, evalConj]
    | true =>
      simp only [okDnf, Bool.not_true, Bool.false_or] at h
      simp only [dnf, if_true, eval]
      cases cs with
      | nil => simp [evalDnf, evalConj, evalAll]
      | cons c cs' =>
        simp only [List.isEmpty_cons, Bool.false_eq_true, if_false]
        rw [evalDnf_cross, List.all_cons, evalDnf_single]
        exact andSplit_sound v true (c :: cs') h
  | .and true cs, h => by
    simp only [okDnf] at h
    cases cs with
    | nil => simp at h
    | cons c cs' =>
      simp only [dnf, List.isEmpty_cons, Bool.false_eq_true, if_false, eval, evalAll_eq]
      simp [evalDnf, evalConj, List.any_map, Function.comp_def, any_not]
  | .and false cs, h => by
    simp only [okDnf] at h
    simp only [dnf, eval, Bool.bne_false]
    cases cs with
    | nil => simp [evalDnf, evalConj, evalAll]
    | cons c cs' =>
      simp only [List.isEmpty_cons, Bool.false_eq_true, if_false]
      rw [evalDnf_cross, List.all_cons, evalDnf_single]
      exact andSplit_sound v full (c :: cs') h
  | .or true cs, _ => by
    simp only [dnf, eval, evalAny_eq]
    simp [evalDnf, evalConj, List.all_map, Function.comp_def, all_not]
  | .or false cs, h => by
    simp only [okDnf, Bool.and_eq_true] at h
    simp only [dnf, eval, Bool.bne_false]
    cases cs with
    | nil => simp at h
    | cons c cs' =>
      simp only [List.isEmpty_cons, Bool.false_eq_true, if_false]
      exact dnfCat_sound v full (c :: cs') h.2
theorem andSplit_sound (v : Val) (full : Bool) : ∀ cs, okDnfAll full cs = true →
    (evalConj v (andSplit full cs).1 && (andSplit full cs).2.all (evalDnf v)) = evalAll v cs
  | [], _ => by simp [andSplit, evalConj, evalAll]
  | x :: xs, h => by
    simp only [okDnfAll, Bool.and_eq_true] at h
    have ih := andSplit_sound v full xs h.2
    have hx := dnf_sound v full x h.1
    simp only [andSplit, evalAll]
    by_cases hd : hasDnf x = true
    · simp only [hd, if_true]
      split
      · rename_i s heq
        rw [heq, evalDnf_single] at hx
        simp only [evalConj_append, hx, Bool.and_assoc, ih]
      · simp only [List.all_cons, hx]
        rw [← ih]
        cases eval v x <;> cases evalConj v (andSplit full xs).1 <;> simp
    · simp only [hd, Bool.false_eq_true, if_false, evalConj_cons, Bool.and_assoc, ih]
theorem dnfCat_sound (v : Val) (full : Bool) : ∀ cs, okDnfAll full cs = true →
    evalDnf v (dnfCat full cs) = evalAny v cs
  | [], _ => by simp [dnfCat, evalDnf, evalAny]
  | x :: xs, h => by
    simp only [okDnfAll, Bool.and_eq_true] at h
    have ih := dnfCat_sound v full xs h.2
    have hx := dnf_sound v full x h.1
    simp only [dnfCat, evalAny, evalDnf_append, ih]
    by_cases hd : hasDnf x = true
    · simp only [hd, if_true, hx]
    · simp only [hd, Bool.false_eq_true, if_false, evalDnf_single, evalConj_single]
end

/-! ## `assert s2` in `AndRestriction.iter_dnf_solutions` never fires: every DNF has at least one clause -/
theorem cross_ne_nil (ds : List (List Clause)) (h : ∀ d ∈ ds, d ≠ []) : cross ds ≠ [] := by
  fun_induction cross ds with
  | case1 => simp
  | case2 d => exact h d (by simp)
  | case3 d ds hne ih =>
    have hd : d ≠ [] := h d (by simp)
    have hc : cross ds ≠ [] := ih (fun e he => h e (by simp [he]))
    cases d with
    | nil => exact absurd rfl hd
    | cons c cs =>
      cases hcd : cross ds with
      | nil => exact absurd hcd hc
      | cons e es => simp

mutual
theorem dnf_ne_nil (full : Bool) : ∀ r, dnf full r ≠ []
  | .leaf i => by simp [dnf]
  | .neg r => by simp [dnf]
  | .justOne n cs => by simp [dnf]
  | .atMostOne n cs => by simp [dnf]
  | .atom cs => by
    simp only [dnf]
    split
    · split
      · simp
      · apply cross_ne_nil
        intro d hd
        simp only [List.mem_cons] at hd
        rcases hd with rfl | hd
        · simp
        · exact andSplit_ne_nil full cs d hd
    · simp
  | .and true cs => by
    simp only [dnf]
    split
    · simp
    · rename_i h
      cases cs with
      | nil => simp at h
      | cons c cs' => simp
  | .and false cs => by
    simp only [dnf]
    split
    · simp
    · apply cross_ne_nil
      intro d hd
      simp only [List.mem_cons] at hd
      rcases hd with rfl | hd
      · simp
      · exact andSplit_ne_nil full cs d hd
  | .or true cs => by simp [dnf]
  | .or false cs => by
    simp only [dnf]
    split
    · simp
    · rename_i h
      cases cs with
      | nil => simp at h
      | cons c cs' =>
        simp only [dnfCat]
        by_cases hd : hasDnf c = true
        · simp only [hd, if_true]
          have := dnf_ne_nil full c
          intro h0
          exact this (List.append_eq_nil_iff.mp h0).1
        · simp [hd]
theorem andSplit_ne_nil (full : Bool) : ∀ cs, ∀ d ∈ (andSplit full cs).2, d ≠ []
  | [], d, hd => by simp [andSplit] at hd
  | x :: xs, d, hd => by
    simp only [andSplit] at hd
    by_cases hx : hasDnf x = true
    · simp only [hx, if_true] at hd
      split at hd
      · exact andSplit_ne_nil full xs d hd
      · simp only [List.mem_cons] at hd
        rcases hd with rfl | hd
        · exact dnf_ne_nil full x
        · exact andSplit_ne_nil full xs d hd
    · simp only [hx, Bool.false_eq_true, if_false] at hd
      exact andSplit_ne_nil full xs d hd
end

/-! ## CNF -/
theorem evalCnf_append (v : Val) (a b : List Clause) : evalCnf v (a ++ b) = (evalCnf v a && evalCnf v b) := by
  simp [evalCnf, List.all_append]
theorem evalCnf_single (v : Val) (c : Clause) : evalCnf v [c] = evalDisj v c := by simp [evalCnf]
theorem evalDisj_single (v : Val) (x : R) : evalDisj v [x] = eval v x := by simp [evalDisj]

theorem all_or_const (a : Bool) (p : R → Bool) (l : List R) : (l.all fun x => a || p x) = (a || l.all p) := by
  induction l with
  | nil => simp
  | cons x xs ih => rw [List.all_cons, List.all_cons, ih]; cases a <;> simp

/-- one round of "peel one member off the conjunction and append it to every clause" -/
theorem evalCnf_peel (v : Val) (acc : List Clause) (andreq : Clause) :
    evalCnf v (andreq.flatMap fun x => acc.map fun y => y ++ [x]) = (evalCnf v acc || evalConj v andreq) := by
  simp only [evalCnf, evalDisj, evalConj, List.all_flatMap, List.all_map, Function.comp_def, List.any_append,
    List.any_cons, List.any_nil, Bool.or_false]
  have : ∀ x, (acc.all fun y => y.any (eval v) || eval v x) = (acc.all (fun y => y.any (eval v)) || eval v x) := by
    intro x
    induction acc with
    | nil => simp
    | cons y ys ih =>
      rw [List.all_cons, List.all_cons, ih]
      cases y.any (eval v) <;> cases eval v x <;> simp
  simp only [this]
  exact all_or_const _ _ _

theorem evalCnf_distribute (v : Val) : ∀ (cn acc : List Clause),
    evalCnf v (distribute acc cn) = (evalCnf v acc || cn.any (evalConj v))
  | [], acc => by simp [distribute]
  | a :: rest, acc => by
    rw [distribute, evalCnf_distribute v rest, evalCnf_peel, List.any_cons, Bool.or_assoc]

theorem split_singletons (v : Val) (s2 : List Clause) :
    ((s2.filterMap fun y => match y with | [a] => some a | _ => none).any (eval v) ||
      (s2.filter fun y => match y with | [_] => false | _ => true).any (evalConj v)) = evalDnf v s2 := by
  induction s2 with
  | nil => simp [evalDnf]
  | cons y ys ih =>
    rw [evalDnf_cons, ← ih]
    match y with
    | [] => simp [evalConj]
    | [a] => simp [evalConj, Bool.or_assoc]
    | a :: b :: c =>
      simp only [List.filterMap_cons, List.filter_cons, if_true, List.any_cons]
      cases (List.filterMap _ ys).any (eval v) <;> simp

theorem orSplit_sound (v : Val) (full : Bool) : ∀ cs, okDnfAll full cs = true →
    ((orSplit full cs).1.any (eval v) || (orSplit full cs).2.any (evalConj v)) = evalAny v cs
  | [], _ => by simp [orSplit, evalAny]
  | x :: xs, h => by
    simp only [okDnfAll, Bool.and_eq_true] at h
    have ih := orSplit_sound v full xs h.2
    have hx := dnf_sound v full x h.1
    simp only [orSplit, evalAny]
    by_cases hd : hasDnf x = true
    · simp only [hd, if_true]
      split
      · rename_i s heq
        rw [heq, evalDnf_single] at hx
        rw [List.any_cons, hx, ← ih]
        cases eval v x <;> cases (orSplit full xs).1.any (eval v) <;> simp
      · rw [← hx, ← split_singletons, ← ih, List.any_append, List.any_append]
        generalize (List.filterMap _ (dnf full x)).any (eval v) = a
        generalize (List.filter _ (dnf full x)).any (evalConj v) = b
        cases a <;> cases b <;> cases (orSplit full xs).1.any (eval v) <;> simp
    · simp only [hd, Bool.false_eq_true, if_false, List.any_cons, Bool.or_assoc, ih]

mutual
theorem cnf_sound (v : Val) (full : Bool) : ∀ r c, okCnf full r = true → cnf full r = some c →
    evalCnf v c = eval v r
  | .leaf i, c, _, hc => by simp only [cnf, Option.some.injEq] at hc; subst hc; simp [evalCnf, evalDisj]
  | .neg r, c, _, hc => by simp only [cnf, Option.some.injEq] at hc; subst hc; simp [evalCnf, evalDisj]
  | .justOne n cs, c, _, hc => by simp only [cnf, Option.some.injEq] at hc; subst hc; simp [evalCnf, evalDisj]
  | .atMostOne n cs, c, _, hc => by simp only [cnf, Option.some.injEq] at hc; subst hc; simp [evalCnf, evalDisj]
  | .atom cs, c, h, hc => by
    cases full with
    | false => simp only [cnf, Bool.false_eq_true, if_false, Option.some.injEq] at hc; subst hc; simp [evalCnf, evalDisj]
    | true =>
      simp only [okCnf, Bool.not_true, Bool.false_or] at h
      simp only [cnf, if_true] at hc
      simp only [eval]
      exact andCnf_sound v true cs c h hc
  | .and true cs, c, _, hc => by simp [cnf] at hc
  | .and false cs, c, h, hc => by
    simp only [okCnf] at h
    simp only [cnf] at hc
    simp only [eval, Bool.bne_false]
    exact andCnf_sound v full cs c h hc
  | .or true cs, c, _, hc => by simp [cnf] at hc
  | .or false cs, c, h, hc => by
    simp only [okCnf, Bool.and_eq_true] at h
    simp only [cnf] at hc
    simp only [eval, Bool.bne_false]
    cases cs with
    | nil => simp at h
    | cons x xs =>
      simp only [List.isEmpty_cons, Bool.false_eq_true, if_false, Option.some.injEq] at hc
      subst hc
      rw [evalCnf_distribute, evalCnf_single]
      exact orSplit_sound v full (x :: xs) h.2
theorem andCnf_sound (v : Val) (full : Bool) : ∀ cs c, okCnfAll full cs = true → andCnf full cs = some c →
    evalCnf v c = evalAll v cs
  | [], c, _, hc => by simp only [andCnf, Option.some.injEq] at hc; subst hc; simp [evalCnf, evalAll]
  | x :: xs, c, h, hc => by
    simp only [okCnfAll, Bool.and_eq_true] at h
    simp only [andCnf] at hc
    split at hc
    · rename_i a b ha hb
      simp only [Option.some.injEq] at hc
      subst hc
      rw [evalCnf_append, evalAll, andCnf_sound v full xs b h.2 hb]
      congr 1
      by_cases hd : hasDnf x = true
      · simp only [hd, if_true] at ha
        exact cnf_sound v full x a h.1 ha
      · simp only [hd, Bool.false_eq_true, if_false, Option.some.injEq] at ha
        subst ha
        simp [evalCnf, evalDisj]
    · simp at hc
end

/-! ## refusal -/
theorem hasDnf_false_refuses (full : Bool) (x : R) (h : ¬ hasDnf x = true) : refusesCnf full x = false := by
  cases x <;> simp_all [hasDnf, refusesCnf]

mutual
theorem cnf_none_iff (full : Bool) : ∀ r, cnf full r = none ↔ refusesCnf full r = true
  | .leaf i => by simp [cnf, refusesCnf]
  | .neg r => by simp [cnf, refusesCnf]
  | .justOne n cs => by simp [cnf, refusesCnf]
  | .atMostOne n cs => by simp [cnf, refusesCnf]
  | .atom cs => by
    cases full with
    | false => simp [cnf, refusesCnf]
    | true => simp only [cnf, if_true, refusesCnf, Bool.true_and]; exact andCnf_none_iff true cs
  | .and true cs => by simp [cnf, refusesCnf]
  | .and false cs => by simp only [cnf, refusesCnf]; exact andCnf_none_iff full cs
  | .or true cs => by simp [cnf, refusesCnf]
  | .or false cs => by
    simp only [cnf, refusesCnf]
    split <;> simp
theorem andCnf_none_iff (full : Bool) : ∀ cs, andCnf full cs = none ↔ refusesAny full cs = true
  | [] => by simp [andCnf, refusesAny]
  | x :: xs => by
    have ih := andCnf_none_iff full xs
    simp only [andCnf, refusesAny, Bool.or_eq_true]
    by_cases hd : hasDnf x = true
    · have hx := cnf_none_iff full x
      simp only [hd, if_true]
      cases hc : cnf full x with
      | none => simp [hx.mp hc]
      | some a =>
        have : ¬ refusesCnf full x = true := fun h => by rw [hx.mpr h] at hc; cases hc
        cases hxs : andCnf full xs with
        | none => simp [ih.mp hxs]
        | some b =>
          have : ¬ refusesAny full xs = true := fun h => by rw [ih.mpr h] at hxs; cases hxs
          simp [*]
    · simp only [hd, Bool.false_eq_true, if_false, hasDnf_false_refuses full x hd, false_or]
      cases hxs : andCnf full xs with
      | none => simp [ih.mp hxs]
      | some b =>
        have : ¬ refusesAny full xs = true := fun h => by rw [ih.mpr h] at hxs; cases hxs
        simp [*]
end

/-! ## the syntactic sufficient condition -/
mutual
theorem okDnf_of_nonEmpty (full : Bool) : ∀ r, nonEmptyNodes r = true → okDnf full r = true
  | .leaf i, _ => by simp [okDnf]
  | .neg r, _ => by simp [okDnf]
  | .justOne n cs, _ => by simp [okDnf]
  | .atMostOne n cs, _ => by simp [okDnf]
  | .atom cs, h => by
    simp only [nonEmptyNodes] at h
    simp [okDnf, okDnfAll_of_nonEmpty full cs h]
  | .and true cs, h => by
    simp only [nonEmptyNodes, Bool.and_eq_true] at h
    simp [okDnf, h.1]
  | .and false cs, h => by
    simp only [nonEmptyNodes, Bool.and_eq_true] at h
    simp [okDnf, okDnfAll_of_nonEmpty full cs h.2]
  | .or true cs, _ => by simp [okDnf]
  | .or false cs, h => by
    simp only [nonEmptyNodes, Bool.and_eq_true] at h
    simp [okDnf, h.1, okDnfAll_of_nonEmpty full cs h.2]
theorem okDnfAll_of_nonEmpty (full : Bool) : ∀ cs, nonEmptyAll cs = true → okDnfAll full cs = true
  | [], _ => by simp [okDnfAll]
  | c :: cs, h => by
    simp only [nonEmptyAll, Bool.and_eq_true] at h
    simp [okDnfAll, okDnf_of_nonEmpty full c h.1, okDnfAll_of_nonEmpty full cs h.2]
end

mutual
theorem okCnf_of_nonEmpty (full : Bool) : ∀ r, nonEmptyNodes r = true → okCnf full r = true
  | .leaf i, _ => by simp [okCnf]
  | .neg r, _ => by simp [okCnf]
  | .justOne n cs, _ => by simp [okCnf]
  | .atMostOne n cs, _ => by simp [okCnf]
  | .atom cs, h => by
    simp only [nonEmptyNodes] at h
    simp [okCnf, okCnfAll_of_nonEmpty full cs h]
  | .and true cs, _ => by simp [okCnf]
  | .and false cs, h => by
    simp only [nonEmptyNodes, Bool.and_eq_true] at h
    simp [okCnf, okCnfAll_of_nonEmpty full cs h.2]
  | .or true cs, _ => by simp [okCnf]
  | .or false cs, h => by
    simp only [nonEmptyNodes, Bool.and_eq_true] at h
    simp [okCnf, h.1, okDnfAll_of_nonEmpty full cs h.2]
theorem okCnfAll_of_nonEmpty (full : Bool) : ∀ cs, nonEmptyAll cs = true → okCnfAll full cs = true
  | [], _ => by simp [okCnfAll]
  | c :: cs, h => by
    simp only [nonEmptyAll, Bool.and_eq_true] at h
    simp [okCnfAll, okCnf_of_nonEmpty full c h.1, okCnfAll_of_nonEmpty full cs h.2]
end

/-! ## the DNF is always *implied* by the tree (no guard): whatever the tree matches, some clause matches.
This is the direction candidate pruning (C08) relies on; it also holds for the operand-less any-of. -/
theorem evalConj_true_of_forall (v : Val) (c : Clause) (h : ∀ m ∈ c, eval v m = true) : evalConj v c = true := by
  simp only [evalConj, List.all_eq_true]; exact h

mutual
theorem dnf_complete (v : Val) (full : Bool) : ∀ r, eval v r = true → evalDnf v (dnf full r) = true
  | .leaf i, h => by simpa [dnf, evalDnf, evalConj] using h
  | .neg r, h => by simpa [dnf, evalDnf, evalConj] using h
  | .justOne n cs, h => by simpa [dnf, evalDnf, evalConj] using h
  | .atMostOne n cs, h => by simpa [dnf, evalDnf, evalConj] using h
  | .atom cs, h => by
    cases full with
    | false => simpa [dnf, evalDnf, evalConj] using h
    | true =>
      simp only [eval] at h
      simp only [dnf, if_true]
      cases cs with
      | nil => simp [evalDnf, evalConj]
      | cons c cs' =>
        simp only [List.isEmpty_cons, Bool.false_eq_true, if_false]
        rw [evalDnf_cross, List.all_cons, evalDnf_single]
        exact andSplit_complete v true (c :: cs') h
  | .and true cs, h => by
    cases cs with
    | nil => simp [eval, evalAll] at h
    | cons c cs' =>
      rw [dnf_sound v full _ (by simp [okDnf])]; exact h
  | .and false cs, h => by
    simp only [eval, Bool.bne_false] at h
    simp only [dnf]
    cases cs with
    | nil => simp [evalDnf, evalConj]
    | cons c cs' =>
      simp only [List.isEmpty_cons, Bool.false_eq_true, if_false]
      rw [evalDnf_cross, List.all_cons, evalDnf_single]
      exact andSplit_complete v full (c :: cs') h
  | .or true cs, h => by
    rw [dnf_sound v full _ (by simp [okDnf])]; exact h
  | .or false cs, h => by
    simp only [eval, Bool.bne_false] at h
    simp only [dnf]
    cases cs with
    | nil => simp [evalAny] at h
    | cons c cs' =>
      simp only [List.isEmpty_cons, Bool.false_eq_true, if_false]
      exact dnfCat_complete v full (c :: cs') h
theorem andSplit_complete (v : Val) (full : Bool) : ∀ cs, evalAll v cs = true →
    (evalConj v (andSplit full cs).1 && (andSplit full cs).2.all (evalDnf v)) = true
  | [], _ => by simp [andSplit, evalConj]
  | x :: xs, h => by
    simp only [evalAll, Bool.and_eq_true] at h
    have ih := andSplit_complete v full xs h.2
    have hx := dnf_complete v full x h.1
    simp only [Bool.and_eq_true] at ih
    simp only [andSplit]
    by_cases hd : hasDnf x = true
    · simp only [hd, if_true]
      split
      · rename_i s heq
        rw [heq, evalDnf_single] at hx
        simp only [evalConj_append, hx, ih.1, ih.2, Bool.and_self]
      · simp only [List.all_cons, hx, ih.1, ih.2, Bool.and_self]
    · simp only [hd, Bool.false_eq_true, if_false, evalConj_cons, h.1, ih.1, ih.2, Bool.and_self]
theorem dnfCat_complete (v : Val) (full : Bool) : ∀ cs, evalAny v cs = true → evalDnf v (dnfCat full cs) = true
  | [], h => by simp [evalAny] at h
  | x :: xs, h => by
    simp only [evalAny, Bool.or_eq_true] at h
    simp only [dnfCat, evalDnf_append, Bool.or_eq_true]
    rcases h with h | h
    · left
      have hx := dnf_complete v full x h
      by_cases hd : hasDnf x = true
      · simp only [hd, if_true, hx]
      · simp only [hd, Bool.false_eq_true, if_false, evalDnf_single, evalConj_single, h]
    · right; exact dnfCat_complete v full xs h
end

end Pkgcore.C06
