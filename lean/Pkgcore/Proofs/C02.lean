import Pkgcore.Spec.C02
import Pkgcore.Proofs.C01
/-! helper lemmas for C02 -/
namespace Pkgcore.C02
open Pkgcore.C01 Pkgcore.C01.Spec Pkgcore.C02.Spec Std

attribute [local instance] lexOrd

theorem orElse_eq_then (c d : Ordering) : orElse c d = c.then d := by
  cases c <;> simp [orElse, Ordering.then]

theorem pycmp_eq_compare {α : Type} [Ord α] (a b : Option α) : pycmp a b = compare a b := by
  cases a <;> cases b <;> rfl

theorem cmp_eq_iff {α : Type} [Ord α] [LawfulEqOrd α] (a b : α) : compare a b = .eq ↔ a = b :=
  LawfulEqCmp.compare_eq_iff_eq

theorem cmp_self {α : Type} [Ord α] [ReflOrd α] (a : α) : compare a a = .eq := ReflCmp.compare_self

/-! ### `ver_cmp` as the key order -/

theorem verCmp_eq_key (v1 v2 : Ver) (r1 r2 : Str) (h1 : WF v1) (h2 : WF v2) :
    verCmp v1 (some r1) v2 (some r2) = compare (key v1 (some r1)) (key v2 (some r2)) := by
  rw [verCmp_eq_pms_aux _ _ _ _ (Or.inr ⟨rfl, rfl⟩), pmsCmp_eq_key _ _ _ _ h1 h2]

/-- on same-kind pairs `ver_cmp` never raises and is the comparison of the canonical values -/
theorem verCmpO_eq (x y : VR) (hx : vrWF x) (hy : vrWF y) (hk : x.isSome = y.isSome) :
    verCmpO x y = some (compare (verCanon x) (verCanon y)) := by
  cases x with
  | none =>
    cases y with
    | none => rfl
    | some q => simp at hk
  | some p =>
    cases y with
    | none => simp at hk
    | some q =>
      obtain ⟨v1, r1⟩ := p
      obtain ⟨v2, r2⟩ := q
      simp only [verCmpO, verCanon]
      rw [verCmp_eq_key v1 v2 r1 r2 hx hy]; rfl

/-! ### `ver_hash_key` is equal exactly when the canonical values are -/

theorem compK_eq_iff (a b : Str) : compK a = compK b ↔ compKey a = compKey b := by
  unfold compK compKey
  by_cases ha : a.head? = some '0' <;> by_cases hb : b.head? = some '0' <;> simp [ha, hb]

theorem map_compK_eq_iff (as bs : List Str) : as.map compK = bs.map compK ↔ as.map compKey = bs.map compKey := by
  induction as generalizing bs with
  | nil => cases bs <;> simp
  | cons a as ih => cases bs with
    | nil => simp
    | cons b bs => simp [compK_eq_iff, ih]

theorem letterKey_inj (a b : Option Char) : letterKey a = letterKey b ↔ a = b := by
  cases a <;> cases b <;> simp [letterKey, Char.toNat_inj]

theorem rank_inj (s t : Suf) : rank s = rank t ↔ s = t := by
  cases s <;> cases t <;> decide

theorem map_suf_eq_iff (xs ys : List (Suf × Str)) :
    xs.map (fun x => (x.1, natOfDigits x.2)) = ys.map (fun x => (x.1, natOfDigits x.2)) ↔
      xs.map sufKey ++ [((0 : Int), (0 : Nat))] = ys.map sufKey ++ [(0, 0)] := by
  induction xs generalizing ys with
  | nil =>
    cases ys with
    | nil => simp
    | cons y ys =>
      simp only [List.map_nil, List.map_cons, List.nil_append, List.cons_append]
      constructor
      · intro h; cases h
      · intro h
        have := (List.cons.inj h).1
        simp [sufKey] at this
        exact absurd this.1.symm (rank_ne_zero _)
  | cons x xs ih =>
    cases ys with
    | nil =>
      simp only [List.map_nil, List.map_cons, List.nil_append, List.cons_append]
      constructor
      · intro h; cases h
      · intro h
        have := (List.cons.inj h).1
        simp [sufKey] at this
        exact absurd this.1 (rank_ne_zero _)
    | cons y ys =>
      simp only [List.map_cons, List.cons_append, List.cons.injEq, ih, sufKey, Prod.mk.injEq, rank_inj]

theorem verHashKey_eq_iff (v1 v2 : Ver) (r1 r2 : Str) (h1 : WF v1) (h2 : WF v2) :
    verHashKey v1 r1 = verHashKey v2 r2 ↔ key v1 (some r1) = key v2 (some r2) := by
  obtain ⟨n1, _⟩ := h1
  obtain ⟨n2, _⟩ := h2
  cases hc1 : v1.comps with
  | nil => exact absurd hc1 n1
  | cons a as =>
    cases hc2 : v2.comps with
    | nil => exact absurd hc2 n2
    | cons b bs =>
      simp only [verHashKey, key, hc1, hc2, List.headD_cons, List.tail_cons, VKey.mk.injEq, List.cons.injEq,
        CompK.int.injEq, Prod.mk.injEq, map_compK_eq_iff, letterKey_inj, map_suf_eq_iff, revNat]
      constructor
      · rintro ⟨⟨a1, a2⟩, a3, a4, a5⟩; exact ⟨a1, a2, a3, a4, a5⟩
      · rintro ⟨a1, a2, a3, a4, a5⟩; exact ⟨⟨a1, a2⟩, a3, a4, a5⟩

theorem verHashKeyO_eq_iff (x y : VR) (hx : vrWF x) (hy : vrWF y) :
    verHashKeyO x = verHashKeyO y ↔ verCanon x = verCanon y := by
  cases x with
  | none => cases y <;> simp [verHashKeyO, verCanon]
  | some p =>
    cases y with
    | none => simp [verHashKeyO, verCanon]
    | some q =>
      obtain ⟨v1, r1⟩ := p
      obtain ⟨v2, r2⟩ := q
      simp only [verHashKeyO, verCanon, Option.some.injEq]
      exact verHashKey_eq_iff v1 v2 r1 r2 hx hy

end Pkgcore.C02

namespace Pkgcore.C02
open Pkgcore.C01 Pkgcore.C01.Spec Pkgcore.C02.Spec Std

attribute [local instance] lexOrd

theorem then_of_ne_eq (c d : Ordering) (h : c ≠ .eq) : c.then d = c := by
  cases c <;> simp_all [Ordering.then]

theorem cmp_ne_eq {α : Type} [Ord α] [LawfulEqOrd α] (a b : α) (h : a ≠ b) : compare a b ≠ .eq :=
  fun e => h ((cmp_eq_iff a b).mp e)

/-! ### CPV -/

theorem cpvOrd_unfold (a b : Cpv) :
    cpvOrd a b = (compare a.cat b.cat).then ((compare a.pkg b.pkg).then (compare (verCanon a.vr) (verCanon b.vr))) := rfl

theorem cpvRich_eq (vt st : Ordering → Bool) (hst : ∀ c, c ≠ .eq → st c = vt c) (a b : Cpv)
    (ha : Cpv.WF a) (hb : Cpv.WF b) (hk : SameKind a b) :
    cpvRich vt st a b = some (vt (cpvOrd a b)) := by
  unfold cpvRich
  rw [cpvOrd_unfold]
  by_cases hc : a.cat = b.cat
  · by_cases hp : a.pkg = b.pkg
    · simp only [hc, hp, if_true, cmp_self, Ordering.eq_then, verCmpO_eq a.vr b.vr ha hb hk, Option.map_some]
    · have := cmp_ne_eq _ _ hp
      simp only [hc, hp, if_true, if_false, cmp_self, Ordering.eq_then]
      rw [then_of_ne_eq _ _ this, hst _ this]
  · simp only [hc, if_false]
    have := cmp_ne_eq _ _ hc
    rw [then_of_ne_eq _ _ this, hst _ this]

theorem cpvstrEq_canon (a b : Cpv) (h : cpvstrEq a b = true) : cpvCanon a = cpvCanon b := by
  unfold cpvstrEq at h
  simp only [Bool.and_eq_true, beq_iff_eq] at h
  obtain ⟨⟨h1, h2⟩, h3⟩ := h
  unfold cpvCanon
  rw [h1, h2]
  cases ha : a.vr with
  | none => cases hb : b.vr with
    | none => rfl
    | some q => simp [ha, hb] at h3
  | some p => cases hb : b.vr with
    | none => simp [ha, hb] at h3
    | some q =>
      obtain ⟨v1, r1⟩ := p
      obtain ⟨v2, r2⟩ := q
      simp only [ha, hb, Bool.and_eq_true, beq_iff_eq] at h3
      simp [verCanon, key, revNat, h3.1, h3.2]

theorem cpvOrd_eq_iff (a b : Cpv) : cpvOrd a b = .eq ↔ cpvCanon a = cpvCanon b := cmp_eq_iff _ _
theorem cpvOrd_refl (a : Cpv) : cpvOrd a a = .eq := by unfold cpvOrd; exact ReflCmp.compare_self
theorem cpvOrd_swap (a b : Cpv) : cpvOrd a b = (cpvOrd b a).swap := by unfold cpvOrd; exact OrientedCmp.eq_swap
theorem cpvOrd_trans (a b c : Cpv) (h1 : (cpvOrd a b).isLE) (h2 : (cpvOrd b c).isLE) : (cpvOrd a c).isLE := by
  unfold cpvOrd at *; exact TransCmp.isLE_trans h1 h2

theorem cpvEq_eq (a b : Cpv) (ha : Cpv.WF a) (hb : Cpv.WF b) : cpvEq a b = (cpvOrd a b == .eq) := by
  unfold cpvEq
  by_cases hs : cpvstrEq a b = true
  · simp [hs, (cpvOrd_eq_iff a b).mpr (cpvstrEq_canon a b hs)]
  · simp only [hs, if_false, Bool.false_eq_true]
    rw [cpvOrd_unfold]
    by_cases hc : a.cat = b.cat
    · by_cases hp : a.pkg = b.pkg
      · simp only [hc, hp, and_self, if_true, cmp_self, Ordering.eq_then]
        by_cases hk : a.vr.isSome = b.vr.isSome
        · simp [verCmpO_eq a.vr b.vr ha hb hk]
        · cases h1 : a.vr <;> cases h2 : b.vr <;> simp_all [verCmpO, verCanon] <;> rfl
      · have := cmp_ne_eq _ _ hp
        simp only [hc, hp, and_false, if_false, cmp_self, Ordering.eq_then]
        cases h : compare a.pkg b.pkg <;> simp_all
    · have := cmp_ne_eq _ _ hc
      simp only [hc, false_and, if_false]
      rw [then_of_ne_eq _ _ this]
      cases h : compare a.cat b.cat <;> simp_all

end Pkgcore.C02

namespace Pkgcore.C02
open Pkgcore.C01 Pkgcore.C01.Spec Pkgcore.C02.Spec Std

attribute [local instance] lexOrd

/-! ### atom -/

theorem nil_lt_opStr (o : Op) : compare ([] : Str) o.str = .lt := by cases o <;> rfl
theorem opStr_gt_nil (o : Op) : compare o.str ([] : Str) = .gt := by cases o <;> rfl
theorem opStr_inj (o p : Op) (h : o.str = p.str) : o = p := by
  cases o <;> cases p <;> first | rfl | (exact absurd h (by decide))

theorem bool_cmp_not (a b : Bool) : (compare a b).swap = compare (!a) (!b) := by
  cases a <;> cases b <;> rfl

theorem atomCmpTail_eq (a b : Atom) :
    atomCmpTail a b =
      compare (!a.blocks, a.strong, a.negate, orEmpty a.slot, orEmpty a.subslot, orEmpty a.slotOp, a.useAttr, a.repo)
              (!b.blocks, b.strong, b.negate, orEmpty b.slot, orEmpty b.subslot, orEmpty b.slotOp, b.useAttr, b.repo) := by
  simp only [atomCmpTail, orElse_eq_then, pycmp_eq_compare, bool_cmp_not, lex_pair]

theorem atomOrd_unfold (a b : Atom) :
    atomOrd a b = (compare a.cat b.cat).then ((compare a.pkg b.pkg).then ((compare a.opStr b.opStr).then
      ((compare (verCanon a.vr) (verCanon b.vr)).then
        (compare (!a.blocks, a.strong, a.negate, orEmpty a.slot, orEmpty a.subslot, orEmpty a.slotOp, a.useAttr, a.repo)
              (!b.blocks, b.strong, b.negate, orEmpty b.slot, orEmpty b.subslot, orEmpty b.slotOp, b.useAttr, b.repo))))) := rfl

/-- `__cmp__` never raises on well-formed atoms and is the lexicographic order of the canonical form -/
theorem atomCmp_eq (a b : Atom) (ha : Atom.WF a) (hb : Atom.WF b) : atomCmp a b = some (atomOrd a b) := by
  unfold atomCmp
  rw [atomOrd_unfold, ← atomCmpTail_eq]
  by_cases h1 : compare a.cat b.cat = .eq
  · by_cases h2 : compare a.pkg b.pkg = .eq
    · by_cases h3 : compare a.opStr b.opStr = .eq
      · simp only [h1, h2, h3, ne_eq, not_true_eq_false, if_false, Ordering.eq_then]
        have hk : a.vr.isSome = b.vr.isSome := by
          have h3' := (cmp_eq_iff _ _).mp h3
          unfold Atom.opStr at h3'
          unfold Atom.vr
          cases hx : a.vop <;> cases hy : b.vop <;> simp_all
          · rename_i q; obtain ⟨o, _, _⟩ := q; cases o <;> simp [Op.str] at h3'
          · rename_i q; obtain ⟨o, _, _⟩ := q; cases o <;> simp [Op.str] at h3'
        rw [verCmpO_eq a.vr b.vr ha hb hk]
        simp only
        by_cases h4 : compare (verCanon a.vr) (verCanon b.vr) = .eq
        · simp [h4]
        · simp [h4, then_of_ne_eq _ _ h4]
      · simp only [h1, h2, ne_eq, not_true_eq_false, if_false, h3, not_false_eq_true, if_true,
          Ordering.eq_then, then_of_ne_eq _ _ h3]
    · simp only [h1, ne_eq, not_true_eq_false, if_false, h2, not_false_eq_true, if_true,
        Ordering.eq_then, then_of_ne_eq _ _ h2]
  · simp only [ne_eq, h1, not_false_eq_true, if_true, then_of_ne_eq _ _ h1]

theorem atomOrd_eq_iff (a b : Atom) : atomOrd a b = .eq ↔ atomCanon a = atomCanon b := cmp_eq_iff _ _
theorem atomOrd_refl (a : Atom) : atomOrd a a = .eq := by unfold atomOrd; exact ReflCmp.compare_self
theorem atomOrd_swap (a b : Atom) : atomOrd a b = (atomOrd b a).swap := by unfold atomOrd; exact OrientedCmp.eq_swap
theorem atomOrd_trans (a b c : Atom) (h1 : (atomOrd a b).isLE) (h2 : (atomOrd b c).isLE) : (atomOrd a c).isLE := by
  unfold atomOrd at *; exact TransCmp.isLE_trans h1 h2

/-- the canonical form determines the hashed value, and conversely (up to `negate_vers`, which is not hashed) -/
theorem atomHashKey_of_canon (a b : Atom) (ha : Atom.WF a) (hb : Atom.WF b) (h : atomCanon a = atomCanon b) :
    atomHashKey a = atomHashKey b := by
  unfold atomCanon at h
  simp only [Prod.mk.injEq] at h
  obtain ⟨h1, h2, h3, h4, h5, h6, _, h8, h9, h10, h11, h12⟩ := h
  unfold atomHashKey
  have hb' : a.blocks = b.blocks := by cases ha' : a.blocks <;> cases hb' : b.blocks <;> simp_all
  rw [h1, h2, h3, (verHashKeyO_eq_iff a.vr b.vr ha hb).mpr h4, hb', h6, h8, h9, h10, h11, h12]

end Pkgcore.C02

namespace Pkgcore.C02
open Std

/-! ### `sorted` forgets the written order of the USE deps -/

def strLe (x y : Str) : Bool := compare x y != .gt

theorem strLe_trans (a b c : Str) (h1 : strLe a b = true) (h2 : strLe b c = true) : strLe a c = true := by
  have e1 : (compare a b).isLE = true := by unfold strLe at h1; cases h : compare a b <;> simp_all [Ordering.isLE]
  have e2 : (compare b c).isLE = true := by unfold strLe at h2; cases h : compare b c <;> simp_all [Ordering.isLE]
  have := TransCmp.isLE_trans e1 e2
  unfold strLe; cases h : compare a c <;> simp_all [Ordering.isLE]

theorem strLe_total (a b : Str) : (strLe a b || strLe b a) = true := by
  unfold strLe
  rw [OrientedCmp.eq_swap (cmp := compare) (a := b) (b := a)]
  cases compare a b <;> rfl

theorem strLe_antisymm (a b : Str) (h1 : strLe a b = true) (h2 : strLe b a = true) : a = b := by
  unfold strLe at h1 h2
  rw [OrientedCmp.eq_swap (cmp := compare) (a := b) (b := a)] at h2
  apply (LawfulEqCmp.compare_eq_iff_eq (cmp := (compare : Str → Str → Ordering))).mp
  cases h : compare a b <;> simp_all

theorem sortUse_perm (l1 l2 : List Str) (h : l1.Perm l2) : sortUse l1 = sortUse l2 := by
  unfold sortUse
  apply List.Perm.eq_of_pairwise (le := fun a b => strLe a b = true)
  · intro a b _ _ h1 h2; exact strLe_antisymm a b h1 h2
  · exact List.pairwise_mergeSort strLe_trans strLe_total l1
  · exact List.pairwise_mergeSort strLe_trans strLe_total l2
  · exact (List.mergeSort_perm l1 _).trans (h.trans (List.mergeSort_perm l2 _).symm)

end Pkgcore.C02
