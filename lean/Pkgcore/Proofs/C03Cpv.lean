import Pkgcore.Proofs.C03Use
/-!
# C03 — `CPV(cpvstr, versioned)`: category, package name (`isvalid_pkg_name` = PMS 3.1.2), version, revision
-/
namespace Pkgcore.C03
open Pkgcore.C01 Pkgcore.C01.Spec Pkgcore.C02 Pkgcore.C03.Spec

/-! ## more `joinSep` / `splitOn` -/

theorem joinSep_append (sep : Char) (a b : List Str) (ha : a ≠ []) (hb : b ≠ []) :
    joinSep sep (a ++ b) = joinSep sep a ++ sep :: joinSep sep b := by
  induction a with
  | nil => exact absurd rfl ha
  | cons p t ih =>
    cases t with
    | nil =>
      simp only [List.singleton_append]
      rw [joinSep_cons_ne sep p b hb]; rfl
    | cons q t =>
      rw [List.cons_append, joinSep_cons_ne sep p _ (by simp), ih (by simp), joinSep_cons_ne sep p _ (by simp)]
      simp

theorem splitOn_head (sep : Char) (s : Str) :
    ∃ h t, splitOn sep s = h :: t ∧
      (h = [] ↔ (s = [] ∨ s.head? = some sep)) ∧ (∀ c, h.head? = some c → s.head? = some c) ∧
      (∀ c, s.head? = some c → c ≠ sep → h.head? = some c) := by
  cases s with
  | nil => exact ⟨[], [], rfl, by simp, by simp, by simp⟩
  | cons c cs =>
    by_cases hc : c = sep
    · subst hc
      exact ⟨[], splitOn c cs, splitOn_cons_sep c cs, by simp, by simp, by simp⟩
    · refine ⟨c :: (splitOn sep cs).headD [], (splitOn sep cs).tail, splitOn_cons_ne sep c cs hc, ?_, ?_, ?_⟩
      · simp [hc]
      · simp
      · simp

/-- characters of the chunks = characters of the string other than the separator -/
theorem splitOn_all (sep : Char) (p : Char → Bool) (s : Str) :
    (splitOn sep s).all (fun c => c.all p) = s.all (fun x => p x || x == sep) := by
  induction s with
  | nil => simp [splitOn]
  | cons c cs ih =>
    by_cases hc : c = sep
    · subst hc
      rw [splitOn_cons_sep]
      simp [ih]
    · rw [splitOn_cons_ne sep c cs hc]
      cases hs : splitOn sep cs with
      | nil => exact absurd hs (splitOn_ne_nil sep cs)
      | cons q t =>
        rw [hs] at ih
        simp only [List.all_cons] at ih
        simp only [List.headD_cons, List.tail_cons, List.all_cons, ← ih]
        have : (c == sep) = false := by simp [hc]
        simp [this, Bool.and_assoc]

/-! ## `isvalid_pkg_name` -/

/-- the version-tail test of `isvalid_pkg_name`, on the reversed chunk list -/
def tailOkRev : List Str → Bool
  | [] => false
  | [_] => true
  | last :: x :: rest =>
    !isValidVer last && (if !rest.isEmpty && isValidRev last then !isValidVer x else true)

theorem validPkgName_eq (P : List Str) (hP : P ≠ []) :
    validPkgName P =
      (!(P.headD []).isEmpty && !((P.headD []).head? == some '+') && P.all (fun c => c.all pkgChunkChar) &&
        tailOkRev P.reverse) := by
  have hchars : P.all (fun s => s.isEmpty || validPkgChunk s) = P.all (fun c => c.all pkgChunkChar) := by
    congr 1
    funext s
    cases s <;> simp [validPkgChunk]
  have htail : (if (P.length == 1) = true then true
      else if isValidVer (P.getLast?.getD []) = true then false
      else if (decide (P.length ≥ 3) && isValidRev (P.getLast?.getD [])) = true then
        !isValidVer (P.dropLast.getLast?.getD [])
      else true) = tailOkRev P.reverse := by
    rcases List.eq_nil_or_concat P with rfl | ⟨init, last, rfl⟩
    · exact absurd rfl hP
    · rw [List.concat_eq_append]
      rcases List.eq_nil_or_concat init with rfl | ⟨init', x, rfl⟩
      · simp [tailOkRev]
      · rw [List.concat_eq_append]
        simp only [List.length_append, List.length_cons, List.length_nil, List.getLast?_concat, Option.getD_some,
          List.dropLast_concat, List.reverse_append, List.reverse_cons, List.reverse_nil, List.nil_append,
          List.cons_append, tailOkRev]
        have h1 : (init'.length + 1 + 1 == 1) = false := by simp
        simp only [h1, Bool.false_eq_true, if_false]
        cases isValidVer last with
        | true => simp
        | false =>
          simp only [Bool.false_eq_true, if_false, Bool.not_false, Bool.true_and]
          cases init' with
          | nil => simp
          | cons y ys => simp
  cases P with
  | nil => exact absurd rfl hP
  | cons c0 cs =>
    unfold validPkgName
    simp only [List.headD_cons]
    rw [hchars, htail]
    cases h1 : c0.isEmpty <;> cases h2 : (c0.head? == some '+') <;>
      cases h3 : (c0 :: cs).all (fun c => c.all pkgChunkChar) <;> simp

theorem char_beq (a b : Char) : (a == b) = decide (a = b) := by
  by_cases h : a = b <;> simp [h]

theorem hyphen_not_mem_render {v : Ver} (h : WFfull v) : '-' ∉ C01.render v := by
  intro hm
  rcases render_chars h '-' hm with h' | h' | h'
  · exact absurd h' (by decide)
  · exact absurd h' (by decide)
  · exact absurd h' (by decide)

theorem isValidVer_render {v : Ver} (h : WFfull v) : isValidVer (C01.render v) = true := by
  simp [isValidVer, lexVer_render_aux v h]

theorem isValidRev_r (r : Str) : isValidRev ('r' :: r) = (!r.isEmpty && digitsOk r) := rfl

theorem isValidRev_sound {s : Str} (h : isValidRev s = true) : ∃ d, s = 'r' :: d ∧ d ≠ [] ∧ digitsOk d = true := by
  cases s with
  | nil => simp [isValidRev] at h
  | cons c d =>
    by_cases hc : c = 'r'
    · subst hc
      rw [isValidRev_r] at h
      simp only [Bool.and_eq_true, Bool.not_eq_true', List.isEmpty_eq_false_iff] at h
      exact ⟨d, rfl, h.1, h.2⟩
    · unfold isValidRev at h
      split at h
      · rename_i heq; simp only [List.cons.injEq] at heq; exact absurd heq.1 hc
      · cases h

theorem hyphen_not_mem_digits {r : Str} (h : digitsOk r = true) : '-' ∉ r := by
  intro hm
  simp only [digitsOk, List.all_eq_true] at h
  exact absurd (h '-' hm) (by decide)

/-- a version-like tail after a hyphen is found by the chunk test -/
theorem tailOkRev_of_versionLike {p t : Str} (h : VersionLike lenient t) :
    tailOkRev (splitOn '-' (p ++ '-' :: t)).reverse = false := by
  obtain ⟨v, r, hv, hr, rfl⟩ := h
  have hw : WFfull v := (verOk_lenient_iff v).mp hv
  rw [splitOn_append_sep]
  obtain ⟨a0, as, hA⟩ : ∃ a0 as, (splitOn '-' p).reverse = a0 :: as := by
    cases h : (splitOn '-' p).reverse with
    | nil => simp at h; exact absurd h (splitOn_ne_nil _ _)
    | cons a0 as => exact ⟨a0, as, rfl⟩
  cases r with
  | nil =>
    simp only [revText, List.isEmpty_nil, if_true, List.append_nil]
    rw [splitOn_no_sep '-' _ (hyphen_not_mem_render hw)]
    simp [hA, tailOkRev, isValidVer_render hw]
  | cons c cs =>
    have hrr : '-' ∉ 'r' :: c :: cs := by
      intro hm
      simp only [List.mem_cons] at hm
      rcases hm with hm | hm
      · exact absurd hm (by decide)
      · exact hyphen_not_mem_digits hr (by simpa using hm)
    simp only [revText, List.isEmpty_cons, Bool.false_eq_true, if_false]
    rw [splitOn_append_sep, splitOn_no_sep '-' _ (hyphen_not_mem_render hw), splitOn_no_sep '-' _ hrr]
    have : isValidRev ('r' :: c :: cs) = true := by
      rw [isValidRev_r]; simpa using hr
    simp [hA, tailOkRev, isValidVer_render hw, this]

/-- and conversely the chunk test only fires on a version-like tail after a hyphen -/
theorem versionLike_of_tailOkRev {s : Str} (h : tailOkRev (splitOn '-' s).reverse = false) :
    ∃ p t, s = p ++ '-' :: t ∧ VersionLike lenient t := by
  have hs := joinSep_splitOn '-' s
  generalize hP : splitOn '-' s = P at h hs
  have hrev : P = P.reverse.reverse := by simp
  cases hl : P.reverse with
  | nil => simp at hl; exact absurd (hl ▸ hP) (splitOn_ne_nil _ _)
  | cons last l1 =>
    cases l1 with
    | nil => simp [hl, tailOkRev] at h
    | cons x rest =>
      rw [hl] at h hrev
      simp only [List.reverse_cons, List.append_assoc, List.singleton_append] at hrev
      simp only [tailOkRev, Bool.and_eq_false_iff, Bool.not_eq_false'] at h
      rcases h with h | h
      · -- the last chunk is a version
        cases hv : lexVer last with
        | none => simp [isValidVer, hv] at h
        | some v =>
          obtain ⟨hw, hren⟩ := lexVer_sound hv
          refine ⟨joinSep '-' (rest.reverse ++ [x]), last, ?_, v, [], (verOk_lenient_iff v).mpr hw, rfl, by simp [revText, hren]⟩
          rw [← hs, hrev, show rest.reverse ++ [x, last] = (rest.reverse ++ [x]) ++ [last] by simp,
            joinSep_append _ _ _ (by simp) (by simp)]
          rfl
      · -- `ver-rN`
        split at h
        · rename_i hc
          simp only [Bool.and_eq_true, Bool.not_eq_true', List.isEmpty_eq_false_iff] at hc
          simp only [Bool.not_eq_false'] at h
          obtain ⟨d, rfl, hd1, hd2⟩ := isValidRev_sound hc.2
          cases hv : lexVer x with
          | none => simp [isValidVer, hv] at h
          | some v =>
            obtain ⟨hw, hren⟩ := lexVer_sound hv
            refine ⟨joinSep '-' rest.reverse, x ++ '-' :: 'r' :: d, ?_, v, d, (verOk_lenient_iff v).mpr hw, hd2, ?_⟩
            · rw [← hs, hrev, joinSep_append _ _ _ (by simpa using hc.1) (by simp)]
              rfl
            · have : d.isEmpty = false := by simpa using hd1
              simp [revText, hren, this]
        · cases h

theorem validPkgName_iff (s : Str) : validPkgName (splitOn '-' s) = true ↔ pkgOk lenient s := by
  rw [validPkgName_eq _ (splitOn_ne_nil _ _), splitOn_all]
  obtain ⟨h, t, hsp, hh1, hh2, hh3⟩ := splitOn_head '-' s
  have hchars : s.all (fun x => pkgChunkChar x || x == '-') = nameChars ['+', '_', '-'] s := by
    unfold nameChars
    congr 1
    funext x
    simp [pkgChunkChar, isAlnum, Bool.or_assoc, char_beq]
  rw [hsp, List.headD_cons, ← hsp, hchars]
  unfold pkgOk
  have hfirst : (!h.isEmpty && !(h.head? == some '+')) = (!s.isEmpty && !startsWithAny ['-', '+'] s) := by
    cases s with
    | nil =>
      have : h = [] := hh1.mpr (Or.inl rfl)
      simp [this]
    | cons c cs =>
      by_cases hc : c = '-'
      · have : h = [] := hh1.mpr (Or.inr (by simp [hc]))
        simp [this, startsWithAny, hc]
      · have h2 := hh3 c (by simp) hc
        cases h with
        | nil => simp at h2
        | cons y ys =>
          simp only [List.head?_cons, Option.some.injEq] at h2
          subst h2
          simp [startsWithAny, hc, char_beq]
  constructor
  · intro hv
    simp only [Bool.and_eq_true] at hv
    obtain ⟨⟨hf, hc⟩, ht⟩ := hv
    refine ⟨?_, ?_⟩
    · have : (!s.isEmpty && !startsWithAny ['-', '+'] s) = true := by
        rw [← hfirst]; simpa using hf
      simp only [Bool.and_eq_true] at this ⊢
      exact ⟨⟨this.1, hc⟩, this.2⟩
    · intro p t' hs hvl
      subst hs
      rw [tailOkRev_of_versionLike hvl] at ht
      cases ht
  · rintro ⟨h1, h2⟩
    simp only [Bool.and_eq_true] at h1 ⊢
    refine ⟨⟨?_, h1.1.2⟩, ?_⟩
    · have : (!h.isEmpty && !(h.head? == some '+')) = true := by
        rw [hfirst]; simp [h1.1.1, h1.2]
      simpa using this
    · cases ht : tailOkRev (splitOn '-' s).reverse with
      | true => rfl
      | false =>
        obtain ⟨p, t', hs, hvl⟩ := versionLike_of_tailOkRev ht
        exact absurd hvl (h2 p t' hs)


theorem not_mem_of_nameChars {extra : List Char} {s : Str} {x : Char} (h : nameChars extra s = true)
    (hx : x.isAlphanum = false) (he : extra.contains x = false) : x ∉ s := by
  intro hm
  simp only [nameChars, List.all_eq_true, Bool.or_eq_true] at h
  rcases h x hm with h' | h'
  · simp [hx] at h'
  · rw [he] at h'; cases h'

theorem validCat_iff (s : Str) : validCat s = true ↔ catOk s = true := by
  cases s with
  | nil => simp [validCat, catOk]
  | cons c cs =>
    have hrest : (cs.all fun c => isAlnum c || c == '+' || c == '_' || c == '.' || c == '-') =
        nameChars ['+', '_', '.', '-'] cs := by
      unfold nameChars
      congr 1
      funext x
      simp [isAlnum, Bool.or_assoc, char_beq]
    simp only [validCat, catOk, hrest, startsWithAny, nameChars, List.all_cons, List.isEmpty_cons, Bool.not_false,
      Bool.true_and, Bool.and_eq_true, Bool.or_eq_true, Bool.not_eq_true']
    constructor
    · rintro ⟨h1, h2⟩
      refine ⟨⟨?_, h2⟩, ?_⟩
      · rcases h1 with h1 | h1
        · exact Or.inl h1
        · right; simp only [beq_iff_eq] at h1; subst h1; decide
      · rcases h1 with h1 | h1
        · have a1 := ne_of_class (p := Char.isAlphanum) (x := '-') h1 (by decide)
          have a2 := ne_of_class (p := Char.isAlphanum) (x := '.') h1 (by decide)
          have a3 := ne_of_class (p := Char.isAlphanum) (x := '+') h1 (by decide)
          simp [a1, a2, a3]
        · simp only [beq_iff_eq] at h1; subst h1; decide
    · rintro ⟨⟨h1, h2⟩, h3⟩
      refine ⟨?_, h2⟩
      rcases h1 with h1 | h1
      · exact Or.inl h1
      · simp only [List.contains_cons, List.contains_nil, Bool.or_false, Bool.or_eq_true, beq_iff_eq,
          Bool.or_eq_false_iff, beq_eq_false_iff_ne] at h1 h3
        rcases h1 with h1 | h1 | h1 | h1
        · exact absurd h1 h3.2.2
        · right; simp [h1]
        · exact absurd h1 h3.2.1
        · exact absurd h1 h3.1


theorem slash_not_mem_pkg {pkg : Str} (h : pkgOk lenient pkg) : '/' ∉ pkg := by
  have := h.1
  simp only [Bool.and_eq_true] at this
  exact not_mem_of_nameChars this.1.2 (by decide) (by decide)

theorem slash_not_mem_render {v : Ver} (h : WFfull v) : '/' ∉ C01.render v := by
  intro hm
  rcases render_chars h '/' hm with h' | h' | h' <;> exact absurd h' (by decide)

theorem not_mem_revText {x : Char} (r : Str) (hr : digitsOk r = true) (h1 : x ≠ '-') (h2 : x ≠ 'r')
    (h3 : x.isDigit = false) : x ∉ revText r := by
  unfold revText
  split
  · simp
  · intro hm
    simp only [List.mem_cons] at hm
    rcases hm with hm | hm | hm
    · exact h1 hm
    · exact h2 hm
    · simp only [digitsOk, List.all_eq_true] at hr
      have := hr x hm
      rw [h3] at this; cases this

theorem isValidRev_render {v : Ver} (h : WFfull v) : isValidRev (C01.render v) = false := by
  obtain ⟨c, t, e, hc⟩ := render_head h
  rw [e]
  unfold isValidRev
  split
  · rename_i heq
    simp only [List.cons.injEq] at heq
    rw [heq.1] at hc
    exact absurd hc (by decide)
  · rfl

/-- `CPV("cat/pkg", versioned=False)` on a well-formed unversioned key -/
theorem parseCpv_complete_unversioned {cat pkg : Str} (hc : catOk cat = true) (hp : pkgOk lenient pkg) :
    parseCpv false (cat ++ '/' :: pkg) = .ok (cat, pkg, none) := by
  unfold parseCpv
  rw [breakOnLast_append cat (slash_not_mem_pkg hp)]
  simp [(validCat_iff cat).mpr hc, (validPkgName_iff pkg).mpr hp, joinSep_splitOn]

/-- `CPV("cat/pkg-ver[-rN]", versioned=True)` on well-formed parts -/
theorem parseCpv_complete_versioned {cat pkg : Str} {v : Ver} {r : Str} (hc : catOk cat = true)
    (hp : pkgOk lenient pkg) (hv : verOk lenient v = true) (hr : digitsOk r = true) :
    parseCpv true (cat ++ '/' :: (pkg ++ '-' :: C01.render v ++ revText r)) = .ok (cat, pkg, some (v, r)) := by
  have hw : WFfull v := (verOk_lenient_iff v).mp hv
  have hslash : '/' ∉ pkg ++ '-' :: C01.render v ++ revText r := by
    intro hm
    simp only [List.mem_append, List.mem_cons] at hm
    rcases hm with (hm | hm | hm) | hm
    · exact slash_not_mem_pkg hp hm
    · exact absurd hm (by decide)
    · exact slash_not_mem_render hw hm
    · exact not_mem_revText r hr (by decide) (by decide) (by decide) hm
  generalize hP : splitOn '-' pkg = P
  have hPne : P ≠ [] := hP ▸ splitOn_ne_nil _ _
  have hPlen : 1 ≤ P.length := by cases P with | nil => exact absurd rfl hPne | cons _ _ => simp
  have hvalid : validPkgName P = true := hP ▸ (validPkgName_iff pkg).mpr hp
  have hjoin : joinSep '-' P = pkg := hP ▸ joinSep_splitOn '-' pkg
  unfold parseCpv
  rw [breakOnLast_append cat hslash]
  simp only [(validCat_iff cat).mpr hc, Bool.not_true, Bool.false_eq_true, if_false, if_true]
  cases r with
  | nil =>
    have hchunks : splitOn '-' (pkg ++ '-' :: C01.render v ++ revText []) = P ++ [C01.render v] := by
      simp only [revText, List.isEmpty_nil, if_true, List.append_nil]
      rw [splitOn_append_sep, splitOn_no_sep '-' _ (hyphen_not_mem_render hw), hP]
    rw [hchunks]
    have hlen : ((P ++ [C01.render v]).length == 1) = false := by
      simp only [List.length_append, List.length_cons, List.length_nil, beq_eq_false_iff_ne]; omega
    simp only [hlen, Bool.false_eq_true, if_false, List.getLast?_concat, Option.getD_some, isValidRev_render hw,
      lexVer_render_aux v hw, List.dropLast_concat, hvalid, Bool.not_true, hjoin]
  | cons d ds =>
    have hrr : '-' ∉ 'r' :: d :: ds := by
      intro hm
      simp only [List.mem_cons] at hm
      rcases hm with hm | hm
      · exact absurd hm (by decide)
      · exact hyphen_not_mem_digits hr (by simpa using hm)
    have hchunks : splitOn '-' (pkg ++ '-' :: C01.render v ++ revText (d :: ds)) =
        (P ++ [C01.render v]) ++ ['r' :: d :: ds] := by
      simp only [revText, List.isEmpty_cons, Bool.false_eq_true, if_false]
      rw [show pkg ++ '-' :: C01.render v ++ '-' :: 'r' :: d :: ds = pkg ++ '-' :: (C01.render v ++ '-' :: 'r' :: d :: ds) by simp,
        splitOn_append_sep, splitOn_append_sep, splitOn_no_sep '-' _ (hyphen_not_mem_render hw),
        splitOn_no_sep '-' _ hrr, hP]
      simp
    have hrev : isValidRev ('r' :: d :: ds) = true := by
      rw [isValidRev_r]; simpa using hr
    rw [hchunks]
    have hlen : ((P ++ [C01.render v] ++ ['r' :: d :: ds]).length == 1) = false := by
      simp only [List.length_append, List.length_cons, List.length_nil, beq_eq_false_iff_ne]; omega
    have hlen3 : ¬ (P ++ [C01.render v] ++ ['r' :: d :: ds]).length < 3 := by
      simp only [List.length_append, List.length_cons, List.length_nil]; omega
    simp only [hlen, Bool.false_eq_true, if_false, List.getLast?_concat, Option.getD_some, hrev, if_true, hlen3,
      List.dropLast_concat, lexVer_render_aux v hw, hvalid, Bool.not_true, hjoin, List.tail_cons]


theorem pkgOk_of_validPkgName {Q : List Str} (hQ : validPkgName Q = true) (hsep : ∀ p ∈ Q, '-' ∉ p) :
    Q ≠ [] ∧ pkgOk lenient (joinSep '-' Q) := by
  have hne : Q ≠ [] := by intro e; subst e; simp [validPkgName] at hQ
  refine ⟨hne, ?_⟩
  rw [← validPkgName_iff, splitOn_join '-' Q hne hsep]
  exact hQ

theorem parseCpv_sound {b : Bool} {s cat pkg : Str} {vr : Option (Ver × Str)}
    (h : parseCpv b s = .ok (cat, pkg, vr)) :
    catOk cat = true ∧ pkgOk lenient pkg ∧
      (vr = none → b = false ∧ s = cat ++ '/' :: pkg) ∧
      (∀ v r, vr = some (v, r) → b = true ∧ verOk lenient v = true ∧ digitsOk r = true ∧
           s = cat ++ '/' :: (pkg ++ '-' :: C01.render v ++ revText r)) := by
  unfold parseCpv at h
  cases hb : breakOnLast '/' s with
  | none => simp [hb] at h
  | some p =>
    obtain ⟨cat', pkgver⟩ := p
    obtain ⟨hs, _⟩ := breakOnLast_sound hb
    simp only [hb] at h
    cases hcat : validCat cat' with
    | false => simp [hcat] at h
    | true =>
      simp only [hcat, Bool.not_true, Bool.false_eq_true, if_false] at h
      have hsepC : ∀ p ∈ splitOn '-' pkgver, '-' ∉ p := fun p hp => not_mem_of_mem_splitOn '-' pkgver p hp
      have hjoinC := joinSep_splitOn '-' pkgver
      generalize hC : splitOn '-' pkgver = C at h hsepC hjoinC
      have hCne : C ≠ [] := hC ▸ splitOn_ne_nil _ _
      cases b with
      | false =>
        simp only [Bool.false_eq_true, if_false] at h
        cases hv : validPkgName C with
        | false => simp [hv] at h
        | true =>
          simp only [hv, Bool.not_true, Bool.false_eq_true, if_false, Except.ok.injEq, Prod.mk.injEq] at h
          obtain ⟨rfl, rfl, rfl⟩ := h
          refine ⟨(validCat_iff _).mp hcat, (pkgOk_of_validPkgName hv hsepC).2, fun _ => ⟨rfl, ?_⟩, fun v r e => by cases e⟩
          rw [hs, hjoinC]
      | true =>
        simp only [if_true] at h
        by_cases hlen1 : (C.length == 1) = true
        · simp [hlen1] at h
        · simp only [hlen1, Bool.false_eq_true, if_false] at h
          obtain ⟨init, last, rfl⟩ : ∃ init last, C = init ++ [last] := by
            rcases List.eq_nil_or_concat C with e | ⟨i, l, e⟩
            · exact absurd e hCne
            · exact ⟨i, l, by rw [e, List.concat_eq_append]⟩
          simp only [List.getLast?_concat, Option.getD_some, List.dropLast_concat] at h
          cases hrev : isValidRev last with
          | true =>
            simp only [hrev, if_true] at h
            by_cases hlen3 : (init ++ [last]).length < 3
            · rw [if_pos hlen3] at h
              cases h
            · rw [if_neg hlen3] at h
              simp only at h
              obtain ⟨Q, x, rfl⟩ : ∃ Q x, init = Q ++ [x] := by
                rcases List.eq_nil_or_concat init with e | ⟨i, l, e⟩
                · subst e; simp at hlen3
                · exact ⟨i, l, by rw [e, List.concat_eq_append]⟩
              simp only [List.getLast?_concat, Option.getD_some, List.dropLast_concat] at h
              cases hv : lexVer x with
              | none => simp [hv] at h
              | some v =>
                simp only [hv] at h
                cases hQ : validPkgName Q with
                | false => simp [hQ] at h
                | true =>
                  simp only [hQ, Bool.not_true, Bool.false_eq_true, if_false, Except.ok.injEq, Prod.mk.injEq] at h
                  obtain ⟨rfl, rfl, rfl⟩ := h
                  obtain ⟨hw, hren⟩ := lexVer_sound hv
                  obtain ⟨d, rfl, hd1, hd2⟩ := isValidRev_sound hrev
                  obtain ⟨hQne, hpk⟩ := pkgOk_of_validPkgName hQ (fun p hp => hsepC p (by simp [hp]))
                  refine ⟨(validCat_iff _).mp hcat, hpk, (fun e => by cases e), ?_⟩
                  intro v' r' e
                  simp only [Option.some.injEq, Prod.mk.injEq] at e
                  obtain ⟨rfl, rfl⟩ := e
                  refine ⟨rfl, (verOk_lenient_iff v).mpr hw, hd2, ?_⟩
                  have hde : d.isEmpty = false := by simpa using hd1
                  rw [hs, ← hjoinC, List.append_assoc, joinSep_append _ _ _ hQne (by simp)]
                  simp [revText, hde, hren, joinSep]
          | false =>
            simp only [hrev, Bool.false_eq_true, if_false] at h
            simp only [List.getLast?_concat, Option.getD_some, List.dropLast_concat] at h
            cases hv : lexVer last with
            | none => simp [hv] at h
            | some v =>
              simp only [hv] at h
              cases hQ : validPkgName init with
              | false => simp [hQ] at h
              | true =>
                simp only [hQ, Bool.not_true, Bool.false_eq_true, if_false, Except.ok.injEq, Prod.mk.injEq] at h
                obtain ⟨rfl, rfl, rfl⟩ := h
                obtain ⟨hw, hren⟩ := lexVer_sound hv
                obtain ⟨hQne, hpk⟩ := pkgOk_of_validPkgName hQ (fun p hp => hsepC p (by simp [hp]))
                refine ⟨(validCat_iff _).mp hcat, hpk, (fun e => by cases e), ?_⟩
                intro v' r' e
                simp only [Option.some.injEq, Prod.mk.injEq] at e
                obtain ⟨rfl, rfl⟩ := e
                refine ⟨rfl, (verOk_lenient_iff v).mpr hw, rfl, ?_⟩
                rw [hs, ← hjoinC, joinSep_append _ _ _ hQne (by simp)]
                simp [revText, hren, joinSep]

end Pkgcore.C03
