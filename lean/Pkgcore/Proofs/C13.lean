import Pkgcore.Spec.C13
/-! helper lemmas for C13 -/
set_option linter.unusedSectionVars false
set_option linter.unusedVariables false
set_option linter.unusedSimpArgs false
namespace Pkgcore.C13
open Pkgcore.C13.Spec

/-! ## masks: stacking = last writer -/

theorem mem_applyOps (ops : List MaskOp) (s : List Str) (a : Str) :
    a ∈ applyOps ops s ↔ inEffect ops a (s.contains a) = true := by
  induction ops generalizing s with
  | nil => simp [applyOps, inEffect]
  | cons op ops ih =>
    simp only [applyOps, inEffect]
    rw [ih]
    congr 2
    by_cases hp : a ∈ op.pos
    · simp [hp]
    · by_cases hn : a ∈ op.neg
      · simp [hp, hn]
      · by_cases hs : a ∈ s <;> simp [hp, hn, hs]

theorem any_applyOps (m : Str → Bool) (ops : List MaskOp) :
    (applyOps ops []).any m = true ↔ Hit m ops := by
  simp only [List.any_eq_true, Hit]
  constructor
  · rintro ⟨a, ha, hm⟩
    exact ⟨a, by simpa using (mem_applyOps ops [] a).1 ha, hm⟩
  · rintro ⟨a, ha, hm⟩
    exact ⟨a, (mem_applyOps ops [] a).2 (by simpa using ha), hm⟩

theorem inEffect_true (ops : List MaskOp) (a : Str) (cur : Bool) (h : inEffect ops a cur = true) :
    cur = true ∨ a ∈ ops.flatMap (·.pos) := by
  induction ops generalizing cur with
  | nil => exact Or.inl h
  | cons op ops ih =>
    simp only [inEffect] at h
    rcases ih _ h with h1 | h1
    · by_cases hp : a ∈ op.pos
      · exact Or.inr (by simp [hp])
      · by_cases hn : a ∈ op.neg
        · simp [hp, hn] at h1
        · simp only [List.contains_iff_mem, hp, hn, if_false] at h1
          exact Or.inl h1
    · exact Or.inr (by simp [h1])

theorem hitB_iff (m : Str → Bool) (ops : List MaskOp) : hitB m ops = true ↔ Hit m ops := by
  unfold hitB Hit
  simp only [List.any_eq_true, Bool.and_eq_true]
  constructor
  · rintro ⟨a, _, h1, h2⟩; exact ⟨a, h1, h2⟩
  · rintro ⟨a, h1, h2⟩
    rcases inEffect_true ops a false h1 with h | h
    · exact Bool.noConfusion h
    · exact ⟨a, h, h1, h2⟩

/-! ## keywords -/

def NoNegL (l : List Str) : Prop := ∀ t ∈ l, isNeg t = false

theorem isNeg_cons_dash (t : Str) : isNeg ('-' :: t) = true := by simp [isNeg]

/-- with only positive tokens and no negative members, incremental expansion is plain union -/
theorem incExpand_pos (ts s : List Str) (hts : NoNegL ts) (hs : NoNegL s) :
    NoNegL (incExpand ts s) ∧ ∀ x, x ∈ incExpand ts s ↔ x ∈ s ∨ x ∈ ts := by
  induction ts generalizing s with
  | nil => simp [incExpand, hs]
  | cons t ts ih =>
    have ht : isNeg t = false := hts t (List.mem_cons_self)
    have hts' : NoNegL ts := fun x hx => hts x (List.mem_cons_of_mem _ hx)
    simp only [incExpand, ht, Bool.false_eq_true, if_false]
    have hfil : s.filter (· != '-' :: t) = s := by
      apply List.filter_eq_self.2
      intro x hx
      have : x ≠ '-' :: t := by
        intro e
        have := hs x hx
        rw [e, isNeg_cons_dash] at this
        exact Bool.noConfusion this
      simpa using this
    rw [hfil]
    have hs' : NoNegL (s ++ [t]) := by
      intro x hx
      rcases List.mem_append.1 hx with h | h
      · exact hs x h
      · simp at h; rw [h]; exact ht
    obtain ⟨h1, h2⟩ := ih (s ++ [t]) hts' hs'
    refine ⟨h1, ?_⟩
    intro x
    rw [h2]
    simp only [List.mem_append, List.mem_singleton, List.mem_cons, List.not_mem_nil, or_false]
    constructor
    · rintro ((h | h) | h)
      · exact Or.inl h
      · exact Or.inr (Or.inl h)
      · exact Or.inr (Or.inr h)
    · rintro (h | h | h)
      · exact Or.inl (Or.inl h)
      · exact Or.inl (Or.inr h)
      · exact Or.inr h

/-- the key list under positive tokens: exactly the matching atom entries of the package's key -/
theorem mem_keyList (es : List KwEntry) (started : Bool) (x : Str)
    (hpos : ∀ e ∈ es, NoNegL e.tokens) :
    x ∈ ((keyList es started).filter (·.1)).flatMap (·.2) ↔
      ∃ e ∈ es, e.cls = .atom ∧ e.sameKey = true ∧ e.hit = true ∧ x ∈ e.tokens := by
  induction es generalizing started with
  | nil => simp [keyList]
  | cons e es ih =>
    have hpos' : ∀ e' ∈ es, NoNegL e'.tokens := fun e' he' => hpos e' (List.mem_cons_of_mem _ he')
    have hnone : e.tokens.filter isNeg = [] := by
      apply List.filter_eq_nil_iff.2
      intro t ht
      simp [hpos e (List.mem_cons_self) t ht]
    unfold keyList
    cases hc : e.cls with
    | atom =>
      by_cases hk : e.sameKey = true
      · simp only [hk, if_true, List.filter_cons]
        by_cases hh : e.hit = true
        · simp only [hh, if_true, List.flatMap_cons, List.mem_append, ih true hpos', List.mem_cons, exists_eq_or_imp]
          simp [hc, hk, hh]
        · simp only [hh, Bool.false_eq_true, if_false, ih true hpos', List.mem_cons, exists_eq_or_imp]
          simp [hh]
      · simp only [hk, Bool.false_eq_true, if_false, ih started hpos', List.mem_cons, exists_eq_or_imp]
        simp [hk]
    | always =>
      cases started with
      | true =>
        simp only [if_true, List.filter_cons, hnone, List.flatMap_cons, List.nil_append, ih true hpos',
          List.mem_cons, exists_eq_or_imp]
        simp [hc]
      | false =>
        simp only [Bool.false_eq_true, if_false, ih false hpos', List.mem_cons, exists_eq_or_imp]
        simp [hc]
    | repo => simp only [ih started hpos', List.mem_cons, exists_eq_or_imp]; simp [hc]
    | cat => simp only [ih started hpos', List.mem_cons, exists_eq_or_imp]; simp [hc]
    | pkg => simp only [ih started hpos', List.mem_cons, exists_eq_or_imp]; simp [hc]
    | multi => simp only [ih started hpos', List.mem_cons, exists_eq_or_imp]; simp [hc]

/-- everything `pull_data` collects, under positive tokens -/
theorem mem_pulled (es : List KwEntry) (x : Str) (hpos : ∀ e ∈ es, NoNegL e.tokens) :
    x ∈ pulled es ↔ ∃ e ∈ es, e.hit = true ∧ e.cls ≠ .always ∧ (e.cls = .atom → e.sameKey = true) ∧ x ∈ e.tokens := by
  unfold pulled
  rw [List.mem_append, mem_keyList es false x hpos]
  simp only [List.mem_flatMap, List.mem_cons, List.mem_filter, Bool.and_eq_true, beq_iff_eq, List.not_mem_nil, or_false]
  constructor
  · rintro (⟨c, hc, e, ⟨he, hec, hh⟩, hx⟩ | ⟨e, he, hc, hk, hh, hx⟩)
    · refine ⟨e, he, hh, ?_, ?_, hx⟩
      · rcases hc with rfl | rfl | rfl | rfl <;> simp [hec]
      · rcases hc with rfl | rfl | rfl | rfl <;> simp [hec]
    · exact ⟨e, he, hh, by simp [hc], fun _ => hk, hx⟩
  · rintro ⟨e, he, hh, hna, hk, hx⟩
    cases hc : e.cls with
    | always => exact absurd hc hna
    | atom => exact Or.inr ⟨e, he, hc, hk hc, hh, hx⟩
    | repo => exact Or.inl ⟨.repo, by simp, e, ⟨he, hc, hh⟩, hx⟩
    | cat => exact Or.inl ⟨.cat, by simp, e, ⟨he, hc, hh⟩, hx⟩
    | pkg => exact Or.inl ⟨.pkg, by simp, e, ⟨he, hc, hh⟩, hx⟩
    | multi => exact Or.inl ⟨.multi, by simp, e, ⟨he, hc, hh⟩, hx⟩

theorem noNeg_pulled (es : List KwEntry) (hpos : ∀ e ∈ es, NoNegL e.tokens) : NoNegL (pulled es) := by
  intro x hx
  obtain ⟨e, he, _, _, _, hxe⟩ := (mem_pulled es x hpos).1 hx
  exact hpos e he x hxe

theorem mem_alwaysTokens (defaults : List Str) (es : List KwEntry) (x : Str) :
    x ∈ alwaysTokens defaults es ↔ x ∈ defaults ∨ ∃ e ∈ es, e.cls = .always ∧ x ∈ e.tokens := by
  simp [alwaysTokens, List.mem_flatMap, List.mem_filter]
  constructor
  · rintro (h | ⟨e, ⟨he, hc⟩, hx⟩)
    · exact Or.inl h
    · exact Or.inr ⟨e, he, hc, hx⟩
  · rintro (h | ⟨e, he, hc, hx⟩)
    · exact Or.inl h
    · exact Or.inr ⟨e, ⟨he, hc⟩, hx⟩


theorem noNeg_defaults (c : KwConfig) (h : KwPlain c) : NoNegL (defaultKeys c.arch c.accept) := by
  obtain ⟨ha, hacc, _⟩ := h
  intro t ht
  simp only [defaultKeys, List.mem_append, List.mem_cons, List.not_mem_nil, or_false, List.mem_map, List.mem_filter] at ht
  rcases ht with (rfl | ht) | ⟨k, ⟨hk, _⟩, rfl⟩
  · exact ha
  · exact (hacc t ht).1
  · have := (hacc k hk).2
    unfold isNeg
    cases hh : (k.dropWhile (· == '~')).head? with
    | none => rfl
    | some ch =>
      rw [hh] at this
      have : ch ≠ '-' := fun e => this (by rw [e])
      simp [this]

theorem mem_effective (stable : Bool) (ua : Str) (es : List KwEntry) (e' : KwEntry) :
    e' ∈ effective stable ua es ↔
      ∃ e ∈ es, e' = (if stable && e.tokens.isEmpty then { e with tokens := [ua] } else e) ∧ e'.tokens ≠ [] := by
  simp only [effective, List.mem_filter, List.mem_map]
  constructor
  · rintro ⟨⟨e, he, rfl⟩, hne⟩
    exact ⟨e, he, rfl, by simpa using hne⟩
  · rintro ⟨e, he, rfl, hne⟩
    exact ⟨⟨e, he, rfl⟩, by simpa using hne⟩

theorem stable_iff (c : KwConfig) :
    (!((defaultKeys c.arch c.accept).contains ('~' :: c.arch))) = true ↔ Stable c := by
  simp [Stable]

/-- the allowed set the code computes (either branch) is the property's accepted keyword set -/
theorem mem_allowed (c : KwConfig) (h : KwPlain c) (x : Str) :
    let defaults := defaultKeys c.arch c.accept
    let stable := !(defaults.contains ('~' :: c.arch))
    let es := effective stable ('~' :: c.arch) c.entries
    (x ∈ (if stable then allowedStable defaults es else allowedUnstable defaults es)) ↔ Allowed c x := by
  intro defaults stable es
  have hdef : NoNegL defaults := noNeg_defaults c h
  obtain ⟨_, _, hent⟩ := h
  have hua : isNeg ('~' :: c.arch) = false := by simp [isNeg]
  -- entries after `effective`: positive tokens, same flags
  have hes : ∀ e' ∈ es, NoNegL e'.tokens ∧ (e'.cls = .always → e'.hit = true) ∧
      (e'.cls = .atom → e'.hit = true → e'.sameKey = true) := by
    intro e' he'
    obtain ⟨e, he, rfl, _⟩ := (mem_effective _ _ _ _).1 he'
    obtain ⟨h1, h2, h3⟩ := hent e he
    by_cases hc : (stable && e.tokens.isEmpty) = true
    · simp only [hc, if_true]
      refine ⟨?_, h2, h3⟩
      intro t ht
      simp at ht
      rw [ht]; exact hua
    · simp only [hc, Bool.false_eq_true, if_false]
      exact ⟨h1, h2, h3⟩
  have hpos : ∀ e' ∈ es, NoNegL e'.tokens := fun e' he' => (hes e' he').1
  have halw : NoNegL (alwaysTokens defaults es) := by
    intro t ht
    rcases (mem_alwaysTokens defaults es t).1 ht with h | ⟨e, he, _, hx⟩
    · exact hdef t h
    · exact hpos e he t hx
  obtain ⟨hA1, hA2⟩ := incExpand_pos (alwaysTokens defaults es) [] halw (by intro t ht; simp at ht)
  -- membership in the computed set, both branches
  have hmem : (x ∈ (if stable then allowedStable defaults es else allowedUnstable defaults es)) ↔
      x ∈ defaults ∨ ∃ e' ∈ es, e'.hit = true ∧ x ∈ e'.tokens := by
    have hcore : (x ∈ alwaysTokens defaults es ∨ x ∈ pulled es) ↔
        x ∈ defaults ∨ ∃ e' ∈ es, e'.hit = true ∧ x ∈ e'.tokens := by
      rw [mem_alwaysTokens, mem_pulled es x hpos]
      constructor
      · rintro ((h | ⟨e, he, hc, hx⟩) | ⟨e, he, hh, _, _, hx⟩)
        · exact Or.inl h
        · exact Or.inr ⟨e, he, (hes e he).2.1 hc, hx⟩
        · exact Or.inr ⟨e, he, hh, hx⟩
      · rintro (h | ⟨e, he, hh, hx⟩)
        · exact Or.inl (Or.inl h)
        · by_cases hc : e.cls = .always
          · exact Or.inl (Or.inr ⟨e, he, hc, hx⟩)
          · exact Or.inr ⟨e, he, hh, hc, fun ha => (hes e he).2.2 ha hh, hx⟩
    cases hst : stable with
    | true =>
      simp only [if_true]
      unfold allowedStable defaultsFinalized
      have hfin : NoNegL ((incExpand (alwaysTokens defaults es) []).filter (fun t => !isNeg t)) := by
        intro t ht; exact hA1 t (List.mem_filter.1 ht).1
      obtain ⟨_, hB2⟩ := incExpand_pos (pulled es) _ (noNeg_pulled es hpos) hfin
      rw [hB2, ← hcore]
      simp only [List.mem_filter, hA2, List.not_mem_nil, false_or]
      constructor
      · rintro (⟨h, _⟩ | h)
        · exact Or.inl h
        · exact Or.inr h
      · rintro (h | h)
        · exact Or.inl ⟨h, by simp [halw x h]⟩
        · exact Or.inr h
    | false =>
      simp only [Bool.false_eq_true, if_false]
      unfold allowedUnstable
      rw [List.mem_append, hA2, ← hcore]
      simp
  rw [hmem]
  unfold Allowed
  refine or_congr Iff.rfl ?_
  constructor
  · rintro ⟨e', he', hh, hx⟩
    obtain ⟨e, he, rfl, _⟩ := (mem_effective _ _ _ _).1 he'
    by_cases hc : (stable && e.tokens.isEmpty) = true
    · simp only [hc, if_true] at hh hx
      simp only [Bool.and_eq_true, List.isEmpty_iff] at hc
      refine ⟨e, he, hh, Or.inr ⟨hc.2, (stable_iff c).1 hc.1, by simpa using hx⟩⟩
    · simp only [hc, Bool.false_eq_true, if_false] at hh hx
      exact ⟨e, he, hh, Or.inl hx⟩
  · rintro ⟨e, he, hh, hx | ⟨hemp, hst, rfl⟩⟩
    · refine ⟨_, (mem_effective stable ('~' :: c.arch) c.entries _).2 ⟨e, he, rfl, ?_⟩, ?_, ?_⟩
      · have hne : e.tokens ≠ [] := fun h0 => by rw [h0] at hx; simp at hx
        by_cases hc : (stable && e.tokens.isEmpty) = true
        · simp [hc]
        · simpa [hc] using hne
      · have hne : e.tokens.isEmpty = false := by
          cases hq : e.tokens with
          | nil => rw [hq] at hx; simp at hx
          | cons _ _ => rfl
        simp [hne, hh]
      · have hne : e.tokens.isEmpty = false := by
          cases hq : e.tokens with
          | nil => rw [hq] at hx; simp at hx
          | cons _ _ => rfl
        simp [hne, hx]
    · have hs : stable = true := (stable_iff c).2 hst
      refine ⟨{ e with tokens := ['~' :: c.arch] }, (mem_effective stable ('~' :: c.arch) c.entries _).2 ⟨e, he, ?_, ?_⟩, hh, ?_⟩
      · simp [hs, hemp]
      · simp
      · simp

/-- `_apply_keywords_filter` in terms of membership in the allowed set -/
theorem keywordsAccepted_iff (allowed : List Str) (P : Str → Prop) (hm : ∀ x, x ∈ allowed ↔ P x) (kws : List Str) :
    keywordsAccepted allowed kws = true ↔
      (P ['*', '*'] ∨ (P ['*'] ∧ ∃ k ∈ kws, isNeg k = false ∧ isTilde k = false) ∨
       (P ['~', '*'] ∧ ∃ k ∈ kws, isTilde k = true) ∨ ∃ k ∈ kws, P k) := by
  unfold keywordsAccepted
  simp only [Bool.or_eq_true, Bool.and_eq_true, List.any_eq_true, List.contains_iff_mem, hm, Bool.not_eq_true',
    Bool.or_eq_false_iff]
  constructor
  · rintro (((h1 | ⟨h1, k, hk, h2⟩) | ⟨h1, k, hk, h2⟩) | ⟨k, hk, h2⟩)
    · exact Or.inl h1
    · exact Or.inr (Or.inl ⟨h1, k, hk, h2⟩)
    · exact Or.inr (Or.inr (Or.inl ⟨h1, k, hk, h2⟩))
    · exact Or.inr (Or.inr (Or.inr ⟨k, hk, h2⟩))
  · rintro (h1 | ⟨h1, k, hk, h2⟩ | ⟨h1, k, hk, h2⟩ | ⟨k, hk, h2⟩)
    · exact Or.inl (Or.inl (Or.inl h1))
    · exact Or.inl (Or.inl (Or.inr ⟨h1, k, hk, h2⟩))
    · exact Or.inl (Or.inr ⟨h1, k, hk, h2⟩)
    · exact Or.inr ⟨k, hk, h2⟩

/-! ## licenses -/

/-- acceptance is pointwise: for a license of the alternative, membership in the expanded set = the last relevant token -/
theorem mem_licExpand (groups : Str → List Str) (andPair : List Str) (l : Str) (hl : l ∈ andPair)
    (toks s : List Str) :
    l ∈ licExpand groups andPair toks s ↔ accepts groups toks l (s.contains l) = true := by
  induction toks generalizing s with
  | nil => simp [licExpand, accepts]
  | cons t ts ih =>
    unfold licExpand accepts
    by_cases hn : isNeg t = true
    · simp only [hn, if_true]
      generalize t.drop 1 = i
      by_cases hs : (i == star) = true
      · simp only [hs, if_true]; rw [ih]; simp
      · simp only [hs, Bool.false_eq_true, if_false]
        by_cases ha : isAt i = true
        · simp only [ha, if_true]
          generalize i.drop 1 = g
          rw [ih]
          congr 2
          by_cases hg : l ∈ groups g <;> by_cases hm : l ∈ s <;> simp [hg, hm]
        · simp only [ha, Bool.false_eq_true, if_false]
          rw [ih]
          congr 2
          by_cases he : i = l
          · simp [he]
          · have : l ≠ i := fun e => he e.symm
            by_cases hm : l ∈ s <;> simp [he, this, hm]
    · simp only [hn, Bool.false_eq_true, if_false]
      by_cases ha : isAt t = true
      · simp only [ha, if_true]
        generalize t.drop 1 = g
        rw [ih]
        congr 2
        by_cases hg : l ∈ groups g <;> by_cases hm : l ∈ s <;> simp [hg, hm]
      · simp only [ha, Bool.false_eq_true, if_false]
        by_cases hs : (t == star) = true
        · simp only [hs, if_true]
          rw [ih]
          simp [hl]
        · simp only [hs, Bool.false_eq_true, if_false]
          rw [ih]
          congr 2
          by_cases he : t = l
          · simp [he]
          · have : l ≠ t := fun e => he e.symm
            by_cases hm : l ∈ s <;> simp [he, this, hm]

/-- some alternative consists of accepted licenses only -/
def Sat (acc : Str → Bool) (alts : List (List Str)) : Prop := ∃ alt ∈ alts, ∀ l ∈ alt, acc l = true

theorem sat_append (acc : Str → Bool) (a b : List (List Str)) : Sat acc (a ++ b) ↔ Sat acc a ∨ Sat acc b := by
  simp only [Sat, List.mem_append]
  constructor
  · rintro ⟨alt, h | h, hall⟩
    · exact Or.inl ⟨alt, h, hall⟩
    · exact Or.inr ⟨alt, h, hall⟩
  · rintro (⟨alt, h, hall⟩ | ⟨alt, h, hall⟩)
    · exact ⟨alt, Or.inl h, hall⟩
    · exact ⟨alt, Or.inr h, hall⟩

theorem sat_cross (acc : Str → Bool) (a b : List (List Str)) : Sat acc (cross a b) ↔ Sat acc a ∧ Sat acc b := by
  simp only [Sat, cross, List.mem_flatMap, List.mem_map]
  constructor
  · rintro ⟨alt, ⟨x, hx, y, hy, rfl⟩, hall⟩
    exact ⟨⟨x, hx, fun l hl => hall l (List.mem_append_left _ hl)⟩, ⟨y, hy, fun l hl => hall l (List.mem_append_right _ hl)⟩⟩
  · rintro ⟨⟨x, hx, hxa⟩, ⟨y, hy, hya⟩⟩
    refine ⟨x ++ y, ⟨x, hx, y, hy, rfl⟩, ?_⟩
    intro l hl
    rcases List.mem_append.1 hl with h | h
    · exact hxa l h
    · exact hya l h

mutual
theorem dnf_eval (acc : Str → Bool) : ∀ t : LTree, Sat acc t.dnf ↔ eval acc t = true
  | .lic n => by simp [LTree.dnf, eval, Sat]
  | .all ts => by simpa [LTree.dnf, eval] using dnfAll_eval acc ts
  | .any ts => by simpa [LTree.dnf, eval] using dnfAny_eval acc ts
theorem dnfAll_eval (acc : Str → Bool) : ∀ ts : List LTree, Sat acc (dnfAll ts) ↔ evalAll acc ts = true
  | [] => by simp [dnfAll, evalAll, Sat]
  | t :: ts => by
    simp only [dnfAll, evalAll, Bool.and_eq_true]
    rw [sat_cross, dnf_eval acc t, dnfAll_eval acc ts]
theorem dnfAny_eval (acc : Str → Bool) : ∀ ts : List LTree, Sat acc (dnfAny ts) ↔ evalAny acc ts = true
  | [] => by simp [dnfAny, evalAny, Sat]
  | t :: ts => by
    simp only [dnfAny, evalAny, Bool.or_eq_true]
    rw [sat_append, dnf_eval acc t, dnfAny_eval acc ts]
end

end Pkgcore.C13
