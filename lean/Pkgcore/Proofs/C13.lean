import Pkgcore.Spec.C13
/-! helper lemmas for C13 -/
set_option linter.unusedSectionVars false
set_option linter.unusedVariables false
set_option linter.unusedSimpArgs false
namespace Pkgcore.C13
open Pkgcore.C13.Spec

/-! ## masks: stacking = last writer -/

theorem mem_applyOps (ops : List MaskOp) (s : List Str) (a : Str) :
    a ∈ applyOps ops s ↔ inEffect ops a (s.contains a) = true := by
  induction ops generalizing s with
  | nil => simp [applyOps, inEffect]
  | cons op ops ih =>
    simp only [applyOps, inEffect]
    rw [ih]
    congr 2
    by_cases hp : a ∈ op.pos
    · simp [hp]
    · by_cases hn : a ∈ op.neg
      · simp [hp, hn]
      · by_cases hs : a ∈ s <;> simp [hp, hn, hs]

theorem any_applyOps (m : Str → Bool) (ops : List MaskOp) :
    (applyOps ops []).any m = true ↔ Hit m ops := by
  simp only [List.any_eq_true, Hit]
  constructor
  · rintro ⟨a, ha, hm⟩
    exact ⟨a, by simpa using (mem_applyOps ops [] a).1 ha, hm⟩
  · rintro ⟨a, ha, hm⟩
    exact ⟨a, (mem_applyOps ops [] a).2 (by simpa using ha), hm⟩

/-! ## keywords -/

def NoNegL (l : List Str) : Prop := ∀ t ∈ l, isNeg t = false

theorem isNeg_cons_dash (t : Str) : isNeg ('-' :: t) = true := by simp [isNeg]

/-- with only positive tokens and no negative members, incremental expansion is plain union -/
theorem incExpand_pos (ts s : List Str) (hts : NoNegL ts) (hs : NoNegL s) :
    NoNegL (incExpand ts s) ∧ ∀ x, x ∈ incExpand ts s ↔ x ∈ s ∨ x ∈ ts := by
  induction ts generalizing s with
  | nil => simp [incExpand, hs]
  | cons t ts ih =>
    have ht : isNeg t = false := hts t (List.mem_cons_self)
    have hts' : NoNegL ts := fun x hx => hts x (List.mem_cons_of_mem _ hx)
    simp only [incExpand, ht, Bool.false_eq_true, if_false]
    have hfil : s.filter (· != '-' :: t) = s := by
      apply List.filter_eq_self.2
      intro x hx
      have : x ≠ '-' :: t := by
        intro e
        have := hs x hx
        rw [e, isNeg_cons_dash] at this
        exact Bool.noConfusion this
      simpa using this
    rw [hfil]
    have hs' : NoNegL (s ++ [t]) := by
      intro x hx
      rcases List.mem_append.1 hx with h | h
      · exact hs x h
      · simp at h; rw [h]; exact ht
    obtain ⟨h1, h2⟩ := ih (s ++ [t]) hts' hs'
    refine ⟨h1, ?_⟩
    intro x
    rw [h2]
    simp only [List.mem_append, List.mem_singleton, List.mem_cons, List.not_mem_nil, or_false]
    constructor
    · rintro ((h | h) | h)
      · exact Or.inl h
      · exact Or.inr (Or.inl h)
      · exact Or.inr (Or.inr h)
    · rintro (h | h | h)
      · exact Or.inl (Or.inl h)
      · exact Or.inl (Or.inr h)
      · exact Or.inr h

/-- the key list under positive tokens: exactly the matching atom entries of the package's key -/
theorem mem_keyList (es : List KwEntry) (started : Bool) (x : Str)
    (hpos : ∀ e ∈ es, NoNegL e.tokens) :
    x ∈ ((keyList es started).filter (·.1)).flatMap (·.2) ↔
      ∃ e ∈ es, e.cls = .atom ∧ e.sameKey = true ∧ e.hit = true ∧ x ∈ e.tokens := by
  induction es generalizing started with
  | nil => simp [keyList]
  | cons e es ih =>
    have hpos' : ∀ e' ∈ es, NoNegL e'.tokens := fun e' he' => hpos e' (List.mem_cons_of_mem _ he')
    have hnone : e.tokens.filter isNeg = [] := by
      apply List.filter_eq_nil_iff.2
      intro t ht
      simp [hpos e (List.mem_cons_self) t ht]
    unfold keyList
    cases hc : e.cls with
    | atom =>
      by_cases hk : e.sameKey = true
      · simp only [hk, if_true, List.filter_cons]
        by_cases hh : e.hit = true
        · simp only [hh, if_true, List.flatMap_cons, List.mem_append, ih true hpos', List.mem_cons, exists_eq_or_imp]
          simp [hc, hk, hh]
        · simp only [hh, Bool.false_eq_true, if_false, ih true hpos', List.mem_cons, exists_eq_or_imp]
          simp [hh]
      · simp only [hk, Bool.false_eq_true, if_false, ih started hpos', List.mem_cons, exists_eq_or_imp]
        simp [hk]
    | always =>
      cases started with
      | true =>
        simp only [if_true, List.filter_cons, hnone, List.flatMap_cons, List.nil_append, ih true hpos',
          List.mem_cons, exists_eq_or_imp]
        simp [hc]
      | false =>
        simp only [Bool.false_eq_true, if_false, ih false hpos', List.mem_cons, exists_eq_or_imp]
        simp [hc]
    | repo => simp only [ih started hpos', List.mem_cons, exists_eq_or_imp]; simp [hc]
    | cat => simp only [ih started hpos', List.mem_cons, exists_eq_or_imp]; simp [hc]
    | pkg => simp only [ih started hpos', List.mem_cons, exists_eq_or_imp]; simp [hc]
    | multi => simp only [ih started hpos', List.mem_cons, exists_eq_or_imp]; simp [hc]

/-- everything `pull_data` collects, under positive tokens -/
theorem mem_pulled (es : List KwEntry) (x : Str) (hpos : ∀ e ∈ es, NoNegL e.tokens) :
    x ∈ pulled es ↔ ∃ e ∈ es, e.hit = true ∧ e.cls ≠ .always ∧ (e.cls = .atom → e.sameKey = true) ∧ x ∈ e.tokens := by
  unfold pulled
  rw [List.mem_append, mem_keyList es false x hpos]
  simp only [List.mem_flatMap, List.mem_cons, List.mem_filter, Bool.and_eq_true, beq_iff_eq, List.not_mem_nil, or_false]
  constructor
  · rintro (⟨c, hc, e, ⟨he, hec, hh⟩, hx⟩ | ⟨e, he, hc, hk, hh, hx⟩)
    · refine ⟨e, he, hh, ?_, ?_, hx⟩
      · rcases hc with rfl | rfl | rfl | rfl <;> simp [hec]
      · rcases hc with rfl | rfl | rfl | rfl <;> simp [hec]
    · exact ⟨e, he, hh, by simp [hc], fun _ => hk, hx⟩
  · rintro ⟨e, he, hh, hna, hk, hx⟩
    cases hc : e.cls with
    | always => exact absurd hc hna
    | atom => exact Or.inr ⟨e, he, hc, hk hc, hh, hx⟩
    | repo => exact Or.inl ⟨.repo, by simp, e, ⟨he, hc, hh⟩, hx⟩
    | cat => exact Or.inl ⟨.cat, by simp, e, ⟨he, hc, hh⟩, hx⟩
    | pkg => exact Or.inl ⟨.pkg, by simp, e, ⟨he, hc, hh⟩, hx⟩
    | multi => exact Or.inl ⟨.multi, by simp, e, ⟨he, hc, hh⟩, hx⟩

theorem noNeg_pulled (es : List KwEntry) (hpos : ∀ e ∈ es, NoNegL e.tokens) : NoNegL (pulled es) := by
  intro x hx
  obtain ⟨e, he, _, _, _, hxe⟩ := (mem_pulled es x hpos).1 hx
  exact hpos e he x hxe

theorem mem_alwaysTokens (defaults : List Str) (es : List KwEntry) (x : Str) :
    x ∈ alwaysTokens defaults es ↔ x ∈ defaults ∨ ∃ e ∈ es, e.cls = .always ∧ x ∈ e.tokens := by
  simp [alwaysTokens, List.mem_flatMap, List.mem_filter]
  constructor
  · rintro (h | ⟨e, ⟨he, hc⟩, hx⟩)
    · exact Or.inl h
    · exact Or.inr ⟨e, he, hc, hx⟩
  · rintro (h | ⟨e, he, hc, hx⟩)
    · exact Or.inl h
    · exact Or.inr ⟨e, ⟨he, hc⟩, hx⟩

end Pkgcore.C13
