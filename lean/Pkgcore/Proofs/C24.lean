import Pkgcore.Spec.C24
/-! # C24 helper lemmas (string primitives, numbers, lines, file system) -/
namespace Pkgcore.C24
open Pkgcore.Generated.C24

/-! ## split / join -/

theorem splitOn_ne_nil (sep : Char) (a : Str) : splitOn sep a ≠ [] := by
  induction a with
  | nil => simp [splitOn]
  | cons c cs ih =>
    unfold splitOn
    split
    · simp
    · split <;> simp

theorem splitOn_cons_ne (sep c : Char) (cs : Str) (h : c ≠ sep) :
    ∃ hd tl, splitOn sep cs = hd :: tl ∧ splitOn sep (c :: cs) = (c :: hd) :: tl := by
  cases hs : splitOn sep cs with
  | nil => exact absurd hs (splitOn_ne_nil sep cs)
  | cons hd tl => exact ⟨hd, tl, rfl, by simp [splitOn, h, hs]⟩

theorem splitOn_append_sep (sep : Char) (a b : Str) :
    splitOn sep (a ++ sep :: b) = splitOn sep a ++ splitOn sep b := by
  induction a with
  | nil => simp [splitOn]
  | cons c cs ih =>
    by_cases h : c = sep
    · simp [splitOn, h, ih]
    · obtain ⟨hd, tl, h1, h2⟩ := splitOn_cons_ne sep c cs h
      rw [h2]
      simp only [List.cons_append, splitOn, if_neg h, ih, h1]

theorem splitOn_nosep (sep : Char) (a : Str) (h : sep ∉ a) : splitOn sep a = [a] := by
  induction a with
  | nil => rfl
  | cons c cs ih =>
    have hc : c ≠ sep := fun e => h (by simp [e])
    have := ih (fun m => h (by simp [m]))
    simp [splitOn, hc, this]

theorem joinWith_cons_cons (sep c : Char) (hd : Str) (tl : List Str) :
    joinWith sep ((c :: hd) :: tl) = c :: joinWith sep (hd :: tl) := by
  cases tl <;> simp [joinWith]

theorem joinWith_splitOn (sep : Char) (a : Str) : joinWith sep (splitOn sep a) = a := by
  induction a with
  | nil => rfl
  | cons c cs ih =>
    by_cases h : c = sep
    · cases hs : splitOn sep cs with
      | nil => exact absurd hs (splitOn_ne_nil sep cs)
      | cons hd tl =>
        rw [hs] at ih
        simp [splitOn, h, hs, joinWith, ih]
    · obtain ⟨hd, tl, h1, h2⟩ := splitOn_cons_ne sep c cs h
      rw [h2, joinWith_cons_cons, ← h1, ih]

/-! ## lines -/

theorem splitLines_ne_nil (a : Str) : splitLines a ≠ [] := by
  induction a with
  | nil => simp [splitLines]
  | cons c cs ih =>
    unfold splitLines
    split
    · simp
    · split <;> simp

theorem splitLines_line (l rest : Str) (h : Spec.noLineBreak l) :
    splitLines (l ++ '\n' :: rest) = l :: splitLines rest := by
  induction l with
  | nil => simp [splitLines]
  | cons c cs ih =>
    have hc : ¬ (c = '\n' ∨ c = '\r') := by
      intro e
      rcases e with e | e
      · exact h.1 (by simp [e])
      · exact h.2 (by simp [e])
    have ih' := ih ⟨fun m => h.1 (by simp [m]), fun m => h.2 (by simp [m])⟩
    simp only [List.cons_append, splitLines, if_neg hc, ih']

theorem readLines_render (lines : List Str) (hl : ∀ l ∈ lines, l ≠ [] ∧ Spec.noLineBreak l) :
    readLines (lines.flatMap fun l => l ++ ['\n']) = lines := by
  induction lines with
  | nil => simp [readLines, splitLines]
  | cons l rest ih =>
    have ⟨hne, hnb⟩ := hl l (by simp)
    have ih' := ih (fun x hx => hl x (by simp [hx]))
    simp only [List.flatMap_cons, List.append_assoc, List.singleton_append]
    unfold readLines at ih' ⊢
    rw [splitLines_line l _ hnb]
    have : (!l.isEmpty) = true := by cases l <;> simp_all
    simp only [List.filter_cons, this, if_true, ih']

/-! ## numbers -/

theorem isDigit_not_special (c : Char) (h : c.isDigit = true) :
    c ≠ '-' ∧ c ≠ '+' ∧ c ≠ ' ' ∧ c ≠ '\n' ∧ c ≠ '\r' := by
  simp only [Char.isDigit, Bool.and_eq_true, decide_eq_true_eq] at h
  refine ⟨?_, ?_, ?_, ?_, ?_⟩ <;> (intro e; subst e; revert h; decide)

theorem allDigits_toDigits (n : Nat) : allDigits (Nat.toDigits 10 n) = true := by
  unfold allDigits
  have hne : Nat.toDigits 10 n ≠ [] := Nat.toDigits_ne_nil
  have : (Nat.toDigits 10 n).isEmpty = false := by
    cases h : Nat.toDigits 10 n with
    | nil => exact absurd h hne
    | cons _ _ => rfl
  simp only [this, Bool.not_false, Bool.true_and, List.all_eq_true]
  intro c hc
  exact Nat.isDigit_of_mem_toDigits (by decide) (by decide) hc

theorem parseInt_digits (ds : Str) (h : allDigits ds = true) :
    parseInt ds = some (Nat.ofDigitChars 10 ds 0 : Int) := by
  cases ds with
  | nil => simp [allDigits] at h
  | cons c cs =>
    have hc : c.isDigit = true := by
      simp only [allDigits, List.all_cons, Bool.and_eq_true] at h
      exact h.2.1
    have ⟨h1, h2, _⟩ := isDigit_not_special c hc
    unfold parseInt
    split
    · rename_i heq; cases heq; exact absurd rfl h1
    · rename_i heq; cases heq; exact absurd rfl h2
    · simp [h]

theorem parseInt_renderInt (i : Int) : parseInt (renderInt i) = some i := by
  unfold renderInt
  split
  · rename_i h
    simp only [parseInt, allDigits_toDigits, if_true, Nat.ofDigitChars_ten_toDigits]
    congr 1; omega
  · rename_i h
    rw [parseInt_digits _ (allDigits_toDigits _), Nat.ofDigitChars_ten_toDigits]
    congr 1; omega

theorem renderInt_chars (i : Int) (c : Char) (hc : c ∈ renderInt i) : c ≠ ' ' ∧ c ≠ '\n' ∧ c ≠ '\r' := by
  have hd : ∀ n, c ∈ Nat.toDigits 10 n → c ≠ ' ' ∧ c ≠ '\n' ∧ c ≠ '\r' := fun n h => by
    have := isDigit_not_special c (Nat.isDigit_of_mem_toDigits (by decide) (by decide) h)
    exact ⟨this.2.2.1, this.2.2.2.1, this.2.2.2.2⟩
  unfold renderInt at hc
  split at hc
  · simp only [List.mem_cons] at hc
    rcases hc with rfl | hc
    · decide
    · exact hd _ hc
  · exact hd _ hc

/-- hex digit characters -/
def isHexChar (c : Char) : Bool := (hexVal c).isSome

theorem digitChar_hex : ∀ d, d < 16 → hexVal (Nat.digitChar d) = some d := by decide

theorem toDigits16_spec (n : Nat) :
    (∀ c ∈ Nat.toDigits 16 n, isHexChar c = true) ∧
    (Nat.toDigits 16 n).foldl hexStep (some 0) = some n := by
  induction n using Nat.strongRecOn with
  | _ n ih =>
    rw [Nat.toDigits_eq_if (by decide)]
    split
    · rename_i h
      have := digitChar_hex n h
      simp [isHexChar, hexStep, this]
    · rename_i h
      have ⟨h1, h2⟩ := ih (n / 16) (by omega)
      have hd := digitChar_hex (n % 16) (by omega)
      constructor
      · intro c hc
        simp only [List.mem_append, List.mem_singleton] at hc
        rcases hc with hc | rfl
        · exact h1 c hc
        · simp [isHexChar, hd]
      · simp only [List.foldl_append, h2, List.foldl_cons, List.foldl_nil, hexStep, hd]
        congr 1; omega

theorem hexFold_zeros (k : Nat) (rest : Str) :
    (List.replicate k '0' ++ rest).foldl hexStep (some 0)
    = rest.foldl hexStep (some 0) := by
  induction k with
  | zero => simp
  | succ k ih =>
    rw [List.replicate_succ, List.cons_append, List.foldl_cons]
    have : hexVal '0' = some 0 := by decide
    simp only [hexStep, this, Nat.mul_zero, Nat.add_zero]
    exact ih

theorem parseHex_hexPad (n : Nat) : parseHex (hexPad n) = some n := by
  unfold parseHex hexPad
  have hne : (List.replicate (md5StrSize - (Nat.toDigits 16 n).length) '0' ++ Nat.toDigits 16 n).isEmpty = false := by
    have : Nat.toDigits 16 n ≠ [] := Nat.toDigits_ne_nil
    cases h : Nat.toDigits 16 n with
    | nil => exact absurd h this
    | cons _ _ => simp
  simp only [hne, Bool.false_eq_true, if_false, hexFold_zeros, (toDigits16_spec n).2]

theorem isHexChar_not_special (c : Char) (h : isHexChar c = true) : c ≠ ' ' ∧ c ≠ '\n' ∧ c ≠ '\r' := by
  refine ⟨?_, ?_, ?_⟩ <;> (intro e; subst e; revert h; decide)

theorem hexPad_chars (n : Nat) (c : Char) (hc : c ∈ hexPad n) : c ≠ ' ' ∧ c ≠ '\n' ∧ c ≠ '\r' := by
  unfold hexPad at hc
  simp only [List.mem_append, List.mem_replicate] at hc
  rcases hc with ⟨_, rfl⟩ | hc
  · decide
  · exact isHexChar_not_special c ((toDigits16_spec n).1 c hc)

/-! ## Python slices on token lists -/

theorem pySlice_mid2 (h : Str) (mid : List Str) (x y : Str) : pySlice (h :: (mid ++ [x, y])) 1 2 = mid := by
  unfold pySlice
  have : (h :: (mid ++ [x, y])).length - 2 = mid.length + 1 := by simp
  rw [this, List.take_succ_cons, List.take_left' rfl]
  rfl

theorem fromEnd_two (pre : List Str) (x y : Str) : fromEnd? (pre ++ [x, y]) 2 = some x := by
  unfold fromEnd?
  have h1 : ¬ ((pre ++ [x, y]).length < 2) := by simp
  have h2 : (pre ++ [x, y]).length - 2 = pre.length := by simp
  rw [if_neg h1, h2, List.getElem?_append_right (Nat.le_refl _)]
  simp

theorem fromEnd_one (pre : List Str) (y : Str) : fromEnd? (pre ++ [y]) 1 = some y := by
  unfold fromEnd?
  have h1 : ¬ ((pre ++ [y]).length < 1) := by simp
  have h2 : (pre ++ [y]).length - 1 = pre.length := by simp
  rw [if_neg h1, h2, List.getElem?_append_right (Nat.le_refl _)]
  simp

theorem idxOf_first (x : Str) (a b : List Str) (h : x ∉ a) : (a ++ x :: b).idxOf? x = some a.length := by
  induction a with
  | nil => simp [List.idxOf?, List.findIdx?_cons]
  | cons c cs ih =>
    have hc : (c == x) = false := by
      rw [beq_eq_false_iff_ne]; intro e; exact h (by simp [e])
    have := ih (fun m => h (by simp [m]))
    simp only [List.idxOf?] at this ⊢
    simp only [List.cons_append, List.findIdx?_cons, hc, this]
    simp

/-! ## one line -/

theorem tag_nospace (s : String) (h : ' ' ∉ s.toList) : splitOn ' ' (tag s) = [tag s] := splitOn_nosep _ _ h

theorem splitOn_hexPad (n : Nat) : splitOn ' ' (hexPad n) = [hexPad n] :=
  splitOn_nosep _ _ fun m => (hexPad_chars n ' ' m).1 rfl

theorem splitOn_renderInt (i : Int) : splitOn ' ' (renderInt i) = [renderInt i] :=
  splitOn_nosep _ _ fun m => (renderInt_chars i ' ' m).1 rfl

theorem tokens_obj (loc : Str) (md5 : Nat) (mtime : Int) :
    splitOn ' ' (renderLine (.obj loc md5 mtime)) = tag "obj" :: (splitOn ' ' loc ++ [hexPad md5, renderInt mtime]) := by
  simp only [renderLine, joinWith, splitOn_append_sep, splitOn_hexPad, splitOn_renderInt,
    tag_nospace "obj" (by decide)]
  simp

theorem tokens_sym (loc target : Str) (mtime : Int) :
    splitOn ' ' (renderLine (.sym loc target mtime))
      = tag "sym" :: (splitOn ' ' loc ++ tag "->" :: (splitOn ' ' target ++ [renderInt mtime])) := by
  simp only [renderLine, joinWith, splitOn_append_sep, splitOn_renderInt,
    tag_nospace "sym" (by decide), tag_nospace "->" (by decide)]
  simp

theorem tokens_simple (t : String) (ht : ' ' ∉ t.toList) (loc : Str) :
    splitOn ' ' (tag t ++ ' ' :: loc) = tag t :: splitOn ' ' loc := by
  rw [splitOn_append_sep, tag_nospace t ht]; rfl

theorem parseLine_render (e : Entry) (hn : normpath e.loc = e.loc) (hr : Spec.Representable e) :
    parseLine (renderLine e) = some e := by
  cases e with
  | obj loc md5 mtime =>
    simp only [Entry.loc] at hn
    unfold parseLine
    rw [tokens_obj]
    have e1 : tag "obj" ≠ tag "dir" := by decide
    have e2 : tag "obj" ≠ tag "dev" := by decide
    have e3 : tag "obj" ≠ tag "fif" := by decide
    simp only [List.head?_cons, if_neg e1, if_neg e2, if_neg e3, if_true]
    have hs : tag "obj" :: (splitOn ' ' loc ++ [hexPad md5, renderInt mtime])
        = (tag "obj" :: splitOn ' ' loc) ++ [hexPad md5, renderInt mtime] := rfl
    have f2 := fromEnd_two (tag "obj" :: splitOn ' ' loc) (hexPad md5) (renderInt mtime)
    have f1 : fromEnd? ((tag "obj" :: splitOn ' ' loc) ++ [hexPad md5, renderInt mtime]) 1 = some (renderInt mtime) := by
      have := fromEnd_one ((tag "obj" :: splitOn ' ' loc) ++ [hexPad md5]) (renderInt mtime)
      simpa using this
    rw [pySlice_mid2, hs, f2, f1]
    simp [parseHex_hexPad, parseInt_renderInt, joinWith_splitOn, hn]
  | sym loc target mtime =>
    simp only [Entry.loc] at hn
    obtain ⟨_, _, harrow⟩ := hr
    unfold parseLine
    rw [tokens_sym]
    have e1 : tag "sym" ≠ tag "dir" := by decide
    have e2 : tag "sym" ≠ tag "dev" := by decide
    have e3 : tag "sym" ≠ tag "fif" := by decide
    have e4 : tag "sym" ≠ tag "obj" := by decide
    simp only [List.head?_cons, if_neg e1, if_neg e2, if_neg e3, if_neg e4, if_true]
    have hidx : (tag "sym" :: (splitOn ' ' loc ++ tag "->" :: (splitOn ' ' target ++ [renderInt mtime]))).idxOf? (tag "->")
        = some (splitOn ' ' loc).length.succ := by
      have hnot : tag "->" ∉ tag "sym" :: splitOn ' ' loc := by
        simp only [List.mem_cons, not_or]
        exact ⟨by decide, harrow⟩
      have := idxOf_first (tag "->") (tag "sym" :: splitOn ' ' loc) (splitOn ' ' target ++ [renderInt mtime]) hnot
      simpa using this
    have f1 : fromEnd? (tag "sym" :: (splitOn ' ' loc ++ tag "->" :: (splitOn ' ' target ++ [renderInt mtime]))) 1
        = some (renderInt mtime) := by
      have := fromEnd_one (tag "sym" :: (splitOn ' ' loc ++ tag "->" :: splitOn ' ' target)) (renderInt mtime)
      simpa using this
    have hloc : ((tag "sym" :: (splitOn ' ' loc ++ tag "->" :: (splitOn ' ' target ++ [renderInt mtime]))).take
        (splitOn ' ' loc).length.succ).drop 1 = splitOn ' ' loc := by
      rw [List.take_succ_cons, List.take_left' rfl]; rfl
    have htgt : pySlice (tag "sym" :: (splitOn ' ' loc ++ tag "->" :: (splitOn ' ' target ++ [renderInt mtime])))
        ((splitOn ' ' loc).length.succ + 1) 1 = splitOn ' ' target := by
      unfold pySlice
      have hl : (tag "sym" :: (splitOn ' ' loc ++ tag "->" :: (splitOn ' ' target ++ [renderInt mtime]))).length - 1
          = ((tag "sym" :: splitOn ' ' loc) ++ tag "->" :: splitOn ' ' target).length := by
        simp; omega
      have hre : tag "sym" :: (splitOn ' ' loc ++ tag "->" :: (splitOn ' ' target ++ [renderInt mtime]))
          = ((tag "sym" :: splitOn ' ' loc) ++ tag "->" :: splitOn ' ' target) ++ [renderInt mtime] := by simp
      rw [hl, hre, List.take_left' rfl]
      have : ((tag "sym" :: splitOn ' ' loc) ++ tag "->" :: splitOn ' ' target)
          = ((tag "sym" :: splitOn ' ' loc) ++ [tag "->"]) ++ splitOn ' ' target := by simp
      rw [this]
      apply List.drop_left'
      simp
    rw [hidx, f1]
    simp only [Option.bind_eq_bind, Option.bind_some, hloc, htgt]
    simp [parseInt_renderInt, joinWith_splitOn, hn]
  | dir loc =>
    simp only [Entry.loc] at hn
    unfold parseLine
    simp only [renderLine]
    have : tag "dir " ++ loc = tag "dir" ++ ' ' :: loc := by simp [tag]
    rw [this, tokens_simple "dir" (by decide)]
    simp [joinWith_splitOn, hn]
  | dev loc =>
    simp only [Entry.loc] at hn
    unfold parseLine
    simp only [renderLine]
    have : tag "dev " ++ loc = tag "dev" ++ ' ' :: loc := by simp [tag]
    rw [this, tokens_simple "dev" (by decide)]
    have e1 : tag "dev" ≠ tag "dir" := by decide
    simp [joinWith_splitOn, hn, e1]
  | fif loc =>
    simp only [Entry.loc] at hn
    unfold parseLine
    simp only [renderLine]
    have : tag "fif " ++ loc = tag "fif" ++ ' ' :: loc := by simp [tag]
    rw [this, tokens_simple "fif" (by decide)]
    have e1 : tag "fif" ≠ tag "dir" := by decide
    have e2 : tag "fif" ≠ tag "dev" := by decide
    simp [joinWith_splitOn, hn, e1, e2]

/-- a rendered line is not empty and has no line break -/
theorem renderLine_ok (e : Entry) (hr : Spec.Representable e) :
    renderLine e ≠ [] ∧ Spec.noLineBreak (renderLine e) := by
  have tagnb : ∀ s : String, '\n' ∉ s.toList → '\r' ∉ s.toList → Spec.noLineBreak (tag s) := fun s a b => ⟨a, b⟩
  cases e with
  | obj loc md5 mtime =>
    have hl : Spec.noLineBreak loc := hr
    refine ⟨by simp [renderLine, joinWith, tag], ?_, ?_⟩
    · simp only [renderLine, joinWith, List.mem_append, List.mem_cons, not_or]
      exact ⟨by decide, by decide, hl.1, by decide, fun m => (hexPad_chars md5 _ m).2.1 rfl, by decide,
        fun m => (renderInt_chars mtime _ m).2.1 rfl⟩
    · simp only [renderLine, joinWith, List.mem_append, List.mem_cons, not_or]
      exact ⟨by decide, by decide, hl.2, by decide, fun m => (hexPad_chars md5 _ m).2.2 rfl, by decide,
        fun m => (renderInt_chars mtime _ m).2.2 rfl⟩
  | sym loc target mtime =>
    obtain ⟨hl, ht, _⟩ := hr
    refine ⟨by simp [renderLine, joinWith, tag], ?_, ?_⟩
    · simp only [renderLine, joinWith, List.mem_append, List.mem_cons, not_or]
      exact ⟨by decide, by decide, hl.1, by decide, by decide, by decide, ht.1, by decide,
        fun m => (renderInt_chars mtime _ m).2.1 rfl⟩
    · simp only [renderLine, joinWith, List.mem_append, List.mem_cons, not_or]
      exact ⟨by decide, by decide, hl.2, by decide, by decide, by decide, ht.2, by decide,
        fun m => (renderInt_chars mtime _ m).2.2 rfl⟩
  | dir loc =>
    have hl : Spec.noLineBreak loc := hr
    refine ⟨by simp [renderLine, tag], ?_, ?_⟩
    · simp only [renderLine, List.mem_append, not_or]; exact ⟨by decide, hl.1⟩
    · simp only [renderLine, List.mem_append, not_or]; exact ⟨by decide, hl.2⟩
  | dev loc =>
    have hl : Spec.noLineBreak loc := hr
    refine ⟨by simp [renderLine, tag], ?_, ?_⟩
    · simp only [renderLine, List.mem_append, not_or]; exact ⟨by decide, hl.1⟩
    · simp only [renderLine, List.mem_append, not_or]; exact ⟨by decide, hl.2⟩
  | fif loc =>
    have hl : Spec.noLineBreak loc := hr
    refine ⟨by simp [renderLine, tag], ?_, ?_⟩
    · simp only [renderLine, List.mem_append, not_or]; exact ⟨by decide, hl.1⟩
    · simp only [renderLine, List.mem_append, not_or]; exact ⟨by decide, hl.2⟩

/-! ## the set -/

theorem setAdd_fresh (d : List Entry) (e : Entry) (h : e.loc ∉ d.map Entry.loc) : setAdd d e = d ++ [e] := by
  have : d.any (·.loc == e.loc) = false := by
    rw [List.any_eq_false]
    intro x hx hk
    have : x.loc = e.loc := by simpa using hk
    exact h (by rw [← this]; exact List.mem_map_of_mem hx)
  simp [setAdd, this]

theorem foldl_setAdd_nodup (l acc : List Entry) (h : ((acc ++ l).map Entry.loc).Nodup) :
    l.foldl setAdd acc = acc ++ l := by
  induction l generalizing acc with
  | nil => simp
  | cons p r ih =>
    have hp : p.loc ∉ acc.map Entry.loc := by
      simp only [List.map_append, List.map_cons] at h
      have := (List.nodup_append.mp h).2.2
      intro hm
      exact this _ hm _ (by simp) rfl
    simp only [List.foldl_cons, setAdd_fresh acc p hp]
    rw [ih (acc ++ [p]) (by simpa using h)]
    simp

theorem insertEntry_perm (e : Entry) (l : List Entry) : (insertEntry e l).Perm (e :: l) := by
  induction l with
  | nil => exact List.Perm.refl _
  | cons x xs ih =>
    unfold insertEntry
    split
    · exact List.Perm.refl _
    · exact ((List.Perm.cons x ih).trans (List.Perm.swap e x xs))

theorem sortEntries_perm (es : List Entry) : (sortEntries es).Perm es := by
  induction es with
  | nil => exact List.Perm.refl _
  | cons e r ih =>
    show (insertEntry e (sortEntries r)).Perm (e :: r)
    exact (insertEntry_perm e _).trans (List.Perm.cons e ih)

/-! ## file system -/

theorem read_del (fs : Fs) (p q : Str) : (fs.del p).read q = if q = p then none else fs.read q := by
  induction fs with
  | nil => simp [Fs.del, Fs.read, List.lookup]
  | cons x rest ih =>
    obtain ⟨n, c⟩ := x
    simp only [Fs.del, Fs.read] at ih ⊢
    by_cases hnp : n = p
    · subst hnp
      simp only [List.filter_cons, bne_self_eq_false, Bool.false_eq_true, if_false, ih, List.lookup]
      by_cases hq : q = n
      · simp [hq]
      · have : (q == n) = false := by simpa using hq
        simp [hq, this]
    · have : (n != p) = true := by simpa using hnp
      simp only [List.filter_cons, this, if_true, List.lookup]
      by_cases hq : q = n
      · subst hq; simp [hnp]
      · have hb : (q == n) = false := by simpa using hq
        simp only [hb, ih]

theorem read_put (fs : Fs) (p q c : Str) : (fs.put p c).read q = if q = p then some c else fs.read q := by
  by_cases h : q = p
  · subst h; simp [Fs.put, Fs.read]
  · have hb : (q == p) = false := by simpa using h
    have := read_del fs p q
    simp only [Fs.read] at this
    simp [Fs.put, Fs.read, List.lookup, hb, this, h]

/-- the paths an operation can change the content of -/
def touches : FsOp → Str → Bool
  | .creat p, q => p == q
  | .write p _, q => p == q
  | .rename a b, q => a == q || b == q
  | .unlink p, q => p == q
  | _, _ => false

theorem step_untouched (fs : Fs) (op : FsOp) (q : Str) (h : touches op q = false) : (step fs op).read q = fs.read q := by
  cases op with
  | creat p =>
    have : q ≠ p := by intro e; subst e; simp [touches] at h
    simp [step, read_put, this]
  | write p d =>
    have : q ≠ p := by intro e; subst e; simp [touches] at h
    simp only [step]
    split
    · simp [read_put, this]
    · rfl
  | rename a b =>
    simp only [touches, Bool.or_eq_false_iff, beq_eq_false_iff_ne, ne_eq] at h
    have h1 : q ≠ a := fun e => h.1 e.symm
    have h2 : q ≠ b := fun e => h.2 e.symm
    simp only [step]
    split
    · simp [read_put, read_del, h1, h2]
    · rfl
  | unlink p =>
    have : q ≠ p := by intro e; subst e; simp [touches] at h
    simp [step, read_del, this]
  | close p => rfl
  | chmod p m => rfl
  | chown p u g => rfl
  | utime p t => rfl
  | mkdir p => rfl

theorem run_untouched (ops : List FsOp) (fs : Fs) (q : Str) (h : ∀ op ∈ ops, touches op q = false) :
    (run ops fs).read q = fs.read q := by
  induction ops generalizing fs with
  | nil => rfl
  | cons op rest ih =>
    simp only [run, List.foldl_cons] at ih ⊢
    rw [ih (step fs op) (fun o ho => h o (by simp [ho])), step_untouched fs op q (h op (by simp))]

theorem run_append (a b : List FsOp) (fs : Fs) : run (a ++ b) fs = run b (run a fs) := by
  simp [run, List.foldl_append]

theorem run_single (op : FsOp) (fs : Fs) : run [op] fs = step fs op := rfl

theorem run_writes (p : Str) (chunks : List Str) (fs : Fs) (c : Str) (h : fs.read p = some c) :
    (run (chunks.map (.write p)) fs).read p = some (c ++ chunks.flatten) := by
  induction chunks generalizing fs c with
  | nil => simpa [run] using h
  | cons d rest ih =>
    simp only [List.map_cons, run, List.foldl_cons] at ih ⊢
    have : (step fs (.write p d)).read p = some (c ++ d) := by simp [step, h, read_put]
    rw [ih _ _ this]
    simp

theorem tmp_ne_target (dir base : Str) : tmpName dir base ≠ targetName dir base := by
  unfold tmpName targetName
  intro h
  have := List.append_cancel_left h
  simp only [List.cons.injEq, true_and] at this
  have hl := congrArg List.length this
  simp [tag] at hl
  omega

/-- the part of `atomicWriteOps` before the rename -/
def prepOps (dir base : Str) (chunks : List Str) : List FsOp :=
  [.creat (tmpName dir base), .chmod (tmpName dir base) writePerms, .chown (tmpName dir base) rootUid rootGid]
    ++ chunks.map (.write (tmpName dir base)) ++ [.close (tmpName dir base)]

theorem atomicWriteOps_eq (dir base : Str) (chunks : List Str) :
    atomicWriteOps dir base chunks = prepOps dir base chunks ++ [.rename (tmpName dir base) (targetName dir base)] := by
  simp [atomicWriteOps, prepOps]

theorem prepOps_untouched (dir base : Str) (chunks : List Str) (q : Str) (hq : q ≠ tmpName dir base) :
    ∀ op ∈ prepOps dir base chunks, touches op q = false := by
  intro op hop
  have hne : (tmpName dir base == q) = false := by simpa using fun e => hq e.symm
  simp only [prepOps, List.mem_append, List.mem_cons, List.mem_map, List.not_mem_nil, or_false] at hop
  rcases hop with ((rfl | rfl | rfl) | ⟨d, _, rfl⟩) | rfl <;> simp [touches, hne]

theorem prepOps_tmp (dir base : Str) (chunks : List Str) (fs : Fs) :
    (run (prepOps dir base chunks) fs).read (tmpName dir base) = some chunks.flatten := by
  unfold prepOps
  rw [run_append, run_append]
  have h0 : (run [.creat (tmpName dir base), .chmod (tmpName dir base) writePerms,
      .chown (tmpName dir base) rootUid rootGid] fs).read (tmpName dir base) = some [] := by
    simp [run, step, read_put]
  have := run_writes (tmpName dir base) chunks _ [] h0
  simpa [run, step] using this

/-- generic crash-point lemma: writing a temp file next to the target and renaming it over the target
leaves, at every prefix of the operation list, the old or the complete new content at the target, and
never touches any third file -/
theorem atomic_replace_prefix (dir base : Str) (chunks : List Str) (fs : Fs) (k : Nat) :
    ((run ((atomicWriteOps dir base chunks).take k) fs).read (targetName dir base) = fs.read (targetName dir base) ∨
     (run ((atomicWriteOps dir base chunks).take k) fs).read (targetName dir base) = some chunks.flatten) ∧
    (∀ q, q ≠ tmpName dir base → q ≠ targetName dir base →
      (run ((atomicWriteOps dir base chunks).take k) fs).read q = fs.read q) := by
  rw [atomicWriteOps_eq]
  by_cases hk : k ≤ (prepOps dir base chunks).length
  · rw [List.take_append_of_le_length hk]
    have hsub : ∀ q, q ≠ tmpName dir base → ∀ op ∈ (prepOps dir base chunks).take k, touches op q = false :=
      fun q hq op hop => prepOps_untouched dir base chunks q hq op (List.mem_of_mem_take hop)
    exact ⟨Or.inl (run_untouched _ fs _ (hsub _ (tmp_ne_target dir base).symm)),
      fun q h1 _ => run_untouched _ fs q (hsub q h1)⟩
  · have : (prepOps dir base chunks ++ [FsOp.rename (tmpName dir base) (targetName dir base)]).take k
        = prepOps dir base chunks ++ [FsOp.rename (tmpName dir base) (targetName dir base)] := by
      apply List.take_of_length_le
      simp; omega
    rw [this, run_append]
    have htmp := prepOps_tmp dir base chunks fs
    constructor
    · right
      rw [run_single]
      simp only [step, htmp, read_put, if_true]
    · intro q h1 h2
      rw [run_single]
      simp only [step, htmp]
      rw [read_put, if_neg h2, read_del, if_neg h1]
      exact run_untouched _ fs q (prepOps_untouched dir base chunks q h1)

theorem atomic_replace_final (dir base : Str) (chunks : List Str) (fs : Fs) :
    (run (atomicWriteOps dir base chunks) fs).read (targetName dir base) = some chunks.flatten ∧
    (run (atomicWriteOps dir base chunks) fs).read (tmpName dir base) = none := by
  rw [atomicWriteOps_eq, run_append]
  have htmp := prepOps_tmp dir base chunks fs
  rw [run_single]
  simp only [step, htmp]
  constructor
  · simp only [read_put, if_true]
  · rw [read_put, if_neg (tmp_ne_target dir base), read_del, if_pos rfl]

/-! ## a failing flush -/

theorem abortOps_untouched (dir base : Str) (written : List Str) (q : Str) (hq : q ≠ tmpName dir base) :
    ∀ op ∈ abortOps dir base written, touches op q = false := by
  intro op hop
  have hne : (tmpName dir base == q) = false := by simpa using fun e => hq e.symm
  simp only [abortOps, List.mem_append, List.mem_cons, List.mem_map, List.not_mem_nil, or_false] at hop
  rcases hop with ((rfl | rfl | rfl) | ⟨d, _, rfl⟩) | rfl | rfl <;> simp [touches, hne]

theorem abortOps_final (dir base : Str) (written : List Str) (fs : Fs) :
    (run (abortOps dir base written) fs).read (tmpName dir base) = none := by
  have e : abortOps dir base written
      = ([FsOp.creat (tmpName dir base), .chmod (tmpName dir base) writePerms, .chown (tmpName dir base) rootUid rootGid]
          ++ written.map (.write (tmpName dir base)) ++ [.close (tmpName dir base)]) ++ [.unlink (tmpName dir base)] := by
    simp [abortOps]
  rw [e, run_append, run_single]
  simp [step, read_del]

/-! ## mutation histories -/

theorem map_replace_loc (d : List Entry) (e : Entry) :
    (d.map fun x => if x.loc == e.loc then e else x).map Entry.loc = d.map Entry.loc := by
  induction d with
  | nil => rfl
  | cons x xs ih =>
    simp only [List.map_cons, ih]
    by_cases h : (x.loc == e.loc) = true
    · simp only [h, if_true]; rw [(by simpa using h : x.loc = e.loc)]
    · simp [h]

theorem setAdd_isSet (d : List Entry) (e : Entry) (h : Spec.IsSet d) : Spec.IsSet (setAdd d e) := by
  unfold Spec.IsSet at h ⊢
  unfold setAdd
  split
  · rw [map_replace_loc]; exact h
  · rename_i hany
    have hfresh : e.loc ∉ d.map Entry.loc := by
      intro hm
      obtain ⟨x, hx, hxe⟩ := List.mem_map.mp hm
      exact hany (List.any_eq_true.mpr ⟨x, hx, by simp [hxe]⟩)
    simp only [List.map_append, List.map_cons, List.map_nil]
    rw [List.nodup_append]
    exact ⟨h, by simp, fun a ha b hb => by
      simp only [List.mem_singleton] at hb; subst hb; intro e'; subst e'; exact hfresh ha⟩

theorem mem_setAdd (d : List Entry) (e y : Entry) (h : y ∈ setAdd d e) : y ∈ d ∨ y = e := by
  unfold setAdd at h
  split at h
  · obtain ⟨x, hx, hxy⟩ := List.mem_map.mp h
    split at hxy
    · exact Or.inr hxy.symm
    · exact Or.inl (hxy ▸ hx)
  · simp only [List.mem_append, List.mem_singleton] at h; exact h

theorem foldl_setAdd_isSet (es d : List Entry) (h : Spec.IsSet d) : Spec.IsSet (es.foldl setAdd d) := by
  induction es generalizing d with
  | nil => exact h
  | cons e r ih => exact ih _ (setAdd_isSet d e h)

theorem mem_foldl_setAdd (es d : List Entry) (y : Entry) (h : y ∈ es.foldl setAdd d) : y ∈ d ∨ y ∈ es := by
  induction es generalizing d with
  | nil => exact Or.inl h
  | cons e r ih =>
    rcases ih _ h with h1 | h1
    · rcases mem_setAdd d e y h1 with h2 | h2
      · exact Or.inl h2
      · exact Or.inr (by simp [h2])
    · exact Or.inr (by simp [h1])

theorem filter_isSet (d : List Entry) (p : Entry → Bool) (h : Spec.IsSet d) : Spec.IsSet (d.filter p) :=
  (List.filter_sublist.map Entry.loc).nodup h

/-- the entries an operation can bring into the set -/
def opEntries : SetOp → List Entry
  | .add e => [e]
  | .update es => es
  | .symDiffUpdate es => es
  | _ => []

theorem applyOp_isSet (s : List Entry) (op : SetOp) (h : Spec.IsSet s) : Spec.IsSet (applyOp s op) := by
  cases op with
  | add e => exact setAdd_isSet s e h
  | discard l => exact filter_isSet s _ h
  | clear => exact List.nodup_nil
  | update es => exact foldl_setAdd_isSet es s h
  | differenceUpdate ls => exact filter_isSet s _ h
  | intersectionUpdate ls => exact filter_isSet s _ h
  | symDiffUpdate es => exact foldl_setAdd_isSet _ _ (filter_isSet s _ h)

theorem mem_applyOp (s : List Entry) (op : SetOp) (y : Entry) (h : y ∈ applyOp s op) : y ∈ s ∨ y ∈ opEntries op := by
  cases op with
  | add e => rcases mem_setAdd s e y h with h1 | h1; exact Or.inl h1; exact Or.inr (by simp [opEntries, h1])
  | discard l => exact Or.inl (List.mem_filter.mp h).1
  | clear => simp [applyOp] at h
  | update es => exact mem_foldl_setAdd es s y h
  | differenceUpdate ls => exact Or.inl (List.mem_filter.mp h).1
  | intersectionUpdate ls => exact Or.inl (List.mem_filter.mp h).1
  | symDiffUpdate es =>
    rcases mem_foldl_setAdd _ _ y h with h1 | h1
    · exact Or.inl (List.mem_filter.mp h1).1
    · have h2 := (List.mem_filter.mp h1).1
      rcases mem_foldl_setAdd es [] y h2 with h3 | h3
      · simp at h3
      · exact Or.inr h3

theorem applyOps_isSet (s : List Entry) (hist : List SetOp) (h : Spec.IsSet s) : Spec.IsSet (applyOps s hist) := by
  unfold applyOps
  induction hist generalizing s with
  | nil => exact h
  | cons op r ih => exact ih _ (applyOp_isSet s op h)

theorem mem_applyOps (s : List Entry) (hist : List SetOp) (y : Entry) (h : y ∈ applyOps s hist) :
    y ∈ s ∨ ∃ op ∈ hist, y ∈ opEntries op := by
  unfold applyOps at h
  induction hist generalizing s with
  | nil => exact Or.inl h
  | cons op r ih =>
    rcases ih _ h with h1 | ⟨o, ho, hy⟩
    · rcases mem_applyOp s op y h1 with h2 | h2
      · exact Or.inl h2
      · exact Or.inr ⟨op, by simp, h2⟩
    · exact Or.inr ⟨o, by simp [ho], hy⟩

end Pkgcore.C24
