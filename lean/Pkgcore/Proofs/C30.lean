import Pkgcore.Spec.C30
/-! # C30 helper lemmas: Python-set operations on duplicate-free lists, the flat file system, `flush` prefixes -/
namespace Pkgcore.C30
open Pkgcore.C30.Spec

/-! ## sets -/

theorem mem_setAdd (w : World) (e x : Line) : x ∈ setAdd w e ↔ x ∈ w ∨ x = e := by
  unfold setAdd
  by_cases h : e ∈ w
  · simp only [h, if_true]
    constructor
    · exact Or.inl
    · rintro (h' | rfl) <;> assumption
  · simp [h]

theorem nodup_setAdd (w : World) (e : Line) (h : w.Nodup) : (setAdd w e).Nodup := by
  unfold setAdd
  by_cases he : e ∈ w
  · simpa [he] using h
  · simp only [he, if_false]
    exact List.nodup_append.2 ⟨h, by simp, by intro a ha b hb; simp at hb; subst hb; exact fun e' => he (e' ▸ ha)⟩

theorem setRemove_eq_none (w : World) (e : Line) : setRemove w e = none ↔ e ∉ w := by
  unfold setRemove; by_cases h : e ∈ w <;> simp [h]

theorem setRemove_some (w w' : World) (e : Line) (hn : w.Nodup) (h : setRemove w e = some w') :
    e ∈ w ∧ w'.Nodup ∧ ∀ x, x ∈ w' ↔ x ∈ w ∧ x ≠ e := by
  unfold setRemove at h
  by_cases he : e ∈ w
  · simp only [he, if_true, Option.some.injEq] at h
    subst h
    refine ⟨he, hn.erase e, fun x => ?_⟩
    rw [hn.mem_erase_iff]; exact And.comm
  · simp [he] at h

theorem mem_foldl_setAdd (l : List Line) (acc : World) (x : Line) :
    x ∈ l.foldl setAdd acc ↔ x ∈ acc ∨ x ∈ l := by
  induction l generalizing acc with
  | nil => simp
  | cons a l ih =>
    simp only [List.foldl_cons, ih, mem_setAdd, List.mem_cons]
    constructor
    · rintro ((h | h) | h)
      · exact Or.inl h
      · exact Or.inr (Or.inl h)
      · exact Or.inr (Or.inr h)
    · rintro (h | h | h)
      · exact Or.inl (Or.inl h)
      · exact Or.inl (Or.inr h)
      · exact Or.inr h

theorem nodup_foldl_setAdd (l : List Line) (acc : World) (h : acc.Nodup) : (l.foldl setAdd acc).Nodup := by
  induction l generalizing acc with
  | nil => simpa
  | cons a l ih => exact ih _ (nodup_setAdd _ _ h)

theorem mem_parse (ls : List Line) (x : Line) : x ∈ parse ls ↔ x ∈ ls ∧ isEntryLine x = true := by
  simp [parse, mem_foldl_setAdd, List.mem_filter]

theorem nodup_parse (ls : List Line) : (parse ls).Nodup := nodup_foldl_setAdd _ _ List.nodup_nil

/-! ## entries -/

theorem slotOk_ne_nil {s : Line} (h : SlotOk s) : s ≠ [] := h.1

theorem colon_not_slot : ':' ∉ Generated.C30.validSlotChars := by decide

theorem worldText_eq_spec (key : Line) (slot : Option Line) (h : SlotOptOk slot) :
    worldText key slot = specEntry key slot := by
  cases slot with
  | none => rfl
  | some s =>
    have : s ≠ [] := slotOk_ne_nil h
    cases s with
    | nil => exact absurd rfl this
    | cons c cs => simp [worldText, specEntry]

theorem isEntryLine_append (k r : Line) (h : isEntryLine k = true) : isEntryLine (k ++ r) = true := by
  cases k with
  | nil => simp [isEntryLine] at h
  | cons c cs => simpa [isEntryLine] using h

theorem isEntryLine_specEntry (key : Line) (slot : Option Line) (hk : KeyOk key) :
    isEntryLine (specEntry key slot) = true := by
  cases slot with
  | none => exact hk.1
  | some s =>
    by_cases h : s = ['0']
    · simpa [specEntry, h] using hk.1
    · simp only [specEntry, h, if_false, List.append_assoc]; exact isEntryLine_append _ _ hk.1

theorem append_sep_inj (c : Char) : ∀ (l1 l2 r1 r2 : Line), c ∉ l1 → c ∉ l2 →
    l1 ++ c :: r1 = l2 ++ c :: r2 → l1 = l2 ∧ r1 = r2
  | [], [], _, _, _, _, h => by simpa using h
  | [], b :: l2, _, _, _, h2, h => by
    simp at h; exact absurd h.1 (by intro e; exact h2 (e ▸ List.mem_cons_self))
  | a :: l1, [], _, _, h1, _, h => by
    simp at h; exact absurd h.1 (by intro e; exact h1 (e ▸ List.mem_cons_self))
  | a :: l1, b :: l2, r1, r2, h1, h2, h => by
    simp only [List.cons_append, List.cons.injEq] at h
    have := append_sep_inj c l1 l2 r1 r2 (fun m => h1 (List.mem_cons_of_mem _ m)) (fun m => h2 (List.mem_cons_of_mem _ m)) h.2
    exact ⟨by rw [h.1, this.1], this.2⟩

/-- the slot as the world file sees it: slot `0` is "no slot" -/
def normSlot : Option Line → Option Line
  | none => none
  | some s => if s = ['0'] then none else some s

theorem specEntry_eq (key : Line) (slot : Option Line) :
    specEntry key slot = match normSlot slot with | none => key | some s => key ++ ':' :: s := by
  cases slot with
  | none => rfl
  | some s => by_cases h : s = ['0'] <;> simp [specEntry, normSlot, h]

theorem specEntry_inj_aux (k k' : Line) (s s' : Option Line) (hk : KeyOk k) (hk' : KeyOk k')
    (h : specEntry k s = specEntry k' s') : k = k' ∧ normSlot s = normSlot s' := by
  rw [specEntry_eq, specEntry_eq] at h
  cases h1 : normSlot s <;> cases h2 : normSlot s' <;> rw [h1, h2] at h <;> simp only at h
  · exact ⟨h, rfl⟩
  · exact absurd (h ▸ (by simp : ':' ∈ k' ++ ':' :: _)) hk.2
  · exact absurd (h ▸ (by simp : ':' ∈ k ++ ':' :: _)) hk'.2
  · have := append_sep_inj ':' _ _ _ _ hk.2 hk'.2 h
    exact ⟨this.1, by rw [this.2]⟩

/-! ## the flat file system -/

theorem run_append (a b : List FsOp) (fs : Fs) : run (a ++ b) fs = run b (run a fs) := by
  simp [run, List.foldl_append]

/-- the operation only touches the file `p` -/
def OnlyOn (p : Name) : FsOp → Prop
  | .openTrunc q | .chmod q | .chown q | .unlink q => q = p
  | .append q _ => q = p
  | .rename _ _ => False

theorem step_other (p q : Name) (op : FsOp) (fs : Fs) (h : OnlyOn p op) (hq : q ≠ p) : step fs op q = fs q := by
  cases op <;> simp only [OnlyOn] at h
  all_goals subst h
  case append ls => simp only [step]; cases fs _ <;> simp [upd, hq]
  all_goals simp [step, upd, hq]

theorem run_other (p q : Name) (ops : List FsOp) (fs : Fs) (h : ∀ op ∈ ops, OnlyOn p op) (hq : q ≠ p) :
    run ops fs q = fs q := by
  induction ops generalizing fs with
  | nil => rfl
  | cons op ops ih =>
    simp only [run, List.foldl_cons] at ih ⊢
    rw [ih _ (fun o ho => h o (List.mem_cons_of_mem _ ho)), step_other p q op fs (h op List.mem_cons_self) hq]

theorem run_appends (p : Name) (chunks : List (List Line)) (fs : Fs) (c : List Line) (h : fs p = some c) :
    run (chunks.map (.append p)) fs p = some (c ++ chunks.flatten) := by
  induction chunks generalizing fs c with
  | nil => simpa [run] using h
  | cons ch chunks ih =>
    simp only [List.map_cons, run, List.foldl_cons] at ih ⊢
    rw [ih (step fs (.append p ch)) (c ++ ch) (by simp [step, h, upd])]
    simp

theorem tmpName_ne (p : Name) : tmpName p ≠ p := by
  intro h
  have := congrArg List.length h
  simp [tmpName] at this
  omega

/-- everything `flush`/`discard` does before the final rename/unlink happens on the temp file -/
def preOps (path : Name) (chunks : List (List Line)) : List FsOp :=
  [.openTrunc (tmpName path), .chmod (tmpName path), .chown (tmpName path)] ++ chunks.map (.append (tmpName path))

theorem preOps_onlyOn (path : Name) (chunks : List (List Line)) : ∀ op ∈ preOps path chunks, OnlyOn (tmpName path) op := by
  intro op h
  simp only [preOps, List.mem_append, List.mem_cons, List.not_mem_nil, or_false, List.mem_map] at h
  rcases h with (rfl | rfl | rfl) | ⟨c, _, rfl⟩ <;> simp [OnlyOn]

theorem run_preOps_tmp (path : Name) (chunks : List (List Line)) (fs : Fs) :
    run (preOps path chunks) fs (tmpName path) = some chunks.flatten := by
  unfold preOps
  rw [run_append, run_appends (tmpName path) chunks _ [] (by simp [run, step, upd])]
  simp

theorem flushOps_eq (path : Name) (chunks : List (List Line)) :
    flushOps path chunks = preOps path chunks ++ [.rename (tmpName path) path] := by
  simp [flushOps, preOps]

theorem discardOps_eq (path : Name) (chunks : List (List Line)) :
    discardOps path chunks = preOps path chunks ++ [.unlink (tmpName path)] := by
  simp [discardOps, preOps]

/-- a crash point of `pre ++ [last]` is a crash point of `pre`, or the complete run -/
theorem take_snoc_cases (pre : List FsOp) (last : FsOp) (k : Nat) :
    (∃ j, (pre ++ [last]).take k = pre.take j) ∨ (pre ++ [last]).take k = pre ++ [last] := by
  by_cases h : k ≤ pre.length
  · exact Or.inl ⟨k, List.take_append_of_le_length h⟩
  · exact Or.inr (List.take_of_length_le (by simp; omega))

theorem run_flushOps (path : Name) (chunks : List (List Line)) (fs : Fs) :
    run (flushOps path chunks) fs path = some chunks.flatten ∧ run (flushOps path chunks) fs (tmpName path) = none ∧
    ∀ q, q ≠ path → q ≠ tmpName path → run (flushOps path chunks) fs q = fs q := by
  rw [flushOps_eq, run_append]
  have ht := run_preOps_tmp path chunks fs
  have hne := tmpName_ne path
  have hstep : ∀ q, run [.rename (tmpName path) path] (run (preOps path chunks) fs) q
      = step (run (preOps path chunks) fs) (.rename (tmpName path) path) q := fun _ => rfl
  refine ⟨?_, ?_, fun q h1 h2 => ?_⟩
  · simp [hstep, step, ht, upd, hne.symm]
  · simp [hstep, step, ht, upd]
  · simp only [hstep, step, ht, upd, h1, h2, if_false]
    exact run_other (tmpName path) q _ fs (preOps_onlyOn path chunks) h2

/-- the in-memory set of a `WorldFile` instance agrees with the file on disk: duplicate-free, only real
entries, and a fresh parse of the file yields the same members -/
def Synced (w : World) (fs : Fs) (path : Name) : Prop :=
  w.Nodup ∧ (∀ e ∈ w, isEntryLine e = true) ∧ ∃ ls, fs path = some ls ∧ ∀ e, e ∈ parse ls ↔ e ∈ w

/-- `layout` only reorders / chunks the set (what `sorted` + the buffered writer do) -/
def LayoutOk (layout : World → List (List Line)) : Prop := ∀ w e, e ∈ (layout w).flatten ↔ e ∈ w

theorem synced_parse (fs : Fs) (path : Name) (ls : List Line) (h : fs path = some ls) : Synced (parse ls) fs path :=
  ⟨nodup_parse ls, fun e he => ((mem_parse ls e).1 he).2, ls, h, fun _ => Iff.rfl⟩

theorem reqOk_modify (w : World) (r : Req) (hn : w.Nodup) (he : ∀ e ∈ w, isEntryLine e = true)
    (hr : match r with | .add k s => KeyOk k ∧ SlotOptOk s | .remove k s => KeyOk k ∧ SlotOptOk s) :
    (∀ w', modify w r = some w' →
        w'.Nodup ∧ (∀ e ∈ w', isEntryLine e = true) ∧ ∀ e, e ∈ w' ↔ specApply (· ∈ w) r e) ∧
    (modify w r = none → ∀ e, e ∈ w ↔ specApply (· ∈ w) r e) := by
  cases r with
  | add k s =>
    simp only [modify, Option.some.injEq, reduceCtorEq, false_implies, and_true]
    rintro w' rfl
    rw [worldText_eq_spec k s hr.2]
    refine ⟨nodup_setAdd _ _ hn, fun e h => ?_, fun e => ?_⟩
    · rcases (mem_setAdd _ _ _).1 h with h | rfl
      · exact he e h
      · exact isEntryLine_specEntry k s hr.1
    · rw [mem_setAdd]; simp only [specApply]; exact Or.comm
  | remove k s =>
    simp only [modify]
    rw [worldText_eq_spec k s hr.2]
    refine ⟨fun w' h => ?_, fun h e => ?_⟩
    · obtain ⟨_, h2, h3⟩ := setRemove_some w w' _ hn h
      exact ⟨h2, fun e h => he e ((h3 e).1 h).1, fun e => by simpa [specApply] using h3 e⟩
    · have := (setRemove_eq_none _ _).1 h
      simp only [specApply]
      exact ⟨fun h' => ⟨h', fun e' => this (e' ▸ h')⟩, fun h' => h'.1⟩

/-- the in-memory set is a well-formed set of entries -/
def MemOk (w : World) : Prop := w.Nodup ∧ ∀ e ∈ w, isEntryLine e = true

theorem run_discardOps_path (path : Name) (chunks : List (List Line)) (fs : Fs) :
    run (discardOps path chunks) fs path = fs path := by
  rw [discardOps_eq]
  apply run_other (tmpName path) path _ fs _ (tmpName_ne path).symm
  intro op h
  rcases List.mem_append.1 h with h | h
  · exact preOps_onlyOn path chunks op h
  · simp at h; subst h; simp [OnlyOn]

/-- a successful flush brings the file in step with the in-memory set, whatever was on disk before -/
theorem flush_resyncs (layout : World → List (List Line)) (hl : LayoutOk layout) (path : Name) (w : World) (fs : Fs)
    (hw : MemOk w) : Synced w (run (flushOps path (layout w)) fs) path := by
  refine ⟨hw.1, hw.2, _, (run_flushOps path (layout w) fs).1, fun e => ?_⟩
  rw [mem_parse, hl w e]
  exact ⟨fun h => h.1, fun h => ⟨h, hw.2 e h⟩⟩

theorem updateF_step (layout : World → List (List Line)) (path : Name) (w : World) (r : Req) (fails : Bool)
    (hw : MemOk w)
    (hr : match r with | .add k s => KeyOk k ∧ SlotOptOk s | .remove k s => KeyOk k ∧ SlotOptOk s) :
    MemOk (updateWorldsetF layout path w r fails).1 ∧
    ∀ e, e ∈ (updateWorldsetF layout path w r fails).1 ↔ specApply (· ∈ w) r e := by
  have hm := reqOk_modify w r hw.1 hw.2 hr
  unfold updateWorldsetF
  cases hmod : modify w r with
  | none => exact ⟨hw, hm.2 hmod⟩
  | some w' =>
    obtain ⟨h1, h2, h3⟩ := hm.1 w' hmod
    exact ⟨⟨h1, h2⟩, h3⟩

end Pkgcore.C30
