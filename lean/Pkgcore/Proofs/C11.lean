import Pkgcore.Spec.C11
/-!
# C11 — helper lemmas
-/
namespace Pkgcore.C11
open Pkgcore.C11.Spec

/-! ## sets as lists -/

theorem mem_sAdd (s : TSet) (x y : Tok) : y ∈ sAdd s x ↔ y ∈ s ∨ y = x := by
  unfold sAdd
  by_cases h : s.contains x = true
  · have hx : x ∈ s := by simpa using h
    simp only [h, if_true]
    exact ⟨Or.inl, fun h1 => h1.elim id (fun h2 => h2 ▸ hx)⟩
  · have hx : x ∉ s := by simpa using h
    simp [hx]

theorem mem_foldl_sAdd (xs : List Tok) (s : TSet) (y : Tok) : y ∈ xs.foldl sAdd s ↔ y ∈ s ∨ y ∈ xs := by
  induction xs generalizing s with
  | nil => simp
  | cons x xs ih =>
    simp only [List.foldl_cons, ih, mem_sAdd, List.mem_cons]
    constructor
    · rintro ((h | h) | h)
      · exact Or.inl h
      · exact Or.inr (Or.inl h)
      · exact Or.inr (Or.inr h)
    · rintro (h | h | h)
      · exact Or.inl (Or.inl h)
      · exact Or.inl (Or.inr h)
      · exact Or.inr h

/-! ## one chunk -/

theorem mem_foldl_prefix_filter (negs : List Tok) (s : TSet) (x : Tok) :
    x ∈ negs.foldl (fun acc n => if endsUS n then acc.filter (fun f => !(n.dropLast).isPrefixOf f) else acc) s
      ↔ x ∈ s ∧ ∀ n ∈ negs, endsUS n = true → (n.dropLast).isPrefixOf x = false := by
  induction negs generalizing s with
  | nil => simp
  | cons n ns ih =>
    simp only [List.foldl_cons, ih, List.mem_cons, forall_eq_or_imp]
    by_cases hn : endsUS n = true
    · simp only [hn, if_true, List.mem_filter, Bool.not_eq_true', true_implies]
      exact ⟨fun ⟨⟨h1, h2⟩, h3⟩ => ⟨h1, h2, h3⟩, fun ⟨h1, h2, h3⟩ => ⟨⟨h1, h2⟩, h3⟩⟩
    · simp [hn]

theorem covers_iff (negs : List Tok) (x : Tok) :
    covers negs x = true ↔ (star ∈ negs ∨ (∃ n ∈ negs, endsUS n = true ∧ (n.dropLast).isPrefixOf x = true) ∨ x ∈ negs) := by
  simp [covers, or_assoc]

/-- **applying a chunk**: a flag is on afterwards iff the chunk adds it, or says nothing about it and it was on -/
theorem mem_applyChunk (s : TSet) (c : Chunk) (x : Tok) :
    x ∈ applyChunk s c ↔ (verdict c x = some true ∨ (verdict c x = none ∧ x ∈ s)) := by
  unfold applyChunk verdict
  simp only [mem_foldl_sAdd, List.mem_filter, mem_foldl_prefix_filter, Bool.not_eq_true']
  by_cases hp : x ∈ c.pos
  · simp [hp]
  · have hp' : c.pos.contains x = false := by simpa using hp
    simp only [hp, or_false, hp', Bool.false_eq_true, if_false]
    by_cases hc : covers c.neg x = true
    · simp only [hc, if_true, reduceCtorEq, false_and, or_false]
      refine ⟨fun h0 => ?_, fun h0 => by cases h0⟩
      exfalso
      obtain ⟨⟨h01, h02⟩, h03⟩ := h0
      rcases (covers_iff c.neg x).mp hc with h | ⟨n, hn, h1, h2⟩ | h
      · have : c.neg.contains star = true := by simpa using h
        simp [this] at h01
        exact h01.1 h
      · have := h02 n hn h1; rw [h2] at this; cases this
      · have : c.neg.contains x = true := by simpa using h
        rw [this] at h03; cases h03
    · have hc' : covers c.neg x = false := by simpa using hc
      have hn := (not_congr (covers_iff c.neg x)).mp hc
      simp only [not_or, not_exists, not_and] at hn
      obtain ⟨h1, h2, h3⟩ := hn
      have h1' : c.neg.contains star = false := by simpa using h1
      simp only [hc', Bool.false_eq_true, if_false, reduceCtorEq, false_or, true_and, h1']
      constructor
      · intro h; exact h.1.1
      · intro h
        refine ⟨⟨h, fun n hn he => ?_⟩, by simpa using h3⟩
        have := h2 n hn he
        cases hb : (n.dropLast).isPrefixOf x with
        | false => rfl
        | true => exact absurd hb this

/-! ## a sequence -/

theorem holds_iff (m : Nat → Bool) (seq : List Chunk) (s : TSet) (x : Tok) :
    holds m seq s x = true ↔ (lastV m seq x = some true ∨ (lastV m seq x = none ∧ x ∈ s)) := by
  unfold holds
  cases lastV m seq x with
  | none => simp
  | some b => cases b <;> simp

theorem mem_render (m : Nat → Bool) : ∀ (seq : List Chunk) (s : TSet) (x : Tok),
    x ∈ render m seq s ↔ holds m seq s x = true
  | [], s, x => by simp [render, holds, lastV]
  | c :: cs, s, x => by
      have ih := mem_render m cs
      rw [holds_iff]
      simp only [lastV]
      by_cases hm : m c.kid = true
      · have : render m (c :: cs) s = render m cs (applyChunk s c) := by simp [render, hm]
        rw [this, ih, holds_iff, mem_applyChunk]
        simp only [hm, if_true]
        cases lastV m cs x with
        | some b => simp
        | none => simp
      · have : render m (c :: cs) s = render m cs s := by simp [render, hm]
        rw [this, ih, holds_iff]
        simp only [hm, if_false]
        cases lastV m cs x <;> simp

theorem lastV_append (m : Nat → Bool) (a b : List Chunk) (x : Tok) :
    lastV m (a ++ b) x = (lastV m b x).orElse fun _ => lastV m a x := by
  induction a with
  | nil => cases h : lastV m b x <;> simp [lastV, h]
  | cons c cs ih =>
    simp only [List.cons_append, lastV, ih]
    cases lastV m b x <;> simp

/-- two sequences with the same last verdicts render the same sets -/
theorem render_congr (m : Nat → Bool) (a b : List Chunk) (h : ∀ x, lastV m a x = lastV m b x) (s : TSet) (x : Tok) :
    x ∈ render m a s ↔ x ∈ render m b s := by
  rw [mem_render, mem_render, holds_iff, holds_iff, h x]

/-! ## the locked dictionary -/

def keyIn (l : List (Tok × Bool)) (x : Tok) : Bool := l.any (·.1 == x)
def prefLocked (ps : List Tok) (x : Tok) : Bool := ps.any (·.isPrefixOf x)

theorem isLocked_eq (st : WalkSt) (x : Tok) : isLocked st x = (keyIn st.locked x || prefLocked st.prefixes x) := rfl

theorem keyIn_iff_lookup (l : List (Tok × Bool)) (x : Tok) : keyIn l x = (l.lookup x).isSome := by
  induction l with
  | nil => simp [keyIn]
  | cons e es ih =>
    obtain ⟨k, v⟩ := e
    simp only [keyIn, List.any_cons, List.lookup] at ih ⊢
    by_cases h : x = k
    · subst h; simp
    · have h1 : (k == x) = false := by simpa using fun h0 : k = x => h h0.symm
      have h2 : (x == k) = false := by simpa using h
      simp [h1, h2, ih]

theorem lookup_append_new (l : List (Tok × Bool)) (p : Tok) (v : Bool) (x : Tok) :
    (l ++ [(p, v)]).lookup x = (l.lookup x).orElse fun _ => if x = p then some v else none := by
  induction l with
  | nil =>
    by_cases h : x = p
    · subst h; simp [List.lookup]
    · have h2 : (x == p) = false := by simpa using h
      simp [List.lookup, h, h2]
  | cons e es ih =>
    obtain ⟨k, w⟩ := e
    simp only [List.cons_append, List.lookup]
    by_cases h : x = k
    · subst h; simp
    · have h2 : (x == k) = false := by simpa using h
      simp [h2, ih]

/-- the verdict of the global chunk that will be built from the state -/
def gV (st : WalkSt) (x : Tok) : Option Bool :=
  (st.locked.lookup x).orElse fun _ => if covers st.wild x then some false else none

/-- effect of the `for p in data.pos` loop on lookups; nothing else changes -/
theorem lockPos_fold (pos : List Tok) : ∀ (st : WalkSt),
    let st1 := pos.foldl lockPos st
    st1.wild = st.wild ∧ st1.prefixes = st.prefixes ∧ st1.l = st.l ∧
    ∀ x, st1.locked.lookup x = (st.locked.lookup x).orElse fun _ =>
      if prefLocked st.prefixes x then none else if x ∈ pos then some true else none := by
  induction pos with
  | nil => intro st; simp
  | cons p ps ih =>
    intro st
    simp only [List.foldl_cons]
    obtain ⟨h1, h2, h3, h4⟩ := ih (lockPos st p)
    have hw : (lockPos st p).wild = st.wild := by unfold lockPos; split <;> rfl
    have hp : (lockPos st p).prefixes = st.prefixes := by unfold lockPos; split <;> rfl
    have hl : (lockPos st p).l = st.l := by unfold lockPos; split <;> rfl
    refine ⟨h1.trans hw, h2.trans hp, h3.trans hl, fun x => ?_⟩
    rw [h4 x, hp]
    unfold lockPos
    by_cases hk : isLocked st p = true
    · simp only [hk, if_true]
      cases hlk : st.locked.lookup x with
      | some b => simp
      | none =>
        simp only [Option.orElse_none, List.mem_cons]
        by_cases hx : x = p
        · subst hx
          rw [isLocked_eq, keyIn_iff_lookup, hlk] at hk
          simp only [Option.isSome_none, Bool.false_or] at hk
          simp [hk]
        · simp [hx]
    · simp only [hk, Bool.false_eq_true, if_false, lookup_append_new]
      cases hlk : st.locked.lookup x with
      | some b => simp
      | none =>
        simp only [Option.orElse_none, List.mem_cons]
        by_cases hx : x = p
        · subst hx
          rw [isLocked_eq, keyIn_iff_lookup, hlk] at hk
          simp only [Option.isSome_none, Bool.false_or, Bool.not_eq_true] at hk
          simp [hk]
        · simp [hx]

/-- effect of the `for n in data.neg` loop -/
theorem lockNeg_fold (neg : List Tok) : ∀ (st : WalkSt),
    let st2 := neg.foldl lockNeg st
    st2.prefixes = st.prefixes ∧ st2.l = st.l ∧
    (∀ n, n ∈ st2.wild ↔ n ∈ st.wild ∨ (n ∈ neg ∧ isWild n = true)) ∧
    ∀ x, st2.locked.lookup x = (st.locked.lookup x).orElse fun _ =>
      if prefLocked st.prefixes x then none else if x ∈ neg ∧ isWild x = false then some false else none := by
  induction neg with
  | nil => intro st; simp
  | cons n ns ih =>
    intro st
    simp only [List.foldl_cons]
    obtain ⟨h2, h3, h5, h4⟩ := ih (lockNeg st n)
    have hp : (lockNeg st n).prefixes = st.prefixes := by unfold lockNeg; split <;> (try split) <;> rfl
    have hl : (lockNeg st n).l = st.l := by unfold lockNeg; split <;> (try split) <;> rfl
    refine ⟨h2.trans hp, h3.trans hl, fun y => ?_, fun x => ?_⟩
    · rw [h5 y]
      unfold lockNeg
      by_cases hw : isWild n = true
      · simp only [hw, if_true]
        by_cases hc : st.wild.contains n = true
        · have : n ∈ st.wild := by simpa using hc
          simp only [hc, if_true, List.mem_cons]
          constructor
          · rintro (h | ⟨h, h'⟩)
            · exact Or.inl h
            · exact Or.inr ⟨Or.inr h, h'⟩
          · rintro (h | ⟨h | h, h'⟩)
            · exact Or.inl h
            · subst h; exact Or.inl this
            · exact Or.inr ⟨h, h'⟩
        · simp only [hc, Bool.false_eq_true, if_false, List.mem_append, List.mem_cons, List.not_mem_nil, or_false]
          constructor
          · rintro ((h | h) | ⟨h, h'⟩)
            · exact Or.inl h
            · subst h; exact Or.inr ⟨Or.inl rfl, hw⟩
            · exact Or.inr ⟨Or.inr h, h'⟩
          · rintro (h | ⟨h | h, h'⟩)
            · exact Or.inl (Or.inl h)
            · exact Or.inl (Or.inr h)
            · exact Or.inr ⟨h, h'⟩
      · have hw' : isWild n = false := by simpa using hw
        simp only [hw', Bool.false_eq_true, if_false, List.mem_cons]
        have : (if isLocked st n = true then st else { st with locked := st.locked ++ [(n, false)] }).wild = st.wild := by
          split <;> rfl
        rw [this]
        constructor
        · rintro (h | ⟨h, h'⟩)
          · exact Or.inl h
          · exact Or.inr ⟨Or.inr h, h'⟩
        · rintro (h | ⟨h | h, h'⟩)
          · exact Or.inl h
          · subst h; rw [hw'] at h'; cases h'
          · exact Or.inr ⟨h, h'⟩
    · rw [h4 x, hp]
      unfold lockNeg
      by_cases hw : isWild n = true
      · have hst : (if st.wild.contains n = true then st else { st with wild := st.wild ++ [n] }).locked = st.locked := by
          split <;> rfl
        simp only [hw, if_true, hst]
        cases hlk : st.locked.lookup x with
        | some b => simp
        | none =>
          simp only [Option.orElse_none, List.mem_cons]
          by_cases hx : x = n
          · subst hx; simp [hw]
          · simp [hx]
      · have hw' : isWild n = false := by simpa using hw
        simp only [hw', Bool.false_eq_true, if_false]
        by_cases hk : isLocked st n = true
        · simp only [hk, if_true]
          cases hlk : st.locked.lookup x with
          | some b => simp
          | none =>
            simp only [Option.orElse_none, List.mem_cons]
            by_cases hx : x = n
            · subst hx
              rw [isLocked_eq, keyIn_iff_lookup, hlk] at hk
              simp only [Option.isSome_none, Bool.false_or] at hk
              simp [hk]
            · simp [hx]
        · simp only [hk, Bool.false_eq_true, if_false, lookup_append_new]
          cases hlk : st.locked.lookup x with
          | some b => simp
          | none =>
            simp only [Option.orElse_none, List.mem_cons]
            by_cases hx : x = n
            · subst hx
              rw [isLocked_eq, keyIn_iff_lookup, hlk] at hk
              simp only [Option.isSome_none, Bool.false_or, Bool.not_eq_true] at hk
              simp [hk, hw']
            · simp [hx]


theorem orElse_assoc {α} (a b c : Option α) :
    ((a.orElse fun _ => b).orElse fun _ => c) = a.orElse fun _ => (b.orElse fun _ => c) := by
  cases a <;> simp

theorem isWild_star : isWild star = true := by decide
theorem isWild_of_endsUS {n : Tok} (h : endsUS n = true) : isWild n = true := by simp [isWild, h]
theorem endsUS_of_wild_ne_star {n : Tok} (h : isWild n = true) (hs : n ≠ star) : endsUS n = true := by
  simp only [isWild, Bool.or_eq_true, beq_iff_eq] at h
  exact h.resolve_left hs

theorem dropLast_isPrefixOf (n : Tok) : (n.dropLast).isPrefixOf n = true := by
  rw [List.isPrefixOf_iff_prefix]
  exact List.dropLast_prefix n

/-- without wildcards among the negatives, a chunk removes exactly the names it lists -/
theorem covers_noWild (negs : List Tok) (x : Tok) (h : ∀ n ∈ negs, isWild n = false) :
    covers negs x = negs.contains x := by
  have h1 : negs.contains star = false := by
    cases hc : negs.contains star with
    | false => rfl
    | true => have := h star (by simpa using hc); rw [isWild_star] at this; cases this
  have h2 : negs.any (fun n => endsUS n && (n.dropLast).isPrefixOf x) = false := by
    rw [List.any_eq_false]
    intro n hn
    have := h n hn
    cases he : endsUS n with
    | false => simp
    | true => rw [isWild_of_endsUS he] at this; cases this
  unfold covers
  rw [h1, h2]
  simp

/-! ## the state of the walk -/

structure StOk (st : WalkSt) : Prop where
  falseNotWild : ∀ x, st.locked.lookup x = some false → isWild x = false
  wildAll : ∀ n ∈ st.wild, isWild n = true
  prefSync : ∀ p, p ∈ st.prefixes ↔ ∃ n ∈ st.wild, endsUS n = true ∧ p = n.dropLast

theorem prefLocked_iff (st : WalkSt) (hok : StOk st) (x : Tok) :
    prefLocked st.prefixes x = true ↔ ∃ n ∈ st.wild, endsUS n = true ∧ (n.dropLast).isPrefixOf x = true := by
  simp only [prefLocked, List.any_eq_true]
  constructor
  · rintro ⟨p, hp, hpx⟩
    obtain ⟨n, hn, he, rfl⟩ := (hok.prefSync p).mp hp
    exact ⟨n, hn, he, hpx⟩
  · rintro ⟨n, hn, he, hpx⟩
    exact ⟨n.dropLast, (hok.prefSync _).mpr ⟨n, hn, he, rfl⟩, hpx⟩

/-- with no `-*` recorded, "decided by a later global" is "covered by a recorded prefix wildcard" -/
theorem covers_wild_iff (st : WalkSt) (hok : StOk st) (hns : star ∉ st.wild) (x : Tok) :
    covers st.wild x = true ↔ prefLocked st.prefixes x = true := by
  rw [covers_iff, prefLocked_iff st hok]
  constructor
  · rintro (h | h | h)
    · exact absurd h hns
    · exact h
    · have hw := hok.wildAll x h
      have hx : x ≠ star := fun h0 => hns (h0 ▸ h)
      exact ⟨x, h, endsUS_of_wild_ne_star hw hx, dropLast_isPrefixOf x⟩
  · exact fun h => Or.inr (Or.inl h)

theorem isLocked_iff_gV (st : WalkSt) (hok : StOk st) (hns : star ∉ st.wild) (x : Tok) :
    isLocked st x = (gV st x).isSome := by
  rw [isLocked_eq, keyIn_iff_lookup]
  unfold gV
  cases hl : st.locked.lookup x with
  | some b => simp
  | none =>
    simp only [Option.isSome_none, Bool.false_or, Option.orElse_none]
    cases hp : prefLocked st.prefixes x with
    | true => simp [(covers_wild_iff st hok hns x).mpr hp]
    | false =>
      have : covers st.wild x = false := by
        cases hc : covers st.wild x with
        | false => rfl
        | true => rw [(covers_wild_iff st hok hns x).mp hc] at hp; cases hp
      simp [this]

/-- the three steps the loop performs for a global chunk -/
def stepSimple (st : WalkSt) (c : Chunk) : WalkSt :=
  let st2 := c.neg.foldl lockNeg (c.pos.foldl lockPos st)
  { st2 with prefixes := st2.prefixes ++ (c.neg.filter endsUS).map List.dropLast }

theorem stepSimple_spec (st : WalkSt) (c : Chunk) (hok : StOk st) (hns : star ∉ st.wild) :
    StOk (stepSimple st c) ∧ (stepSimple st c).l = st.l ∧ (star ∈ (stepSimple st c).wild ↔ star ∈ c.neg) ∧
    ∀ x, gV (stepSimple st c) x = (gV st x).orElse fun _ => verdict c x := by
  obtain ⟨p1, p2, p3, p4⟩ := lockPos_fold c.pos st
  obtain ⟨n2, n3, n5, n4⟩ := lockNeg_fold c.neg (c.pos.foldl lockPos st)
  have hwild : ∀ n, n ∈ (stepSimple st c).wild ↔ n ∈ st.wild ∨ (n ∈ c.neg ∧ isWild n = true) := by
    intro n; show n ∈ (c.neg.foldl lockNeg (c.pos.foldl lockPos st)).wild ↔ _
    rw [n5 n, p1]
  have hlook : ∀ x, (stepSimple st c).locked.lookup x = (st.locked.lookup x).orElse fun _ =>
      if prefLocked st.prefixes x then none
      else if x ∈ c.pos then some true else if x ∈ c.neg ∧ isWild x = false then some false else none := by
    intro x
    show (c.neg.foldl lockNeg (c.pos.foldl lockPos st)).locked.lookup x = _
    rw [n4 x, p4 x, p2]
    cases st.locked.lookup x with
    | some b => simp
    | none =>
      simp only [Option.orElse_none]
      cases prefLocked st.prefixes x with
      | true => simp
      | false => by_cases hx : x ∈ c.pos <;> simp [hx]
  have hpref : ∀ p, p ∈ (stepSimple st c).prefixes ↔ p ∈ st.prefixes ∨ ∃ n ∈ c.neg, endsUS n = true ∧ p = n.dropLast := by
    intro p
    show p ∈ (c.neg.foldl lockNeg (c.pos.foldl lockPos st)).prefixes ++ _ ↔ _
    rw [n2, p2]
    simp only [List.mem_append, List.mem_map, List.mem_filter]
    constructor
    · rintro (h | ⟨n, ⟨h1, h2⟩, h3⟩)
      · exact Or.inl h
      · exact Or.inr ⟨n, h1, h2, h3.symm⟩
    · rintro (h | ⟨n, h1, h2, h3⟩)
      · exact Or.inl h
      · exact Or.inr ⟨n, ⟨h1, h2⟩, h3.symm⟩
  refine ⟨⟨?_, ?_, ?_⟩, ?_, ?_, ?_⟩
  · intro x hx
    rw [hlook x] at hx
    cases hl : st.locked.lookup x with
    | some b => rw [hl] at hx; simp at hx; subst hx; exact hok.falseNotWild x hl
    | none =>
      rw [hl] at hx
      simp only [Option.orElse_none] at hx
      split at hx
      · cases hx
      · split at hx
        · cases hx
        · split at hx
          · rename_i h; exact h.2
          · cases hx
  · intro n hn
    rcases (hwild n).mp hn with h | h
    · exact hok.wildAll n h
    · exact h.2
  · intro p
    rw [hpref p, hok.prefSync p]
    constructor
    · rintro (⟨n, hn, he, hp⟩ | ⟨n, hn, he, hp⟩)
      · exact ⟨n, (hwild n).mpr (Or.inl hn), he, hp⟩
      · exact ⟨n, (hwild n).mpr (Or.inr ⟨hn, isWild_of_endsUS he⟩), he, hp⟩
    · rintro ⟨n, hn, he, hp⟩
      rcases (hwild n).mp hn with h | h
      · exact Or.inl ⟨n, h, he, hp⟩
      · exact Or.inr ⟨n, h.1, he, hp⟩
  · show (c.neg.foldl lockNeg (c.pos.foldl lockPos st)).l = st.l
    rw [n3, p3]
  · rw [hwild star]
    constructor
    · rintro (h | h)
      · exact absurd h hns
      · exact h.1
    · exact fun h => Or.inr ⟨h, isWild_star⟩
  · intro x
    unfold gV
    rw [hlook x]
    cases hl : st.locked.lookup x with
    | some b => simp
    | none =>
      simp only [Option.orElse_none]
      -- coverage by the new wildcard list
      have hcov : covers (stepSimple st c).wild x = true ↔
          (covers st.wild x = true ∨ star ∈ c.neg ∨ (∃ n ∈ c.neg, endsUS n = true ∧ (n.dropLast).isPrefixOf x = true) ∨
            (x ∈ c.neg ∧ isWild x = true)) := by
        rw [covers_iff, covers_iff]
        constructor
        · rintro (h | ⟨n, hn, he, hp⟩ | h)
          · rcases (hwild star).mp h with h | h
            · exact Or.inl (Or.inl h)
            · exact Or.inr (Or.inl h.1)
          · rcases (hwild n).mp hn with h | h
            · exact Or.inl (Or.inr (Or.inl ⟨n, h, he, hp⟩))
            · exact Or.inr (Or.inr (Or.inl ⟨n, h.1, he, hp⟩))
          · rcases (hwild x).mp h with h | h
            · exact Or.inl (Or.inr (Or.inr h))
            · exact Or.inr (Or.inr (Or.inr h))
        · rintro ((h | ⟨n, hn, he, hp⟩ | h) | h | ⟨n, hn, he, hp⟩ | h)
          · exact Or.inl ((hwild star).mpr (Or.inl h))
          · exact Or.inr (Or.inl ⟨n, (hwild n).mpr (Or.inl hn), he, hp⟩)
          · exact Or.inr (Or.inr ((hwild x).mpr (Or.inl h)))
          · exact Or.inl ((hwild star).mpr (Or.inr ⟨h, isWild_star⟩))
          · exact Or.inr (Or.inl ⟨n, (hwild n).mpr (Or.inr ⟨hn, isWild_of_endsUS he⟩), he, hp⟩)
          · exact Or.inr (Or.inr ((hwild x).mpr (Or.inr h)))
      cases hcw : covers st.wild x with
      | true =>
        have hp := (covers_wild_iff st hok hns x).mp hcw
        have : covers (stepSimple st c).wild x = true := hcov.mpr (Or.inl hcw)
        simp [hp, this]
      | false =>
        have hp : prefLocked st.prefixes x = false := by
          cases hq : prefLocked st.prefixes x with
          | false => rfl
          | true => rw [(covers_wild_iff st hok hns x).mpr hq] at hcw; cases hcw
        simp only [hp, Bool.false_eq_true, if_false, Option.orElse_none]
        unfold verdict
        by_cases hx : x ∈ c.pos
        · have : c.pos.contains x = true := by simpa using hx
          simp [hx, this]
        · have hx' : c.pos.contains x = false := by simpa using hx
          simp only [hx, if_false, hx', Bool.false_eq_true]
          by_cases hcn : covers c.neg x = true
          · simp only [hcn, if_true]
            by_cases hxn : x ∈ c.neg ∧ isWild x = false
            · simp [hxn]
            · simp only [hxn, if_false, Option.orElse_none]
              have : covers (stepSimple st c).wild x = true := by
                rw [hcov]
                rcases (covers_iff c.neg x).mp hcn with h | h | h
                · exact Or.inr (Or.inl h)
                · exact Or.inr (Or.inr (Or.inl h))
                · refine Or.inr (Or.inr (Or.inr ⟨h, ?_⟩))
                  cases hw : isWild x with
                  | true => rfl
                  | false => exact absurd ⟨h, hw⟩ hxn
              simp [this]
          · have hcn' : covers c.neg x = false := by simpa using hcn
            have hnc := (not_congr (covers_iff c.neg x)).mp hcn
            simp only [not_or, not_exists, not_and] at hnc
            have hxn : ¬(x ∈ c.neg ∧ isWild x = false) := fun h => hnc.2.2 h.1
            have : covers (stepSimple st c).wild x = false := by
              cases hq : covers (stepSimple st c).wild x with
              | false => rfl
              | true =>
                rcases hcov.mp hq with h | h | ⟨n, hn, he, hp'⟩ | h
                · rw [hcw] at h; cases h
                · exact absurd h hnc.1
                · exact absurd hp' (by simpa using hnc.2.1 n hn he)
                · exact absurd h.1 hnc.2.2
            simp [hxn, this, hcn']


/-! ## unique keys of `locked` -/

def KeysNodup (l : List (Tok × Bool)) : Prop := (l.map (·.1)).Nodup

theorem keyIn_iff_mem (l : List (Tok × Bool)) (x : Tok) : keyIn l x = true ↔ x ∈ l.map (·.1) := by
  simp [keyIn]

theorem lockPos_nodup (st : WalkSt) (p : Tok) (h : KeysNodup st.locked) : KeysNodup (lockPos st p).locked := by
  unfold lockPos
  by_cases hk : isLocked st p = true
  · simpa [hk] using h
  · simp only [hk, Bool.false_eq_true, if_false]
    have : keyIn st.locked p = false := by
      rw [isLocked_eq] at hk; simp only [Bool.or_eq_true, not_or, Bool.not_eq_true] at hk; exact hk.1
    have hn : p ∉ st.locked.map (·.1) := by rw [← keyIn_iff_mem]; simp [this]
    unfold KeysNodup at h ⊢
    rw [List.map_append, List.nodup_append]
    refine ⟨h, by simp, ?_⟩
    intro a ha b hb
    simp only [List.map_cons, List.map_nil, List.mem_singleton] at hb
    subst hb
    exact fun h0 => hn (h0 ▸ ha)

theorem lockNeg_nodup (st : WalkSt) (n : Tok) (h : KeysNodup st.locked) : KeysNodup (lockNeg st n).locked := by
  unfold lockNeg
  by_cases hw : isWild n = true
  · simp only [hw, if_true]; split <;> exact h
  · simp only [hw, Bool.false_eq_true, if_false]
    by_cases hk : isLocked st n = true
    · simpa [hk] using h
    · simp only [hk, Bool.false_eq_true, if_false]
      have : keyIn st.locked n = false := by
        rw [isLocked_eq] at hk; simp only [Bool.or_eq_true, not_or, Bool.not_eq_true] at hk; exact hk.1
      have hn : n ∉ st.locked.map (·.1) := by rw [← keyIn_iff_mem]; simp [this]
      unfold KeysNodup at h ⊢
      rw [List.map_append, List.nodup_append]
      refine ⟨h, by simp, ?_⟩
      intro a ha b hb
      simp only [List.map_cons, List.map_nil, List.mem_singleton] at hb
      subst hb
      exact fun h0 => hn (h0 ▸ ha)

theorem foldl_nodup (f : WalkSt → Tok → WalkSt) (hf : ∀ st p, KeysNodup st.locked → KeysNodup (f st p).locked)
    (xs : List Tok) (st : WalkSt) (h : KeysNodup st.locked) : KeysNodup (xs.foldl f st).locked := by
  induction xs generalizing st with
  | nil => exact h
  | cons x xs ih => exact ih _ (hf st x h)

theorem stepSimple_nodup (st : WalkSt) (c : Chunk) (h : KeysNodup st.locked) : KeysNodup (stepSimple st c).locked :=
  foldl_nodup lockNeg lockNeg_nodup c.neg _ (foldl_nodup lockPos lockPos_nodup c.pos st h)

theorem mem_iff_lookup : ∀ (l : List (Tok × Bool)) (x : Tok) (b : Bool), KeysNodup l → ((x, b) ∈ l ↔ l.lookup x = some b)
  | [], x, b, _ => by simp
  | (k, v) :: es, x, b, h => by
      unfold KeysNodup at h
      simp only [List.map_cons, List.nodup_cons] at h
      have ih := mem_iff_lookup es x b h.2
      simp only [List.mem_cons, Prod.mk.injEq, List.lookup]
      by_cases hx : x = k
      · subst hx
        simp only [true_and, beq_self_eq_true, Option.some.injEq]
        constructor
        · rintro (h0 | h0)
          · exact h0.symm
          · exact absurd (List.mem_map.mpr ⟨(x, b), h0, rfl⟩) h.1
        · exact fun h0 => Or.inl h0.symm
      · have h2 : (x == k) = false := by simpa using hx
        simp [hx, h2, ih]

/-! ## first verdict along the right-to-left order -/

def firstV (m : Nat → Bool) : List Chunk → Tok → Option Bool
  | [], _ => none
  | c :: cs, x => (if m c.kid then verdict c x else none).orElse fun _ => firstV m cs x

theorem firstV_append (m : Nat → Bool) (a b : List Chunk) (x : Tok) :
    firstV m (a ++ b) x = (firstV m a x).orElse fun _ => firstV m b x := by
  induction a with
  | nil => simp [firstV]
  | cons c cs ih => simp only [List.cons_append, firstV, ih, orElse_assoc]

theorem lastV_eq_firstV_reverse (m : Nat → Bool) (l : List Chunk) (x : Tok) : lastV m l x = firstV m l.reverse x := by
  induction l with
  | nil => simp [lastV, firstV]
  | cons c cs ih =>
    simp only [lastV, List.reverse_cons, firstV_append, ih, firstV]
    cases firstV m cs.reverse x <;> simp

/-! ## a version specific chunk -/

theorem verdict_filtered (st : WalkSt) (c : Chunk) (hnw : ∀ n ∈ c.neg, isWild n = false) (x : Tok) :
    verdict { c with neg := c.neg.filter (fun y => !isLocked st y), pos := c.pos.filter (fun y => !isLocked st y) } x
      = if isLocked st x then none else verdict c x := by
  unfold verdict
  rw [covers_noWild _ x (fun n hn => hnw n (List.mem_filter.mp hn).1), covers_noWild _ x hnw]
  by_cases hl : isLocked st x = true
  · simp [hl]
  · have hl' : isLocked st x = false := by simpa using hl
    simp only [hl', Bool.false_eq_true, if_false]
    have e1 : (c.pos.filter fun y => !isLocked st y).contains x = c.pos.contains x := by
      by_cases h : x ∈ c.pos <;> simp [h, hl']
    have e2 : (c.neg.filter fun y => !isLocked st y).contains x = c.neg.contains x := by
      by_cases h : x ∈ c.neg <;> simp [h, hl']
    simp only [e1, e2]

theorem verdict_none_of_empty (c : Chunk) (hn : c.neg = []) (hp : c.pos = []) (x : Tok) : verdict c x = none := by
  simp [verdict, hn, hp, covers]

/-! ## the walk -/

/-- `H` = the first applicable verdict among what has been processed; the state represents it as
"latest retained specific, else the global chunk" -/
def Rep (m : Nat → Bool) (st : WalkSt) (H : Tok → Option Bool) : Prop :=
  ∀ x, H x = (firstV m st.l x).orElse fun _ => gV st x

theorem walk_spec (m : Nat → Bool) : ∀ (r : List Chunk) (st : WalkSt) (H : Tok → Option Bool),
    (∀ c ∈ r, c.simple = true → m c.kid = true) →
    (∀ c ∈ r, c.simple = false → ∀ n ∈ c.neg, isWild n = false) →
    StOk st → KeysNodup st.locked → star ∉ st.wild → Rep m st H →
    StOk (walk r st) ∧ KeysNodup (walk r st).locked ∧
      Rep m (walk r st) (fun x => (H x).orElse fun _ => firstV m r x)
  | [], st, H, _, _, hok, hnd, _, hrep => by
      refine ⟨by simpa [walk] using hok, by simpa [walk] using hnd, ?_⟩
      intro x
      simp only [walk, firstV]
      rw [hrep x]
      cases (firstV m st.l x).orElse fun _ => gV st x <;> rfl
  | c :: rest, st, H, hm, hnw, hok, hnd, hns, hrep => by
      have hm' : ∀ c' ∈ rest, c'.simple = true → m c'.kid = true := fun c' h => hm c' (List.mem_cons_of_mem _ h)
      have hnw' : ∀ c' ∈ rest, c'.simple = false → ∀ n ∈ c'.neg, isWild n = false :=
        fun c' h => hnw c' (List.mem_cons_of_mem _ h)
      by_cases hs : c.simple = true
      · -- a global chunk
        have hmc : m c.kid = true := hm c (by simp) hs
        obtain ⟨hok3, hl3, hstar3, hg3⟩ := stepSimple_spec st c hok hns
        have hnd3 := stepSimple_nodup st c hnd
        have hrep3 : Rep m (stepSimple st c) (fun x => (H x).orElse fun _ => verdict c x) := by
          intro x
          show (H x).orElse _ = _
          rw [hl3, hg3 x, hrep x, orElse_assoc]
        by_cases hst : c.neg.contains star = true
        · -- `-*`: the walk ends here
          have hw : walk (c :: rest) st = stepSimple st c := by
            simp only [walk, hs, if_true, hst]; rfl
          rw [hw]
          refine ⟨hok3, hnd3, ?_⟩
          intro x
          rw [← hrep3 x]
          simp only [firstV, hmc, if_true]
          have hv : (verdict c x).isSome = true := by
            unfold verdict
            have : covers c.neg x = true := by
              rw [covers_iff]; exact Or.inl (by simpa using hst)
            rw [this]
            by_cases hp : c.pos.contains x = true
            · rw [if_pos hp]; rfl
            · rw [if_neg hp, if_pos rfl]; rfl
          cases hvx : verdict c x with
          | none => rw [hvx] at hv; cases hv
          | some b => cases H x <;> simp
        · have hw : walk (c :: rest) st = walk rest (stepSimple st c) := by
            simp only [walk, hs, if_true, hst, Bool.false_eq_true, if_false]; rfl
          rw [hw]
          have hns3 : star ∉ (stepSimple st c).wild := by
            rw [hstar3]; simpa using hst
          obtain ⟨r1, r2, r3⟩ := walk_spec m rest (stepSimple st c) _ hm' hnw' hok3 hnd3 hns3 hrep3
          refine ⟨r1, r2, ?_⟩
          intro x
          rw [← r3 x]
          simp only [firstV, hmc, if_true, orElse_assoc]
      · -- a version specific chunk
        have hs' : c.simple = false := by simpa using hs
        have hcw := hnw c (by simp) hs'
        let c' : Chunk := { c with neg := c.neg.filter (fun y => !isLocked st y), pos := c.pos.filter (fun y => !isLocked st y) }
        let st' : WalkSt := if c'.neg.isEmpty && c'.pos.isEmpty then st else { st with l := st.l ++ [c'] }
        have hw : walk (c :: rest) st = walk rest st' := by
          conv => lhs; unfold walk
          rw [if_neg hs]
        rw [hw]
        have hst'l : ∀ x, firstV m st'.l x = (firstV m st.l x).orElse fun _ => if m c.kid then verdict c' x else none := by
          intro x
          by_cases he : (c'.neg.isEmpty && c'.pos.isEmpty) = true
          · have h1 : c'.neg = [] ∧ c'.pos = [] := by simpa using he
            have : st' = st := by simp [st', he]
            rw [this, verdict_none_of_empty c' h1.1 h1.2 x]
            cases firstV m st.l x <;> simp
          · have : st' = { st with l := st.l ++ [c'] } := by simp [st', he]
            have hk : c'.kid = c.kid := rfl
            rw [this, firstV_append]
            simp [firstV, hk]
        have hsame : st'.locked = st.locked ∧ st'.wild = st.wild ∧ st'.prefixes = st.prefixes := by
          by_cases he : (c'.neg.isEmpty && c'.pos.isEmpty) = true <;> simp [st', he]
        have hok' : StOk st' := ⟨by rw [hsame.1]; exact hok.falseNotWild, by rw [hsame.2.1]; exact hok.wildAll,
          by rw [hsame.2.2, hsame.2.1]; exact hok.prefSync⟩
        have hg' : ∀ x, gV st' x = gV st x := by intro x; unfold gV; rw [hsame.1, hsame.2.1]
        have hrep' : Rep m st' (fun x => (H x).orElse fun _ => if m c.kid then verdict c x else none) := by
          intro x
          show (H x).orElse _ = _
          rw [hst'l x, hg' x, hrep x, verdict_filtered st c hcw x, isLocked_iff_gV st hok hns x]
          cases hf : firstV m st.l x with
          | some b => simp
          | none =>
            cases hgx : gV st x with
            | some b => cases m c.kid <;> simp
            | none => cases m c.kid <;> simp
        obtain ⟨r1, r2, r3⟩ := walk_spec m rest st' _ hm' hnw' hok' (by rw [hsame.1]; exact hnd)
          (by rw [hsame.2.1]; exact hns) hrep'
        refine ⟨r1, r2, ?_⟩
        intro x
        rw [← r3 x]
        simp only [firstV, orElse_assoc]


/-! ## the global chunk built from the final state -/

def gChunk (rk : Nat) (st : WalkSt) : Chunk :=
  { kid := rk, simple := true,
    neg := st.wild ++ (st.locked.filter fun e => !e.2).map (·.1),
    pos := (st.locked.filter (·.2)).map (·.1) }

theorem mem_lockedTrue (l : List (Tok × Bool)) (x : Tok) : x ∈ (l.filter (·.2)).map (·.1) ↔ (x, true) ∈ l := by
  simp only [List.mem_map, List.mem_filter]
  constructor
  · rintro ⟨⟨k, v⟩, ⟨h1, h2⟩, h3⟩
    simp only at h2 h3; subst h2; subst h3; exact h1
  · intro h; exact ⟨(x, true), ⟨h, rfl⟩, rfl⟩

theorem mem_lockedFalse (l : List (Tok × Bool)) (x : Tok) : x ∈ (l.filter fun e => !e.2).map (·.1) ↔ (x, false) ∈ l := by
  simp only [List.mem_map, List.mem_filter]
  constructor
  · rintro ⟨⟨k, v⟩, ⟨h1, h2⟩, h3⟩
    simp only [Bool.not_eq_true'] at h2 h3; subst h2; subst h3; exact h1
  · intro h; exact ⟨(x, false), ⟨h, rfl⟩, rfl⟩

theorem verdict_gChunk (rk : Nat) (st : WalkSt) (hok : StOk st) (hnd : KeysNodup st.locked) (x : Tok) :
    verdict (gChunk rk st) x = gV st x := by
  have hT : ∀ y, y ∈ (gChunk rk st).pos ↔ st.locked.lookup y = some true := by
    intro y; show y ∈ (st.locked.filter (·.2)).map (·.1) ↔ _
    rw [mem_lockedTrue, mem_iff_lookup _ _ _ hnd]
  have hF : ∀ y, y ∈ (st.locked.filter fun e => !e.2).map (·.1) ↔ st.locked.lookup y = some false := by
    intro y; rw [mem_lockedFalse, mem_iff_lookup _ _ _ hnd]
  have hcov : covers (gChunk rk st).neg x = true ↔ (covers st.wild x = true ∨ st.locked.lookup x = some false) := by
    show covers (st.wild ++ _) x = true ↔ _
    rw [covers_iff, covers_iff]
    simp only [List.mem_append]
    constructor
    · rintro ((h | h) | ⟨n, hn | hn, he, hp⟩ | (h | h))
      · exact Or.inl (Or.inl h)
      · have := hok.falseNotWild star ((hF star).mp h); rw [isWild_star] at this; cases this
      · exact Or.inl (Or.inr (Or.inl ⟨n, hn, he, hp⟩))
      · have := hok.falseNotWild n ((hF n).mp hn); rw [isWild_of_endsUS he] at this; cases this
      · exact Or.inl (Or.inr (Or.inr h))
      · exact Or.inr ((hF x).mp h)
    · rintro ((h | ⟨n, hn, he, hp⟩ | h) | h)
      · exact Or.inl (Or.inl h)
      · exact Or.inr (Or.inl ⟨n, Or.inl hn, he, hp⟩)
      · exact Or.inr (Or.inr (Or.inl h))
      · exact Or.inr (Or.inr (Or.inr ((hF x).mpr h)))
  unfold verdict gV
  cases hl : st.locked.lookup x with
  | none =>
    have hp : (gChunk rk st).pos.contains x = false := by
      cases hc : (gChunk rk st).pos.contains x with
      | false => rfl
      | true => have := (hT x).mp (by simpa using hc); rw [hl] at this; cases this
    simp only [hp, Bool.false_eq_true, if_false, Option.orElse_none]
    cases hcw : covers st.wild x with
    | true => rw [hcov.mpr (Or.inl hcw)]
    | false =>
      have : covers (gChunk rk st).neg x = false := by
        cases hq : covers (gChunk rk st).neg x with
        | false => rfl
        | true =>
          rcases hcov.mp hq with h | h
          · rw [hcw] at h; cases h
          · rw [hl] at h; cases h
      rw [this]
  | some b =>
    cases b with
    | true =>
      have hp : (gChunk rk st).pos.contains x = true := by simpa using (hT x).mpr hl
      rw [if_pos hp]; rfl
    | false =>
      have hp : (gChunk rk st).pos.contains x = false := by
        cases hc : (gChunk rk st).pos.contains x with
        | false => rfl
        | true => have := (hT x).mp (by simpa using hc); rw [hl] at this; cases this
      rw [hcov.mpr (Or.inr hl), if_neg (by rw [hp]; simp), if_pos rfl]; rfl

/-! ## the delta pass -/

theorem verdict_noWild (c : Chunk) (h : ∀ n ∈ c.neg, isWild n = false) (x : Tok) :
    verdict c x = if x ∈ c.pos then some true else if x ∈ c.neg then some false else none := by
  unfold verdict
  rw [covers_noWild _ x h]
  simp

theorem delta_spec (m : Nat → Bool) (locked : List (Tok × Bool)) :
    ∀ (D : List Chunk) (changed : List Tok) (b0 : Tok → Option Bool),
    (∀ c ∈ D, ∀ n ∈ c.neg, isWild n = false) →
    (∀ x, x ∉ changed → ∀ v, locked.lookup x = some v → b0 x = some v) →
    ∀ x, (lastV m (delta locked changed D) x).orElse (fun _ => b0 x) = (lastV m D x).orElse (fun _ => b0 x)
  | [], _, _, _, _, x => by simp [delta]
  | c :: cs, changed, b0, hnw, hinv, x => by
      have hcw := hnw c (by simp)
      have hnw' : ∀ c' ∈ cs, ∀ n ∈ c'.neg, isWild n = false := fun c' h => hnw c' (List.mem_cons_of_mem _ h)
      -- the filtered chunk
      let neg' := c.neg.filter fun y => changed.contains y || (locked.lookup y).getD true
      let pos' := c.pos.filter fun y => changed.contains y || neg'.contains y || !(locked.lookup y).getD false
      let c' : Chunk := { c with neg := neg', pos := pos' }
      have hnw'' : ∀ n ∈ c'.neg, isWild n = false := fun n hn => hcw n (List.mem_filter.mp hn).1
      have hmn : ∀ y, y ∈ neg' ↔ y ∈ c.neg ∧ (y ∈ changed ∨ (locked.lookup y).getD true = true) := by
        intro y; simp [neg']
      have hmp : ∀ y, y ∈ pos' ↔ y ∈ c.pos ∧ (y ∈ changed ∨ y ∈ neg' ∨ (locked.lookup y).getD false = false) := by
        intro y; simp [pos', or_assoc]
      let b1 : Tok → Option Bool := fun y => (if m c.kid then verdict c y else none).orElse fun _ => b0 y
      -- (A) the filtered chunk gives the same running verdict
      have hA : ∀ y, ((if m c.kid then verdict c' y else none).orElse fun _ => b0 y) = b1 y := by
        intro y
        show _ = (if m c.kid then verdict c y else none).orElse fun _ => b0 y
        cases hmc : m c.kid with
        | false => simp
        | true =>
          simp only [if_true]
          rw [verdict_noWild c' hnw'' y, verdict_noWild c hcw y]
          show (if y ∈ pos' then some true else if y ∈ neg' then some false else none).orElse _ = _
          by_cases hch : y ∈ changed
          · have e1 : y ∈ neg' ↔ y ∈ c.neg := by rw [hmn]; simp [hch]
            have e2 : y ∈ pos' ↔ y ∈ c.pos := by rw [hmp]; simp [hch]
            simp only [e1, e2]
          · cases hl : locked.lookup y with
            | none =>
              have e1 : y ∈ neg' ↔ y ∈ c.neg := by rw [hmn]; simp [hl]
              have e2 : y ∈ pos' ↔ y ∈ c.pos := by rw [hmp]; simp [hl]
              simp only [e1, e2]
            | some v =>
              have hb := hinv y hch v hl
              cases v with
              | true =>
                have e1 : y ∈ neg' ↔ y ∈ c.neg := by rw [hmn]; simp [hl]
                have e2 : y ∈ pos' ↔ y ∈ c.pos ∧ y ∈ c.neg := by rw [hmp, e1]; simp [hl, hch]
                by_cases hp : y ∈ c.pos <;> by_cases hn : y ∈ c.neg <;> simp [e1, e2, hp, hn, hb]
              | false =>
                have e1 : ¬ y ∈ neg' := by rw [hmn]; simp [hl, hch]
                have e2 : y ∈ pos' ↔ y ∈ c.pos := by rw [hmp]; simp [hl]
                by_cases hp : y ∈ c.pos <;> by_cases hn : y ∈ c.neg <;> simp [e1, e2, hp, hn, hb]
      -- (B) the invariant for the next chunk
      have hB : ∀ y, y ∉ changed ++ neg' ++ pos' → ∀ v, locked.lookup y = some v → b1 y = some v := by
        intro y hy v hl
        simp only [List.mem_append, not_or] at hy
        obtain ⟨⟨hch, hn'⟩, hp'⟩ := hy
        have hb := hinv y hch v hl
        show ((if m c.kid then verdict c y else none).orElse fun _ => b0 y) = some v
        cases hmc : m c.kid with
        | false => simpa using hb
        | true =>
          simp only [if_true]
          rw [verdict_noWild c hcw y]
          rw [hmn] at hn'; rw [hmp, hmn] at hp'
          cases v with
          | true =>
            have hn : y ∉ c.neg := by intro h; exact hn' ⟨h, Or.inr (by simp [hl])⟩
            by_cases hp : y ∈ c.pos <;> simp [hp, hn, hb]
          | false =>
            have hp : y ∉ c.pos := by intro h; exact hp' ⟨h, Or.inr (Or.inr (by simp [hl]))⟩
            by_cases hn : y ∈ c.neg <;> simp [hp, hn, hb]
      -- assemble
      have hR : (lastV m (c :: cs) x).orElse (fun _ => b0 x) = (lastV m cs x).orElse (fun _ => b1 x) := by
        simp only [lastV, orElse_assoc]; rfl
      rw [hR]
      by_cases he : (neg'.isEmpty && pos'.isEmpty) = true
      · have hd : delta locked changed (c :: cs) = delta locked changed cs := by
          conv => lhs; unfold delta
          rw [if_pos he]
        have h1 : neg' = [] ∧ pos' = [] := by simpa using he
        rw [hd]
        have hb01 : ∀ y, b1 y = b0 y := by
          intro y
          rw [← hA y, verdict_none_of_empty c' h1.1 h1.2 y]
          cases m c.kid <;> simp
        have hinv' : ∀ y, y ∉ changed → ∀ v, locked.lookup y = some v → b1 y = some v := by
          intro y hy v hl; rw [hb01 y]; exact hinv y hy v hl
        rw [← delta_spec m locked cs changed b1 hnw' hinv' x, hb01 x]
      · have hd : delta locked changed (c :: cs) = c' :: delta locked (changed ++ neg' ++ pos') cs := by
          conv => lhs; unfold delta
          rw [if_neg he]
        rw [hd]
        simp only [lastV, orElse_assoc]
        have hk : c'.kid = c.kid := rfl
        rw [hk, hA x]
        exact delta_spec m locked cs _ b1 hnw' hB x


/-! ## `_build_cp_atom_payload` preserves every last verdict -/

theorem walk_l_noWild : ∀ (r : List Chunk) (st : WalkSt),
    (∀ c ∈ r, c.simple = false → ∀ n ∈ c.neg, isWild n = false) →
    (∀ c ∈ st.l, ∀ n ∈ c.neg, isWild n = false) →
    ∀ c ∈ (walk r st).l, ∀ n ∈ c.neg, isWild n = false
  | [], st, _, hl => by simpa [walk] using hl
  | c :: rest, st, hnw, hl => by
      have hnw' : ∀ c' ∈ rest, c'.simple = false → ∀ n ∈ c'.neg, isWild n = false :=
        fun c' h => hnw c' (List.mem_cons_of_mem _ h)
      by_cases hs : c.simple = true
      · have hl3 : (stepSimple st c).l = st.l := by
          show (c.neg.foldl lockNeg (c.pos.foldl lockPos st)).l = st.l
          rw [(lockNeg_fold c.neg _).2.1, (lockPos_fold c.pos st).2.2.1]
        by_cases hst : c.neg.contains star = true
        · have hw : walk (c :: rest) st = stepSimple st c := by
            simp only [walk, hs, if_true, hst]; rfl
          rw [hw, hl3]; exact hl
        · have hw : walk (c :: rest) st = walk rest (stepSimple st c) := by
            simp only [walk, hs, if_true, hst, Bool.false_eq_true, if_false]; rfl
          rw [hw]
          exact walk_l_noWild rest _ hnw' (by rw [hl3]; exact hl)
      · have hs' : c.simple = false := by simpa using hs
        have hw : walk (c :: rest) st = walk rest
            (if (c.neg.filter fun y => !isLocked st y).isEmpty && (c.pos.filter fun y => !isLocked st y).isEmpty then st
             else { st with l := st.l ++ [{ c with neg := c.neg.filter fun y => !isLocked st y,
                                                   pos := c.pos.filter fun y => !isLocked st y }] }) := by
          conv => lhs; unfold walk
          rw [if_neg hs]
        rw [hw]
        apply walk_l_noWild rest _ hnw'
        intro c' hc'
        split at hc'
        · exact hl c' hc'
        · simp only [List.mem_append, List.mem_cons, List.not_mem_nil, or_false] at hc'
          rcases hc' with h | h
          · exact hl c' h
          · subst h
            intro n hn
            exact hnw c (by simp) hs' n (List.mem_filter.mp hn).1

theorem gV_empty (st : WalkSt) (h1 : st.locked = []) (h2 : st.wild = []) (x : Tok) : gV st x = none := by
  simp [gV, h1, h2, covers]

theorem build_lastV (m : Nat → Bool) (rk : Nat) (seq : List Chunk) (hm : MatchOk m seq) (hrk : m rk = true) (x : Tok) :
    lastV m (build rk seq) x = lastV m seq x := by
  unfold build
  by_cases h1 : seq.length ≤ 1
  · simp [h1]
  · simp only [h1, if_false]
    by_cases h2 : (seq.any fun c => !c.simple && c.neg.any isWild) = true
    · simp [h2]
    · simp only [h2, Bool.false_eq_true, if_false]
      have hnw : ∀ c ∈ seq.reverse, c.simple = false → ∀ n ∈ c.neg, isWild n = false := by
        intro c hc hs n hn
        have hc' : c ∈ seq := by simpa using hc
        simp only [Bool.not_eq_true, List.any_eq_false, Bool.and_eq_false_iff, Bool.not_eq_false'] at h2
        rcases h2 c hc' with h | h
        · rw [hs] at h; cases h
        · exact h n hn
      have hmr : ∀ c ∈ seq.reverse, c.simple = true → m c.kid = true := fun c hc => hm c (by simpa using hc)
      have hok0 : StOk ({} : WalkSt) := ⟨by simp, by simp, by simp⟩
      obtain ⟨hok, hnd, hrep⟩ := walk_spec m seq.reverse {} (fun _ => none) hmr hnw hok0
        (by simp [KeysNodup]) (by simp) (by intro y; simp [firstV, gV, covers])
      have hfinal : lastV m seq x = (firstV m (walk seq.reverse {}).l x).orElse fun _ => gV (walk seq.reverse {}) x := by
        rw [lastV_eq_firstV_reverse, ← hrep x]; simp
      have hl : lastV m (walk seq.reverse {}).l.reverse x = firstV m (walk seq.reverse {}).l x := by
        rw [lastV_eq_firstV_reverse, List.reverse_reverse]
      by_cases h3 : ((walk seq.reverse {}).locked.isEmpty && (walk seq.reverse {}).wild.isEmpty) = true
      · have h3' : (walk seq.reverse {}).locked = [] ∧ (walk seq.reverse {}).wild = [] := by simpa using h3
        simp only [h3, if_true]
        rw [hl, hfinal, gV_empty _ h3'.1 h3'.2 x]
        cases firstV m (walk seq.reverse {}).l x <;> rfl
      · simp only [h3, Bool.false_eq_true, if_false]
        show lastV m (gChunk rk (walk seq.reverse {}) :: delta (walk seq.reverse {}).locked [] (walk seq.reverse {}).l.reverse) x = _
        simp only [lastV]
        have hk : (gChunk rk (walk seq.reverse {})).kid = rk := rfl
        rw [hk, hrk, if_pos rfl, verdict_gChunk rk _ hok hnd x]
        have hD := delta_spec m (walk seq.reverse {}).locked (walk seq.reverse {}).l.reverse [] (gV (walk seq.reverse {}))
          (fun c hc => walk_l_noWild seq.reverse {} hnw (by simp) c (by simpa using hc))
          (fun y _ v hv => by simp [gV, hv]) x
        rw [hD, hl, hfinal]

/-- **the collapsed sequence renders the same set**, for every package and initial set -/
theorem build_render (m : Nat → Bool) (rk : Nat) (seq : List Chunk) (hm : MatchOk m seq) (hrk : m rk = true)
    (s : TSet) (x : Tok) : x ∈ render m (build rk seq) s ↔ x ∈ render m seq s :=
  render_congr m _ _ (build_lastV m rk seq hm hrk) s x


/-! ## `ChunkedDataDict` -/

/-- the global entries of a flat history -/
def globalsOf (h : List Entry) : List Chunk := (h.filter fun e => e.cp.isNone).map (·.chunk)

/-- what can be built with the operations, together with the flat history of the entries that went in
(`freeze`/`clone` are the identity) -/
inductive Built (cpKid : Tok → Nat) : CDD → List Entry → Prop
  | empty : Built cpKid {} []
  | update {d h} (e : Entry) : Built cpKid d h → Built cpKid (update d e) (h ++ [e])
  | merge {d h o h'} : Built cpKid d h → Built cpKid o h' → Built cpKid (merge d o) (h ++ h')
  | optimize {d h} : Built cpKid d h → Built cpKid (optimize cpKid d) h

theorem matchOk_append (m : Nat → Bool) (a b : List Chunk) : MatchOk m (a ++ b) ↔ MatchOk m a ∧ MatchOk m b := by
  unfold MatchOk
  constructor
  · intro h; exact ⟨fun c hc => h c (by simp [hc]), fun c hc => h c (by simp [hc])⟩
  · rintro ⟨h1, h2⟩ c hc
    rcases List.mem_append.mp hc with h | h
    · exact h1 c h
    · exact h2 c h

theorem relevant_append (key : Tok) (a b : List Entry) : relevant key (a ++ b) = relevant key a ++ relevant key b := by
  simp [relevant]

theorem globalsOf_append (a b : List Entry) : globalsOf (a ++ b) = globalsOf a ++ globalsOf b := by
  simp [globalsOf]

theorem globalsOf_sub (key : Tok) (h : List Entry) : ∀ c ∈ globalsOf h, c ∈ relevant key h := by
  intro c hc
  simp only [globalsOf, relevant, List.mem_map, List.mem_filter] at hc ⊢
  obtain ⟨e, ⟨h1, h2⟩, h3⟩ := hc
  exact ⟨e, ⟨h1, by simp [h2]⟩, h3⟩

theorem matchOk_globals (m : Nat → Bool) (key : Tok) (h : List Entry) (hm : MatchOk m (relevant key h)) :
    MatchOk m (globalsOf h) := fun c hc => hm c (globalsOf_sub key h c hc)

theorem relevant_absent (key : Tok) (h : List Entry) (ha : ∀ e ∈ h, e.cp ≠ some key) : relevant key h = globalsOf h := by
  unfold relevant globalsOf
  congr 1
  apply List.filter_congr
  intro e he
  have := ha e he
  cases hc : e.cp with
  | none => simp
  | some k =>
    have : k ≠ key := fun h0 => this (by rw [hc, h0])
    simp [this]

theorem lastV_nil (m : Nat → Bool) (x : Tok) : lastV m [] x = none := rfl

theorem lastV_single_empty (m : Nat → Bool) (c : Chunk) (hn : c.neg = []) (hp : c.pos = []) (x : Tok) :
    lastV m [c] x = none := by
  simp [lastV, verdict_none_of_empty c hn hp x]

/-! ### what `build` returns is again consistent with the match function -/

theorem walk_l_simple : ∀ (r : List Chunk) (st : WalkSt), (∀ c ∈ st.l, c.simple = false) →
    ∀ c ∈ (walk r st).l, c.simple = false
  | [], st, hl => by simpa [walk] using hl
  | c :: rest, st, hl => by
      by_cases hs : c.simple = true
      · have hl3 : (stepSimple st c).l = st.l := by
          show (c.neg.foldl lockNeg (c.pos.foldl lockPos st)).l = st.l
          rw [(lockNeg_fold c.neg _).2.1, (lockPos_fold c.pos st).2.2.1]
        by_cases hst : c.neg.contains star = true
        · have hw : walk (c :: rest) st = stepSimple st c := by
            simp only [walk, hs, if_true, hst]; rfl
          rw [hw, hl3]; exact hl
        · have hw : walk (c :: rest) st = walk rest (stepSimple st c) := by
            simp only [walk, hs, if_true, hst, Bool.false_eq_true, if_false]; rfl
          rw [hw]
          exact walk_l_simple rest _ (by rw [hl3]; exact hl)
      · have hs' : c.simple = false := by simpa using hs
        have hw : walk (c :: rest) st = walk rest
            (if (c.neg.filter fun y => !isLocked st y).isEmpty && (c.pos.filter fun y => !isLocked st y).isEmpty then st
             else { st with l := st.l ++ [{ c with neg := c.neg.filter fun y => !isLocked st y,
                                                   pos := c.pos.filter fun y => !isLocked st y }] }) := by
          conv => lhs; unfold walk
          rw [if_neg hs]
        rw [hw]
        apply walk_l_simple rest
        intro c' hc'
        split at hc'
        · exact hl c' hc'
        · simp only [List.mem_append, List.mem_cons, List.not_mem_nil, or_false] at hc'
          rcases hc' with h | h
          · exact hl c' h
          · subst h; exact hs'

theorem delta_simple (locked : List (Tok × Bool)) : ∀ (D : List Chunk) (changed : List Tok),
    (∀ c ∈ D, c.simple = false) → ∀ c ∈ delta locked changed D, c.simple = false
  | [], _, _ => by simp [delta]
  | c :: cs, changed, h => by
      have hc := h c (by simp)
      have h' : ∀ c' ∈ cs, c'.simple = false := fun c' hc' => h c' (List.mem_cons_of_mem _ hc')
      unfold delta
      simp only
      split
      · exact delta_simple locked cs changed h'
      · intro c' hc'
        rcases List.mem_cons.mp hc' with h0 | h0
        · subst h0; exact hc
        · exact delta_simple locked cs _ h' c' h0

theorem build_matchOk (m : Nat → Bool) (rk : Nat) (seq : List Chunk) (hm : MatchOk m seq) (hrk : m rk = true) :
    MatchOk m (build rk seq) := by
  unfold build
  split
  · exact hm
  · split
    · exact hm
    · have hns := walk_l_simple seq.reverse {} (by simp)
      simp only
      split
      · intro c hc hs
        have := hns c (by simpa using hc)
        rw [this] at hs; cases hs
      · intro c hc hs
        rcases List.mem_cons.mp hc with h0 | h0
        · subst h0; exact hrk
        · have := delta_simple _ _ [] (fun c' hc' => hns c' (by simpa using hc')) c h0
          rw [this] at hs; cases hs

theorem expandGlobals_spec (m : Nat → Bool) (g new : List Chunk) (h0 : m 0 = true) (hm : MatchOk m (g ++ new)) :
    MatchOk m (expandGlobals g new) ∧ ∀ x, lastV m (expandGlobals g new) x = lastV m (g ++ new) x := by
  unfold expandGlobals
  cases new with
  | nil => exact ⟨hm, fun _ => rfl⟩
  | cons c cs =>
    simp only
    split
    · exact ⟨build_matchOk m 0 _ hm h0, fun x => build_lastV m 0 _ hm h0 x⟩
    · exact ⟨hm, fun _ => rfl⟩

/-- what holds of every dict that can be built -/
structure Inv (cpKid : Tok → Nat) (d : CDD) (h : List Entry) : Prop where
  glob : ∀ m, m 0 = true → MatchOk m (globalsOf h) →
    MatchOk m d.globals ∧ ∀ x, lastV m d.globals x = lastV m (globalsOf h) x
  keyed : ∀ key l, d.dict key = some l → ∀ m, m 0 = true → m (cpKid key) = true → MatchOk m (relevant key h) →
    MatchOk m l ∧ ∀ x, lastV m l x = lastV m (relevant key h) x
  absent : ∀ key, d.dict key = none → ∀ e ∈ h, e.cp ≠ some key

/-- the list consulted for a key stands for the relevant part of the history -/
theorem Inv.getList {cpKid d h} (inv : Inv cpKid d h) (key : Tok) (m : Nat → Bool) (h0 : m 0 = true)
    (hk : m (cpKid key) = true) (hm : MatchOk m (relevant key h)) :
    MatchOk m (getList d key) ∧ ∀ x, lastV m (getList d key) x = lastV m (relevant key h) x := by
  unfold C11.getList
  cases hd : d.dict key with
  | some l => exact inv.keyed key l hd m h0 hk hm
  | none =>
    simp only [Option.getD_none]
    rw [relevant_absent key h (inv.absent key hd)]
    exact inv.glob m h0 (matchOk_globals m key h hm)

theorem built_inv (cpKid : Tok → Nat) {d : CDD} {h : List Entry} (hb : Built cpKid d h) : Inv cpKid d h := by
  induction hb with
  | empty =>
    exact ⟨fun m _ _ => ⟨by intro c hc; simp at hc, fun _ => rfl⟩, fun key l hd => by simp at hd, fun key _ e he => by simp at he⟩
  | @update d h e _ inv =>
    cases hcp : e.cp with
    | none =>
      have hg : globalsOf (h ++ [e]) = globalsOf h ++ [e.chunk] := by simp [globalsOf_append, globalsOf, hcp]
      have hr : ∀ key, relevant key (h ++ [e]) = relevant key h ++ [e.chunk] := by
        intro key; simp [relevant_append, relevant, hcp]
      by_cases hemp : (e.chunk.neg.isEmpty && e.chunk.pos.isEmpty) = true
      · have hne : e.chunk.neg = [] ∧ e.chunk.pos = [] := by simpa using hemp
        have hu : update d e = d := by simp [update, hcp, addGlobal, hemp]
        rw [hu]
        refine ⟨fun m h0 hm => ?_, fun key l hd m h0 hk hm => ?_, fun key hd e' he' => ?_⟩
        · rw [hg, matchOk_append] at hm
          obtain ⟨a, b⟩ := inv.glob m h0 hm.1
          refine ⟨a, fun x => ?_⟩
          rw [hg, lastV_append, lastV_single_empty m _ hne.1 hne.2 x, b x]; rfl
        · rw [hr key, matchOk_append] at hm
          obtain ⟨a, b⟩ := inv.keyed key l hd m h0 hk hm.1
          refine ⟨a, fun x => ?_⟩
          rw [hr key, lastV_append, lastV_single_empty m _ hne.1 hne.2 x, b x]; rfl
        · rcases List.mem_append.mp he' with h1 | h1
          · exact inv.absent key hd e' h1
          · simp only [List.mem_cons, List.not_mem_nil, or_false] at h1; subst h1; rw [hcp]; simp
      · have hu : update d e = { globals := expandGlobals d.globals [e.chunk], dict := fun k => (d.dict k).map (· ++ [e.chunk]) } := by
          simp [update, hcp, addGlobal, hemp]
        rw [hu]
        refine ⟨fun m h0 hm => ?_, fun key l hd m h0 hk hm => ?_, fun key hd e' he' => ?_⟩
        · rw [hg, matchOk_append] at hm
          obtain ⟨a, b⟩ := inv.glob m h0 hm.1
          obtain ⟨a', b'⟩ := expandGlobals_spec m d.globals [e.chunk] h0 ((matchOk_append m _ _).mpr ⟨a, hm.2⟩)
          refine ⟨a', fun x => ?_⟩
          rw [b' x, hg, lastV_append, lastV_append, b x]
        · simp only at hd
          cases hdk : d.dict key with
          | none => rw [hdk] at hd; cases hd
          | some l0 =>
            rw [hdk] at hd; simp only [Option.map_some, Option.some.injEq] at hd; subst hd
            rw [hr key, matchOk_append] at hm
            obtain ⟨a, b⟩ := inv.keyed key l0 hdk m h0 hk hm.1
            refine ⟨(matchOk_append m _ _).mpr ⟨a, hm.2⟩, fun x => ?_⟩
            rw [hr key, lastV_append, lastV_append, b x]
        · simp only at hd
          have hdk : d.dict key = none := by
            cases hq : d.dict key with
            | none => rfl
            | some _ => rw [hq] at hd; cases hd
          rcases List.mem_append.mp he' with h1 | h1
          · exact inv.absent key hdk e' h1
          · simp only [List.mem_cons, List.not_mem_nil, or_false] at h1; subst h1; rw [hcp]; simp
    | some k =>
      have hg : globalsOf (h ++ [e]) = globalsOf h := by simp [globalsOf_append, globalsOf, hcp]
      have hu : update d e = { d with dict := fun k' => if k' = k then some (C11.getList d k ++ [e.chunk]) else d.dict k' } := by
        simp [update, hcp]
      rw [hu]
      refine ⟨fun m h0 hm => ?_, fun key l hd m h0 hk hm => ?_, fun key hd e' he' => ?_⟩
      · rw [hg] at hm ⊢; exact inv.glob m h0 hm
      · simp only at hd
        by_cases hkk : key = k
        · subst hkk
          simp only [if_true, Option.some.injEq] at hd; subst hd
          have hr : relevant key (h ++ [e]) = relevant key h ++ [e.chunk] := by simp [relevant_append, relevant, hcp]
          rw [hr, matchOk_append] at hm
          obtain ⟨a, b⟩ := inv.getList key m h0 hk hm.1
          refine ⟨(matchOk_append m _ _).mpr ⟨a, hm.2⟩, fun x => ?_⟩
          rw [hr, lastV_append, lastV_append, b x]
        · simp only [hkk, if_false] at hd
          have hne : k ≠ key := fun h0 => hkk h0.symm
          have hr : relevant key (h ++ [e]) = relevant key h := by simp [relevant_append, relevant, hcp, hne]
          rw [hr] at hm ⊢
          exact inv.keyed key l hd m h0 hk hm
      · simp only at hd
        by_cases hkk : key = k
        · subst hkk; simp at hd
        · simp only [hkk, if_false] at hd
          rcases List.mem_append.mp he' with h1 | h1
          · exact inv.absent key hd e' h1
          · simp only [List.mem_cons, List.not_mem_nil, or_false] at h1; subst h1
            rw [hcp]; intro h0; exact hkk (by simpa using h0.symm)
  | @merge d h o h' _ _ inv invo =>
    refine ⟨fun m h0 hm => ?_, fun key l hd m h0 hk hm => ?_, fun key hd e' he' => ?_⟩
    · rw [globalsOf_append, matchOk_append] at hm
      obtain ⟨a, b⟩ := inv.glob m h0 hm.1
      obtain ⟨ao, bo⟩ := invo.glob m h0 hm.2
      have hmg : (C11.merge d o).globals = if o.globals.isEmpty then d.globals else expandGlobals d.globals o.globals := rfl
      rw [hmg]
      by_cases he : o.globals.isEmpty = true
      · have hoe : o.globals = [] := by simpa using he
        rw [if_pos he]
        refine ⟨a, fun x => ?_⟩
        rw [globalsOf_append, lastV_append, ← bo x, hoe, b x]; rfl
      · rw [if_neg he]
        obtain ⟨a', b'⟩ := expandGlobals_spec m d.globals o.globals h0 ((matchOk_append m _ _).mpr ⟨a, ao⟩)
        refine ⟨a', fun x => ?_⟩
        rw [b' x, globalsOf_append, lastV_append, lastV_append, b x, bo x]
    · rw [relevant_append, matchOk_append] at hm
      have hd' : (match o.dict key with
          | some v => some (C11.getList d key ++ v)
          | none => (d.dict key).map (· ++ o.globals)) = some l := hd
      cases hok : o.dict key with
      | some v =>
        rw [hok] at hd'; simp only [Option.some.injEq] at hd'; subst hd'
        obtain ⟨a, b⟩ := inv.getList key m h0 hk hm.1
        obtain ⟨ao, bo⟩ := invo.keyed key v hok m h0 hk hm.2
        refine ⟨(matchOk_append m _ _).mpr ⟨a, ao⟩, fun x => ?_⟩
        rw [relevant_append, lastV_append, lastV_append, b x, bo x]
      | none =>
        rw [hok] at hd'
        cases hdk : d.dict key with
        | none => rw [hdk] at hd'; cases hd'
        | some l0 =>
          rw [hdk] at hd'; simp only [Option.map_some, Option.some.injEq] at hd'; subst hd'
          obtain ⟨a, b⟩ := inv.keyed key l0 hdk m h0 hk hm.1
          have hrel := relevant_absent key h' (invo.absent key hok)
          obtain ⟨ao, bo⟩ := invo.glob m h0 (matchOk_globals m key h' hm.2)
          refine ⟨(matchOk_append m _ _).mpr ⟨a, ao⟩, fun x => ?_⟩
          rw [relevant_append, lastV_append, lastV_append, b x, bo x, hrel]
    · have hd' : (match o.dict key with
          | some v => some (C11.getList d key ++ v)
          | none => (d.dict key).map (· ++ o.globals)) = none := hd
      cases hok : o.dict key with
      | some v => rw [hok] at hd'; cases hd'
      | none =>
        rw [hok] at hd'
        have hdk : d.dict key = none := by
          cases hq : d.dict key with
          | none => rfl
          | some _ => rw [hq] at hd'; cases hd'
        rcases List.mem_append.mp he' with h1 | h1
        · exact inv.absent key hdk e' h1
        · exact invo.absent key hok e' h1
  | @optimize d h _ inv =>
    refine ⟨fun m h0 hm => ?_, fun key l hd m h0 hk hm => ?_, fun key hd e' he' => ?_⟩
    · obtain ⟨a, b⟩ := inv.glob m h0 hm
      exact ⟨build_matchOk m 0 _ a h0, fun x => by
        show lastV m (build 0 d.globals) x = _
        rw [build_lastV m 0 _ a h0 x, b x]⟩
    · have hd' : (d.dict key).map (build (cpKid key)) = some l := hd
      cases hdk : d.dict key with
      | none => rw [hdk] at hd'; cases hd'
      | some l0 =>
        rw [hdk] at hd'; simp only [Option.map_some, Option.some.injEq] at hd'; subst hd'
        obtain ⟨a, b⟩ := inv.keyed key l0 hdk m h0 hk hm
        exact ⟨build_matchOk m _ _ a hk, fun x => by rw [build_lastV m _ _ a hk x, b x]⟩
    · have hd' : (d.dict key).map (build (cpKid key)) = none := hd
      have hdk : d.dict key = none := by
        cases hq : d.dict key with
        | none => rfl
        | some _ => rw [hq] at hd'; cases hd'
      exact inv.absent key hdk e' he'

/-! ## token lines: `package_use_splitter`, `domain.pkg_use` -/

theorem isSection_dashStar : isSection dashStar = false := by decide

theorem restOfPart_section {t : Tok} {ts : List Tok} (h : isSection t = true) : restOfPart (t :: ts) = [] := by
  simp [restOfPart, h]

theorem restOfPart_plain {t : Tok} {ts : List Tok} (h : isSection t = false) :
    restOfPart (t :: ts) = t :: restOfPart ts := by
  simp [restOfPart, h]

/-- the inner loop against the look-ahead specification: the buffer survives iff no `-*` follows in this section -/
theorem secLoop_spec (valid : Tok → Bool) : ∀ (ts : List Tok) (ue : Tok) (buf out : List Tok),
    secLoop valid ts ue buf = some out →
    out = (if (restOfPart ts).contains dashStar then [] else buf) ++ splitSpecFrom (some ue) ts
  | [], ue, buf, out, h => by
    simp only [secLoop, Option.some.injEq] at h
    simp [restOfPart, splitSpecFrom, h]
  | t :: ts, ue, buf, out, h => by
    unfold secLoop at h
    by_cases hs : isSection t = true
    · simp only [hs, if_true, Option.map_eq_some_iff] at h
      obtain ⟨o, ho, rfl⟩ := h
      have ih := secLoop_spec valid ts (sectionName t) [] o ho
      rw [restOfPart_section hs]
      simp only [splitSpecFrom, hs, if_true]
      rw [ih]; simp
    · have hs' : isSection t = false := by simpa using hs
      by_cases hd : t = dashStar
      · subst hd
        simp only [isSection_dashStar, Bool.false_eq_true, if_false, if_true, Option.map_eq_some_iff] at h
        obtain ⟨o, ho, rfl⟩ := h
        have ih := secLoop_spec valid ts ue [] o ho
        rw [restOfPart_plain isSection_dashStar]
        simp only [splitSpecFrom, isSection_dashStar, Bool.false_eq_true, if_false]
        rw [ih]; simp
      · simp only [hs', Bool.false_eq_true, if_false, hd] at h
        by_cases hv : valid (lstripDash (expandTok ue t)) = true
        · simp only [hv, if_true] at h
          have ih := secLoop_spec valid ts ue (buf ++ [expandTok ue t]) out h
          rw [restOfPart_plain hs']
          have hne : (dashStar == t) = false := by simpa using fun h' : dashStar = t => hd h'.symm
          have hne' : (t != dashStar) = true := by simpa using hd
          simp only [splitSpecFrom, hs', Bool.false_eq_true, if_false, List.contains_cons, hne, Bool.false_or, hne', Bool.true_and]
          rw [ih]
          by_cases hc : dashStar ∈ restOfPart ts
          · simp [hc]
          · simp [hc]
        · simp [hv] at h

/-- the outer loop: what has been seen of the plain head survives iff no `-*` follows in the plain head -/
theorem plainLoop_spec (valid : Tok → Bool) : ∀ (ts pre out : List Tok),
    plainLoop valid ts pre = some out →
    out = (if (restOfPart ts).contains dashStar then [] else pre) ++ splitSpecFrom none ts
  | [], pre, out, h => by
    simp only [plainLoop, Option.some.injEq] at h
    simp [restOfPart, splitSpecFrom, h]
  | t :: ts, pre, out, h => by
    unfold plainLoop at h
    by_cases hd : t = dashStar
    · subst hd
      simp only [if_true] at h
      have ih := plainLoop_spec valid ts [dashStar] out h
      rw [restOfPart_plain isSection_dashStar]
      simp only [splitSpecFrom, isSection_dashStar, Bool.false_eq_true, if_false]
      rw [ih]
      by_cases hc : dashStar ∈ restOfPart ts
      · simp [hc]
      · simp [hc]
    · simp only [hd, if_false] at h
      by_cases hs : isSection t = true
      · simp only [hs, if_true, Option.map_eq_some_iff] at h
        obtain ⟨o, ho, rfl⟩ := h
        have ih := secLoop_spec valid ts (sectionName t) [] o ho
        rw [restOfPart_section hs]
        simp only [splitSpecFrom, hs, if_true]
        rw [ih]; simp
      · have hs' : isSection t = false := by simpa using hs
        simp only [hs', Bool.false_eq_true, if_false] at h
        by_cases hv : valid (lstripDash t) = true
        · simp only [hv, if_true] at h
          have ih := plainLoop_spec valid ts (pre ++ [t]) out h
          rw [restOfPart_plain hs']
          have hne : (dashStar == t) = false := by simpa using fun h' : dashStar = t => hd h'.symm
          simp only [splitSpecFrom, hs', Bool.false_eq_true, if_false, List.contains_cons, hne, Bool.false_or]
          rw [ih]
          by_cases hc : dashStar ∈ restOfPart ts
          · simp [hc]
          · simp [hc]
        · simp [hv] at h

/-- acceptance: the loops fail exactly on an invalid (long form) token -/
theorem secLoop_isSome (valid : Tok → Bool) : ∀ (ts : List Tok) (ue : Tok) (buf : List Tok),
    (secLoop valid ts ue buf).isSome = (checkedFrom (some ue) ts).all fun t => valid (lstripDash t)
  | [], ue, buf => by simp [secLoop, checkedFrom]
  | t :: ts, ue, buf => by
    unfold secLoop
    by_cases hs : isSection t = true
    · simp only [hs, if_true, Option.isSome_map, checkedFrom]
      exact secLoop_isSome valid ts _ _
    · have hs' : isSection t = false := by simpa using hs
      by_cases hd : t = dashStar
      · subst hd
        simp only [isSection_dashStar, Bool.false_eq_true, if_false, if_true, Option.isSome_map, checkedFrom]
        exact secLoop_isSome valid ts _ _
      · simp only [hs', Bool.false_eq_true, if_false, hd, checkedFrom, List.all_cons]
        by_cases hv : valid (lstripDash (expandTok ue t)) = true
        · simp only [hv, if_true, Bool.true_and]
          exact secLoop_isSome valid ts _ _
        · simp [hv]

theorem plainLoop_isSome (valid : Tok → Bool) : ∀ (ts pre : List Tok),
    (plainLoop valid ts pre).isSome = (checkedFrom none ts).all fun t => valid (lstripDash t)
  | [], pre => by simp [plainLoop, checkedFrom]
  | t :: ts, pre => by
    unfold plainLoop
    by_cases hd : t = dashStar
    · subst hd
      simp only [if_true, checkedFrom, isSection_dashStar, Bool.false_eq_true, if_false]
      exact plainLoop_isSome valid ts _
    · simp only [hd, if_false]
      by_cases hs : isSection t = true
      · simp only [hs, if_true, Option.isSome_map, checkedFrom]
        exact secLoop_isSome valid ts _ _
      · have hs' : isSection t = false := by simpa using hs
        simp only [hs', Bool.false_eq_true, if_false, checkedFrom, hd, List.all_cons]
        by_cases hv : valid (lstripDash t) = true
        · simp only [hv, if_true, Bool.true_and]
          exact plainLoop_isSome valid ts _
        · simp [hv]

/-- nothing is invented, duplicated or reordered -/
theorem splitSpecFrom_sublist : ∀ (toks : List Tok) (cur : Option Tok),
    (splitSpecFrom cur toks).Sublist (rewriteFrom cur toks)
  | [], cur => by simp [splitSpecFrom, rewriteFrom]
  | t :: ts, cur => by
    unfold splitSpecFrom rewriteFrom
    by_cases hs : isSection t = true
    · simp only [hs, if_true]; exact splitSpecFrom_sublist ts _
    · have hs' : isSection t = false := by simpa using hs
      simp only [hs', Bool.false_eq_true, if_false]
      cases cur with
      | none =>
        simp only
        split
        · exact (splitSpecFrom_sublist ts none).cons _
        · exact (splitSpecFrom_sublist ts none).cons_cons _
      | some ue =>
        simp only
        split
        · exact (splitSpecFrom_sublist ts (some ue)).cons _
        · exact (splitSpecFrom_sublist ts (some ue)).cons_cons _

/-! ### the meaning of a token line -/

theorem lastTok_cons (t : Tok) (ts : List Tok) (x : Tok) :
    lastTok (t :: ts) x = (lastTok ts x).orElse fun _ => verdict (tokChunk t) x := by
  simp [lastTok, lastV]

theorem covers_single_star (x : Tok) : covers [star] x = true := by simp [covers]

theorem verdict_dashStar (x : Tok) : verdict (tokChunk dashStar) x = some false := by
  have : tokChunk dashStar = ⟨0, true, [star], []⟩ := by decide
  simp [this, verdict, covers_single_star]

theorem endsUS_append (ue : Tok) : endsUS (ue ++ ['_', '*']) = true := by
  simp [endsUS]

theorem verdict_prefixClear (ue x : Tok) (hp : (ue ++ ['_']).isPrefixOf x = true) :
    verdict (tokChunk (expandTok ue dashStar)) x = some false := by
  have h1 : expandTok ue dashStar = '-' :: (ue ++ ['_', '*']) := by simp [expandTok, dashStar]
  have h2 : tokChunk ('-' :: (ue ++ ['_', '*'])) = ⟨0, true, [ue ++ ['_', '*']], []⟩ := by simp [tokChunk]
  have h3 : (ue ++ ['_', '*']).dropLast = ue ++ ['_'] := by
    rw [List.dropLast_append_of_ne_nil (by simp)]; rfl
  rw [h1, h2]
  simp [verdict, covers, endsUS_append, h3, hp]

/-- a later `-*` speaks about every flag -/
theorem lastTok_isSome_of_clear : ∀ (toks : List Tok) (x : Tok), dashStar ∈ toks → (lastTok toks x).isSome = true
  | [], _, h => by simp at h
  | t :: ts, x, h => by
    rw [lastTok_cons]
    rcases List.mem_cons.mp h with h | h
    · subst h
      rw [verdict_dashStar]
      cases lastTok ts x <;> simp
    · have := lastTok_isSome_of_clear ts x h
      cases hl : lastTok ts x with
      | none => rw [hl] at this; simp at this
      | some b => simp

/-- a later `-name_*` speaks about every flag `name_…` -/
theorem lastTok_isSome_of_prefixClear (ue : Tok) : ∀ (toks : List Tok) (x : Tok), expandTok ue dashStar ∈ toks →
    (ue ++ ['_']).isPrefixOf x = true → (lastTok toks x).isSome = true
  | [], _, h, _ => by simp at h
  | t :: ts, x, h, hp => by
    rw [lastTok_cons]
    rcases List.mem_cons.mp h with h | h
    · rw [← h, verdict_prefixClear ue x hp]
      cases lastTok ts x <;> simp
    · have := lastTok_isSome_of_prefixClear ue ts x h hp
      cases hl : lastTok ts x with
      | none => rw [hl] at this; simp at this
      | some b => simp

theorem clear_mem_rewrite_plain : ∀ (ts : List Tok), dashStar ∈ restOfPart ts → dashStar ∈ rewriteFrom none ts
  | [], h => by simp [restOfPart] at h
  | t :: ts, h => by
    by_cases hs : isSection t = true
    · rw [restOfPart_section hs] at h; simp at h
    · have hs' : isSection t = false := by simpa using hs
      rw [restOfPart_plain hs'] at h
      simp only [rewriteFrom, hs', Bool.false_eq_true, if_false]
      rcases List.mem_cons.mp h with h | h
      · exact h ▸ List.mem_cons_self
      · exact List.mem_cons_of_mem _ (clear_mem_rewrite_plain ts h)

theorem clear_mem_rewrite_section (ue : Tok) : ∀ (ts : List Tok), dashStar ∈ restOfPart ts →
    expandTok ue dashStar ∈ rewriteFrom (some ue) ts
  | [], h => by simp [restOfPart] at h
  | t :: ts, h => by
    by_cases hs : isSection t = true
    · rw [restOfPart_section hs] at h; simp at h
    · have hs' : isSection t = false := by simpa using hs
      rw [restOfPart_plain hs'] at h
      simp only [rewriteFrom, hs', Bool.false_eq_true, if_false]
      rcases List.mem_cons.mp h with h | h
      · exact h ▸ List.mem_cons_self
      · exact List.mem_cons_of_mem _ (clear_mem_rewrite_section ue ts h)

/-- a value of the section `name` only speaks about flags `name_…` (the name not starting with `-`) -/
theorem verdict_expandTok_prefix (ue t x : Tok) (hue : ue.head? ≠ some '-')
    (h : verdict (tokChunk (expandTok ue t)) x ≠ none) : (ue ++ ['_']).isPrefixOf x = true := by
  rw [List.isPrefixOf_iff_prefix]
  by_cases ht : t.head? = some '-'
  · have h1 : tokChunk (expandTok ue t) = ⟨0, true, [ue ++ '_' :: t.tail], []⟩ := by simp [expandTok, ht, tokChunk]
    rw [h1] at h
    have hc : covers [ue ++ '_' :: t.tail] x = true := by
      cases hcv : covers [ue ++ '_' :: t.tail] x with
      | true => rfl
      | false => simp [verdict, hcv] at h
    rcases (covers_iff _ x).mp hc with h' | ⟨n, hn, he, hpre⟩ | h'
    · exfalso
      have : star = ue ++ '_' :: t.tail := by simpa using h'
      cases ue with
      | nil => simp [star] at this
      | cons a as =>
        have := congrArg List.length this
        simp [star] at this
    · have hn' : n = ue ++ '_' :: t.tail := by simpa using hn
      subst hn'
      rw [List.isPrefixOf_iff_prefix] at hpre
      refine List.IsPrefix.trans ?_ hpre
      cases htl : t.tail with
      | nil =>
        exfalso
        rw [htl] at he
        simp [endsUS, List.isSuffixOf, List.reverse_append] at he
      | cons b bs =>
        have : (ue ++ '_' :: b :: bs).dropLast = (ue ++ ['_']) ++ (b :: bs).dropLast := by
          rw [show ue ++ '_' :: b :: bs = (ue ++ ['_']) ++ (b :: bs) by simp]
          rw [List.dropLast_append_of_ne_nil (by simp)]
        rw [this]
        exact List.prefix_append _ _
    · have : x = ue ++ '_' :: t.tail := by simpa using h'
      rw [this, show ue ++ '_' :: t.tail = (ue ++ ['_']) ++ t.tail by simp]
      exact List.prefix_append _ _
  · have hh : (ue ++ '_' :: t).head? ≠ some '-' := by
      cases ue with
      | nil => simp
      | cons a as => simpa using hue
    have h1 : tokChunk (expandTok ue t) = ⟨0, true, [], [ue ++ '_' :: t]⟩ := by
      have : expandTok ue t = ue ++ '_' :: t := by simp [expandTok, ht]
      rw [this]; unfold tokChunk; rw [if_neg hh]
    rw [h1] at h
    have : x = ue ++ '_' :: t := by
      by_cases hx : x = ue ++ '_' :: t
      · exact hx
      · exfalso; apply h; simp [verdict, covers, hx]
    rw [this, show ue ++ '_' :: t = (ue ++ ['_']) ++ t by simp]
    exact List.prefix_append _ _

/-- what the splitter drops is overridden anyway: per flag, the last token speaking about it is the same -/
theorem lastTok_splitSpecFrom : ∀ (toks : List Tok) (cur : Option Tok) (x : Tok),
    (∀ ue, cur = some ue → ue.head? ≠ some '-') → plainNames toks = true →
    lastTok (splitSpecFrom cur toks) x = lastTok (rewriteFrom cur toks) x
  | [], cur, x, _, _ => by simp [splitSpecFrom, rewriteFrom]
  | t :: ts, cur, x, hcur, hn => by
    have hn' : plainNames ts = true := by
      simp only [plainNames, List.all_cons, Bool.and_eq_true] at hn ⊢; exact hn.2
    unfold splitSpecFrom rewriteFrom
    by_cases hs : isSection t = true
    · simp only [hs, if_true]
      refine lastTok_splitSpecFrom ts _ x ?_ hn'
      intro ue hue
      simp only [plainNames, List.all_cons, Bool.and_eq_true, hs, Bool.not_true, Bool.false_or] at hn
      have := hn.1
      simp only [Option.some.injEq] at hue
      subst hue
      simpa using this
    · have hs' : isSection t = false := by simpa using hs
      simp only [hs', Bool.false_eq_true, if_false]
      cases cur with
      | none =>
        simp only
        have ih := lastTok_splitSpecFrom ts none x (by simp) hn'
        split
        · rename_i hc
          rw [lastTok_cons, ← ih]
          have hsome := lastTok_isSome_of_clear _ x (clear_mem_rewrite_plain ts (by simpa using hc))
          rw [← ih] at hsome
          cases hl : lastTok (splitSpecFrom none ts) x with
          | none => rw [hl] at hsome; simp at hsome
          | some b => simp
        · rw [lastTok_cons, lastTok_cons, ih]
      | some ue =>
        simp only
        have hue : ue.head? ≠ some '-' := hcur ue rfl
        have ih := lastTok_splitSpecFrom ts (some ue) x hcur hn'
        split
        · rename_i hc
          rw [lastTok_cons, ← ih]
          simp only [Bool.and_eq_true] at hc
          cases hv : verdict (tokChunk (expandTok ue t)) x with
          | none => cases lastTok (splitSpecFrom (some ue) ts) x <;> simp
          | some b =>
            have hp := verdict_expandTok_prefix ue t x hue (by rw [hv]; simp)
            have hsome := lastTok_isSome_of_prefixClear ue _ x (clear_mem_rewrite_section ue ts (by simpa using hc.2)) hp
            rw [← ih] at hsome
            cases hl : lastTok (splitSpecFrom (some ue) ts) x with
            | none => rw [hl] at hsome; simp at hsome
            | some b' => simp
        · rw [lastTok_cons, lastTok_cons, ih]

/-! ### one line as one chunk -/

def isNegTok (t : Tok) : Bool := t.head? == some '-'
def negsOf (toks : List Tok) : List Tok := (toks.filter isNegTok).map List.tail
def possOf (toks : List Tok) : List Tok := toks.filter fun t => !isNegTok t

/-- what a line says about `x` when read as (negatives, positives) -/
def vLine (toks : List Tok) (x : Tok) : Option Bool :=
  if (possOf toks).contains x then some true else if covers (negsOf toks) x then some false else none

theorem mem_stableUniqueAux : ∀ (ts seen : List Tok) (x : Tok),
    x ∈ stableUniqueAux ts seen ↔ x ∈ ts ∧ x ∉ seen
  | [], seen, x => by simp [stableUniqueAux]
  | t :: ts, seen, x => by
    unfold stableUniqueAux
    by_cases h : seen.contains t = true
    · have ht : t ∈ seen := by simpa using h
      simp only [h, if_true, mem_stableUniqueAux ts seen x, List.mem_cons]
      constructor
      · rintro ⟨h1, h2⟩; exact ⟨Or.inr h1, h2⟩
      · rintro ⟨h1 | h1, h2⟩
        · exact absurd (h1 ▸ ht) h2
        · exact ⟨h1, h2⟩
    · have ht : t ∉ seen := by simpa using h
      have h' : seen.contains t = false := by simpa using h
      simp only [h', Bool.false_eq_true, if_false, List.mem_cons, mem_stableUniqueAux ts (t :: seen) x, not_or]
      constructor
      · rintro (h1 | ⟨h1, h2, h3⟩)
        · exact ⟨Or.inl h1, h1 ▸ ht⟩
        · exact ⟨Or.inr h1, h3⟩
      · rintro ⟨h1 | h1, h2⟩
        · exact Or.inl h1
        · by_cases hx : x = t
          · exact Or.inl hx
          · exact Or.inr ⟨h1, hx, h2⟩

theorem mem_stableUnique (ts : List Tok) (x : Tok) : x ∈ stableUnique ts ↔ x ∈ ts := by
  simp [stableUnique, mem_stableUniqueAux]

theorem covers_congr (a b : List Tok) (h : ∀ n, n ∈ a ↔ n ∈ b) (x : Tok) : covers a x = covers b x := by
  rw [Bool.eq_iff_iff, covers_iff, covers_iff]
  simp only [h]

theorem covers_cons (n : Tok) (ns : List Tok) (x : Tok) : covers (n :: ns) x = (covers [n] x || covers ns x) := by
  simp only [covers, List.contains_cons, List.any_cons, List.contains_nil, List.any_nil, Bool.or_false]
  ac_rfl

theorem covers_nil (x : Tok) : covers [] x = false := by simp [covers]

theorem verdict_lineChunk (kid : Nat) (simple : Bool) (toks : List Tok) (x : Tok) :
    verdict (lineChunk kid simple toks) x = vLine toks x := by
  have hp : (lineChunk kid simple toks).pos.contains x = (possOf toks).contains x := by
    rw [Bool.eq_iff_iff]
    simp [lineChunk, possOf, isNegTok, mem_stableUnique]
  have hc : covers (lineChunk kid simple toks).neg x = covers (negsOf toks) x := by
    apply covers_congr
    intro n
    simp [lineChunk, negsOf, isNegTok, mem_stableUnique]
  simp only [verdict, vLine, hp, hc]

theorem covers_negsOf : ∀ (ts : List Tok) (x : Tok),
    covers (negsOf ts) x = ts.any fun u => isNegTok u && covers [u.tail] x
  | [], x => by simp [negsOf, covers_nil]
  | t :: ts, x => by
    have ih := covers_negsOf ts x
    by_cases ht : isNegTok t = true
    · have : negsOf (t :: ts) = t.tail :: negsOf ts := by simp [negsOf, ht]
      rw [this, covers_cons, ih]; simp [ht]
    · have : negsOf (t :: ts) = negsOf ts := by simp [negsOf, ht]
      rw [this, ih]; simp [ht]

/-- an order-free line read as one chunk says, about every flag, what its last token speaking about the flag says -/
theorem lastTok_eq_vLine : ∀ (toks : List Tok) (x : Tok), orderFree toks = true → lastTok toks x = vLine toks x
  | [], x, _ => by simp [lastTok, lastV, vLine, possOf, negsOf, covers_nil]
  | t :: ts, x, h => by
    simp only [orderFree, Bool.and_eq_true] at h
    have ih := lastTok_eq_vLine ts x h.2
    rw [lastTok_cons, ih]
    by_cases ht : isNegTok t = true
    · have ht' : t.head? = some '-' := by simpa [isNegTok] using ht
      have h1 : tokChunk t = ⟨0, true, [t.tail], []⟩ := by simp [tokChunk, ht']
      have hp : possOf (t :: ts) = possOf ts := by simp [possOf, ht]
      have hn : negsOf (t :: ts) = t.tail :: negsOf ts := by simp [negsOf, ht]
      simp only [vLine, hp, hn, h1, verdict]
      rw [covers_cons t.tail (negsOf ts) x]
      cases (possOf ts).contains x <;> cases covers (negsOf ts) x <;> cases covers [t.tail] x <;> simp
    · have ht0 : isNegTok t = false := by simpa using ht
      have ht' : ¬ t.head? = some '-' := by simpa [isNegTok] using ht
      have h1 : tokChunk t = ⟨0, true, [], [t]⟩ := by simp [tokChunk, ht']
      have hp : possOf (t :: ts) = t :: possOf ts := by simp [possOf, ht0]
      have hn : negsOf (t :: ts) = negsOf ts := by simp [negsOf, ht0]
      have hfree : covers (negsOf ts) t = false := by
        rw [covers_negsOf]
        have := h.1
        simp only [isNegTok] at ht0
        simpa [ht0, isNegTok] using this
      simp only [vLine, hp, hn, h1, verdict, covers_nil, List.contains_cons]
      by_cases hx : x = t
      · subst hx
        simp only [BEq.rfl, Bool.true_or, if_true, hfree]
        cases (possOf ts).contains x <;> simp
      · have : (x == t) = false := by simpa using hx
        simp only [this, Bool.false_or, List.contains_nil, Bool.false_eq_true, if_false]
        cases (possOf ts).contains x <;> cases covers (negsOf ts) x <;> simp

/-! ### the rewriting, section by section -/

/-- how a token reads in the part `cur` (`none` = before the first section) -/
def inPart (cur : Option Tok) (t : Tok) : Tok := match cur with | none => t | some ue => expandTok ue t

theorem rewriteFrom_append (cur : Option Tok) : ∀ (vals rest : List Tok), (vals.all fun t => !isSection t) = true →
    rewriteFrom cur (vals ++ rest) = vals.map (inPart cur) ++ rewriteFrom cur rest
  | [], rest, _ => by simp
  | t :: ts, rest, h => by
    simp only [List.all_cons, Bool.and_eq_true, Bool.not_eq_true'] at h
    have ih := rewriteFrom_append cur ts rest (by simpa using h.2)
    simp only [List.cons_append, rewriteFrom, h.1, Bool.false_eq_true, if_false, ih, List.map_cons, inPart]
    cases cur <;> rfl

end Pkgcore.C11
