import Pkgcore.Spec.C22
/-!
# C22 — helper lemmas (path normal forms, dict lists, relocation, directory completion)
-/
namespace Pkgcore.C22
open Pkgcore.C22.Spec

/-! ## split / join -/

theorem splitSlash_ne_nil (s : List Char) : splitSlash s ≠ [] := by
  cases s with
  | nil => simp [splitSlash]
  | cons c cs =>
    simp only [splitSlash]
    split
    · simp
    · split <;> simp

theorem splitSlash_cons_slash (s : List Char) : splitSlash ('/' :: s) = [] :: splitSlash s := by
  simp [splitSlash]

theorem splitSlash_append_slash (a b : List Char) :
    splitSlash (a ++ '/' :: b) = splitSlash a ++ splitSlash b := by
  induction a with
  | nil => simp [splitSlash]
  | cons c a ih =>
    by_cases hc : c = '/'
    · subst hc; simp [splitSlash, ih]
    · simp only [List.cons_append, splitSlash, hc, if_false, ih]
      cases h : splitSlash a with
      | nil => exact absurd h (splitSlash_ne_nil a)
      | cons x xs => simp

theorem splitSlash_noslash (c : List Char) (h : '/' ∉ c) : splitSlash c = [c] := by
  induction c with
  | nil => rfl
  | cons x xs ih =>
    have hx : x ≠ '/' := fun e => h (by simp [e])
    have hxs : '/' ∉ xs := fun e => h (by simp [e])
    simp [splitSlash, hx, ih hxs]

theorem splitSlash_mem_noslash (s : List Char) : ∀ c ∈ splitSlash s, '/' ∉ c := by
  induction s with
  | nil => simp [splitSlash]
  | cons x xs ih =>
    by_cases hx : x = '/'
    · subst hx; simpa [splitSlash] using ih
    · simp only [splitSlash, hx, if_false]
      cases h : splitSlash xs with
      | nil => exact absurd h (splitSlash_ne_nil xs)
      | cons y ys =>
        rw [h] at ih
        intro c hc
        simp only [List.mem_cons] at hc
        rcases hc with rfl | hc
        · have := ih y (by simp)
          simp only [List.mem_cons, not_or]
          exact ⟨fun e => hx e.symm, this⟩
        · exact ih c (by simp [hc])

theorem joinSlash_cons_cons (a b : List Char) (r : List (List Char)) :
    joinSlash (a :: b :: r) = a ++ '/' :: joinSlash (b :: r) := rfl

theorem joinSlash_append_single (init : List (List Char)) (c : List Char) (h : init ≠ []) :
    joinSlash (init ++ [c]) = joinSlash init ++ '/' :: c := by
  induction init with
  | nil => exact absurd rfl h
  | cons a r ih =>
    cases r with
    | nil => simp [joinSlash]
    | cons b r' =>
      have := ih (by simp)
      simp only [List.cons_append] at this ⊢
      rw [joinSlash_cons_cons, this, joinSlash_cons_cons]
      simp

theorem joinSlash_append (xs ys : List (List Char)) (hx : xs ≠ []) (hy : ys ≠ []) :
    joinSlash (xs ++ ys) = joinSlash xs ++ '/' :: joinSlash ys := by
  induction xs with
  | nil => exact absurd rfl hx
  | cons a r ih =>
    cases r with
    | nil =>
      cases ys with
      | nil => exact absurd rfl hy
      | cons y ys' => simp [joinSlash]
    | cons b r' =>
      have := ih (by simp)
      simp only [List.cons_append] at this ⊢
      rw [joinSlash_cons_cons, this, joinSlash_cons_cons]
      simp

/-- non-empty and free of `/` -/
def SlashFreeNE (c : List Char) : Prop := c ≠ [] ∧ '/' ∉ c

theorem splitSlash_joinSlash (cs : List (List Char)) (hne : cs ≠ []) (h : ∀ c ∈ cs, '/' ∉ c) :
    splitSlash (joinSlash cs) = cs := by
  induction cs with
  | nil => exact absurd rfl hne
  | cons a r ih =>
    cases r with
    | nil => simpa [joinSlash] using splitSlash_noslash a (h a (by simp))
    | cons b r' =>
      rw [joinSlash_cons_cons, splitSlash_append_slash, splitSlash_noslash a (h a (by simp)),
        ih (by simp) (fun c hc => h c (by simp [hc]))]
      simp

theorem joinSlash_head_ne_slash (cs : List (List Char)) (h : ∀ c ∈ cs, SlashFreeNE c) :
    (joinSlash cs).head? ≠ some '/' := by
  cases cs with
  | nil => simp [joinSlash]
  | cons a r =>
    have ha := h a (by simp)
    obtain ⟨hne, hns⟩ := ha
    cases a with
    | nil => exact absurd rfl hne
    | cons x xs =>
      have hx : x ≠ '/' := fun e => hns (by simp [e])
      cases r with
      | nil => simpa [joinSlash] using hx
      | cons b r' => simpa [joinSlash] using hx

theorem joinSlash_eq_nil (cs : List (List Char)) (h : ∀ c ∈ cs, SlashFreeNE c) :
    joinSlash cs = [] ↔ cs = [] := by
  cases cs with
  | nil => simp [joinSlash]
  | cons a r =>
    have ha := (h a (by simp)).1
    cases r with
    | nil => simpa [joinSlash] using ha
    | cons b r' => simp [joinSlash, ha]

theorem splitSlash_replicate_append (k : Nat) (r : List Char) :
    splitSlash (List.replicate k '/' ++ r) = List.replicate k [] ++ splitSlash r := by
  induction k with
  | zero => simp
  | succ n ih => simp [List.replicate_succ, splitSlash_cons_slash, ih]

/-! ## initial slashes -/

theorem initialSlashes_le (s : List Char) : initialSlashes s = 0 ∨ initialSlashes s = 1 ∨ initialSlashes s = 2 := by
  unfold initialSlashes
  split
  · simp
  · split
    · simp
    · split
      · simp
      · split
        · simp
        · split
          · simp
          · split <;> simp

theorem initialSlashes_pos_iff (s : List Char) : initialSlashes s ≠ 0 ↔ s.head? = some '/' := by
  unfold initialSlashes
  split
  · simp
  · rename_i c0 r
    by_cases h : c0 = '/'
    · subst h
      simp only [ne_eq, not_true_eq_false, if_false, List.head?_cons, iff_true]
      split
      · simp
      · split
        · simp
        · split
          · simp
          · split <;> simp
    · simp [h]

/-- the number of leading slashes kept is read back from `k` slashes followed by something not starting with `/` -/
theorem initialSlashes_render (k : Nat) (hk : k = 0 ∨ k = 1 ∨ k = 2) (r : List Char) (hr : r.head? ≠ some '/') :
    initialSlashes (List.replicate k '/' ++ r) = k := by
  rcases hk with rfl | rfl | rfl
  · cases r with
    | nil => rfl
    | cons x xs =>
      have : x ≠ '/' := by simpa using hr
      simp [initialSlashes, this]
  · cases r with
    | nil => rfl
    | cons x xs =>
      have : x ≠ '/' := by simpa using hr
      simp [initialSlashes, List.replicate, this]
  · cases r with
    | nil => rfl
    | cons x xs =>
      have : x ≠ '/' := by simpa using hr
      simp [initialSlashes, List.replicate, this]

/-! ## the component loop -/

/-- the invariant of `new_comps` (reversed): every element is a clean component, or — relative paths only — a
`..` sitting on nothing but `..`s -/
def GoodStack (abs : Bool) : List (List Char) → Prop
  | [] => True
  | c :: rest => (CleanComp c ∨ (abs = false ∧ c = dotdot ∧ ∀ d ∈ rest, d = dotdot)) ∧ GoodStack abs rest

theorem GoodStack.tail {abs : Bool} {acc : List (List Char)} (h : GoodStack abs acc) : GoodStack abs acc.tail := by
  cases acc with
  | nil => exact h
  | cons c r => exact h.2

theorem GoodStack.of_append {abs : Bool} (a b : List (List Char)) (h : GoodStack abs (a ++ b)) : GoodStack abs b := by
  induction a with
  | nil => exact h
  | cons x xs ih => exact ih h.2

theorem dotdot_not_clean : ¬ CleanComp dotdot := fun h => h.2.2.2 rfl

theorem normLoop_good (abs : Bool) (cs acc : List (List Char)) (hacc : GoodStack abs acc)
    (hcs : ∀ c ∈ cs, '/' ∉ c) : GoodStack abs (normLoop abs acc cs) := by
  induction cs generalizing acc with
  | nil => exact hacc
  | cons c cs ih =>
    have hcs' : ∀ c ∈ cs, '/' ∉ c := fun d hd => hcs d (by simp [hd])
    unfold normLoop
    split
    · exact ih acc hacc hcs'
    · rename_i h1
      have hne : c ≠ [] := fun e => h1 (Or.inl e)
      have hnd : c ≠ dot := fun e => h1 (Or.inr e)
      split
      · rename_i h2
        apply ih _ _ hcs'
        refine ⟨?_, hacc⟩
        by_cases hdd : c = dotdot
        · right
          rcases h2 with h2 | ⟨ha, hnil⟩ | h2
          · exact absurd hdd h2
          · subst hnil; exact ⟨ha, hdd, by simp⟩
          · cases acc with
            | nil => simp at h2
            | cons d rest =>
              simp only [List.head?_cons, Option.some.injEq] at h2
              subst h2
              rcases hacc.1 with hcl | ⟨ha, _, hall⟩
              · exact absurd hcl dotdot_not_clean
              · refine ⟨ha, hdd, ?_⟩
                intro x hx
                simp only [List.mem_cons] at hx
                rcases hx with rfl | hx
                · rfl
                · exact hall x hx
        · left
          exact ⟨hne, hcs c (by simp), hnd, hdd⟩
      · exact ih _ hacc.tail hcs'

/-- on an already normal component list the loop only pushes -/
theorem normLoop_fixed (abs : Bool) (l acc : List (List Char)) (h : GoodStack abs (l.reverse ++ acc)) :
    normLoop abs acc l = l.reverse ++ acc := by
  induction l generalizing acc with
  | nil => simp [normLoop]
  | cons c cs ih =>
    have h' : GoodStack abs (cs.reverse ++ (c :: acc)) := by simpa using h
    have hc := (GoodStack.of_append _ _ h').1
    unfold normLoop
    rcases hc with hcl | ⟨ha, hdd, hall⟩
    · have h1 : ¬ (c = [] ∨ c = dot) := by
        rintro (e | e)
        · exact hcl.1 e
        · exact hcl.2.2.1 e
      rw [if_neg h1, if_pos (Or.inl hcl.2.2.2), ih _ h']
      simp
    · have h1 : ¬ (c = [] ∨ c = dot) := by
        subst hdd
        rintro (e | e)
        · exact absurd e (by decide)
        · exact absurd e (by decide)
      have h2 : c ≠ dotdot ∨ (abs = false ∧ acc = []) ∨ acc.head? = some dotdot := by
        cases acc with
        | nil => exact Or.inr (Or.inl ⟨ha, rfl⟩)
        | cons d rest => exact Or.inr (Or.inr (by simp [hall d (by simp)]))
      rw [if_neg h1, if_pos h2, ih _ h']
      simp

theorem normLoop_skip_empties (abs : Bool) (k : Nat) (acc l : List (List Char)) :
    normLoop abs acc (List.replicate k [] ++ l) = normLoop abs acc l := by
  induction k with
  | zero => simp
  | succ n ih => simp [List.replicate_succ, normLoop, ih]

theorem normLoop_append (abs : Bool) (l1 l2 acc : List (List Char)) :
    normLoop abs acc (l1 ++ l2) = normLoop abs (normLoop abs acc l1) l2 := by
  induction l1 generalizing acc with
  | nil => simp [normLoop]
  | cons c cs ih =>
    simp only [List.cons_append, normLoop]
    split
    · exact ih _
    · split
      · exact ih _
      · exact ih _

theorem GoodStack.slashFree {abs : Bool} {acc : List (List Char)} (h : GoodStack abs acc) :
    ∀ c ∈ acc, SlashFreeNE c := by
  induction acc with
  | nil => simp
  | cons x xs ih =>
    intro c hc
    simp only [List.mem_cons] at hc
    rcases hc with rfl | hc
    · rcases h.1 with hcl | ⟨_, hdd, _⟩
      · exact ⟨hcl.1, hcl.2.1⟩
      · subst hdd; exact ⟨by decide, by decide⟩
    · exact ih h.2 c hc

theorem GoodStack.clean_of_abs {acc : List (List Char)} (h : GoodStack true acc) : Clean acc := by
  induction acc with
  | nil => intro c hc; simp at hc
  | cons x xs ih =>
    intro c hc
    simp only [List.mem_cons] at hc
    rcases hc with rfl | hc
    · rcases h.1 with hcl | ⟨ha, _, _⟩
      · exact hcl
      · exact absurd ha (by simp)
    · exact ih h.2 c hc

theorem goodStack_of_clean (abs : Bool) (acc : List (List Char)) (h : Clean acc) : GoodStack abs acc := by
  induction acc with
  | nil => trivial
  | cons x xs ih => exact ⟨Or.inl (h x (by simp)), ih (fun c hc => h c (by simp [hc]))⟩

theorem Clean.slashFree {cs : List (List Char)} (h : Clean cs) : ∀ c ∈ cs, SlashFreeNE c :=
  fun c hc => ⟨(h c hc).1, (h c hc).2.1⟩

/-! ## normpath: normal forms -/

/-- `k` slashes followed by the joined components, the shape of every `normpath` result but `"."` -/
theorem normpath_of_shape (k : Nat) (hk : k = 0 ∨ k = 1 ∨ k = 2) (cs : List (List Char))
    (hgood : GoodStack (k != 0) cs.reverse) (hne : List.replicate k '/' ++ joinSlash cs ≠ []) :
    normpath (List.replicate k '/' ++ joinSlash cs) = List.replicate k '/' ++ joinSlash cs := by
  have hsf : ∀ c ∈ cs, SlashFreeNE c := fun c hc => hgood.slashFree c (by simpa using hc)
  have hk' : initialSlashes (List.replicate k '/' ++ joinSlash cs) = k :=
    initialSlashes_render k hk _ (joinSlash_head_ne_slash cs hsf)
  unfold normpath
  rw [if_neg hne]
  simp only [hk', splitSlash_replicate_append, normLoop_skip_empties]
  have hloop : normLoop (k != 0) [] (splitSlash (joinSlash cs)) = cs.reverse := by
    by_cases hcs : cs = []
    · subst hcs; simp [joinSlash, splitSlash, normLoop]
    · rw [splitSlash_joinSlash cs hcs (fun c hc => (hsf c hc).2)]
      have := normLoop_fixed (k != 0) cs [] (by simpa using hgood)
      simpa using this
  rw [hloop]
  simp [hne]

theorem normpath_shape (s : List Char) (hs : s ≠ []) :
    ∃ cs, GoodStack (initialSlashes s != 0) cs.reverse ∧
      normpath s = (if List.replicate (initialSlashes s) '/' ++ joinSlash cs = [] then dot
                    else List.replicate (initialSlashes s) '/' ++ joinSlash cs) := by
  refine ⟨(normLoop (initialSlashes s != 0) [] (splitSlash s)).reverse, ?_, ?_⟩
  · simpa using normLoop_good _ (splitSlash s) [] trivial (splitSlash_mem_noslash s)
  · simp [normpath, hs]

theorem normpath_dot : normpath dot = dot := by decide

/-- **`normpath` is idempotent** -/
theorem normpath_idem (s : List Char) : normpath (normpath s) = normpath s := by
  by_cases hs : s = []
  · subst hs
    show normpath (normpath []) = normpath []
    have : normpath [] = dot := by simp [normpath]
    rw [this, normpath_dot]
  · obtain ⟨cs, hgood, heq⟩ := normpath_shape s hs
    rw [heq]
    split
    · exact normpath_dot
    · rename_i hne
      exact normpath_of_shape _ (initialSlashes_le s) cs hgood hne

/-- the structural form of an absolute normalised path is a fixed point of `normpath` -/
theorem normpath_render (k : Nat) (hk : k = 1 ∨ k = 2) (cs : List (List Char)) (hcl : Clean cs) :
    normpath (render k cs) = render k cs := by
  have hk0 : (k != 0) = true := by rcases hk with rfl | rfl <;> rfl
  have hne : List.replicate k '/' ++ joinSlash cs ≠ [] := by
    rcases hk with rfl | rfl <;> simp [List.replicate]
  exact normpath_of_shape k (by omega) cs (by rw [hk0]; exact goodStack_of_clean _ _ (by
    intro c hc; exact hcl c (by simpa using hc))) hne

/-- normalising an absolute path yields the structural form -/
theorem normpath_abs (s : List Char) (h : s.head? = some '/') : AbsNormal (normpath s) := by
  have hs : s ≠ [] := by intro e; simp [e] at h
  have hpos : initialSlashes s ≠ 0 := (initialSlashes_pos_iff s).2 h
  obtain ⟨cs, hgood, heq⟩ := normpath_shape s hs
  have hk : initialSlashes s = 1 ∨ initialSlashes s = 2 := by
    rcases initialSlashes_le s with h0 | h1 | h2
    · exact absurd h0 hpos
    · exact Or.inl h1
    · exact Or.inr h2
  have hb : (initialSlashes s != 0) = true := by simpa using hpos
  rw [hb] at hgood
  refine ⟨initialSlashes s, cs, hk, ?_, ?_⟩
  · intro c hc
    exact hgood.clean_of_abs c (by simpa using hc)
  · rw [heq, if_neg]
    · rfl
    · rcases hk with h1 | h2
      · rw [h1]; simp [List.replicate]
      · rw [h2]; simp [List.replicate]

/-- components read back from a path: the non-empty pieces between slashes -/
def compsOf (p : Path) : List (List Char) := (splitSlash p).filter (fun c => c ≠ [])

theorem compsOf_render (k : Nat) (cs : List (List Char)) (hcl : Clean cs) : compsOf (render k cs) = cs := by
  unfold compsOf render
  rw [splitSlash_replicate_append]
  by_cases hcs : cs = []
  · subst hcs; simp [joinSlash, splitSlash]
  · rw [splitSlash_joinSlash cs hcs (fun c hc => (hcl c hc).2.1)]
    rw [List.filter_append]
    have h1 : (List.replicate k ([] : List Char)).filter (fun c => decide (c ≠ [])) = [] := by
      simp
    rw [h1]
    simp only [List.nil_append, List.filter_eq_self]
    intro c hc
    simpa using (hcl c hc).1

theorem initialSlashes_render' (k : Nat) (hk : k = 1 ∨ k = 2) (cs : List (List Char)) (hcl : Clean cs) :
    initialSlashes (render k cs) = k :=
  initialSlashes_render k (by omega) _ (joinSlash_head_ne_slash cs (Clean.slashFree hcl))

theorem render_inj {k k' : Nat} {cs cs' : List (List Char)} (hk : k = 1 ∨ k = 2) (hk' : k' = 1 ∨ k' = 2)
    (hcl : Clean cs) (hcl' : Clean cs') (h : render k cs = render k' cs') : k = k' ∧ cs = cs' := by
  constructor
  · rw [← initialSlashes_render' k hk cs hcl, ← initialSlashes_render' k' hk' cs' hcl', h]
  · rw [← compsOf_render k cs hcl, ← compsOf_render k' cs' hcl', h]

/-! ## the dict as a list: abstraction to a map -/

/-- the map a contents set denotes -/
def abs (c : CSet) : Map := fun p => lookup c p

/-- `p` is normalised -/
def Normal (p : Path) : Prop := normpath p = p

/-- representation invariant of a contents set: one entry per key, every location normalised
(`fsBase.__init__` normalises; every insertion is keyed by `obj.location`) -/
def WF (c : CSet) : Prop := (c.map (·.loc)).Nodup ∧ ∀ e ∈ c, Normal e.loc

/-- entries handed in as arguments are real `fsBase` objects: their location is normalised -/
def ArgsWF (l : List Arg) : Prop := ∀ e, Arg.ent e ∈ l → Normal e.loc

theorem mkEntry_normal (raw : Path) (k t : Nat) : Normal (mkEntry raw k t).loc := normpath_idem raw

theorem lookup_nil (p : Path) : lookup [] p = none := rfl

theorem lookup_cons (x : Entry) (xs : CSet) (p : Path) :
    lookup (x :: xs) p = if x.loc = p then some x else lookup xs p := by
  simp only [lookup, List.find?_cons]
  by_cases h : x.loc = p <;> simp [h]

theorem lookup_some {c : CSet} {p : Path} {e : Entry} (h : lookup c p = some e) : e ∈ c ∧ e.loc = p := by
  unfold lookup at h
  exact ⟨List.mem_of_find?_eq_some h, by simpa using List.find?_some h⟩

theorem lookup_eq_none {c : CSet} {p : Path} : lookup c p = none ↔ ∀ e ∈ c, e.loc ≠ p := by
  simp [lookup, List.find?_eq_none]

theorem hasKey_iff {c : CSet} {p : Path} : hasKey c p = true ↔ ∃ e ∈ c, e.loc = p := by
  unfold hasKey
  constructor
  · intro h
    obtain ⟨e, he⟩ := Option.isSome_iff_exists.1 h
    exact ⟨e, lookup_some he⟩
  · rintro ⟨e, he, hp⟩
    cases h : lookup c p with
    | none => exact absurd hp (lookup_eq_none.1 h e he)
    | some x => rfl

theorem hasKey_false_iff {c : CSet} {p : Path} : hasKey c p = false ↔ ∀ e ∈ c, e.loc ≠ p := by
  rw [← lookup_eq_none]; unfold hasKey; cases lookup c p <;> simp

theorem lookup_dictSet (c : CSet) (e : Entry) (p : Path) :
    lookup (dictSet c e) p = if p = e.loc then some e else lookup c p := by
  induction c with
  | nil => simp [dictSet, lookup_cons, lookup_nil, eq_comm]
  | cons x xs ih =>
    unfold dictSet
    by_cases hx : x.loc = e.loc
    · rw [if_pos hx, lookup_cons, lookup_cons]
      by_cases hp : p = e.loc
      · simp [hp]
      · have h1 : ¬ e.loc = p := fun h => hp h.symm
        have h2 : ¬ x.loc = p := fun h => hp (by rw [← h, hx])
        simp [hp, h1, h2]
    · rw [if_neg hx, lookup_cons, ih, lookup_cons]
      by_cases hxp : x.loc = p
      · have : ¬ p = e.loc := fun h => hx (by rw [hxp, h])
        simp [hxp, this]
      · simp [hxp]

theorem lookup_filter (f : Path → Bool) (c : CSet) (p : Path) :
    lookup (c.filter (fun x => f x.loc)) p = if f p then lookup c p else none := by
  induction c with
  | nil => simp [lookup_nil]
  | cons x xs ih =>
    by_cases hfx : f x.loc = true
    · rw [List.filter_cons_of_pos (by simpa using hfx), lookup_cons, lookup_cons, ih]
      by_cases hxp : x.loc = p
      · subst hxp; simp [hfx]
      · simp [hxp]
    · rw [List.filter_cons_of_neg (by simpa using hfx), lookup_cons, ih]
      by_cases hxp : x.loc = p
      · subst hxp; simp [hfx]
      · simp [hxp]

theorem lookup_dictDel (c : CSet) (k p : Path) :
    lookup (dictDel c k) p = if p = k then none else lookup c p := by
  have := lookup_filter (fun q => decide (q ≠ k)) c p
  unfold dictDel
  rw [this]
  by_cases h : p = k <;> simp [h]

theorem lookup_update (c : CSet) (l : List Entry) (p : Path) :
    lookup (update c l) p = Map.insertAll (abs c) l p := by
  induction l generalizing c with
  | nil => rfl
  | cons e es ih =>
    show lookup (update (dictSet c e) es) p = Map.insertAll (Map.insert (abs c) e) es p
    rw [ih]
    congr 1
    funext q
    simp [abs, Map.insert, lookup_dictSet]

theorem abs_update (c : CSet) (l : List Entry) : abs (update c l) = Map.insertAll (abs c) l := by
  funext p; exact lookup_update c l p

theorem abs_ofList (l : List Entry) : abs (ofList l) = Map.ofList l := by
  funext p; exact lookup_update [] l p

/-- later insertions win: the result at `p` is the last entry of `l` located at `p`, else the old value -/
theorem insertAll_cons (m : Map) (e : Entry) (l : List Entry) :
    Map.insertAll m (e :: l) = Map.insertAll (m.insert e) l := rfl

theorem insertAll_apply (m : Map) (l : List Entry) (p : Path) :
    Map.insertAll m l p = (Map.insertAll Map.empty l p).or (m p) := by
  induction l generalizing m with
  | nil => rfl
  | cons e es ih =>
    rw [insertAll_cons, ih, insertAll_cons, ih (Map.insert Map.empty e)]
    cases Map.insertAll Map.empty es p with
    | some x => rfl
    | none =>
      simp only [Map.insert, Map.empty, Option.none_or]
      by_cases hp : p = e.loc <;> simp [hp]

theorem insertAll_none_iff (l : List Entry) (p : Path) :
    Map.insertAll Map.empty l p = none ↔ ∀ e ∈ l, e.loc ≠ p := by
  induction l with
  | nil => simp [Map.insertAll, Map.empty]
  | cons e es ih =>
    rw [insertAll_cons, insertAll_apply]
    cases h : Map.insertAll Map.empty es p with
    | some x =>
      have := (not_congr ih).1 (by simp [h])
      simp only [List.mem_cons, forall_eq_or_imp, Option.some_or]
      constructor
      · intro hh; cases hh
      · intro hh; exact absurd hh.2 this
    | none =>
      have hall := ih.1 h
      simp only [Map.insert, Map.empty, List.mem_cons, forall_eq_or_imp, Option.none_or]
      by_cases hp : p = e.loc
      · simp [hp]
      · simp only [hp, if_false, true_iff]
        exact ⟨fun h => hp h.symm, hall⟩

theorem insertAll_some_loc {l : List Entry} {p : Path} {e : Entry}
    (h : Map.insertAll Map.empty l p = some e) : e ∈ l ∧ e.loc = p := by
  induction l with
  | nil => simp [Map.insertAll, Map.empty] at h
  | cons x xs ih =>
    rw [insertAll_cons, insertAll_apply] at h
    cases hx : Map.insertAll Map.empty xs p with
    | some y =>
      rw [hx] at h
      simp only [Option.some_or, Option.some.injEq] at h
      subst h
      exact ⟨by simp [(ih hx).1], (ih hx).2⟩
    | none =>
      rw [hx] at h
      simp only [Map.insert, Map.empty, Option.none_or] at h
      by_cases hp : p = x.loc
      · simp only [hp, if_true, Option.some.injEq] at h
        subst h
        exact ⟨by simp, hp.symm⟩
      · simp [hp] at h

/-- with one entry per key, "last wins" and "first found" coincide -/
theorem insertAll_nodup (c : CSet) (h : (c.map (·.loc)).Nodup) (p : Path) :
    Map.insertAll Map.empty c p = lookup c p := by
  induction c with
  | nil => rfl
  | cons x xs ih =>
    have hnd : (xs.map (·.loc)).Nodup := (List.nodup_cons.1 (by simpa using h)).2
    have hx : x.loc ∉ xs.map (·.loc) := (List.nodup_cons.1 (by simpa using h)).1
    rw [insertAll_cons, insertAll_apply, ih hnd, lookup_cons]
    by_cases hp : x.loc = p
    · subst hp
      have : lookup xs x.loc = none := lookup_eq_none.2 (fun e he hh => hx (by
        simp only [List.mem_map]; exact ⟨e, he, hh⟩))
      simp [this, Map.insert]
    · have hp' : ¬ p = x.loc := fun h => hp h.symm
      cases lookup xs p <;> simp [hp, hp', Map.insert, Map.empty]

theorem abs_update_nil (c : CSet) (h : (c.map (·.loc)).Nodup) : abs (update [] c) = abs c := by
  funext p
  rw [abs_update]
  show Map.insertAll (abs []) c p = lookup c p
  rw [← insertAll_nodup c h p]
  rfl

/-! ### keys, Nodup and normalisation are preserved -/

theorem keys_dictSet (c : CSet) (e : Entry) :
    (dictSet c e).map (·.loc) = if e.loc ∈ c.map (·.loc) then c.map (·.loc) else c.map (·.loc) ++ [e.loc] := by
  induction c with
  | nil => simp [dictSet]
  | cons x xs ih =>
    unfold dictSet
    by_cases hx : x.loc = e.loc
    · simp [hx]
    · have hx' : ¬ e.loc = x.loc := fun h => hx h.symm
      rw [if_neg hx]
      simp only [List.map_cons, ih, List.mem_cons, hx', false_or]
      split <;> simp

theorem mem_dictSet {c : CSet} {e x : Entry} (h : x ∈ dictSet c e) : x = e ∨ x ∈ c := by
  induction c with
  | nil => simpa [dictSet] using h
  | cons y ys ih =>
    unfold dictSet at h
    split at h
    · simp only [List.mem_cons] at h
      rcases h with h | h
      · exact Or.inl h
      · exact Or.inr (by simp [h])
    · simp only [List.mem_cons] at h
      rcases h with h | h
      · exact Or.inr (by simp [h])
      · rcases ih h with h | h
        · exact Or.inl h
        · exact Or.inr (by simp [h])

theorem WF_nil : WF [] := ⟨by simp, by simp⟩

theorem WF_dictSet {c : CSet} {e : Entry} (h : WF c) (he : Normal e.loc) : WF (dictSet c e) := by
  constructor
  · rw [keys_dictSet]
    split
    · exact h.1
    · rename_i hn
      exact List.nodup_append.2 ⟨h.1, by simp, by
        intro a ha b hb
        simp only [List.mem_singleton] at hb
        subst hb
        intro hab; subst hab; exact hn ha⟩
  · intro x hx
    rcases mem_dictSet hx with rfl | hx
    · exact he
    · exact h.2 x hx

theorem WF_filter {c : CSet} (f : Entry → Bool) (h : WF c) : WF (c.filter f) := by
  constructor
  · exact List.Nodup.sublist (List.Sublist.map _ List.filter_sublist) h.1
  · intro e he
    exact h.2 e (List.mem_filter.1 he).1

theorem WF_dictDel {c : CSet} (k : Path) (h : WF c) : WF (dictDel c k) := WF_filter _ h

theorem WF_update {c : CSet} {l : List Entry} (h : WF c) (hl : ∀ e ∈ l, Normal e.loc) : WF (update c l) := by
  induction l generalizing c with
  | nil => exact h
  | cons e es ih =>
    exact ih (WF_dictSet h (hl e (by simp))) (fun x hx => hl x (by simp [hx]))

theorem WF_foldl_dictDel {c : CSet} (l : List Entry) (h : WF c) :
    WF (l.foldl (fun (c : CSet) (x : Entry) => dictDel c x.loc) c) := by
  induction l generalizing c with
  | nil => exact h
  | cons e es ih => exact ih (WF_dictDel _ h)

theorem lookup_foldl_dictDel (l : List Entry) (c : CSet) (p : Path) :
    lookup (l.foldl (fun (c : CSet) (x : Entry) => dictDel c x.loc) c) p =
      if p ∈ l.map (·.loc) then none else lookup c p := by
  induction l generalizing c with
  | nil => simp
  | cons e es ih =>
    simp only [List.foldl_cons, ih, lookup_dictDel, List.map_cons, List.mem_cons]
    by_cases h1 : p ∈ es.map (·.loc)
    · simp [h1]
    · by_cases h2 : p = e.loc <;> simp [h1, h2]

/-! ### the argument of a set operation -/

theorem view_cons_eq {a : Arg} (as : List Arg) {p : Path} (hk : key a = p) :
    view (a :: as) p = (view as p).or (some a.entry?) := by
  simp [view, hk]

theorem view_cons_ne {a : Arg} (as : List Arg) {p : Path} (hk : key a ≠ p) :
    view (a :: as) p = view as p := by
  simp [view, hk]

theorem view_isSome_iff (l : List Arg) (p : Path) : (view l p).isSome = true ↔ ∃ a ∈ l, key a = p := by
  induction l with
  | nil => simp [view]
  | cons a as ih =>
    by_cases hk : key a = p
    · rw [view_cons_eq as hk]
      constructor
      · intro _; exact ⟨a, by simp, hk⟩
      · intro _; cases view as p <;> rfl
    · rw [view_cons_ne as hk, ih]
      constructor
      · rintro ⟨b, hb, hkb⟩; exact ⟨b, by simp [hb], hkb⟩
      · rintro ⟨b, hb, hkb⟩
        rcases List.mem_cons.1 hb with rfl | hb
        · exact absurd hkb hk
        · exact ⟨b, hb, hkb⟩

theorem key_eq_keyOf (a : Arg) : key a = keyOf a := by cases a <;> rfl

theorem named_iff (o : Other) (p : Path) : named o p = true ↔ ∃ a ∈ o.args, keyOf a = p := by
  unfold named
  rw [view_isSome_iff]
  simp [key_eq_keyOf]

/-- the model's membership test on the converted argument is the specification's "names `p`" — for a normalised
probe `p` (the model normalises the probe again when the argument is a contentsSet) -/
theorem otherHas_eq_named (o : Other) (p : Path) (hp : Normal p) : otherHas o p = named o p := by
  rw [Bool.eq_iff_iff, named_iff]
  cases o with
  | cset c =>
    simp only [otherHas, contains, keyOf, Other.args]
    rw [hp, hasKey_iff]
    constructor
    · rintro ⟨e, he, hl⟩
      exact ⟨.ent e, List.mem_map.2 ⟨e, he, rfl⟩, hl⟩
    · rintro ⟨a, ha, hk⟩
      obtain ⟨e, he, rfl⟩ := List.mem_map.1 ha
      exact ⟨e, he, hk⟩
  | items l =>
    simp only [otherHas, convertLoc, Other.args, List.contains_iff_mem, List.mem_map]

/-- a list of entries never records a bare path -/
theorem view_ents_ne (l : List Entry) (p : Path) : view (l.map Arg.ent) p ≠ some none := by
  induction l with
  | nil => simp [view]
  | cons e es ih =>
    simp only [List.map_cons]
    by_cases hk : key (Arg.ent e) = p
    · rw [view_cons_eq _ hk]
      cases h : view (es.map Arg.ent) p with
      | none => simp [Arg.entry?]
      | some v =>
        intro hh
        simp only [Option.some_or, Option.some.injEq] at hh
        subst hh
        exact ih h
    · rw [view_cons_ne _ hk]; exact ih

/-- the view of a list of entries is the map built from them -/
theorem view_ents (l : List Entry) (p : Path) :
    (view (l.map Arg.ent) p).bind id = Map.insertAll Map.empty l p := by
  induction l with
  | nil => rfl
  | cons e es ih =>
    rw [insertAll_cons, insertAll_apply, ← ih]
    simp only [List.map_cons]
    by_cases hk : key (Arg.ent e) = p
    · rw [view_cons_eq _ hk]
      cases h : view (es.map Arg.ent) p with
      | some v =>
        cases v with
        | some x => rfl
        | none => exact absurd h (view_ents_ne es p)
      | none =>
        have : p = e.loc := hk.symm
        simp [Arg.entry?, Map.insert, this]
    · rw [view_cons_ne _ hk]
      have : ¬ p = e.loc := fun h => hk h.symm
      cases h : (view (es.map Arg.ent) p).bind id <;> simp [Map.insert, Map.empty, this]

theorem entries_items_some {l : List Arg} {es : List Entry}
    (h : entriesOf l = some es) : l = es.map Arg.ent := by
  induction l generalizing es with
  | nil =>
    simp only [entriesOf, Option.some.injEq] at h
    subst h; rfl
  | cons a as ih =>
    unfold entriesOf at h
    cases a with
    | path s => simp [Arg.entry?] at h
    | ent e =>
      cases h2 : entriesOf as with
      | none => simp [Arg.entry?, h2] at h
      | some es' =>
        simp only [Arg.entry?, h2, Option.some.injEq] at h
        subst h
        simp [ih h2]

theorem entries_args {o : Other} {es : List Entry} (h : o.entries = some es) : o.args = es.map Arg.ent := by
  cases o with
  | cset c =>
    simp only [Other.entries, Option.some.injEq] at h
    subst h; rfl
  | items l => exact entries_items_some (by simpa [Other.entries, Other.args] using h)

theorem entriesOf_none_iff (l : List Arg) : entriesOf l = none ↔ ¬ ∀ a ∈ l, ∃ e, a = Arg.ent e := by
  induction l with
  | nil => simp [entriesOf]
  | cons a as ih =>
    unfold entriesOf
    cases a with
    | path s =>
      simp only [Arg.entry?, List.mem_cons, true_iff]
      intro h
      obtain ⟨e, he⟩ := h (.path s) (Or.inl rfl)
      cases he
    | ent e =>
      cases h2 : entriesOf as with
      | none =>
        have := ih.1 h2
        simp only [Arg.entry?, List.mem_cons, true_iff]
        intro h
        exact this (fun a ha => h a (Or.inr ha))
      | some es =>
        have hall : ∀ a ∈ as, ∃ e, a = Arg.ent e := by
          apply Classical.byContradiction
          intro hh
          have := ih.2 hh
          rw [h2] at this
          cases this
        simp only [Arg.entry?, reduceCtorEq, false_iff]
        intro hneg
        apply hneg
        intro a ha
        rcases List.mem_cons.1 ha with rfl | ha
        · exact ⟨e, rfl⟩
        · exact hall a ha

theorem entries_none_iff (o : Other) : o.entries = none ↔ ¬ AllEntries o := by
  cases o with
  | cset c =>
    simp only [Other.entries, AllEntries, Other.args, List.mem_map]
    constructor
    · intro h; cases h
    · intro h
      exfalso; apply h
      rintro a ⟨e, _, rfl⟩
      exact ⟨e, rfl⟩
  | items l => exact entriesOf_none_iff l

/-- the map denoted by an all-entries argument -/
theorem argMap_of_entries {o : Other} {es : List Entry} (h : o.entries = some es) :
    argMap o = Map.ofList es := by
  funext p
  simp only [argMap, entries_args h]
  exact view_ents es p

/-! ### intersection -/

theorem hasKey_lookup {c : CSet} {p : Path} (h : hasKey c p = true) : ∃ x, lookup c p = some x :=
  Option.isSome_iff_exists.1 h

theorem lookup_none_of_hasKey_false {c : CSet} {p : Path} (h : hasKey c p = false) : lookup c p = none := by
  unfold hasKey at h
  cases hl : lookup c p with
  | none => rfl
  | some x => simp [hl] at h

theorem interItem_some {c : CSet} {a : Arg} {e : Entry} (h : interItem c a = some e) :
    e.loc = keyOf a ∧ hasKey c (keyOf a) = true ∧ (a.entry?.getD e = e) ∧
      (a.entry? = none → lookup c (keyOf a) = some e) := by
  unfold interItem at h
  by_cases hc : contains c a = true
  · rw [if_pos hc] at h
    cases a with
    | ent x =>
      simp only [Option.some.injEq] at h
      subst h
      exact ⟨rfl, hc, rfl, fun hh => by simp [Arg.entry?] at hh⟩
    | path s =>
      have h' : lookup c (normpath s) = some e := h
      exact ⟨(lookup_some h').2, hc, rfl, fun _ => h'⟩
  · rw [if_neg hc] at h; cases h

theorem interItem_none {c : CSet} {a : Arg} (h : interItem c a = none) : hasKey c (keyOf a) = false := by
  unfold interItem at h
  by_cases hc : contains c a = true
  · rw [if_pos hc] at h
    cases a with
    | ent x => cases h
    | path s =>
      obtain ⟨x, hx⟩ := hasKey_lookup hc
      have h' : lookup c (normpath s) = none := h
      have hx' : lookup c (normpath s) = some x := hx
      rw [h'] at hx'; cases hx'
  · simpa [contains] using hc

theorem interVal_some (x : Entry) (v : Option (Option Entry)) : interVal (some x) v = v.map (·.getD x) := by
  cases v with
  | none => rfl
  | some w => cases w <;> rfl

theorem interVal_none (v : Option (Option Entry)) : interVal none v = none := by
  cases v with
  | none => rfl
  | some w => cases w <;> rfl

theorem insertAll_interItems_absent (c : CSet) (p : Path) (l : List Arg) (m : Map) (h : lookup c p = none) :
    Map.insertAll m (l.filterMap (interItem c)) p = m p := by
  rw [insertAll_apply]
  have : Map.insertAll Map.empty (l.filterMap (interItem c)) p = none := by
    rw [insertAll_none_iff]
    intro e he hep
    obtain ⟨a, _, ha⟩ := List.mem_filterMap.1 he
    obtain ⟨hloc, hk, _, _⟩ := interItem_some ha
    rw [← hloc, hep] at hk
    obtain ⟨x, hx⟩ := hasKey_lookup hk
    rw [h] at hx; cases hx
  rw [this]; rfl

theorem insertAll_interItems_present (c : CSet) (p : Path) (x : Entry) (h : lookup c p = some x)
    (l : List Arg) (m : Map) :
    Map.insertAll m (l.filterMap (interItem c)) p = ((view l p).map (·.getD x)).or (m p) := by
  induction l generalizing m with
  | nil => simp [view, Map.insertAll]
  | cons a as ih =>
    have hkey : key a = keyOf a := key_eq_keyOf a
    rw [List.filterMap_cons]
    cases hi : interItem c a with
    | none =>
      have hk := interItem_none hi
      have hne : key a ≠ p := by
        rw [hkey]; intro hh
        rw [hh] at hk
        have := lookup_none_of_hasKey_false hk
        rw [h] at this; cases this
      simp only [view_cons_ne as hne]
      exact ih m
    | some e =>
      obtain ⟨hloc, _, hent, hpath⟩ := interItem_some hi
      simp only [insertAll_cons]
      rw [ih]
      by_cases hk : key a = p
      · rw [view_cons_eq as hk]
        have hins : Map.insert m e p = some e := by
          have : p = e.loc := by rw [hloc, ← hkey, hk]
          simp [Map.insert, this]
        rw [hins]
        cases hv : view as p with
        | some v => simp
        | none =>
          simp only [Option.map_none, Option.none_or, Option.map_some, Option.some_or, Option.some.injEq]
          cases hea : a.entry? with
          | some y => rw [hea] at hent; simpa using hent.symm
          | none =>
            have := hpath hea
            rw [← hkey, hk, h] at this
            simpa using this.symm
      · rw [view_cons_ne as hk]
        have : ¬ p = e.loc := by rw [hloc, ← hkey]; exact fun hh => hk hh.symm
        simp [Map.insert, this]

end Pkgcore.C22
