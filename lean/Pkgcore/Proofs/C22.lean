import Pkgcore.Spec.C22
/-!
# C22 — helper lemmas (path normal forms, dict lists, relocation, directory completion)
-/
namespace Pkgcore.C22
open Pkgcore.C22.Spec

/-! ## split / join -/

theorem splitSlash_ne_nil (s : List Char) : splitSlash s ≠ [] := by
  cases s with
  | nil => simp [splitSlash]
  | cons c cs =>
    simp only [splitSlash]
    split
    · simp
    · split <;> simp

theorem splitSlash_cons_slash (s : List Char) : splitSlash ('/' :: s) = [] :: splitSlash s := by
  simp [splitSlash]

theorem splitSlash_append_slash (a b : List Char) :
    splitSlash (a ++ '/' :: b) = splitSlash a ++ splitSlash b := by
  induction a with
  | nil => simp [splitSlash]
  | cons c a ih =>
    by_cases hc : c = '/'
    · subst hc; simp [splitSlash, ih]
    · simp only [List.cons_append, splitSlash, hc, if_false, ih]
      cases h : splitSlash a with
      | nil => exact absurd h (splitSlash_ne_nil a)
      | cons x xs => simp

theorem splitSlash_noslash (c : List Char) (h : '/' ∉ c) : splitSlash c = [c] := by
  induction c with
  | nil => rfl
  | cons x xs ih =>
    have hx : x ≠ '/' := fun e => h (by simp [e])
    have hxs : '/' ∉ xs := fun e => h (by simp [e])
    simp [splitSlash, hx, ih hxs]

theorem splitSlash_mem_noslash (s : List Char) : ∀ c ∈ splitSlash s, '/' ∉ c := by
  induction s with
  | nil => simp [splitSlash]
  | cons x xs ih =>
    by_cases hx : x = '/'
    · subst hx; simpa [splitSlash] using ih
    · simp only [splitSlash, hx, if_false]
      cases h : splitSlash xs with
      | nil => exact absurd h (splitSlash_ne_nil xs)
      | cons y ys =>
        rw [h] at ih
        intro c hc
        simp only [List.mem_cons] at hc
        rcases hc with rfl | hc
        · have := ih y (by simp)
          simp only [List.mem_cons, not_or]
          exact ⟨fun e => hx e.symm, this⟩
        · exact ih c (by simp [hc])

theorem joinSlash_cons_cons (a b : List Char) (r : List (List Char)) :
    joinSlash (a :: b :: r) = a ++ '/' :: joinSlash (b :: r) := rfl

theorem joinSlash_append_single (init : List (List Char)) (c : List Char) (h : init ≠ []) :
    joinSlash (init ++ [c]) = joinSlash init ++ '/' :: c := by
  induction init with
  | nil => exact absurd rfl h
  | cons a r ih =>
    cases r with
    | nil => simp [joinSlash]
    | cons b r' =>
      have := ih (by simp)
      simp only [List.cons_append] at this ⊢
      rw [joinSlash_cons_cons, this, joinSlash_cons_cons]
      simp

theorem joinSlash_append (xs ys : List (List Char)) (hx : xs ≠ []) (hy : ys ≠ []) :
    joinSlash (xs ++ ys) = joinSlash xs ++ '/' :: joinSlash ys := by
  induction xs with
  | nil => exact absurd rfl hx
  | cons a r ih =>
    cases r with
    | nil =>
      cases ys with
      | nil => exact absurd rfl hy
      | cons y ys' => simp [joinSlash]
    | cons b r' =>
      have := ih (by simp)
      simp only [List.cons_append] at this ⊢
      rw [joinSlash_cons_cons, this, joinSlash_cons_cons]
      simp

/-- non-empty and free of `/` -/
def SlashFreeNE (c : List Char) : Prop := c ≠ [] ∧ '/' ∉ c

theorem splitSlash_joinSlash (cs : List (List Char)) (hne : cs ≠ []) (h : ∀ c ∈ cs, '/' ∉ c) :
    splitSlash (joinSlash cs) = cs := by
  induction cs with
  | nil => exact absurd rfl hne
  | cons a r ih =>
    cases r with
    | nil => simpa [joinSlash] using splitSlash_noslash a (h a (by simp))
    | cons b r' =>
      rw [joinSlash_cons_cons, splitSlash_append_slash, splitSlash_noslash a (h a (by simp)),
        ih (by simp) (fun c hc => h c (by simp [hc]))]
      simp

theorem joinSlash_head_ne_slash (cs : List (List Char)) (h : ∀ c ∈ cs, SlashFreeNE c) :
    (joinSlash cs).head? ≠ some '/' := by
  cases cs with
  | nil => simp [joinSlash]
  | cons a r =>
    have ha := h a (by simp)
    obtain ⟨hne, hns⟩ := ha
    cases a with
    | nil => exact absurd rfl hne
    | cons x xs =>
      have hx : x ≠ '/' := fun e => hns (by simp [e])
      cases r with
      | nil => simpa [joinSlash] using hx
      | cons b r' => simpa [joinSlash] using hx

theorem joinSlash_eq_nil (cs : List (List Char)) (h : ∀ c ∈ cs, SlashFreeNE c) :
    joinSlash cs = [] ↔ cs = [] := by
  cases cs with
  | nil => simp [joinSlash]
  | cons a r =>
    have ha := (h a (by simp)).1
    cases r with
    | nil => simpa [joinSlash] using ha
    | cons b r' => simp [joinSlash, ha]

theorem splitSlash_replicate_append (k : Nat) (r : List Char) :
    splitSlash (List.replicate k '/' ++ r) = List.replicate k [] ++ splitSlash r := by
  induction k with
  | zero => simp
  | succ n ih => simp [List.replicate_succ, splitSlash_cons_slash, ih]

/-! ## initial slashes -/

theorem initialSlashes_le (s : List Char) : initialSlashes s = 0 ∨ initialSlashes s = 1 ∨ initialSlashes s = 2 := by
  unfold initialSlashes
  split
  · simp
  · split
    · simp
    · split
      · simp
      · split
        · simp
        · split
          · simp
          · split <;> simp

theorem initialSlashes_pos_iff (s : List Char) : initialSlashes s ≠ 0 ↔ s.head? = some '/' := by
  unfold initialSlashes
  split
  · simp
  · rename_i c0 r
    by_cases h : c0 = '/'
    · subst h
      simp only [ne_eq, not_true_eq_false, if_false, List.head?_cons, iff_true]
      split
      · simp
      · split
        · simp
        · split
          · simp
          · split <;> simp
    · simp [h]

/-- the number of leading slashes kept is read back from `k` slashes followed by something not starting with `/` -/
theorem initialSlashes_render (k : Nat) (hk : k = 0 ∨ k = 1 ∨ k = 2) (r : List Char) (hr : r.head? ≠ some '/') :
    initialSlashes (List.replicate k '/' ++ r) = k := by
  rcases hk with rfl | rfl | rfl
  · cases r with
    | nil => rfl
    | cons x xs =>
      have : x ≠ '/' := by simpa using hr
      simp [initialSlashes, this]
  · cases r with
    | nil => rfl
    | cons x xs =>
      have : x ≠ '/' := by simpa using hr
      simp [initialSlashes, List.replicate, this]
  · cases r with
    | nil => rfl
    | cons x xs =>
      have : x ≠ '/' := by simpa using hr
      simp [initialSlashes, List.replicate, this]

/-! ## the component loop -/

/-- the invariant of `new_comps` (reversed): every element is a clean component, or — relative paths only — a
`..` sitting on nothing but `..`s -/
def GoodStack (abs : Bool) : List (List Char) → Prop
  | [] => True
  | c :: rest => (CleanComp c ∨ (abs = false ∧ c = dotdot ∧ ∀ d ∈ rest, d = dotdot)) ∧ GoodStack abs rest

theorem GoodStack.tail {abs : Bool} {acc : List (List Char)} (h : GoodStack abs acc) : GoodStack abs acc.tail := by
  cases acc with
  | nil => exact h
  | cons c r => exact h.2

theorem GoodStack.of_append {abs : Bool} (a b : List (List Char)) (h : GoodStack abs (a ++ b)) : GoodStack abs b := by
  induction a with
  | nil => exact h
  | cons x xs ih => exact ih h.2

theorem dotdot_not_clean : ¬ CleanComp dotdot := fun h => h.2.2.2 rfl

theorem normLoop_good (abs : Bool) (cs acc : List (List Char)) (hacc : GoodStack abs acc)
    (hcs : ∀ c ∈ cs, '/' ∉ c) : GoodStack abs (normLoop abs acc cs) := by
  induction cs generalizing acc with
  | nil => exact hacc
  | cons c cs ih =>
    have hcs' : ∀ c ∈ cs, '/' ∉ c := fun d hd => hcs d (by simp [hd])
    unfold normLoop
    split
    · exact ih acc hacc hcs'
    · rename_i h1
      have hne : c ≠ [] := fun e => h1 (Or.inl e)
      have hnd : c ≠ dot := fun e => h1 (Or.inr e)
      split
      · rename_i h2
        apply ih _ _ hcs'
        refine ⟨?_, hacc⟩
        by_cases hdd : c = dotdot
        · right
          rcases h2 with h2 | ⟨ha, hnil⟩ | h2
          · exact absurd hdd h2
          · subst hnil; exact ⟨ha, hdd, by simp⟩
          · cases acc with
            | nil => simp at h2
            | cons d rest =>
              simp only [List.head?_cons, Option.some.injEq] at h2
              subst h2
              rcases hacc.1 with hcl | ⟨ha, _, hall⟩
              · exact absurd hcl dotdot_not_clean
              · refine ⟨ha, hdd, ?_⟩
                intro x hx
                simp only [List.mem_cons] at hx
                rcases hx with rfl | hx
                · rfl
                · exact hall x hx
        · left
          exact ⟨hne, hcs c (by simp), hnd, hdd⟩
      · exact ih _ hacc.tail hcs'

/-- on an already normal component list the loop only pushes -/
theorem normLoop_fixed (abs : Bool) (l acc : List (List Char)) (h : GoodStack abs (l.reverse ++ acc)) :
    normLoop abs acc l = l.reverse ++ acc := by
  induction l generalizing acc with
  | nil => simp [normLoop]
  | cons c cs ih =>
    have h' : GoodStack abs (cs.reverse ++ (c :: acc)) := by simpa using h
    have hc := (GoodStack.of_append _ _ h').1
    unfold normLoop
    rcases hc with hcl | ⟨ha, hdd, hall⟩
    · have h1 : ¬ (c = [] ∨ c = dot) := by
        rintro (e | e)
        · exact hcl.1 e
        · exact hcl.2.2.1 e
      rw [if_neg h1, if_pos (Or.inl hcl.2.2.2), ih _ h']
      simp
    · have h1 : ¬ (c = [] ∨ c = dot) := by
        subst hdd
        rintro (e | e)
        · exact absurd e (by decide)
        · exact absurd e (by decide)
      have h2 : c ≠ dotdot ∨ (abs = false ∧ acc = []) ∨ acc.head? = some dotdot := by
        cases acc with
        | nil => exact Or.inr (Or.inl ⟨ha, rfl⟩)
        | cons d rest => exact Or.inr (Or.inr (by simp [hall d (by simp)]))
      rw [if_neg h1, if_pos h2, ih _ h']
      simp

theorem normLoop_skip_empties (abs : Bool) (k : Nat) (acc l : List (List Char)) :
    normLoop abs acc (List.replicate k [] ++ l) = normLoop abs acc l := by
  induction k with
  | zero => simp
  | succ n ih => simp [List.replicate_succ, normLoop, ih]

theorem normLoop_append (abs : Bool) (l1 l2 acc : List (List Char)) :
    normLoop abs acc (l1 ++ l2) = normLoop abs (normLoop abs acc l1) l2 := by
  induction l1 generalizing acc with
  | nil => simp [normLoop]
  | cons c cs ih =>
    simp only [List.cons_append, normLoop]
    split
    · exact ih _
    · split
      · exact ih _
      · exact ih _

theorem GoodStack.slashFree {abs : Bool} {acc : List (List Char)} (h : GoodStack abs acc) :
    ∀ c ∈ acc, SlashFreeNE c := by
  induction acc with
  | nil => simp
  | cons x xs ih =>
    intro c hc
    simp only [List.mem_cons] at hc
    rcases hc with rfl | hc
    · rcases h.1 with hcl | ⟨_, hdd, _⟩
      · exact ⟨hcl.1, hcl.2.1⟩
      · subst hdd; exact ⟨by decide, by decide⟩
    · exact ih h.2 c hc

theorem GoodStack.clean_of_abs {acc : List (List Char)} (h : GoodStack true acc) : Clean acc := by
  induction acc with
  | nil => intro c hc; simp at hc
  | cons x xs ih =>
    intro c hc
    simp only [List.mem_cons] at hc
    rcases hc with rfl | hc
    · rcases h.1 with hcl | ⟨ha, _, _⟩
      · exact hcl
      · exact absurd ha (by simp)
    · exact ih h.2 c hc

theorem goodStack_of_clean (abs : Bool) (acc : List (List Char)) (h : Clean acc) : GoodStack abs acc := by
  induction acc with
  | nil => trivial
  | cons x xs ih => exact ⟨Or.inl (h x (by simp)), ih (fun c hc => h c (by simp [hc]))⟩

theorem Clean.slashFree {cs : List (List Char)} (h : Clean cs) : ∀ c ∈ cs, SlashFreeNE c :=
  fun c hc => ⟨(h c hc).1, (h c hc).2.1⟩

/-! ## normpath: normal forms -/

/-- `k` slashes followed by the joined components, the shape of every `normpath` result but `"."` -/
theorem normpath_of_shape (k : Nat) (hk : k = 0 ∨ k = 1 ∨ k = 2) (cs : List (List Char))
    (hgood : GoodStack (k != 0) cs.reverse) (hne : List.replicate k '/' ++ joinSlash cs ≠ []) :
    normpath (List.replicate k '/' ++ joinSlash cs) = List.replicate k '/' ++ joinSlash cs := by
  have hsf : ∀ c ∈ cs, SlashFreeNE c := fun c hc => hgood.slashFree c (by simpa using hc)
  have hk' : initialSlashes (List.replicate k '/' ++ joinSlash cs) = k :=
    initialSlashes_render k hk _ (joinSlash_head_ne_slash cs hsf)
  unfold normpath
  rw [if_neg hne]
  simp only [hk', splitSlash_replicate_append, normLoop_skip_empties]
  have hloop : normLoop (k != 0) [] (splitSlash (joinSlash cs)) = cs.reverse := by
    by_cases hcs : cs = []
    · subst hcs; simp [joinSlash, splitSlash, normLoop]
    · rw [splitSlash_joinSlash cs hcs (fun c hc => (hsf c hc).2)]
      have := normLoop_fixed (k != 0) cs [] (by simpa using hgood)
      simpa using this
  rw [hloop]
  simp [hne]

theorem normpath_shape (s : List Char) (hs : s ≠ []) :
    ∃ cs, GoodStack (initialSlashes s != 0) cs.reverse ∧
      normpath s = (if List.replicate (initialSlashes s) '/' ++ joinSlash cs = [] then dot
                    else List.replicate (initialSlashes s) '/' ++ joinSlash cs) := by
  refine ⟨(normLoop (initialSlashes s != 0) [] (splitSlash s)).reverse, ?_, ?_⟩
  · simpa using normLoop_good _ (splitSlash s) [] trivial (splitSlash_mem_noslash s)
  · simp [normpath, hs]

theorem normpath_dot : normpath dot = dot := by decide

/-- **`normpath` is idempotent** -/
theorem normpath_idem (s : List Char) : normpath (normpath s) = normpath s := by
  by_cases hs : s = []
  · subst hs
    show normpath (normpath []) = normpath []
    have : normpath [] = dot := by simp [normpath]
    rw [this, normpath_dot]
  · obtain ⟨cs, hgood, heq⟩ := normpath_shape s hs
    rw [heq]
    split
    · exact normpath_dot
    · rename_i hne
      exact normpath_of_shape _ (initialSlashes_le s) cs hgood hne

/-- the structural form of an absolute normalised path is a fixed point of `normpath` -/
theorem normpath_render (k : Nat) (hk : k = 1 ∨ k = 2) (cs : List (List Char)) (hcl : Clean cs) :
    normpath (render k cs) = render k cs := by
  have hk0 : (k != 0) = true := by rcases hk with rfl | rfl <;> rfl
  have hne : List.replicate k '/' ++ joinSlash cs ≠ [] := by
    rcases hk with rfl | rfl <;> simp [List.replicate]
  exact normpath_of_shape k (by omega) cs (by rw [hk0]; exact goodStack_of_clean _ _ (by
    intro c hc; exact hcl c (by simpa using hc))) hne

/-- normalising an absolute path yields the structural form -/
theorem normpath_abs (s : List Char) (h : s.head? = some '/') : AbsNormal (normpath s) := by
  have hs : s ≠ [] := by intro e; simp [e] at h
  have hpos : initialSlashes s ≠ 0 := (initialSlashes_pos_iff s).2 h
  obtain ⟨cs, hgood, heq⟩ := normpath_shape s hs
  have hk : initialSlashes s = 1 ∨ initialSlashes s = 2 := by
    rcases initialSlashes_le s with h0 | h1 | h2
    · exact absurd h0 hpos
    · exact Or.inl h1
    · exact Or.inr h2
  have hb : (initialSlashes s != 0) = true := by simpa using hpos
  rw [hb] at hgood
  refine ⟨initialSlashes s, cs, hk, ?_, ?_⟩
  · intro c hc
    exact hgood.clean_of_abs c (by simpa using hc)
  · rw [heq, if_neg]
    · rfl
    · rcases hk with h1 | h2
      · rw [h1]; simp [List.replicate]
      · rw [h2]; simp [List.replicate]

/-- components read back from a path: the non-empty pieces between slashes -/
def compsOf (p : Path) : List (List Char) := (splitSlash p).filter (fun c => c ≠ [])

theorem compsOf_render (k : Nat) (cs : List (List Char)) (hcl : Clean cs) : compsOf (render k cs) = cs := by
  unfold compsOf render
  rw [splitSlash_replicate_append]
  by_cases hcs : cs = []
  · subst hcs; simp [joinSlash, splitSlash]
  · rw [splitSlash_joinSlash cs hcs (fun c hc => (hcl c hc).2.1)]
    rw [List.filter_append]
    have h1 : (List.replicate k ([] : List Char)).filter (fun c => decide (c ≠ [])) = [] := by
      simp
    rw [h1]
    simp only [List.nil_append, List.filter_eq_self]
    intro c hc
    simpa using (hcl c hc).1

theorem initialSlashes_render' (k : Nat) (hk : k = 1 ∨ k = 2) (cs : List (List Char)) (hcl : Clean cs) :
    initialSlashes (render k cs) = k :=
  initialSlashes_render k (by omega) _ (joinSlash_head_ne_slash cs (Clean.slashFree hcl))

theorem render_inj {k k' : Nat} {cs cs' : List (List Char)} (hk : k = 1 ∨ k = 2) (hk' : k' = 1 ∨ k' = 2)
    (hcl : Clean cs) (hcl' : Clean cs') (h : render k cs = render k' cs') : k = k' ∧ cs = cs' := by
  constructor
  · rw [← initialSlashes_render' k hk cs hcl, ← initialSlashes_render' k' hk' cs' hcl', h]
  · rw [← compsOf_render k cs hcl, ← compsOf_render k' cs' hcl', h]

/-! ## the dict as a list: abstraction to a map -/

/-- the map a contents set denotes -/
def abs (c : CSet) : Map := fun p => lookup c p

/-- `p` is normalised -/
def Normal (p : Path) : Prop := normpath p = p

/-- representation invariant of a contents set: one entry per key, every location normalised
(`fsBase.__init__` normalises; every insertion is keyed by `obj.location`) -/
def WF (c : CSet) : Prop := (c.map (·.loc)).Nodup ∧ ∀ e ∈ c, Normal e.loc

/-- entries handed in as arguments are real `fsBase` objects: their location is normalised -/
def ArgsWF (l : List Arg) : Prop := ∀ e, Arg.ent e ∈ l → Normal e.loc

theorem mkEntry_normal (raw : Path) (k t : Nat) : Normal (mkEntry raw k t).loc := normpath_idem raw

theorem lookup_nil (p : Path) : lookup [] p = none := rfl

theorem lookup_cons (x : Entry) (xs : CSet) (p : Path) :
    lookup (x :: xs) p = if x.loc = p then some x else lookup xs p := by
  simp only [lookup, List.find?_cons]
  by_cases h : x.loc = p <;> simp [h]

theorem lookup_some {c : CSet} {p : Path} {e : Entry} (h : lookup c p = some e) : e ∈ c ∧ e.loc = p := by
  unfold lookup at h
  exact ⟨List.mem_of_find?_eq_some h, by simpa using List.find?_some h⟩

theorem lookup_eq_none {c : CSet} {p : Path} : lookup c p = none ↔ ∀ e ∈ c, e.loc ≠ p := by
  simp [lookup, List.find?_eq_none]

theorem hasKey_iff {c : CSet} {p : Path} : hasKey c p = true ↔ ∃ e ∈ c, e.loc = p := by
  unfold hasKey
  constructor
  · intro h
    obtain ⟨e, he⟩ := Option.isSome_iff_exists.1 h
    exact ⟨e, lookup_some he⟩
  · rintro ⟨e, he, hp⟩
    cases h : lookup c p with
    | none => exact absurd hp (lookup_eq_none.1 h e he)
    | some x => rfl

theorem hasKey_false_iff {c : CSet} {p : Path} : hasKey c p = false ↔ ∀ e ∈ c, e.loc ≠ p := by
  rw [← lookup_eq_none]; unfold hasKey; cases lookup c p <;> simp

theorem lookup_dictSet (c : CSet) (e : Entry) (p : Path) :
    lookup (dictSet c e) p = if p = e.loc then some e else lookup c p := by
  induction c with
  | nil => simp [dictSet, lookup_cons, lookup_nil, eq_comm]
  | cons x xs ih =>
    unfold dictSet
    by_cases hx : x.loc = e.loc
    · rw [if_pos hx, lookup_cons, lookup_cons]
      by_cases hp : p = e.loc
      · simp [hp]
      · have h1 : ¬ e.loc = p := fun h => hp h.symm
        have h2 : ¬ x.loc = p := fun h => hp (by rw [← h, hx])
        simp [hp, h1, h2]
    · rw [if_neg hx, lookup_cons, ih, lookup_cons]
      by_cases hxp : x.loc = p
      · have : ¬ p = e.loc := fun h => hx (by rw [hxp, h])
        simp [hxp, this]
      · simp [hxp]

theorem lookup_filter (f : Path → Bool) (c : CSet) (p : Path) :
    lookup (c.filter (fun x => f x.loc)) p = if f p then lookup c p else none := by
  induction c with
  | nil => simp [lookup_nil]
  | cons x xs ih =>
    by_cases hfx : f x.loc = true
    · rw [List.filter_cons_of_pos (by simpa using hfx), lookup_cons, lookup_cons, ih]
      by_cases hxp : x.loc = p
      · subst hxp; simp [hfx]
      · simp [hxp]
    · rw [List.filter_cons_of_neg (by simpa using hfx), lookup_cons, ih]
      by_cases hxp : x.loc = p
      · subst hxp; simp [hfx]
      · simp [hxp]

theorem lookup_dictDel (c : CSet) (k p : Path) :
    lookup (dictDel c k) p = if p = k then none else lookup c p := by
  have := lookup_filter (fun q => decide (q ≠ k)) c p
  unfold dictDel
  rw [this]
  by_cases h : p = k <;> simp [h]

theorem lookup_update (c : CSet) (l : List Entry) (p : Path) :
    lookup (update c l) p = Map.insertAll (abs c) l p := by
  induction l generalizing c with
  | nil => rfl
  | cons e es ih =>
    show lookup (update (dictSet c e) es) p = Map.insertAll (Map.insert (abs c) e) es p
    rw [ih]
    congr 1
    funext q
    simp [abs, Map.insert, lookup_dictSet]

theorem abs_update (c : CSet) (l : List Entry) : abs (update c l) = Map.insertAll (abs c) l := by
  funext p; exact lookup_update c l p

theorem abs_ofList (l : List Entry) : abs (ofList l) = Map.ofList l := by
  funext p; exact lookup_update [] l p

/-- later insertions win: the result at `p` is the last entry of `l` located at `p`, else the old value -/
theorem insertAll_cons (m : Map) (e : Entry) (l : List Entry) :
    Map.insertAll m (e :: l) = Map.insertAll (m.insert e) l := rfl

theorem insertAll_apply (m : Map) (l : List Entry) (p : Path) :
    Map.insertAll m l p = (Map.insertAll Map.empty l p).or (m p) := by
  induction l generalizing m with
  | nil => rfl
  | cons e es ih =>
    rw [insertAll_cons, ih, insertAll_cons, ih (Map.insert Map.empty e)]
    cases Map.insertAll Map.empty es p with
    | some x => rfl
    | none =>
      simp only [Map.insert, Map.empty, Option.none_or]
      by_cases hp : p = e.loc <;> simp [hp]

theorem insertAll_none_iff (l : List Entry) (p : Path) :
    Map.insertAll Map.empty l p = none ↔ ∀ e ∈ l, e.loc ≠ p := by
  induction l with
  | nil => simp [Map.insertAll, Map.empty]
  | cons e es ih =>
    rw [insertAll_cons, insertAll_apply]
    cases h : Map.insertAll Map.empty es p with
    | some x =>
      have := (not_congr ih).1 (by simp [h])
      simp only [List.mem_cons, forall_eq_or_imp, Option.some_or]
      constructor
      · intro hh; cases hh
      · intro hh; exact absurd hh.2 this
    | none =>
      have hall := ih.1 h
      simp only [Map.insert, Map.empty, List.mem_cons, forall_eq_or_imp, Option.none_or]
      by_cases hp : p = e.loc
      · simp [hp]
      · simp only [hp, if_false, true_iff]
        exact ⟨fun h => hp h.symm, hall⟩

theorem insertAll_some_loc {l : List Entry} {p : Path} {e : Entry}
    (h : Map.insertAll Map.empty l p = some e) : e ∈ l ∧ e.loc = p := by
  induction l with
  | nil => simp [Map.insertAll, Map.empty] at h
  | cons x xs ih =>
    rw [insertAll_cons, insertAll_apply] at h
    cases hx : Map.insertAll Map.empty xs p with
    | some y =>
      rw [hx] at h
      simp only [Option.some_or, Option.some.injEq] at h
      subst h
      exact ⟨by simp [(ih hx).1], (ih hx).2⟩
    | none =>
      rw [hx] at h
      simp only [Map.insert, Map.empty, Option.none_or] at h
      by_cases hp : p = x.loc
      · simp only [hp, if_true, Option.some.injEq] at h
        subst h
        exact ⟨by simp, hp.symm⟩
      · simp [hp] at h

/-- with one entry per key, "last wins" and "first found" coincide -/
theorem insertAll_nodup (c : CSet) (h : (c.map (·.loc)).Nodup) (p : Path) :
    Map.insertAll Map.empty c p = lookup c p := by
  induction c with
  | nil => rfl
  | cons x xs ih =>
    have hnd : (xs.map (·.loc)).Nodup := (List.nodup_cons.1 (by simpa using h)).2
    have hx : x.loc ∉ xs.map (·.loc) := (List.nodup_cons.1 (by simpa using h)).1
    rw [insertAll_cons, insertAll_apply, ih hnd, lookup_cons]
    by_cases hp : x.loc = p
    · subst hp
      have : lookup xs x.loc = none := lookup_eq_none.2 (fun e he hh => hx (by
        simp only [List.mem_map]; exact ⟨e, he, hh⟩))
      simp [this, Map.insert]
    · have hp' : ¬ p = x.loc := fun h => hp h.symm
      cases lookup xs p <;> simp [hp, hp', Map.insert, Map.empty]

theorem abs_update_nil (c : CSet) (h : (c.map (·.loc)).Nodup) : abs (update [] c) = abs c := by
  funext p
  rw [abs_update]
  show Map.insertAll (abs []) c p = lookup c p
  rw [← insertAll_nodup c h p]
  rfl

/-! ### keys, Nodup and normalisation are preserved -/

theorem keys_dictSet (c : CSet) (e : Entry) :
    (dictSet c e).map (·.loc) = if e.loc ∈ c.map (·.loc) then c.map (·.loc) else c.map (·.loc) ++ [e.loc] := by
  induction c with
  | nil => simp [dictSet]
  | cons x xs ih =>
    unfold dictSet
    by_cases hx : x.loc = e.loc
    · simp [hx]
    · have hx' : ¬ e.loc = x.loc := fun h => hx h.symm
      rw [if_neg hx]
      simp only [List.map_cons, ih, List.mem_cons, hx', false_or]
      split <;> simp

theorem mem_dictSet {c : CSet} {e x : Entry} (h : x ∈ dictSet c e) : x = e ∨ x ∈ c := by
  induction c with
  | nil => simpa [dictSet] using h
  | cons y ys ih =>
    unfold dictSet at h
    split at h
    · simp only [List.mem_cons] at h
      rcases h with h | h
      · exact Or.inl h
      · exact Or.inr (by simp [h])
    · simp only [List.mem_cons] at h
      rcases h with h | h
      · exact Or.inr (by simp [h])
      · rcases ih h with h | h
        · exact Or.inl h
        · exact Or.inr (by simp [h])

theorem WF_nil : WF [] := ⟨by simp, by simp⟩

theorem WF_dictSet {c : CSet} {e : Entry} (h : WF c) (he : Normal e.loc) : WF (dictSet c e) := by
  constructor
  · rw [keys_dictSet]
    split
    · exact h.1
    · rename_i hn
      exact List.nodup_append.2 ⟨h.1, by simp, by
        intro a ha b hb
        simp only [List.mem_singleton] at hb
        subst hb
        intro hab; subst hab; exact hn ha⟩
  · intro x hx
    rcases mem_dictSet hx with rfl | hx
    · exact he
    · exact h.2 x hx

theorem WF_filter {c : CSet} (f : Entry → Bool) (h : WF c) : WF (c.filter f) := by
  constructor
  · exact List.Nodup.sublist (List.Sublist.map _ List.filter_sublist) h.1
  · intro e he
    exact h.2 e (List.mem_filter.1 he).1

theorem WF_dictDel {c : CSet} (k : Path) (h : WF c) : WF (dictDel c k) := WF_filter _ h

theorem WF_update {c : CSet} {l : List Entry} (h : WF c) (hl : ∀ e ∈ l, Normal e.loc) : WF (update c l) := by
  induction l generalizing c with
  | nil => exact h
  | cons e es ih =>
    exact ih (WF_dictSet h (hl e (by simp))) (fun x hx => hl x (by simp [hx]))

theorem WF_foldl_dictDel {c : CSet} (l : List Entry) (h : WF c) :
    WF (l.foldl (fun (c : CSet) (x : Entry) => dictDel c x.loc) c) := by
  induction l generalizing c with
  | nil => exact h
  | cons e es ih => exact ih (WF_dictDel _ h)

theorem lookup_foldl_dictDel (l : List Entry) (c : CSet) (p : Path) :
    lookup (l.foldl (fun (c : CSet) (x : Entry) => dictDel c x.loc) c) p =
      if p ∈ l.map (·.loc) then none else lookup c p := by
  induction l generalizing c with
  | nil => simp
  | cons e es ih =>
    simp only [List.foldl_cons, ih, lookup_dictDel, List.map_cons, List.mem_cons]
    by_cases h1 : p ∈ es.map (·.loc)
    · simp [h1]
    · by_cases h2 : p = e.loc <;> simp [h1, h2]

/-! ### the argument of a set operation -/

theorem view_cons_eq {a : Arg} (as : List Arg) {p : Path} (hk : key a = p) :
    view (a :: as) p = (view as p).or (some a.entry?) := by
  simp [view, hk]

theorem view_cons_ne {a : Arg} (as : List Arg) {p : Path} (hk : key a ≠ p) :
    view (a :: as) p = view as p := by
  simp [view, hk]

theorem view_isSome_iff (l : List Arg) (p : Path) : (view l p).isSome = true ↔ ∃ a ∈ l, key a = p := by
  induction l with
  | nil => simp [view]
  | cons a as ih =>
    by_cases hk : key a = p
    · rw [view_cons_eq as hk]
      constructor
      · intro _; exact ⟨a, by simp, hk⟩
      · intro _; cases view as p <;> rfl
    · rw [view_cons_ne as hk, ih]
      constructor
      · rintro ⟨b, hb, hkb⟩; exact ⟨b, by simp [hb], hkb⟩
      · rintro ⟨b, hb, hkb⟩
        rcases List.mem_cons.1 hb with rfl | hb
        · exact absurd hkb hk
        · exact ⟨b, hb, hkb⟩

theorem key_eq_keyOf (a : Arg) : key a = keyOf a := by cases a <;> rfl

theorem named_iff (o : Other) (p : Path) : named o p = true ↔ ∃ a ∈ o.args, keyOf a = p := by
  unfold named
  rw [view_isSome_iff]
  simp [key_eq_keyOf]

/-- the model's membership test on the converted argument is the specification's "names `p`" — for a normalised
probe `p` (the model normalises the probe again when the argument is a contentsSet) -/
theorem otherHas_eq_named (o : Other) (p : Path) (hp : Normal p) : otherHas o p = named o p := by
  rw [Bool.eq_iff_iff, named_iff]
  cases o with
  | cset c =>
    simp only [otherHas, contains, keyOf, Other.args]
    rw [hp, hasKey_iff]
    constructor
    · rintro ⟨e, he, hl⟩
      exact ⟨.ent e, List.mem_map.2 ⟨e, he, rfl⟩, hl⟩
    · rintro ⟨a, ha, hk⟩
      obtain ⟨e, he, rfl⟩ := List.mem_map.1 ha
      exact ⟨e, he, hk⟩
  | items l =>
    simp only [otherHas, convertLoc, Other.args, List.contains_iff_mem, List.mem_map]

/-- a list of entries never records a bare path -/
theorem view_ents_ne (l : List Entry) (p : Path) : view (l.map Arg.ent) p ≠ some none := by
  induction l with
  | nil => simp [view]
  | cons e es ih =>
    simp only [List.map_cons]
    by_cases hk : key (Arg.ent e) = p
    · rw [view_cons_eq _ hk]
      cases h : view (es.map Arg.ent) p with
      | none => simp [Arg.entry?]
      | some v =>
        intro hh
        simp only [Option.some_or, Option.some.injEq] at hh
        subst hh
        exact ih h
    · rw [view_cons_ne _ hk]; exact ih

/-- the view of a list of entries is the map built from them -/
theorem view_ents (l : List Entry) (p : Path) :
    (view (l.map Arg.ent) p).bind id = Map.insertAll Map.empty l p := by
  induction l with
  | nil => rfl
  | cons e es ih =>
    rw [insertAll_cons, insertAll_apply, ← ih]
    simp only [List.map_cons]
    by_cases hk : key (Arg.ent e) = p
    · rw [view_cons_eq _ hk]
      cases h : view (es.map Arg.ent) p with
      | some v =>
        cases v with
        | some x => rfl
        | none => exact absurd h (view_ents_ne es p)
      | none =>
        have : p = e.loc := hk.symm
        simp [Arg.entry?, Map.insert, this]
    · rw [view_cons_ne _ hk]
      have : ¬ p = e.loc := fun h => hk h.symm
      cases h : (view (es.map Arg.ent) p).bind id <;> simp [Map.insert, Map.empty, this]

theorem entries_items_some {l : List Arg} {es : List Entry}
    (h : entriesOf l = some es) : l = es.map Arg.ent := by
  induction l generalizing es with
  | nil =>
    simp only [entriesOf, Option.some.injEq] at h
    subst h; rfl
  | cons a as ih =>
    unfold entriesOf at h
    cases a with
    | path s => simp [Arg.entry?] at h
    | ent e =>
      cases h2 : entriesOf as with
      | none => simp [Arg.entry?, h2] at h
      | some es' =>
        simp only [Arg.entry?, h2, Option.some.injEq] at h
        subst h
        simp [ih h2]

theorem entries_args {o : Other} {es : List Entry} (h : o.entries = some es) : o.args = es.map Arg.ent := by
  cases o with
  | cset c =>
    simp only [Other.entries, Option.some.injEq] at h
    subst h; rfl
  | items l => exact entries_items_some (by simpa [Other.entries, Other.args] using h)

theorem entriesOf_none_iff (l : List Arg) : entriesOf l = none ↔ ¬ ∀ a ∈ l, ∃ e, a = Arg.ent e := by
  induction l with
  | nil => simp [entriesOf]
  | cons a as ih =>
    unfold entriesOf
    cases a with
    | path s =>
      simp only [Arg.entry?, List.mem_cons, true_iff]
      intro h
      obtain ⟨e, he⟩ := h (.path s) (Or.inl rfl)
      cases he
    | ent e =>
      cases h2 : entriesOf as with
      | none =>
        have := ih.1 h2
        simp only [Arg.entry?, List.mem_cons, true_iff]
        intro h
        exact this (fun a ha => h a (Or.inr ha))
      | some es =>
        have hall : ∀ a ∈ as, ∃ e, a = Arg.ent e := by
          apply Classical.byContradiction
          intro hh
          have := ih.2 hh
          rw [h2] at this
          cases this
        simp only [Arg.entry?, reduceCtorEq, false_iff]
        intro hneg
        apply hneg
        intro a ha
        rcases List.mem_cons.1 ha with rfl | ha
        · exact ⟨e, rfl⟩
        · exact hall a ha

theorem entries_none_iff (o : Other) : o.entries = none ↔ ¬ AllEntries o := by
  cases o with
  | cset c =>
    simp only [Other.entries, AllEntries, Other.args, List.mem_map]
    constructor
    · intro h; cases h
    · intro h
      exfalso; apply h
      rintro a ⟨e, _, rfl⟩
      exact ⟨e, rfl⟩
  | items l => exact entriesOf_none_iff l

/-- the map denoted by an all-entries argument -/
theorem argMap_of_entries {o : Other} {es : List Entry} (h : o.entries = some es) :
    argMap o = Map.ofList es := by
  funext p
  simp only [argMap, entries_args h]
  exact view_ents es p

/-! ### intersection -/

theorem hasKey_lookup {c : CSet} {p : Path} (h : hasKey c p = true) : ∃ x, lookup c p = some x :=
  Option.isSome_iff_exists.1 h

theorem lookup_none_of_hasKey_false {c : CSet} {p : Path} (h : hasKey c p = false) : lookup c p = none := by
  unfold hasKey at h
  cases hl : lookup c p with
  | none => rfl
  | some x => simp [hl] at h

theorem interItem_some {c : CSet} {a : Arg} {e : Entry} (h : interItem c a = some e) :
    e.loc = keyOf a ∧ hasKey c (keyOf a) = true ∧ (a.entry?.getD e = e) ∧
      (a.entry? = none → lookup c (keyOf a) = some e) := by
  unfold interItem at h
  by_cases hc : contains c a = true
  · rw [if_pos hc] at h
    cases a with
    | ent x =>
      simp only [Option.some.injEq] at h
      subst h
      exact ⟨rfl, hc, rfl, fun hh => by simp [Arg.entry?] at hh⟩
    | path s =>
      have h' : lookup c (normpath s) = some e := h
      exact ⟨(lookup_some h').2, hc, rfl, fun _ => h'⟩
  · rw [if_neg hc] at h; cases h

theorem interItem_none {c : CSet} {a : Arg} (h : interItem c a = none) : hasKey c (keyOf a) = false := by
  unfold interItem at h
  by_cases hc : contains c a = true
  · rw [if_pos hc] at h
    cases a with
    | ent x => cases h
    | path s =>
      obtain ⟨x, hx⟩ := hasKey_lookup hc
      have h' : lookup c (normpath s) = none := h
      have hx' : lookup c (normpath s) = some x := hx
      rw [h'] at hx'; cases hx'
  · simpa [contains] using hc

theorem interVal_some (x : Entry) (v : Option (Option Entry)) : interVal (some x) v = v.map (·.getD x) := by
  cases v with
  | none => rfl
  | some w => cases w <;> rfl

theorem interVal_none (v : Option (Option Entry)) : interVal none v = none := by
  cases v with
  | none => rfl
  | some w => cases w <;> rfl

theorem insertAll_interItems_absent (c : CSet) (p : Path) (l : List Arg) (m : Map) (h : lookup c p = none) :
    Map.insertAll m (l.filterMap (interItem c)) p = m p := by
  rw [insertAll_apply]
  have : Map.insertAll Map.empty (l.filterMap (interItem c)) p = none := by
    rw [insertAll_none_iff]
    intro e he hep
    obtain ⟨a, _, ha⟩ := List.mem_filterMap.1 he
    obtain ⟨hloc, hk, _, _⟩ := interItem_some ha
    rw [← hloc, hep] at hk
    obtain ⟨x, hx⟩ := hasKey_lookup hk
    rw [h] at hx; cases hx
  rw [this]; rfl

theorem insertAll_interItems_present (c : CSet) (p : Path) (x : Entry) (h : lookup c p = some x)
    (l : List Arg) (m : Map) :
    Map.insertAll m (l.filterMap (interItem c)) p = ((view l p).map (·.getD x)).or (m p) := by
  induction l generalizing m with
  | nil => simp [view, Map.insertAll]
  | cons a as ih =>
    have hkey : key a = keyOf a := key_eq_keyOf a
    rw [List.filterMap_cons]
    cases hi : interItem c a with
    | none =>
      have hk := interItem_none hi
      have hne : key a ≠ p := by
        rw [hkey]; intro hh
        rw [hh] at hk
        have := lookup_none_of_hasKey_false hk
        rw [h] at this; cases this
      simp only [view_cons_ne as hne]
      exact ih m
    | some e =>
      obtain ⟨hloc, _, hent, hpath⟩ := interItem_some hi
      simp only [insertAll_cons]
      rw [ih]
      by_cases hk : key a = p
      · rw [view_cons_eq as hk]
        have hins : Map.insert m e p = some e := by
          have : p = e.loc := by rw [hloc, ← hkey, hk]
          simp [Map.insert, this]
        rw [hins]
        cases hv : view as p with
        | some v => simp
        | none =>
          simp only [Option.map_none, Option.none_or, Option.map_some, Option.some_or, Option.some.injEq]
          cases hea : a.entry? with
          | some y => rw [hea] at hent; simpa using hent.symm
          | none =>
            have := hpath hea
            rw [← hkey, hk, h] at this
            simpa using this.symm
      · rw [view_cons_ne as hk]
        have : ¬ p = e.loc := by rw [hloc, ← hkey]; exact fun hh => hk hh.symm
        simp [Map.insert, this]

/-! ## relocation -/

theorem rstripSlash_replicate (k : Nat) : rstripSlash (List.replicate k '/') = [] := by
  induction k with
  | zero => rfl
  | succ n ih => simp [List.replicate_succ, rstripSlash, ih]

theorem rstripSlash_append_ne (s : List Char) (x : Char) (hx : x ≠ '/') : rstripSlash (s ++ [x]) = s ++ [x] := by
  induction s with
  | nil => simp [rstripSlash, hx]
  | cons c cs ih =>
    simp only [List.cons_append, rstripSlash, ih]
    simp

theorem rstripSlash_append_slash (s : List Char) : rstripSlash (s ++ ['/']) = rstripSlash s := by
  induction s with
  | nil => simp [rstripSlash]
  | cons c cs ih => simp only [List.cons_append, rstripSlash, ih]

theorem lstripSlash_of_head (s : List Char) (h : s.head? ≠ some '/') : lstripSlash s = s := by
  cases s with
  | nil => rfl
  | cons c cs =>
    have : c ≠ '/' := by simpa using h
    simp [lstripSlash, this]

theorem lstripSlash_replicate_append (k : Nat) (s : List Char) :
    lstripSlash (List.replicate k '/' ++ s) = lstripSlash s := by
  induction k with
  | zero => simp
  | succ n ih => simp [List.replicate_succ, lstripSlash, ih]

/-- the joined components end in a non-slash character -/
theorem joinSlash_eq_append_last (cs : List (List Char)) (hne : cs ≠ []) (h : ∀ c ∈ cs, SlashFreeNE c) :
    ∃ s x, joinSlash cs = s ++ [x] ∧ x ≠ '/' := by
  induction cs with
  | nil => exact absurd rfl hne
  | cons a r ih =>
    cases r with
    | nil =>
      obtain ⟨hane, hasl⟩ := h a (by simp)
      refine ⟨a.dropLast, a.getLast hane, by simp [joinSlash, List.dropLast_concat_getLast], ?_⟩
      intro hx
      exact hasl (hx ▸ List.getLast_mem hane)
    | cons b r' =>
      obtain ⟨s, x, hs, hx⟩ := ih (by simp) (fun c hc => h c (by simp [hc]))
      exact ⟨a ++ '/' :: s, x, by rw [joinSlash_cons_cons, hs]; simp, hx⟩

theorem render_nil (k : Nat) : render k [] = List.replicate k '/' := by simp [render, joinSlash]

theorem render_append (k : Nat) (cs0 rel : List (List Char)) (h0 : cs0 ≠ []) (hr : rel ≠ []) :
    render k (cs0 ++ rel) = render k cs0 ++ '/' :: joinSlash rel := by
  simp [render, joinSlash_append cs0 rel h0 hr]

theorem rstripSlash_render (k : Nat) (cs : List (List Char)) (hcl : Clean cs) :
    rstripSlash (render k cs) = if cs = [] then [] else render k cs := by
  by_cases hcs : cs = []
  · subst hcs; simp [render_nil, rstripSlash_replicate]
  · rw [if_neg hcs]
    obtain ⟨s, x, hs, hx⟩ := joinSlash_eq_append_last cs hcs (Clean.slashFree hcl)
    have : render k cs = (List.replicate k '/' ++ s) ++ [x] := by simp [render, hs]
    rw [this, rstripSlash_append_ne _ _ hx]

/-- the part of a location that `change_offset_rewriter` keeps: drop the old offset, strip the slashes -/
theorem strip_old_prefix (k : Nat) (cs0 rel : List (List Char)) (hcl0 : Clean cs0) (hrel : Clean rel) :
    lstripSlash ((render k (cs0 ++ rel)).drop (rstripSlash (render k cs0)).length) = joinSlash rel := by
  have hhead := joinSlash_head_ne_slash rel (Clean.slashFree hrel)
  rw [rstripSlash_render k cs0 hcl0]
  by_cases h0 : cs0 = []
  · subst h0
    simp only [if_true, List.length_nil, List.drop_zero, List.nil_append]
    rw [render, lstripSlash_replicate_append, lstripSlash_of_head _ hhead]
  · rw [if_neg h0]
    by_cases hr : rel = []
    · subst hr
      simp [joinSlash, lstripSlash]
    · rw [render_append k cs0 rel h0 hr, List.drop_left]
      simp [lstripSlash, lstripSlash_of_head _ hhead]

theorem initialSlashes_congr3 (c0 c1 c2 : Char) (t u : List Char) :
    initialSlashes (c0 :: c1 :: c2 :: t) = initialSlashes (c0 :: c1 :: c2 :: u) := rfl

theorem initialSlashes_congr2 (c0 c1 : Char) (t u : List Char) (h : c1 ≠ '/') :
    initialSlashes (c0 :: c1 :: t) = initialSlashes (c0 :: c1 :: u) := by
  simp [initialSlashes, h]

/-- appending after a trailing slash something that does not start with a slash keeps `initial_slashes` -/
theorem initialSlashes_append_of_trailing (a b : List Char) (ha : a.head? = some '/')
    (hl : a.getLast? = some '/') (hb : b.head? ≠ some '/') : initialSlashes (a ++ b) = initialSlashes a := by
  match a, ha, hl with
  | [c0], ha, _ =>
    have : c0 = '/' := by simpa using ha
    subst this
    cases b with
    | nil => rfl
    | cons y ys =>
      have : y ≠ '/' := by simpa using hb
      simp [initialSlashes, this]
  | [c0, c1], ha, hl =>
    have h0 : c0 = '/' := by simpa using ha
    have h1 : c1 = '/' := by simpa using hl
    subst h0 h1
    cases b with
    | nil => rfl
    | cons y ys =>
      have : y ≠ '/' := by simpa using hb
      simp [initialSlashes, this]
  | c0 :: c1 :: c2 :: t, _, _ => exact initialSlashes_congr3 c0 c1 c2 _ _

/-- appending `/…` to something that does not end in a slash keeps `initial_slashes` -/
theorem initialSlashes_append_slash (a b : List Char) (ha : a.head? = some '/')
    (hl : a.getLast? ≠ some '/') : initialSlashes (a ++ '/' :: b) = initialSlashes a := by
  match a, ha, hl with
  | [c0], ha, hl =>
    have : c0 = '/' := by simpa using ha
    subst this
    simp at hl
  | [c0, c1], _, hl =>
    have h1 : c1 ≠ '/' := by simpa using hl
    exact initialSlashes_congr2 c0 c1 _ _ h1
  | c0 :: c1 :: c2 :: t, _, _ => exact initialSlashes_congr3 c0 c1 c2 _ _

theorem goodStack_append_clean (abs : Bool) (a b : List (List Char)) (ha : Clean a) (hb : GoodStack abs b) :
    GoodStack abs (a ++ b) := by
  induction a with
  | nil => exact hb
  | cons x xs ih => exact ⟨Or.inl (ha x (by simp)), ih (fun c hc => ha c (by simp [hc]))⟩

/-- how `normpath` reads an absolute path back: the root and the clean components -/
theorem normpath_abs_eq (s : List Char) (h : s.head? = some '/') :
    GoodStack true (normLoop true [] (splitSlash s)) ∧
      normpath s = render (initialSlashes s) (normLoop true [] (splitSlash s)).reverse ∧
      (initialSlashes s = 1 ∨ initialSlashes s = 2) := by
  have hs : s ≠ [] := by intro e; simp [e] at h
  have hpos : initialSlashes s ≠ 0 := (initialSlashes_pos_iff s).2 h
  have hk : initialSlashes s = 1 ∨ initialSlashes s = 2 := by
    rcases initialSlashes_le s with h0 | h1 | h2
    · exact absurd h0 hpos
    · exact Or.inl h1
    · exact Or.inr h2
  have hb : (initialSlashes s != 0) = true := by simpa using hpos
  refine ⟨normLoop_good true _ [] trivial (splitSlash_mem_noslash s), ?_, hk⟩
  unfold normpath
  rw [if_neg hs]
  simp only [hb, render]
  rw [if_neg]
  rcases hk with h1 | h2
  · rw [h1]; simp [List.replicate]
  · rw [h2]; simp [List.replicate]

/-- normalising `join(new, rel-path)`: the components of `new` followed by those of the relative part -/
theorem normpath_pjoin (new : Path) (rel : List (List Char)) (hnew : new.head? = some '/') (hrel : Clean rel) :
    normpath (pjoin new (joinSlash rel)) =
      render (initialSlashes new) ((normLoop true [] (splitSlash new)).reverse ++ rel) := by
  have hhead := joinSlash_head_ne_slash rel (Clean.slashFree hrel)
  have hne : new ≠ [] := by intro e; simp [e] at hnew
  obtain ⟨hgoodA, _, _⟩ := normpath_abs_eq new hnew
  -- what the component loop does on the relative part, starting from the stack left by `new`
  have hrest : ∀ acc, GoodStack true acc →
      normLoop true acc (splitSlash (joinSlash rel)) = rel.reverse ++ acc := by
    intro acc hacc
    by_cases hr : rel = []
    · subst hr; simp [joinSlash, splitSlash, normLoop]
    · rw [splitSlash_joinSlash rel hr (fun c hc => (hrel c hc).2.1)]
      exact normLoop_fixed true rel acc (goodStack_append_clean true _ _ (by
        intro c hc; exact hrel c (by simpa using hc)) hacc)
  unfold pjoin
  rw [if_neg hhead]
  by_cases hl : new.getLast? = some '/'
  · rw [if_pos (Or.inr hl)]
    -- new = new' ++ "/"
    obtain ⟨new', hn'⟩ : ∃ new', new = new' ++ ['/'] := by
      refine ⟨new.dropLast, ?_⟩
      have h2 := List.getLast?_eq_some_getLast hne
      rw [h2] at hl
      have hl' : new.getLast hne = '/' := by simpa using hl
      have := List.dropLast_concat_getLast (l := new) hne
      rw [hl'] at this
      exact this.symm
    have hX : new ++ joinSlash rel = new' ++ '/' :: joinSlash rel := by rw [hn']; simp
    have hsplitnew : splitSlash new = splitSlash new' ++ [[]] := by
      rw [hn', splitSlash_append_slash]; rfl
    have hA : normLoop true [] (splitSlash new) = normLoop true [] (splitSlash new') := by
      rw [hsplitnew, normLoop_append]; simp [normLoop]
    have habs : (new ++ joinSlash rel).head? = some '/' := by
      cases new with
      | nil => exact absurd rfl hne
      | cons c cs => simpa using hnew
    obtain ⟨_, hnp, _⟩ := normpath_abs_eq (new ++ joinSlash rel) habs
    rw [hnp, initialSlashes_append_of_trailing new _ hnew hl hhead, hX, splitSlash_append_slash,
      normLoop_append, ← hA, hrest _ hgoodA]
    simp
  · have hcond : ¬ (new = [] ∨ new.getLast? = some '/') := by
      rintro (h | h)
      · exact hne h
      · exact hl h
    rw [if_neg hcond]
    have habs : (new ++ '/' :: joinSlash rel).head? = some '/' := by
      cases new with
      | nil => exact absurd rfl hne
      | cons c cs => simpa using hnew
    obtain ⟨_, hnp, _⟩ := normpath_abs_eq (new ++ '/' :: joinSlash rel) habs
    rw [hnp, initialSlashes_append_slash new _ hnew hl, splitSlash_append_slash, normLoop_append,
      hrest _ hgoodA]
    simp

/-- one location through `change_offset_rewriter` -/
theorem rewriteLoc_render (old new : Path) (k : Nat) (cs0 rel : List (List Char))
    (hcl0 : Clean cs0) (hrel : Clean rel)
    (hold : normpath (if old = [] then ['/'] else old) = render k cs0) (hnew : new.head? = some '/') :
    rewriteLoc (offsetLen old) new (render k (cs0 ++ rel)) =
      render (initialSlashes new) ((normLoop true [] (splitSlash new)).reverse ++ rel) := by
  unfold rewriteLoc offsetLen
  rw [hold, strip_old_prefix k cs0 rel hcl0 hrel, normpath_pjoin new rel hnew hrel]

theorem update_nil_of_nodup (l c : CSet) (h : ((c ++ l).map (·.loc)).Nodup) : update c l = c ++ l := by
  induction l generalizing c with
  | nil => simp [update]
  | cons e es ih =>
    have hnot : e.loc ∉ c.map (·.loc) := by
      intro hin
      rw [List.map_append, List.nodup_append] at h
      exact h.2.2 _ hin _ (by simp) rfl
    have hds : dictSet c e = c ++ [e] := by
      clear ih h
      induction c with
      | nil => rfl
      | cons x xs ih2 =>
        have hx : x.loc ≠ e.loc := fun hh => hnot (by simp [hh])
        have : e.loc ∉ xs.map (·.loc) := fun hh => hnot (by simp only [List.map_cons, List.mem_cons]; exact Or.inr hh)
        simp [dictSet, hx, ih2 this]
    show update (dictSet c e) es = c ++ e :: es
    rw [hds, ih (c ++ [e]) (by simpa using h)]
    simp

theorem mapM_some_of_forall {α β : Type} (g : α → Option β) (f : α → β) (l : List α)
    (h : ∀ x ∈ l, g x = some (f x)) : l.mapM g = some (l.map f) := by
  induction l with
  | nil => rfl
  | cons a as ih =>
    rw [List.mapM_cons, h a (by simp), ih (fun x hx => h x (by simp [hx]))]
    rfl

/-! ## dirname -/

theorem headToLastSlash_noslash (c : List Char) (h : '/' ∉ c) : headToLastSlash c = [] := by
  induction c with
  | nil => rfl
  | cons x xs ih =>
    have hx : x ≠ '/' := fun e => h (by simp [e])
    have hxs : '/' ∉ xs := fun e => h (by simp [e])
    simp [headToLastSlash, ih hxs, hx]

theorem headToLastSlash_append_slash (a c : List Char) (h : '/' ∉ c) :
    headToLastSlash (a ++ '/' :: c) = a ++ ['/'] := by
  induction a with
  | nil => simp [headToLastSlash, headToLastSlash_noslash c h]
  | cons x xs ih => simp [headToLastSlash, ih]

theorem headToLastSlash_prefix (p : List Char) : ∃ r, p = headToLastSlash p ++ r := by
  induction p with
  | nil => exact ⟨[], rfl⟩
  | cons x xs ih =>
    obtain ⟨r, hr⟩ := ih
    simp only [headToLastSlash]
    split
    · exact ⟨r, by simp [← hr]⟩
    · split
      · exact ⟨xs, by simp⟩
      · exact ⟨x :: xs, by simp⟩

theorem rstripSlash_prefix (s : List Char) : ∃ r, s = rstripSlash s ++ r := by
  induction s with
  | nil => exact ⟨[], rfl⟩
  | cons x xs ih =>
    obtain ⟨r, hr⟩ := ih
    simp only [rstripSlash]
    split
    · exact ⟨x :: xs, by simp⟩
    · exact ⟨r, by simp [← hr]⟩

theorem dirname_prefix (p : List Char) : ∃ r, p = dirname p ++ r := by
  obtain ⟨r1, h1⟩ := headToLastSlash_prefix p
  unfold dirname
  simp only
  split
  · obtain ⟨r2, h2⟩ := rstripSlash_prefix (headToLastSlash p)
    exact ⟨r2 ++ r1, by rw [← List.append_assoc, ← h2, ← h1]⟩
  · exact ⟨r1, h1⟩

theorem dirname_length_le (p : List Char) : (dirname p).length ≤ p.length := by
  obtain ⟨r, hr⟩ := dirname_prefix p
  have := congrArg List.length hr
  simp at this
  omega

/-- a path `dirname` does not shorten is a fixed point of `dirname` -/
theorem dirname_fixed (p : List Char) (h : ¬ (dirname p).length < p.length) : dirname p = p := by
  obtain ⟨r, hr⟩ := dirname_prefix p
  have hl := congrArg List.length hr
  simp at hl
  have : r = [] := List.eq_nil_of_length_eq_zero (by omega)
  rw [this] at hr
  simpa using hr.symm

theorem dirname_render (k : Nat) (hk : k = 1 ∨ k = 2) (cs : List (List Char)) (hcl : Clean cs) :
    dirname (render k cs) = render k cs.dropLast := by
  by_cases hcs : cs = []
  · subst hcs
    rcases hk with rfl | rfl <;> decide
  · have hsplit := List.dropLast_concat_getLast hcs
    have hcm : cs.getLast hcs ∈ cs := List.getLast_mem hcs
    generalize cs.getLast hcs = c at hsplit hcm
    have hdl : ∀ x ∈ cs.dropLast, x ∈ cs := fun x hx => List.mem_of_mem_take (by rw [← List.dropLast_eq_take]; exact hx)
    generalize cs.dropLast = init at hsplit hdl
    have hcns : '/' ∉ c := (hcl c hcm).2.1
    by_cases hi : init = []
    · -- a single component under the root
      have hcs1 : cs = [c] := by rw [← hsplit, hi]; rfl
      rw [hi, render_nil]
      have hr : render k cs = List.replicate (k - 1) '/' ++ '/' :: c := by
        rw [hcs1]
        rcases hk with rfl | rfl <;> simp [render, joinSlash, List.replicate]
      unfold dirname
      simp only
      rw [hr, headToLastSlash_append_slash _ _ hcns]
      have hall : List.replicate (k - 1) '/' ++ ['/'] = List.replicate k '/' := by
        rcases hk with rfl | rfl <;> rfl
      rw [hall]
      simp
    · have hclinit : Clean init := fun x hx => hcl x (hdl x hx)
      obtain ⟨s, x, hs, hx⟩ := joinSlash_eq_append_last init hi (Clean.slashFree hclinit)
      have hr : render k cs = (List.replicate k '/' ++ joinSlash init) ++ '/' :: c := by
        rw [← hsplit, render, joinSlash_append_single init c hi]; simp
      unfold dirname
      simp only
      rw [hr, headToLastSlash_append_slash _ _ hcns]
      have hnotall : (List.replicate k '/' ++ joinSlash init) ++ ['/'] ≠
          List.replicate ((List.replicate k '/' ++ joinSlash init) ++ ['/']).length '/' := by
        intro heq
        have hmem : x ∈ (List.replicate k '/' ++ joinSlash init) ++ ['/'] := by simp [hs]
        rw [heq] at hmem
        exact hx (List.eq_of_mem_replicate hmem)
      rw [if_pos ⟨by simp, hnotall⟩, rstripSlash_append_slash]
      have : List.replicate k '/' ++ joinSlash init = (List.replicate k '/' ++ s) ++ [x] := by simp [hs]
      rw [this, rstripSlash_append_ne _ _ hx, ← this]
      rfl

/-- `n`-fold parent -/
def up : Nat → Path → Path
  | 0, t => t
  | n + 1, t => dirname (up n t)

theorem up_succ' (n : Nat) (t : Path) : up (n + 1) t = up n (dirname t) := by
  induction n with
  | zero => rfl
  | succ m ih => simp only [up] at ih ⊢; rw [ih]

theorem clean_take {cs : List (List Char)} (h : Clean cs) (n : Nat) : Clean (cs.take n) :=
  fun c hc => h c (List.mem_of_mem_take hc)

theorem up_render (k : Nat) (hk : k = 1 ∨ k = 2) (cs : List (List Char)) (hcl : Clean cs) (j : Nat) :
    up j (render k cs) = render k (cs.take (cs.length - j)) := by
  induction j with
  | zero => simp [up]
  | succ n ih =>
    simp only [up, ih]
    rw [dirname_render k hk _ (clean_take hcl _), List.dropLast_eq_take, List.take_take]
    congr 2
    simp only [List.length_take]
    omega

/-! ## completing directories -/

/-- `t in self` for a path string -/
def inS (c : CSet) (t : Path) : Prop := contains c (.path t) = true

theorem inS_iff_of_normal {c : CSet} {t : Path} (h : Normal t) : inS c t ↔ hasKey c t = true := by
  show hasKey c (normpath t) = true ↔ _
  rw [h]

theorem mem_setAdd {s : List Path} {x y : Path} : x ∈ setAdd s y ↔ x ∈ s ∨ x = y := by
  unfold setAdd
  split
  · rename_i h
    constructor
    · exact Or.inl
    · rintro (h1 | rfl)
      · exact h1
      · exact h
  · simp

theorem climb_mono (c : CSet) (missing : List Path) (t : Path) : ∀ m ∈ missing, m ∈ climb c missing t := by
  fun_induction climb c missing t with
  | case1 missing t h => intro m hm; exact hm
  | case2 missing t h hlt ih => intro m hm; exact ih m (mem_setAdd.2 (Or.inl hm))
  | case3 missing t h hlt => intro m hm; exact mem_setAdd.2 (Or.inl hm)

theorem climb_target (c : CSet) (missing : List Path) (t : Path) : t ∈ climb c missing t ∨ inS c t := by
  fun_induction climb c missing t with
  | case1 missing t h =>
    rcases h with h | h
    · exact Or.inl h
    · exact Or.inr h
  | case2 missing t h hlt ih => exact Or.inl (climb_mono c _ _ t (mem_setAdd.2 (Or.inr rfl)))
  | case3 missing t h hlt => exact Or.inl (mem_setAdd.2 (Or.inr rfl))

theorem climb_sound (c : CSet) (missing : List Path) (t : Path) :
    ∀ x ∈ climb c missing t, x ∈ missing ∨ (¬ inS c x ∧ ∃ j, up j t = x) := by
  fun_induction climb c missing t with
  | case1 missing t h => intro x hx; exact Or.inl hx
  | case2 missing t h hlt ih =>
    intro x hx
    rcases ih x hx with h1 | ⟨hns, j, hj⟩
    · rcases mem_setAdd.1 h1 with h2 | rfl
      · exact Or.inl h2
      · exact Or.inr ⟨fun hh => h (Or.inr hh), 0, rfl⟩
    · exact Or.inr ⟨hns, j + 1, by rw [up_succ']; exact hj⟩
  | case3 missing t h hlt =>
    intro x hx
    rcases mem_setAdd.1 hx with h2 | rfl
    · exact Or.inl h2
    · exact Or.inr ⟨fun hh => h (Or.inr hh), 0, rfl⟩

/-- every path the loop adds has its parent in the result or in the set: the climb goes all the way -/
theorem climb_closed (c : CSet) (missing : List Path) (t : Path) :
    ∀ x ∈ climb c missing t, x ∈ missing ∨ dirname x ∈ climb c missing t ∨ inS c (dirname x) := by
  fun_induction climb c missing t with
  | case1 missing t h => intro x hx; exact Or.inl hx
  | case2 missing t h hlt ih =>
    intro x hx
    rcases ih x hx with h1 | h1
    · rcases mem_setAdd.1 h1 with h2 | rfl
      · exact Or.inl h2
      · exact Or.inr (climb_target c _ (dirname x))
    · exact Or.inr h1
  | case3 missing t h hlt =>
    intro x hx
    rcases mem_setAdd.1 hx with h2 | rfl
    · exact Or.inl h2
    · refine Or.inr (Or.inl ?_)
      rw [dirname_fixed x hlt]
      exact mem_setAdd.2 (Or.inr rfl)

/-- the `for x in missing_initial` loop -/
def climbAll (c : CSet) (l : List Path) (m : List Path) : List Path :=
  l.foldl (fun m x => climb c m (dirname x)) m

theorem climbAll_mono (c : CSet) (l m : List Path) : ∀ x ∈ m, x ∈ climbAll c l m := by
  induction l generalizing m with
  | nil => intro x hx; exact hx
  | cons y ys ih => intro x hx; exact ih _ x (climb_mono c m _ x hx)

theorem climbAll_sound (c : CSet) (l m : List Path) :
    ∀ x ∈ climbAll c l m, x ∈ m ∨ (¬ inS c x ∧ ∃ y ∈ l, ∃ j, up j (dirname y) = x) := by
  induction l generalizing m with
  | nil => intro x hx; exact Or.inl hx
  | cons y ys ih =>
    intro x hx
    rcases ih _ x hx with h1 | ⟨hns, z, hz, j, hj⟩
    · rcases climb_sound c m _ x h1 with h2 | ⟨hns, j, hj⟩
      · exact Or.inl h2
      · exact Or.inr ⟨hns, y, by simp, j, hj⟩
    · exact Or.inr ⟨hns, z, by simp [hz], j, hj⟩

theorem climbAll_closed (c : CSet) (l m : List Path)
    (h : ∀ x ∈ m, x ∈ l ∨ dirname x ∈ m ∨ inS c (dirname x)) :
    ∀ x ∈ climbAll c l m, dirname x ∈ climbAll c l m ∨ inS c (dirname x) := by
  induction l generalizing m with
  | nil =>
    intro x hx
    rcases h x hx with h1 | h1
    · simp at h1
    · exact h1
  | cons y ys ih =>
    apply ih
    intro x hx
    rcases climb_closed c m (dirname y) x hx with h1 | h1
    · rcases h x h1 with h2 | h2 | h2
      · rcases List.mem_cons.1 h2 with rfl | h3
        · exact Or.inr (climb_target c m (dirname x))
        · exact Or.inl h3
      · exact Or.inr (Or.inl (climb_mono c m _ _ h2))
      · exact Or.inr (Or.inr h2)
    · exact Or.inr h1

/-- `{x.dirname for x in self if x.dirname not in self}` -/
def missing0 (c : CSet) : List Path :=
  (c.map fun (x : Entry) => dirname x.loc).foldl (fun s d => if contains c (.path d) then s else setAdd s d) []

theorem mem_missing0 (c : CSet) (x : Path) :
    x ∈ missing0 c ↔ ¬ inS c x ∧ ∃ e ∈ c, dirname e.loc = x := by
  have gen : ∀ (l : List Path) (s : List Path),
      x ∈ l.foldl (fun s d => if contains c (.path d) then s else setAdd s d) s ↔
        x ∈ s ∨ (¬ inS c x ∧ x ∈ l) := by
    intro l
    induction l with
    | nil => intro s; simp
    | cons d ds ih =>
      intro s
      rw [List.foldl_cons, ih]
      by_cases hd : contains c (.path d) = true
      · rw [if_pos hd]
        simp only [List.mem_cons]
        constructor
        · rintro (h | ⟨h1, h2⟩)
          · exact Or.inl h
          · exact Or.inr ⟨h1, Or.inr h2⟩
        · rintro (h | ⟨h1, h2 | h2⟩)
          · exact Or.inl h
          · subst h2; exact absurd hd h1
          · exact Or.inr ⟨h1, h2⟩
      · rw [if_neg hd]
        simp only [mem_setAdd, List.mem_cons]
        constructor
        · rintro ((h | h) | ⟨h1, h2⟩)
          · exact Or.inl h
          · subst h; exact Or.inr ⟨hd, Or.inl rfl⟩
          · exact Or.inr ⟨h1, Or.inr h2⟩
        · rintro (h | ⟨h1, h2 | h2⟩)
          · exact Or.inl (Or.inl h)
          · exact Or.inl (Or.inr h2)
          · exact Or.inr ⟨h1, h2⟩
  unfold missing0
  rw [gen]
  simp only [List.not_mem_nil, false_or, List.mem_map]

theorem addMissingDirectories_eq (c : CSet) (t : Nat) :
    addMissingDirectories c t =
      update c (((climbAll c (missing0 c) (missing0 c)).filter (· ≠ ['/'])).map fun x => mkEntry x kindDir t) := rfl

theorem mem_of_mapM_some {α β : Type} (g : α → Option β) (l : List α) (r : List β) (h : l.mapM g = some r) :
    ∀ x ∈ r, ∃ y ∈ l, g y = some x := by
  induction l generalizing r with
  | nil =>
    simp only [List.mapM_nil, Option.pure_def, Option.some.injEq] at h
    subst h; simp
  | cons a as ih =>
    rw [List.mapM_cons] at h
    cases ha : g a with
    | none => simp [ha] at h
    | some b =>
      cases has : as.mapM g with
      | none => simp [ha, has] at h
      | some bs =>
        simp only [ha, has, Option.pure_def, Option.bind_eq_bind, Option.bind_some, Option.some.injEq] at h
        subst h
        intro x hx
        rcases List.mem_cons.1 hx with rfl | hx
        · exact ⟨a, by simp, ha⟩
        · obtain ⟨y, hy, hg⟩ := ih bs has x hx
          exact ⟨y, by simp [hy], hg⟩

theorem nodup_map_of_injOn {α β : Type} (f : α → β) (l : List α) (h : l.Nodup)
    (hinj : ∀ x ∈ l, ∀ y ∈ l, f x = f y → x = y) : (l.map f).Nodup := by
  induction l with
  | nil => simp
  | cons a as ih =>
    rw [List.map_cons, List.nodup_cons]
    obtain ⟨ha, has⟩ := List.nodup_cons.1 h
    refine ⟨?_, ih has (fun x hx y hy => hinj x (by simp [hx]) y (by simp [hy]))⟩
    intro hmem
    obtain ⟨b, hb, hfb⟩ := List.mem_map.1 hmem
    have := hinj b (by simp [hb]) a (by simp) hfb
    subst this; exact ha hb

end Pkgcore.C22
