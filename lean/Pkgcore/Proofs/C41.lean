import Pkgcore.Spec.C41
/-!
# C41 — the invariant of the transition system
-/
namespace Pkgcore.C41
open Spec

def busyItems {α : Type} (ws : List (WState α)) : List α :=
  ws.filterMap fun w => match w with | .busy x => some x | _ => none

def queueItems {α : Type} (q : List (QItem α)) : List α :=
  q.filterMap fun e => match e with | .item x => some x | .sentinel => none

def doneCount {α : Type} (ws : List (WState α)) : Nat :=
  (ws.filter fun w => match w with | .done => true | _ => false).length

theorem busy_idle_busy {α : Type} (ws : List (WState α)) (w : Nat) (x : α) (h : ws[w]? = some .idle) :
    (busyItems (ws.set w (.busy x))).Perm (x :: busyItems ws) := by
  induction ws generalizing w with
  | nil => simp at h
  | cons a ws ih =>
    cases w with
    | zero =>
      simp only [List.getElem?_cons_zero, Option.some.injEq] at h
      subst h
      simp [busyItems]
    | succ w =>
      simp only [List.getElem?_cons_succ] at h
      have := ih w h
      cases a with
      | busy y =>
        simp only [List.set_cons_succ, busyItems, List.filterMap_cons] at this ⊢
        exact (List.Perm.cons y this).trans (List.Perm.swap x y _)
      | idle => simpa [busyItems] using this
      | done => simpa [busyItems] using this

theorem busy_busy_idle {α : Type} (ws : List (WState α)) (w : Nat) (x : α) (h : ws[w]? = some (.busy x)) :
    (x :: busyItems (ws.set w .idle)).Perm (busyItems ws) := by
  induction ws generalizing w with
  | nil => simp at h
  | cons a ws ih =>
    cases w with
    | zero =>
      simp only [List.getElem?_cons_zero, Option.some.injEq] at h
      subst h
      simp [busyItems]
    | succ w =>
      simp only [List.getElem?_cons_succ] at h
      have := ih w h
      cases a with
      | busy y =>
        simp only [List.set_cons_succ, busyItems, List.filterMap_cons] at this ⊢
        exact (List.Perm.swap y x _).trans (List.Perm.cons y this)
      | idle => simpa [busyItems] using this
      | done => simpa [busyItems] using this

theorem busy_idle_done {α : Type} (ws : List (WState α)) (w : Nat) (h : ws[w]? = some .idle) :
    busyItems (ws.set w .done) = busyItems ws ∧ doneCount (ws.set w .done) = doneCount ws + 1 := by
  induction ws generalizing w with
  | nil => simp at h
  | cons a ws ih =>
    cases w with
    | zero =>
      simp only [List.getElem?_cons_zero, Option.some.injEq] at h
      subst h
      simp [busyItems, doneCount]
    | succ w =>
      simp only [List.getElem?_cons_succ] at h
      have := ih w h
      cases a <;> simp_all [busyItems, doneCount]

theorem done_unchanged {α : Type} (ws : List (WState α)) (w : Nat) (v : WState α)
    (h1 : ∃ u, ws[w]? = some u ∧ u ≠ .done) (hv : v ≠ .done) : doneCount (ws.set w v) = doneCount ws := by
  induction ws generalizing w with
  | nil => simp
  | cons a ws ih =>
    cases w with
    | zero =>
      obtain ⟨u, hu, hne⟩ := h1
      simp only [List.getElem?_cons_zero, Option.some.injEq] at hu
      subst hu
      cases a <;> cases v <;> simp_all [doneCount]
    | succ w =>
      obtain ⟨u, hu, hne⟩ := h1
      simp only [List.getElem?_cons_succ] at hu
      have := ih w ⟨u, hu, hne⟩
      cases a <;> simp_all [doneCount]

theorem flatten_set_append {α : Type} (hs : List (List α)) (w : Nat) (x : α) (hw : w < hs.length) :
    (hs.set w (hs.getD w [] ++ [x])).flatten.Perm (x :: hs.flatten) := by
  induction hs generalizing w with
  | nil => simp at hw
  | cons a hs ih =>
    cases w with
    | zero =>
      simp only [List.set_cons_zero, List.flatten_cons, List.getD_cons_zero]
      rw [List.append_assoc]
      exact (List.perm_middle (l₁ := a) (a := x) (l₂ := hs.flatten))
    | succ w =>
      simp only [List.length_cons, Nat.add_lt_add_iff_right] at hw
      have := ih w hw
      simp only [List.set_cons_succ, List.flatten_cons, List.getD_cons_succ]
      exact (List.Perm.append_left a this).trans List.perm_middle

theorem queueItems_map_item {α : Type} (qi : List α) (k : Nat) :
    queueItems (qi.map QItem.item ++ List.replicate k QItem.sentinel) = qi := by
  induction qi with
  | nil => induction k with
    | zero => rfl
    | succ k ih => simpa [queueItems, List.replicate_succ] using ih
  | cons x qi ih => simpa [queueItems] using ih

/-- the invariant of every reachable state -/
structure Inv {α β : Type} (f : α → List β) (fin : Nat → List α → Option β) (items : List α) (n : Nat) (s : State α β) : Prop where
  lenW : s.workers.length = n
  lenH : s.handled.length = n
  conserve : (handledAll s ++ busyItems s.workers ++ queueItems s.queue ++ s.remaining).Perm items
  fifo : ∃ qi k, s.queue = qi.map .item ++ List.replicate k .sentinel ∧ k + doneCount s.workers + s.sentinelsLeft = n ∧
    (doneCount s.workers > 0 → qi = [])
  lateSentinels : s.sentinelsLeft < n → s.remaining = []
  resultsOk : (∀ w l, fin w l = none) → s.results.Perm ((handledAll s).flatMap f)

theorem doneCount_replicate_idle {α : Type} (n : Nat) : doneCount (List.replicate n (WState.idle : WState α)) = 0 := by
  induction n with
  | zero => rfl
  | succ n ih => simpa [doneCount, List.replicate_succ] using ih

theorem busyItems_replicate_idle {α : Type} (n : Nat) : busyItems (List.replicate n (WState.idle : WState α)) = [] := by
  induction n with
  | zero => rfl
  | succ n ih => simpa [busyItems, List.replicate_succ] using ih

theorem flatten_replicate_nil {α : Type} (n : Nat) : (List.replicate n ([] : List α)).flatten = [] := by
  induction n with
  | zero => rfl
  | succ n ih => simpa [List.replicate_succ] using ih

theorem inv_init {α β : Type} (f : α → List β) (fin : Nat → List α → Option β) (items : List α) (n : Nat) :
    Inv f fin items n (init items n) where
  lenW := by simp [init]
  lenH := by simp [init]
  conserve := by
    simp [init, handledAll, flatten_replicate_nil, busyItems_replicate_idle, queueItems]
  fifo := ⟨[], 0, by simp [init], by simp [init, doneCount_replicate_idle], fun _ => rfl⟩
  lateSentinels := by intro h; simp [init] at h
  resultsOk := by intro _; simp [init, handledAll, flatten_replicate_nil]

theorem queue_head_item {α : Type} {qi : List α} {k : Nat} {x : α} {q : List (QItem α)}
    (h : qi.map QItem.item ++ List.replicate k QItem.sentinel = .item x :: q) :
    ∃ qi', qi = x :: qi' ∧ q = qi'.map QItem.item ++ List.replicate k QItem.sentinel := by
  cases qi with
  | nil =>
    cases k with
    | zero => simp at h
    | succ k => simp [List.replicate_succ] at h
  | cons y qi' =>
    simp only [List.map_cons, List.cons_append, List.cons.injEq, QItem.item.injEq] at h
    exact ⟨qi', by rw [h.1], h.2.symm⟩

theorem queue_head_sentinel {α : Type} {qi : List α} {k : Nat} {q : List (QItem α)}
    (h : qi.map QItem.item ++ List.replicate k QItem.sentinel = .sentinel :: q) :
    qi = [] ∧ ∃ k', k = k' + 1 ∧ q = List.replicate k' QItem.sentinel := by
  cases qi with
  | nil =>
    cases k with
    | zero => simp at h
    | succ k =>
      simp only [List.map_nil, List.nil_append, List.replicate_succ, List.cons.injEq, true_and] at h
      exact ⟨rfl, k, rfl, h.symm⟩
  | cons y qi' => simp at h

theorem inv_step {α β : Type} (f : α → List β) (fin : Nat → List α → Option β) (items : List α) (n : Nat)
    (s s' : State α β) (inv : Inv f fin items n s) (e : Event α) (h : apply f fin s e = some s') :
    Inv f fin items n s' := by
  obtain ⟨qi, k, hq, hcount, hdone⟩ := inv.fifo
  cases e with
  | put =>
    simp only [apply] at h
    cases hr : s.remaining with
    | cons x rest =>
      simp only [hr, Option.some.injEq] at h
      subst h
      have hnot : ¬ s.sentinelsLeft < n := fun hl => by have := inv.lateSentinels hl; rw [hr] at this; cases this
      have hk : k = 0 ∧ doneCount s.workers = 0 := by omega
      refine ⟨inv.lenW, inv.lenH, ?_, ⟨qi ++ [x], 0, ?_, ?_, ?_⟩, ?_, ?_⟩
      · have := inv.conserve
        rw [hr] at this
        simp only [handledAll, queueItems, List.filterMap_append, List.filterMap_cons, List.filterMap_nil] at this ⊢
        simpa [List.append_assoc] using this
      · simp [hq, hk.1]
      · simp only; omega
      · intro hd; simp only at hd; omega
      · intro hl; exact absurd hl hnot
      · exact inv.resultsOk
    | nil =>
      simp only [hr] at h
      cases hs : s.sentinelsLeft with
      | zero => simp [hs] at h
      | succ k' =>
        simp only [hs, Option.some.injEq] at h
        subst h
        refine ⟨inv.lenW, inv.lenH, ?_, ⟨qi, k + 1, ?_, ?_, hdone⟩, ?_, inv.resultsOk⟩
        · have := inv.conserve
          rw [hr] at this
          simp only [handledAll, queueItems, List.filterMap_append, List.filterMap_cons, List.filterMap_nil, List.append_nil] at this ⊢
          exact this
        · simp [hq, List.replicate_succ', List.append_assoc]
        · simp only; omega
        · intro _; rfl
  | get w =>
    simp only [apply] at h
    cases hw : s.workers[w]? with
    | none => simp [hw] at h
    | some ws =>
      cases ws with
      | busy y => simp [hw] at h
      | done => simp [hw] at h
      | idle =>
        cases hqq : s.queue with
        | nil => simp [hw, hqq] at h
        | cons hd q =>
          cases hd with
          | item x =>
            simp only [hw, hqq, Option.some.injEq] at h
            subst h
            rw [hqq] at hq
            obtain ⟨qi', rfl, hq'⟩ := queue_head_item hq.symm
            have hd0 : doneCount s.workers = 0 := by
              cases hdc : doneCount s.workers with
              | zero => rfl
              | succ m => have := hdone (by omega); cases this
            have hdc' : doneCount (s.workers.set w (.busy x)) = doneCount s.workers :=
              done_unchanged s.workers w (.busy x) ⟨.idle, hw, by simp⟩ (by simp)
            refine ⟨by simp [inv.lenW], inv.lenH, ?_, ⟨qi', k, hq', ?_, ?_⟩, inv.lateSentinels, inv.resultsOk⟩
            · have hc := inv.conserve
              rw [hqq] at hc
              simp only [handledAll, queueItems, List.filterMap_cons] at hc ⊢
              have hb := busy_idle_busy s.workers w x hw
              refine List.Perm.trans ?_ hc
              have : ((s.handled.flatten ++ busyItems (s.workers.set w (.busy x))) ++
                  List.filterMap (fun e => match e with | QItem.item x => some x | QItem.sentinel => none) q).Perm
                  ((s.handled.flatten ++ busyItems s.workers) ++ x ::
                  List.filterMap (fun e => match e with | QItem.item x => some x | QItem.sentinel => none) q) := by
                refine List.Perm.trans (List.Perm.append_right _ (List.Perm.append_left _ hb)) ?_
                simp only [List.append_assoc, List.cons_append]
                exact List.Perm.append_left _ (List.perm_middle.symm)
              exact List.Perm.append_right _ this
            · simp only; rw [hdc']; exact hcount
            · intro hd'; simp only at hd'; rw [hdc'] at hd'; omega
          | sentinel =>
            simp only [hw, hqq, Option.some.injEq] at h
            subst h
            rw [hqq] at hq
            obtain ⟨rfl, k', rfl, hq'⟩ := queue_head_sentinel hq.symm
            obtain ⟨hb, hdc⟩ := busy_idle_done s.workers w hw
            refine ⟨by simp [inv.lenW], inv.lenH, ?_, ⟨[], k', by simpa using hq', ?_, fun _ => rfl⟩, inv.lateSentinels, ?_⟩
            · have hc := inv.conserve
              rw [hqq] at hc
              simp only [handledAll, queueItems, List.filterMap_cons] at hc ⊢
              rw [hb]; exact hc
            · simp only; rw [hdc]; omega
            · intro hf
              simp only [hf, Option.toList, List.append_nil]
              exact inv.resultsOk hf
  | finish w =>
    simp only [apply] at h
    cases hw : s.workers[w]? with
    | none => simp [hw] at h
    | some ws =>
      cases ws with
      | idle => simp [hw] at h
      | done => simp [hw] at h
      | busy x =>
        simp only [hw, Option.some.injEq] at h
        subst h
        have hwl : w < s.handled.length := by
          rw [inv.lenH, ← inv.lenW]
          exact (List.getElem?_eq_some_iff.1 hw).1
        have hdc' : doneCount (s.workers.set w .idle) = doneCount s.workers :=
          done_unchanged s.workers w .idle ⟨.busy x, hw, by simp⟩ (by simp)
        have hflat := flatten_set_append s.handled w x hwl
        have hbusy := busy_busy_idle s.workers w x hw
        refine ⟨by simp [inv.lenW], by simp [inv.lenH], ?_, ⟨qi, k, hq, ?_, ?_⟩, inv.lateSentinels, ?_⟩
        · refine List.Perm.trans ?_ inv.conserve
          simp only [handledAll]
          refine List.Perm.append_right _ (List.Perm.append_right _ ?_)
          refine List.Perm.trans (List.Perm.append_right _ hflat) ?_
          simp only [List.cons_append]
          exact (List.perm_middle.symm).trans (List.Perm.append_left _ hbusy)
        · simp only; rw [hdc']; exact hcount
        · intro hd'; simp only at hd'; rw [hdc'] at hd'; exact hdone hd'
        · intro hf
          simp only [handledAll]
          refine List.Perm.trans (List.Perm.append_right _ (inv.resultsOk hf)) ?_
          refine List.Perm.trans ?_ (List.Perm.flatMap_right f hflat.symm)
          simp only [handledAll, List.flatMap_cons]
          exact List.perm_append_comm

theorem inv_reachable {α β : Type} (f : α → List β) (fin : Nat → List α → Option β) (items : List α) (n : Nat)
    (s : State α β) (h : Reachable f fin items n s) : Inv f fin items n s := by
  induction h with
  | start => exact inv_init f fin items n
  | step _ hs ih =>
    obtain ⟨e, he⟩ := hs
    exact inv_step f fin items n _ _ ih e he

theorem all_done {α : Type} (ws : List (WState α)) (h : ∀ w ∈ ws, w = .done) :
    busyItems ws = [] ∧ doneCount ws = ws.length := by
  induction ws with
  | nil => exact ⟨rfl, rfl⟩
  | cons a ws ih =>
    have ha := h a (by simp)
    subst ha
    have := ih (fun w hw => h w (by simp [hw]))
    simp [busyItems, doneCount] at this ⊢
    exact this

theorem doneCount_le {α : Type} (ws : List (WState α)) : doneCount ws ≤ ws.length := by
  unfold doneCount; exact List.length_filter_le _ _

theorem not_all_done {α : Type} (ws : List (WState α)) (h : ¬ ∀ w ∈ ws, w = WState.done) :
    ∃ (i : Nat) (u : WState α), ws[i]? = some u ∧ u ≠ WState.done ∧ doneCount ws < ws.length := by
  induction ws with
  | nil => exact absurd (by intro w hw; cases hw) h
  | cons a ws ih =>
    by_cases ha : a = .done
    · subst ha
      have : ¬ ∀ w ∈ ws, w = .done := by
        intro hall; apply h; intro w hw
        rw [List.mem_cons] at hw
        rcases hw with rfl | hw
        · rfl
        · exact hall w hw
      obtain ⟨i, u, hi, hu, hlt⟩ := ih this
      refine ⟨i + 1, u, by simpa using hi, hu, ?_⟩
      simp [doneCount] at hlt ⊢
      omega
    · refine ⟨0, a, rfl, ha, ?_⟩
      have := doneCount_le ws
      cases a <;> simp_all [doneCount] <;> omega

/-- a measure that every step decreases -/
def measure {α β : Type} (s : State α β) : Nat :=
  3 * (s.remaining.length + s.sentinelsLeft) + 2 * s.queue.length + (busyItems s.workers).length

theorem step_decreases {α β : Type} (f : α → List β) (fin : Nat → List α → Option β) (s s' : State α β) (e : Event α)
    (h : apply f fin s e = some s') : measure s' < measure s := by
  cases e with
  | put =>
    simp only [apply] at h
    cases hr : s.remaining with
    | cons x rest =>
      simp only [hr, Option.some.injEq] at h; subst h
      simp [measure, hr]; omega
    | nil =>
      simp only [hr] at h
      cases hs : s.sentinelsLeft with
      | zero => simp [hs] at h
      | succ k' =>
        simp only [hs, Option.some.injEq] at h; subst h
        simp [measure, hr, hs]; omega
  | get w =>
    simp only [apply] at h
    cases hw : s.workers[w]? with
    | none => simp [hw] at h
    | some ws =>
      cases ws with
      | busy y => simp [hw] at h
      | done => simp [hw] at h
      | idle =>
        cases hqq : s.queue with
        | nil => simp [hw, hqq] at h
        | cons hd q =>
          cases hd with
          | item x =>
            simp only [hw, hqq, Option.some.injEq] at h; subst h
            have := (busy_idle_busy s.workers w x hw).length_eq
            simp [measure, hqq] at this ⊢; omega
          | sentinel =>
            simp only [hw, hqq, Option.some.injEq] at h; subst h
            have := (busy_idle_done s.workers w hw).1
            simp [measure, hqq, this]
  | finish w =>
    simp only [apply] at h
    cases hw : s.workers[w]? with
    | none => simp [hw] at h
    | some ws =>
      cases ws with
      | idle => simp [hw] at h
      | done => simp [hw] at h
      | busy x =>
        simp only [hw, Option.some.injEq] at h; subst h
        have := (busy_busy_idle s.workers w x hw).length_eq
        simp [measure] at this ⊢; omega

/-! ## the kill event and sessions -/

/-- everything the call still knows about: handled, in the hands of a worker, queued, not yet fed -/
def pool {α β : Type} (s : State α β) : List α :=
  handledAll s ++ busyItems s.workers ++ queueItems s.queue ++ s.remaining

theorem queueItems_append_item {α : Type} (q : List (QItem α)) (x : α) :
    queueItems (q ++ [.item x]) = queueItems q ++ [x] := by
  simp [queueItems, List.filterMap_append]

theorem queueItems_append_sentinel {α : Type} (q : List (QItem α)) :
    queueItems (q ++ [.sentinel]) = queueItems q := by
  simp [queueItems, List.filterMap_append]

/-- conservation for one step of the base system (no FIFO shape needed) -/
theorem pool_step {α β : Type} (f : α → List β) (fin : Nat → List α → Option β) (s s' : State α β) (e : Event α)
    (hlen : s.handled.length = s.workers.length) (h : apply f fin s e = some s') :
    (pool s').Perm (pool s) ∧ s'.handled.length = s'.workers.length := by
  cases e with
  | put =>
    simp only [apply] at h
    cases hr : s.remaining with
    | cons x rest =>
      simp only [hr, Option.some.injEq] at h
      subst h
      refine ⟨?_, hlen⟩
      simp only [pool, hr, queueItems_append_item, handledAll]
      simp [List.append_assoc]
    | nil =>
      simp only [hr] at h
      cases hs : s.sentinelsLeft with
      | zero => simp [hs] at h
      | succ k' =>
        simp only [hs, Option.some.injEq] at h
        subst h
        refine ⟨?_, hlen⟩
        simp only [pool, hr, queueItems_append_sentinel, handledAll]
        exact List.Perm.refl _
  | get w =>
    simp only [apply] at h
    cases hw : s.workers[w]? with
    | none => simp [hw] at h
    | some ws =>
      cases ws with
      | busy y => simp [hw] at h
      | done => simp [hw] at h
      | idle =>
        cases hqq : s.queue with
        | nil => simp [hw, hqq] at h
        | cons hd q =>
          cases hd with
          | item x =>
            simp only [hw, hqq, Option.some.injEq] at h
            subst h
            refine ⟨?_, by simpa using hlen⟩
            have hb := busy_idle_busy s.workers w x hw
            simp only [pool, hqq, handledAll, queueItems, List.filterMap_cons]
            refine List.Perm.append_right _ ?_
            refine List.Perm.trans (List.Perm.append_right _ (List.Perm.append_left _ hb)) ?_
            simp only [List.append_assoc, List.cons_append]
            exact List.Perm.append_left _ (List.perm_middle.symm)
          | sentinel =>
            simp only [hw, hqq, Option.some.injEq] at h
            subst h
            refine ⟨?_, by simpa using hlen⟩
            obtain ⟨hb, _⟩ := busy_idle_done s.workers w hw
            simp only [pool, hqq, handledAll, queueItems, List.filterMap_cons, hb]
            exact List.Perm.refl _
  | finish w =>
    simp only [apply] at h
    cases hw : s.workers[w]? with
    | none => simp [hw] at h
    | some ws =>
      cases ws with
      | idle => simp [hw] at h
      | done => simp [hw] at h
      | busy x =>
        simp only [hw, Option.some.injEq] at h
        subst h
        have hwl : w < s.handled.length := by
          rw [hlen]
          exact (List.getElem?_eq_some_iff.1 hw).1
        have hflat := flatten_set_append s.handled w x hwl
        have hbusy := busy_busy_idle s.workers w x hw
        refine ⟨?_, by simpa using hlen⟩
        simp only [pool, handledAll]
        refine List.Perm.append_right _ (List.Perm.append_right _ ?_)
        refine List.Perm.trans (List.Perm.append_right _ hflat) ?_
        simp only [List.cons_append]
        exact (List.perm_middle.symm).trans (List.Perm.append_left _ hbusy)

theorem xinv_reachable {α β : Type} (f : α → List β) (fin : Nat → List α → Option β) (items : List α) (n : Nat)
    (xs : XState α β) (h : XReachable f fin items n xs) :
    (pool xs.base ++ xs.dropped).Perm items ∧ xs.base.handled.length = xs.base.workers.length ∧
      (xs.kill = false → xs.dropped = []) := by
  induction h with
  | start =>
    refine ⟨?_, by simp [xinit, init], fun _ => rfl⟩
    simp [xinit, pool, init, handledAll, busyItems_replicate_idle, queueItems]
  | @step xs xs' _ hs ih =>
    obtain ⟨e, he⟩ := hs
    cases e with
    | base e =>
      simp only [xapply, Option.map_eq_some_iff] at he
      obtain ⟨b, hb, rfl⟩ := he
      obtain ⟨hp, hl⟩ := pool_step f fin xs.base b e ih.2.1 hb
      exact ⟨(List.Perm.append_right _ hp).trans ih.1, hl, ih.2.2⟩
    | raise =>
      simp only [xapply] at he
      split at he
      · rename_i hc
        simp only [Option.some.injEq] at he
        subst he
        refine ⟨?_, ih.2.1, fun hk => by cases hk⟩
        refine List.Perm.trans ?_ ih.1
        rw [ih.2.2 hc.1]
        simp only [pool, handledAll, List.append_nil]
        exact List.Perm.refl _
      · cases he
    | quit w =>
      simp only [xapply] at he
      split at he
      · rename_i hk hw
        simp only [Option.some.injEq] at he
        subst he
        obtain ⟨hb, _⟩ := busy_idle_done xs.base.workers w hw
        refine ⟨?_, by simpa using ih.2.1, ih.2.2⟩
        refine List.Perm.trans ?_ ih.1
        simp only [pool, handledAll, hb]
        exact List.Perm.refl _
      · cases he

/-- as long as the call's kill event is clear the run is a run of the base system and nothing was dropped -/
theorem clean_is_base {α β : Type} (f : α → List β) (fin : Nat → List α → Option β) (items : List α) (n : Nat)
    (xs : XState α β) (h : XReachable f fin items n xs) (hk : xs.kill = false) :
    Reachable f fin items n xs.base ∧ xs.dropped = [] := by
  induction h with
  | start => exact ⟨Reachable.start, rfl⟩
  | @step xs xs' _ hs ih =>
    obtain ⟨e, he⟩ := hs
    cases e with
    | base e =>
      simp only [xapply, Option.map_eq_some_iff] at he
      obtain ⟨b, hb, rfl⟩ := he
      obtain ⟨hr, hd⟩ := ih hk
      exact ⟨Reachable.step hr ⟨e, hb⟩, hd⟩
    | raise =>
      simp only [xapply] at he
      split at he
      · simp only [Option.some.injEq] at he
        subst he
        cases hk
      · cases he
    | quit w =>
      simp only [xapply] at he
      split at he
      · rename_i hk' hw
        simp only [Option.some.injEq] at he
        subst he
        simp only at hk
        rw [hk'] at hk
        cases hk
      · cases he

/-- the states of a call inside a session are the states of that call on its own -/
theorem session_is_call {α β : Type} (f : α → List β) (fin : Nat → List α → Option β) (hist : List (Call α)) (c : Call α)
    (xs : XState α β) (h : SessionReach f fin hist c xs) : XReachable f fin c.items c.n xs := by
  induction h with
  | first c => exact XReachable.start
  | step _ hs ih => exact XReachable.step ih hs
  | next c' _ _ _ => exact XReachable.start

end Pkgcore.C41
