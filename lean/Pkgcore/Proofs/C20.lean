import Pkgcore.Proofs.C18
import Pkgcore.Spec.C20
/-! # C20 — helper lemmas: the two loops of `unmerge_contents`, the order of the directory loop, the engines' csets -/
namespace Pkgcore.C20
open Pkgcore.C18 Pkgcore.C18.Spec Pkgcore.C20.Spec

/-! ## `hasChild` is determined by the view -/

theorem lookup_isSome_of_mem {l : List Dirent} {d : Dirent} (h : d ∈ l) : (lookup l d.1).isSome = true := by
  induction l with
  | nil => cases h
  | cons x t ih =>
    obtain ⟨xp, xv⟩ := x
    simp only [lookup]
    split
    · rfl
    · next hne =>
      rcases List.mem_cons.mp h with h | h
      · subst h; exact absurd rfl hne
      · exact ih h

theorem hasChild_iff {fs : Fs} {p : Path} : fs.hasChild p = true ↔ ∃ n, fs.view (n :: p) ≠ none := by
  unfold Fs.hasChild
  rw [List.any_eq_true]
  constructor
  · rintro ⟨d, hd, hm⟩
    cases hdp : d.1 with
    | nil => rw [hdp] at hm; cases hm
    | cons n q =>
      rw [hdp] at hm
      simp only [decide_eq_true_eq] at hm
      subst hm
      refine ⟨n, ?_⟩
      have := lookup_isSome_of_mem hd
      rw [hdp] at this
      intro h0
      unfold Fs.view at h0
      rw [h0] at this; cases this
  · rintro ⟨n, hn⟩
    cases hv : fs.view (n :: p) with
    | none => exact absurd hv hn
    | some v =>
      have := lookup_some_mem hv
      obtain ⟨d, hd, hdp⟩ := List.mem_map.mp this
      exact ⟨d, hd, by rw [hdp]; simp⟩

/-- a file system that only lost paths has no new children anywhere -/
theorem hasChild_of_shrunk {a b : Fs} (h : ∀ q, b.view q = a.view q ∨ b.view q = none) {p : Path}
    (hc : b.hasChild p = true) : a.hasChild p = true := by
  rw [hasChild_iff] at hc ⊢
  obtain ⟨n, hn⟩ := hc
  refine ⟨n, ?_⟩
  rcases h (n :: p) with h1 | h1
  · rw [← h1]; exact hn
  · exact absurd h1 hn

/-! ## logs -/

/-- every logged call is an `unlink`/`rmdir` of one of the paths `ls` -/
def OnlyRemovals (ls : List Path) (ops : List (Op × Option Errno)) : Prop :=
  ∀ ev ∈ ops, ∃ p ∈ ls, ev.1 = .unlink p ∨ ev.1 = .rmdir p

theorem OnlyRemovals.mono {ls ls' : List Path} {ops : List (Op × Option Errno)} (h : OnlyRemovals ls ops)
    (hs : ∀ p ∈ ls, p ∈ ls') : OnlyRemovals ls' ops := by
  intro ev hev
  obtain ⟨p, hp, h1⟩ := h ev hev
  exact ⟨p, hs p hp, h1⟩

theorem OnlyRemovals.append {ls : List Path} {a b : List (Op × Option Errno)} (ha : OnlyRemovals ls a)
    (hb : OnlyRemovals ls b) : OnlyRemovals ls (a ++ b) := by
  intro ev hev
  rcases List.mem_append.mp hev with h | h
  · exact ha ev h
  · exact hb ev h

theorem unlinkIfExists_log {env : Env} {s s' : St} {p : Path} {r : Except Exc Unit}
    (h : unlinkIfExists env s p = (s', r)) : ∃ e, s'.log = s.log ++ [(.unlink p, e)] := by
  unfold unlinkIfExists at h
  have hl := (St.sys_eq env s (.unlink p)).2
  generalize hs : s.sys env (.unlink p) = x at h hl
  obtain ⟨s1, e⟩ := x
  refine ⟨e, ?_⟩
  cases e with
  | none => simp only [Prod.mk.injEq] at h; rw [← h.1]; exact hl
  | some e => cases e <;> (simp only [Prod.mk.injEq] at h; rw [← h.1]; exact hl)

/-! ## first loop -/

structure NonDirsPost (s s' : St) (xs : List Entry) : Prop where
  view : ∀ q, s'.fs.view q = if q ∈ locs xs then none else s.fs.view q
  log : ∃ ops, s'.log = s.log ++ ops ∧ OnlyRemovals (locs xs) ops

theorem unmergeNonDirs_ok {env : Env} {xs : List Entry} {s s' : St}
    (h : unmergeNonDirs env s xs = (s', .ok ())) : NonDirsPost s s' xs := by
  induction xs generalizing s with
  | nil =>
    simp only [unmergeNonDirs, Prod.mk.injEq, and_true] at h
    subst h
    exact ⟨(fun q => by simp [locs]), [], (by simp), (fun ev hev => by cases hev)⟩
  | cons x xs ih =>
    simp only [unmergeNonDirs] at h
    generalize hu : unlinkIfExists env s x.loc = r at h
    obtain ⟨s1, r1⟩ := r
    cases r1 with
    | error e => simp at h
    | ok u =>
      simp only at h
      obtain ⟨u1, _, _⟩ := unlinkIfExists_ok hu
      obtain ⟨e, hl⟩ := unlinkIfExists_log hu
      obtain ⟨iv, ops, il, io⟩ := ih h
      refine ⟨?_, (.unlink x.loc, e) :: ops, by rw [il, hl]; simp, ?_⟩
      · intro q
        rw [iv q, u1 q]
        simp only [locs, List.map_cons, List.mem_cons]
        by_cases h1 : q ∈ List.map (fun x => x.loc) xs
        · simp [h1]
        · by_cases h2 : q = x.loc <;> simp [h1, h2]
      · intro ev hev
        rcases List.mem_cons.mp hev with h1 | h1
        · subst h1; exact ⟨x.loc, by simp [locs], Or.inl rfl⟩
        · obtain ⟨p, hp, h2⟩ := io ev h1
          exact ⟨p, by simp only [locs, List.map_cons, List.mem_cons]; exact Or.inr hp, h2⟩

/-! ## second loop -/

structure RmdirPost (s s' : St) (p : Path) : Prop where
  off : ∀ q, q ≠ p → s'.fs.view q = s.fs.view q
  here : s'.fs.view p = s.fs.view p ∨ (s'.fs.view p = none ∧ IsDirAt s.fs p ∧ s.fs.hasChild p = false)
  full : IsDirAt s'.fs p → s.fs.hasChild p = true ∨ p = []
  log : ∃ e, s'.log = s.log ++ [(.rmdir p, e)]

theorem rmdirQuiet_ok {env : Env} {s s' : St} {p : Path} (h : rmdirQuiet env s p = (s', .ok ())) : RmdirPost s s' p := by
  unfold rmdirQuiet at h
  have hl := (St.sys_eq env s (.rmdir p)).2
  generalize hs : s.sys env (.rmdir p) = x at h hl
  obtain ⟨s1, e⟩ := x
  cases e with
  | none =>
    simp only [Prod.mk.injEq, and_true] at h
    subst h
    have e1 := (St.sys_ok hs).1
    simp only [step] at e1
    split at e1
    · cases e1
    · next i nd hv =>
      split at e1
      · cases e1
      · next hk =>
        split at e1
        · cases e1
        · split at e1
          · cases e1
          · next hch =>
            injection e1 with e1
            have hk' : nd.kind = .dir := by simpa using hk
            have hv1 : ∀ q, s1.fs.view q = if q = p then none else s.fs.view q := by
              intro q; rw [← e1]; simp
            refine ⟨fun q hq => by rw [hv1, if_neg hq], Or.inr ⟨by rw [hv1]; simp, ⟨i, nd, hv, hk'⟩, by simpa using hch⟩, ?_, _, hl⟩
            rintro ⟨j, nd', h1, _⟩
            rw [hv1, if_pos rfl] at h1; cases h1
  | some e =>
    obtain ⟨e1, e2⟩ := St.sys_err hs
    have hs' : s1 = s' := by
      simp only at h
      split at h
      · simp only [Prod.mk.injEq, and_true] at h; exact h
      · simp at h
    subst hs'
    refine ⟨fun q _ => by rw [e2], Or.inl (by rw [e2]), ?_, _, hl⟩
    rintro ⟨j, nd, h1, h2⟩
    rw [e2] at h1
    simp only [step, h1] at e1
    have : ¬ (nd.kind ≠ .dir) := by simp [h2]
    rw [if_neg this] at e1
    split at e1
    · next hp => exact Or.inr hp
    · split at e1
      · next hc => exact Or.inl hc
      · cases e1

structure DirsPost (s s' : St) (ds : List Entry) : Prop where
  off : ∀ q, q ∉ locs ds → s'.fs.view q = s.fs.view q
  shrink : ∀ q, s'.fs.view q = s.fs.view q ∨ s'.fs.view q = none
  here : ∀ d ∈ ds, DirRemovedOrKept s.fs s'.fs d.loc
  log : ∃ ops, s'.log = s.log ++ ops ∧ OnlyRemovals (locs ds) ops

theorem unmergeDirs_ok {env : Env} {ds : List Entry} {s s' : St} (hnd : (locs ds).Nodup)
    (h : unmergeDirs env s ds = (s', .ok ())) : DirsPost s s' ds := by
  induction ds generalizing s with
  | nil =>
    simp only [unmergeDirs, Prod.mk.injEq, and_true] at h
    subst h
    exact ⟨(fun _ _ => rfl), (fun _ => Or.inl rfl), (fun d hd => by cases hd), [], (by simp), (fun ev hev => by cases hev)⟩
  | cons x xs ih =>
    simp only [unmergeDirs] at h
    generalize hu : rmdirQuiet env s x.loc = r at h
    obtain ⟨s1, r1⟩ := r
    cases r1 with
    | error e => simp at h
    | ok u =>
      simp only at h
      simp only [locs, List.map_cons, List.nodup_cons] at hnd
      obtain ⟨hx, hnd'⟩ := hnd
      have p1 := rmdirQuiet_ok hu
      have p2 := ih hnd' h
      have shrink1 : ∀ q, s1.fs.view q = s.fs.view q ∨ s1.fs.view q = none := by
        intro q
        by_cases hq : q = x.loc
        · rcases p1.here with h1 | ⟨h1, _⟩
          · exact Or.inl (hq ▸ h1)
          · exact Or.inr (hq ▸ h1)
        · exact Or.inl (p1.off q hq)
      have shrink : ∀ q, s'.fs.view q = s.fs.view q ∨ s'.fs.view q = none := by
        intro q
        rcases p2.shrink q with h1 | h1
        · rw [h1]; exact shrink1 q
        · exact Or.inr h1
      obtain ⟨e, hl1⟩ := p1.log
      obtain ⟨ops, hl2, ho⟩ := p2.log
      refine ⟨?_, shrink, ?_, (.rmdir x.loc, e) :: ops, by rw [hl2, hl1]; simp, ?_⟩
      · intro q hq
        simp only [locs, List.map_cons, List.mem_cons, not_or] at hq
        rw [p2.off q hq.2, p1.off q hq.1]
      · intro d hd
        rcases List.mem_cons.mp hd with hd | hd
        · subst hd
          have hsame : s'.fs.view d.loc = s1.fs.view d.loc := p2.off _ hx
          unfold DirRemovedOrKept
          rcases p1.here with h1 | ⟨h1, h2, h3⟩
          · left; rw [hsame, h1]
          · right
            refine ⟨by rw [hsame, h1], h2, ?_⟩
            cases hc : s'.fs.hasChild d.loc with
            | false => rfl
            | true => rw [hasChild_of_shrunk shrink hc] at h3; cases h3
        · have hne : d.loc ≠ x.loc := fun e0 => hx (e0 ▸ List.mem_map_of_mem hd)
          have := p2.here d hd
          unfold DirRemovedOrKept IsDirAt at this ⊢
          rw [p1.off _ hne] at this
          exact this
      · intro ev hev
        rcases List.mem_cons.mp hev with h1 | h1
        · subst h1; exact ⟨x.loc, by simp [locs], Or.inr rfl⟩
        · obtain ⟨p, hp, h2⟩ := ho ev h1
          exact ⟨p, by simp only [locs, List.map_cons, List.mem_cons]; exact Or.inr hp, h2⟩

/-! ## the order of the second loop: a directory is visited after everything below it -/

theorem pathKey_lt_of_properAnc {q p : Path} (h : ProperAnc q p) : pathKey q < pathKey p := by
  obtain ⟨hne, t, ht⟩ := h
  subst ht
  induction t with
  | nil => exact absurd rfl hne
  | cons n t ih =>
    simp only [List.cons_append, pathKey]
    by_cases ht : t = []
    · subst ht
      simp only [List.nil_append]
      exact lt_append_cons _ _ _
    · have := ih (by intro e0; apply ht; simpa using congrArg List.length e0)
      exact List.lt_trans this (lt_append_cons _ _ _)
where
  lt_append_cons (a : List Char) (c : Char) (r : List Char) : a < a ++ c :: r := by
    induction a with
    | nil => exact List.nil_lt_cons c r
    | cons x xs ih => exact List.cons_lt_cons_iff.mpr (Or.inr ⟨rfl, ih⟩)

theorem insertByKey_sorted (x : Entry) (l : List Entry)
    (h : l.Pairwise (fun a b => pathKey a.loc ≤ pathKey b.loc)) :
    (insertByKey x l).Pairwise (fun a b => pathKey a.loc ≤ pathKey b.loc) := by
  induction l with
  | nil => simp [insertByKey]
  | cons y ys ih =>
    simp only [insertByKey]
    rw [List.pairwise_cons] at h
    split
    · next hle =>
      rw [List.pairwise_cons]
      refine ⟨?_, ih h.2⟩
      intro z hz
      rcases List.mem_cons.mp (((insertByKey_perm x ys).mem_iff).mp hz) with h1 | h1
      · subst h1; exact hle
      · exact h.1 z h1
    · next hnle =>
      have hxy : pathKey x.loc ≤ pathKey y.loc := by
        rcases List.le_total (pathKey x.loc) (pathKey y.loc) with h1 | h1
        · exact h1
        · exact absurd h1 hnle
      rw [List.pairwise_cons]
      refine ⟨?_, List.pairwise_cons.mpr h⟩
      intro z hz
      rcases List.mem_cons.mp hz with h1 | h1
      · subst h1; exact hxy
      · exact List.le_trans hxy (h.1 z h1)

theorem sortDirs_sorted (l : List Entry) : (sortDirs l).Pairwise (fun a b => pathKey a.loc ≤ pathKey b.loc) := by
  induction l with
  | nil => simp [sortDirs]
  | cons x xs ih => exact insertByKey_sorted x _ ih

/-- in `sortDirsDesc`, no entry comes before one that lies below it -/
theorem sortDirsDesc_order (l : List Entry) :
    (sortDirsDesc l).Pairwise (fun a b => ¬ ProperAnc a.loc b.loc) := by
  unfold sortDirsDesc
  rw [List.pairwise_reverse]
  refine (sortDirs_sorted l).imp ?_
  intro a b hab hanc
  exact (List.not_le.mpr (pathKey_lt_of_properAnc hanc)) hab

theorem sortDirsDesc_perm (l : List Entry) : (sortDirsDesc l).Perm l :=
  (List.reverse_perm _).trans (sortDirs_perm l)

/-- completeness of the second loop under that order -/
theorem unmergeDirs_full {env : Env} {ds : List Entry} {s s' : St} (hnd : (locs ds).Nodup)
    (hord : ds.Pairwise (fun a b => ¬ ProperAnc a.loc b.loc))
    (h : unmergeDirs env s ds = (s', .ok ())) :
    ∀ d ∈ ds, IsDirAt s'.fs d.loc → s'.fs.hasChild d.loc = true ∨ d.loc = [] := by
  induction ds generalizing s with
  | nil => intro d hd; cases hd
  | cons x xs ih =>
    simp only [unmergeDirs] at h
    generalize hu : rmdirQuiet env s x.loc = r at h
    obtain ⟨s1, r1⟩ := r
    cases r1 with
    | error e => simp at h
    | ok u =>
      simp only at h
      simp only [locs, List.map_cons, List.nodup_cons] at hnd
      obtain ⟨hx, hnd'⟩ := hnd
      rw [List.pairwise_cons] at hord
      have p1 := rmdirQuiet_ok hu
      have p2 := unmergeDirs_ok hnd' h
      intro d hd hdir
      rcases List.mem_cons.mp hd with hd | hd
      · subst hd
        have hsame : s'.fs.view d.loc = s1.fs.view d.loc := p2.off _ hx
        have hdir1 : IsDirAt s1.fs d.loc := by unfold IsDirAt at hdir ⊢; rw [← hsame]; exact hdir
        rcases p1.full hdir1 with hc | hroot
        · left
          obtain ⟨n, hn⟩ := hasChild_iff.mp hc
          rw [hasChild_iff]
          refine ⟨n, ?_⟩
          have hne : n :: d.loc ≠ d.loc := by
            intro e0; have := congrArg List.length e0; simp at this
          have hnl : n :: d.loc ∉ locs xs := by
            intro hm
            obtain ⟨b, hb, hbl⟩ := mem_locs.mp hm
            exact hord.1 b hb ⟨by rw [hbl]; exact hne.symm, by rw [hbl]; exact List.suffix_cons n d.loc⟩
          rw [p2.off _ hnl, p1.off _ hne]; exact hn
        · exact Or.inr hroot
      · exact ih hnd' hord.2 h d hd hdir

/-! ## `unmerge_contents` as a whole -/

theorem eq_of_loc_eq {es : List Entry} (hd : DistinctLocs es) {a b : Entry} (ha : a ∈ es) (hb : b ∈ es)
    (h : a.loc = b.loc) : a = b := by
  unfold DistinctLocs locs at hd
  induction es with
  | nil => cases ha
  | cons x xs ih =>
    simp only [List.map_cons, List.nodup_cons] at hd
    rcases List.mem_cons.mp ha with h1 | h1
    · rcases List.mem_cons.mp hb with h2 | h2
      · rw [h1, h2]
      · subst h1; exact absurd (h ▸ List.mem_map_of_mem h2) hd.1
    · rcases List.mem_cons.mp hb with h2 | h2
      · subst h2; exact absurd (h ▸ List.mem_map_of_mem h1) hd.1
      · exact ih hd.2 h1 h2

theorem locs_filter_nodup {es : List Entry} (hd : DistinctLocs es) (p : Entry → Bool) : (locs (es.filter p)).Nodup :=
  List.Nodup.sublist (List.Sublist.map _ List.filter_sublist) hd

structure UnmergePost (s s' : St) (es : List Entry) : Prop where
  spec : Unmerged s.fs es s'.fs
  full : EmptiedDirsGone es s'.fs
  log : ∃ ops, s'.log = s.log ++ ops ∧ OnlyRemovals (locs es) ops

theorem unmergeFrom_ok {env : Env} {es : List Entry} {s s' : St} (hd : DistinctLocs es)
    (h : unmergeFrom env s es = (s', .ok ())) : UnmergePost s s' es := by
  unfold unmergeFrom at h
  generalize hn : unmergeNonDirs env s (es.filter (fun e => !e.isDir)) = r at h
  obtain ⟨s1, r1⟩ := r
  cases r1 with
  | error e => simp at h
  | ok u =>
    simp only at h
    have p1 := unmergeNonDirs_ok hn
    have hperm := sortDirsDesc_perm (es.filter (·.isDir))
    have hndD : (locs (sortDirsDesc (es.filter (·.isDir)))).Nodup := by
      have := locs_filter_nodup hd (·.isDir)
      unfold locs at this ⊢
      exact ((hperm.map (fun e => e.loc)).nodup_iff).mpr this
    have p2 := unmergeDirs_ok hndD h
    have pf := unmergeDirs_full hndD (sortDirsDesc_order _) h
    have memN : ∀ e, e ∈ es → e.isDir = false → e ∈ es.filter (fun e => !e.isDir) :=
      fun e he hk => List.mem_filter.mpr ⟨he, by simp [hk]⟩
    have memD : ∀ e, e ∈ es → e.isDir = true → e ∈ sortDirsDesc (es.filter (·.isDir)) :=
      fun e he hk => (hperm.mem_iff).mpr (List.mem_filter.mpr ⟨he, hk⟩)
    have subN : ∀ q, q ∈ locs (es.filter (fun e => !e.isDir)) → q ∈ locs es := by
      intro q hq
      obtain ⟨e, he, rfl⟩ := mem_locs.mp hq
      exact mem_locs.mpr ⟨e, (List.mem_filter.mp he).1, rfl⟩
    have subD : ∀ q, q ∈ locs (sortDirsDesc (es.filter (·.isDir))) → q ∈ locs es := by
      intro q hq
      obtain ⟨e, he, rfl⟩ := mem_locs.mp hq
      exact mem_locs.mpr ⟨e, (List.mem_filter.mp ((hperm.mem_iff).mp he)).1, rfl⟩
    -- a directory object's location is not touched by the first loop
    have dirFirst : ∀ e, e ∈ es → e.isDir = true → s1.fs.view e.loc = s.fs.view e.loc := by
      intro e he hk
      rw [p1.view, if_neg]
      intro hm
      obtain ⟨n, hn', hl⟩ := mem_locs.mp hm
      have hnes := (List.mem_filter.mp hn').1
      have := eq_of_loc_eq hd hnes he hl
      subst this
      have := (List.mem_filter.mp hn').2
      simp [hk] at this
    refine ⟨⟨?_, ?_, ?_⟩, ?_, ?_⟩
    · intro e he hk
      have h1 : s1.fs.view e.loc = none := by
        rw [p1.view, if_pos (mem_locs.mpr ⟨e, memN e he hk, rfl⟩)]
      rcases p2.shrink e.loc with h2 | h2
      · rw [h2, h1]
      · exact h2
    · intro e he hk
      have := p2.here e (memD e he hk)
      unfold DirRemovedOrKept IsDirAt at this ⊢
      rw [dirFirst e he hk] at this
      exact this
    · intro q hq
      rw [p2.off q (fun h1 => hq (subD q h1)), p1.view, if_neg (fun h1 => hq (subN q h1))]
    · intro e he hk hdir
      exact pf e (memD e he hk) hdir
    · obtain ⟨o1, l1, r1⟩ := p1.log
      obtain ⟨o2, l2, r2⟩ := p2.log
      exact ⟨o1 ++ o2, by rw [l2, l1, List.append_assoc], (r1.mono subN).append (r2.mono subD)⟩

/-! ## the csets of the engines -/

theorem locs_liveIntersect_sublist (fs : Fs) (old : List Entry) : (locs (liveIntersect fs old)).Sublist (locs old) := by
  unfold liveIntersect locs
  induction old with
  | nil => simp
  | cons x xs ih =>
    simp only [List.filterMap_cons, List.map_cons]
    cases hv : fs.view x.loc with
    | none => simp only; exact List.Sublist.cons _ ih
    | some v => obtain ⟨i, nd⟩ := v; simp only [List.map_cons]; exact List.Sublist.cons_cons _ ih

theorem mem_liveIntersect {fs : Fs} {old : List Entry} {e0 : Entry} (he : e0 ∈ old) {i : Nat} {nd : Inode}
    (hv : fs.view e0.loc = some (i, nd)) :
    (⟨e0.loc, liveKind nd.kind, nd.mode, nd.uid, nd.gid, nd.mtime⟩ : Entry) ∈ liveIntersect fs old := by
  unfold liveIntersect
  rw [List.mem_filterMap]
  exact ⟨e0, he, by simp [hv]⟩

theorem liveKind_isDir (k : Kind) (loc : Path) (m u g t : Nat) :
    (⟨loc, liveKind k, m, u, g, t⟩ : Entry).isDir = decide (k = .dir) := by
  cases k <;> simp [liveKind, Entry.isDir]

theorem plan_sublist_uninstall (fs : Fs) (old : List Entry) : (locs (uninstallPlan fs old)).Sublist (locs old) :=
  (List.Sublist.map _ List.filter_sublist).trans (locs_liveIntersect_sublist fs old)

theorem plan_sublist_remove (fs : Fs) (old new : List Entry) : (locs (removePlan fs old new)).Sublist (locs old) :=
  ((List.Sublist.map _ List.filter_sublist).trans (List.Sublist.map _ List.filter_sublist)).trans
    (locs_liveIntersect_sublist fs old)

theorem uninstalled_of_unmerged {pre fin : Fs} {old : List Entry}
    (h : Unmerged pre (uninstallPlan pre old) fin) : Uninstalled pre old fin := by
  refine ⟨?_, ?_, ?_, ?_⟩
  · rintro e he hp ⟨j, nd, hv, hk⟩
    have hm := mem_liveIntersect he hv
    have hm' : (⟨e.loc, liveKind nd.kind, nd.mode, nd.uid, nd.gid, nd.mtime⟩ : Entry) ∈ uninstallPlan pre old :=
      List.mem_filter.mpr ⟨hm, by simpa using hp⟩
    exact h.nondirs ⟨e.loc, liveKind nd.kind, nd.mode, nd.uid, nd.gid, nd.mtime⟩ hm' (by rw [liveKind_isDir]; simpa using hk)
  · rintro e he hp ⟨j, nd, hv, hk⟩
    have hm := mem_liveIntersect he hv
    have hm' : (⟨e.loc, liveKind nd.kind, nd.mode, nd.uid, nd.gid, nd.mtime⟩ : Entry) ∈ uninstallPlan pre old :=
      List.mem_filter.mpr ⟨hm, by simpa using hp⟩
    exact h.dirs ⟨e.loc, liveKind nd.kind, nd.mode, nd.uid, nd.gid, nd.mtime⟩ hm' (by rw [liveKind_isDir]; simpa using hk)
  · intro q hq
    exact h.unlisted q (fun h1 => hq ((plan_sublist_uninstall pre old).subset h1))
  · intro q hq
    apply h.unlisted
    intro h1
    obtain ⟨e, he, hl⟩ := mem_locs.mp h1
    have := (List.mem_filter.mp he).2
    simp only [decide_eq_true_eq] at this
    exact this (hl ▸ hq)

theorem replaced_of_unmerged {mid fin : Fs} {old new : List Entry}
    (h : Unmerged mid (removePlan mid old new) fin) : Replaced mid old new fin := by
  have notNew : ∀ q, q ∈ locs new → q ∉ locs (removePlan mid old new) := by
    intro q hq h1
    obtain ⟨e, he, hl⟩ := mem_locs.mp h1
    have := (List.mem_filter.mp (List.mem_filter.mp he).1).2
    simp only [decide_eq_true_eq] at this
    exact this (hl ▸ hq)
  have notProt : ∀ q, q ∈ protectedPaths → q ∉ locs (removePlan mid old new) := by
    intro q hq h1
    obtain ⟨e, he, hl⟩ := mem_locs.mp h1
    have := (List.mem_filter.mp he).2
    simp only [decide_eq_true_eq] at this
    exact this (hl ▸ hq)
  refine ⟨?_, ?_, ?_, ?_, ?_⟩
  · intro e he
    exact h.unlisted _ (notNew _ (mem_locs.mpr ⟨e, he, rfl⟩))
  · rintro e he hn hp ⟨j, nd, hv, hk⟩
    have hm := mem_liveIntersect he hv
    have hm' : (⟨e.loc, liveKind nd.kind, nd.mode, nd.uid, nd.gid, nd.mtime⟩ : Entry) ∈ removePlan mid old new :=
      List.mem_filter.mpr ⟨List.mem_filter.mpr ⟨hm, by simpa [locs] using hn⟩, by simpa using hp⟩
    exact h.nondirs ⟨e.loc, liveKind nd.kind, nd.mode, nd.uid, nd.gid, nd.mtime⟩ hm' (by rw [liveKind_isDir]; simpa using hk)
  · rintro e he hn hp ⟨j, nd, hv, hk⟩
    have hm := mem_liveIntersect he hv
    have hm' : (⟨e.loc, liveKind nd.kind, nd.mode, nd.uid, nd.gid, nd.mtime⟩ : Entry) ∈ removePlan mid old new :=
      List.mem_filter.mpr ⟨List.mem_filter.mpr ⟨hm, by simpa [locs] using hn⟩, by simpa using hp⟩
    exact h.dirs ⟨e.loc, liveKind nd.kind, nd.mode, nd.uid, nd.gid, nd.mtime⟩ hm' (by rw [liveKind_isDir]; simpa using hk)
  · intro q hq
    exact h.unlisted q (fun h1 => hq ((plan_sublist_remove mid old new).subset h1))
  · intro q hq
    exact h.unlisted q (notProt q hq)

/-! ## the bounded evaluation of the driver -/

theorem unlisted_bounded {pre fin : Fs} {ls : List Path} :
    (∀ q : Path, q ∉ ls → fin.view q = pre.view q) ↔ UnlistedOn (keys pre ++ keys fin) pre ls fin := by
  constructor
  · intro h q _ hq; exact h q hq
  · intro h q hq
    by_cases hm : q ∈ keys pre ++ keys fin
    · exact h q hm hq
    · rw [List.mem_append, not_or] at hm
      rw [view_none_of_not_key hm.1, view_none_of_not_key hm.2]

theorem unmerged_iff_failures (pre : Fs) (es : List Entry) (fin : Fs) :
    (Unmerged pre es fin ∧ EmptiedDirsGone es fin) ↔ unmergedFailures pre es fin = [] := by
  unfold unmergedFailures
  simp only [List.append_eq_nil_iff]
  constructor
  · rintro ⟨h, hf⟩
    refine ⟨⟨⟨?_, ?_⟩, ?_⟩, ?_⟩
    · rw [if_pos h.nondirs]
    · rw [if_pos h.dirs]
    · rw [if_pos (unlisted_bounded.mp h.unlisted)]
    · rw [if_pos hf]
  · rintro ⟨⟨⟨h1, h2⟩, h3⟩, h4⟩
    refine ⟨⟨?_, ?_, unlisted_bounded.mpr ?_⟩, ?_⟩
    · by_cases h : ∀ e ∈ es, e.isDir = false → fin.view e.loc = none
      · exact h
      · rw [if_neg h] at h1; cases h1
    · by_cases h : ∀ e ∈ es, e.isDir = true → DirRemovedOrKept pre fin e.loc
      · exact h
      · rw [if_neg h] at h2; cases h2
    · by_cases h : UnlistedOn (keys pre ++ keys fin) pre (locs es) fin
      · exact h
      · rw [if_neg h] at h3; cases h3
    · by_cases h : EmptiedDirsGone es fin
      · exact h
      · rw [if_neg h] at h4; cases h4

/-! ## `get_remove_cset` under aliasing -/

theorem mem_keptNames_P {resP resF : Path → Path} {new : List Entry} {x : Entry} (hx : x ∈ new) :
    resP x.loc ∈ keptNames resP resF new := by
  unfold keptNames
  rw [List.mem_flatMap]
  exact ⟨x, hx, List.mem_cons_self⟩

theorem mem_keptNames_F {resP resF : Path → Path} {new : List Entry} {x : Entry} (hx : x ∈ new)
    (hd : x.isDir = true) : resF x.loc ∈ keptNames resP resF new := by
  unfold keptNames
  rw [List.mem_flatMap]
  exact ⟨x, hx, by simp [hd]⟩

theorem removeCsetOf_id (live new : List Entry) :
    removeCsetOf id id live new = live.filter (fun e => decide (e.loc ∉ new.map (·.loc))) := by
  unfold removeCsetOf
  rw [List.filter_filter]
  apply List.filter_congr
  intro e _
  by_cases h : e.loc ∈ new.map (·.loc)
  · simp [h]
  · have : e.loc ∉ keptNames id id new := by
      unfold keptNames
      rw [List.mem_flatMap]
      rintro ⟨x, hx, hm⟩
      apply h
      rw [List.mem_map]
      refine ⟨x, hx, ?_⟩
      rcases List.mem_cons.mp hm with h1 | h1
      · exact h1.symm
      · split at h1
        · exact (List.mem_singleton.mp h1).symm
        · cases h1
    simp [h, this]

/-! ## a concrete root and contents used by the non-vacuity examples -/

def exPre : Fs :=
  ⟨[([], 1, ⟨.dir, 0o755, 0, 0, 0⟩), (["opt"], 2, ⟨.dir, 0o755, 0, 0, 0⟩), (["a", "opt"], 3, ⟨.dir, 0o755, 0, 0, 0⟩),
    (["f", "a", "opt"], 4, ⟨.file "78", 0o644, 0, 0, 5⟩), (["t"], 5, ⟨.dir, 0o755, 0, 0, 0⟩),
    (["keep", "t"], 6, ⟨.file "6b", 0o644, 0, 0, 5⟩), (["l"], 7, ⟨.sym "t", 0o777, 0, 0, 5⟩),
    (["usr"], 8, ⟨.dir, 0o755, 0, 0, 0⟩), (["x", "usr"], 9, ⟨.file "79", 0o644, 0, 0, 5⟩)], 10⟩
def exEs : List Entry :=
  [⟨["opt"], .dir, 0o755, 0, 0, 7⟩, ⟨["l"], .sym "t", 0o777, 0, 0, 7⟩, ⟨["f", "a", "opt"], .reg "78" none, 0o644, 0, 0, 7⟩,
   ⟨["a", "opt"], .dir, 0o755, 0, 0, 7⟩, ⟨["usr"], .dir, 0o755, 0, 0, 7⟩, ⟨["gone"], .fifo, 0o644, 0, 0, 7⟩]
def exEnv : Env := ⟨0o022, 0, 0⟩

def exNew : List Entry :=
  [⟨["opt"], .dir, 0o755, 0, 0, 9⟩, ⟨["f", "a", "opt"], .reg "6e6577" none, 0o644, 0, 0, 9⟩, ⟨["a", "opt"], .dir, 0o755, 0, 0, 9⟩,
   ⟨["n", "opt"], .reg "6e" none, 0o644, 0, 0, 9⟩]

end Pkgcore.C20
