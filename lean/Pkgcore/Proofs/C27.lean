import Pkgcore.Spec.C27
import Pkgcore.Proofs.C24
/-! # C27 helper lemmas -/
namespace Pkgcore.C27
open Pkgcore.C24 Pkgcore.Generated.C27 Pkgcore.C27.Spec

abbrev Items := List (Str × Str)

instance exceptDecEq {ε α : Type} [DecidableEq ε] [DecidableEq α] : DecidableEq (Except ε α) := fun a b =>
  match a, b with
  | .ok x, .ok y => if h : x = y then isTrue (by rw [h]) else isFalse (fun e => h (by cases e; rfl))
  | .error x, .error y => if h : x = y then isTrue (by rw [h]) else isFalse (fun e => h (by cases e; rfl))
  | .ok _, .error _ => isFalse (fun e => by cases e)
  | .error _, .ok _ => isFalse (fun e => by cases e)

/-! ## lines -/

theorem uniGo_line (l rest : Str) (h : singleLine l) : uniGo false (l ++ '\n' :: rest) = l :: uniGo false rest := by
  induction l with
  | nil => simp [uniGo]
  | cons c cs ih =>
    have h1 : c ≠ '\n' := fun e => h.1 (by simp [e])
    have h2 : c ≠ '\r' := fun e => h.2 (by simp [e])
    have ih' := ih ⟨fun m => h.1 (by simp [m]), fun m => h.2 (by simp [m])⟩
    simp only [List.cons_append, uniGo, if_neg h1, if_neg h2, ih']

theorem uniGo_render (lines : List Str) (h : ∀ l ∈ lines, singleLine l) :
    uniGo false (lines.flatMap fun l => l ++ ['\n']) = lines ++ [[]] := by
  induction lines with
  | nil => simp [uniGo]
  | cons l rest ih =>
    simp only [List.flatMap_cons, List.append_assoc, List.singleton_append]
    rw [uniGo_line l _ (h l (by simp)), ih (fun x hx => h x (by simp [hx]))]
    rfl

theorem fileLines_render (lines : List Str) (h : ∀ l ∈ lines, singleLine l) :
    fileLines (lines.flatMap fun l => l ++ ['\n']) = lines := by
  unfold fileLines
  rw [uniGo_render lines h]
  simp

/-! ## `k=v` lines -/

theorem splitFirst_render (sep : Char) (key v : Str) (h : sep ∉ key) :
    splitFirst sep (key ++ sep :: v) = some (key, v) := by
  induction key with
  | nil => simp [splitFirst]
  | cons c cs ih =>
    have hc : c ≠ sep := fun e => h (by simp [e])
    have := ih (fun m => h (by simp [m]))
    simp [splitFirst, hc, this]

theorem dictSet_fresh (d : Items) (key v : Str) (h : key ∉ d.map (·.1)) : dictSet d key v = d ++ [(key, v)] := by
  have : d.any (·.1 == key) = false := by
    rw [List.any_eq_false]
    intro x hx hk
    have : x.1 = key := by simpa using hk
    exact h (by rw [← this]; exact List.mem_map_of_mem hx)
  simp [dictSet, this]

theorem parseLines_render (k : Kind) (items acc : Items) (hk : ∀ p ∈ items, '=' ∉ p.1)
    (hnd : ((acc ++ items.filter fun p => known k p.1).map (·.1)).Nodup) :
    parseLines k (items.map fun p => p.1 ++ '=' :: p.2) acc = .ok (acc ++ items.filter fun p => known k p.1) := by
  induction items generalizing acc with
  | nil => simp [parseLines]
  | cons p r ih =>
    obtain ⟨key, v⟩ := p
    have hkey : '=' ∉ key := hk (key, v) (by simp)
    simp only [List.map_cons, parseLines, splitFirst_render '=' key v hkey]
    by_cases hkn : known k key = true
    · simp only [hkn, if_true, List.filter_cons] at hnd ⊢
      have hfresh : key ∉ acc.map (·.1) := by
        simp only [List.map_append, List.map_cons] at hnd
        have := (List.nodup_append.mp hnd).2.2
        intro hm
        exact this _ hm _ (by simp) rfl
      rw [dictSet_fresh acc key v hfresh, ih _ (fun p hp => hk p (by simp [hp])) (by simpa using hnd)]
      simp
    · have hf : known k key = false := by simpa using hkn
      simp only [hf, Bool.false_eq_true, if_false, List.filter_cons] at hnd ⊢
      exact ih acc (fun p hp => hk p (by simp [hp])) hnd

/-! ## sorting and lookups -/

theorem insertItem_perm (e : Str × Str) (l : Items) : (insertItem e l).Perm (e :: l) := by
  induction l with
  | nil => exact List.Perm.refl _
  | cons x xs ih =>
    unfold insertItem
    split
    · exact List.Perm.refl _
    · exact ((List.Perm.cons x ih).trans (List.Perm.swap e x xs))

theorem sortItems_perm (l : Items) : (sortItems l).Perm l := by
  induction l with
  | nil => exact List.Perm.refl _
  | cons e r ih =>
    show (insertItem e (sortItems r)).Perm (e :: r)
    exact (insertItem_perm e _).trans (List.Perm.cons e ih)

theorem lookup_of_mem (l : Items) (a b : Str) (hnd : (l.map (·.1)).Nodup) (h : (a, b) ∈ l) : l.lookup a = some b := by
  induction l with
  | nil => simp at h
  | cons x xs ih =>
    obtain ⟨xa, xb⟩ := x
    simp only [List.map_cons, List.nodup_cons] at hnd
    simp only [List.mem_cons, Prod.mk.injEq] at h
    rcases h with ⟨rfl, rfl⟩ | h
    · simp [List.lookup]
    · have hne : a ≠ xa := by
        intro e; subst e
        exact hnd.1 (List.mem_map_of_mem (f := (·.1)) h)
      have : (a == xa) = false := by simpa using hne
      simp only [List.lookup, this]
      exact ih hnd.2 h

theorem lookup_none (l : Items) (a : Str) (h : a ∉ l.map (·.1)) : l.lookup a = none := by
  induction l with
  | nil => rfl
  | cons x xs ih =>
    obtain ⟨xa, xb⟩ := x
    simp only [List.map_cons, List.mem_cons, not_or] at h
    have : (a == xa) = false := by simpa using h.1
    simp only [List.lookup, this]
    exact ih h.2

/-! ## numbers -/

theorem deser_ser (k : Kind) (v : Int) (h : k = .md5 → 0 ≤ v) : deserChf k (serChf k v) = some v := by
  cases k with
  | flat => exact parseInt_renderInt v
  | md5 =>
    have := h rfl
    simp only [serChf, deserChf, parseHex_hexPad, Option.map_some]
    congr 1; exact Int.toNat_of_nonneg this

def numChars : Str := "-0123456789abcdef".toList

theorem digitChar_num : ∀ d, d < 16 → Nat.digitChar d ∈ numChars := by decide

theorem toDigits_num (b : Nat) (hb : 1 < b) (hb' : b ≤ 16) (n : Nat) : ∀ c ∈ Nat.toDigits b n, c ∈ numChars := by
  induction n using Nat.strongRecOn with
  | _ n ih =>
    rw [Nat.toDigits_eq_if hb]
    split
    · intro c hc
      simp only [List.mem_singleton] at hc
      subst hc
      exact digitChar_num n (by omega)
    · rename_i h
      intro c hc
      simp only [List.mem_append, List.mem_singleton] at hc
      rcases hc with hc | rfl
      · exact ih (n / b) (Nat.div_lt_self (by omega) hb) c hc
      · exact digitChar_num _ (by have := Nat.mod_lt n (show 0 < b by omega); omega)

theorem serChf_chars (k : Kind) (v : Int) : serChf k v ≠ [] ∧ ∀ c ∈ serChf k v, c ∈ numChars := by
  cases k with
  | flat =>
    simp only [serChf, renderInt]
    split
    · refine ⟨by simp, ?_⟩
      intro c hc
      simp only [List.mem_cons] at hc
      rcases hc with rfl | hc
      · decide
      · exact toDigits_num 10 (by decide) (by decide) _ c hc
    · exact ⟨Nat.toDigits_ne_nil, toDigits_num 10 (by decide) (by decide) _⟩
  | md5 =>
    simp only [serChf, hexPad]
    constructor
    · intro h
      have := (List.append_eq_nil_iff.mp h).2
      exact Nat.toDigits_ne_nil this
    · intro c hc
      simp only [List.mem_append, List.mem_replicate] at hc
      rcases hc with ⟨_, rfl⟩ | hc
      · decide
      · exact toDigits_num 16 (by decide) (by decide) _ c hc

theorem numChars_plain : ∀ c ∈ numChars, isSpace c = false ∧ c ≠ eclassSplitter ∧ c ≠ '\n' ∧ c ≠ '\r' := by decide

/-! ## eclass data -/

theorem splitOn_joinWith (sep : Char) (fields : List Str) (hne : fields ≠ []) (h : ∀ f ∈ fields, sep ∉ f) :
    splitOn sep (joinWith sep fields) = fields := by
  induction fields with
  | nil => exact absurd rfl hne
  | cons a rest ih =>
    cases rest with
    | nil => simpa [joinWith] using splitOn_nosep sep a (h a (by simp))
    | cons b r =>
      have := ih (by simp) (fun f hf => h f (by simp [hf]))
      simp only [joinWith] at this ⊢
      rw [splitOn_append_sep, splitOn_nosep sep a (h a (by simp)), this]
      rfl

theorem joinWith_last (sep : Char) (fs : List Str) (l : Str) : ∃ p, joinWith sep (fs ++ [l]) = p ++ l := by
  induction fs with
  | nil => exact ⟨[], rfl⟩
  | cons a r ih =>
    obtain ⟨p, hp⟩ := ih
    cases hr : r ++ [l] with
    | nil => simp at hr
    | cons b t =>
      refine ⟨a ++ sep :: p, ?_⟩
      rw [List.cons_append, hr, joinWith, ← hr, hp]
      simp

theorem exists_concat (es : List Eclass) (h : es ≠ []) : ∃ init e, es = init ++ [e] := by
  induction es with
  | nil => exact absurd rfl h
  | cons a r ih =>
    cases r with
    | nil => exact ⟨[], a, rfl⟩
    | cons b t =>
      obtain ⟨init, e, he⟩ := ih (by simp)
      exact ⟨a :: init, e, by rw [he]; rfl⟩

theorem stripSpace_id (s : Str) (h1 : ∀ c, s.head? = some c → isSpace c = false)
    (h2 : ∀ c, s.getLast? = some c → isSpace c = false) : stripSpace s = s := by
  unfold stripSpace
  cases s with
  | nil => rfl
  | cons c t =>
    have hc := h1 c rfl
    have e1 : (c :: t).dropWhile isSpace = c :: t := by simp [List.dropWhile, hc]
    rw [e1]
    cases hr : (c :: t).reverse with
    | nil => simp at hr
    | cons d u =>
      have hd : isSpace d = false := by
        apply h2 d
        have : (c :: t).getLast? = (c :: t).reverse.head? := List.head?_reverse.symm
        rw [this, hr]; rfl
      have e2 : (d :: u).dropWhile isSpace = d :: u := by simp [List.dropWhile, hd]
      rw [e2, ← hr, List.reverse_reverse]

theorem isSpace_tab : isSpace eclassSplitter = true := by decide

theorem fields_ok (k : Kind) (es : List Eclass)
    (h : ∀ c ∈ es, c.name ≠ [] ∧ (∀ ch ∈ c.name, isSpace ch = false) ∧ eclassSplitter ∉ c.dir ∧ singleLine c.dir ∧
      (k = .md5 → 0 ≤ c.chf)) :
    ∀ f ∈ es.flatMap (eclassFields k), eclassSplitter ∉ f := by
  intro f hf
  simp only [List.mem_flatMap] at hf
  obtain ⟨e, he, hfe⟩ := hf
  obtain ⟨_, hname, hdir, _, _⟩ := h e he
  have hn : eclassSplitter ∉ e.name := fun m => by
    have := hname _ m; rw [isSpace_tab] at this; cases this
  have hs : ∀ kk v, eclassSplitter ∉ serChf kk v := fun kk v m =>
    (numChars_plain _ ((serChf_chars kk v).2 _ m)).2.1 rfl
  cases k <;> simp only [eclassFields, List.mem_cons, List.not_mem_nil, or_false] at hfe
  · rcases hfe with rfl | rfl | rfl
    · exact hn
    · exact hdir
    · exact hs _ _
  · rcases hfe with rfl | rfl
    · exact hn
    · exact hs _ _

theorem regroup_fields (k : Kind) (es : List Eclass) (fuel : Nat) (hf : (es.flatMap (eclassFields k)).length ≤ fuel)
    (h : ∀ c ∈ es, k = .md5 → 0 ≤ c.chf) :
    regroup k fuel (es.flatMap (eclassFields k)) = some (es.map (expectedEclass k)) := by
  induction es generalizing fuel with
  | nil => cases fuel <;> simp [regroup]
  | cons e r ih =>
    cases fuel with
    | zero => cases k <;> simp [eclassFields] at hf
    | succ fuel =>
      have hr : (r.flatMap (eclassFields k)).length ≤ fuel := by
        cases k <;> simp [eclassFields] at hf ⊢ <;> omega
      have ih' := ih fuel hr (fun c hc => h c (by simp [hc]))
      have hd := deser_ser k e.chf (h e (by simp))
      cases k with
      | flat =>
        simp only [List.flatMap_cons, eclassFields, List.cons_append, List.nil_append, regroup] at ih' ⊢
        simp only [hd, ih', List.map_cons, expectedEclass]
        rfl
      | md5 =>
        simp only [List.flatMap_cons, eclassFields, List.cons_append, List.nil_append, regroup] at ih' ⊢
        simp only [hd, ih', List.map_cons, expectedEclass]
        rfl

theorem fields_length_mod (k : Kind) (es : List Eclass) :
    (es.flatMap (eclassFields k)).length % (match k with | .flat => 3 | .md5 => 2) = 0 := by
  induction es with
  | nil => cases k <;> rfl
  | cons e r ih =>
    cases k <;> simp [eclassFields] at ih ⊢ <;> omega

theorem reconstruct_deconstruct (k : Kind) (es : List Eclass)
    (h : ∀ c ∈ es, c.name ≠ [] ∧ (∀ ch ∈ c.name, isSpace ch = false) ∧ eclassSplitter ∉ c.dir ∧ singleLine c.dir ∧
      (k = .md5 → 0 ≤ c.chf)) :
    reconstruct k (deconstruct k es) = .ok (es.map (expectedEclass k)) := by
  by_cases hes : es = []
  · subst hes; simp [reconstruct, deconstruct, joinWith, stripSpace, splitOn]
  · obtain ⟨init, e, rfl⟩ := exists_concat es hes
    have hfne : (init ++ [e]).flatMap (eclassFields k) ≠ [] := by
      cases k <;> simp [eclassFields]
    -- the string is not changed by strip()
    have hstrip : stripSpace (deconstruct k (init ++ [e])) = deconstruct k (init ++ [e]) := by
      apply stripSpace_id
      · intro c hc
        -- first character: first character of the first eclass name
        cases hi : init ++ [e] with
        | nil => simp at hi
        | cons a t =>
          have ha := h a (by rw [hi]; simp)
          cases hn : a.name with
          | nil => exact absurd hn ha.1
          | cons n0 nt =>
            have : ∃ rest, (a :: t).flatMap (eclassFields k) = (n0 :: nt) :: rest := by
              cases k <;> simp [eclassFields, hn]
            obtain ⟨rest, hrest⟩ := this
            unfold deconstruct at hc
            rw [hi, hrest, joinWith_cons_cons] at hc
            simp only [List.head?_cons, Option.some.injEq] at hc
            subst hc
            exact ha.2.1 _ (by rw [hn]; simp)
      · intro c hc
        -- last character: last character of the last serialised chf
        have : ∃ fs, (init ++ [e]).flatMap (eclassFields k) = fs ++ [serChf k e.chf] := by
          cases k
          · exact ⟨init.flatMap (eclassFields .flat) ++ [e.name, e.dir], by simp [eclassFields]⟩
          · exact ⟨init.flatMap (eclassFields .md5) ++ [e.name], by simp [eclassFields]⟩
        obtain ⟨fs, hfs⟩ := this
        obtain ⟨p, hp⟩ := joinWith_last eclassSplitter fs (serChf k e.chf)
        unfold deconstruct at hc
        rw [hfs, hp, List.getLast?_append] at hc
        have hne := (serChf_chars k e.chf).1
        cases hl : (serChf k e.chf).getLast? with
        | none => exact absurd (List.getLast?_eq_none_iff.mp hl) hne
        | some d =>
          rw [hl] at hc
          simp only [Option.some_or, Option.some.injEq] at hc
          subst hc
          exact (numChars_plain _ ((serChf_chars k e.chf).2 _ (List.mem_of_getLast? hl))).1
    unfold reconstruct
    rw [hstrip]
    unfold deconstruct
    rw [splitOn_joinWith _ _ hfne (fields_ok k _ h)]
    have hne1 : (init ++ [e]).flatMap (eclassFields k) ≠ [[]] := by
      intro heq
      cases k <;> simp [eclassFields] at heq
      all_goals
        have := congrArg List.length heq
        simp at this
    rw [if_neg hne1]
    have hmod := fields_length_mod k (init ++ [e])
    cases k with
    | flat =>
      simp only at hmod
      simp only [hmod, ne_eq, not_true_eq_false, if_false,
        regroup_fields .flat _ _ (Nat.le_refl _) (fun c hc => (h c hc).2.2.2.2)]
    | md5 =>
      simp only at hmod
      simp only [hmod, ne_eq, not_true_eq_false, if_false,
        regroup_fields .md5 _ _ (Nat.le_refl _) (fun c hc => (h c hc).2.2.2.2)]

/-! ## assembling the round trip -/

theorem mem_joinWith (sep : Char) (fs : List Str) (c : Char) (h : c ∈ joinWith sep fs) : c = sep ∨ ∃ f ∈ fs, c ∈ f := by
  induction fs with
  | nil => simp [joinWith] at h
  | cons a r ih =>
    cases r with
    | nil => exact Or.inr ⟨a, by simp, by simpa [joinWith] using h⟩
    | cons b t =>
      simp only [joinWith, List.mem_append, List.mem_cons] at h
      rcases h with h | h | h
      · exact Or.inr ⟨a, by simp, h⟩
      · exact Or.inl h
      · rcases ih h with h | ⟨f, hf, hc⟩
        · exact Or.inl h
        · exact Or.inr ⟨f, by simp [hf], hc⟩

theorem chfKey_ok (k : Kind) : '=' ∉ k.chfKey ∧ singleLine k.chfKey ∧ k.chfKey ≠ eclassesKey ∧ known k k.chfKey = true ∧
    '=' ∉ eclassesKey ∧ singleLine eclassesKey ∧ known k eclassesKey = true := by
  cases k <;> (refine ⟨by decide, ⟨by decide, by decide⟩, by decide, by decide, by decide, ⟨by decide, by decide⟩, by decide⟩)

theorem deconstruct_singleLine (k : Kind) (es : List Eclass)
    (h : ∀ c ∈ es, c.name ≠ [] ∧ (∀ ch ∈ c.name, isSpace ch = false) ∧ eclassSplitter ∉ c.dir ∧ singleLine c.dir ∧
      (k = .md5 → 0 ≤ c.chf)) : singleLine (deconstruct k es) := by
  have key : ∀ c ∈ deconstruct k es, c ≠ '\n' ∧ c ≠ '\r' := by
    intro c hc
    rcases mem_joinWith _ _ c hc with rfl | ⟨f, hf, hcf⟩
    · decide
    · simp only [List.mem_flatMap] at hf
      obtain ⟨e, he, hfe⟩ := hf
      obtain ⟨_, hname, _, hdir, _⟩ := h e he
      have hn : c ∈ e.name → c ≠ '\n' ∧ c ≠ '\r' := fun m => by
        have := hname c m
        constructor <;> (intro e'; subst e'; revert this; decide)
      have hs : ∀ kk v, c ∈ serChf kk v → c ≠ '\n' ∧ c ≠ '\r' := fun kk v m =>
        (numChars_plain _ ((serChf_chars kk v).2 _ m)).2.2
      have hd : c ∈ e.dir → c ≠ '\n' ∧ c ≠ '\r' := fun m =>
        ⟨fun e' => hdir.1 (e' ▸ m), fun e' => hdir.2 (e' ▸ m)⟩
      cases k <;> simp only [eclassFields, List.mem_cons, List.not_mem_nil, or_false] at hfe
      · rcases hfe with rfl | rfl | rfl
        · exact hn hcf
        · exact hd hcf
        · exact hs _ _ hcf
      · rcases hfe with rfl | rfl
        · exact hn hcf
        · exact hs _ _ hcf
  exact ⟨fun m => (key _ m).1 rfl, fun m => (key _ m).2 rfl⟩

/-- the keys of the stored dict are distinct, `=`-free and everything is single-line -/
theorem storedItems_ok (k : Kind) (e : Entry) (hd : Dom k e) :
    ((storedItems k e).map (·.1)).Nodup ∧ (∀ p ∈ storedItems k e, '=' ∉ p.1 ∧ singleLine p.1 ∧ singleLine p.2) := by
  obtain ⟨c1, c2, c3, c4, c5, c6, c7⟩ := chfKey_ok k
  have hsc : singleLine (serChf k e.chf) := by
    have := fun c m => (numChars_plain c ((serChf_chars k e.chf).2 c m)).2.2
    exact ⟨fun m => (this _ m).1 rfl, fun m => (this _ m).2 rfl⟩
  have hv1 : k.chfKey ∉ e.vals.map (·.1) := by
    intro m; obtain ⟨p, hp, he⟩ := List.mem_map.mp m; exact (hd.keys p hp).2.2.1 he
  have hv2 : eclassesKey ∉ e.vals.map (·.1) := by
    intro m; obtain ⟨p, hp, he⟩ := List.mem_map.mp m; exact (hd.keys p hp).2.2.2 he
  cases hes : e.eclasses with
  | none =>
    simp only [storedItems, hes, List.append_nil]
    constructor
    · simp only [List.map_append, List.map_cons, List.map_nil]
      rw [List.nodup_append]
      exact ⟨hd.nodup, by simp, by
        intro a ha b hb
        simp only [List.mem_singleton] at hb
        subst hb
        intro e'; subst e'; exact hv1 ha⟩
    · intro p hp
      simp only [List.mem_append, List.mem_singleton] at hp
      rcases hp with hp | rfl
      · exact ⟨(hd.keys p hp).1, (hd.keys p hp).2.1, hd.values p hp⟩
      · exact ⟨c1, c2, hsc⟩
  | some es =>
    have hde := deconstruct_singleLine k es (hd.eclasses es hes)
    simp only [storedItems, hes]
    constructor
    · simp only [List.map_append, List.map_cons, List.map_nil, List.append_assoc, List.singleton_append]
      rw [List.nodup_append]
      refine ⟨hd.nodup, ?_, ?_⟩
      · simp only [List.nodup_cons, List.mem_singleton, List.not_mem_nil, not_false_eq_true, List.nodup_nil, and_true]
        exact fun e' => c3 e'.symm
      · intro a ha b hb
        simp only [List.mem_cons, List.not_mem_nil, or_false] at hb
        rcases hb with rfl | rfl
        · intro e'; subst e'; exact hv2 ha
        · intro e'; subst e'; exact hv1 ha
    · intro p hp
      simp only [List.mem_append, List.mem_singleton] at hp
      rcases hp with (hp | rfl) | rfl
      · exact ⟨(hd.keys p hp).1, (hd.keys p hp).2.1, hd.values p hp⟩
      · exact ⟨c5, c6, hde⟩
      · exact ⟨c1, c2, hsc⟩

theorem renderEntry_lines (k : Kind) (e : Entry) :
    renderEntry k e = ((sortItems (storedItems k e)).map fun p => p.1 ++ '=' :: p.2).flatMap fun l => l ++ ['\n'] := by
  unfold renderEntry
  rw [List.flatMap_map]

theorem parseEntry_render (k : Kind) (e : Entry) (hd : Dom k e) :
    ∃ r, parseEntry k (renderEntry k e) = .ok r ∧ SameEntry r (expected k e) := by
  obtain ⟨c1, c2, c3, c4, c5, c6, c7⟩ := chfKey_ok k
  obtain ⟨hnd, hall⟩ := storedItems_ok k e hd
  have hperm := sortItems_perm (storedItems k e)
  have hmem : ∀ p, p ∈ sortItems (storedItems k e) ↔ p ∈ storedItems k e := fun p => hperm.mem_iff
  have hnds : ((sortItems (storedItems k e)).map (·.1)).Nodup := (hperm.map (·.1)).nodup_iff.mpr hnd
  have hlines : ∀ l ∈ (sortItems (storedItems k e)).map (fun p => p.1 ++ '=' :: p.2), singleLine l := by
    intro l hl
    obtain ⟨p, hp, rfl⟩ := List.mem_map.mp hl
    obtain ⟨_, h2, h3⟩ := hall p ((hmem p).mp hp)
    constructor
    · simp only [List.mem_append, List.mem_cons, not_or]; exact ⟨h2.1, by decide, h3.1⟩
    · simp only [List.mem_append, List.mem_cons, not_or]; exact ⟨h2.2, by decide, h3.2⟩
  -- the dict built by _parse_data
  let d := (sortItems (storedItems k e)).filter fun p => known k p.1
  have hdnd : (d.map (·.1)).Nodup :=
    ((List.filter_sublist (l := sortItems (storedItems k e))).map (fun p : Str × Str => p.1)).nodup hnds
  have hparse : parseLines k (fileLines (renderEntry k e)) [] = .ok d := by
    rw [renderEntry_lines, fileLines_render _ hlines]
    have := parseLines_render k (sortItems (storedItems k e)) []
      (fun p hp => (hall p ((hmem p).mp hp)).1) (by simpa using hdnd)
    simpa using this
  have hin : ∀ a b, (a, b) ∈ storedItems k e → known k a = true → d.lookup a = some b := by
    intro a b hab hk
    apply lookup_of_mem d a b hdnd
    exact List.mem_filter.mpr ⟨(hmem _).mpr hab, by simpa using hk⟩
  have hchf : d.lookup k.chfKey = some (serChf k e.chf) := hin _ _ (by simp [storedItems]) c4
  -- ordinary keys
  have hvals : (d.filter fun p => p.1 != k.chfKey && p.1 != eclassesKey).Perm (e.vals.filter fun p => known k p.1) := by
    have h1 : (d.filter fun p => p.1 != k.chfKey && p.1 != eclassesKey)
        = (sortItems (storedItems k e)).filter fun p => (known k p.1) && (p.1 != k.chfKey && p.1 != eclassesKey) := by
      simp only [d, List.filter_filter]
      congr 1; funext p; exact Bool.and_comm _ _
    rw [h1]
    refine (hperm.filter _).trans ?_
    have hv : e.vals.filter (fun p => (known k p.1) && (p.1 != k.chfKey && p.1 != eclassesKey))
        = e.vals.filter fun p => known k p.1 := by
      apply List.filter_congr
      intro p hp
      have := hd.keys p hp
      have a1 : (p.1 != k.chfKey) = true := by simpa using this.2.2.1
      have a2 : (p.1 != eclassesKey) = true := by simpa using this.2.2.2
      simp [a1, a2]
    have htail : ∀ l : Items, (∀ p ∈ l, p.1 = k.chfKey ∨ p.1 = eclassesKey) →
        l.filter (fun p => (known k p.1) && (p.1 != k.chfKey && p.1 != eclassesKey)) = [] := by
      intro l hl
      apply List.filter_eq_nil_iff.mpr
      intro p hp
      rcases hl p hp with h | h <;> simp [h]
    unfold storedItems
    rw [List.filter_append, List.filter_append, hv,
      htail [(k.chfKey, serChf k e.chf)] (by simp),
      htail _ (by cases e.eclasses <;> simp)]
    simp
  unfold parseEntry
  rw [hparse]
  simp only [hchf, deser_ser k e.chf hd.chf]
  cases hes : e.eclasses with
  | none =>
    have : d.lookup eclassesKey = none := by
      apply lookup_none
      intro m
      obtain ⟨p, hp, he⟩ := List.mem_map.mp m
      have hp' := (hmem p).mp (List.mem_filter.mp hp).1
      simp only [storedItems, hes, List.append_nil, List.mem_append, List.mem_singleton] at hp'
      rcases hp' with hp' | rfl
      · exact (hd.keys p hp').2.2.2 he
      · exact c3 he
    simp only [this]
    exact ⟨_, rfl, hvals, rfl, by simp [expected, hes]⟩
  | some es =>
    have : d.lookup eclassesKey = some (deconstruct k es) := hin _ _ (by simp [storedItems, hes]) c7
    simp only [this, reconstruct_deconstruct k es (hd.eclasses es hes)]
    exact ⟨_, rfl, hvals, rfl, by simp [expected, hes]⟩

/-! ## storing: temp file + rename, every prefix -/

/-- generic crash-point lemma: `prep` only ever touches `tmp` and leaves `new` there; then renaming
`tmp` over `target` gives, at every prefix, old-or-new at `target` and leaves every third path alone -/
theorem temp_rename_prefix (prep : List FsOp) (tmp target new : Str) (fs : Fs) (hne : tmp ≠ target)
    (hprep : ∀ q, q ≠ tmp → ∀ op ∈ prep, touches op q = false)
    (htmp : (run prep fs).read tmp = some new) (k : Nat) :
    ((run ((prep ++ [FsOp.rename tmp target]).take k) fs).read target = fs.read target ∨
     (run ((prep ++ [FsOp.rename tmp target]).take k) fs).read target = some new) ∧
    (∀ q, q ≠ tmp → q ≠ target → (run ((prep ++ [FsOp.rename tmp target]).take k) fs).read q = fs.read q) := by
  by_cases hk : k ≤ prep.length
  · rw [List.take_append_of_le_length hk]
    have hsub : ∀ q, q ≠ tmp → ∀ op ∈ prep.take k, touches op q = false :=
      fun q hq op hop => hprep q hq op (List.mem_of_mem_take hop)
    exact ⟨Or.inl (run_untouched _ fs _ (hsub _ hne.symm)), fun q h1 _ => run_untouched _ fs q (hsub q h1)⟩
  · have : (prep ++ [FsOp.rename tmp target]).take k = prep ++ [FsOp.rename tmp target] := by
      apply List.take_of_length_le
      simp; omega
    rw [this, run_append, run_single]
    simp only [step, htmp]
    refine ⟨Or.inr (by simp only [read_put, if_true]), ?_⟩
    intro q h1 h2
    rw [read_put, if_neg h2, read_del, if_neg h1]
    exact run_untouched _ fs q (hprep q h1)

theorem temp_rename_final (prep : List FsOp) (tmp target new : Str) (fs : Fs) (hne : tmp ≠ target)
    (htmp : (run prep fs).read tmp = some new) :
    (run (prep ++ [FsOp.rename tmp target]) fs).read target = some new ∧
    (run (prep ++ [FsOp.rename tmp target]) fs).read tmp = none := by
  rw [run_append, run_single]
  simp only [step, htmp]
  exact ⟨by simp only [read_put, if_true], by rw [read_put, if_neg hne, read_del, if_pos rfl]⟩

/-- everything of `storeOps` before the rename -/
def storePrep (pid cpv : Str) (gid : Int) (mkdirs : List Str) (chunks : List Str) : List FsOp :=
  mkdirs.map .mkdir ++ [.creat (tmpOf pid cpv)] ++ chunks.map (.write (tmpOf pid cpv))
    ++ [.close (tmpOf pid cpv), .chown (tmpOf pid cpv) (-1) gid, .chmod (tmpOf pid cpv) entryPerms]

theorem storeOps_eq (pid cpv : Str) (gid : Int) (mkdirs chunks : List Str) :
    storeOps pid cpv gid mkdirs chunks = storePrep pid cpv gid mkdirs chunks ++ [.rename (tmpOf pid cpv) cpv] := by
  simp [storeOps, storePrep]

theorem storePrep_untouched (pid cpv : Str) (gid : Int) (mkdirs chunks : List Str) (q : Str) (hq : q ≠ tmpOf pid cpv) :
    ∀ op ∈ storePrep pid cpv gid mkdirs chunks, touches op q = false := by
  intro op hop
  have hne : (tmpOf pid cpv == q) = false := by simpa using fun e => hq e.symm
  simp only [storePrep, List.mem_append, List.mem_cons, List.mem_map, List.not_mem_nil, or_false] at hop
  rcases hop with ((⟨d, _, rfl⟩ | rfl) | ⟨d, _, rfl⟩) | rfl | rfl | rfl <;> simp [touches, hne]

theorem run_mkdirs (ds : List Str) (fs : Fs) : run (ds.map .mkdir) fs = fs := by
  induction ds with
  | nil => rfl
  | cons d r ih => simpa [run, step] using ih

theorem storePrep_tmp (pid cpv : Str) (gid : Int) (mkdirs chunks : List Str) (fs : Fs) :
    (run (storePrep pid cpv gid mkdirs chunks) fs).read (tmpOf pid cpv) = some chunks.flatten := by
  unfold storePrep
  rw [run_append, run_append, run_append, run_mkdirs]
  have h0 : (run [.creat (tmpOf pid cpv)] fs).read (tmpOf pid cpv) = some [] := by
    simp [run, step, read_put]
  have := run_writes (tmpOf pid cpv) chunks _ [] h0
  simpa [run, step] using this

/-! ## the temporary name is never a listed name -/

theorem splitOn_no_sep (sep : Char) (a : Str) : ∀ f ∈ splitOn sep a, sep ∉ f := by
  induction a with
  | nil => simp [splitOn]
  | cons c cs ih =>
    by_cases h : c = sep
    · simp only [splitOn, h, if_true, List.mem_cons]
      intro f hf
      rcases hf with rfl | hf
      · simp
      · exact ih f hf
    · obtain ⟨hd, tl, h1, h2⟩ := splitOn_cons_ne sep c cs h
      rw [h2]
      rw [h1] at ih
      intro f hf
      simp only [List.mem_cons] at hf
      rcases hf with rfl | hf
      · simp only [List.mem_cons, not_or]
        exact ⟨fun e => h e.symm, ih hd (by simp)⟩
      · exact ih f (by simp [hf])

theorem isPrefixOf_append (a b : Str) : a.isPrefixOf (a ++ b) = true := by
  induction a with
  | nil => simp [List.isPrefixOf]
  | cons c cs ih => simp [ih]

theorem okName_tmpBase (pid base : Str) : okName (tmpBase pid base) = false := by
  have : (tag ".update.").isPrefixOf (tmpBase pid base) = true := by
    unfold tmpBase
    rw [List.append_assoc]
    exact isPrefixOf_append _ _
  simp [okName, this]

theorem comps_tmpOf (pid cpv : Str) (hpid : '/' ∉ pid) :
    splitOn '/' (tmpOf pid cpv)
      = (splitOn '/' cpv).dropLast ++ [tmpBase pid ((splitOn '/' cpv).getLast?.getD [])] := by
  unfold tmpOf
  apply splitOn_joinWith
  · simp
  · intro f hf
    simp only [List.mem_append, List.mem_singleton] at hf
    rcases hf with hf | rfl
    · exact splitOn_no_sep '/' cpv f (List.dropLast_subset _ hf)
    · have hlast : '/' ∉ (splitOn '/' cpv).getLast?.getD [] := by
        cases hl : (splitOn '/' cpv).getLast? with
        | none => simp
        | some l => exact splitOn_no_sep '/' cpv l (List.mem_of_getLast? hl)
      simp only [tmpBase, List.mem_append, List.mem_cons, not_or]
      exact ⟨⟨by decide, hpid⟩, by decide, hlast⟩

theorem tmpOf_not_listed (pid cpv : Str) (hpid : '/' ∉ pid) : (splitOn '/' (tmpOf pid cpv)).all okName = false := by
  rw [comps_tmpOf pid cpv hpid]
  simp [okName_tmpBase]

theorem tmpOf_ne (pid cpv : Str) (hpid : '/' ∉ pid) : tmpOf pid cpv ≠ cpv := by
  intro h
  have h1 := comps_tmpOf pid cpv hpid
  rw [h] at h1
  cases hl : (splitOn '/' cpv).getLast? with
  | none => exact splitOn_ne_nil '/' cpv (List.getLast?_eq_none_iff.mp hl)
  | some l =>
    have h2 : splitOn '/' cpv = (splitOn '/' cpv).dropLast ++ [l] := by
      have hne := splitOn_ne_nil '/' cpv
      have := List.dropLast_concat_getLast hne
      rw [List.getLast?_eq_some_getLast hne] at hl
      simp only [Option.some.injEq] at hl
      rw [hl] at this
      exact this.symm
    rw [hl] at h1
    have h3 : (splitOn '/' cpv).dropLast ++ [l] = (splitOn '/' cpv).dropLast ++ [tmpBase pid l] := by
      rw [← h2]; simpa using h1
    have := List.append_cancel_left h3
    simp only [List.cons.injEq, and_true] at this
    have hlen := congrArg List.length this
    simp [tmpBase, tag] at hlen
    omega

theorem read_isSome_iff (fs : Fs) (p : Str) : (fs.read p).isSome = true ↔ p ∈ fs.map (·.1) := by
  induction fs with
  | nil => simp [Fs.read, List.lookup]
  | cons x r ih =>
    obtain ⟨a, b⟩ := x
    simp only [Fs.read] at ih
    by_cases h : p = a
    · subst h; simp [Fs.read, List.lookup]
    · have : (p == a) = false := by simpa using h
      simp [Fs.read, List.lookup, this, ih, h]

end Pkgcore.C27
