import Pkgcore.Spec.C04
import Pkgcore.Proofs.C02
/-! helper lemmas for C04 -/
namespace Pkgcore.C04
open Pkgcore.C01 Pkgcore.C01.Spec Pkgcore.C02 Pkgcore.C04.Spec Std

/-! ### USE deps -/

theorem all_and {α : Type} (l : List α) (f g : α → Bool) :
    (l.all f && l.all g) = l.all (fun x => f x && g x) := by
  induction l with
  | nil => rfl
  | cons a l ih =>
    simp only [List.all_cons, ← ih]
    cases f a <;> cases g a <;> simp

theorem all_bucket (l : List UseDep) (c : UseDep → Bool) (g : Str → Bool) :
    ((l.filter c).map (·.flag)).all g = l.all (fun u => !c u || g u.flag) := by
  induction l with
  | nil => rfl
  | cons a l ih =>
    by_cases h : c a = true
    · simp [List.filter_cons, h, ih]
    · simp only [Bool.not_eq_true] at h
      simp [List.filter_cons, h, ih]

theorem containment_on (vals use : List Str) :
    containment vals true false use = vals.all (fun f => use.contains f) := by
  simp [containment]

theorem containment_off (vals use : List Str) :
    containment vals false true use = vals.all (fun f => !use.contains f) := by
  simp [containment]

theorem staticUseDep_eq (F T : List Str) (p : Pkg) :
    staticUseDep F T p = (F.all (fun f => !p.use.contains f) && T.all (fun f => p.use.contains f)) := by
  unfold staticUseDep
  rw [containment_on, containment_off]
  cases F <;> cases T <;> simp

/-- the state the property assigns to `flag` in `p` when the default for missing flags is `m` -/
def stateD (p : Pkg) (m : Bool) (f : Str) : Bool := if p.iuse.contains f then p.use.contains f else m

theorem all_split (vals : List Str) (c g : Str → Bool) :
    vals.all g = ((vals.filter c).all g && (vals.filter (fun f => !c f)).all g) := by
  induction vals with
  | nil => rfl
  | cons a l ih =>
    cases h : c a <;> simp [List.filter_cons, h, ih, Bool.and_assoc, Bool.and_left_comm]

theorem all_congr' {α : Type} (l : List α) (f g : α → Bool) (h : ∀ x ∈ l, f x = g x) : l.all f = l.all g := by
  induction l with
  | nil => rfl
  | cons a l ih =>
    simp only [List.all_cons]
    rw [h a (List.mem_cons_self), ih (fun x hx => h x (List.mem_cons_of_mem a hx))]

theorem stateD_in (p : Pkg) (m : Bool) (f : Str) (h : p.iuse.contains f = true) :
    stateD p m f = p.use.contains f := by simp only [stateD, h, if_true]

theorem stateD_out (p : Pkg) (m : Bool) (f : Str) (h : p.iuse.contains f = false) :
    stateD p m f = m := by simp only [stateD, h, Bool.false_eq_true, if_false]

theorem exists_of_not_all (l : List Str) (c : Str → Bool) (h : ¬ l.all c = true) : ∃ f ∈ l, c f = false := by
  induction l with
  | nil => simp at h
  | cons a l ih =>
    cases hc : c a
    · exact ⟨a, List.mem_cons_self, hc⟩
    · simp only [List.all_cons, hc, Bool.true_and] at h
      obtain ⟨f, hf, h'⟩ := ih h
      exact ⟨f, List.mem_cons_of_mem a hf, h'⟩

theorem containment_state (vals : List Str) (neg : Bool) (p : Pkg) (m : Bool)
    (hin : ∀ f ∈ vals, p.iuse.contains f = true) :
    containment vals (!neg) neg p.use = vals.all (fun f => stateD p m f == !neg) := by
  cases neg
  · simp only [Bool.not_false, containment_on]
    apply all_congr'
    intro f hf; rw [stateD_in p m f (hin f hf)]; cases p.use.contains f <;> rfl
  · simp only [Bool.not_true, containment_off]
    apply all_congr'
    intro f hf; rw [stateD_in p m f (hin f hf)]; cases p.use.contains f <;> rfl

theorem useDefaultContainment_eq (m : Bool) (vals : List Str) (neg : Bool) (p : Pkg) :
    useDefaultContainment m vals neg p.iuse p.use = vals.all (fun f => stateD p m f == !neg) := by
  unfold useDefaultContainment
  by_cases hall : vals.all (fun f => p.iuse.contains f) = true
  · simp only [hall, if_true]
    exact containment_state vals neg p m (fun f hf => List.all_eq_true.mp hall f hf)
  · simp only [hall, if_false, Bool.false_eq_true]
    obtain ⟨f0, hf0, h0⟩ := exists_of_not_all vals _ hall
    by_cases hm : (m == neg) = true
    · simp only [hm, if_true]
      symm
      apply Bool.eq_false_iff.mpr
      intro hc
      have := List.all_eq_true.mp hc f0 hf0
      rw [stateD_out p m f0 h0] at this
      cases m <;> cases neg <;> simp_all
    · simp only [hm, Bool.false_eq_true, if_false]
      have hm' : m = !neg := by cases m <;> cases neg <;> simp_all
      rw [all_split vals (fun f => p.iuse.contains f) (fun f => stateD p m f == !neg)]
      have h2 : ((vals.filter (fun f => !p.iuse.contains f)).all (fun f => stateD p m f == !neg)) = true := by
        apply List.all_eq_true.mpr
        intro f hf
        have := (List.mem_filter.mp hf).2
        have hout : p.iuse.contains f = false := by cases h : p.iuse.contains f <;> simp_all
        rw [stateD_out p m f hout, hm']; cases neg <;> rfl
      rw [h2, Bool.and_true]
      have hred : (if (!(vals.filter fun f => p.iuse.contains f).isEmpty) = true then
            containment (vals.filter fun f => p.iuse.contains f) (!neg) neg p.use else true)
          = containment (vals.filter fun f => p.iuse.contains f) (!neg) neg p.use := by
        cases hl : vals.filter (fun f => p.iuse.contains f) with
        | nil => cases neg <;> simp [containment]
        | cons a l => simp
      rw [hred]
      exact containment_state _ neg p m (fun f hf => (List.mem_filter.mp hf).2)

theorem useDepDefault_eq (m : Bool) (F T : List Str) (p : Pkg) :
    useDepDefault m F T p =
      (F.all (fun f => stateD p m f == false) && T.all (fun f => stateD p m f == true)) := by
  unfold useDepDefault
  rw [useDefaultContainment_eq, useDefaultContainment_eq]
  cases F <;> cases T <;> simp

theorem useRestrs_eq (deps : List UseDep) (p : Pkg) : useRestrs deps p = deps.all (useHolds p) := by
  unfold useRestrs
  simp only [staticUseDep_eq, useDepDefault_eq]
  have emp : ∀ (A B : List Str) (f g : Str → Bool), (A.isEmpty && B.isEmpty) = true →
      (A.all f && B.all g) = true := by
    intro A B f g h
    cases A <;> cases B <;> simp_all
  have last : ∀ (e v : Bool), (e = true → v = true) → (if e = true then [] else [v]).all id = v := by
    intro e v h
    cases e
    · simp
    · simp [h rfl]
  rw [List.all_append, List.all_append, last _ _ (emp _ _ _ _), last _ _ (emp _ _ _ _), last _ _ (emp _ _ _ _)]
  simp only [bucket, all_bucket, all_and]
  apply all_congr'
  intro u _
  obtain ⟨flag, on, dflt⟩ := u
  simp only [useHolds, flagState, stateD]
  cases on <;> cases dflt with
  | none => cases p.iuse.contains flag <;> cases p.use.contains flag <;> rfl
  | some d => cases d <;> cases p.iuse.contains flag <;> cases p.use.contains flag <;> rfl

end Pkgcore.C04

namespace Pkgcore.C04
open Pkgcore.C01 Pkgcore.C01.Spec Pkgcore.C02 Pkgcore.C04.Spec Std

/-! ### the `=*` glob: written components as values -/

attribute [local instance] lexOrd

/-- a version component reduced to its PMS value (the pieces of `cpv.ver_hash_key`) -/
inductive VTok
  | num (k : CompK)
  | letter (c : Char)
  | suf (s : Suf) (n : Nat)
  | rev (n : Nat)
  deriving DecidableEq, Repr

def val : Tok → VTok
  | .first s => .num (.int (natOfDigits s))
  | .comp s => .num (compK s)
  | .letter c => .letter c
  | .suf s n => .suf s (natOfDigits n)
  | .rev n => .rev (natOfDigits n)

/-- tokens on which `tokEq` is literally equality of values: no `first` token, numeric components are digit strings -/
def TokOk : Tok → Prop
  | .first _ => False
  | .comp s => digits s
  | _ => True

theorem pmsComp_eq_iff_compK (a b : Str) (ha : digits a) (hb : digits b) :
    (pmsComp a b == .eq) = decide (compK a = compK b) := by
  rw [pmsComp_eq_key a b ha hb]
  have h1 : (compare (compKey a) (compKey b) = .eq) ↔ compKey a = compKey b :=
    LawfulEqCmp.compare_eq_iff_eq (cmp := (compare : CompKey → CompKey → Ordering))
  by_cases h : compK a = compK b
  · have := h1.mpr ((compK_eq_iff a b).mp h)
    simp [h, this]
  · have : compare (compKey a) (compKey b) ≠ .eq := fun e => h ((compK_eq_iff a b).mpr (h1.mp e))
    simp [h, this]

theorem tokEq_val (a b : Tok) (ha : TokOk a) (hb : TokOk b) : tokEq a b = decide (val a = val b) := by
  cases a with
  | first s => exact absurd ha id
  | comp s =>
    cases b with
    | first t => exact absurd hb id
    | comp t => simp only [tokEq, val, VTok.num.injEq]; exact pmsComp_eq_iff_compK s t ha hb
    | _ => simp [tokEq, val]
  | letter c =>
    cases b with
    | first t => exact absurd hb id
    | letter d => by_cases h : c = d <;> simp [tokEq, val, h]
    | _ => simp [tokEq, val]
  | suf s n =>
    cases b with
    | first t => exact absurd hb id
    | suf t m => by_cases h1 : s = t <;> by_cases h2 : natOfDigits n = natOfDigits m <;> simp [tokEq, val, h1, h2]
    | _ => simp [tokEq, val]
  | rev n =>
    cases b with
    | first t => exact absurd hb id
    | rev m => by_cases h : natOfDigits n = natOfDigits m <;> simp [tokEq, val, h]
    | _ => simp [tokEq, val]

theorem prefixBy_val (l1 l2 : List Tok) (h1 : ∀ t ∈ l1, TokOk t) (h2 : ∀ t ∈ l2, TokOk t) :
    prefixBy tokEq l1 l2 = (l1.map val).isPrefixOf (l2.map val) := by
  induction l1 generalizing l2 with
  | nil => simp [prefixBy]
  | cons a l1 ih =>
    cases l2 with
    | nil => simp [prefixBy]
    | cons b l2 =>
      simp only [prefixBy, List.map_cons, List.isPrefixOf]
      rw [tokEq_val a b (h1 a List.mem_cons_self) (h2 b List.mem_cons_self),
        ih l2 (fun t ht => h1 t (List.mem_cons_of_mem a ht)) (fun t ht => h2 t (List.mem_cons_of_mem b ht))]
      rfl

/-- the value tokens of a `ver_hash_key` -/
def vtoks (k : VKey) : List VTok :=
  k.nums.map .num ++ ((k.letter.map VTok.letter).toList ++
    (k.sufs.map (fun x => VTok.suf x.1 x.2) ++ (if k.rev = 0 then [] else [VTok.rev k.rev])))

theorem globSpec_vtoks (gv : Ver) (gr : Str) (v : Ver) (r : Str) (hg : WF gv) (hv : WF v) :
    globSpec gv gr v r = (vtoks (verHashKey gv gr)).isPrefixOf (vtoks (verHashKey v r)) := by
  obtain ⟨n1, d1⟩ := hg
  obtain ⟨n2, d2⟩ := hv
  unfold globSpec toks vtoks verHashKey
  cases hc1 : gv.comps with
  | nil => exact absurd hc1 n1
  | cons a as =>
    cases hc2 : v.comps with
    | nil => exact absurd hc2 n2
    | cons b bs =>
      simp only [List.cons_append, List.append_assoc, prefixBy, List.headD_cons, List.tail_cons, List.map_cons,
        List.isPrefixOf, tokEq]
      have ok : ∀ (cs : List Str) (l : Option Char) (sf : List (Suf × Str)) (rv : Str), (∀ c ∈ cs, digits c) →
          ∀ t ∈ cs.map Tok.comp ++ ((l.map Tok.letter).toList ++
            (sf.map (fun x => Tok.suf x.1 x.2) ++ (if natOfDigits rv = 0 then [] else [Tok.rev rv]))), TokOk t := by
        intro cs l sf rv hd t ht
        simp only [List.mem_append, List.mem_map] at ht
        rcases ht with ⟨c, hc, rfl⟩ | ht | ⟨x, _, rfl⟩ | ht
        · exact hd c hc
        · cases l <;> simp at ht; subst ht; trivial
        · trivial
        · split at ht <;> simp at ht; subst ht; trivial
      rw [prefixBy_val _ _ (ok as gv.letter gv.sufs gr (fun c hc => d1 c (by simp [hc1, hc])))
        (ok bs v.letter v.sufs r (fun c hc => d2 c (by simp [hc2, hc])))]
      have mp : ∀ (cs : List Str) (l : Option Char) (sf : List (Suf × Str)) (rv : Str),
          (cs.map Tok.comp ++ ((l.map Tok.letter).toList ++
            (sf.map (fun x => Tok.suf x.1 x.2) ++ (if natOfDigits rv = 0 then [] else [Tok.rev rv])))).map val =
          (cs.map compK).map VTok.num ++ ((l.map VTok.letter).toList ++
            ((sf.map fun x => (x.1, natOfDigits x.2)).map (fun x => VTok.suf x.1 x.2) ++
              (if natOfDigits rv = 0 then [] else [VTok.rev (natOfDigits rv)]))) := by
        intro cs l sf rv
        simp only [List.map_append, List.map_map]
        congr 1
        congr 1
        · cases l <;> rfl
        · congr 1
          split <;> rfl
      rw [mp, mp]
      congr 1
      by_cases h : natOfDigits a = natOfDigits b
      · simp [h]
      · have : ¬ VTok.num (CompK.int (natOfDigits a)) = VTok.num (CompK.int (natOfDigits b)) := by
          intro e; injection e with e; injection e with e; exact h e
        rw [beq_eq_false_iff_ne.mpr h, beq_eq_false_iff_ne.mpr this]

end Pkgcore.C04

namespace Pkgcore.C04
open Pkgcore.C01 Pkgcore.C02 Pkgcore.C04.Spec

/-! ### prefix of segmented lists -/

theorem beq_false' {α : Type} [BEq α] [LawfulBEq α] {a b : α} (h : a ≠ b) : (a == b) = false :=
  beq_eq_false_iff_ne.mpr h
theorem beq_self' {α : Type} [BEq α] [LawfulBEq α] (a : α) : (a == a) = true := beq_self_eq_true a
theorem cons_beq {α : Type} [DecidableEq α] (a b : α) (l1 l2 : List α) :
    (a :: l1 == b :: l2) = (a == b && l1 == l2) := by
  by_cases h : a = b
  · subst h
    by_cases h2 : l1 = l2
    · subst h2; rw [beq_self', beq_self', beq_self']; rfl
    · rw [beq_self', beq_false' h2, beq_false' (fun e => h2 (List.cons.inj e).2)]; rfl
  · rw [beq_false' h, beq_false' (fun e => h (List.cons.inj e).1)]; rfl

theorem isPrefixOf_seg {α : Type} [DecidableEq α] (K : α → Bool) (A1 A2 B1 B2 : List α)
    (hA1 : ∀ x ∈ A1, K x = true) (hA2 : ∀ x ∈ A2, K x = true)
    (hB1 : ∀ x ∈ B1, K x = false) (hB2 : ∀ x ∈ B2, K x = false) :
    (A1 ++ B1).isPrefixOf (A2 ++ B2) =
      if B1 = [] then A1.isPrefixOf A2 else (A1 == A2 && B1.isPrefixOf B2) := by
  induction A1 generalizing A2 with
  | nil =>
    cases B1 with
    | nil => simp [List.isPrefixOf]
    | cons b B1 =>
      have hb : K b = false := hB1 b List.mem_cons_self
      cases A2 with
      | nil => simp
      | cons a A2 =>
        have ha : K a = true := hA2 a List.mem_cons_self
        have : b ≠ a := fun e => by rw [e, ha] at hb; exact absurd hb (by decide)
        simp only [List.nil_append, List.cons_append, List.isPrefixOf, beq_false' this, Bool.false_and,
          reduceCtorEq, if_false]
        rw [beq_false' (by simp : ([] : List α) ≠ a :: A2)]; rfl
  | cons a1 A1 ih =>
    have ha1 : K a1 = true := hA1 a1 List.mem_cons_self
    cases A2 with
    | nil =>
      cases B2 with
      | nil => cases B1 <;> simp [List.isPrefixOf]
      | cons b2 B2 =>
        have hb2 : K b2 = false := hB2 b2 List.mem_cons_self
        have : a1 ≠ b2 := fun e => by rw [e, hb2] at ha1; exact absurd ha1 (by decide)
        have e2 : (a1 :: A1 == ([] : List α)) = false := beq_false' (by simp)
        cases B1 with
        | nil => simp only [List.append_nil, List.nil_append, List.isPrefixOf, beq_false' this, Bool.false_and, if_true]
        | cons b1 B1 =>
          simp only [List.cons_append, List.nil_append, List.isPrefixOf, beq_false' this, Bool.false_and,
            reduceCtorEq, if_false, e2]
    | cons a2 A2 =>
      simp only [List.cons_append, List.isPrefixOf]
      rw [ih A2 (fun x hx => hA1 x (List.mem_cons_of_mem a1 hx)) (fun x hx => hA2 x (List.mem_cons_of_mem a2 hx))]
      by_cases hB : B1 = []
      · simp only [hB, if_true]
      · simp only [hB, if_false, cons_beq, Bool.and_assoc]

theorem isPrefixOf_map_inj {α β : Type} [DecidableEq α] [DecidableEq β] (f : α → β)
    (hf : ∀ a b, f a = f b → a = b) (l1 l2 : List α) :
    (l1.map f).isPrefixOf (l2.map f) = l1.isPrefixOf l2 := by
  induction l1 generalizing l2 with
  | nil => simp [List.isPrefixOf]
  | cons a l1 ih =>
    cases l2 with
    | nil => simp [List.isPrefixOf]
    | cons b l2 =>
      simp only [List.map_cons, List.isPrefixOf, ih]
      by_cases h : a = b
      · subst h; rw [beq_self', beq_self']
      · have : f a ≠ f b := fun e => h (hf a b e)
        rw [beq_false' h, beq_false' this]

theorem map_beq_inj {α β : Type} [DecidableEq α] [DecidableEq β] (f : α → β)
    (hf : ∀ a b, f a = f b → a = b) (l1 l2 : List α) :
    (l1.map f == l2.map f) = (l1 == l2) := by
  by_cases h : l1 = l2
  · subst h; rw [beq_self', beq_self']
  · have : l1.map f ≠ l2.map f := fun e => h ((List.map_inj_right hf).mp e)
    rw [beq_false' h, beq_false' this]

theorem isPrefixOf_eq_take {α : Type} [DecidableEq α] (l1 l2 : List α) :
    l1.isPrefixOf l2 = (l2.take l1.length == l1) := by
  induction l1 generalizing l2 with
  | nil => simp [List.isPrefixOf]
  | cons a l1 ih =>
    cases l2 with
    | nil => simp only [List.isPrefixOf, List.take_nil]; exact (beq_false' (by simp)).symm
    | cons b l2 =>
      simp only [List.isPrefixOf, List.length_cons, List.take_succ_cons, ih, cons_beq]
      by_cases h : a = b
      · subst h; rfl
      · rw [beq_false' h, beq_false' (fun e => h e.symm)]

def isNum : VTok → Bool | .num _ => true | _ => false
def isLetter : VTok → Bool | .letter _ => true | _ => false
def isSuf : VTok → Bool | .suf _ _ => true | _ => false

/-- `cpv.ver_glob_match` on two keys is "value tokens of the glob are a prefix of the package's" -/
theorem globBody_vtoks (g k : VKey) :
    (if g.rev ≠ 0 then
        g.nums == k.nums && g.letter == k.letter && g.sufs == k.sufs && g.rev == k.rev
      else if g.sufs ≠ [] then
        g.nums == k.nums && g.letter == k.letter && k.sufs.take g.sufs.length == g.sufs
      else if g.letter ≠ none then
        g.nums == k.nums && g.letter == k.letter
      else
        k.nums.take g.nums.length == g.nums) = (vtoks g).isPrefixOf (vtoks k) := by
  obtain ⟨gn, gl, gs, gr⟩ := g
  obtain ⟨kn, kl, ks, kr⟩ := k
  unfold vtoks
  have numInj : ∀ a b : CompK, VTok.num a = VTok.num b → a = b := fun a b e => by injection e
  have sufInj : ∀ a b : Suf × Nat, VTok.suf a.1 a.2 = VTok.suf b.1 b.2 → a = b := fun a b e => by
    injection e with e1 e2; exact Prod.ext e1 e2
  -- kinds of the segments
  have kN : ∀ (l : List CompK), ∀ x ∈ l.map VTok.num, isNum x = true := by
    intro l x hx; simp only [List.mem_map] at hx; obtain ⟨_, _, rfl⟩ := hx; rfl
  have kRestN : ∀ (l : Option Char) (s : List (Suf × Nat)) (r : Nat),
      ∀ x ∈ (l.map VTok.letter).toList ++ (s.map (fun x => VTok.suf x.1 x.2) ++ (if r = 0 then [] else [VTok.rev r])),
        isNum x = false := by
    intro l s r x hx
    simp only [List.mem_append, List.mem_map, Option.mem_toList, Option.map_eq_some_iff] at hx
    rcases hx with ⟨_, _, rfl⟩ | ⟨_, _, rfl⟩ | hx
    · rfl
    · rfl
    · split at hx <;> simp at hx; subst hx; rfl
  have kL : ∀ (l : Option Char), ∀ x ∈ (l.map VTok.letter).toList, isLetter x = true := by
    intro l x hx
    simp only [Option.mem_toList, Option.map_eq_some_iff] at hx
    obtain ⟨_, _, rfl⟩ := hx; rfl
  have kRestL : ∀ (s : List (Suf × Nat)) (r : Nat),
      ∀ x ∈ s.map (fun x => VTok.suf x.1 x.2) ++ (if r = 0 then [] else [VTok.rev r]), isLetter x = false := by
    intro s r x hx
    simp only [List.mem_append, List.mem_map] at hx
    rcases hx with ⟨_, _, rfl⟩ | hx
    · rfl
    · split at hx <;> simp at hx; subst hx; rfl
  have kS : ∀ (s : List (Suf × Nat)), ∀ x ∈ s.map (fun x => VTok.suf x.1 x.2), isSuf x = true := by
    intro s x hx; simp only [List.mem_map] at hx; obtain ⟨_, _, rfl⟩ := hx; rfl
  have kRestS : ∀ (r : Nat), ∀ x ∈ (if r = 0 then [] else [VTok.rev r]), isSuf x = false := by
    intro r x hx
    split at hx <;> simp at hx; subst hx; rfl
  rw [isPrefixOf_seg isNum _ _ _ _ (kN gn) (kN kn) (kRestN gl gs gr) (kRestN kl ks kr),
    isPrefixOf_seg isLetter _ _ _ _ (kL gl) (kL kl) (kRestL gs gr) (kRestL ks kr),
    isPrefixOf_seg isSuf _ _ _ _ (kS gs) (kS ks) (kRestS gr) (kRestS kr),
    isPrefixOf_map_inj VTok.num numInj, map_beq_inj VTok.num numInj,
    isPrefixOf_map_inj (fun x : Suf × Nat => VTok.suf x.1 x.2) sufInj,
    map_beq_inj (fun x : Suf × Nat => VTok.suf x.1 x.2) sufInj,
    isPrefixOf_eq_take gn kn, isPrefixOf_eq_take gs ks]
  have letterEq : ∀ (a b : Option Char), ((a.map VTok.letter).toList == (b.map VTok.letter).toList) = (a == b) := by
    intro a b
    cases a <;> cases b
    · rfl
    · exact (beq_false' (by simp)).trans (beq_false' (by simp)).symm
    · exact (beq_false' (by simp)).trans (beq_false' (by simp)).symm
    · rename_i c d
      by_cases h : c = d
      · subst h; rw [beq_self', beq_self']
      · rw [beq_false' (fun e => h (Option.some.inj e))]
        exact beq_false' (by simp [h])
  have letterPre : ∀ (c : Char) (b : Option Char),
      ((some c).map VTok.letter).toList.isPrefixOf (b.map VTok.letter).toList = (some c == b) := by
    intro c b
    cases b with
    | none => exact (beq_false' (by simp)).symm
    | some d =>
      simp only [Option.map_some, Option.toList_some, List.isPrefixOf, Bool.and_true]
      by_cases h : c = d
      · subst h; rw [beq_self', beq_self']
      · rw [beq_false' (fun e => h (Option.some.inj e))]
        exact beq_false' (by simp [h])
  have revPre : ∀ (a b : Nat), a ≠ 0 → ([VTok.rev a].isPrefixOf (if b = 0 then [] else [VTok.rev b])) = (a == b) := by
    intro a b ha
    by_cases h0 : b = 0
    · subst h0; simp only [if_true, List.isPrefixOf]; exact (beq_false' ha).symm
    · simp only [h0, if_false, List.isPrefixOf, Bool.and_true]
      by_cases h : a = b
      · subst h; rw [beq_self', beq_self']
      · rw [beq_false' h]; exact beq_false' (by simp [h])
  simp only [letterEq]
  by_cases hr : gr = 0
  · subst hr
    by_cases hs : gs = []
    · subst hs
      cases gl with
      | none => simp
      | some c =>
        have := letterPre c kl
        simp only [Option.map_some, Option.toList_some] at this
        simp [this]
    · simp only [hs, if_false, ne_eq, not_false_eq_true, if_true, not_true_eq_false, List.append_nil,
        List.map_eq_nil_iff, List.append_eq_nil_iff, and_false]
      rw [Bool.eq_iff_iff]; simp only [Bool.and_eq_true, beq_iff_eq, and_assoc]
  · simp only [hr, if_false, ne_eq, not_false_eq_true, if_true, revPre gr kr hr, List.cons_ne_self,
      List.append_eq_nil_iff, and_false, List.cons_ne_nil]
    rw [Bool.eq_iff_iff]; simp only [Bool.and_eq_true, beq_iff_eq, and_assoc]

theorem verGlobMatch_eq_spec (gv : Ver) (gr : Str) (v : Ver) (r : Str) (hg : C01.Spec.WF gv) (hv : C01.Spec.WF v) :
    verGlobMatch gv gr v r = globSpec gv gr v r := by
  rw [globSpec_vtoks gv gr v r hg hv, ← globBody_vtoks]
  rfl

end Pkgcore.C04

namespace Pkgcore.C04
open Pkgcore.C01 Pkgcore.C01.Spec Pkgcore.C02 Pkgcore.C04.Spec

/-! ### the version restriction -/

theorem opVals_some (op : Op) (h : op ≠ .glob) : ∃ vals d, opVals (opText op) = some (vals, d) := by
  cases op
  case glob => exact absurd rfl h
  case lt => exact ⟨[-1], false, by decide⟩
  case le => exact ⟨[-1, 0], false, by decide⟩
  case eq => exact ⟨[0], false, by decide⟩
  case ge => exact ⟨[0, 1], false, by decide⟩
  case gt => exact ⟨[1], false, by decide⟩
  case tilde => exact ⟨[0], true, by decide⟩

theorem versionRestr_eq (op : Op) (v : Ver) (r : Str) (negate : Bool) (p : Pkg) (hv : WF v) (hp : WF p.ver) :
    versionRestr op v r negate p =
      if op = .glob then globSpec v r p.ver p.rev else (opSpec op v r p.ver p.rev != negate) := by
  have ok : RevsOk (some p.rev) (some r) := Or.inr ⟨rfl, rfl⟩
  have ok0 : RevsOk none none := Or.inl ⟨rfl, rfl⟩
  cases op
  case glob => simp only [versionRestr, if_true]; exact verGlobMatch_eq_spec v r p.ver p.rev hv hp
  case tilde =>
    have e : opVals (opText .tilde) = some ([0], true) := by decide
    simp only [versionRestr, e, versionMatch, if_true, verCmp_eq_pms_aux _ _ _ _ ok0, opSpec, reduceCtorEq, if_false]
    cases pmsCmp p.ver none v none <;> cases negate <;> decide
  case lt =>
    have e : opVals (opText .lt) = some ([-1], false) := by decide
    simp only [versionRestr, e, versionMatch, Bool.false_eq_true, if_false, verCmp_eq_pms_aux _ _ _ _ ok, opSpec, reduceCtorEq]
    cases pmsCmp p.ver (some p.rev) v (some r) <;> cases negate <;> decide
  case le =>
    have e : opVals (opText .le) = some ([-1, 0], false) := by decide
    simp only [versionRestr, e, versionMatch, Bool.false_eq_true, if_false, verCmp_eq_pms_aux _ _ _ _ ok, opSpec, reduceCtorEq]
    cases pmsCmp p.ver (some p.rev) v (some r) <;> cases negate <;> decide
  case eq =>
    have e : opVals (opText .eq) = some ([0], false) := by decide
    simp only [versionRestr, e, versionMatch, Bool.false_eq_true, if_false, verCmp_eq_pms_aux _ _ _ _ ok, opSpec, reduceCtorEq]
    cases pmsCmp p.ver (some p.rev) v (some r) <;> cases negate <;> decide
  case ge =>
    have e : opVals (opText .ge) = some ([0, 1], false) := by decide
    simp only [versionRestr, e, versionMatch, Bool.false_eq_true, if_false, verCmp_eq_pms_aux _ _ _ _ ok, opSpec, reduceCtorEq]
    cases pmsCmp p.ver (some p.rev) v (some r) <;> cases negate <;> decide
  case gt =>
    have e : opVals (opText .gt) = some ([1], false) := by decide
    simp only [versionRestr, e, versionMatch, Bool.false_eq_true, if_false, verCmp_eq_pms_aux _ _ _ _ ok, opSpec, reduceCtorEq]
    cases pmsCmp p.ver (some p.rev) v (some r) <;> cases negate <;> decide

/-- the spec with the version test replaced by an arbitrary Boolean (used for `negate_vers`) -/
def matchSpecWith (vt : Bool) (a : Atom) (p : Pkg) : Bool :=
  a.cat == p.cat && a.pkg == p.pkg && vt &&
  optEq a.slot p.slot && optEq a.subslot p.subslot && optEq a.repo p.repo &&
  (match a.use with
   | none => true
   | some deps => deps.all (useHolds p))

theorem atomMatch_eq (a : Atom) (p : Pkg) (hsub : a.subslot.isSome → a.slot.isSome) :
    atomMatch a p = matchSpecWith
      (match a.vop with | none => true | some (op, v, r) => versionRestr op v r a.negate p) a p := by
  obtain ⟨cat, pkg, vop, negate, blocks, strong, slot, subslot, slotOp, repo, use⟩ := a
  simp only at hsub
  cases repo <;> cases vop <;> cases slot <;> cases subslot <;> cases use <;>
    simp_all [atomMatch, restrictions, matchSpecWith, strExact, optEq, useRestrs_eq,
      Bool.and_assoc, Bool.and_comm, Bool.and_left_comm]

end Pkgcore.C04

namespace Pkgcore.C04
open Pkgcore.C01 Pkgcore.C01.Spec Pkgcore.C02 Pkgcore.C04.Spec Std

attribute [local instance] lexOrd

theorem key_of_pms_eq (v v' : Ver) (r r' : Str) (hv : WF v) (hv' : WF v')
    (h : pmsCmp v (some r) v' (some r') = .eq) : key v (some r) = key v' (some r') := by
  rw [pmsCmp_eq_key _ _ _ _ hv hv'] at h
  exact (LawfulEqCmp.compare_eq_iff_eq (cmp := (compare : Key → Key → Ordering))).mp h

theorem opSpec_congr (op : Op) (v : Ver) (r : Str) (pv : Ver) (pr : Str) (v' : Ver) (r' : Str)
    (hw : WF v) (hp : WF pv) (hv' : WF v') (heq : pmsCmp pv (some pr) v' (some r') = .eq) :
    opSpec op v r pv pr = opSpec op v r v' r' := by
  have hk := key_of_pms_eq pv v' pr r' hp hv' heq
  have hk0 : key pv none = key v' none := by
    simp only [key, Prod.mk.injEq] at hk ⊢
    exact ⟨hk.1, hk.2.1, hk.2.2.1, hk.2.2.2.1, trivial⟩
  have c1 : pmsCmp pv (some pr) v (some r) = pmsCmp v' (some r') v (some r) := by
    rw [pmsCmp_eq_key _ _ _ _ hp hw, pmsCmp_eq_key _ _ _ _ hv' hw, hk]
  have c0 : pmsCmp pv none v none = pmsCmp v' none v none := by
    rw [pmsCmp_eq_key _ _ _ _ hp hw, pmsCmp_eq_key _ _ _ _ hv' hw, hk0]
  cases op
  case glob =>
    simp only [opSpec]
    rw [← verGlobMatch_eq_spec v r pv pr hw hp, ← verGlobMatch_eq_spec v r v' r' hw hv']
    unfold verGlobMatch
    rw [(verHashKey_eq_iff pv v' pr r' hp hv').mpr hk]
  all_goals simp only [opSpec, c1, c0]

end Pkgcore.C04
