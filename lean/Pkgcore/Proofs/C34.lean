import Pkgcore.Spec.C34
/-! Helper lemmas for C34 (property theorems are in `Pkgcore/Props/C34.lean`). -/
namespace Pkgcore.C34
open Pkgcore.C34.Spec

/-! ## the simple scanning loops only move forward -/

theorem skipWhile_ge (p : Char → Bool) (b : Buf) (pos r : Nat) (h : skipWhile p b pos = some r) :
    pos ≤ r ∧ r < b.length := by
  fun_induction skipWhile p b pos with
  | case1 pos hlt hp ih => have := ih h; omega
  | case2 pos hlt hp => simp at h; omega
  | case3 pos hge => simp at h

theorem skipWhileLt_ge (p : Char → Bool) (b : Buf) (pos : Nat) : pos ≤ skipWhileLt p b pos := by
  fun_induction skipWhileLt p b pos with
  | case1 pos hlt hp ih => omega
  | case2 pos hlt hp => omega
  | case3 pos hge => omega

theorem findChar_ge (c : Char) (b : Buf) (pos r : Nat) (h : findChar c b pos = some r) :
    pos ≤ r ∧ r < b.length := by
  fun_induction findChar c b pos with
  | case1 pos hlt hc => simp at h; omega
  | case2 pos hlt hc ih => have := ih h; omega
  | case3 pos hge => simp at h

theorem findSub_ge (w : List Char) (b : Buf) (pos r : Nat) (h : findSub w b pos = some r) : pos ≤ r := by
  fun_induction findSub w b pos with
  | case1 pos hlt hs => simp at h; omega
  | case2 pos hlt hs ih => have := ih h; omega
  | case3 pos hge hw => simp at h; omega
  | case4 pos hge hw => simp at h

theorem walkNoParsing_ge (b : Buf) (pos : Nat) (e : Char) (h : pos < b.length) : pos ≤ walkNoParsing b pos e := by
  unfold walkNoParsing
  cases hf : findChar e b pos with
  | none => simp only [Option.getD_none]; exact Nat.le_sub_one_of_lt h
  | some r => simp only [Option.getD_some]; exact (findChar_ge e b pos r hf).1

/-- the form used at the call sites: a quote at `pos`, the walk starts behind it -/
theorem walkNoParsing_succ (b : Buf) (pos : Nat) (e : Char) (h : pos < b.length) :
    pos + 1 ≤ walkNoParsing b (pos + 1) e + 1 := by
  unfold walkNoParsing
  cases hf : findChar e b (pos + 1) with
  | none => simp only [Option.getD_none]; omega
  | some r => simp only [Option.getD_some]; have := (findChar_ge e b (pos + 1) r hf).1; omega

theorem walkDollaredQuote_ge (b : Buf) (pos : Nat) (e : Char) : pos ≤ walkDollaredQuote b pos e := by
  fun_induction walkDollaredQuote b pos e with
  | case1 pos hlt hc => omega
  | case2 pos hlt hc hb ih => omega
  | case3 pos hlt hc hb ih => omega
  | case4 pos hge => omega

theorem walkPound_ge (b : Buf) (pos : Nat) (e : Option Char) (r : Nat) (hlt : pos < b.length)
    (h : walkPound b pos e = .ok r) : pos ≤ r := by
  unfold walkPound at h
  simp only [] at h
  generalize hrest : (if e = some '`' then
      match findChar '\n' b pos, findChar '`' b pos with
      | none, some i2 => i2
      | some i, some i2 => min i i2
      | some i, none => i
      | none, none => b.length - 1
    else (findChar '\n' b pos).getD (b.length - 1)) = rest at h
  have hge : pos ≤ rest := by
    rw [← hrest]
    split
    · split
      · rename_i h2; exact (findChar_ge _ b pos _ h2).1
      · rename_i h1 h2
        exact Nat.le_min.2 ⟨(findChar_ge _ b pos _ h1).1, (findChar_ge _ b pos _ h2).1⟩
      · rename_i h1 _; exact (findChar_ge _ b pos _ h1).1
      · exact Nat.le_sub_one_of_lt hlt
    · cases hf : findChar '\n' b pos with
      | none => simp only [Option.getD_none]; exact Nat.le_sub_one_of_lt hlt
      | some r => simp only [Option.getD_some]; exact (findChar_ge _ b pos r hf).1
  split at h
  · simp only [Except.ok.injEq] at h; omega
  · split at h
    · simp at h
    · split at h <;> simp only [Except.ok.injEq] at h <;> omega

theorem hereSearch_ge (w : List Char) (b : Buf) (tabs : Bool) (ec : Char) (fuel : Nat) : ∀ (from_ e : Nat),
    hereSearch w b tabs ec from_ fuel = .ok (some e) → from_ ≤ e := by
  induction fuel with
  | zero => intro from_ e h; simp [hereSearch] at h
  | succ n ih =>
    intro from_ e h
    rw [hereSearch] at h
    split at h
    · simp at h
    · rename_i e' hf
      have h1 := findSub_ge w b from_ e' hf
      split at h
      · simp at h
      · rename_i c _
        by_cases hc : hereEnds w b tabs ec e' c = true
        · rw [if_pos hc] at h
          simp only [Except.ok.injEq, Option.some.injEq] at h; omega
        · rw [if_neg hc] at h
          have := ih _ _ h; omega

theorem isEnvvar_gt (b : Buf) (pos ns ne np : Nat) (h : isEnvvar b pos = some (ns, ne, np)) :
    pos ≤ ns ∧ ns < ne ∧ np = ne + 1 ∧ b[ne]? = some '=' := by
  unfold isEnvvar at h
  cases h1 : skipWhile (oneOf " \t") b pos with
  | none => simp only [h1, Option.bind_eq_bind, Option.bind_none, Option.bind_some, reduceCtorEq] at h
  | some start =>
    cases h2 : skipWhile (fun c => !oneOf "\x00\"'()- \t\n=" c) b start with
    | none => simp only [h1, h2, Option.bind_eq_bind, Option.bind_none, Option.bind_some, reduceCtorEq] at h
    | some p =>
      simp only [h1, h2, Option.bind_eq_bind, Option.bind_some] at h
      have g1 := skipWhile_ge _ b pos start h1
      have g2 := skipWhile_ge _ b start p h2
      split at h
      · rename_i heq
        split at h
        · simp at h
        · simp only [Option.some.injEq, Prod.mk.injEq] at h
          obtain ⟨rfl, rfl, rfl⟩ := h
          refine ⟨g1.1, by omega, rfl, heq⟩
      · simp at h

theorem isFunction_gt (b : Buf) (pos ns ne np : Nat) (h : isFunction b pos = some (ns, ne, np)) :
    pos < np ∧ np ≤ b.length := by
  unfold isFunction at h
  cases h1 : skipWhile (oneOf " \t") b pos with
  | none => simp only [h1, Option.bind_eq_bind, Option.bind_none, Option.bind_some, reduceCtorEq] at h
  | some p1 =>
    simp only [h1, Option.bind_eq_bind, Option.bind_some] at h
    have g1 := skipWhile_ge _ b pos p1 h1
    generalize hp2 : (if slice b p1 (p1 + 8) = "function".toList then
        (match b[p1 + 8]? with
         | some c => if isSpace c then p1 + 9 else p1
         | none => p1)
      else p1) = p2 at h
    have g2 : p1 ≤ p2 := by
      rw [← hp2]; split
      · split
        · split
          · exact Nat.le_add_right _ _
          · exact Nat.le_refl _
        · exact Nat.le_refl _
      · exact Nat.le_refl _
    cases h3 : skipWhile isSpace b p2 with
    | none => simp only [h3, Option.bind_eq_bind, Option.bind_none, Option.bind_some, reduceCtorEq] at h
    | some p3 =>
      simp only [h3, Option.bind_some] at h
      have g3 := skipWhile_ge _ b p2 p3 h3
      cases h4 : skipWhile (fun c => !oneOf "\x00 \t\n=\"'()" c) b p3 with
      | none => simp only [h4, Option.bind_eq_bind, Option.bind_none, Option.bind_some, reduceCtorEq] at h
      | some p4 =>
        simp only [h4, Option.bind_some] at h
        have g4 := skipWhile_ge _ b p3 p4 h4
        split at h
        · simp at h
        · cases h5 : skipWhile (oneOf " \t") b p4 with
          | none => simp only [h5, Option.bind_eq_bind, Option.bind_none, Option.bind_some, reduceCtorEq] at h
          | some p5 =>
            simp only [h5, Option.bind_some] at h
            have g5 := skipWhile_ge _ b p4 p5 h5
            split at h
            · simp at h
            · cases h6 : skipWhile (oneOf " \t") b (p5 + 1) with
              | none => simp only [h6, Option.bind_eq_bind, Option.bind_none, Option.bind_some, reduceCtorEq] at h
              | some p6 =>
                simp only [h6, Option.bind_some] at h
                have g6 := skipWhile_ge _ b (p5 + 1) p6 h6
                split at h
                · simp at h
                · cases h7 : skipWhile isSpace b (p6 + 1) with
                  | none => simp only [h7, Option.bind_eq_bind, Option.bind_none, Option.bind_some, reduceCtorEq] at h
                  | some p7 =>
                    simp only [h7, Option.bind_some] at h
                    have g7 := skipWhile_ge _ b (p6 + 1) p7 h7
                    split at h
                    · simp at h
                    · simp only [Option.some.injEq, Prod.mk.injEq] at h
                      obtain ⟨_, _, rfl⟩ := h
                      omega

/-! ## the fuel-indexed walkers only move forward -/

theorem bind_ok {α β : Type} {x : Except Err α} {f : α → Except Err β} {r : β}
    (h : (x >>= f) = .ok r) : ∃ a, x = .ok a ∧ f a = .ok r := by
  cases x with
  | error e => cases h
  | ok a => exact ⟨a, rfl, h⟩

/-- all walkers, at fuel `n`, return a position that is not before the one they started at -/
structure Mono (n : Nat) : Prop where
  here : ∀ b pos e r, walkHere n b pos e = .ok r → pos < r
  cloop : ∀ b st pos e l r, walkComplexLoop n b st pos e l = .ok r → pos ≤ r
  complex : ∀ b pos e l r, walkComplex n b pos e l = .ok r → pos ≤ r
  esc : ∀ b pos e r, walkEscaped n b pos e = .ok r → pos ≤ r
  dname : ∀ b pos e r, pos ≤ b.length → dollarName n b pos e = .ok r → pos ≤ r
  dbrace : ∀ b pos e r, dollarBrace n b pos e = .ok r → pos < r
  dollar : ∀ b pos e dq r, walkDollar n b pos e dq = .ok r → pos ≤ r
  assign : ∀ b pos e r, assignLoop n b pos e = .ok r → pos ≤ r
  sloop : ∀ emit b vm fm e s r, scopeLoop n emit b vm fm e s = .ok r → s.pos ≤ r.pos
  scope : ∀ emit b pos vm fm e r, processScope n emit b pos vm fm e = .ok r → pos ≤ r.pos

theorem getElem?_lt {b : Buf} {pos : Nat} {c : Char} (h : b[pos]? = some c) : pos < b.length := by
  have := (List.getElem?_eq_some_iff.1 h).1
  exact this

theorem mono_zero : Mono 0 := by
  refine ⟨?_, ?_, ?_, ?_, ?_, ?_, ?_, ?_, ?_, ?_⟩ <;> intros <;> rename_i h
  · rw [walkHere] at h; cases h
  · rw [walkComplexLoop] at h; cases h
  · rw [walkComplex] at h; cases h
  · rw [walkEscaped] at h; cases h
  · rw [dollarName] at h; cases h
  · rw [dollarBrace] at h; cases h
  · rw [walkDollar] at h; cases h
  · rw [assignLoop] at h; cases h
  · rw [scopeLoop] at h; cases h
  · rw [processScope] at h; cases h

theorem esc_step (n : Nat) (ih : Mono n) : ∀ b pos e r, walkEscaped (n + 1) b pos e = .ok r → pos ≤ r := by
  intro b pos e r h
  rw [walkEscaped] at h
  split at h
  · simp only [Except.ok.injEq] at h; omega
  · split at h
    · simp only [Except.ok.injEq] at h; omega
    · split at h
      · have := ih.esc _ _ _ _ h; omega
      · split at h
        · split at h
          · obtain ⟨p, hp, h⟩ := bind_ok h
            have := ih.esc _ _ _ _ hp; have := ih.esc _ _ _ _ h; omega
          · have := ih.esc _ _ _ _ h; omega
        · split at h
          · split at h
            · obtain ⟨p, hp, h⟩ := bind_ok h
              have := ih.esc _ _ _ _ hp; have := ih.esc _ _ _ _ h; omega
            · have := ih.esc _ _ _ _ h; omega
          · split at h
            · obtain ⟨p, hp, h⟩ := bind_ok h
              have := ih.esc _ _ _ _ hp; have := ih.esc _ _ _ _ h; omega
            · split at h
              · rename_i c hc _ _ _ _ _ _
                have := walkNoParsing_succ b pos '\'' (getElem?_lt hc)
                have := ih.esc _ _ _ _ h; omega
              · split at h
                · obtain ⟨p, hp, h⟩ := bind_ok h
                  have := ih.dollar _ _ _ _ _ hp; have := ih.esc _ _ _ _ h; omega
                · split at h
                  · rename_i c hc _ _ _ _ _ _ _ _
                    obtain ⟨p, hp, h⟩ := bind_ok h
                    have := walkPound_ge b pos _ p (getElem?_lt hc) hp
                    have := ih.esc _ _ _ _ h; omega
                  · have := ih.esc _ _ _ _ h; omega

theorem dname_step (n : Nat) (ih : Mono n) : ∀ b pos e r, pos ≤ b.length →
    dollarName (n + 1) b pos e = .ok r → pos ≤ r := by
  intro b pos e r hle h
  rw [dollarName] at h
  split at h
  · simp only [Except.ok.injEq] at h; omega
  · rename_i c hc
    have hlt := getElem?_lt hc
    split at h
    · simp only [Except.ok.injEq] at h; omega
    · split at h
      · simp only [Except.ok.injEq] at h; omega
      · split at h
        · have := ih.dollar _ _ _ _ _ h; omega
        · split at h
          · simp only [Except.ok.injEq] at h; omega
          · have := ih.dname _ _ _ _ (by omega) h; omega

theorem dbrace_step (n : Nat) (ih : Mono n) : ∀ b pos e r, dollarBrace (n + 1) b pos e = .ok r → pos < r := by
  intro b pos e r h
  rw [dollarBrace] at h
  split at h
  · simp only [Except.ok.injEq] at h; omega
  · split at h
    · simp only [Except.ok.injEq] at h; omega
    · split at h
      · obtain ⟨p, hp, h⟩ := bind_ok h
        have := ih.dollar _ _ _ _ _ hp; have := ih.dbrace _ _ _ _ h; omega
      · have := ih.dbrace _ _ _ _ h; omega

theorem dollar_step (n : Nat) (ih : Mono n) : ∀ b pos e dq r, walkDollar (n + 1) b pos e dq = .ok r → pos ≤ r := by
  intro b pos e dq r h
  rw [walkDollar] at h
  split at h
  · cases h
  · rename_i c hc
    have hlt := getElem?_lt hc
    split at h
    · obtain ⟨sr, hs, h⟩ := bind_ok h
      have := ih.scope _ _ _ _ _ _ _ hs
      simp only [pure, Except.pure, Except.ok.injEq] at h; omega
    · split at h
      · simp only [Except.ok.injEq] at h
        have := walkDollaredQuote_ge b (pos + 1) '\''; omega
      · split at h
        · split at h
          · simp only [Except.ok.injEq] at h; omega
          · exact ih.dname _ _ _ _ (by omega) h
        · have := ih.dbrace _ _ _ _ h; omega

theorem here_tail (b : Buf) (tabs : Bool) (ec : Char) (ws eh r : Nat)
    (h : (if eh + 1 ≥ b.length then (pure (eh + 1) : Except Err Nat) else do
        let s ← hereSearch (slice b ws eh) b tabs ec (eh + 1) (b.length + 1)
        match s with
          | none => pure b.length
          | some e => pure (e + (slice b ws eh).length)) = .ok r) : eh + 1 ≤ r ∨ r = b.length := by
  split at h
  · simp only [pure, Except.pure, Except.ok.injEq] at h; omega
  · obtain ⟨sr, hsr, h⟩ := bind_ok h
    split at h
    · simp only [pure, Except.pure, Except.ok.injEq] at h; omega
    · simp only [pure, Except.pure, Except.ok.injEq] at h
      have := hereSearch_ge _ b _ _ _ _ _ hsr; omega

theorem here_step (n : Nat) (ih : Mono n) : ∀ b pos e r, walkHere (n + 1) b pos e = .ok r → pos < r := by
  intro b pos ec r h
  rw [walkHere] at h
  simp only [] at h
  split at h
  · cases h
  · rename_i c hc
    split at h
    · simp only [Except.ok.injEq] at h; omega
    · have hs := skipWhileLt_ge (fun c => isSpace c || c = '-') b (pos + 1)
      generalize skipWhileLt (fun c => isSpace c || c = '-') b (pos + 1) = p at h hs
      split at h
      · cases h
      · rename_i q hq
        have hlt := getElem?_lt hq
        split at h
        · simp only [pure_bind] at h
          have := walkNoParsing_succ b p q hlt
          rcases here_tail b _ _ _ _ r h with h' | h' <;> omega
        · obtain ⟨e, he, h⟩ := bind_ok h
          simp only [pure_bind] at h
          have := ih.complex _ _ _ _ _ he
          rcases here_tail b _ _ _ _ r h with h' | h' <;> omega

theorem cloop_step (n : Nat) (ih : Mono n) : ∀ b st pos e l r,
    walkComplexLoop (n + 1) b st pos e l = .ok r → pos ≤ r := by
  intro b st pos e l r h
  rw [walkComplexLoop] at h
  split at h
  · simp only [Except.ok.injEq] at h; omega
  · rename_i ch hc
    have hlt := getElem?_lt hc
    split at h
    · split at h
      · simp only [Except.ok.injEq] at h; omega
      · split at h
        · simp only [Except.ok.injEq] at h; omega
        · split at h
          · cases h
          · split at h
            · simp only [Except.ok.injEq] at h; omega
            · have := ih.cloop _ _ _ _ _ _ h; omega
    · split at h
      · simp only [Except.ok.injEq] at h; omega
      · split at h
        · have := ih.cloop _ _ _ _ _ _ h; omega
        · split at h
          · split at h
            · obtain ⟨p, hp, h⟩ := bind_ok h
              have := ih.here _ _ _ _ hp; have := ih.cloop _ _ _ _ _ _ h; omega
            · have := ih.cloop _ _ _ _ _ _ h; omega
          · split at h
            · simp only [] at h
              split at h
              · cases h
              · obtain ⟨p, hp, h⟩ := bind_ok h
                have := walkPound_ge b pos _ p hlt hp
                have := ih.cloop _ _ _ _ _ _ h; omega
              · have := ih.cloop _ _ _ _ _ _ h; omega
            · split at h
              · obtain ⟨p, hp, h⟩ := bind_ok h
                have := ih.dollar _ _ _ _ _ hp; have := ih.cloop _ _ _ _ _ _ h; omega
              · split at h
                · obtain ⟨p, hp, h⟩ := bind_ok h
                  have := ih.esc _ _ _ _ hp; have := ih.cloop _ _ _ _ _ _ h; omega
                · split at h
                  · obtain ⟨p, hp, h⟩ := bind_ok h
                    have := ih.esc _ _ _ _ hp; have := ih.cloop _ _ _ _ _ _ h; omega
                  · split at h
                    · obtain ⟨p, hp, h⟩ := bind_ok h
                      have := ih.esc _ _ _ _ hp; have := ih.cloop _ _ _ _ _ _ h; omega
                    · split at h
                      · have := walkNoParsing_succ b pos '\'' hlt
                        have := ih.cloop _ _ _ _ _ _ h; omega
                      · have := ih.cloop _ _ _ _ _ _ h; omega

theorem complex_step (n : Nat) (ih : Mono n) : ∀ b pos e l r, walkComplex (n + 1) b pos e l = .ok r → pos ≤ r := by
  intro b pos e l r h
  rw [walkComplex] at h
  exact ih.cloop _ _ _ _ _ _ h

theorem assign_step (n : Nat) (ih : Mono n) : ∀ b pos e r, assignLoop (n + 1) b pos e = .ok r → pos ≤ r := by
  intro b pos e r h
  rw [assignLoop] at h
  split at h
  · simp only [Except.ok.injEq] at h; omega
  · rename_i c hc
    have hlt := getElem?_lt hc
    split at h
    · simp only [Except.ok.injEq] at h; omega
    · split at h
      · have := walkNoParsing_succ b pos '\'' hlt
        have := ih.assign _ _ _ _ h; omega
      · split at h
        · obtain ⟨p, hp, h⟩ := bind_ok h
          have := ih.esc _ _ _ _ hp; have := ih.assign _ _ _ _ h; omega
        · split at h
          · obtain ⟨p, hp, h⟩ := bind_ok h
            have := ih.esc _ _ _ _ hp; have := ih.assign _ _ _ _ h; omega
          · split at h
            · split at h
              · have := ih.assign _ _ _ _ h; omega
              · obtain ⟨p, hp, h⟩ := bind_ok h
                have := ih.dollar _ _ _ _ _ hp; have := ih.assign _ _ _ _ h; omega
            · obtain ⟨p, hp, h⟩ := bind_ok h
              have := ih.complex _ _ _ _ _ hp; have := ih.assign _ _ _ _ h; omega

theorem flushWindow_pos (emit : Bool) (s : ScopeState) : (flushWindow emit s).pos = s.pos := by
  unfold flushWindow; split <;> rfl

theorem finishScope_pos (emit : Bool) (b : Buf) (e : Char) (s : ScopeState) : (finishScope emit b e s).pos = s.pos := by
  unfold finishScope; split <;> rfl

theorem sloop_step (n : Nat) (ih : Mono n) : ∀ emit b vm fm e s r,
    scopeLoop (n + 1) emit b vm fm e s = .ok r → s.pos ≤ r.pos := by
  intro emit b vm fm e s r h
  rw [scopeLoop] at h
  split at h
  · simp only [Except.ok.injEq] at h
    rw [← h, finishScope_pos]; exact Nat.le_refl _
  · rename_i ch hc
    have hlt := getElem?_lt hc
    split at h
    · simp only [Except.ok.injEq] at h
      rw [← h, finishScope_pos]; exact Nat.le_refl _
    · simp only [] at h
      have hpos := flushWindow_pos emit s
      generalize flushWindow emit s = s' at h hpos
      split at h
      · have := ih.sloop _ _ _ _ _ _ _ h
        simp only [] at this; omega
      · split at h
        · obtain ⟨p, hp, h⟩ := bind_ok h
          have := walkPound_ge b s'.pos _ p (by omega) hp
          have := ih.sloop _ _ _ _ _ _ _ h
          simp only [] at this; omega
        · split at h
          · rename_i ns ne np hf
            obtain ⟨sr, hsr, h⟩ := bind_ok h
            have := isFunction_gt b s'.pos ns ne np hf
            have := ih.scope _ _ _ _ _ _ _ hsr
            have := ih.sloop _ _ _ _ _ _ _ h
            simp only [] at this; omega
          · split at h
            · obtain ⟨p, hp, h⟩ := bind_ok h
              have := ih.complex _ _ _ _ _ hp
              have := ih.sloop _ _ _ _ _ _ _ h
              simp only [] at this
              split at this <;> omega
            · rename_i ns ne np hv
              have hv' := isEnvvar_gt b s'.pos ns ne np hv
              split at h
              · simp only [Except.ok.injEq] at h
                rw [← h]; simp only []; omega
              · obtain ⟨p, hp, h⟩ := bind_ok h
                have := ih.assign _ _ _ _ hp
                have := ih.sloop _ _ _ _ _ _ _ h
                simp only [] at this; omega

theorem scope_step (n : Nat) (ih : Mono n) : ∀ emit b pos vm fm e r,
    processScope (n + 1) emit b pos vm fm e = .ok r → pos ≤ r.pos := by
  intro emit b pos vm fm e r h
  rw [processScope] at h
  exact ih.sloop _ _ _ _ _ _ _ h

/-- every walker, at every fuel, only moves forward -/
theorem mono : ∀ n, Mono n := by
  intro n
  induction n with
  | zero => exact mono_zero
  | succ n ih =>
    exact ⟨here_step n ih, cloop_step n ih, complex_step n ih, esc_step n ih, dname_step n ih, dbrace_step n ih,
      dollar_step n ih, assign_step n ih, sloop_step n ih, scope_step n ih⟩

/-! ## windows and regions -/

/-- the text written for a list of windows -/
def emitted (b : Buf) (ws : List (Nat × Nat)) : List Char := (ws.map fun w => slice b w.1 w.2).flatten

theorem emitted_append (b : Buf) (ws : List (Nat × Nat)) (w : Nat × Nat) :
    emitted b (ws ++ [w]) = emitted b ws ++ slice b w.1 w.2 := by
  simp [emitted]

theorem take_eq_take_append_slice (b : Buf) (i j : Nat) (h : i ≤ j) : b.take j = b.take i ++ slice b i j := by
  unfold slice
  have : b.take i = (b.take j).take i := by rw [List.take_take, Nat.min_eq_left h]
  rw [this, List.take_append_drop]

theorem removeFrom_append (R : List (Nat × Nat)) (l1 l2 : List Char) : ∀ i,
    removeFrom R i (l1 ++ l2) = removeFrom R i l1 ++ removeFrom R (i + l1.length) l2 := by
  induction l1 with
  | nil => intro i; simp [removeFrom]
  | cons c cs ih =>
    intro i
    simp only [List.cons_append, removeFrom, List.length_cons]
    have : i + (cs.length + 1) = i + 1 + cs.length := by omega
    split <;> simp [ih, this]

theorem removeFrom_none (R : List (Nat × Nat)) (l : List Char) : ∀ i,
    (∀ j, i ≤ j → j < i + l.length → inRegions R j = false) → removeFrom R i l = l := by
  induction l with
  | nil => intro i _; rfl
  | cons c cs ih =>
    intro i h
    simp only [removeFrom, h i (Nat.le_refl _) (by simp), Bool.false_eq_true, if_false]
    rw [ih (i + 1) (fun j h1 h2 => h j (by omega) (by simp only [List.length_cons]; omega))]

theorem removeFrom_all (R : List (Nat × Nat)) (l : List Char) : ∀ i,
    (∀ j, i ≤ j → j < i + l.length → inRegions R j = true) → removeFrom R i l = [] := by
  induction l with
  | nil => intro i _; rfl
  | cons c cs ih =>
    intro i h
    simp only [removeFrom, h i (Nat.le_refl _) (by simp), if_true]
    exact ih (i + 1) (fun j h1 h2 => h j (by omega) (by simp only [List.length_cons]; omega))

theorem removeFrom_congr (R R' : List (Nat × Nat)) (l : List Char) : ∀ i,
    (∀ j, i ≤ j → j < i + l.length → inRegions R j = inRegions R' j) → removeFrom R i l = removeFrom R' i l := by
  induction l with
  | nil => intro i _; rfl
  | cons c cs ih =>
    intro i h
    simp only [removeFrom, h i (Nat.le_refl _) (by simp)]
    rw [ih (i + 1) (fun j h1 h2 => h j (by omega) (by simp only [List.length_cons]; omega))]

theorem inRegions_append_single (R : List (Nat × Nat)) (r : Nat × Nat) (j : Nat) :
    inRegions (R ++ [r]) j = (inRegions R j || (decide (r.1 ≤ j) && decide (j < r.2))) := by
  simp [inRegions]

theorem inRegions_false_of_before (R : List (Nat × Nat)) (j : Nat) (h : ∀ r ∈ R, r.2 ≤ j) : inRegions R j = false := by
  unfold inRegions
  rw [List.any_eq_false]
  intro r hr
  have := h r hr
  simp; omega

/-- when no region reaches into `[i, j)`, the filtered prefix grows by exactly that slice -/
theorem removeFrom_extend (R : List (Nat × Nat)) (b : Buf) (i j : Nat) (hij : i ≤ j) (hi : i ≤ b.length)
    (h : ∀ r ∈ R, r.2 ≤ i) : removeFrom R 0 (b.take j) = removeFrom R 0 (b.take i) ++ slice b i j := by
  rw [take_eq_take_append_slice b i j hij, removeFrom_append]
  congr 1
  apply removeFrom_none
  intro k hk _
  apply inRegions_false_of_before
  intro r hr
  have := h r hr
  simp only [List.length_take, Nat.zero_add] at hk
  have : min i b.length = i := Nat.min_eq_left hi
  omega

/-- a new region `[w, p)` behind everything so far swallows exactly the text from `w` on -/
theorem removeFrom_new_region (R : List (Nat × Nat)) (b : Buf) (w p q : Nat) (hwq : w ≤ q) (hqp : q ≤ p)
    (hw : w ≤ b.length) :
    removeFrom (R ++ [(w, p)]) 0 (b.take q) = removeFrom R 0 (b.take w) := by
  rw [take_eq_take_append_slice b w q hwq, removeFrom_append]
  have h1 : removeFrom (R ++ [(w, p)]) 0 (b.take w) = removeFrom R 0 (b.take w) := by
    apply removeFrom_congr
    intro j _ hj
    simp only [List.length_take, Nat.zero_add] at hj
    rw [inRegions_append_single]
    have : ¬ w ≤ j := by omega
    simp [this]
  have h2 : removeFrom (R ++ [(w, p)]) (0 + (b.take w).length) (slice b w q) = [] := by
    apply removeFrom_all
    intro j hj1 hj2
    simp only [List.length_take, Nat.zero_add, Nat.min_eq_left hw] at hj1 hj2
    have hl : (slice b w q).length ≤ q - w := by
      unfold slice; simp only [List.length_drop, List.length_take]; omega
    rw [inRegions_append_single]
    have : w ≤ j ∧ j < p := by omega
    simp [this]
  rw [h1, h2, List.append_nil]

theorem filteredRegions_append (stmts : List Stmt) (st : Stmt) :
    filteredRegions (stmts ++ [st]) = if st.filtered then filteredRegions stmts ++ [(st.start, st.stop)] else filteredRegions stmts := by
  unfold filteredRegions
  by_cases h : st.filtered = true <;> simp [List.filter_append, h]

/-! ## the loop invariant of the top-level scope -/

/-- no window pending: everything up to `windowStart` has been written, minus the filtered regions -/
structure InvN (b : Buf) (s : ScopeState) : Prop where
  wend : s.windowEnd = none
  before : ∀ r ∈ filteredRegions s.stmts, r.2 ≤ s.windowStart
  text : emitted b s.windows = removeFrom (filteredRegions s.stmts) 0 (b.take s.windowStart)
  wsle : s.windowStart ≤ b.length - 1
  wspos : s.windowStart ≤ s.pos
  wins : ∀ w ∈ s.windows, w.1 ≤ w.2 ∧ w.2 ≤ s.windowStart
  pw : s.windows.Pairwise (fun w1 w2 => w1.2 ≤ w2.1)

/-- a filtered statement `[w, pos)` has just been scanned; the window `[windowStart, w)` is pending -/
structure InvS (b : Buf) (s : ScopeState) (w : Nat) (R' : List (Nat × Nat)) : Prop where
  wend : s.windowEnd = some w
  regs : filteredRegions s.stmts = R' ++ [(w, s.pos)]
  before : ∀ r ∈ R', r.2 ≤ s.windowStart
  text : emitted b s.windows = removeFrom R' 0 (b.take s.windowStart)
  wsw : s.windowStart ≤ w
  wpos : w ≤ s.pos
  wlt : w < b.length - 1
  wins : ∀ x ∈ s.windows, x.1 ≤ x.2 ∧ x.2 ≤ s.windowStart
  pw : s.windows.Pairwise (fun w1 w2 => w1.2 ≤ w2.1)

def Inv (b : Buf) (s : ScopeState) : Prop := InvN b s ∨ ∃ w R', InvS b s w R'

/-- what holds of the result of the top-level scope -/
structure Final (b : Buf) (r : ScopeResult) : Prop where
  text : emitted b r.windows = removeFrom (filteredRegions r.stmts) 0 (b.take (b.length - 1))
  wins : ∀ w ∈ r.windows, w.1 ≤ w.2 ∧ w.2 ≤ b.length - 1
  pw : r.windows.Pairwise (fun w1 w2 => w1.2 ≤ w2.1)

/-- flushing the pending window (the loop goes on: the character at `pos` is not the end character) -/
theorem flush_inv (b : Buf) (e : Char) (s : ScopeState) (ch : Char) (hinv : Inv b s)
    (hsent : b[b.length - 1]? = some e) (hc : b[s.pos]? = some ch) (hne : ch ≠ e) :
    InvN b (flushWindow true s) ∧ (flushWindow true s).stmts = s.stmts ∧ s.pos < b.length - 1 := by
  have hlt := getElem?_lt hc
  have hpos : s.pos < b.length - 1 := by
    have : s.pos ≠ b.length - 1 := by
      intro h; rw [h, hsent] at hc; simp only [Option.some.injEq] at hc; exact hne hc.symm
    omega
  rcases hinv with hn | ⟨w, R', hs⟩
  · have : flushWindow true s = s := by unfold flushWindow; rw [hn.wend]
    rw [this]; exact ⟨hn, rfl, hpos⟩
  · have hf : flushWindow true s = { s with windows := s.windows ++ [(s.windowStart, w)], windowStart := s.pos, windowEnd := none } := by
      unfold flushWindow; rw [hs.wend]; simp
    rw [hf]
    refine ⟨⟨rfl, ?_, ?_, ?_, ?_, ?_, ?_⟩, rfl, hpos⟩
    · simp only [hs.regs]
      intro r hr
      simp only [List.mem_append, List.mem_singleton] at hr
      rcases hr with hr | rfl
      · have := hs.before r hr; have := hs.wsw; have := hs.wpos; omega
      · exact Nat.le_refl _
    · simp only [hs.regs, emitted_append, hs.text]
      rw [removeFrom_new_region R' b w s.pos s.pos hs.wpos (Nat.le_refl _) (by have := hs.wlt; omega)]
      rw [removeFrom_extend R' b s.windowStart w hs.wsw (by have := hs.wsw; have := hs.wlt; omega) hs.before]
    · simp only []; omega
    · exact Nat.le_refl _
    · intro x hx
      simp only [List.mem_append, List.mem_singleton] at hx
      rcases hx with hx | rfl
      · have := hs.wins x hx; have := hs.wsw; have := hs.wpos
        simp only []; omega
      · simp only []; exact ⟨hs.wsw, hs.wpos⟩
    · simp only [List.pairwise_append, List.pairwise_cons, List.mem_singleton, List.not_mem_nil, false_implies,
        implies_true, List.Pairwise.nil, and_true, true_and]
      refine ⟨hs.pw, ?_⟩
      intro x hx y hy
      subst hy
      exact (hs.wins x hx).2

/-- moving on without a new statement, or with one that is kept -/
theorem inv_plain (b : Buf) (s : ScopeState) (p : Nat) (stmts : List Stmt) (hn : InvN b s) (hp : s.pos ≤ p)
    (hst : filteredRegions stmts = filteredRegions s.stmts) :
    Inv b { s with pos := p, stmts := stmts } := by
  left
  exact ⟨hn.wend, by simpa [hst] using hn.before, by simpa [hst] using hn.text, hn.wsle,
    by have := hn.wspos; simp only []; omega, hn.wins, hn.pw⟩

/-- a statement `[s.pos, p)` that is filtered: its start becomes the end of the pending window -/
theorem inv_filtered (b : Buf) (s : ScopeState) (p : Nat) (st : Stmt) (hn : InvN b s) (hp : s.pos ≤ p)
    (hlt : s.pos < b.length - 1) (hf : st.filtered = true) (hstart : st.start = s.pos) (hstop : st.stop = p) :
    Inv b { s with pos := p, windowEnd := some s.pos, stmts := s.stmts ++ [st] } := by
  right
  refine ⟨s.pos, filteredRegions s.stmts, rfl, ?_, hn.before, hn.text, hn.wspos, hp, hlt, hn.wins, hn.pw⟩
  simp only [filteredRegions_append, hf, if_true, hstart, hstop]

theorem finish_final (b : Buf) (e : Char) (s : ScopeState) (hinv : Inv b s)
    (hsent : b[b.length - 1]? = some e) (hpos : b.length - 1 ≤ s.pos) :
    Final b (finishScope true b e s) := by
  have hlen : b.length ≠ 0 := by
    have := getElem?_lt hsent; omega
  unfold finishScope
  simp only [if_true]
  rcases hinv with hn | ⟨w, R', hs⟩
  · have hwe : (if min (s.windowEnd.getD s.pos) b.length = b.length ∧ b.length ≠ 0 ∧ b[b.length - 1]? = some e
        then b.length - 1 else min (s.windowEnd.getD s.pos) b.length) = b.length - 1 := by
      simp only [hn.wend, Option.getD_none, hlen, ne_eq, not_false_eq_true, hsent, and_self, and_true]
      split <;> omega
    rw [hwe]
    refine ⟨?_, ?_, ?_⟩
    · simp only [emitted_append, hn.text]
      rw [removeFrom_extend _ b s.windowStart (b.length - 1) hn.wsle (by have := hn.wsle; omega) hn.before]
    · intro x hx
      simp only [List.mem_append, List.mem_singleton] at hx
      rcases hx with hx | rfl
      · have := hn.wins x hx; have := hn.wsle; omega
      · exact ⟨hn.wsle, Nat.le_refl _⟩
    · simp only [List.pairwise_append, List.pairwise_cons, List.mem_singleton, List.not_mem_nil, false_implies,
        implies_true, List.Pairwise.nil, and_true, true_and]
      refine ⟨hn.pw, ?_⟩
      intro x hx y hy
      subst hy
      exact (hn.wins x hx).2
  · have hwe : (if min (s.windowEnd.getD s.pos) b.length = b.length ∧ b.length ≠ 0 ∧ b[b.length - 1]? = some e
        then b.length - 1 else min (s.windowEnd.getD s.pos) b.length) = w := by
      simp only [hs.wend, Option.getD_some]
      have := hs.wlt
      split <;> omega
    rw [hwe]
    refine ⟨?_, ?_, ?_⟩
    · simp only [emitted_append, hs.text, hs.regs]
      rw [removeFrom_new_region R' b w s.pos (b.length - 1) (by have := hs.wlt; omega) hpos (by have := hs.wlt; omega)]
      rw [removeFrom_extend R' b s.windowStart w hs.wsw (by have := hs.wsw; have := hs.wlt; omega) hs.before]
    · intro x hx
      simp only [List.mem_append, List.mem_singleton] at hx
      rcases hx with hx | rfl
      · have := hs.wins x hx; have := hs.wsw; have := hs.wlt; omega
      · have := hs.wlt; exact ⟨hs.wsw, by simp only []; omega⟩
    · simp only [List.pairwise_append, List.pairwise_cons, List.mem_singleton, List.not_mem_nil, false_implies,
        implies_true, List.Pairwise.nil, and_true, true_and]
      refine ⟨hs.pw, ?_⟩
      intro x hx y hy
      subst hy
      exact (hs.wins x hx).2

/-- the top-level loop: from the invariant to the final statement about what was written -/
theorem scopeLoop_final (n : Nat) : ∀ (b : Buf) (vm fm : Option (List Char → Bool)) (e : Char) (s : ScopeState)
    (r : ScopeResult), b[b.length - 1]? = some e → e ≠ '=' → (∀ i, i < b.length - 1 → b[i]? ≠ some e) →
    scopeLoop n true b vm fm e s = .ok r → Inv b s → Final b r := by
  induction n with
  | zero => intro b vm fm e s r _ _ _ h; rw [scopeLoop] at h; cases h
  | succ n ih =>
    intro b vm fm e s r hsent hne hno h hinv
    have M := mono n
    rw [scopeLoop] at h
    split at h
    · rename_i hnone
      simp only [Except.ok.injEq] at h
      rw [← h]
      apply finish_final b e s hinv hsent
      have := List.getElem?_eq_none_iff.1 hnone; omega
    · rename_i ch hc
      have hlt := getElem?_lt hc
      split at h
      · rename_i hce
        simp only [Except.ok.injEq] at h
        rw [← h]
        apply finish_final b e s hinv hsent
        apply Nat.le_of_not_lt
        intro hl
        exact hno s.pos hl (by rw [hc, hce])
      · rename_i hce
        simp only [] at h
        obtain ⟨hn, hstm, hposlt⟩ := flush_inv b e s ch hinv hsent hc hce
        have hfp := flushWindow_pos true s
        generalize flushWindow true s = s' at h hn hstm hfp
        have hwe := hn.wend
        split at h
        · -- whitespace
          refine ih b vm fm e _ r hsent hne hno h ?_
          have := inv_plain b s' (s'.pos + 1) s'.stmts hn (by omega) rfl
          simpa using this
        · split at h
          · -- comment
            obtain ⟨p, hp, h⟩ := bind_ok h
            have hge := walkPound_ge b s'.pos _ p (by omega) hp
            refine ih b vm fm e _ r hsent hne hno h ?_
            have := inv_plain b s' p s'.stmts hn hge rfl
            simpa using this
          · split at h
            · -- function definition
              rename_i ns ne np hf
              obtain ⟨sr, hsr, h⟩ := bind_ok h
              have h1 := isFunction_gt b s'.pos ns ne np hf
              have h2 := M.scope _ _ _ _ _ _ _ hsr
              refine ih b vm fm e _ r hsent hne hno h ?_
              by_cases hfilt : applyMatch fm (slice b ns ne) = true
              · have := inv_filtered b s' (sr.pos + 1) ⟨true, s'.pos, sr.pos + 1, slice b ns ne, applyMatch fm (slice b ns ne)⟩
                  hn (by omega) (by omega) hfilt rfl rfl
                simpa [hfilt] using this
              · have := inv_plain b s' (sr.pos + 1)
                  (s'.stmts ++ [⟨true, s'.pos, sr.pos + 1, slice b ns ne, applyMatch fm (slice b ns ne)⟩]) hn (by omega)
                  (by simp [filteredRegions_append, hfilt])
                simpa [hfilt, hwe] using this
            · split at h
              · -- some other command
                obtain ⟨p, hp, h⟩ := bind_ok h
                have hge := M.complex _ _ _ _ _ hp
                refine ih b vm fm e _ r hsent hne hno h ?_
                have := inv_plain b s' (if p < b.length ∧ b[p]? ≠ some e then p + 1 else p) s'.stmts hn
                  (by split <;> omega) rfl
                simpa using this
              · -- assignment
                rename_i ns ne np hv
                have hv' := isEnvvar_gt b s'.pos ns ne np hv
                have hnp : np < b.length := by
                  obtain ⟨h1, h2, h3, h4⟩ := hv'
                  have hlt' := getElem?_lt h4
                  have : ne ≠ b.length - 1 := by
                    intro heq; rw [heq, hsent] at h4; simp only [Option.some.injEq] at h4; exact hne h4
                  omega
                split at h
                · omega
                · obtain ⟨p, hp, h⟩ := bind_ok h
                  have hge := M.assign _ _ _ _ hp
                  refine ih b vm fm e _ r hsent hne hno h ?_
                  by_cases hfilt : applyMatch vm (slice b ns ne) = true
                  · have := inv_filtered b s' p ⟨false, s'.pos, p, slice b ns ne, applyMatch vm (slice b ns ne)⟩
                      hn (by omega) (by omega) hfilt rfl rfl
                    simpa [hfilt] using this
                  · have := inv_plain b s' p
                      (s'.stmts ++ [⟨false, s'.pos, p, slice b ns ne, applyMatch vm (slice b ns ne)⟩]) hn (by omega)
                      (by simp [filteredRegions_append, hfilt])
                    simpa [hfilt, hwe] using this

/-! ## what the recorded statements say -/

/-- a statement is marked filtered exactly when the predicate for its kind selects its name -/
def StmtOk (vm fm : Option (List Char → Bool)) (st : Stmt) : Prop :=
  st.filtered = applyMatch (if st.isFunc then fm else vm) st.name ∧ st.start ≤ st.stop

theorem scopeLoop_stmts (n : Nat) : ∀ (emit : Bool) (b : Buf) (vm fm : Option (List Char → Bool)) (e : Char)
    (s : ScopeState) (r : ScopeResult), scopeLoop n emit b vm fm e s = .ok r →
    (∀ st ∈ s.stmts, StmtOk vm fm st) → ∀ st ∈ r.stmts, StmtOk vm fm st := by
  induction n with
  | zero => intro emit b vm fm e s r h; rw [scopeLoop] at h; cases h
  | succ n ih =>
    intro emit b vm fm e s r h hs
    have M := mono n
    rw [scopeLoop] at h
    have hfin : ∀ s : ScopeState, (finishScope emit b e s).stmts = s.stmts := by
      intro s; unfold finishScope; split <;> rfl
    split at h
    · simp only [Except.ok.injEq] at h; rw [← h, hfin]; exact hs
    · rename_i ch hc
      have hlt := getElem?_lt hc
      split at h
      · simp only [Except.ok.injEq] at h; rw [← h, hfin]; exact hs
      · simp only [] at h
        have hst : (flushWindow emit s).stmts = s.stmts := by unfold flushWindow; split <;> rfl
        have hfp := flushWindow_pos emit s
        generalize flushWindow emit s = s' at h hst hfp
        rw [← hst] at hs
        split at h
        · exact ih _ _ _ _ _ _ _ h (by simpa using hs)
        · split at h
          · obtain ⟨p, hp, h⟩ := bind_ok h
            exact ih _ _ _ _ _ _ _ h (by simpa using hs)
          · split at h
            · rename_i ns ne np hf
              obtain ⟨sr, hsr, h⟩ := bind_ok h
              have h1 := isFunction_gt b s'.pos ns ne np hf
              have h2 := M.scope _ _ _ _ _ _ _ hsr
              refine ih _ _ _ _ _ _ _ h ?_
              intro st hst'
              simp only [List.mem_append, List.mem_singleton] at hst'
              rcases hst' with hst' | rfl
              · exact hs st hst'
              · exact ⟨by simp, by simp only []; omega⟩
            · split at h
              · obtain ⟨p, hp, h⟩ := bind_ok h
                exact ih _ _ _ _ _ _ _ h (by simpa using hs)
              · rename_i ns ne np hv
                have hv' := isEnvvar_gt b s'.pos ns ne np hv
                split at h
                · simp only [Except.ok.injEq] at h
                  rw [← h]
                  intro st hst'
                  simp only [List.mem_append, List.mem_singleton] at hst'
                  rcases hst' with hst' | rfl
                  · exact hs st hst'
                  · exact ⟨by simp, by simp only []; omega⟩
                · obtain ⟨p, hp, h⟩ := bind_ok h
                  have hge := M.assign _ _ _ _ hp
                  refine ih _ _ _ _ _ _ _ h ?_
                  intro st hst'
                  simp only [List.mem_append, List.mem_singleton] at hst'
                  rcases hst' with hst' | rfl
                  · exact hs st hst'
                  · exact ⟨by simp, by simp only []; omega⟩

theorem removeFrom_subset (R : List (Nat × Nat)) (l : List Char) : ∀ i, ∀ c ∈ removeFrom R i l, c ∈ l := by
  induction l with
  | nil => intro i c h; simp [removeFrom] at h
  | cons x xs ih =>
    intro i c h
    simp only [removeFrom] at h
    split at h
    · exact List.mem_cons_of_mem _ (ih _ c h)
    · simp only [List.mem_cons] at h
      rcases h with rfl | h
      · simp
      · exact List.mem_cons_of_mem _ (ih _ c h)

/-- the facts about a whole `main_run` -/
theorem mainRun_final (data : List Char) (vm fm : Option (List Char → Bool)) (out : List Char) (r : ScopeResult)
    (hno : '\x00' ∉ data) (h : mainRun data vm fm = .ok (out, r)) :
    out = emitted (data ++ ['\x00']) r.windows ∧ Final (data ++ ['\x00']) r ∧ ∀ st ∈ r.stmts, StmtOk vm fm st := by
  unfold mainRun at h
  simp only [] at h
  split at h
  · rename_i r' hr
    simp only [Except.ok.injEq, Prod.mk.injEq] at h
    obtain ⟨rfl, rfl⟩ := h
    have hfuel : fuelFor (data ++ ['\x00']) = (6 * (data ++ ['\x00']).length + 15) + 1 := by unfold fuelFor; omega
    rw [hfuel, processScope] at hr
    have hlen : (data ++ ['\x00']).length - 1 = data.length := by simp
    have hsent : (data ++ ['\x00'])[(data ++ ['\x00']).length - 1]? = some '\x00' := by
      rw [hlen]; simp
    refine ⟨rfl, ?_, ?_⟩
    · apply scopeLoop_final _ _ vm fm '\x00' _ r' hsent (by decide) ?_ hr
      · left
        exact ⟨rfl, by simp [filteredRegions], by simp [emitted, filteredRegions, removeFrom], by simp, by simp,
          by simp, by simp⟩
      · intro i hi
        rw [hlen] at hi
        rw [List.getElem?_append_left hi]
        intro hc
        exact hno (List.mem_of_getElem? hc)
    · exact scopeLoop_stmts _ _ _ vm fm _ _ r' hr (by simp)
  · cases h

/-! ## the fuel `mainRun` uses is enough: the scanner terminates -/

theorem findChar_spec (c : Char) (b : Buf) (pos r : Nat) (h : findChar c b pos = some r) : b[r]? = some c := by
  fun_induction findChar c b pos with
  | case1 pos hlt hc => simp at h; subst h; simp [hlt, hc]
  | case2 pos hlt hc ih => exact ih h
  | case3 pos hge => simp at h

theorem findSub_le (w : List Char) (b : Buf) (pos r : Nat) (h : findSub w b pos = some r) : r ≤ b.length := by
  fun_induction findSub w b pos with
  | case1 pos hlt hs => simp at h; omega
  | case2 pos hlt hs ih => exact ih h
  | case3 pos hge hw => simp at h; omega
  | case4 pos hge hw => simp at h

/-- the buffer ends with a sentinel that is not `#` (for `main_run`: the NUL) -/
def Sent (b : Buf) : Prop := ∃ s, b[b.length - 1]? = some s ∧ s ≠ '#'

/-- with the sentinel in place a comment walk always makes progress -/
theorem walkPound_gt (b : Buf) (pos : Nat) (e : Option Char) (r : Nat) (hc : b[pos]? = some '#') (hs : Sent b)
    (h : walkPound b pos e = .ok r) : pos < r := by
  have hlt := getElem?_lt hc
  obtain ⟨s, hs1, hs2⟩ := hs
  have hlast : pos < b.length - 1 := by
    have : pos ≠ b.length - 1 := by
      intro heq; rw [heq, hs1] at hc; simp only [Option.some.injEq] at hc; exact hs2 hc
    omega
  have hfind : ∀ c i, c ≠ '#' → findChar c b pos = some i → pos < i := by
    intro c i hne hf
    have h1 := (findChar_ge c b pos i hf).1
    have h2 := findChar_spec c b pos i hf
    have : i ≠ pos := by
      intro heq; rw [heq, hc] at h2; simp only [Option.some.injEq] at h2; exact hne h2.symm
    omega
  unfold walkPound at h
  simp only [] at h
  generalize hrest : (if e = some '`' then
      match findChar '\n' b pos, findChar '`' b pos with
      | none, some i2 => i2
      | some i, some i2 => min i i2
      | some i, none => i
      | none, none => b.length - 1
    else (findChar '\n' b pos).getD (b.length - 1)) = rest at h
  have hgt : pos < rest := by
    rw [← hrest]
    split
    · split
      · rename_i h2; exact hfind _ _ (by decide) h2
      · rename_i h1 h2
        exact Nat.lt_min.2 ⟨hfind _ _ (by decide) h1, hfind _ _ (by decide) h2⟩
      · rename_i h1 _; exact hfind _ _ (by decide) h1
      · exact hlast
    · cases hf : findChar '\n' b pos with
      | none => simp only [Option.getD_none]; exact hlast
      | some r => simp only [Option.getD_some]; exact hfind _ _ (by decide) hf
  split at h
  · simp only [Except.ok.injEq] at h; omega
  · split at h
    · simp at h
    · split at h <;> simp only [Except.ok.injEq] at h <;> omega

theorem walkPound_nofuel (b : Buf) (pos : Nat) (e : Option Char) : walkPound b pos e ≠ .error .fuel := by
  unfold walkPound
  simp only []
  split
  · simp
  · split
    · simp
    · split <;> simp

theorem nf_bind {α β : Type} {x : Except Err α} {f : α → Except Err β} (hx : x ≠ .error .fuel)
    (hf : ∀ a, x = .ok a → f a ≠ .error .fuel) : (x >>= f) ≠ .error .fuel := by
  cases x with
  | error e =>
    intro h
    have : e = .fuel := by cases h; rfl
    exact hx (by rw [this])
  | ok a => exact hf a rfl

theorem hereSearch_nofuel (w : List Char) (b : Buf) (tabs : Bool) (ec : Char) (k : Nat) : ∀ from_, 1 ≤ k →
    b.length + 2 ≤ k + from_ → hereSearch w b tabs ec from_ k ≠ .error .fuel := by
  induction k with
  | zero => intro from_ h; omega
  | succ k ih =>
    intro from_ _ hk
    rw [hereSearch]
    split
    · simp
    · rename_i e hf
      have h1 := findSub_ge w b from_ e hf
      have h2 := findSub_le w b from_ e hf
      split
      · simp
      · rename_i c _
        by_cases hc : hereEnds w b tabs ec e c = true
        · rw [if_pos hc]; simp
        · rw [if_neg hc]
          apply ih
          · omega
          · have : 1 ≤ max w.length 1 := Nat.le_max_right _ _
            omega

/-- `K * (distance to the end) + rank ≤ fuel` -/
def Enough (n : Nat) (b : Buf) (pos rank : Nat) : Prop := 6 * (b.length + 1 - pos) + rank ≤ n

/-- no walker runs out of fuel when it has `Enough` -/
structure NF (n : Nat) (b : Buf) : Prop where
  here : ∀ pos e, Enough n b pos 1 → walkHere n b pos e ≠ .error .fuel
  cloop : ∀ st pos e l, Enough n b pos 1 → walkComplexLoop n b st pos e l ≠ .error .fuel
  complex : ∀ pos e l, Enough n b pos 2 → walkComplex n b pos e l ≠ .error .fuel
  esc : ∀ pos e, Enough n b pos 1 → walkEscaped n b pos e ≠ .error .fuel
  dname : ∀ pos e, Enough n b pos 1 → dollarName n b pos e ≠ .error .fuel
  dbrace : ∀ pos e, Enough n b pos 1 → dollarBrace n b pos e ≠ .error .fuel
  dollar : ∀ pos e dq, Enough n b pos 2 → walkDollar n b pos e dq ≠ .error .fuel
  assign : ∀ pos e, Enough n b pos 3 → assignLoop n b pos e ≠ .error .fuel
  sloop : ∀ emit vm fm e s, Enough n b s.pos 4 → scopeLoop n emit b vm fm e s ≠ .error .fuel
  scope : ∀ emit pos vm fm e, Enough n b pos 5 → processScope n emit b pos vm fm e ≠ .error .fuel

theorem nf_zero (b : Buf) : NF 0 b := by
  refine ⟨?_, ?_, ?_, ?_, ?_, ?_, ?_, ?_, ?_, ?_⟩ <;> intros <;> rename_i h <;> unfold Enough at h <;> omega

theorem esc_nf (n : Nat) (b : Buf) (hs : Sent b) (ih : NF n b) : ∀ pos e, Enough (n + 1) b pos 1 →
    walkEscaped (n + 1) b pos e ≠ .error .fuel := by
  intro pos e hen
  have M := mono n
  unfold Enough at hen
  rw [walkEscaped]
  split
  · simp
  · rename_i ch hc
    have hlt := getElem?_lt hc
    have en1 : ∀ p, pos + 1 ≤ p → Enough n b p 1 := fun p hp => by unfold Enough; omega
    have en2 : ∀ p, pos + 1 ≤ p → Enough n b p 2 := fun p hp => by unfold Enough; omega
    split
    · simp
    · split
      · exact ih.esc _ _ (en1 _ (by omega))
      · split
        · split
          · apply nf_bind (ih.esc _ _ (en1 _ (by omega)))
            intro p hp
            have := M.esc _ _ _ _ hp
            exact ih.esc _ _ (en1 _ (by omega))
          · exact ih.esc _ _ (en1 _ (by omega))
        · split
          · split
            · apply nf_bind (ih.esc _ _ (en1 _ (by omega)))
              intro p hp
              have := M.esc _ _ _ _ hp
              exact ih.esc _ _ (en1 _ (by omega))
            · exact ih.esc _ _ (en1 _ (by omega))
          · split
            · apply nf_bind (ih.esc _ _ (en1 _ (by omega)))
              intro p hp
              have := M.esc _ _ _ _ hp
              exact ih.esc _ _ (en1 _ (by omega))
            · split
              · have := walkNoParsing_succ b pos '\'' hlt
                exact ih.esc _ _ (en1 _ (by omega))
              · split
                · apply nf_bind (ih.dollar _ _ _ (en2 _ (by omega)))
                  intro p hp
                  have := M.dollar _ _ _ _ _ hp
                  exact ih.esc _ _ (en1 _ (by omega))
                · split
                  · rename_i hpound
                    apply nf_bind (walkPound_nofuel _ _ _)
                    intro p hp
                    have := walkPound_gt b pos _ p (by rw [hc, hpound.1]) hs hp
                    exact ih.esc _ _ (en1 _ (by omega))
                  · exact ih.esc _ _ (en1 _ (by omega))

theorem dname_nf (n : Nat) (b : Buf) (ih : NF n b) : ∀ pos e, Enough (n + 1) b pos 1 →
    dollarName (n + 1) b pos e ≠ .error .fuel := by
  intro pos e hen
  unfold Enough at hen
  rw [dollarName]
  split
  · simp
  · rename_i c hc
    have hlt := getElem?_lt hc
    split
    · simp
    · split
      · simp
      · split
        · exact ih.dollar _ _ _ (by unfold Enough; omega)
        · split
          · simp
          · exact ih.dname _ _ (by unfold Enough; omega)

theorem dbrace_nf (n : Nat) (b : Buf) (ih : NF n b) : ∀ pos e, Enough (n + 1) b pos 1 →
    dollarBrace (n + 1) b pos e ≠ .error .fuel := by
  intro pos e hen
  have M := mono n
  unfold Enough at hen
  rw [dollarBrace]
  split
  · simp
  · rename_i c hc
    have hlt := getElem?_lt hc
    split
    · simp
    · split
      · apply nf_bind (ih.dollar _ _ _ (by unfold Enough; omega))
        intro p hp
        have := M.dollar _ _ _ _ _ hp
        exact ih.dbrace _ _ (by unfold Enough; omega)
      · exact ih.dbrace _ _ (by unfold Enough; omega)

theorem dollar_nf (n : Nat) (b : Buf) (ih : NF n b) : ∀ pos e dq, Enough (n + 1) b pos 2 →
    walkDollar (n + 1) b pos e dq ≠ .error .fuel := by
  intro pos e dq hen
  unfold Enough at hen
  rw [walkDollar]
  split
  · simp
  · rename_i c hc
    have hlt := getElem?_lt hc
    split
    · apply nf_bind (ih.scope _ _ _ _ _ (by unfold Enough; omega))
      intro r _; simp [pure, Except.pure]
    · split
      · simp
      · split
        · split
          · simp
          · exact ih.dname _ _ (by unfold Enough; omega)
        · exact ih.dbrace _ _ (by unfold Enough; omega)

theorem here_tail_nf (b : Buf) (tabs : Bool) (ec : Char) (ws eh : Nat) :
    (if eh + 1 ≥ b.length then (pure (eh + 1) : Except Err Nat) else do
        let s ← hereSearch (slice b ws eh) b tabs ec (eh + 1) (b.length + 1)
        match s with
          | none => pure b.length
          | some e => pure (e + (slice b ws eh).length)) ≠ .error .fuel := by
  split
  · simp [pure, Except.pure]
  · apply nf_bind (hereSearch_nofuel _ b _ _ _ _ (by omega) (by omega))
    intro s _
    split <;> simp [pure, Except.pure]

theorem here_nf (n : Nat) (b : Buf) (ih : NF n b) : ∀ pos e, Enough (n + 1) b pos 1 →
    walkHere (n + 1) b pos e ≠ .error .fuel := by
  intro pos ec hen
  unfold Enough at hen
  rw [walkHere]
  simp only []
  split
  · simp
  · rename_i c hc
    have hlt := getElem?_lt hc
    split
    · simp
    · have hsk := skipWhileLt_ge (fun c => isSpace c || c = '-') b (pos + 1)
      generalize skipWhileLt (fun c => isSpace c || c = '-') b (pos + 1) = p at hsk
      split
      · simp
      · rename_i q hq
        have hltp := getElem?_lt hq
        split
        · simp only [pure_bind]
          exact here_tail_nf b _ _ _ _
        · apply nf_bind (ih.complex _ _ _ (by unfold Enough; omega))
          intro e _
          simp only [pure_bind]
          exact here_tail_nf b _ _ _ _

theorem isSpace_space : isSpace ' ' = true := by decide

/-- a word walk that starts on a non-blank character makes progress -/
theorem complex_space_progress (n : Nat) (b : Buf) (pos r : Nat) (ch : Char) (hc : b[pos]? = some ch)
    (hsp : isSpace ch = false) (hs : Sent b) (h : walkComplex n b pos ' ' .space = .ok r) : pos < r := by
  have hlt := getElem?_lt hc
  cases n with
  | zero => rw [walkComplex] at h; cases h
  | succ m =>
    rw [walkComplex] at h
    cases m with
    | zero => rw [walkComplexLoop] at h; cases h
    | succ k =>
      have M := mono k
      rw [walkComplexLoop] at h
      rw [hc] at h
      simp only [] at h
      have hne : ch ≠ ' ' := by intro he; rw [he, isSpace_space] at hsp; cases hsp
      simp only [hne, if_false, hsp, Bool.false_eq_true, and_false, or_false, reduceCtorEq, false_and] at h
      split at h
      · have := M.cloop _ _ _ _ _ _ h; omega
      · split at h
        · have := M.cloop _ _ _ _ _ _ h; omega
        · split at h
          · rename_i hpound
            simp only [if_true] at h
            obtain ⟨p, hp, h⟩ := bind_ok h
            have := walkPound_gt b pos none p (by rw [hc, hpound]) hs hp
            have := M.cloop _ _ _ _ _ _ h; omega
          · split at h
            · obtain ⟨p, hp, h⟩ := bind_ok h
              have := M.dollar _ _ _ _ _ hp; have := M.cloop _ _ _ _ _ _ h; omega
            · split at h
              · obtain ⟨p, hp, h⟩ := bind_ok h
                have := M.esc _ _ _ _ hp; have := M.cloop _ _ _ _ _ _ h; omega
              · split at h
                · obtain ⟨p, hp, h⟩ := bind_ok h
                  have := M.esc _ _ _ _ hp; have := M.cloop _ _ _ _ _ _ h; omega
                · split at h
                  · have := walkNoParsing_succ b pos '\'' hlt
                    have := M.cloop _ _ _ _ _ _ h; omega
                  · have := M.cloop _ _ _ _ _ _ h; omega

theorem cloop_nf (n : Nat) (b : Buf) (hs : Sent b) (ih : NF n b) : ∀ st pos e l, Enough (n + 1) b pos 1 →
    walkComplexLoop (n + 1) b st pos e l ≠ .error .fuel := by
  intro st pos e l hen
  have M := mono n
  unfold Enough at hen
  rw [walkComplexLoop]
  split
  · simp
  · rename_i ch hc
    have hlt := getElem?_lt hc
    have en1 : ∀ p, pos + 1 ≤ p → Enough n b p 1 := fun p hp => by unfold Enough; omega
    have en2 : ∀ p, pos + 1 ≤ p → Enough n b p 2 := fun p hp => by unfold Enough; omega
    split
    · split
      · simp
      · split
        · simp
        · split
          · simp
          · split
            · simp
            · exact ih.cloop _ _ _ _ (en1 _ (by omega))
    · split
      · simp
      · split
        · exact ih.cloop _ _ _ _ (en1 _ (by omega))
        · split
          · split
            · apply nf_bind (ih.here _ _ (en1 _ (by omega)))
              intro p hp
              have := M.here _ _ _ _ hp
              exact ih.cloop _ _ _ _ (en1 _ (by omega))
            · exact ih.cloop _ _ _ _ (en1 _ (by omega))
          · split
            · rename_i hpound
              simp only []
              split
              · rename_i e' heq
                simp only [ne_eq, Except.error.injEq]
                intro hfu
                subst hfu
                split at heq
                · cases heq
                · split at heq <;> cases heq
              · apply nf_bind (walkPound_nofuel _ _ _)
                intro p hp
                have := walkPound_gt b pos none p (by rw [hc, hpound]) hs hp
                exact ih.cloop _ _ _ _ (en1 _ (by omega))
              · exact ih.cloop _ _ _ _ (en1 _ (by omega))
            · split
              · apply nf_bind (ih.dollar _ _ _ (en2 _ (by omega)))
                intro p hp
                have := M.dollar _ _ _ _ _ hp
                exact ih.cloop _ _ _ _ (en1 _ (by omega))
              · split
                · apply nf_bind (ih.esc _ _ (en1 _ (by omega)))
                  intro p hp
                  have := M.esc _ _ _ _ hp
                  exact ih.cloop _ _ _ _ (en1 _ (by omega))
                · split
                  · apply nf_bind (ih.esc _ _ (en1 _ (by omega)))
                    intro p hp
                    have := M.esc _ _ _ _ hp
                    exact ih.cloop _ _ _ _ (en1 _ (by omega))
                  · split
                    · apply nf_bind (ih.esc _ _ (en1 _ (by omega)))
                      intro p hp
                      have := M.esc _ _ _ _ hp
                      exact ih.cloop _ _ _ _ (en1 _ (by omega))
                    · split
                      · have := walkNoParsing_succ b pos '\'' hlt
                        exact ih.cloop _ _ _ _ (en1 _ (by omega))
                      · exact ih.cloop _ _ _ _ (en1 _ (by omega))

theorem complex_nf (n : Nat) (b : Buf) (ih : NF n b) : ∀ pos e l, Enough (n + 1) b pos 2 →
    walkComplex (n + 1) b pos e l ≠ .error .fuel := by
  intro pos e l hen
  rw [walkComplex]
  exact ih.cloop _ _ _ _ (by unfold Enough at *; omega)

theorem assign_nf (n : Nat) (b : Buf) (hs : Sent b) (ih : NF n b) : ∀ pos e, Enough (n + 1) b pos 3 →
    assignLoop (n + 1) b pos e ≠ .error .fuel := by
  intro pos e hen
  have M := mono n
  unfold Enough at hen
  rw [assignLoop]
  split
  · simp
  · rename_i c hc
    have hlt := getElem?_lt hc
    have en1 : ∀ p, pos + 1 ≤ p → Enough n b p 1 := fun p hp => by unfold Enough; omega
    have en2 : ∀ p, pos + 1 ≤ p → Enough n b p 2 := fun p hp => by unfold Enough; omega
    have en3 : ∀ p, pos + 1 ≤ p → Enough n b p 3 := fun p hp => by unfold Enough; omega
    split
    · simp
    · rename_i hnsp
      split
      · have := walkNoParsing_succ b pos '\'' hlt
        exact ih.assign _ _ (en3 _ (by omega))
      · split
        · apply nf_bind (ih.esc _ _ (en1 _ (by omega)))
          intro p hp
          have := M.esc _ _ _ _ hp
          exact ih.assign _ _ (en3 _ (by omega))
        · split
          · apply nf_bind (ih.esc _ _ (en1 _ (by omega)))
            intro p hp
            have := M.esc _ _ _ _ hp
            exact ih.assign _ _ (en3 _ (by omega))
          · split
            · split
              · exact ih.assign _ _ (en3 _ (by omega))
              · apply nf_bind (ih.dollar _ _ _ (en2 _ (by omega)))
                intro p hp
                have := M.dollar _ _ _ _ _ hp
                exact ih.assign _ _ (en3 _ (by omega))
            · apply nf_bind (ih.complex _ _ _ (by unfold Enough; omega))
              intro p hp
              have hsp : isSpace c = false := by
                simp only [not_or] at hnsp
                simpa using hnsp.1
              have := complex_space_progress n b pos p c hc hsp hs hp
              exact ih.assign _ _ (en3 _ (by omega))

theorem sloop_nf (n : Nat) (b : Buf) (hs : Sent b) (ih : NF n b) : ∀ emit vm fm e s, Enough (n + 1) b s.pos 4 →
    scopeLoop (n + 1) emit b vm fm e s ≠ .error .fuel := by
  intro emit vm fm e s hen
  have M := mono n
  unfold Enough at hen
  rw [scopeLoop]
  split
  · simp
  · rename_i ch hc
    have hlt := getElem?_lt hc
    split
    · simp
    · rename_i hce
      simp only []
      have hpos := flushWindow_pos emit s
      generalize flushWindow emit s = s' at hpos
      rw [← hpos] at hen hc hlt
      have en4 : ∀ p, s'.pos + 1 ≤ p → Enough n b p 4 := fun p hp => by unfold Enough; omega
      split
      · exact ih.sloop _ _ _ _ _ (en4 _ (by simp only []; omega))
      · split
        · rename_i hpound
          apply nf_bind (walkPound_nofuel _ _ _)
          intro p hp
          have := walkPound_gt b s'.pos _ p (by rw [hc, hpound]) hs hp
          exact ih.sloop _ _ _ _ _ (en4 _ (by simp only []; omega))
        · split
          · rename_i ns ne np hf
            have h1 := isFunction_gt b s'.pos ns ne np hf
            apply nf_bind (ih.scope _ _ _ _ _ (by unfold Enough; omega))
            intro sr hsr
            have := M.scope _ _ _ _ _ _ _ hsr
            exact ih.sloop _ _ _ _ _ (en4 _ (by simp only []; omega))
          · split
            · apply nf_bind (ih.complex _ _ _ (by unfold Enough; omega))
              intro p hp
              have hge := M.complex _ _ _ _ _ hp
              apply ih.sloop _ _ _ _ _ (en4 _ ?_)
              simp only []
              split
              · omega
              · rename_i hcond
                have : p ≠ s'.pos := by
                  intro heq
                  apply hcond
                  rw [heq]
                  exact ⟨hlt, by rw [hc]; simpa using hce⟩
                omega
            · rename_i ns ne np hv
              have hv' := isEnvvar_gt b s'.pos ns ne np hv
              split
              · simp
              · apply nf_bind (ih.assign _ _ (by unfold Enough; omega))
                intro p hp
                have := M.assign _ _ _ _ hp
                exact ih.sloop _ _ _ _ _ (en4 _ (by simp only []; omega))

theorem scope_nf (n : Nat) (b : Buf) (ih : NF n b) : ∀ emit pos vm fm e, Enough (n + 1) b pos 5 →
    processScope (n + 1) emit b pos vm fm e ≠ .error .fuel := by
  intro emit pos vm fm e hen
  rw [processScope]
  exact ih.sloop _ _ _ _ _ (by unfold Enough at *; simp only []; omega)

/-- with the sentinel in place no walker ever runs out of fuel when it starts with `Enough` -/
theorem nf (b : Buf) (hs : Sent b) : ∀ n, NF n b := by
  intro n
  induction n with
  | zero => exact nf_zero b
  | succ n ih =>
    exact ⟨here_nf n b ih, cloop_nf n b hs ih, complex_nf n b ih, esc_nf n b hs ih, dname_nf n b ih, dbrace_nf n b ih,
      dollar_nf n b ih, assign_nf n b hs ih, sloop_nf n b hs ih, scope_nf n b ih⟩

theorem mainRun_nofuel (data : List Char) (vm fm : Option (List Char → Bool)) :
    mainRun data vm fm ≠ .error .fuel := by
  unfold mainRun
  simp only []
  have hs : Sent (data ++ ['\x00']) := ⟨'\x00', by simp, by decide⟩
  have := (nf (data ++ ['\x00']) hs (fuelFor (data ++ ['\x00']))).scope true 0 vm fm '\x00'
    (by unfold Enough fuelFor; omega)
  split
  · simp
  · rename_i e he
    intro h
    simp only [Except.error.injEq] at h
    rw [h] at he
    exact this he


/-! ## name selection -/

theorem starM_iff (cs : Cs) (k : Nat → List Char → Bool) : ∀ (s : List Char) (i : Nat),
    starM cs k i s = true ↔
      ∃ n, n ≤ s.length ∧ (∀ c ∈ s.take n, cs.accepts c = true) ∧ k (i + n) (s.drop n) = true := by
  intro s
  induction s with
  | nil =>
    intro i
    simp only [starM, List.length_nil, Nat.le_zero_eq, List.take_nil, List.not_mem_nil, false_imp_iff, implies_true,
      List.drop_nil, true_and]
    constructor
    · intro h; exact ⟨0, rfl, by simpa using h⟩
    · rintro ⟨n, rfl, h⟩; simpa using h
  | cons c s ih =>
    intro i
    simp only [starM, Bool.or_eq_true, Bool.and_eq_true, ih]
    constructor
    · rintro (h | ⟨hc, n, hn, hall, hk⟩)
      · exact ⟨0, by simp, by simp, by simpa using h⟩
      · refine ⟨n + 1, by simp; omega, ?_, ?_⟩
        · intro d hd
          simp only [List.take_succ_cons, List.mem_cons] at hd
          rcases hd with rfl | hd
          · exact hc
          · exact hall d hd
        · have : i + (n + 1) = i + 1 + n := by omega
          simpa [this] using hk
    · rintro ⟨n, hn, hall, hk⟩
      cases n with
      | zero => left; simpa using hk
      | succ n =>
        right
        refine ⟨hall c (by simp), n, by simp at hn; omega, ?_, ?_⟩
        · intro d hd; exact hall d (by simp [hd])
        · have : i + (n + 1) = i + 1 + n := by omega
          simpa [this] using hk

/-- the regular-expression items of one element of a simple pattern -/
def itemRes : Cs × Rep → List Re
  | (cs, .one) => [.ch cs]
  | (cs, .star) => [.star cs]
  | (cs, .plus) => [.ch cs, .star cs]
  | (cs, .opt) => [.alt (.ch cs) .eps]

/-- the first `n` characters of `s` are a run for the element `(cs, r)` -/
def Run (cs : Cs) (r : Rep) (s : List Char) (n : Nat) : Prop :=
  n ≤ s.length ∧ r.allows n = true ∧ ∀ c ∈ s.take n, cs.accepts c = true

theorem item_iff (cs : Cs) (r : Rep) (tail : List Re) (i : Nat) (s : List Char) (k : Nat → List Char → Bool) :
    (seqOf (itemRes (cs, r) ++ tail)).m i s k = true ↔
      ∃ n, Run cs r s n ∧ (seqOf tail).m (i + n) (s.drop n) k = true := by
  cases r with
  | one =>
    simp only [itemRes, List.singleton_append, seqOf, Re.m, Run, Rep.allows]
    cases s with
    | nil =>
      simp only [Bool.false_eq_true, false_iff]
      rintro ⟨n, ⟨hn, h1, _⟩, _⟩
      simp at hn h1; omega
    | cons c s =>
      simp only [Bool.and_eq_true]
      constructor
      · rintro ⟨hc, hk⟩
        exact ⟨1, ⟨by simp, by simp, by simpa using hc⟩, by simpa using hk⟩
      · rintro ⟨n, ⟨hn, h1, hall⟩, hk⟩
        have : n = 1 := by simpa using h1
        subst this
        exact ⟨hall c (by simp), by simpa using hk⟩
  | star =>
    simp only [itemRes, List.singleton_append, seqOf, Re.m, Run, Rep.allows, true_and]
    rw [starM_iff]
    constructor
    · rintro ⟨n, hn, hall, hk⟩; exact ⟨n, ⟨hn, hall⟩, hk⟩
    · rintro ⟨n, ⟨hn, hall⟩, hk⟩; exact ⟨n, hn, hall, hk⟩
  | plus =>
    simp only [itemRes, List.cons_append, List.nil_append, seqOf, Re.m, Run, Rep.allows]
    cases s with
    | nil =>
      simp only [Bool.false_eq_true, false_iff]
      rintro ⟨n, ⟨hn, h1, _⟩, _⟩
      simp at hn h1; omega
    | cons c s =>
      simp only [Bool.and_eq_true, starM_iff]
      constructor
      · rintro ⟨hc, n, hn, hall, hk⟩
        refine ⟨n + 1, ⟨by simp; omega, by simp, ?_⟩, ?_⟩
        · intro d hd
          simp only [List.take_succ_cons, List.mem_cons] at hd
          rcases hd with rfl | hd
          · exact hc
          · exact hall d hd
        · have : i + (n + 1) = i + 1 + n := by omega
          simpa [this] using hk
      · rintro ⟨n, ⟨hn, h1, hall⟩, hk⟩
        cases n with
        | zero => simp at h1
        | succ n =>
          refine ⟨hall c (by simp), n, by simp at hn; omega, ?_, ?_⟩
          · intro d hd; exact hall d (by simp [hd])
          · have : i + (n + 1) = i + 1 + n := by omega
            simpa [this] using hk
  | opt =>
    simp only [itemRes, List.singleton_append, seqOf, Re.m, Run, Rep.allows, Bool.or_eq_true]
    constructor
    · rintro (h | h)
      · cases s with
        | nil => simp at h
        | cons c s =>
          simp only [Bool.and_eq_true] at h
          exact ⟨1, ⟨by simp, by simp, by simpa using h.1⟩, by simpa using h.2⟩
      · exact ⟨0, ⟨by simp, by simp, by simp⟩, by simpa using h⟩
    · rintro ⟨n, ⟨hn, h1, hall⟩, hk⟩
      have h1' : n ≤ 1 := by simpa using h1
      cases n with
      | zero => right; simpa using hk
      | succ n =>
        have : n = 0 := by omega
        subst this
        left
        cases s with
        | nil => simp at hn
        | cons c s =>
          simp only [Bool.and_eq_true]
          exact ⟨hall c (by simp), by simpa using hk⟩

theorem matchSimple_cons_iff (cs : Cs) (r : Rep) (p : Simple) (s : List Char) :
    matchSimple ((cs, r) :: p) s = true ↔ ∃ n, Run cs r s n ∧ matchSimple p (s.drop n) = true := by
  simp only [matchSimple, List.any_eq_true, List.mem_range, Bool.and_eq_true, List.all_eq_true, Run]
  constructor
  · rintro ⟨n, hn, ⟨h1, hall⟩, hm⟩; exact ⟨n, ⟨by omega, h1, hall⟩, hm⟩
  · rintro ⟨n, ⟨hn, h1, hall⟩, hm⟩; exact ⟨n, by omega, ⟨h1, hall⟩, hm⟩

theorem seqOf_append_m (a b : List Re) : ∀ (i : Nat) (s : List Char) (k : Nat → List Char → Bool),
    (seqOf (a ++ b)).m i s k = (seqOf a).m i s (fun i' s' => (seqOf b).m i' s' k) := by
  induction a with
  | nil => intro i s k; simp [seqOf, Re.m]
  | cons r a ih =>
    intro i s k
    simp only [List.cons_append, seqOf, Re.m]
    congr 1
    funext i' s'
    exact ih i' s' k

theorem altOf_m (rs : List Re) (hne : rs ≠ []) (i : Nat) (s : List Char) (k : Nat → List Char → Bool) :
    (altOf rs).m i s k = rs.any (fun r => r.m i s k) := by
  induction rs with
  | nil => exact absurd rfl hne
  | cons r rs ih =>
    cases rs with
    | nil => simp [altOf]
    | cons r2 rs =>
      simp only [altOf, Re.m, List.any_cons]
      rw [ih (by simp)]
      simp [List.any_cons]

/-- a simple pattern followed by `$`, matched against a name without newline, is the whole-name match of the spec -/
theorem simple_eol_m (p : Simple) : ∀ (i : Nat) (s : List Char), '\n' ∉ s →
    (seqOf (p.flatMap itemRes ++ [.eol])).m i s (fun _ _ => true) = matchSimple p s := by
  induction p with
  | nil =>
    intro i s hs
    simp only [List.flatMap_nil, List.nil_append, seqOf, Re.m, matchSimple, Bool.and_true]
    cases s with
    | nil => simp
    | cons c s =>
      have : (c :: s == ['\n']) = false := by
        apply Bool.eq_false_iff.mpr
        intro h
        have := eq_of_beq h
        simp only [List.cons.injEq] at this
        exact hs (by simp [this.1])
      simp [this]
  | cons it p ih =>
    intro i s hs
    obtain ⟨cs, r⟩ := it
    rw [Bool.eq_iff_iff, List.flatMap_cons, List.append_assoc, item_iff, matchSimple_cons_iff]
    constructor
    · rintro ⟨n, hr, hm⟩
      refine ⟨n, hr, ?_⟩
      rw [← ih (i + n) (s.drop n) (fun h => hs (List.mem_of_mem_drop h))]; exact hm
    · rintro ⟨n, hr, hm⟩
      refine ⟨n, hr, ?_⟩
      rw [ih (i + n) (s.drop n) (fun h => hs (List.mem_of_mem_drop h))]; exact hm

/-! ### the parser on the strings `build_regex_string` builds -/

theorem parseFrom_append (a b : List Char) : ∀ st : PState,
    parseFrom st (a ++ b) = (parseFrom st a).bind fun st' => parseFrom st' b := by
  induction a with
  | nil => intro st; simp [parseFrom]
  | cons c a ih =>
    intro st
    simp only [List.cons_append, parseFrom]
    cases step st c with
    | none => simp
    | some st' => exact ih st'

theorem special_not_alnum (c : Char) (h : isSpecial c = true) : isAlnum c = false := by
  simp only [isSpecial, specials, List.contains_cons, List.contains_nil, Bool.or_false, Bool.or_eq_true, beq_iff_eq] at h
  rcases h with h | h | h | h | h | h | h | h | h | h | h | h | h | h <;> subst h <;> decide +kernel

theorem not_special (c : Char) (h : isSpecial c = false) :
    c ≠ '.' ∧ c ≠ '^' ∧ c ≠ '$' ∧ c ≠ '*' ∧ c ≠ '+' ∧ c ≠ '?' ∧ c ≠ '{' ∧ c ≠ '}' ∧ c ≠ '[' ∧ c ≠ ']' ∧ c ≠ '\\' ∧
      c ≠ '|' ∧ c ≠ '(' ∧ c ≠ ')' := by
  simp only [isSpecial, specials, List.contains_cons, List.contains_nil, Bool.or_false, Bool.or_eq_false_iff,
    beq_eq_false_iff_ne] at h
  obtain ⟨h1, h2, h3, h4, h5, h6, h7, h8, h9, h10, h11, h12, h13, h14⟩ := h
  exact ⟨h1, h2, h3, h4, h5, h6, h7, h8, h9, h10, h11, h12, h13, h14⟩

theorem cs_parse (cs : Cs) (top : Frame) (stack : List Frame) :
    parseFrom ⟨.normal, top, stack⟩ (renderCs cs) = some ⟨.normal, top.push (.ch cs), stack⟩ := by
  cases cs with
  | any => simp [renderCs, parseFrom, step]
  | lit c =>
    simp only [renderCs]
    split
    · rename_i h
      have := special_not_alnum c h
      simp [parseFrom, step, this]
    · rename_i h
      have h' : isSpecial c = false := by simpa using h
      obtain ⟨h1, h2, h3, h4, h5, h6, h7, h8, h9, h10, h11, h12, h13, h14⟩ := not_special c h'
      simp [parseFrom, step, *]

theorem rep_parse (cs : Cs) (r : Rep) (top : Frame) (stack : List Frame) :
    parseFrom ⟨.normal, top.push (.ch cs), stack⟩ (renderRep r) =
      some ⟨.normal, { top with cur := top.cur ++ itemRes (cs, r) }, stack⟩ := by
  cases r <;> simp [renderRep, parseFrom, step, applyPostfix, Frame.push, itemRes]

theorem simple_parse (stack : List Frame) (p : Simple) : ∀ top : Frame,
    parseFrom ⟨.normal, top, stack⟩ (renderSimple p) =
      some ⟨.normal, { top with cur := top.cur ++ p.flatMap itemRes }, stack⟩ := by
  induction p with
  | nil => intro top; simp [renderSimple, parseFrom]
  | cons it p ih =>
    intro top
    obtain ⟨cs, r⟩ := it
    have : renderSimple ((cs, r) :: p) = renderCs cs ++ (renderRep r ++ renderSimple p) := by
      simp [renderSimple]
    rw [this, parseFrom_append, cs_parse, Option.bind_some, parseFrom_append, rep_parse, Option.bind_some, ih]
    simp

/-- the branches of an alternation read into a frame whose current branch already holds `cur0` -/
def branches (cur0 : List Re) : List Simple → List Re
  | [] => [seqOf cur0]
  | p :: ps => seqOf (cur0 ++ p.flatMap itemRes) :: ps.map fun p => seqOf (p.flatMap itemRes)

theorem alts_parse (stack : List Frame) (ps : List Simple) (hne : ps ≠ []) : ∀ top : Frame,
    ∃ top', parseFrom ⟨.normal, top, stack⟩ (joinBar (ps.map renderSimple)) = some ⟨.normal, top', stack⟩ ∧
      top'.neg = top.neg ∧ top'.alts ++ [seqOf top'.cur] = top.alts ++ branches top.cur ps := by
  induction ps with
  | nil => exact absurd rfl hne
  | cons p ps ih =>
    intro top
    cases ps with
    | nil =>
      refine ⟨{ top with cur := top.cur ++ p.flatMap itemRes }, ?_, rfl, ?_⟩
      · simp [joinBar, simple_parse]
      · simp [branches]
    | cons q ps =>
      obtain ⟨top', h1, h2, h3⟩ := ih (by simp)
        { top with alts := top.alts ++ [seqOf (top.cur ++ p.flatMap itemRes)], cur := [] }
      refine ⟨top', ?_, h2, ?_⟩
      · simp only [List.map_cons, joinBar] at h1 ⊢
        rw [parseFrom_append, simple_parse, Option.bind_some]
        simp only [parseFrom, step]
        simpa using h1
      · rw [h3]; simp [branches]

/-- the pattern text before the optional inversion: `^(?:alt|alt|…)$` -/
def coreStr (ps : List Simple) : List Char :=
  '^' :: (['(', '?', ':'] ++ joinBar (ps.map renderSimple) ++ [')']) ++ ['$']

/-- what it parses to -/
def coreRe (ps : List Simple) : Re :=
  seqOf [.bol, altOf (ps.map fun p => seqOf (p.flatMap itemRes)), .eol]

theorem core_parse (ps : List Simple) (hne : ps ≠ []) (neg : Bool) (stack : List Frame) :
    ∃ top', parseFrom ⟨.normal, ⟨neg, [], []⟩, stack⟩ (coreStr ps) = some ⟨.normal, top', stack⟩ ∧
      top'.neg = neg ∧ top'.re = coreRe ps := by
  obtain ⟨top', h1, h2, h3⟩ := alts_parse (⟨neg, [], [.bol]⟩ :: stack) ps hne ⟨false, [], []⟩
  refine ⟨⟨neg, [], [.bol, altOf (ps.map fun p => seqOf (p.flatMap itemRes)), .eol]⟩, ?_, rfl, ?_⟩
  · simp only [coreStr, List.cons_append, List.nil_append, List.append_assoc, parseFrom, step, Char.reduceEq,
      ↓reduceIte, Frame.push]
    rw [parseFrom_append, h1]
    simp only [Option.bind_some, parseFrom, step, Char.reduceEq, ↓reduceIte, Frame.re, h3, h2, Frame.push]
    cases ps with
    | nil => exact absurd rfl hne
    | cons p ps => simp [branches]
  · simp [Frame.re, coreRe, altOf]

theorem core_match (ps : List Simple) (hne : ps ≠ []) (name : List Char) (hn : '\n' ∉ name) :
    (coreRe ps).m 0 name (fun _ _ => true) = ps.any (matchSimple · name) := by
  simp only [coreRe, seqOf, Re.m, beq_self_eq_true, Bool.true_and]
  rw [altOf_m _ (by simpa using hne)]
  rw [List.any_map]
  congr 1
  funext p'
  simp only [Function.comp]
  have := seqOf_append_m (p'.flatMap itemRes) [.eol] 0 name (fun _ _ => true)
  simp only [seqOf, Re.m] at this
  rw [← simple_eol_m p' 0 name hn, this]

theorem joinBar_append (a b : List (List Char)) (ha : a ≠ []) (hb : b ≠ []) :
    joinBar (a ++ b) = joinBar a ++ '|' :: joinBar b := by
  induction a with
  | nil => exact absurd rfl ha
  | cons x a ih =>
    cases a with
    | nil =>
      cases b with
      | nil => exact absurd rfl hb
      | cons y b => simp [joinBar]
    | cons x2 a =>
      have := ih (by simp)
      simp only [List.cons_append, joinBar] at this ⊢
      rw [this]; simp

theorem renderToken_nil : renderToken [] = [] := rfl

/-- joining the tokens with `|` is joining all their alternatives with `|` -/
theorem joinBar_tokens (ts : List Token) (h : ∀ t ∈ ts, t ≠ []) :
    joinBar (ts.map renderToken) = joinBar (ts.flatten.map renderSimple) := by
  induction ts with
  | nil => rfl
  | cons t ts ih =>
    have ht := h t (by simp)
    have ih' := ih (fun u hu => h u (by simp [hu]))
    cases ts with
    | nil => simp [joinBar, renderToken]
    | cons t2 ts =>
      have ht2 := h t2 (by simp)
      have e1 : joinBar ((t :: t2 :: ts).map renderToken) =
          renderToken t ++ '|' :: joinBar ((t2 :: ts).map renderToken) := by simp [joinBar]
      have e2 : (t :: t2 :: ts).flatten.map renderSimple =
          t.map renderSimple ++ (t2 :: ts).flatten.map renderSimple := by simp
      have hne2 : (t2 :: ts).flatten.map renderSimple ≠ [] := by
        cases t2 with
        | nil => exact absurd rfl ht2
        | cons p t2 => simp
      rw [e1, e2, ih', joinBar_append _ _ (by simpa using ht) hne2]
      rfl

theorem build_tokens (ts : List Token) (hne : ts ≠ []) (hp : ∀ t ∈ ts, renderToken t ≠ []) (inv : Bool) :
    buildRegexString (ts.map renderToken) inv =
      some (if inv then ['(', '?', '!'] ++ coreStr ts.flatten ++ [')'] else coreStr ts.flatten) := by
  have hf : (ts.map renderToken).filter (· ≠ []) = ts.map renderToken := by
    rw [List.filter_eq_self]
    intro t ht
    obtain ⟨p, hp', rfl⟩ := List.mem_map.mp ht
    simpa using hp p hp'
  have hnil : ∀ t ∈ ts, t ≠ [] := by
    intro t ht h0
    exact hp t ht (by rw [h0]; rfl)
  unfold buildRegexString
  simp only [hf]
  have : ts.map renderToken ≠ [] := by simpa using hne
  simp only [this, ↓reduceIte, coreStr, joinBar_tokens ts hnil]

theorem parse_build (ps : List Simple) (hne : ps ≠ []) (inv : Bool) :
    parseRe (if inv then ['(', '?', '!'] ++ coreStr ps ++ [')'] else coreStr ps) =
      some (if inv then seqOf [.neg (coreRe ps)] else coreRe ps) := by
  cases inv with
  | false =>
    obtain ⟨top', h1, _, h3⟩ := core_parse ps hne false []
    simp only [Bool.false_eq_true, ↓reduceIte, parseRe, h1, h3]
  | true =>
    obtain ⟨top', h1, h2, h3⟩ := core_parse ps hne true [⟨false, [], []⟩]
    simp only [↓reduceIte, parseRe, List.cons_append, List.nil_append, parseFrom, step, Char.reduceEq]
    rw [parseFrom_append, h1]
    simp only [Frame.re] at h3
    simp [parseFrom, step, h2, h3, Frame.push, Frame.re, altOf]

/-- **`build_regex_string(...).match` is whole-name matching of the tokens**, on names without newline -/
theorem mkMatcher_selects (ts : List Token) (hp : ∀ t ∈ ts, renderToken t ≠ []) (inv : Bool) :
    ∃ m, mkMatcher (ts.map renderToken) inv = .ok m ∧
      ∀ name, '\n' ∉ name → applyMatch m name = (!ts.isEmpty && selects ts inv name) := by
  cases hts : ts with
  | nil => exact ⟨none, by simp [mkMatcher], by intro name _; simp [applyMatch]⟩
  | cons t0 ts0 =>
    have hne : ts ≠ [] := by simp [hts]
    have hfl : ts.flatten ≠ [] := by
      have h0 : t0 ≠ [] := by
        intro h0
        exact hp t0 (by simp [hts]) (by rw [h0]; rfl)
      rw [hts]
      cases t0 with
      | nil => exact absurd rfl h0
      | cons p t0 => simp
    rw [← hts]
    refine ⟨some (if inv then seqOf [.neg (coreRe ts.flatten)] else coreRe ts.flatten).matches, ?_, ?_⟩
    · unfold mkMatcher
      have : ts.map renderToken ≠ [] := by simpa using hne
      simp only [this, ↓reduceIte, build_tokens ts hne hp inv, parse_build ts.flatten hfl inv]
    · intro name hn
      have hsel : selects ts inv name = (inv != ts.flatten.any (matchSimple · name)) := by
        simp only [selects, matchToken, List.any_flatten]
      have hemp : ts.isEmpty = false := by simp [hts]
      rw [hsel, hemp]
      simp only [applyMatch, Bool.not_false, Bool.true_and]
      cases inv with
      | false => simp only [Bool.false_eq_true, ↓reduceIte, Re.matches, core_match _ hfl name hn]; simp
      | true =>
        simp only [↓reduceIte, Re.matches, seqOf, Re.m, core_match _ hfl name hn, Bool.and_true]
        cases ts.flatten.any (matchSimple · name) <;> rfl

theorem literal_render (name : List Char) (h : ∀ c ∈ name, isSpecial c = false) : renderSimple (literal name) = name := by
  induction name with
  | nil => rfl
  | cons c cs ih =>
    have hc := h c (by simp)
    have := ih (fun d hd => h d (by simp [hd]))
    simp only [renderSimple, literal, List.map_cons, List.flatMap_cons, renderCs, renderRep] at this ⊢
    simp [hc, this]

theorem literal_match (name s : List Char) : matchSimple (literal name) s = decide (s = name) := by
  induction name generalizing s with
  | nil => cases s <;> simp [literal, matchSimple]
  | cons c cs ih =>
    rw [Bool.eq_iff_iff]
    simp only [literal, List.map_cons, decide_eq_true_eq]
    rw [matchSimple_cons_iff]
    constructor
    · rintro ⟨n, ⟨hn, h1, hall⟩, hm⟩
      have : n = 1 := by simpa [Rep.allows] using h1
      subst this
      cases s with
      | nil => simp at hn
      | cons d s =>
        have hd := hall d (by simp)
        simp only [Cs.accepts, beq_iff_eq] at hd
        have := ih (s := s)
        simp only [literal] at this
        simp only [List.drop_succ_cons, List.drop_zero, this, decide_eq_true_eq] at hm
        rw [hd, hm]
    · rintro rfl
      refine ⟨1, ⟨by simp, by simp [Rep.allows], by simp [Cs.accepts]⟩, ?_⟩
      have := ih (s := cs)
      simp only [literal] at this
      simp [this]

/-! ### the names the scanner reports contain no newline -/

theorem skipWhile_all (p : Char → Bool) (b : Buf) (pos r : Nat) (h : skipWhile p b pos = some r) :
    ∀ j, pos ≤ j → j < r → ∃ c, b[j]? = some c ∧ p c = true := by
  fun_induction skipWhile p b pos with
  | case1 pos hlt hp ih =>
    intro j h1 h2
    by_cases hj : j = pos
    · subst hj; exact ⟨b[j], by simp [hlt], hp⟩
    · exact ih h j (by omega) h2
  | case2 pos hlt hp => intro j h1 h2; simp at h; omega
  | case3 pos hge => simp at h

theorem slice_mem (b : Buf) (i j : Nat) (c : Char) (h : c ∈ slice b i j) : ∃ k, i ≤ k ∧ k < j ∧ b[k]? = some c := by
  unfold slice at h
  obtain ⟨n, hn⟩ := List.mem_iff_getElem?.mp h
  rw [List.getElem?_drop, List.getElem?_take] at hn
  split at hn
  · exact ⟨i + n, by omega, by omega, hn⟩
  · cases hn

theorem name_no_newline (b : Buf) (q : Char → Bool) (hq : q '\n' = false) (ns ne : Nat)
    (h : skipWhile q b ns = some ne) : '\n' ∉ slice b ns ne := by
  intro hm
  obtain ⟨k, h1, h2, h3⟩ := slice_mem b ns ne '\n' hm
  obtain ⟨c, hc, hqc⟩ := skipWhile_all q b ns ne h k h1 h2
  rw [h3] at hc
  cases hc
  rw [hq] at hqc
  cases hqc

theorem isEnvvar_name (b : Buf) (pos ns ne np : Nat) (h : isEnvvar b pos = some (ns, ne, np)) :
    '\n' ∉ slice b ns ne := by
  unfold isEnvvar at h
  cases h1 : skipWhile (oneOf " \t") b pos with
  | none => simp only [h1, Option.bind_eq_bind, Option.bind_none, Option.bind_some, reduceCtorEq] at h
  | some start =>
    cases h2 : skipWhile (fun c => !oneOf "\x00\"'()- \t\n=" c) b start with
    | none => simp only [h1, h2, Option.bind_eq_bind, Option.bind_none, Option.bind_some, reduceCtorEq] at h
    | some p =>
      simp only [h1, h2, Option.bind_eq_bind, Option.bind_some] at h
      split at h
      · split at h
        · simp at h
        · simp only [Option.some.injEq, Prod.mk.injEq] at h
          obtain ⟨rfl, rfl, rfl⟩ := h
          exact name_no_newline b _ (by decide) _ _ h2
      · simp at h

theorem isFunction_name (b : Buf) (pos ns ne np : Nat) (h : isFunction b pos = some (ns, ne, np)) :
    '\n' ∉ slice b ns ne := by
  unfold isFunction at h
  cases h1 : skipWhile (oneOf " \t") b pos with
  | none => simp only [h1, Option.bind_eq_bind, Option.bind_none, Option.bind_some, reduceCtorEq] at h
  | some p1 =>
    simp only [h1, Option.bind_eq_bind, Option.bind_some] at h
    generalize hp2 : (if slice b p1 (p1 + 8) = "function".toList then
        (match b[p1 + 8]? with
         | some c => if isSpace c then p1 + 9 else p1
         | none => p1)
      else p1) = p2 at h
    cases h3 : skipWhile isSpace b p2 with
    | none => simp only [h3, Option.bind_eq_bind, Option.bind_none, Option.bind_some, reduceCtorEq] at h
    | some p3 =>
      simp only [h3, Option.bind_some] at h
      cases h4 : skipWhile (fun c => !oneOf "\x00 \t\n=\"'()" c) b p3 with
      | none => simp only [h4, Option.bind_eq_bind, Option.bind_none, Option.bind_some, reduceCtorEq] at h
      | some p4 =>
        simp only [h4, Option.bind_some] at h
        split at h
        · simp at h
        · cases h5 : skipWhile (oneOf " \t") b p4 with
          | none => simp only [h5, Option.bind_eq_bind, Option.bind_none, Option.bind_some, reduceCtorEq] at h
          | some p5 =>
            simp only [h5, Option.bind_some] at h
            split at h
            · simp at h
            · cases h6 : skipWhile (oneOf " \t") b (p5 + 1) with
              | none => simp only [h6, Option.bind_eq_bind, Option.bind_none, Option.bind_some, reduceCtorEq] at h
              | some p6 =>
                simp only [h6, Option.bind_some] at h
                split at h
                · simp at h
                · cases h7 : skipWhile isSpace b (p6 + 1) with
                  | none => simp only [h7, Option.bind_eq_bind, Option.bind_none, Option.bind_some, reduceCtorEq] at h
                  | some p7 =>
                    simp only [h7, Option.bind_some] at h
                    split at h
                    · simp at h
                    · simp only [Option.some.injEq, Prod.mk.injEq] at h
                      obtain ⟨rfl, rfl, _⟩ := h
                      exact name_no_newline b _ (by decide) _ _ h4

theorem scopeLoop_names (n : Nat) : ∀ (emit : Bool) (b : Buf) (vm fm : Option (List Char → Bool)) (e : Char)
    (s : ScopeState) (r : ScopeResult), scopeLoop n emit b vm fm e s = .ok r →
    (∀ st ∈ s.stmts, '\n' ∉ st.name) → ∀ st ∈ r.stmts, '\n' ∉ st.name := by
  induction n with
  | zero => intro emit b vm fm e s r h; rw [scopeLoop] at h; cases h
  | succ n ih =>
    intro emit b vm fm e s r h hs
    rw [scopeLoop] at h
    have hfin : ∀ s : ScopeState, (finishScope emit b e s).stmts = s.stmts := by
      intro s; unfold finishScope; split <;> rfl
    split at h
    · simp only [Except.ok.injEq] at h; rw [← h, hfin]; exact hs
    · split at h
      · simp only [Except.ok.injEq] at h; rw [← h, hfin]; exact hs
      · simp only [] at h
        have hst : (flushWindow emit s).stmts = s.stmts := by unfold flushWindow; split <;> rfl
        generalize flushWindow emit s = s' at h hst
        rw [← hst] at hs
        split at h
        · exact ih _ _ _ _ _ _ _ h (by simpa using hs)
        · split at h
          · obtain ⟨p, hp, h⟩ := bind_ok h
            exact ih _ _ _ _ _ _ _ h (by simpa using hs)
          · split at h
            · rename_i ns ne np hf
              obtain ⟨sr, hsr, h⟩ := bind_ok h
              refine ih _ _ _ _ _ _ _ h ?_
              intro st hst'
              simp only [List.mem_append, List.mem_singleton] at hst'
              rcases hst' with hst' | rfl
              · exact hs st hst'
              · exact isFunction_name b s'.pos ns ne np hf
            · split at h
              · obtain ⟨p, hp, h⟩ := bind_ok h
                exact ih _ _ _ _ _ _ _ h (by simpa using hs)
              · rename_i ns ne np hv
                have hv' := isEnvvar_name b s'.pos ns ne np hv
                split at h
                · simp only [Except.ok.injEq] at h
                  rw [← h]
                  intro st hst'
                  simp only [List.mem_append, List.mem_singleton] at hst'
                  rcases hst' with hst' | rfl
                  · exact hs st hst'
                  · exact hv'
                · obtain ⟨p, hp, h⟩ := bind_ok h
                  refine ih _ _ _ _ _ _ _ h ?_
                  intro st hst'
                  simp only [List.mem_append, List.mem_singleton] at hst'
                  rcases hst' with hst' | rfl
                  · exact hs st hst'
                  · exact hv'

theorem mainRun_names (data : List Char) (vm fm : Option (List Char → Bool)) (out : List Char) (r : ScopeResult)
    (h : mainRun data vm fm = .ok (out, r)) : ∀ st ∈ r.stmts, '\n' ∉ st.name := by
  unfold mainRun at h
  simp only [] at h
  split at h
  · rename_i r' hr
    simp only [Except.ok.injEq, Prod.mk.injEq] at h
    obtain ⟨_, rfl⟩ := h
    have hfuel : fuelFor (data ++ ['\x00']) = (6 * (data ++ ['\x00']).length + 15) + 1 := by unfold fuelFor; omega
    rw [hfuel, processScope] at hr
    exact scopeLoop_names _ _ _ vm fm _ _ r' hr (by simp)
  · cases h

/-! ## the bytes written (`out.write(buff[a:b].encode("utf-8"))` per window) -/

theorem utf8_append (a b : List Char) : utf8 (a ++ b) = utf8 a ++ utf8 b := by
  unfold utf8; exact List.flatMap_append

theorem utf8_flatten (l : List (List Char)) : utf8 l.flatten = (l.map utf8).flatten := by
  induction l with
  | nil => rfl
  | cons a l ih => simp [utf8_append, ih]

/-- only the NUL character has a zero byte in its encoding -/
theorem utf8EncodeChar_no_nul (c : Char) (h : (0 : UInt8) ∈ String.utf8EncodeChar c) : c = '\x00' := by
  have key : ∀ n : Nat, n < 256 → (0 : UInt8) = UInt8.ofNat n → n = 0 := by
    intro n hn he
    have := congrArg UInt8.toNat he
    simp [UInt8.toNat_ofNat'] at this
    omega
  unfold String.utf8EncodeChar at h
  simp only [] at h
  split at h
  · simp only [List.mem_singleton] at h
    have := key _ (by omega) h
    apply Char.ext
    apply UInt32.toNat_inj.mp
    simpa using this
  · split at h
    · simp only [List.mem_cons, List.not_mem_nil, or_false] at h
      rcases h with h | h <;> have := key _ (by omega) h <;> omega
    · split at h
      · simp only [List.mem_cons, List.not_mem_nil, or_false] at h
        rcases h with h | h | h <;> have := key _ (by omega) h <;> omega
      · simp only [List.mem_cons, List.not_mem_nil, or_false] at h
        rcases h with h | h | h | h <;> have := key _ (by omega) h <;> omega

theorem utf8_no_nul (s : List Char) (h : '\x00' ∉ s) : (0 : UInt8) ∉ utf8 s := by
  intro h0
  unfold utf8 at h0
  obtain ⟨c, hc, h0⟩ := List.mem_flatMap.mp h0
  exact h (utf8EncodeChar_no_nul c h0 ▸ hc)

end Pkgcore.C34
