import Pkgcore.Spec.C09
/-!
# C09 — helper lemmas (evaluation part, then parser part)
-/
namespace Pkgcore.C09
open Pkgcore.C09.Spec

/-! ## tables -/

theorem collapsible_eq_wipes (k : Kind) : collapsible k = wipes k := by cases k <;> decide
theorem wipeEmpty_eq_wipes (k : Kind) : wipeEmpty k = wipes k := by cases k <;> decide

/-! ## unfolding lemmas -/

@[simp] theorem membersAbs_nil (F T) : membersAbs F T [] = [] := by simp [membersAbs]
@[simp] theorem membersAbs_cons (F T c cs) :
    membersAbs F T (c :: cs) = (satAbs F T c).toList ++ membersAbs F T cs := by simp [membersAbs]

theorem membersAbs_append (F T) (a b : List Dep) :
    membersAbs F T (a ++ b) = membersAbs F T a ++ membersAbs F T b := by
  induction a with
  | nil => simp
  | cons x xs ih => simp [ih]

@[simp] theorem evalList_nil (F p) : evalList F p [] = [] := by simp [evalList]
@[simp] theorem evalList_cons (F p c cs) : evalList F p (c :: cs) = evalNode F p c ++ evalList F p cs := by
  simp [evalList]

@[simp] theorem hasCondL_nil : hasCondL [] = false := by simp [hasCondL]
@[simp] theorem hasCondL_cons (c cs) : hasCondL (c :: cs) = (hasCond c || hasCondL cs) := by simp [hasCondL]

theorem hasCondL_append (a b : List Dep) : hasCondL (a ++ b) = (hasCondL a || hasCondL b) := by
  induction a with
  | nil => simp
  | cons x xs ih => simp [ih, Bool.or_assoc]

/-! ## evaluation yields a conditional-free structure -/

theorem hasCondL_finish (p kind force l) (h : hasCondL l = false) : hasCondL (finish p kind force l) = false := by
  unfold finish
  split
  · split
    · exact h
    · simp [hasCond, h]
  · simp

mutual
theorem hasCondL_evalNode (F : Tok → Bool) : ∀ (t : Dep) (p : PCls), hasCondL (evalNode F p t) = false
  | .leaf k r, p => by simp [evalNode, hasCond]
  | .grp kind cs, p => by
      simp only [evalNode]
      exact hasCondL_finish _ _ _ _ (hasCondL_evalList F cs _)
  | .cond n f cs, p => by
      simp only [evalNode]
      split
      · split
        · simp
        · exact hasCondL_finish _ _ _ _ (hasCondL_evalList F cs _)
      · simp
theorem hasCondL_evalList (F : Tok → Bool) : ∀ (cs : List Dep) (p : PCls), hasCondL (evalList F p cs) = false
  | [], p => by simp
  | c :: cs, p => by
      simp [hasCondL_append, hasCondL_evalNode F c p, hasCondL_evalList F cs p]
end

theorem hasCondL_evaluateDepset (F : Tok → Bool) (ts : List Dep) : hasCondL (evaluateDepset F ts) = false := by
  unfold evaluateDepset
  split
  · exact hasCondL_finish _ _ _ _ (hasCondL_evalList F ts _)
  · rename_i h; simpa using h

/-! ## a conditional-free structure reads the same under every flag set -/

mutual
theorem satAbs_condFree (F F' : Tok → Bool) (T : Present) : ∀ t : Dep, hasCond t = false → satAbs F T t = satAbs F' T t
  | .leaf k r, _ => by simp [satAbs]
  | .grp kind cs, h => by
      have h' : hasCondL cs = false := by simpa [hasCond] using h
      simp [satAbs, membersAbs_condFree F F' T cs h']
  | .cond n f cs, h => by simp [hasCond] at h
theorem membersAbs_condFree (F F' : Tok → Bool) (T : Present) :
    ∀ cs : List Dep, hasCondL cs = false → membersAbs F T cs = membersAbs F' T cs
  | [], _ => by simp
  | c :: cs, h => by
      simp only [hasCondL_cons, Bool.or_eq_false_iff] at h
      simp [satAbs_condFree F F' T c h.1, membersAbs_condFree F F' T cs h.2]
end

/-! ## evaluation preserves the absent reading -/

def andLike (p : PCls) : Prop := p = .depset ∨ p = .node .and
def orLike (p : PCls) : Prop := p = .node .or

/-- how the values of the spliced-in items `vs` represent the value `o` of the node they come from, inside a parent of class `p` -/
def Rep (p : PCls) (vs : List Bool) : Option Bool → Prop
  | none => vs = []
  | some b => vs = [b] ∨ (andLike p ∧ vs ≠ [] ∧ vs.all id = b) ∨ (orLike p ∧ vs ≠ [] ∧ vs.any id = b)

/-- the values `m'` of the evaluated children stand for the values `m` of the original members, inside a parent of class `p` -/
structure Comb (p : PCls) (m' m : List Bool) : Prop where
  empty : m'.isEmpty = m.isEmpty
  all : andLike p → m'.all id = m.all id
  any : orLike p → m'.any id = m.any id
  same : ¬ andLike p → ¬ orLike p → m' = m

theorem Comb.nil (p) : Comb p [] [] := ⟨rfl, fun _ => rfl, fun _ => rfl, fun _ _ => rfl⟩

theorem Comb.append {p vs o m' m} (h : Rep p vs o) (c : Comb p m' m) : Comb p (vs ++ m') (o.toList ++ m) := by
  cases o with
  | none =>
    simp only [Rep] at h
    subst h
    simpa using c
  | some b =>
    simp only [Rep] at h
    rcases h with h | ⟨hp, hne, hb⟩ | ⟨hp, hne, hb⟩
    · subst h
      refine ⟨by simp, fun hp => by simp [c.all hp], fun hp => by simp [c.any hp], fun h1 h2 => by simp [c.same h1 h2]⟩
    · refine ⟨?_, fun _ => ?_, fun ho => ?_, fun h1 _ => absurd hp h1⟩
      · cases vs with
        | nil => exact absurd rfl hne
        | cons x xs => simp
      · simp [List.all_append, hb, c.all hp]
      · rcases hp with hp | hp <;> · rw [ho] at hp; cases hp
    · refine ⟨?_, fun ha => ?_, fun _ => ?_, fun _ h2 => absurd hp h2⟩
      · cases vs with
        | nil => exact absurd rfl hne
        | cons x xs => simp
      · rcases ha with ha | ha <;> · rw [hp] at ha; cases ha
      · simp [List.any_append, hb, c.any hp]

/-- judging a group of kind `kind` only needs what `Comb (.node kind)` keeps -/
theorem Comb.judge_eq {kind m' m} (c : Comb (.node kind) m' m) : judge kind m' = judge kind m := by
  cases kind with
  | and => simpa [judge] using c.all (Or.inr rfl)
  | or => simp [judge, c.empty, c.any rfl]
  | justOne => rw [c.same (by simp [andLike]) (by simp [orLike])]
  | atMostOne => rw [c.same (by simp [andLike]) (by simp [orLike])]

/-- the node is there (not absent) -/
def presentNode (F : Tok → Bool) (T : Present) (x : Dep) : Prop := (satAbs F T x).isSome = true

theorem membersAbs_isEmpty_of_present (F T) : ∀ (l : List Dep), (∀ x ∈ l, presentNode F T x) →
    (membersAbs F T l).isEmpty = l.isEmpty
  | [], _ => by simp
  | x :: xs, h => by
      have hx := h x (by simp)
      unfold presentNode at hx
      cases hs : satAbs F T x with
      | none => simp [hs] at hx
      | some b => simp [hs]

/-- what `finish` splices into the parent stands for the group built from the evaluated children -/
theorem finish_rep (F : Tok → Bool) (T : Present) (p : PCls) (kind : Kind) (l : List Dep)
    (hl : ∀ x ∈ l, presentNode F T x) :
    Rep p (membersAbs F T (finish p kind false l))
      (if (membersAbs F T l).isEmpty && wipes kind then none else some (judge kind (membersAbs F T l)))
    ∧ ∀ x ∈ finish p kind false l, presentNode F T x := by
  have hemp := membersAbs_isEmpty_of_present F T l hl
  -- the rebuilt group
  have hgrp : ((membersAbs F T l).isEmpty && wipes kind) = false →
      membersAbs F T [Dep.grp kind l] = [judge kind (membersAbs F T l)] ∧
        ∀ x ∈ [Dep.grp kind l], presentNode F T x := by
    intro hs
    refine ⟨by simp [satAbs, hs], ?_⟩
    intro x hx
    simp only [List.mem_singleton] at hx
    subst hx
    simp [presentNode, satAbs, hs]
  unfold finish
  rw [wipeEmpty_eq_wipes, collapsible_eq_wipes]
  cases hw : wipes kind with
  | false =>
    -- `^^` / `??`: always rebuilt
    obtain ⟨h1, h2⟩ := hgrp (by simp [hw])
    simp only [Bool.not_false, Bool.true_or, if_true, Bool.false_and, Bool.false_eq_true, if_false, Bool.or_self,
      Bool.and_false]
    exact ⟨by rw [h1]; exact Or.inl rfl, h2⟩
  | true =>
    by_cases hle : l = []
    · subst hle; simp [Rep]
    · have hne : (membersAbs F T l).isEmpty = false := by
        rw [hemp]; cases l with
        | nil => exact absurd rfl hle
        | cons _ _ => rfl
      have hne' : membersAbs F T l ≠ [] := by
        intro h0; rw [h0] at hne; simp at hne
      have hlne : l.isEmpty = false := by rw [← hemp]; exact hne
      obtain ⟨h1, h2⟩ := hgrp (by simp [hne])
      simp only [Bool.not_true, hlne, Bool.not_false, Bool.or_true, if_true, Bool.false_or, Bool.true_and,
        hne, Bool.false_and, Bool.false_eq_true, if_false]
      split
      · -- collapsed into the parent
        rename_i hc
        refine ⟨?_, hl⟩
        simp only [Bool.or_eq_true, decide_eq_true_eq] at hc
        rcases hc with hc | hc
        · -- same class as the parent
          cases kind with
          | and =>
            refine Or.inr (Or.inl ⟨?_, hne', by simp [judge]⟩)
            cases p with
            | depset => exact Or.inl rfl
            | node k' => simp [isSubclass] at hc; subst hc; exact Or.inr rfl
          | or =>
            refine Or.inr (Or.inr ⟨?_, hne', ?_⟩)
            · cases p with
              | depset => simp [isSubclass] at hc
              | node k' => simp [isSubclass] at hc; subst hc; rfl
            · simp [judge, hne]
          | justOne => simp [wipes] at hw
          | atMostOne => simp [wipes] at hw
        · -- a single child
          match l, hl, hle, hc with
          | [y], hl, _, _ =>
            have hy := hl y (by simp)
            unfold presentNode at hy
            cases hs : satAbs F T y with
            | none => simp [hs] at hy
            | some b =>
              refine Or.inl ?_
              cases kind with
              | and => simp [hs, judge]
              | or => simp [hs, judge]
              | justOne => simp [wipes] at hw
              | atMostOne => simp [wipes] at hw
          | [], _, hle, _ => exact absurd rfl hle
          | _ :: _ :: _, _, _, hc => simp at hc
      · exact ⟨by rw [h1]; exact Or.inl rfl, h2⟩

mutual
theorem evalNode_rep (F F' : Tok → Bool) (T : Present) : ∀ (t : Dep) (p : PCls),
    Rep p (membersAbs F' T (evalNode F p t)) (satAbs F T t) ∧ ∀ x ∈ evalNode F p t, presentNode F' T x
  | .leaf k r, p => by
      simp [evalNode, satAbs, Rep, presentNode]
  | .grp kind cs, p => by
      obtain ⟨hc, hp⟩ := evalList_comb F F' T cs (.node kind)
      have h := finish_rep F' T p kind (evalList F (.node kind) cs) hp
      simp only [evalNode, satAbs]
      rw [← hc.judge_eq, ← hc.empty]
      exact h
  | .cond n f cs, p => by
      simp only [evalNode, satAbs]
      split
      · obtain ⟨hc, hp⟩ := evalList_comb F F' T cs (.node .and)
        have h := finish_rep F' T p .and (evalList F (.node .and) cs) hp
        have hj : (membersAbs F T cs).all id = judge .and (membersAbs F' T (evalList F (.node .and) cs)) := by
          rw [hc.judge_eq]; simp [judge]
        split
        · rename_i hcs
          have : cs = [] := by simpa using hcs
          subst this
          simp [Rep]
        · rw [hj, ← hc.empty]
          simpa [wipes] using h
      · simp [Rep]
theorem evalList_comb (F F' : Tok → Bool) (T : Present) : ∀ (cs : List Dep) (p : PCls),
    Comb p (membersAbs F' T (evalList F p cs)) (membersAbs F T cs) ∧ ∀ x ∈ evalList F p cs, presentNode F' T x
  | [], p => by simp [Comb.nil]
  | c :: cs, p => by
      obtain ⟨h1, p1⟩ := evalNode_rep F F' T c p
      obtain ⟨h2, p2⟩ := evalList_comb F F' T cs p
      refine ⟨?_, ?_⟩
      · simp only [evalList_cons, membersAbs_append, membersAbs_cons]
        exact Comb.append h1 h2
      · intro x hx
        simp only [evalList_cons, List.mem_append] at hx
        rcases hx with hx | hx
        · exact p1 x hx
        · exact p2 x hx
end

theorem evaluateDepset_preserves_absent (F F' : Tok → Bool) (T : Present) (ts : List Dep) :
    satTopAbs F' T (evaluateDepset F ts) = satTopAbs F T ts := by
  unfold evaluateDepset satTopAbs
  split
  · obtain ⟨hc, _⟩ := evalList_comb F F' T ts .depset
    have : finish .depset .and true (evalList F .depset ts) = evalList F .depset ts := by
      unfold finish
      cases h : evalList F .depset ts with
      | nil => simp
      | cons x xs => simp
    rw [this]
    exact hc.all (Or.inl rfl)
  · rename_i h
    rw [membersAbs_condFree F' F T ts (by simpa using h)]

/-! ## the absent reading and the PMS reading coincide on tame structures -/

@[simp] theorem membersPMS_nil (F T) : membersPMS F T [] = [] := by simp [membersPMS]
@[simp] theorem allPMS_nil (F T) : allPMS F T [] = true := by simp [allPMS]
@[simp] theorem allPMS_cons (F T c cs) : allPMS F T (c :: cs) = (satPMS F T c && allPMS F T cs) := by simp [allPMS]

/-- the members of an all-of group, unmet conditionals left out, are all matched iff every child is -/
theorem membersPMS_all (F : Tok → Bool) (T : Present) : ∀ cs : List Dep, (membersPMS F T cs).all id = allPMS F T cs
  | [] => by simp
  | .leaf k r :: cs => by simp [membersPMS, satPMS, membersPMS_all F T cs]
  | .grp kind ps :: cs => by simp [membersPMS, satPMS, membersPMS_all F T cs]
  | .cond n f ps :: cs => by
      by_cases h : (F f != n) = true <;> simp [membersPMS, satPMS, h, membersPMS_all F T cs]

mutual
theorem solid_present (F : Tok → Bool) (T : Present) : ∀ t : Dep, solid t = true → (satAbs F T t).isSome = true
  | .leaf k r, _ => by simp [satAbs]
  | .cond n f cs, h => by simp [solid] at h
  | .grp kind cs, h => by
      simp only [solid, Bool.or_eq_true, Bool.not_eq_true'] at h
      simp only [satAbs]
      rcases h with h | h
      · simp [h]
      · have := solidAny_members F T cs h
        cases hm : membersAbs F T cs with
        | nil => exact absurd hm this
        | cons x xs => simp
theorem solidAny_members (F : Tok → Bool) (T : Present) : ∀ cs : List Dep, solidAny cs = true → membersAbs F T cs ≠ []
  | [], h => by simp [solidAny] at h
  | c :: cs, h => by
      simp only [solidAny, Bool.or_eq_true] at h
      rcases h with h | h
      · have := solid_present F T c h
        cases hs : satAbs F T c with
        | none => simp [hs] at this
        | some b => simp [hs]
      · have := solidAny_members F T cs h
        simp [this]
end

mutual
theorem tame_sat (F : Tok → Bool) (T : Present) : ∀ t : Dep, tame t = true →
    satPMS F T t = (satAbs F T t).getD true
  | .leaf k r, _ => by simp [satPMS, satAbs]
  | .cond n f cs, h => by
      have hc : tameL cs = true := by simpa [tame] using h
      simp only [satPMS, satAbs]
      split
      · rw [tame_all F T cs hc]
        cases hm : membersAbs F T cs with
        | nil => simp
        | cons x xs => simp
      · simp
  | .grp kind cs, h => by
      simp only [tame, Bool.and_eq_true, Bool.or_eq_true, beq_iff_eq] at h
      obtain ⟨hc, hk⟩ := h
      simp only [satPMS, satAbs]
      rcases hk with hk | hk
      · subst hk
        have : judge .and (membersPMS F T cs) = (membersAbs F T cs).all id := by
          simp only [judge]; rw [membersPMS_all, tame_all F T cs hc]
        rw [this]
        cases hm : membersAbs F T cs with
        | nil => simp [wipes]
        | cons x xs => simp [judge]
      · rw [tame_members F T cs hc hk]
        cases hm : membersAbs F T cs with
        | nil => cases kind <;> simp [wipes, judge]
        | cons x xs => simp
theorem tame_all (F : Tok → Bool) (T : Present) : ∀ cs : List Dep, tameL cs = true →
    allPMS F T cs = (membersAbs F T cs).all id
  | [], _ => by simp
  | c :: cs, h => by
      simp only [tameL, Bool.and_eq_true] at h
      rw [allPMS_cons, tame_sat F T c h.1, tame_all F T cs h.2, membersAbs_cons]
      cases satAbs F T c <;> simp
theorem tame_members (F : Tok → Bool) (T : Present) : ∀ cs : List Dep, tameL cs = true → membersOk cs = true →
    membersPMS F T cs = membersAbs F T cs
  | [], _, _ => by simp
  | .leaf k r :: cs, h, hm => by
      simp only [tameL, Bool.and_eq_true] at h
      simp only [membersOk, Bool.and_eq_true] at hm
      simp [membersPMS, satAbs, tame_members F T cs h.2 hm.2]
  | .grp kind ps :: cs, h, hm => by
      simp only [tameL, Bool.and_eq_true] at h
      simp only [membersOk, memberOk, Bool.and_eq_true] at hm
      have hp := solid_present F T (.grp kind ps) hm.1
      have hs := tame_sat F T (.grp kind ps) h.1
      simp only [satPMS] at hs
      simp only [membersPMS, membersAbs_cons, tame_members F T cs h.2 hm.2, hs]
      cases hv : satAbs F T (.grp kind ps) with
      | none => simp [hv] at hp
      | some b => simp
  | .cond n f ps :: cs, h, hm => by
      simp only [tameL, Bool.and_eq_true] at h
      simp only [membersOk, memberOk, Bool.and_eq_true] at hm
      have hps : tameL ps = true := by simpa [tame] using h.1
      have hne := solidAny_members F T ps hm.1
      simp only [membersPMS, membersAbs_cons, tame_members F T cs h.2 hm.2, satAbs]
      split
      · rw [tame_all F T ps hps]
        cases hv : membersAbs F T ps with
        | nil => exact absurd hv hne
        | cons x xs => simp
      · simp
end

theorem satTop_tame (F : Tok → Bool) (T : Present) (ts : List Dep) (h : tameL ts = true) :
    satTopAbs F T ts = satTopPMS F T ts := by
  unfold satTopAbs satTopPMS
  rw [tame_all F T ts h]

/-! ## what evaluation builds is tame (and solid) -/

def goodNode (x : Dep) : Prop := tame x = true ∧ solid x = true ∧ memberOk x = true

theorem tameL_of_good : ∀ l : List Dep, (∀ x ∈ l, goodNode x) → tameL l = true ∧ membersOk l = true
  | [], _ => by simp [tameL, membersOk]
  | x :: xs, h => by
      have hx := h x (by simp)
      have := tameL_of_good xs (fun y hy => h y (by simp [hy]))
      simp [tameL, membersOk, hx.1, hx.2.2, this.1, this.2]

theorem finish_good (p : PCls) (kind : Kind) (l : List Dep) (hl : ∀ x ∈ l, goodNode x) :
    ∀ x ∈ finish p kind false l, goodNode x := by
  unfold finish
  rw [wipeEmpty_eq_wipes]
  split
  · rename_i h1
    split
    · exact hl
    · intro x hx
      simp only [List.mem_singleton] at hx
      subst hx
      obtain ⟨ht, hm⟩ := tameL_of_good l hl
      have hsolid : solid (.grp kind l) = true := by
        simp only [solid, Bool.or_eq_true, Bool.not_eq_true']
        cases hw : wipes kind with
        | false => exact Or.inl rfl
        | true =>
          right
          simp only [hw, Bool.not_true, Bool.false_or, Bool.not_eq_true', List.isEmpty_eq_false_iff] at h1
          cases l with
          | nil => exact absurd rfl h1
          | cons y ys => simp [solidAny, (hl y (by simp)).2.1]
      exact ⟨by simp [tame, ht, hm], hsolid, by simpa [memberOk] using hsolid⟩
  · simp

mutual
theorem evalNode_good (F : Tok → Bool) : ∀ (t : Dep) (p : PCls), ∀ x ∈ evalNode F p t, goodNode x
  | .leaf k r, p => by
      intro x hx
      simp only [evalNode, List.mem_singleton] at hx
      subst hx
      simp [goodNode, tame, solid, memberOk]
  | .grp kind cs, p => by
      simp only [evalNode]
      exact finish_good p kind _ (evalList_good F cs _)
  | .cond n f cs, p => by
      simp only [evalNode]
      split
      · split
        · simp
        · exact finish_good p .and _ (evalList_good F cs _)
      · simp
theorem evalList_good (F : Tok → Bool) : ∀ (cs : List Dep) (p : PCls), ∀ x ∈ evalList F p cs, goodNode x
  | [], p => by simp
  | c :: cs, p => by
      intro x hx
      simp only [evalList_cons, List.mem_append] at hx
      rcases hx with hx | hx
      · exact evalNode_good F c p x hx
      · exact evalList_good F cs p x hx
end

theorem tameL_evaluateDepset (F : Tok → Bool) (ts : List Dep) (h : tameL ts = true) :
    tameL (evaluateDepset F ts) = true := by
  unfold evaluateDepset
  split
  · have : finish .depset .and true (evalList F .depset ts) = evalList F .depset ts := by
      unfold finish
      cases h : evalList F .depset ts with
      | nil => simp
      | cons x xs => simp
    rw [this]
    exact (tameL_of_good _ (evalList_good F ts .depset)).1
  · exact h

/-! ## collapsing single-child and/or groups (what the parser does) preserves the absent reading -/

@[simp] theorem collapseL_nil : collapseL [] = [] := by simp [collapseL]
@[simp] theorem collapseL_cons (c cs) : collapseL (c :: cs) = collapse c :: collapseL cs := by simp [collapseL]

mutual
theorem satAbs_collapse (F : Tok → Bool) (T : Present) : ∀ t : Dep, satAbs F T (collapse t) = satAbs F T t
  | .leaf k r => by simp [collapse]
  | .cond n f cs => by simp [collapse, satAbs, membersAbs_collapseL F T cs]
  | .grp kind cs => by
      have ih := membersAbs_collapseL F T cs
      simp only [collapse]
      split
      · rename_i x hx
        rw [hx] at ih
        split
        · rename_i hc
          rw [collapsible_eq_wipes] at hc
          simp only [satAbs, ← ih, membersAbs_cons, membersAbs_nil, List.append_nil, hc]
          cases hs : satAbs F T x with
          | none => simp
          | some b => cases kind <;> simp [judge, wipes] at hc ⊢
        · simp only [satAbs, ← ih]
      · rename_i l hl
        simp only [satAbs, ih]
theorem membersAbs_collapseL (F : Tok → Bool) (T : Present) :
    ∀ cs : List Dep, membersAbs F T (collapseL cs) = membersAbs F T cs
  | [] => by simp
  | c :: cs => by simp [satAbs_collapse F T c, membersAbs_collapseL F T cs]
end

/-! ## the parser: unfolding -/

theorem parseLoop_cons (ops : Ops) (ren okEl k rest cur stack) : parseLoop ops ren okEl (k :: rest) cur stack =
    (if k = tkClose then
      match stack with
      | [] => none
      | (c, parent) :: stack' =>
        match closeFrame ops c cur with
        | none => none
        | some node => parseLoop ops ren okEl rest (parent ++ [node]) stack'
    else if k = tkOpen then parseLoop ops ren okEl rest [] (([], cur) :: stack)
    else if isOpener ops k then
      match rest with
      | [] => none
      | k2 :: rest' =>
        if k2 = tkOpen then parseLoop ops ren okEl rest' [] ((k, cur) :: stack) else none
    else if k.contains '|' then none
    else if ren then
      if k = tkArrow then none
      else if rest.head? = some tkArrow then
        match rest with
        | _ :: k3 :: rest'' =>
          if plainTok ops k3 && okEl k (some k3) then
            parseLoop ops ren okEl rest'' (cur ++ [.leaf k (some k3)]) stack
          else none
        | _ => none
      else if okEl k none then parseLoop ops ren okEl rest (cur ++ [.leaf k none]) stack else none
    else if okEl k none then parseLoop ops ren okEl rest (cur ++ [.leaf k none]) stack else none) := by
  rw [parseLoop.eq_def]; rfl

theorem parseLoop_nil_nil (ops : Ops) (ren okEl cur) : parseLoop ops ren okEl [] cur [] = some cur := by
  rw [parseLoop.eq_def]
theorem parseLoop_nil_cons (ops : Ops) (ren okEl cur x xs) : parseLoop ops ren okEl [] cur (x :: xs) = none := by
  rw [parseLoop.eq_def]

/-! ## token facts -/

theorem isCondTok_condTok (n f) : isCondTok (condTok n f) = true := by
  simp [isCondTok, condTok, List.getLast?_append]

theorem condTok_ne_close (n f) : condTok n f ≠ tkClose := by
  intro h; have := isCondTok_condTok n f; rw [h] at this; revert this; decide
theorem condTok_ne_open (n f) : condTok n f ≠ tkOpen := by
  intro h; have := isCondTok_condTok n f; rw [h] at this; revert this; decide
theorem condTok_ne_arrow (n f) : condTok n f ≠ tkArrow := by
  intro h; have := isCondTok_condTok n f; rw [h] at this; revert this; decide

theorem sym_ne_close (kind : Kind) : kind.sym ≠ tkClose := by cases kind <;> decide
theorem sym_ne_open (kind : Kind) : kind.sym ≠ tkOpen := by cases kind <;> decide
theorem sym_ne_arrow (kind : Kind) : kind.sym ≠ tkArrow := by cases kind <;> decide
theorem sym_inj {a b : Kind} (h : a.sym = b.sym) : a = b := by cases a <;> cases b <;> first | rfl | (revert h; decide)

theorem opsStd_node {ops : Ops} (hstd : OpsStd ops) {c kind} (h : ops.lookup c = some (.node kind)) : c = kind.sym := by
  obtain ⟨k', hk, ho⟩ := hstd c _ h
  rcases ho with ho | ho
  · cases ho
  · cases ho; exact hk

theorem opsStd_not_opener {ops : Ops} (hstd : OpsStd ops) (k : Tok) (hc : isCondTok k = false)
    (hs : ∀ kind : Kind, k ≠ kind.sym) : isOpener ops k = false := by
  simp only [isOpener, hc, Bool.false_or]
  cases h : ops.lookup k with
  | none => rfl
  | some op => obtain ⟨k', hk, _⟩ := hstd k op h; exact absurd hk (hs k')

theorem close_not_opener {ops : Ops} (hstd : OpsStd ops) : isOpener ops tkClose = false :=
  opsStd_not_opener hstd _ (by decide) (fun k h => sym_ne_close k h.symm)
theorem open_not_opener {ops : Ops} (hstd : OpsStd ops) : isOpener ops tkOpen = false :=
  opsStd_not_opener hstd _ (by decide) (fun k h => sym_ne_open k h.symm)
theorem arrow_not_opener {ops : Ops} (hstd : OpsStd ops) : isOpener ops tkArrow = false :=
  opsStd_not_opener hstd _ (by decide) (fun k h => sym_ne_arrow k h.symm)

/-! ## single parser steps -/

theorem parseLoop_leaf {ops : Ops} {ren okEl} (k rest cur stack) (hk : elemTok ops ren k = true)
    (hok : okEl k none = true) (hnext : ren = true → rest.head? ≠ some tkArrow) :
    parseLoop ops ren okEl (k :: rest) cur stack = parseLoop ops ren okEl rest (cur ++ [.leaf k none]) stack := by
  simp only [elemTok, Bool.and_eq_true, bne_iff_ne, ne_eq, Bool.not_eq_true', Bool.or_eq_true] at hk
  obtain ⟨⟨⟨⟨h1, h2⟩, h3⟩, h4⟩, h5⟩ := hk
  rw [parseLoop_cons]
  simp only [h1, h2, h3, h4, if_false, Bool.false_eq_true, hok, if_true]
  cases ren with
  | false => simp
  | true =>
    have h5' : k ≠ tkArrow := by simpa using h5
    simp [h5', hnext rfl]

theorem parseLoop_renamed {ops : Ops} {ren okEl} (k r rest cur stack) (hren : ren = true) (hk : elemTok ops ren k = true)
    (hr : plainTok ops r = true) (hok : okEl k (some r) = true) :
    parseLoop ops ren okEl (k :: tkArrow :: r :: rest) cur stack
      = parseLoop ops ren okEl rest (cur ++ [.leaf k (some r)]) stack := by
  subst hren
  simp only [elemTok, Bool.and_eq_true, bne_iff_ne, ne_eq, Bool.not_eq_true', Bool.or_eq_true] at hk
  obtain ⟨⟨⟨⟨h1, h2⟩, h3⟩, h4⟩, h5⟩ := hk
  have h5' : k ≠ tkArrow := by simpa using h5
  rw [parseLoop_cons]
  simp only [h1, h2, h3, h4, if_false, Bool.false_eq_true, if_true]
  simp [h5', hr, hok]

theorem parseLoop_open_grp {ops : Ops} {ren okEl} (kind : Kind) (rest cur stack)
    (hl : ops.lookup kind.sym = some (.node kind)) :
    parseLoop ops ren okEl ((if kind = .and then [tkOpen] else [kind.sym, tkOpen]) ++ rest) cur stack
      = parseLoop ops ren okEl rest [] ((kind.sym, cur) :: stack) := by
  by_cases hk : kind = .and
  · subst hk
    simp only [if_true, List.singleton_append]
    rw [parseLoop_cons]
    have : tkOpen ≠ tkClose := by decide
    simp [this, Kind.sym]
  · simp only [hk, if_false, List.cons_append, List.nil_append]
    rw [parseLoop_cons]
    simp [sym_ne_close, sym_ne_open, isOpener, hl]

theorem parseLoop_open_cond {ops : Ops} {ren okEl} (n f rest cur stack) :
    parseLoop ops ren okEl (condTok n f :: tkOpen :: rest) cur stack
      = parseLoop ops ren okEl rest [] ((condTok n f, cur) :: stack) := by
  rw [parseLoop_cons]
  simp [condTok_ne_close, condTok_ne_open, isOpener, isCondTok_condTok]

theorem parseLoop_close {ops : Ops} {ren okEl} (c rest l parent stack node) (h : closeFrame ops c l = some node) :
    parseLoop ops ren okEl (tkClose :: rest) l ((c, parent) :: stack)
      = parseLoop ops ren okEl rest (parent ++ [node]) stack := by
  rw [parseLoop_cons]
  simp [h]


@[simp] theorem renderL_nil : renderL [] = [] := by simp [renderL]
@[simp] theorem renderL_cons (c cs) : renderL (c :: cs) = render c ++ renderL cs := by simp [renderL]
@[simp] theorem wfL_nil (ops ren okEl) : wfL ops ren okEl [] = true := by simp [wfL]
@[simp] theorem wfL_cons (ops ren okEl c cs) :
    wfL ops ren okEl (c :: cs) = (wf ops ren okEl c && wfL ops ren okEl cs) := by simp [wfL]

theorem collapseL_ne_nil {cs : List Dep} (h : cs ≠ []) : collapseL cs ≠ [] := by
  cases cs with
  | nil => exact absurd rfl h
  | cons c cs => simp

/-- the first token of a rendered well-formed node is never `->` where renames are on -/
theorem render_head {ops : Ops} {ren okEl} (t : Dep) (h : wf ops ren okEl t = true) :
    ∃ k tl, render t = k :: tl ∧ (ren = true → k ≠ tkArrow) := by
  cases t with
  | leaf k r =>
    have hk : elemTok ops ren k = true := by
      cases r <;> simp only [wf, Bool.and_eq_true] at h
      · exact h.1
      · exact h.1.1.2
    have hka : ren = true → k ≠ tkArrow := by
      intro hr
      simp only [elemTok, Bool.and_eq_true, Bool.or_eq_true, Bool.not_eq_true', bne_iff_ne, ne_eq] at hk
      rcases hk.2 with h5 | h5
      · rw [hr] at h5; cases h5
      · exact h5
    cases r with
    | none => exact ⟨k, [], by simp [render], hka⟩
    | some r => exact ⟨k, [tkArrow, r], by simp [render], hka⟩
  | grp kind cs =>
    by_cases hk : kind = .and
    · exact ⟨tkOpen, renderL cs ++ [tkClose], by simp [render, hk], fun _ => by decide⟩
    · exact ⟨kind.sym, tkOpen :: (renderL cs ++ [tkClose]), by simp [render, hk], fun _ => sym_ne_arrow kind⟩
  | cond n f cs =>
    exact ⟨condTok n f, tkOpen :: (renderL cs ++ [tkClose]), by simp [render], fun _ => condTok_ne_arrow n f⟩

/-- closing the frame of an operator group builds the collapsed group -/
theorem closeFrame_grp {ops : Ops} (kind : Kind) (cs : List Dep) (hl : ops.lookup kind.sym = some (.node kind))
    (hne : cs ≠ []) : closeFrame ops kind.sym (collapseL cs) = some (collapse (.grp kind cs)) := by
  have hne' := collapseL_ne_nil hne
  unfold closeFrame
  simp only [hl, collapse]
  cases hc : collapseL cs with
  | nil => exact absurd hc hne'
  | cons x xs =>
    cases xs with
    | nil => by_cases hcol : collapsible kind = true <;> simp [hcol]
    | cons y ys => simp

theorem dropLast_condTok_pos (f : Tok) : (condTok false f).dropLast = f := by
  simp [condTok]
theorem tail_dropLast_condTok_neg (f : Tok) : (condTok true f).tail.dropLast = f := by
  simp [condTok]

/-- closing the frame of a conditional builds the conditional -/
theorem closeFrame_cond {ops : Ops} (n : Bool) (f : Tok) (cs : List Dep) (hl : ops.lookup (condTok n f) = none)
    (hf : n = false → f.head? ≠ some '!') (hne : cs ≠ []) :
    closeFrame ops (condTok n f) (collapseL cs) = some (collapse (.cond n f cs)) := by
  have hne' := collapseL_ne_nil hne
  unfold closeFrame
  have h1 : (collapseL cs).isEmpty = false := by
    cases h : collapseL cs with
    | nil => exact absurd h hne'
    | cons _ _ => rfl
  simp only [h1, Bool.false_eq_true, if_false, hl, collapse]
  cases n with
  | true =>
    have h2 : (condTok true f).isEmpty = false := by simp [condTok]
    have h3 : (condTok true f).head? = some '!' := by simp [condTok]
    simp only [h2, Bool.false_eq_true, if_false, h3, if_true, tail_dropLast_condTok_neg]
  | false =>
    have h2 : (condTok false f).isEmpty = false := by simp [condTok]
    have h3 : (condTok false f).head? ≠ some '!' := by
      have := hf rfl
      cases f with
      | nil => simp [condTok]
      | cons a as => simpa [condTok] using this
    simp only [h2, Bool.false_eq_true, if_false, h3, dropLast_condTok_pos]


mutual
/-- parsing the rendering of a well-formed raw tree pushes its collapsed form on the current frame -/
theorem parseLoop_render {ops : Ops} {ren : Bool} {okEl : Tok → Option Tok → Bool} (hstd : OpsStd ops) :
    ∀ (t : Dep), wf ops ren okEl t = true → ∀ (rest : List Tok) (cur : List Dep) (stack : List (Tok × List Dep)),
      (ren = true → rest.head? ≠ some tkArrow) →
      parseLoop ops ren okEl (render t ++ rest) cur stack
        = parseLoop ops ren okEl rest (cur ++ [collapse t]) stack
  | .leaf k none, h, rest, cur, stack, hn => by
      simp only [wf, Bool.and_eq_true] at h
      simp only [render, collapse, List.singleton_append]
      exact parseLoop_leaf k rest cur stack h.1 h.2 hn
  | .leaf k (some r), h, rest, cur, stack, _ => by
      simp only [wf, Bool.and_eq_true] at h
      simp only [render, collapse, List.cons_append, List.nil_append]
      exact parseLoop_renamed k r rest cur stack h.1.1.1 h.1.1.2 h.1.2 h.2
  | .grp kind cs, h, rest, cur, stack, _ => by
      simp only [wf, Bool.and_eq_true, beq_iff_eq, Bool.not_eq_true', List.isEmpty_eq_false_iff] at h
      obtain ⟨⟨hl, hne⟩, hcs⟩ := h
      simp only [render, List.append_assoc, List.singleton_append]
      rw [parseLoop_open_grp kind _ cur stack hl,
        parseLoop_renderL hstd cs hcs (tkClose :: rest) [] _ (fun _ => by simp; decide)]
      simp only [List.nil_append]
      exact parseLoop_close _ _ _ _ _ _ (closeFrame_grp kind cs hl hne)
  | .cond n f cs, h, rest, cur, stack, _ => by
      simp only [wf, Bool.and_eq_true, Option.isNone_iff_eq_none, Bool.or_eq_true, bne_iff_ne, ne_eq,
        Bool.not_eq_true', List.isEmpty_eq_false_iff] at h
      obtain ⟨⟨⟨hl, hf⟩, hne⟩, hcs⟩ := h
      simp only [render, List.append_assoc, List.cons_append, List.nil_append]
      rw [parseLoop_open_cond n f _ cur stack,
        parseLoop_renderL hstd cs hcs (tkClose :: rest) [] _ (fun _ => by simp; decide)]
      simp only [List.nil_append]
      refine parseLoop_close _ _ _ _ _ _ (closeFrame_cond n f cs hl ?_ hne)
      intro hn
      rcases hf with hf | hf
      · rw [hn] at hf; cases hf
      · exact hf
theorem parseLoop_renderL {ops : Ops} {ren : Bool} {okEl : Tok → Option Tok → Bool} (hstd : OpsStd ops) :
    ∀ (ts : List Dep), wfL ops ren okEl ts = true → ∀ (rest : List Tok) (cur : List Dep) (stack : List (Tok × List Dep)),
      (ren = true → rest.head? ≠ some tkArrow) →
      parseLoop ops ren okEl (renderL ts ++ rest) cur stack
        = parseLoop ops ren okEl rest (cur ++ collapseL ts) stack
  | [], _, rest, cur, stack, _ => by simp
  | t :: ts, h, rest, cur, stack, hn => by
      simp only [wfL_cons, Bool.and_eq_true] at h
      simp only [renderL_cons, List.append_assoc, collapseL_cons]
      have hn' : ren = true → (renderL ts ++ rest).head? ≠ some tkArrow := by
        intro hr
        cases ts with
        | nil => simpa using hn hr
        | cons t' ts' =>
          simp only [wfL_cons, Bool.and_eq_true] at h
          obtain ⟨k, tl, hk, hka⟩ := render_head t' h.2.1
          simp [hk, hka hr]
      rw [parseLoop_render hstd t h.1 (renderL ts ++ rest) cur stack hn',
        parseLoop_renderL hstd ts h.2 rest _ stack hn]
      simp
end


theorem wfL_append (ops : Ops) (ren okEl) (a b : List Dep) :
    wfL ops ren okEl (a ++ b) = (wfL ops ren okEl a && wfL ops ren okEl b) := by
  induction a with
  | nil => simp
  | cons x xs ih => simp [ih, Bool.and_assoc]

theorem collapseL_append (a b : List Dep) : collapseL (a ++ b) = collapseL a ++ collapseL b := by
  induction a with
  | nil => simp
  | cons x xs ih => simp [ih]

/-- a raw conditional token that is not an operator really is a conditional token -/
def FrameOk (ops : Ops) (c : Tok) : Prop := ops.lookup c = none → c ≠ [] → isCondTok c = true

theorem head?_dropLast {α} (l : List α) (x : α) (h : l.dropLast.head? = some x) : l.head? = some x := by
  cases l with
  | nil => simp at h
  | cons a as =>
    cases as with
    | nil => simp at h
    | cons b bs => simpa using h

theorem dropLast_append_of_getLast? {α} : ∀ (l : List α) (a : α), l.getLast? = some a → l.dropLast ++ [a] = l
  | [], _, h => by simp at h
  | [x], a, h => by simp at h; simp [h]
  | x :: y :: zs, a, h => by
      rw [List.getLast?_cons_cons] at h
      simp [dropLast_append_of_getLast? (y :: zs) a h]

theorem condTok_of_pos (c : Tok) (hc : isCondTok c = true) : condTok false c.dropLast = c := by
  simp only [isCondTok, beq_iff_eq] at hc
  simp only [condTok, if_false, Bool.false_eq_true, List.nil_append]
  exact dropLast_append_of_getLast? _ _ hc

theorem condTok_of_neg (c : Tok) (hc : isCondTok c = true) (hh : c.head? = some '!') :
    condTok true c.tail.dropLast = c := by
  cases c with
  | nil => simp at hh
  | cons a as =>
    simp only [List.head?_cons, Option.some.injEq] at hh
    subst hh
    simp only [isCondTok, beq_iff_eq] at hc
    cases as with
    | nil => simp at hc
    | cons b bs =>
      simp only [condTok, if_true, List.tail_cons, List.cons_append, List.nil_append, List.cons.injEq, true_and]
      rw [List.getLast?_cons_cons] at hc
      exact dropLast_append_of_getLast? _ _ hc

theorem closeFrame_wf {ops : Ops} {ren okEl} (hstd : OpsStd ops) (c : Tok) (cur : List Dep) (node : Dep)
    (h : closeFrame ops c cur = some node) (hw : wfL ops ren okEl cur = true) (hcol : collapseL cur = cur)
    (hf : FrameOk ops c) : wf ops ren okEl node = true ∧ collapse node = node := by
  unfold closeFrame at h
  cases hce : cur.isEmpty with
  | true => simp [hce] at h
  | false =>
    simp only [hce, Bool.false_eq_true, if_false] at h
    cases hl : ops.lookup c with
    | some op =>
      rw [hl] at h
      cases op with
      | invalid => simp at h
      | node kind =>
        have hc := opsStd_node hstd hl
        subst hc
        simp only at h
        match cur, hce, hw, hcol, h with
        | [x], _, hw, hcol, h =>
          simp only [wfL_cons, wfL_nil, Bool.and_true] at hw
          simp only [collapseL_cons, collapseL_nil, List.cons.injEq, and_true] at hcol
          by_cases hk : collapsible kind = true
          · simp only [hk, if_true, Option.some.injEq] at h
            subst h
            exact ⟨hw, hcol⟩
          · simp only [hk, Bool.false_eq_true, if_false, Option.some.injEq] at h
            subst h
            refine ⟨by simp [wf, hl, hw], ?_⟩
            simp [collapse, hcol, hk]
        | x :: y :: zs, _, hw, hcol, h =>
          simp only [Option.some.injEq] at h
          subst h
          refine ⟨by simp [wf, hl, hw], ?_⟩
          simp only [collapse]
          rw [hcol]
    | none =>
      rw [hl] at h
      have hcne : c ≠ [] := by
        intro h0; subst h0; simp at h
      have hct := hf hl hcne
      have hcE : c.isEmpty = false := by
        cases c with
        | nil => exact absurd rfl hcne
        | cons _ _ => rfl
      have hcurne : cur ≠ [] := by
        intro h0; subst h0; simp at hce
      simp only [hcE, Bool.false_eq_true, if_false] at h
      by_cases hh : c.head? = some '!'
      · simp only [hh, if_true, Option.some.injEq] at h
        subst h
        have := condTok_of_neg c hct hh
        refine ⟨?_, by simp [collapse, hcol]⟩
        simp [wf, this, hl, hw, hcurne]
      · simp only [hh, if_false, Option.some.injEq] at h
        subst h
        have := condTok_of_pos c hct
        refine ⟨?_, by simp [collapse, hcol]⟩
        have hd : c.dropLast.head? ≠ some '!' := fun h0 => hh (head?_dropLast _ _ h0)
        simp [wf, this, hl, hw, hcurne, hd]


/-- every suspended frame is a well-formed collapsed list under a legitimate opener -/
def StackOk (ops : Ops) (ren : Bool) (okEl : Tok → Option Tok → Bool) (stack : List (Tok × List Dep)) : Prop :=
  ∀ e ∈ stack, wfL ops ren okEl e.2 = true ∧ collapseL e.2 = e.2 ∧ FrameOk ops e.1

theorem StackOk.push {ops : Ops} {ren okEl stack} (hs : StackOk ops ren okEl stack) (c : Tok) (cur : List Dep)
    (hw : wfL ops ren okEl cur = true) (hc : collapseL cur = cur) (hf : FrameOk ops c) :
    StackOk ops ren okEl ((c, cur) :: stack) := by
  intro e he
  simp only [List.mem_cons] at he
  rcases he with he | he
  · subst he; exact ⟨hw, hc, hf⟩
  · exact hs e he

theorem elemTok_of {ops : Ops} {ren : Bool} {k : Tok} (h1 : ¬k = tkClose) (h2 : ¬k = tkOpen)
    (h3 : ¬isOpener ops k = true) (h4 : ¬k.contains '|' = true) (h5 : ren = true → ¬k = tkArrow) :
    elemTok ops ren k = true := by
  simp only [elemTok, Bool.and_eq_true, bne_iff_ne, ne_eq, Bool.not_eq_true', Bool.or_eq_true]
  refine ⟨⟨⟨⟨h1, h2⟩, by simpa using h3⟩, by simpa using h4⟩, ?_⟩
  cases ren with
  | false => exact Or.inl rfl
  | true => exact Or.inr (h5 rfl)

theorem parseLoop_wf {ops : Ops} {ren : Bool} {okEl : Tok → Option Tok → Bool} (hstd : OpsStd ops)
    (toks : List Tok) (cur : List Dep) (stack : List (Tok × List Dep)) :
    ∀ r, parseLoop ops ren okEl toks cur stack = some r →
      wfL ops ren okEl cur = true → collapseL cur = cur → StackOk ops ren okEl stack →
      wfL ops ren okEl r = true ∧ collapseL r = r := by
  fun_induction parseLoop ops ren okEl toks cur stack
  all_goals intro r h hw hc hs
  all_goals try (simp at h; done)
  case case1 cur =>
    simp only [Option.some.injEq] at h
    subst h
    exact ⟨hw, hc⟩
  case case5 rest cur c parent stack' node hcf ih =>
    obtain ⟨hpw, hpc, hpf⟩ := hs (c, parent) (by simp)
    obtain ⟨hnw, hnc⟩ := closeFrame_wf hstd c cur node hcf hw hc hpf
    refine ih r h ?_ ?_ (fun e he => hs e (by simp [he]))
    · simp [wfL_append, hpw, hnw]
    · simp [collapseL_append, hpc, hnc]
  case case6 rest cur stack _ ih =>
    refine ih r h (by simp) (by simp) (hs.push [] cur hw hc ?_)
    intro _ hne; exact absurd rfl hne
  case case8 k cur stack _ _ hop rest' ih =>
    refine ih r h (by simp) (by simp) (hs.push k cur hw hc ?_)
    intro hl _
    simpa [isOpener, hl] using hop
  case case12 k cur stack h1 h2 h3 h4 hren h5 head k3 rest'' hp _ ih =>
    simp only [Bool.and_eq_true] at hp
    refine ih r h ?_ ?_ hs
    · subst hren
      simp [wfL_append, hw, wf, elemTok_of h1 h2 h3 h4 (fun _ => h5), hp.1, hp.2]
    · simp [collapseL_append, hc, collapse]
  case case15 k rest cur stack h1 h2 h3 h4 hren h5 _ hok ih =>
    refine ih r h ?_ ?_ hs
    · simp [wfL_append, hw, wf, elemTok_of h1 h2 h3 h4 (fun _ => h5), hok]
    · simp [collapseL_append, hc, collapse]
  case case17 k rest cur stack h1 h2 h3 h4 hren hok ih =>
    refine ih r h ?_ ?_ hs
    · simp [wfL_append, hw, wf, elemTok_of h1 h2 h3 h4 (fun hr => absurd hr hren), hok]
    · simp [collapseL_append, hc, collapse]

/-- parsing the rendering of a well-formed raw forest gives its collapsed form -/
theorem parse_renderL {ops : Ops} {ren : Bool} {okEl : Tok → Option Tok → Bool} (hstd : OpsStd ops) (ts : List Dep)
    (h : wfL ops ren okEl ts = true) : parse ops ren okEl (renderL ts) = some (collapseL ts) := by
  have := parseLoop_renderL hstd ts h [] [] [] (fun _ => by simp)
  simp only [List.append_nil, List.nil_append] at this
  rw [parse, this, parseLoop_nil_nil]

theorem parse_wf {ops : Ops} {ren : Bool} {okEl : Tok → Option Tok → Bool} (hstd : OpsStd ops) (toks : List Tok)
    (ts : List Dep) (h : parse ops ren okEl toks = some ts) : wfL ops ren okEl ts = true ∧ collapseL ts = ts :=
  parseLoop_wf hstd toks [] [] ts h (by simp) (by simp) (fun e he => by simp at he)


/-! ## what the parser never accepts -/

theorem depthAfter_other (k : Tok) (rest : List Tok) (d : Nat) (h1 : ¬k = tkOpen) (h2 : ¬k = tkClose) :
    depthAfter (k :: rest) d = depthAfter rest d := by
  simp [depthAfter, h1, h2]

theorem plainTok_ne {ops : Ops} {k : Tok} (h : plainTok ops k = true) :
    ¬k = tkClose ∧ ¬k = tkOpen ∧ ¬k = tkArrow ∧ isOpener ops k = false := by
  simp only [plainTok, Bool.and_eq_true, bne_iff_ne, ne_eq, Bool.not_eq_true'] at h
  exact ⟨h.1.1.1.1, h.1.1.1.2, h.1.1.2, h.1.2⟩

theorem head_arrow {head : Tok} {l : List Tok} (h : (head :: l).head? = some tkArrow) : head = tkArrow := by
  simpa using h

/-- a successful parse closes exactly the frames it opened -/
theorem parseLoop_depth {ops : Ops} {ren : Bool} {okEl : Tok → Option Tok → Bool}
    (toks : List Tok) (cur : List Dep) (stack : List (Tok × List Dep)) :
    ∀ r, parseLoop ops ren okEl toks cur stack = some r → depthAfter toks stack.length = some 0 := by
  fun_induction parseLoop ops ren okEl toks cur stack
  all_goals intro r h
  all_goals try (simp at h; done)
  case case1 => simp [depthAfter]
  case case5 rest cur c parent stack' node hcf ih =>
    have : tkClose ≠ tkOpen := by decide
    simpa [depthAfter, this] using ih r h
  case case6 rest cur stack _ ih =>
    simpa [depthAfter] using ih r h
  case case8 k cur stack h1 h2 hop rest' ih =>
    rw [depthAfter_other k _ _ h2 h1]
    simpa [depthAfter] using ih r h
  case case12 k cur stack h1 h2 h3 h4 hren h5 head k3 rest'' hp hh ih =>
    simp only [Bool.and_eq_true] at hp
    obtain ⟨p1, p2, _, _⟩ := plainTok_ne hp.1
    have := head_arrow hh
    subst this
    rw [depthAfter_other k _ _ h2 h1, depthAfter_other tkArrow _ _ (by decide) (by decide),
      depthAfter_other k3 _ _ p2 p1]
    exact ih r h
  case case15 k rest cur stack h1 h2 h3 h4 hren h5 _ hok ih =>
    rw [depthAfter_other k _ _ h2 h1]; exact ih r h
  case case17 k rest cur stack h1 h2 h3 h4 hren hok ih =>
    rw [depthAfter_other k _ _ h2 h1]; exact ih r h

theorem openersFollowed_skip {ops : Ops} (k : Tok) (rest : List Tok) (h : isOpener ops k = false) :
    openersFollowed ops (k :: rest) = openersFollowed ops rest := by
  cases rest with
  | nil => simp [openersFollowed, h]
  | cons k2 rest' => simp [openersFollowed, h]

/-- a successful parse saw `(` after every conditional / operator token -/
theorem parseLoop_openers {ops : Ops} {ren : Bool} {okEl : Tok → Option Tok → Bool} (hstd : OpsStd ops)
    (toks : List Tok) (cur : List Dep) (stack : List (Tok × List Dep)) :
    ∀ r, parseLoop ops ren okEl toks cur stack = some r → openersFollowed ops toks = true := by
  fun_induction parseLoop ops ren okEl toks cur stack
  all_goals intro r h
  all_goals try (simp at h; done)
  case case1 => simp [openersFollowed]
  case case5 rest cur c parent stack' node hcf ih =>
    rw [openersFollowed_skip _ _ (close_not_opener hstd)]; exact ih r h
  case case6 rest cur stack _ ih =>
    rw [openersFollowed_skip _ _ (open_not_opener hstd)]; exact ih r h
  case case8 k cur stack h1 h2 hop rest' ih =>
    simp only [openersFollowed, beq_self_eq_true, Bool.or_true, Bool.true_and]
    rw [openersFollowed_skip _ _ (open_not_opener hstd)]; exact ih r h
  case case12 k cur stack h1 h2 h3 h4 hren h5 head k3 rest'' hp hh ih =>
    simp only [Bool.and_eq_true] at hp
    obtain ⟨_, _, _, p4⟩ := plainTok_ne hp.1
    have := head_arrow hh
    subst this
    rw [openersFollowed_skip _ _ (by simpa using h3), openersFollowed_skip _ _ (arrow_not_opener hstd),
      openersFollowed_skip _ _ p4]
    exact ih r h
  case case15 k rest cur stack h1 h2 h3 h4 hren h5 _ hok ih =>
    rw [openersFollowed_skip _ _ (by simpa using h3)]; exact ih r h
  case case17 k rest cur stack h1 h2 h3 h4 hren hok ih =>
    rw [openersFollowed_skip _ _ (by simpa using h3)]; exact ih r h

theorem openersFollowed_dangling {ops : Ops} (pre : List Tok) (k : Tok) (h : isOpener ops k = true) :
    openersFollowed ops (pre ++ [k]) = false := by
  induction pre with
  | nil => simp [openersFollowed, h]
  | cons x xs ih =>
    cases xs with
    | nil => simp only [List.cons_append, List.nil_append] at ih ⊢; simp [openersFollowed, h]
    | cons y ys =>
      simp only [List.cons_append] at ih ⊢
      simp [openersFollowed, ih]

theorem parseLoop_close_empty {ops : Ops} {ren : Bool} {okEl : Tok → Option Tok → Bool} (rest : List Tok)
    (stack : List (Tok × List Dep)) : parseLoop ops ren okEl (tkClose :: rest) [] stack = none := by
  rw [parseLoop_cons]
  cases stack with
  | nil => simp
  | cons e es => obtain ⟨c, parent⟩ := e; simp [closeFrame]

theorem noEmptyGroup_skip (k : Tok) (rest : List Tok) (h : ¬k = tkOpen) :
    noEmptyGroup (k :: rest) = noEmptyGroup rest := by
  cases rest with
  | nil => simp [noEmptyGroup]
  | cons k2 rest' => simp [noEmptyGroup, h]

theorem noEmptyGroup_open {ops : Ops} {ren : Bool} {okEl : Tok → Option Tok → Bool} (rest : List Tok)
    (stack : List (Tok × List Dep)) (r : List Dep) (h : parseLoop ops ren okEl rest [] stack = some r)
    (ih : noEmptyGroup rest = true) : noEmptyGroup (tkOpen :: rest) = true := by
  cases rest with
  | nil => simp [noEmptyGroup]
  | cons k2 rest' =>
    have : ¬k2 = tkClose := by
      intro h0; subst h0; rw [parseLoop_close_empty] at h; cases h
    simp [noEmptyGroup, this, ih]

/-- a successful parse saw no `( )` -/
theorem parseLoop_noEmpty {ops : Ops} {ren : Bool} {okEl : Tok → Option Tok → Bool}
    (toks : List Tok) (cur : List Dep) (stack : List (Tok × List Dep)) :
    ∀ r, parseLoop ops ren okEl toks cur stack = some r → noEmptyGroup toks = true := by
  fun_induction parseLoop ops ren okEl toks cur stack
  all_goals intro r h
  all_goals try (simp at h; done)
  case case1 => simp [noEmptyGroup]
  case case5 rest cur c parent stack' node hcf ih =>
    rw [noEmptyGroup_skip _ _ (by decide)]; exact ih r h
  case case6 rest cur stack _ ih =>
    exact noEmptyGroup_open rest _ r h (ih r h)
  case case8 k cur stack h1 h2 hop rest' ih =>
    rw [noEmptyGroup_skip _ _ h2]
    exact noEmptyGroup_open rest' _ r h (ih r h)
  case case12 k cur stack h1 h2 h3 h4 hren h5 head k3 rest'' hp hh ih =>
    simp only [Bool.and_eq_true] at hp
    obtain ⟨_, p2, _, _⟩ := plainTok_ne hp.1
    have := head_arrow hh
    subst this
    rw [noEmptyGroup_skip _ _ h2, noEmptyGroup_skip _ _ (by decide), noEmptyGroup_skip _ _ p2]
    exact ih r h
  case case15 k rest cur stack h1 h2 h3 h4 hren h5 _ hok ih =>
    rw [noEmptyGroup_skip _ _ h2]; exact ih r h
  case case17 k rest cur stack h1 h2 h3 h4 hren hok ih =>
    rw [noEmptyGroup_skip _ _ h2]; exact ih r h


/-! ## a decidable check for `OpsStd` -/

theorem mem_of_lookup {α β} [BEq α] [LawfulBEq α] : ∀ (l : List (α × β)) (k : α) (v : β),
    l.lookup k = some v → (k, v) ∈ l
  | [], _, _, h => by simp at h
  | (a, b) :: l, k, v, h => by
      simp only [List.lookup] at h
      by_cases hk : (k == a) = true
      · simp only [hk] at h
        have : k = a := by simpa using hk
        cases h; subst this; simp
      · simp only [hk] at h
        exact List.mem_cons_of_mem _ (mem_of_lookup l k v h)

def opsStdB (ops : Ops) : Bool :=
  ops.all fun e => match e.2 with
    | .node kind => e.1 == kind.sym
    | .invalid => e.1 == Kind.and.sym || e.1 == Kind.or.sym || e.1 == Kind.justOne.sym || e.1 == Kind.atMostOne.sym

theorem opsStd_of_check (ops : Ops) (h : opsStdB ops = true) : OpsStd ops := by
  intro k op hl
  have hm := mem_of_lookup ops k op hl
  have := List.all_eq_true.mp h _ hm
  cases op with
  | node kind => exact ⟨kind, by simpa using this, Or.inr rfl⟩
  | invalid =>
    simp only [Bool.or_eq_true, beq_iff_eq] at this
    rcases this with ((h1 | h1) | h1) | h1
    · exact ⟨.and, h1, Or.inl rfl⟩
    · exact ⟨.or, h1, Or.inl rfl⟩
    · exact ⟨.justOne, h1, Or.inl rfl⟩
    · exact ⟨.atMostOne, h1, Or.inl rfl⟩

end Pkgcore.C09
