import Pkgcore.Spec.C21
import Pkgcore.Proofs.C22
/-!
# C21 — helper lemmas
-/
namespace Pkgcore.C21
open Pkgcore.C21.Spec
open Pkgcore.C22 (Path normpath pjoin lstripSlash rstripSlash)

/-! ## globs -/

theorem starAux_split (f : List Char → Bool) (s : List Char) (h : starAux f s = true) :
    ∃ a b, s = a ++ b ∧ f b = true := by
  induction s with
  | nil => exact ⟨[], [], rfl, h⟩
  | cons d ds ih =>
    simp only [starAux, Bool.or_eq_true] at h
    rcases h with h | h
    · exact ⟨[], d :: ds, rfl, h⟩
    · obtain ⟨a, b, hab, hb⟩ := ih h
      exact ⟨d :: a, b, by rw [hab]; rfl, hb⟩

theorem starAux_append (f : List Char → Bool) (a b : List Char) (h : f b = true) : starAux f (a ++ b) = true := by
  induction a with
  | nil =>
    cases b with
    | nil => exact h
    | cons d ds => simp [starAux, h]
  | cons x xs ih => simp [starAux, ih]

theorem matches_of_glob (ts : List Tok) (s : List Char) : globMatch ts s = true → Matches ts s := by
  induction ts generalizing s with
  | nil =>
    intro h
    have : s = [] := by simpa [globMatch] using h
    subst this; exact .nil
  | cons t ts ih =>
    intro h
    cases t with
    | lit c =>
      cases s with
      | nil => simp [globMatch] at h
      | cons d ds =>
        simp only [globMatch, Bool.and_eq_true, beq_iff_eq] at h
        obtain ⟨rfl, h2⟩ := h
        exact .lit (ih _ h2)
    | one =>
      cases s with
      | nil => simp [globMatch] at h
      | cons d ds => exact .one (ih _ (by simpa [globMatch] using h))
    | star =>
      obtain ⟨a, b, rfl, hb⟩ := starAux_split _ s (by simpa [globMatch] using h)
      exact Matches.star a (ih _ hb)

theorem glob_of_matches (ts : List Tok) (s : List Char) (h : Matches ts s) : globMatch ts s = true := by
  induction h with
  | nil => simp [globMatch]
  | lit _ ih => simp [globMatch, ih]
  | one _ ih => simp [globMatch, ih]
  | star a _ ih => simpa [globMatch] using starAux_append _ a _ ih

theorem globMatch_iff (ts : List Tok) (s : List Char) : globMatch ts s = true ↔ Matches ts s :=
  ⟨matches_of_glob ts s, glob_of_matches ts s⟩

/-- a literal prefix is consumed literally -/
theorem matches_lit_prefix (root : List Char) (ts : List Tok) (s : List Char) :
    Matches (root.map Tok.lit ++ ts) s ↔ ∃ rel, s = root ++ rel ∧ Matches ts rel := by
  induction root generalizing s with
  | nil => simp
  | cons c cs ih =>
    constructor
    · intro h
      simp only [List.map_cons, List.cons_append] at h
      cases h with
      | lit h' =>
        obtain ⟨rel, rfl, hm⟩ := (ih _).1 h'
        exact ⟨rel, rfl, hm⟩
    · rintro ⟨rel, rfl, hm⟩
      simp only [List.map_cons, List.cons_append]
      exact .lit ((ih _).2 ⟨rel, rfl, hm⟩)

/-! ## `Under` and prefixes -/

theorem isPrefixOf_slash_iff (d loc : Path) : (d ++ ['/']).isPrefixOf loc = true ↔ Under d loc := by
  rw [List.isPrefixOf_iff_prefix]
  constructor
  · rintro ⟨t, ht⟩
    exact ⟨t, by rw [← ht]; simp⟩
  · rintro ⟨rest, rfl⟩
    exact ⟨rest, by simp⟩

theorem underOffset_prefix_iff (offset x loc : Path) :
    (underOffset offset x).isPrefixOf loc = true ↔ Under (dirOf offset x) loc :=
  isPrefixOf_slash_iff _ _

open Pkgcore.C22 in
/-- below a normalised directory, component by component: `render k b` lies under `render k a` (a ≠ root) iff `a`
is a proper prefix of `b` as a list of components — `/etcetera/x` is not under `/etc` -/
theorem under_render_iff (k : Nat) (hk : k = 1 ∨ k = 2) (a b : List (List Char)) (ha : Spec.Clean a) (hb : Spec.Clean b)
    (hne : a ≠ []) :
    Under (rstripSlash (Spec.render k a)) (Spec.render k b) ↔ ∃ rest, rest ≠ [] ∧ b = a ++ rest := by
  rw [rstripSlash_render k a ha, if_neg hne]
  constructor
  · rintro ⟨r, hr⟩
    have hb' := compsOf_render k b hb
    rw [hr] at hb'
    unfold compsOf at hb'
    rw [splitSlash_append_slash, List.filter_append] at hb'
    have ha' : (splitSlash (Spec.render k a)).filter (fun c => decide (c ≠ [])) = a := compsOf_render k a ha
    rw [ha'] at hb'
    refine ⟨(splitSlash r).filter (fun c => decide (c ≠ [])), ?_, hb'.symm⟩
    intro hnil
    rw [hnil, List.append_nil] at hb'
    rw [← hb'] at hr
    have := congrArg List.length hr
    simp at this
  · rintro ⟨rest, hrest, rfl⟩
    exact ⟨joinSlash rest, render_append k a rest hne hrest⟩

/-! ## pending update names -/

theorem digitVal_digitChar : ∀ k, k < 10 → digitVal (digitChar k) = some k := by decide

theorem cfgPrefix_isPrefix (r : List Char) : cfgPrefix.isPrefixOf (cfgPrefix ++ r) = true := by
  rw [List.isPrefixOf_iff_prefix]; exact List.prefix_append _ _

theorem parseCfg_cfgName (n : Nat) (hn : n < 10000) (fname : List Char) :
    parseCfg (cfgName n fname) = some (n, fname) := by
  unfold parseCfg cfgName
  rw [if_pos (by rw [List.append_assoc]; exact cfgPrefix_isPrefix _)]
  have hdrop : (cfgPrefix ++ pad4 n ++ '_' :: fname).drop 5 = pad4 n ++ '_' :: fname := by
    rw [List.append_assoc]
    exact List.drop_left' (by decide)
  rw [hdrop]
  simp only [pad4, hn, if_true, List.cons_append, List.nil_append]
  rw [digitVal_digitChar _ (Nat.mod_lt _ (by decide)), digitVal_digitChar _ (Nat.mod_lt _ (by decide)),
    digitVal_digitChar _ (Nat.mod_lt _ (by decide)), digitVal_digitChar _ (Nat.mod_lt _ (by decide))]
  simp only [if_true]
  congr 2
  omega

theorem digitVal_some (ch : Char) (v : Nat) (hv : digitVal ch = some v) : v < 10 ∧ ch = digitChar v := by
  unfold digitVal at hv
  repeat' split at hv
  all_goals first
    | (cases hv; done)
    | (cases hv; rename_i h; exact ⟨by decide, h⟩)

/-- a name that parses is the canonical spelling of what it parses to -/
theorem cfgName_of_parseCfg (x : List Char) (n : Nat) (fn : List Char) (h : parseCfg x = some (n, fn)) :
    x = cfgName n fn ∧ n < 10000 := by
  unfold parseCfg at h
  split at h
  · rename_i hp
    obtain ⟨t, ht⟩ := List.isPrefixOf_iff_prefix.1 hp
    have hdrop : x.drop 5 = t := by rw [← ht]; exact List.drop_left' (by decide)
    rw [hdrop] at h
    match t, h with
    | a :: b :: c :: d :: u :: fn', h =>
      simp only at h
      split at h
      · rename_i hu
        subst hu
        cases ha : digitVal a with
        | none => simp [ha] at h
        | some a' =>
          cases hb : digitVal b with
          | none => simp [ha, hb] at h
          | some b' =>
            cases hc : digitVal c with
            | none => simp [ha, hb, hc] at h
            | some c' =>
              cases hd : digitVal d with
              | none => simp [ha, hb, hc, hd] at h
              | some d' =>
                simp only [ha, hb, hc, hd, Option.some.injEq, Prod.mk.injEq] at h
                obtain ⟨hn, hfn⟩ := h
                subst hfn
                have hdig := digitVal_some
                obtain ⟨ha1, rfl⟩ := hdig a a' ha
                obtain ⟨hb1, rfl⟩ := hdig b b' hb
                obtain ⟨hc1, rfl⟩ := hdig c c' hc
                obtain ⟨hd1, rfl⟩ := hdig d d' hd
                have hlt : n < 10000 := by omega
                refine ⟨?_, hlt⟩
                rw [← ht]
                unfold cfgName
                simp only [pad4, hlt, if_true, List.append_assoc, List.cons_append, List.nil_append]
                have e1 : n / 1000 % 10 = a' := by omega
                have e2 : n / 100 % 10 = b' := by omega
                have e3 : n / 10 % 10 = c' := by omega
                have e4 : n % 10 = d' := by omega
                rw [e1, e2, e3, e4]
      · cases h
  · cases h

/-! ## the numbering loop -/

theorem chooseCount_spec (count : Nat) (ps : List (Nat × Content)) (c : Content) :
    (∃ p ∈ ps, p.2 = c ∧ p.1 = chooseCount count ps c) ∨
    ((∀ p ∈ ps, p.2 ≠ c) ∧ count ≤ chooseCount count ps c ∧ ∀ p ∈ ps, p.1 < chooseCount count ps c) := by
  induction ps generalizing count with
  | nil => right; simp [chooseCount]
  | cons p ps ih =>
    obtain ⟨n, pc⟩ := p
    unfold chooseCount
    by_cases h : pc = c
    · left; rw [if_pos h]; exact ⟨(n, pc), by simp, h, rfl⟩
    · rw [if_neg h]
      rcases ih (max count (n + 1)) with ⟨q, hq, hqc, hqn⟩ | ⟨hall, hle, hlt⟩
      · left; exact ⟨q, by simp [hq], hqc, hqn⟩
      · right
        refine ⟨?_, by omega, ?_⟩
        · intro q hq
          rcases List.mem_cons.1 hq with rfl | hq
          · exact h
          · exact hall q hq
        · intro q hq
          rcases List.mem_cons.1 hq with rfl | hq
          · show n < _; omega
          · exact hlt q hq

/-! ## the live file system -/

/-- one (dir, base) per live file -/
def LiveWF (live : Live) : Prop := (live.map fun f => (f.dir, f.base)).Nodup

theorem lookup_of_mem {live : Live} (h : LiveWF live) {f : LiveFile} (hf : f ∈ live) :
    live.lookup f.dir f.base = some f.content := by
  unfold Live.lookup
  induction live with
  | nil => cases hf
  | cons x xs ih =>
    have hnd := List.nodup_cons.1 (show ((x.dir, x.base) :: xs.map fun f => (f.dir, f.base)).Nodup from h)
    rw [List.find?_cons]
    rcases List.mem_cons.1 hf with rfl | hf'
    · simp
    · have hne : ¬ (x.dir = f.dir ∧ x.base = f.base) := by
        rintro ⟨h1, h2⟩
        apply hnd.1
        exact List.mem_map.2 ⟨f, hf', by rw [h1, h2]⟩
      simp only [hne, decide_false]
      exact ih hnd.2 hf'

theorem liveWF_inj {live : Live} (h : LiveWF live) {g f : LiveFile} (hg : g ∈ live) (hf : f ∈ live)
    (hd : g.dir = f.dir) (hb : g.base = f.base) : g = f := by
  induction live with
  | nil => cases hg
  | cons x xs ih =>
    have hnd := List.nodup_cons.1 (show ((x.dir, x.base) :: xs.map fun f => (f.dir, f.base)).Nodup from h)
    rcases List.mem_cons.1 hg with rfl | hg'
    · rcases List.mem_cons.1 hf with rfl | hf'
      · rfl
      · exact absurd (List.mem_map.2 ⟨f, hf', by rw [hd, hb]⟩) hnd.1
    · rcases List.mem_cons.1 hf with rfl | hf'
      · exact absurd (List.mem_map.2 ⟨g, hg', by rw [hd, hb]⟩) hnd.1
      · exact ih hnd.2 hg' hf'

theorem lookup_some_mem {live : Live} {d : Path} {b : List Char} {c : Content} (h : live.lookup d b = some c) :
    ∃ f ∈ live, f.dir = d ∧ f.base = b ∧ f.content = c := by
  unfold Live.lookup at h
  cases hf : live.find? (fun f => decide (f.dir = d ∧ f.base = b)) with
  | none => rw [hf] at h; cases h
  | some f =>
    rw [hf] at h
    have hp0 := List.find?_some hf
    have hp : f.dir = d ∧ f.base = b := of_decide_eq_true hp0
    exact ⟨f, List.mem_of_find?_eq_some hf, hp.1, hp.2, by simpa using h⟩

theorem parseCfg_prefix {x : List Char} {n : Nat} {fn : List Char} (h : parseCfg x = some (n, fn)) :
    cfgPrefix.isPrefixOf x = true := by
  unfold parseCfg at h
  split at h
  · assumption
  · cases h

/-- a live pending update of `fname` in `dir` is seen by the numbering loop, with its own content -/
theorem mem_pendingFor {live : Live} (hwf : LiveWF live) {f : LiveFile} (hf : f ∈ live) {n : Nat} {fname : List Char}
    (hp : parseCfg f.base = some (n, fname)) : (n, f.content) ∈ pendingFor live f.dir fname := by
  unfold pendingFor
  simp only
  rw [List.mem_filterMap]
  refine ⟨f.base, ?_, ?_⟩
  · rw [List.mem_mergeSort, List.mem_map]
    exact ⟨f, List.mem_filter.2 ⟨hf, by simp [parseCfg_prefix hp]⟩, rfl⟩
  · simp [hp, lookup_of_mem hwf hf]

/-- and everything the loop sees is such a live file -/
theorem of_mem_pendingFor {live : Live} {dir : Path} {fname : List Char} {n : Nat} {c : Content}
    (h : (n, c) ∈ pendingFor live dir fname) :
    ∃ f ∈ live, f.dir = dir ∧ parseCfg f.base = some (n, fname) ∧ f.content = c := by
  unfold pendingFor at h
  simp only at h
  obtain ⟨x, _, hx⟩ := List.mem_filterMap.1 h
  cases hpx : parseCfg x with
  | none => simp [hpx] at hx
  | some q =>
    obtain ⟨k, fn⟩ := q
    simp only [hpx] at hx
    split at hx
    · rename_i hfn
      cases hl : live.lookup dir x with
      | none => simp [hl] at hx
      | some c' =>
        simp only [hl, Option.map_some, Option.some.injEq, Prod.mk.injEq] at hx
        obtain ⟨f, hf, hd, hb, hc⟩ := lookup_some_mem hl
        refine ⟨f, hf, hd, ?_, by rw [hc]; exact hx.2⟩
        rw [hb, hpx, hfn, hx.1]
    · cases hx

/-! ## the abstract merge -/

/-- one step of `mergeFs` -/
def mergeStep (l : Live) (e : IEntry) : Live :=
  let l' := l.filter fun f => ¬ (f.dir = e.dir ∧ f.base = e.base)
  if e.isReg then l' ++ [⟨e.dir, e.base, e.content⟩] else l'

theorem mergeFs_cons (live : Live) (e : IEntry) (es : ICSet) : mergeFs live (e :: es) = mergeFs (mergeStep live e) es := rfl

theorem lookup_filter_ne (l : Live) (d d' : Path) (b b' : List Char) (h : ¬ (d' = d ∧ b' = b)) :
    Live.lookup (l.filter fun f => ¬ (f.dir = d' ∧ f.base = b')) d b = Live.lookup l d b := by
  unfold Live.lookup
  congr 1
  induction l with
  | nil => rfl
  | cons x xs ih =>
    by_cases hx : x.dir = d' ∧ x.base = b'
    · have hxd : ¬ (x.dir = d ∧ x.base = b) := by
        rintro ⟨h1, h2⟩; exact h ⟨hx.1 ▸ h1, hx.2 ▸ h2⟩
      rw [List.filter_cons_of_neg (by simp only [decide_eq_true_eq]; exact fun hh => hh hx), List.find?_cons,
        decide_eq_false hxd]
      exact ih
    · rw [List.filter_cons_of_pos (by simp only [decide_eq_true_eq]; exact hx), List.find?_cons, List.find?_cons, ih]

theorem lookup_filter_eq (l : Live) (d : Path) (b : List Char) :
    Live.lookup (l.filter fun f => ¬ (f.dir = d ∧ f.base = b)) d b = none := by
  unfold Live.lookup
  have : (l.filter fun f => ¬ (f.dir = d ∧ f.base = b)).find? (fun f => decide (f.dir = d ∧ f.base = b)) = none := by
    rw [List.find?_eq_none]
    intro x hx
    have := of_decide_eq_true (List.mem_filter.1 hx).2
    simp only [decide_eq_true_eq]
    exact this
  rw [this]; rfl

theorem lookup_append_single (l : Live) (g : LiveFile) (d : Path) (b : List Char) :
    Live.lookup (l ++ [g]) d b = match Live.lookup l d b with
      | some c => some c
      | none => if g.dir = d ∧ g.base = b then some g.content else none := by
  unfold Live.lookup
  rw [List.find?_append]
  cases h : l.find? (fun f => decide (f.dir = d ∧ f.base = b)) with
  | some x => rfl
  | none =>
    by_cases hg : g.dir = d ∧ g.base = b
    · simp only [Option.none_or, List.find?_cons, decide_eq_true hg, Option.map_some, Option.map_none, if_pos hg]
    · simp only [Option.none_or, List.find?_cons, decide_eq_false hg, List.find?_nil, Option.map_none, if_neg hg]

theorem mergeStep_lookup (l : Live) (e : IEntry) (d : Path) (b : List Char) :
    Live.lookup (mergeStep l e) d b =
      if e.dir = d ∧ e.base = b then (if e.isReg then some e.content else none) else Live.lookup l d b := by
  unfold mergeStep
  simp only
  by_cases hk : e.dir = d ∧ e.base = b
  · rw [if_pos hk]
    obtain ⟨rfl, rfl⟩ := hk
    cases hr : e.isReg
    · simp only [Bool.false_eq_true, if_false]
      exact lookup_filter_eq l _ _
    · simp only [if_true]
      rw [lookup_append_single, lookup_filter_eq]
      simp
  · rw [if_neg hk]
    cases hr : e.isReg
    · simp only [Bool.false_eq_true, if_false]
      exact lookup_filter_ne l d e.dir b e.base hk
    · simp only [if_true]
      rw [lookup_append_single, lookup_filter_ne l d e.dir b e.base hk]
      cases Live.lookup l d b with
      | some c => rfl
      | none => simp only [if_neg hk]

/-- if every writer of a location writes `c`, and the location holds `c` already or has a writer, it holds `c`
after the merge -/
theorem mergeFs_lookup_const (cset : ICSet) (live : Live) (d : Path) (b : List Char) (c : Content)
    (hall : ∀ e ∈ cset, e.dir = d → e.base = b → e.isReg = true ∧ e.content = c)
    (h : live.lookup d b = some c ∨ ∃ e ∈ cset, e.dir = d ∧ e.base = b) :
    Live.lookup (mergeFs live cset) d b = some c := by
  induction cset generalizing live with
  | nil =>
    rcases h with h | ⟨e, he, _⟩
    · exact h
    · cases he
  | cons e es ih =>
    rw [mergeFs_cons]
    apply ih _ (fun x hx => hall x (by simp [hx]))
    rw [mergeStep_lookup]
    by_cases hk : e.dir = d ∧ e.base = b
    · left
      obtain ⟨hr, hc⟩ := hall e (by simp) hk.1 hk.2
      simp [hk, hr, hc]
    · rw [if_neg hk]
      rcases h with h | ⟨x, hx, hxk⟩
      · exact Or.inl h
      · rcases List.mem_cons.1 hx with rfl | hx'
        · exact absurd hxk hk
        · exact Or.inr ⟨x, hx', hxk⟩

/-- a location nobody writes keeps what it had -/
theorem mergeFs_lookup_untouched (cset : ICSet) (live : Live) (d : Path) (b : List Char)
    (hno : ∀ e ∈ cset, ¬ (e.dir = d ∧ e.base = b)) : Live.lookup (mergeFs live cset) d b = Live.lookup live d b := by
  induction cset generalizing live with
  | nil => rfl
  | cons e es ih =>
    rw [mergeFs_cons, ih _ (fun x hx => hno x (by simp [hx])), mergeStep_lookup, if_neg (hno e (by simp))]

/-! ## the install trigger's fold -/

theorem mem_idictSet {c : ICSet} {e g : IEntry} (h : g ∈ idictSet c e) : g = e ∨ g ∈ c := by
  induction c with
  | nil => simpa [idictSet] using h
  | cons x xs ih =>
    unfold idictSet at h
    split at h
    · rcases List.mem_cons.1 h with h | h
      · exact Or.inl h
      · exact Or.inr (by simp [h])
    · rcases List.mem_cons.1 h with h | h
      · exact Or.inr (by simp [h])
      · rcases ih h with h | h
        · exact Or.inl h
        · exact Or.inr (by simp [h])

theorem mem_idictDel {c : ICSet} {d : Path} {b : List Char} {g : IEntry} (h : g ∈ idictDel c d b) :
    g ∈ c ∧ ¬ (g.dir = d ∧ g.base = b) := by
  have := List.mem_filter.1 h
  exact ⟨this.1, of_decide_eq_true this.2⟩

/-- the fold of `protectInstall` on a work list `l` -/
def protectFold (live : Live) (l : List IEntry) (acc : ICSet × List (IEntry × IEntry)) : ICSet × List (IEntry × IEntry) :=
  l.foldl (fun (acc : ICSet × List (IEntry × IEntry)) e =>
      (idictSet (idictDel acc.1 e.dir e.base) (renamed live e), acc.2 ++ [(renamed live e, e)])) acc

theorem protectInstall_eq (s : Settings) (live : Live) (install : ICSet) :
    protectInstall s live install = protectFold live (install.filter (needsProtection s live)) (install, []) := rfl

theorem protectFold_sound (live : Live) (l : List IEntry) (acc : ICSet × List (IEntry × IEntry)) :
    ∀ g ∈ (protectFold live l acc).1,
      (g ∈ acc.1 ∧ ∀ e ∈ l, ¬ (g.dir = e.dir ∧ g.base = e.base)) ∨ ∃ e ∈ l, g = renamed live e := by
  induction l generalizing acc with
  | nil => intro g hg; exact Or.inl ⟨hg, by simp⟩
  | cons e es ih =>
    intro g hg
    have := ih (idictSet (idictDel acc.1 e.dir e.base) (renamed live e), acc.2 ++ [(renamed live e, e)]) g hg
    rcases this with ⟨hin, hno⟩ | ⟨e', he', rfl⟩
    · rcases mem_idictSet hin with rfl | hdel
      · exact Or.inr ⟨e, by simp, rfl⟩
      · obtain ⟨hacc, hne⟩ := mem_idictDel hdel
        refine Or.inl ⟨hacc, ?_⟩
        intro x hx
        rcases List.mem_cons.1 hx with rfl | hx
        · exact hne
        · exact hno x hx
    · exact Or.inr ⟨e', by simp [he'], rfl⟩

/-- every entry of the install cset after the trigger is an untouched entry that did not need protection, or the
renamed form of one that did -/
theorem protectInstall_sound (s : Settings) (live : Live) (install : ICSet) :
    ∀ g ∈ (protectInstall s live install).1,
      (g ∈ install ∧ needsProtection s live g = false) ∨
      ∃ e ∈ install, needsProtection s live e = true ∧ g = renamed live e := by
  intro g hg
  rw [protectInstall_eq] at hg
  rcases protectFold_sound live _ _ g hg with ⟨hin, hno⟩ | ⟨e, he, rfl⟩
  · refine Or.inl ⟨hin, ?_⟩
    cases hn : needsProtection s live g
    · rfl
    · exact absurd ⟨rfl, rfl⟩ (hno g (List.mem_filter.2 ⟨hin, hn⟩))
  · obtain ⟨he1, he2⟩ := List.mem_filter.1 he
    exact Or.inr ⟨e, he1, he2, rfl⟩

/-! ## the renamed entry is really there -/

theorem chooseCount_le (c : Content) (ps : List (Nat × Content)) (cnt : Nat) (h : cnt ≤ 9999)
    (hq : ∀ p ∈ ps, p.1 < 9999) : chooseCount cnt ps c ≤ 9999 := by
  induction ps generalizing cnt with
  | nil => simpa [chooseCount] using h
  | cons q qs ih =>
    obtain ⟨k, pc⟩ := q
    unfold chooseCount
    have hk : k < 9999 := hq (k, pc) (by simp)
    split
    · omega
    · exact ih _ (by omega) (fun p hp => hq p (by simp [hp]))

/-- pending numbers stay below 9999, so the chosen number keeps four digits -/
theorem chooseCount_lt (live : Live) (hsmall : ∀ g ∈ live, ∀ k fn, parseCfg g.base = some (k, fn) → k < 9999)
    (dir : Path) (fname : List Char) (c : Content) : chooseCount 0 (pendingFor live dir fname) c < 10000 := by
  have := chooseCount_le c (pendingFor live dir fname) 0 (by omega) (by
    intro p hp
    obtain ⟨k, pc⟩ := p
    obtain ⟨g', hg', _, hparse, _⟩ := of_mem_pendingFor hp
    exact hsmall g' hg' k _ hparse)
  omega

theorem mem_idictSet_self (c : ICSet) (e : IEntry) : e ∈ idictSet c e := by
  induction c with
  | nil => simp [idictSet]
  | cons x xs ih =>
    unfold idictSet
    split
    · simp
    · simp [ih]

theorem mem_idictSet_of_mem {c : ICSet} {e g : IEntry} (hg : g ∈ c) (hne : ¬ (g.dir = e.dir ∧ g.base = e.base)) :
    g ∈ idictSet c e := by
  induction c with
  | nil => cases hg
  | cons x xs ih =>
    unfold idictSet
    rcases List.mem_cons.1 hg with rfl | hg'
    · rw [if_neg hne]; simp
    · split
      · simp [hg']
      · simp [ih hg']

theorem mem_idictDel_of {c : ICSet} {d : Path} {b : List Char} {g : IEntry} (hg : g ∈ c)
    (hne : ¬ (g.dir = d ∧ g.base = b)) : g ∈ idictDel c d b :=
  List.mem_filter.2 ⟨hg, decide_eq_true hne⟩

theorem protectFold_persist (live : Live) (l : List IEntry) (acc : ICSet × List (IEntry × IEntry)) (x : IEntry)
    (hx : x ∈ acc.1)
    (hne : ∀ e ∈ l, ¬ (x.dir = e.dir ∧ x.base = e.base) ∧ ¬ (x.dir = (renamed live e).dir ∧ x.base = (renamed live e).base)) :
    x ∈ (protectFold live l acc).1 := by
  induction l generalizing acc with
  | nil => exact hx
  | cons e es ih =>
    apply ih
    · exact mem_idictSet_of_mem (mem_idictDel_of hx (hne e (by simp)).1) (hne e (by simp)).2
    · intro e' he'; exact hne e' (by simp [he'])

theorem renamed_base (live : Live) (e : IEntry) :
    (renamed live e).dir = e.dir ∧ (renamed live e).isReg = e.isReg ∧ (renamed live e).content = e.content ∧
      (renamed live e).base = cfgName (chooseCount 0 (pendingFor live e.dir e.base) e.content) e.base :=
  ⟨rfl, rfl, rfl, rfl⟩

/-- two entries renamed to the same name in the same directory have the same original name -/
theorem renamed_key_inj (live : Live) (hsmall : ∀ g ∈ live, ∀ k fn, parseCfg g.base = some (k, fn) → k < 9999)
    (e e' : IEntry) (hd : (renamed live e).dir = (renamed live e').dir)
    (hb : (renamed live e).base = (renamed live e').base) : e.dir = e'.dir ∧ e.base = e'.base := by
  refine ⟨hd, ?_⟩
  have h1 := parseCfg_cfgName _ (chooseCount_lt live hsmall e.dir e.base e.content) e.base
  have h2 := parseCfg_cfgName _ (chooseCount_lt live hsmall e'.dir e'.base e'.content) e'.base
  have hb' : cfgName (chooseCount 0 (pendingFor live e.dir e.base) e.content) e.base =
      cfgName (chooseCount 0 (pendingFor live e'.dir e'.base) e'.content) e'.base := hb
  rw [hb', h2] at h1
  simp only [Option.some.injEq, Prod.mk.injEq] at h1
  exact h1.2.symm

theorem protectFold_renamed_mem (live : Live) (hsmall : ∀ g ∈ live, ∀ k fn, parseCfg g.base = some (k, fn) → k < 9999)
    (l : List IEntry) (hnd : (l.map fun e => (e.dir, e.base)).Nodup) (hno : ∀ e ∈ l, parseCfg e.base = none)
    (acc : ICSet × List (IEntry × IEntry)) (e : IEntry) (he : e ∈ l) :
    renamed live e ∈ (protectFold live l acc).1 := by
  induction l generalizing acc with
  | nil => cases he
  | cons e0 es ih =>
    have hnd' := List.nodup_cons.1 (show ((e0.dir, e0.base) :: es.map fun e => (e.dir, e.base)).Nodup from hnd)
    rcases List.mem_cons.1 he with rfl | he'
    · -- added now, persists through the rest
      show renamed live e ∈ (protectFold live es _).1
      apply protectFold_persist
      · exact mem_idictSet_self _ _
      · intro e2 he2
        constructor
        · rintro ⟨_, hb⟩
          have h1 := parseCfg_cfgName _ (chooseCount_lt live hsmall e.dir e.base e.content) e.base
          have : (renamed live e).base = e2.base := hb
          rw [(renamed_base live e).2.2.2] at this
          rw [this, hno e2 (by simp [he2])] at h1
          cases h1
        · rintro ⟨hd, hb⟩
          obtain ⟨h1, h2⟩ := renamed_key_inj live hsmall e e2 hd hb
          exact hnd'.1 (List.mem_map.2 ⟨e2, he2, by rw [h1, h2]⟩)
    · exact ih hnd'.2 (fun x hx => hno x (by simp [hx])) _ he'

theorem inj_of_nodup_map {α β : Type} (k : α → β) (l : List α) (h : (l.map k).Nodup) {x y : α}
    (hx : x ∈ l) (hy : y ∈ l) (hk : k x = k y) : x = y := by
  induction l with
  | nil => cases hx
  | cons a as ih =>
    have hnd := List.nodup_cons.1 (show (k a :: as.map k).Nodup from h)
    rcases List.mem_cons.1 hx with rfl | hx'
    · rcases List.mem_cons.1 hy with rfl | hy'
      · rfl
      · exact absurd (List.mem_map.2 ⟨y, hy', hk.symm⟩) hnd.1
    · rcases List.mem_cons.1 hy with rfl | hy'
      · exact absurd (List.mem_map.2 ⟨x, hx', hk⟩) hnd.1
      · exact ih hnd.2 hx' hy'

/-! ## histories of operations -/

theorem liveWF_filter {live : Live} (h : LiveWF live) (p : LiveFile → Bool) : LiveWF (live.filter p) :=
  List.Nodup.sublist (List.Sublist.map _ List.filter_sublist) h

theorem liveWF_writeFile {l : Live} (h : LiveWF l) (g : LiveFile) : LiveWF (writeFile l g) := by
  unfold writeFile LiveWF
  rw [List.map_append, List.nodup_append]
  refine ⟨liveWF_filter h _, by simp, ?_⟩
  intro a ha b hb
  obtain ⟨f, hf, rfl⟩ := List.mem_map.1 ha
  have hne := of_decide_eq_true (List.mem_filter.1 hf).2
  simp only [List.map_cons, List.map_nil, List.mem_cons, List.not_mem_nil, or_false] at hb
  subst hb
  intro heq
  exact hne ⟨congrArg Prod.fst heq, congrArg Prod.snd heq⟩

theorem liveWF_mergeStep {l : Live} (h : LiveWF l) (e : IEntry) : LiveWF (mergeStep l e) := by
  unfold mergeStep
  simp only
  split
  · exact liveWF_writeFile h ⟨e.dir, e.base, e.content⟩
  · exact liveWF_filter h _

theorem liveWF_mergeFs (cset : ICSet) {live : Live} (h : LiveWF live) : LiveWF (mergeFs live cset) := by
  induction cset generalizing live with
  | nil => exact h
  | cons e es ih => rw [mergeFs_cons]; exact ih (liveWF_mergeStep h e)

theorem liveWF_applyOp {live : Live} (h : LiveWF live) (op : Op) : LiveWF (applyOp live op) := by
  cases op with
  | edit files =>
    show LiveWF (files.foldl writeFile live)
    induction files generalizing live with
    | nil => exact h
    | cons g gs ih => exact ih (liveWF_writeFile h g)
  | install s pkg => exact liveWF_mergeFs _ h
  | uninstall s recorded => exact liveWF_filter h _

theorem liveWF_runOps (ops : List Op) {live : Live} (h : LiveWF live) : LiveWF (runOps live ops) := by
  induction ops generalizing live with
  | nil => exact h
  | cons op ops ih => exact ih (liveWF_applyOp h op)

theorem runOps_snoc (live : Live) (ops : List Op) (op : Op) : runOps live (ops ++ [op]) = applyOp (runOps live ops) op := by
  unfold runOps
  rw [List.foldl_append]
  rfl

/-! ## directory symlinks on the live root

A configuration directory may be a symlink on the live root (`/etc/app -> ../srv/appcfg`) while the package ships it as
a real directory.  `ρ d` is the real directory that the *name* `d` reaches; distinct names reach distinct directories
(`ρ` injective: no two names of one directory).  The package, CONFIG_PROTECT and the engine's `install` /
`install_existing` csets speak names (`livefs.intersect` stats `x.location` and keeps it); the kernel writes through the
links.  `through ρ` = what a names-level object is on the disk. -/

def LiveFile.through (ρ : Path → Path) (f : LiveFile) : LiveFile := { f with dir := ρ f.dir }
def IEntry.through (ρ : Path → Path) (e : IEntry) : IEntry := { e with dir := ρ e.dir }

theorem filter_through (ρ : Path → Path) (hinj : ∀ a b, ρ a = ρ b → a = b) (l : Live) (d : Path) (b : List Char) :
    (l.map (LiveFile.through ρ)).filter (fun f => ¬ (f.dir = ρ d ∧ f.base = b)) =
      (l.filter fun f => ¬ (f.dir = d ∧ f.base = b)).map (LiveFile.through ρ) := by
  induction l with
  | nil => rfl
  | cons x xs ih =>
    have hiff : (ρ x.dir = ρ d ∧ x.base = b) ↔ (x.dir = d ∧ x.base = b) :=
      ⟨fun h => ⟨hinj _ _ h.1, h.2⟩, fun h => ⟨by rw [h.1], h.2⟩⟩
    simp only [List.map_cons, List.filter_cons, LiveFile.through, hiff]
    split
    · simp only [List.map_cons, LiveFile.through]; rw [← ih]
    · exact ih

/-- writing a cset through the links = the names-level merge, seen through the links -/
theorem mergeFs_through (ρ : Path → Path) (hinj : ∀ a b, ρ a = ρ b → a = b) (live : Live) (install : ICSet) :
    mergeFs (live.map (LiveFile.through ρ)) (install.map (IEntry.through ρ)) =
      (mergeFs live install).map (LiveFile.through ρ) := by
  unfold mergeFs
  induction install generalizing live with
  | nil => rfl
  | cons e es ih =>
    simp only [List.map_cons, List.foldl_cons]
    have hf := filter_through ρ hinj live e.dir e.base
    cases hr : e.isReg
    · simp only [IEntry.through, hr, Bool.false_eq_true, if_false]
      rw [hf]; exact ih _
    · simp only [IEntry.through, hr, if_true]
      rw [hf]
      have happ : (live.filter fun (f : LiveFile) => ¬ (f.dir = e.dir ∧ f.base = e.base)).map (LiveFile.through ρ) ++ [(⟨ρ e.dir, e.base, e.content⟩ : LiveFile)] =
          ((live.filter fun (f : LiveFile) => ¬ (f.dir = e.dir ∧ f.base = e.base)) ++ [(⟨e.dir, e.base, e.content⟩ : LiveFile)]).map (LiveFile.through ρ) := by
        rw [List.map_append]; rfl
      rw [happ]; exact ih _

theorem lookup_through (ρ : Path → Path) (hinj : ∀ a b, ρ a = ρ b → a = b) (l : Live) (d : Path) (b : List Char) :
    Live.lookup (l.map (LiveFile.through ρ)) (ρ d) b = Live.lookup l d b := by
  unfold Live.lookup
  induction l with
  | nil => rfl
  | cons x xs ih =>
    have hiff : (ρ x.dir = ρ d ∧ x.base = b) ↔ (x.dir = d ∧ x.base = b) :=
      ⟨fun h => ⟨hinj _ _ h.1, h.2⟩, fun h => ⟨by rw [h.1], h.2⟩⟩
    simp only [List.map_cons, List.find?_cons, LiveFile.through, hiff]
    split
    · rfl
    · exact ih

end Pkgcore.C21
