import Pkgcore.Spec.C08
import Pkgcore.Proofs.C06
/-! # C08 helper lemmas -/
namespace Pkgcore.C08
open Pkgcore.C08.Spec
open Pkgcore.C06 (R Clause dnf mtch)

/-! ## lists -/
theorem dedup_mem (x : Str) : ∀ l : List Str, x ∈ dedup l ↔ x ∈ l
  | [] => by simp [dedup]
  | y :: ys => by
    have ih := dedup_mem x ys
    simp only [dedup]
    split
    · rename_i h
      rw [List.contains_iff_mem, dedup_mem y ys] at h
      rw [ih, List.mem_cons]
      constructor
      · exact Or.inr
      · rintro (rfl | h') <;> assumption
    · simp only [List.mem_cons, ih]

theorem dedup_nodup : ∀ l : List Str, (dedup l).Nodup
  | [] => by simp [dedup]
  | y :: ys => by
    have ih := dedup_nodup ys
    simp only [dedup]
    split
    · exact ih
    · rename_i h
      rw [List.contains_iff_mem] at h
      exact List.nodup_cons.mpr ⟨h, ih⟩

theorem nodup_filter {α} (p : α → Bool) {l : List α} (h : l.Nodup) : (l.filter p).Nodup :=
  List.Nodup.sublist List.filter_sublist h

/-- pairs `(c, p)` for `c` from a duplicate-free list and `p` from a duplicate-free list depending on `c` -/
theorem nodup_pairs {α β} (cs : List α) (f : α → List β) (hc : cs.Nodup) (hf : ∀ c ∈ cs, (f c).Nodup) :
    (cs.flatMap fun c => (f c).map fun p => (c, p)).Nodup := by
  induction cs with
  | nil => simp
  | cons c cs ih =>
    rw [List.nodup_cons] at hc
    simp only [List.flatMap_cons]
    rw [List.nodup_append]
    refine ⟨?_, ih hc.2 (fun c' hc' => hf c' (List.mem_cons_of_mem _ hc')), ?_⟩
    · have := hf c (by simp)
      exact List.Pairwise.map _ (fun a b hab => by intro h; exact hab (Prod.mk.inj h).2) this
    · intro a ha b hb
      simp only [List.mem_map] at ha
      simp only [List.mem_flatMap, List.mem_map] at hb
      obtain ⟨p, _, rfl⟩ := ha
      obtain ⟨c', hc', p', _, rfl⟩ := hb
      intro h
      exact hc.1 ((Prod.mk.inj h).1 ▸ hc')

theorem mem_pairs {α β} (cs : List α) (f : α → List β) (c : α) (p : β) :
    (c, p) ∈ (cs.flatMap fun c => (f c).map fun p => (c, p)) ↔ c ∈ cs ∧ p ∈ f c := by
  simp only [List.mem_flatMap, List.mem_map, Prod.mk.injEq]
  constructor
  · rintro ⟨c', hc', p', hp', rfl, rfl⟩; exact ⟨hc', hp'⟩
  · rintro ⟨hc, hp⟩; exact ⟨c, hc, p, hp, rfl, rfl⟩

/-! ## the repository mappings -/
theorem lookup_some_mem {α β} [BEq α] [LawfulBEq α] : ∀ (l : List (α × β)) (k : α) (v : β),
    l.lookup k = some v → (k, v) ∈ l
  | [], _, _, h => by simp at h
  | (k', v') :: l, k, v, h => by
    simp only [List.lookup] at h
    split at h
    · rename_i heq
      simp only [Option.some.injEq] at h
      have : k = k' := by simpa using heq
      subst this; subst h; simp
    · exact List.mem_cons_of_mem _ (lookup_some_mem l k v h)

theorem packages_mem_categories (repo : Repo) (c p : Str) (h : p ∈ repo.packages c) : c ∈ repo.categories := by
  simp only [Repo.packages] at h
  split at h
  · rename_i ps hl
    have := lookup_some_mem _ _ _ hl
    simp only [Repo.categories, List.mem_map]
    exact ⟨(c, ps), this, rfl⟩
  · cases h

theorem versions_mem_packages (repo : Repo) (c p v : Str) (h : v ∈ repo.versions (c, p)) : p ∈ repo.packages c := by
  simp only [Repo.versions] at h
  split at h
  · rename_i ps hl
    simp only [Repo.packages, hl]
    cases hp : ps.lookup p with
    | none => simp [hp] at h
    | some vs =>
      have := lookup_some_mem _ _ _ hp
      simp only [List.mem_map]
      exact ⟨(p, vs), this, rfl⟩
  · cases h

theorem WF_of_wfCheck (repo : Repo) (h : wfCheck repo = true) : WF repo := by
  simp only [wfCheck, Bool.and_eq_true, decide_eq_true_eq, List.all_eq_true] at h
  refine ⟨h.1, ?_, ?_⟩
  · intro c
    simp only [Repo.packages]
    split
    · rename_i ps hl
      exact (h.2 (c, ps) (lookup_some_mem _ _ _ hl)).1
    · simp
  · intro cp
    simp only [Repo.versions]
    split
    · rename_i ps hl
      cases hp : ps.lookup cp.2 with
      | none => simp
      | some vs =>
        simp only [Option.getD_some]
        exact (h.2 (cp.1, ps) (lookup_some_mem _ _ _ hl)).2 (cp.2, vs) (lookup_some_mem _ _ _ hp)
    · simp

theorem mem_versionKeys (repo : Repo) (c p : Str) : (c, p) ∈ repo.versionKeys ↔ p ∈ repo.packages c := by
  simp only [Repo.versionKeys]
  rw [mem_pairs]
  exact ⟨fun h => h.2, fun h => ⟨packages_mem_categories repo c p h, h⟩⟩

theorem versionKeys_nodup (repo : Repo) (h : WF repo) : repo.versionKeys.Nodup :=
  nodup_pairs _ _ h.cats (fun c _ => h.pkgs c)

theorem mem_product (repo : Repo) (S : Sorter) (hS : Lawful S) (cats : List Str) (c p : Str) :
    (c, p) ∈ product repo S cats ↔ c ∈ cats ∧ p ∈ repo.packages c := by
  simp only [product]
  rw [mem_pairs, (hS.strs _).mem_iff]

theorem product_nodup (repo : Repo) (S : Sorter) (hS : Lawful S) (h : WF repo) (cats : List Str) (hc : cats.Nodup) :
    (product repo S cats).Nodup :=
  nodup_pairs _ _ hc (fun c _ => ((hS.strs _).nodup_iff).mpr (h.pkgs c))

theorem mem_allCps (repo : Repo) (S : Sorter) (hS : Lawful S) (c p : Str) :
    (c, p) ∈ allCps repo S ↔ p ∈ repo.packages c := by
  simp only [allCps]
  split
  · exact mem_versionKeys repo c p
  · rw [mem_product repo S hS, (hS.strs _).mem_iff]
    exact ⟨fun h => h.2, fun h => ⟨packages_mem_categories repo c p h, h⟩⟩

theorem allCps_nodup (repo : Repo) (S : Sorter) (hS : Lawful S) (h : WF repo) : (allCps repo S).Nodup := by
  simp only [allCps]
  split
  · exact versionKeys_nodup repo h
  · exact product_nodup repo S hS h _ (((hS.strs _).nodup_iff).mpr h.cats)

/-! ## `_candidates_from_restrictions` -/
theorem isInfix_self (a : Str) : isInfix a a = true := by
  simp only [isInfix, List.any_eq_true, List.mem_range]
  exact ⟨0, by omega, by simp⟩

theorem exactOf_some (vr : VR) (s : Str) (h : exactOf vr = some s) : vr = .exact s false := by
  cases vr with
  | exact s' n => cases n <;> simp_all [exactOf]
  | containAny xs => simp [exactOf] at h
  | other i => simp [exactOf] at h

/-- what the split of a restriction set into exact names and the rest preserves: if the set is empty both parts
are, and a member matching `x` ends up as `x` among the exact names or as a matching member of the rest -/
theorem split_ok (env : Env) (rs : List VR) (x : Str)
    (h : rs = [] ∨ ∃ vr ∈ rs, vrMatch env vr x = true) :
    (dedup (rs.filterMap exactOf) = [] ∧ (rs.filter fun r => (exactOf r).isNone) = []) ∨
    x ∈ dedup (rs.filterMap exactOf) ∨ ∃ vr ∈ (rs.filter fun r => (exactOf r).isNone), vrMatch env vr x = true := by
  rcases h with rfl | ⟨vr, hvr, hm⟩
  · left; simp [dedup]
  · right
    cases he : exactOf vr with
    | some s =>
      left
      have := exactOf_some vr s he
      subst this
      simp only [vrMatch, Bool.bne_false, beq_iff_eq] at hm
      subst hm
      rw [dedup_mem, List.mem_filterMap]
      exact ⟨_, hvr, he⟩
    | none =>
      right
      exact ⟨vr, List.mem_filter.mpr ⟨hvr, by simp [he]⟩, hm⟩

theorem mem_catFilter (env : Env) (repo : Repo) (rs : List VR) (negate : Bool) (c : Str) :
    c ∈ catFilter env repo rs negate ↔ c ∈ repo.categories ∧ ∃ vr ∈ rs, vrMatch env vr c = !negate := by
  simp [catFilter, List.mem_filter]

theorem mem_packageFilter (env : Env) (repo : Repo) (cats : List Str) (rs : List VR) (negate : Bool) (c p : Str) :
    (c, p) ∈ packageFilter env repo cats rs negate ↔
      c ∈ cats ∧ p ∈ repo.packages c ∧ ∃ vr ∈ rs, vrMatch env vr p = !negate := by
  simp only [packageFilter]
  rw [mem_pairs]
  simp [List.mem_filter]

theorem catsStage_mem (env : Env) (repo : Repo) (S : Sorter) (hS : Lawful S) (catExact : List Str) (catRest : List VR)
    (c : Str) (hc : c ∈ repo.categories)
    (h : (catExact = [] ∧ catRest = []) ∨ c ∈ catExact ∨ ∃ vr ∈ catRest, vrMatch env vr c = true) :
    c ∈ (catsStage env repo S catExact catRest false).1 := by
  simp only [catsStage]
  by_cases he : catExact = []
  · subst he
    simp only [List.isEmpty_nil, Bool.not_true, Bool.false_eq_true, if_false]
    by_cases hr : catRest = []
    · subst hr; simp only [List.isEmpty_nil, Bool.not_true, Bool.false_eq_true, if_false]
      exact (hS.strs _).mem_iff.mpr hc
    · have : catRest.isEmpty = false := by cases catRest <;> simp_all
      simp only [this, Bool.not_false, if_true]
      rcases h with ⟨_, h⟩ | h | h
      · exact absurd h hr
      · cases h
      · rw [mem_catFilter]; exact ⟨hc, by simpa using h⟩
  · have hne : catExact.isEmpty = false := by cases catExact <;> simp_all
    simp only [hne, Bool.not_false, if_true]
    split
    · rename_i hcond
      simp only [Bool.and_eq_true, List.isEmpty_iff, beq_iff_eq] at hcond
      rcases h with ⟨h, _⟩ | h | ⟨vr, hvr, _⟩
      · exact absurd h he
      · exact h
      · rw [hcond.1] at hvr; cases hvr
    · rw [(hS.strs _).mem_iff, mem_catFilter]
      refine ⟨hc, ?_⟩
      rcases h with ⟨h, _⟩ | h | ⟨vr, hvr, hm⟩
      · exact absurd h he
      · refine ⟨.containAny catExact, by simp, ?_⟩
        simp only [vrMatch, Bool.not_false, List.any_eq_true]
        exact ⟨c, h, isInfix_self c⟩
      · exact ⟨vr, by simp [hvr], by simpa using hm⟩

theorem pkgStage_mem (env : Env) (repo : Repo) (S : Sorter) (hS : Lawful S) (catExact catsIter : List Str)
    (catRest' : List VR) (pkgExact : List Str) (pkgRest : List VR) (c p : Str)
    (hc : c ∈ catsIter) (hp : p ∈ repo.packages c)
    (h : (pkgExact = [] ∧ pkgRest = []) ∨ p ∈ pkgExact ∨ ∃ vr ∈ pkgRest, vrMatch env vr p = true) :
    (c, p) ∈ pkgStage env repo S catExact catsIter catRest' pkgExact pkgRest false := by
  have hpk : (c, p) ∈ product repo S catsIter := (mem_product repo S hS catsIter c p).mpr ⟨hc, hp⟩
  simp only [pkgStage]
  by_cases hpe : pkgExact = []
  · subst hpe
    simp only [List.isEmpty_nil, Bool.not_true, Bool.false_and, Bool.false_eq_true, if_false]
    by_cases hpr : pkgRest = []
    · subst hpr
      simp only [List.isEmpty_nil, Bool.not_true, Bool.false_eq_true, if_false]
      split
      · split
        · exact (mem_versionKeys repo c p).mpr hp
        · exact hpk
      · exact hpk
    · have hne : pkgRest.isEmpty = false := by cases pkgRest <;> simp_all
      simp only [hne, Bool.not_false, if_true]
      rw [mem_packageFilter]
      refine ⟨hc, hp, ?_⟩
      rcases h with ⟨_, h⟩ | h | h
      · exact absurd h hpr
      · cases h
      · simpa using h
  · have hne : pkgExact.isEmpty = false := by cases pkgExact <;> simp_all
    simp only [hne, Bool.not_false, Bool.true_and, if_true]
    by_cases hpr : pkgRest = []
    · subst hpr
      simp only [List.isEmpty_nil, if_true]
      rw [mem_pairs]
      refine ⟨hc, ?_⟩
      have hp' : p ∈ pkgExact := by
        rcases h with ⟨h, _⟩ | h | ⟨vr, hvr, _⟩
        · exact absurd h hpe
        · exact h
        · cases hvr
      split
      · exact hp'
      · exact (hS.strs _).mem_iff.mpr hp'
    · have hne2 : pkgRest.isEmpty = false := by cases pkgRest <;> simp_all
      have hne3 : (pkgRest ++ [VR.containAny pkgExact]).isEmpty = false := by simp
      simp only [hne2, Bool.false_eq_true, if_false, hne3, Bool.not_false, if_true]
      rw [mem_packageFilter]
      refine ⟨hc, hp, ?_⟩
      rcases h with ⟨h, _⟩ | h | ⟨vr, hvr, hm⟩
      · exact absurd h hpe
      · refine ⟨.containAny pkgExact, by simp, ?_⟩
        simp only [vrMatch, Bool.not_false, List.any_eq_true]
        exact ⟨p, h, isInfix_self p⟩
      · exact ⟨vr, by simp [hvr], by simpa using hm⟩

theorem fromRestrictions_mem (env : Env) (repo : Repo) (S : Sorter) (hS : Lawful S) (catR pkgR : List VR) (c p : Str)
    (hp : p ∈ repo.packages c)
    (hcat : catR = [] ∨ ∃ vr ∈ catR, vrMatch env vr c = true)
    (hpkg : pkgR = [] ∨ ∃ vr ∈ pkgR, vrMatch env vr p = true) :
    (c, p) ∈ fromRestrictions env repo S catR pkgR false := by
  have hcs := split_ok env catR c hcat
  have hps := split_ok env pkgR p hpkg
  have hcc := packages_mem_categories repo c p hp
  simp only [fromRestrictions, Bool.false_eq_true, if_false]
  split
  · rename_i c' p' h1 h2 h3 h4
    rw [h1, h2] at hcs
    rw [h3, h4] at hps
    have hc' : c = c' := by
      rcases hcs with ⟨h, _⟩ | h | ⟨vr, hvr, _⟩
      · simp at h
      · simpa using h
      · cases hvr
    have hp' : p = p' := by
      rcases hps with ⟨h, _⟩ | h | ⟨vr, hvr, _⟩
      · simp at h
      · simpa using h
      · cases hvr
    subst hc' hp'
    simp [hp]
  · exact pkgStage_mem env repo S hS _ _ _ _ _ c p (catsStage_mem env repo S hS _ _ c hcc hcs) hp hps

/-! ### no candidate twice -/
theorem catFilter_nodup (env : Env) (repo : Repo) (h : WF repo) (rs : List VR) (negate : Bool) :
    (catFilter env repo rs negate).Nodup := nodup_filter _ h.cats

theorem packageFilter_nodup (env : Env) (repo : Repo) (h : WF repo) (cats : List Str) (hc : cats.Nodup) (rs : List VR)
    (negate : Bool) : (packageFilter env repo cats rs negate).Nodup :=
  nodup_pairs _ _ hc (fun c _ => nodup_filter _ (h.pkgs c))

theorem catsStage_nodup (env : Env) (repo : Repo) (S : Sorter) (hS : Lawful S) (h : WF repo) (catExact : List Str)
    (hce : catExact.Nodup) (catRest : List VR) (negate : Bool) :
    (catsStage env repo S catExact catRest negate).1.Nodup := by
  simp only [catsStage]
  split
  · split
    · exact hce
    · exact ((hS.strs _).nodup_iff).mpr (catFilter_nodup env repo h _ _)
  · split
    · exact catFilter_nodup env repo h _ _
    · exact ((hS.strs _).nodup_iff).mpr h.cats

theorem pkgStage_nodup (env : Env) (repo : Repo) (S : Sorter) (hS : Lawful S) (h : WF repo) (catExact catsIter : List Str)
    (hci : catsIter.Nodup) (catRest' : List VR) (pkgExact : List Str) (hpe : pkgExact.Nodup) (pkgRest : List VR)
    (negate : Bool) : (pkgStage env repo S catExact catsIter catRest' pkgExact pkgRest negate).Nodup := by
  simp only [pkgStage]
  split
  · apply nodup_pairs _ _ hci
    intro c _
    split
    · exact hpe
    · exact ((hS.strs _).nodup_iff).mpr hpe
  · generalize (if (!pkgExact.isEmpty) = true then pkgRest ++ [VR.containAny pkgExact] else pkgRest) = rs
    split
    · exact packageFilter_nodup env repo h _ hci _ _
    · split
      · split
        · exact versionKeys_nodup repo h
        · exact product_nodup repo S hS h _ hci
      · exact product_nodup repo S hS h _ hci

theorem fromRestrictions_nodup (env : Env) (repo : Repo) (S : Sorter) (hS : Lawful S) (h : WF repo) (catR pkgR : List VR)
    (negate : Bool) : (fromRestrictions env repo S catR pkgR negate).Nodup := by
  have hce : (if negate then [] else dedup (catR.filterMap exactOf)).Nodup := by
    split
    · simp
    · exact dedup_nodup _
  have hpe : (if negate then [] else dedup (pkgR.filterMap exactOf)).Nodup := by
    split
    · simp
    · exact dedup_nodup _
  simp only [fromRestrictions]
  split
  · split <;> simp
  · exact pkgStage_nodup env repo S hS h _ _ (catsStage_nodup env repo S hS h _ hce _ _) _ _ hpe _ _

/-! ### the fast path on a single (possibly negated) category / package restriction -/
theorem fromRestrictions_single_cat_neg (env : Env) (repo : Repo) (S : Sorter) (hS : Lawful S) (vr : VR) (c p : Str)
    (hp : p ∈ repo.packages c) (hm : vrMatch env vr c = false) :
    (c, p) ∈ fromRestrictions env repo S [vr] [] true := by
  have hcc := packages_mem_categories repo c p hp
  simp only [fromRestrictions, if_true, List.filter_nil]
  have hstage : c ∈ (catsStage env repo S [] ([vr].filter fun r => (exactOf r).isNone) true).1 := by
    simp only [catsStage, List.isEmpty_nil, Bool.not_true, Bool.false_eq_true, if_false]
    split
    · rw [mem_catFilter]
      refine ⟨hcc, ?_⟩
      rename_i hne
      have : ([vr].filter fun r => (exactOf r).isNone) = [vr] := by
        by_cases he : (exactOf vr).isNone = true
        · simp [List.filter, he]
        · simp [List.filter, he] at hne
      rw [this]
      exact ⟨vr, by simp, by simpa using hm⟩
    · exact (hS.strs _).mem_iff.mpr hcc
  have hpk := (mem_product repo S hS _ c p).mpr ⟨hstage, hp⟩
  simp only [pkgStage, List.isEmpty_nil, Bool.not_true, Bool.false_and, Bool.false_eq_true, if_false]
  split
  · split
    · exact (mem_versionKeys repo c p).mpr hp
    · exact hpk
  · exact hpk

theorem fromRestrictions_single_pkg_neg (env : Env) (repo : Repo) (S : Sorter) (hS : Lawful S) (vr : VR) (c p : Str)
    (hp : p ∈ repo.packages c) (hm : vrMatch env vr p = false) :
    (c, p) ∈ fromRestrictions env repo S [] [vr] true := by
  have hcc := packages_mem_categories repo c p hp
  simp only [fromRestrictions, if_true, List.filter_nil]
  have hstage : c ∈ (catsStage env repo S [] [] true).1 := by
    simp only [catsStage, List.isEmpty_nil, Bool.not_true, Bool.false_eq_true, if_false]
    exact (hS.strs _).mem_iff.mpr hcc
  have hpk := (mem_product repo S hS _ c p).mpr ⟨hstage, hp⟩
  simp only [pkgStage, List.isEmpty_nil, Bool.not_true, Bool.false_and, Bool.false_eq_true, if_false]
  split
  · rw [mem_packageFilter]
    refine ⟨hstage, hp, ?_⟩
    rename_i hne
    have : ([vr].filter fun r => (exactOf r).isNone) = [vr] := by
      by_cases he : (exactOf vr).isNone = true
      · simp [List.filter, he]
      · simp [List.filter, he] at hne
    rw [this]
    exact ⟨vr, by simp, by simpa using hm⟩
  · split
    · split
      · exact (mem_versionKeys repo c p).mpr hp
      · exact hpk
    · exact hpk

/-! ## `_identify_candidates` -/
theorem pmatches_eq_holds (env : Env) (tbl : Nat → Leaf) (r : R) (pk : Pkg) : pmatches env tbl r pk = holds env tbl r pk :=
  Pkgcore.C06.mtch_eq _ r

theorem required_cat_holds (env : Env) (tbl : Nat → Leaf) (cl : Clause) (pk : Pkg)
    (hall : ∀ m ∈ cl, Pkgcore.C06.Spec.eval (val env tbl pk) m = true) :
    ∀ vr ∈ required tbl true cl, vrMatch env vr pk.cat = true := by
  intro vr hvr
  simp only [required, List.mem_filterMap] at hvr
  obtain ⟨m, hm, hsome⟩ := hvr
  have hev := hall m hm
  cases m with
  | leaf i =>
    simp only [Pkgcore.C06.Spec.eval, val, leafMatch] at hev
    cases ht : tbl i with
    | cat n vr' =>
      cases n <;> simp only [ht] at hsome hev
      · simp only [Option.some.injEq] at hsome; subst hsome; simpa using hev
      · simp at hsome
    | pkg n vr' => cases n <;> simp [ht] at hsome
    | other j => simp [ht] at hsome
  | _ => simp at hsome

theorem required_pkg_holds (env : Env) (tbl : Nat → Leaf) (cl : Clause) (pk : Pkg)
    (hall : ∀ m ∈ cl, Pkgcore.C06.Spec.eval (val env tbl pk) m = true) :
    ∀ vr ∈ required tbl false cl, vrMatch env vr pk.name = true := by
  intro vr hvr
  simp only [required, List.mem_filterMap] at hvr
  obtain ⟨m, hm, hsome⟩ := hvr
  have hev := hall m hm
  cases m with
  | leaf i =>
    simp only [Pkgcore.C06.Spec.eval, val, leafMatch] at hev
    cases ht : tbl i with
    | pkg n vr' =>
      cases n <;> simp only [ht] at hsome hev
      · simp only [Option.some.injEq] at hsome; subst hsome; simpa using hev
      · simp at hsome
    | cat n vr' => cases n <;> simp [ht] at hsome
    | other j => simp [ht] at hsome
  | _ => simp at hsome

/-- the emptiness pattern of the solutions is uniform when no later solution deviates from the first -/
theorem uniform_of_not_any {α} (f : α → Bool) (d0 : α) (rest : List α)
    (h : ¬ (rest.any fun x => f x != f d0) = true) : ∀ x ∈ d0 :: rest, f x = f d0 := by
  intro x hx
  rcases List.mem_cons.mp hx with rfl | hx
  · rfl
  · simp only [List.any_eq_true, not_exists, not_and] at h
    have := h x hx
    simpa using this

theorem exists_of_any {α} (f : α → Bool) (d0 : α) (rest : List α)
    (h : (rest.any fun x => f x != f d0) = true) : ∃ x ∈ d0 :: rest, f x = false := by
  simp only [List.any_eq_true] at h
  obtain ⟨x, hx, hne⟩ := h
  cases hfx : f x with
  | false => exact ⟨x, List.mem_cons_of_mem _ hx, hfx⟩
  | true =>
    refine ⟨d0, by simp, ?_⟩
    cases hd : f d0 with
    | false => rfl
    | true => simp [hfx, hd] at hne

theorem identify_mem (env : Env) (tbl : Nat → Leaf) (repo : Repo) (S : Sorter) (hS : Lawful S) (r : R)
    (hb : isBoolNode r = true) (pk : Pkg) (hp : pk.name ∈ repo.packages pk.cat)
    (hm : holds env tbl r pk = true) : (pk.cat, pk.name) ∈ identify env tbl repo S r := by
  have hcc := packages_mem_categories repo _ _ hp
  have hdnf := Pkgcore.C06.dnf_complete (val env tbl pk) true r hm
  simp only [Pkgcore.C06.Spec.evalDnf, Pkgcore.C06.Spec.evalConj, List.any_eq_true, List.all_eq_true] at hdnf
  obtain ⟨cl, hcl, hall⟩ := hdnf
  have hcat := required_cat_holds env tbl cl pk hall
  have hpkg := required_pkg_holds env tbl cl pk hall
  simp only [identify, hb, Bool.not_true, Bool.false_eq_true, if_false]
  generalize hds : (dnf true r).map (fun cl => (required tbl true cl, required tbl false cl)) = ds
  have hd : (required tbl true cl, required tbl false cl) ∈ ds := by
    rw [← hds]; exact List.mem_map.mpr ⟨cl, hcl, rfl⟩
  split
  · exact (mem_allCps repo S hS _ _).mpr hp
  · rename_i hnone
    simp only [List.any_eq_true, Bool.and_eq_true, List.isEmpty_iff, not_exists, not_and] at hnone
    cases ds with
    | nil => cases hd
    | cons d0 rest =>
      simp only
      split
      · rename_i hcm
        split
        · exact (mem_versionKeys repo _ _).mpr hp
        · rename_i hpu
          -- some solution has no category requirement, hence a package requirement; so all have one
          obtain ⟨x, hx, hx1⟩ := exists_of_any (fun x : List VR × List VR => !x.1.isEmpty) d0 rest hcm
          have hx1' : x.1 = [] := by simpa using hx1
          have hx2 : x.2 ≠ [] := hnone x hx hx1'
          have hun := uniform_of_not_any (fun x : List VR × List VR => !x.2.isEmpty) d0 rest hpu
          have hd2 : required tbl false cl ≠ [] := by
            have h1 := hun x hx
            have h2 := hun _ hd
            intro h0
            rw [h0] at h2
            simp only [List.isEmpty_nil, Bool.not_true] at h2
            rw [← h2] at h1
            simp only [Bool.not_eq_false', List.isEmpty_iff] at h1
            exact hx2 h1
          obtain ⟨vr, hvr⟩ := List.exists_mem_of_ne_nil _ hd2
          rw [mem_pairs]
          refine ⟨(hS.strs _).mem_iff.mpr hcc, ?_⟩
          rw [List.mem_filter, (hS.strs _).mem_iff]
          refine ⟨hp, ?_⟩
          simp only [List.any_eq_true, List.mem_flatMap]
          exact ⟨vr, ⟨_, hd, hvr⟩, hpkg vr hvr⟩
      · rename_i hcu
        have hunc := uniform_of_not_any (fun x : List VR × List VR => !x.1.isEmpty) d0 rest hcu
        split
        · rename_i hpm
          obtain ⟨x, hx, hx2⟩ := exists_of_any (fun x : List VR × List VR => !x.2.isEmpty) d0 rest hpm
          have hx2' : x.2 = [] := by simpa using hx2
          have hx1 : x.1 ≠ [] := fun h0 => hnone x hx h0 hx2'
          have hd1 : required tbl true cl ≠ [] := by
            have h1 := hunc x hx
            have h2 := hunc _ hd
            intro h0
            rw [h0] at h2
            simp only [List.isEmpty_nil, Bool.not_true] at h2
            rw [← h2] at h1
            simp only [Bool.not_eq_false', List.isEmpty_iff] at h1
            exact hx1 h1
          obtain ⟨vr, hvr⟩ := List.exists_mem_of_ne_nil _ hd1
          rw [mem_product repo S hS]
          refine ⟨?_, hp⟩
          rw [List.mem_filter, (hS.strs _).mem_iff]
          refine ⟨hcc, ?_⟩
          simp only [List.any_eq_true, List.mem_flatMap]
          exact ⟨vr, ⟨_, hd, hvr⟩, hcat vr hvr⟩
        · rename_i hpu
          have hunp := uniform_of_not_any (fun x : List VR × List VR => !x.2.isEmpty) d0 rest hpu
          apply fromRestrictions_mem env repo S hS _ _ _ _ hp
          · by_cases h0 : required tbl true cl = []
            · left
              apply List.eq_nil_iff_forall_not_mem.mpr
              intro vr hvr
              simp only [List.mem_flatMap] at hvr
              obtain ⟨x, hx, hvx⟩ := hvr
              have h1 := hunc x hx
              have h2 := hunc _ hd
              rw [h0] at h2
              simp only [List.isEmpty_nil, Bool.not_true] at h2
              rw [← h2] at h1
              simp only [Bool.not_eq_false', List.isEmpty_iff] at h1
              rw [h1] at hvx; cases hvx
            · right
              obtain ⟨vr, hvr⟩ := List.exists_mem_of_ne_nil _ h0
              exact ⟨vr, List.mem_flatMap.mpr ⟨_, hd, hvr⟩, hcat vr hvr⟩
          · by_cases h0 : required tbl false cl = []
            · left
              apply List.eq_nil_iff_forall_not_mem.mpr
              intro vr hvr
              simp only [List.mem_flatMap] at hvr
              obtain ⟨x, hx, hvx⟩ := hvr
              have h1 := hunp x hx
              have h2 := hunp _ hd
              rw [h0] at h2
              simp only [List.isEmpty_nil, Bool.not_true] at h2
              rw [← h2] at h1
              simp only [Bool.not_eq_false', List.isEmpty_iff] at h1
              rw [h1] at hvx; cases hvx
            · right
              obtain ⟨vr, hvr⟩ := List.exists_mem_of_ne_nil _ h0
              exact ⟨vr, List.mem_flatMap.mpr ⟨_, hd, hvr⟩, hpkg vr hvr⟩

theorem fast_nodup (env : Env) (tbl : Nat → Leaf) (repo : Repo) (S : Sorter) (hS : Lawful S) (h : WF repo) (r : R) :
    (fast env tbl repo S r).Nodup := by
  simp only [fast]; exact fromRestrictions_nodup env repo S hS h _ _ _

theorem identify_nodup (env : Env) (tbl : Nat → Leaf) (repo : Repo) (S : Sorter) (hS : Lawful S) (h : WF repo) (r : R) :
    (identify env tbl repo S r).Nodup := by
  simp only [identify]
  split
  · exact fast_nodup env tbl repo S hS h r
  · split
    · exact allCps_nodup repo S hS h
    · split
      · simp
      · split
        · split
          · exact versionKeys_nodup repo h
          · exact nodup_pairs _ _ (((hS.strs _).nodup_iff).mpr h.cats)
              (fun c _ => nodup_filter _ (((hS.strs _).nodup_iff).mpr (h.pkgs c)))
        · split
          · exact product_nodup repo S hS h _ (nodup_filter _ (((hS.strs _).nodup_iff).mpr h.cats))
          · exact fromRestrictions_nodup env repo S hS h _ _ _

/-- the fast path on a non-boolean restriction: a single leaf or a `Negate` wrapper -/
theorem fast_mem_leaf (env : Env) (tbl : Nat → Leaf) (repo : Repo) (S : Sorter) (hS : Lawful S) (i : Nat) (pk : Pkg)
    (hp : pk.name ∈ repo.packages pk.cat) (hm : holds env tbl (.leaf i) pk = true) :
    (pk.cat, pk.name) ∈ fast env tbl repo S (.leaf i) := by
  simp only [holds, Pkgcore.C06.Spec.eval, val, leafMatch] at hm
  simp only [fast, collectAll, List.filterMap_cons, List.filterMap_nil]
  cases ht : tbl i with
  | cat n vr =>
    simp only [ht] at hm ⊢
    cases n with
    | false =>
      exact fromRestrictions_mem env repo S hS [vr] [] _ _ hp (Or.inr ⟨vr, by simp, by simpa using hm⟩) (Or.inl rfl)
    | true => exact fromRestrictions_single_cat_neg env repo S hS vr _ _ hp (by simpa using hm)
  | pkg n vr =>
    simp only [ht] at hm ⊢
    cases n with
    | false =>
      exact fromRestrictions_mem env repo S hS [] [vr] _ _ hp (Or.inl rfl) (Or.inr ⟨vr, by simp, by simpa using hm⟩)
    | true => exact fromRestrictions_single_pkg_neg env repo S hS vr _ _ hp (by simpa using hm)
  | other j =>
    exact fromRestrictions_mem env repo S hS [] [] _ _ hp (Or.inl rfl) (Or.inl rfl)

theorem fast_mem_neg (env : Env) (tbl : Nat → Leaf) (repo : Repo) (S : Sorter) (hS : Lawful S) (r : R) (pk : Pkg)
    (hp : pk.name ∈ repo.packages pk.cat) : (pk.cat, pk.name) ∈ fast env tbl repo S (.neg r) := by
  simp only [fast, collectAll, List.filterMap_nil]
  exact fromRestrictions_mem env repo S hS [] [] _ _ hp (Or.inl rfl) (Or.inl rfl)

/-! ## atoms -/
theorem findSome_mem {α β} (f : α → Option β) : ∀ (l : List α) (b : β), l.findSome? f = some b → ∃ a ∈ l, f a = some b
  | [], _, h => by simp at h
  | a :: l, b, h => by
    simp only [List.findSome?_cons] at h
    split at h
    · rename_i b' hb
      simp only [Option.some.injEq] at h
      subst h
      exact ⟨a, by simp, hb⟩
    · obtain ⟨a', ha', hf⟩ := findSome_mem f l b h
      exact ⟨a', List.mem_cons_of_mem _ ha', hf⟩

theorem atomKey_sound (env : Env) (tbl : Nat → Leaf) (cs : List R) (cp : CP) (pk : Pkg) (hk : atomKey tbl cs = some cp)
    (hm : holds env tbl (.atom cs) pk = true) : (pk.cat, pk.name) = cp := by
  simp only [holds, Pkgcore.C06.Spec.eval, Pkgcore.C06.evalAll_eq, List.all_eq_true] at hm
  simp only [atomKey] at hk
  split at hk
  · rename_i c p hc hpn
    simp only [Option.some.injEq] at hk
    subst hk
    obtain ⟨m1, hm1, hf1⟩ := findSome_mem _ cs c hc
    obtain ⟨m2, hm2, hf2⟩ := findSome_mem _ cs p hpn
    have e1 := hm m1 hm1
    have e2 := hm m2 hm2
    have hcat : pk.cat = c := by
      cases m1 with
      | leaf i =>
        simp only [Pkgcore.C06.Spec.eval, val, leafMatch] at e1
        cases ht : tbl i with
        | cat n vr =>
          simp only [ht] at hf1 e1
          cases n with
          | true => simp at hf1
          | false =>
            cases vr with
            | exact s n' =>
              cases n' with
              | true => simp at hf1
              | false =>
                simp only [Option.some.injEq] at hf1
                subst hf1
                simp only [vrMatch, Bool.bne_false, beq_iff_eq] at e1
                exact e1.symm
            | containAny xs => simp at hf1
            | other j => simp at hf1
        | pkg n vr => simp [ht] at hf1
        | other j => simp [ht] at hf1
      | _ => simp at hf1
    have hname : pk.name = p := by
      cases m2 with
      | leaf i =>
        simp only [Pkgcore.C06.Spec.eval, val, leafMatch] at e2
        cases ht : tbl i with
        | pkg n vr =>
          simp only [ht] at hf2 e2
          cases n with
          | true => simp at hf2
          | false =>
            cases vr with
            | exact s n' =>
              cases n' with
              | true => simp at hf2
              | false =>
                simp only [Option.some.injEq] at hf2
                subst hf2
                simp only [vrMatch, Bool.bne_false, beq_iff_eq] at e2
                exact e2.symm
            | containAny xs => simp at hf2
            | other j => simp at hf2
        | cat n vr => simp [ht] at hf2
        | other j => simp [ht] at hf2
      | _ => simp at hf2
    rw [hcat, hname]
  · simp at hk

/-! ## candidates, `_internal_gen_candidates`, itermatch -/
theorem candidates_mem (env : Env) (tbl : Nat → Leaf) (repo : Repo) (S : Sorter) (hS : Lawful S) (r : R)
    (hk : atomsKeyed tbl r = true) (pk : Pkg) (hp : pk.name ∈ repo.packages pk.cat) (hm : holds env tbl r pk = true) :
    (pk.cat, pk.name) ∈ candidates env tbl repo S r := by
  cases r with
  | leaf i => simp only [candidates, identify, isBoolNode, Bool.not_false, if_true]; exact fast_mem_leaf env tbl repo S hS i pk hp hm
  | neg r' => simp only [candidates, identify, isBoolNode, Bool.not_false, if_true]; exact fast_mem_neg env tbl repo S hS r' pk hp
  | and n cs => simp only [candidates]; exact identify_mem env tbl repo S hS _ rfl pk hp hm
  | or n cs => simp only [candidates]; exact identify_mem env tbl repo S hS _ rfl pk hp hm
  | justOne n cs => simp only [candidates]; exact identify_mem env tbl repo S hS _ rfl pk hp hm
  | atMostOne n cs => simp only [candidates]; exact identify_mem env tbl repo S hS _ rfl pk hp hm
  | atom cs =>
    simp only [atomsKeyed, Option.isSome_iff_exists] at hk
    obtain ⟨cp, hcp⟩ := hk
    simp only [candidates, hcp, List.mem_singleton]
    exact atomKey_sound env tbl cs cp pk hcp hm

theorem candidates_nodup (env : Env) (tbl : Nat → Leaf) (repo : Repo) (S : Sorter) (hS : Lawful S) (h : WF repo) (r : R) :
    (candidates env tbl repo S r).Nodup := by
  cases r with
  | atom cs =>
    simp only [candidates]
    split
    · simp
    · exact identify_nodup env tbl repo S hS h _
  | _ => simp only [candidates]; exact identify_nodup env tbl repo S hS h _

theorem nodup_flatMap_of {α β} (l : List α) (f : α → List β) (hl : l.Nodup) (hf : ∀ a ∈ l, (f a).Nodup)
    (hd : ∀ a ∈ l, ∀ b ∈ l, a ≠ b → ∀ x ∈ f a, x ∉ f b) : (l.flatMap f).Nodup := by
  induction l with
  | nil => simp
  | cons a l ih =>
    rw [List.nodup_cons] at hl
    simp only [List.flatMap_cons]
    rw [List.nodup_append]
    refine ⟨hf a (by simp), ih hl.2 (fun b hb => hf b (List.mem_cons_of_mem _ hb))
      (fun b hb c hc => hd b (List.mem_cons_of_mem _ hb) c (List.mem_cons_of_mem _ hc)), ?_⟩
    intro x hx y hy hxy
    subst hxy
    simp only [List.mem_flatMap] at hy
    obtain ⟨b, hb, hxb⟩ := hy
    have hne : a ≠ b := fun e => hl.1 (e ▸ hb)
    exact hd a (by simp) b (List.mem_cons_of_mem _ hb) hne x hx hxb

def verOk (repo : Repo) (versioned : Bool) (pk : Pkg) : Prop :=
  if versioned then ∃ v ∈ repo.versions (pk.cat, pk.name), pk.ver = some v
  else repo.versions (pk.cat, pk.name) ≠ [] ∧ pk.ver = none

theorem mem_genCandidates (repo : Repo) (S : Sorter) (hS : Lawful S) (versioned : Bool) (cands : List CP) (pk : Pkg) :
    pk ∈ genCandidates repo S versioned cands ↔ (pk.cat, pk.name) ∈ cands ∧ verOk repo versioned pk := by
  simp only [genCandidates, List.mem_flatMap, verOk]
  constructor
  · rintro ⟨cp, hcp, hpk⟩
    rw [(hS.cps _).mem_iff] at hcp
    cases versioned with
    | true =>
      simp only [if_true] at hpk ⊢
      rw [(hS.pkgs _).mem_iff, List.mem_map] at hpk
      obtain ⟨v, hv, rfl⟩ := hpk
      exact ⟨hcp, v, hv, rfl⟩
    | false =>
      simp only [Bool.false_eq_true, if_false] at hpk ⊢
      split at hpk
      · cases hpk
      · rename_i hne
        rw [(hS.pkgs _).mem_iff, List.mem_singleton] at hpk
        subst hpk
        exact ⟨hcp, by simpa [List.isEmpty_iff] using hne, rfl⟩
  · rintro ⟨hcp, hv⟩
    refine ⟨(pk.cat, pk.name), (hS.cps _).mem_iff.mpr hcp, ?_⟩
    cases versioned with
    | true =>
      simp only [if_true] at hv ⊢
      obtain ⟨v, hv, hpv⟩ := hv
      rw [(hS.pkgs _).mem_iff, List.mem_map]
      exact ⟨v, hv, by cases pk; simp_all⟩
    | false =>
      simp only [Bool.false_eq_true, if_false] at hv ⊢
      have : (repo.versions (pk.cat, pk.name)).isEmpty = false := by
        cases hvv : repo.versions (pk.cat, pk.name) <;> simp_all
      simp only [this, Bool.false_eq_true, if_false]
      rw [(hS.pkgs _).mem_iff, List.mem_singleton]
      cases pk; simp_all

theorem genCandidates_nodup (repo : Repo) (S : Sorter) (hS : Lawful S) (h : WF repo) (versioned : Bool) (cands : List CP)
    (hc : cands.Nodup) : (genCandidates repo S versioned cands).Nodup := by
  simp only [genCandidates]
  apply nodup_flatMap_of _ _ (((hS.cps _).nodup_iff).mpr hc)
  · intro cp _
    split
    · rw [(hS.pkgs _).nodup_iff]
      exact List.Pairwise.map _ (fun a b hab => by intro e; exact hab (by simpa using e)) (h.vers cp)
    · split
      · simp
      · rw [(hS.pkgs _).nodup_iff]; simp
  · intro a _ b _ hab x hxa hxb
    have ha : (x.cat, x.name) = a := by
      split at hxa
      · rw [(hS.pkgs _).mem_iff, List.mem_map] at hxa; obtain ⟨v, _, rfl⟩ := hxa; rfl
      · split at hxa
        · cases hxa
        · rw [(hS.pkgs _).mem_iff, List.mem_singleton] at hxa; subst hxa; rfl
    have hb : (x.cat, x.name) = b := by
      split at hxb
      · rw [(hS.pkgs _).mem_iff, List.mem_map] at hxb; obtain ⟨v, _, rfl⟩ := hxb; rfl
      · split at hxb
        · cases hxb
        · rw [(hS.pkgs _).mem_iff, List.mem_singleton] at hxb; subst hxb; rfl
    exact hab (ha.symm.trans hb)

theorem mem_allOf (repo : Repo) (versioned : Bool) (pk : Pkg) : pk ∈ allOf repo versioned ↔ verOk repo versioned pk := by
  cases versioned with
  | true =>
    simp only [allOf, if_true, allPackages, verOk, List.mem_flatMap, List.mem_map]
    constructor
    · rintro ⟨cp, _, v, hv, rfl⟩; exact ⟨v, hv, rfl⟩
    · rintro ⟨v, hv, hpv⟩
      refine ⟨(pk.cat, pk.name), (mem_versionKeys repo _ _).mpr (versions_mem_packages repo _ _ v hv), v, hv, ?_⟩
      cases pk; simp_all
  | false =>
    simp only [allOf, Bool.false_eq_true, if_false, allUnversioned, verOk, List.mem_map, List.mem_filter]
    constructor
    · rintro ⟨cp, ⟨_, hne⟩, rfl⟩
      exact ⟨by simpa [List.isEmpty_iff] using hne, rfl⟩
    · rintro ⟨hne, hpv⟩
      obtain ⟨v, hv⟩ := List.exists_mem_of_ne_nil _ hne
      refine ⟨(pk.cat, pk.name), ⟨(mem_versionKeys repo _ _).mpr (versions_mem_packages repo _ _ v hv), ?_⟩, ?_⟩
      · cases hvv : repo.versions (pk.cat, pk.name) <;> simp_all
      · cases pk; simp_all

theorem allOf_nodup (repo : Repo) (h : WF repo) (versioned : Bool) : (allOf repo versioned).Nodup := by
  cases versioned with
  | true =>
    simp only [allOf, if_true, allPackages]
    apply nodup_flatMap_of _ _ (versionKeys_nodup repo h)
    · intro cp _
      exact List.Pairwise.map _ (fun a b hab => by intro e; exact hab (by simpa using e)) (h.vers cp)
    · intro a _ b _ hab x hxa hxb
      rw [List.mem_map] at hxa hxb
      obtain ⟨v, _, rfl⟩ := hxa
      obtain ⟨w, _, e⟩ := hxb
      apply hab
      have := congrArg (fun p : Pkg => (p.cat, p.name)) e
      exact this.symm
  | false =>
    simp only [allOf, Bool.false_eq_true, if_false, allUnversioned]
    exact List.Pairwise.map _ (fun a b hab => by
      intro e; apply hab
      have := congrArg (fun p : Pkg => (p.cat, p.name)) e
      exact this) (nodup_filter _ (versionKeys_nodup repo h))

theorem mem_itermatch_iff (env : Env) (tbl : Nat → Leaf) (repo : Repo) (S : Sorter) (hS : Lawful S) (versioned : Bool)
    (r : R) (hk : atomsKeyed tbl r = true) (pk : Pkg) :
    pk ∈ itermatch env tbl repo S versioned r ↔ pk ∈ answer env tbl repo versioned r := by
  simp only [itermatch, answer, List.mem_filter, mem_genCandidates repo S hS, mem_allOf, pmatches_eq_holds]
  constructor
  · rintro ⟨⟨_, hv⟩, hm⟩; exact ⟨hv, hm⟩
  · rintro ⟨hv, hm⟩
    refine ⟨⟨?_, hv⟩, hm⟩
    have hp : pk.name ∈ repo.packages pk.cat := by
      cases versioned with
      | true =>
        simp only [verOk, if_true] at hv
        obtain ⟨v, hv, _⟩ := hv
        exact versions_mem_packages repo _ _ v hv
      | false =>
        simp only [verOk, Bool.false_eq_true, if_false] at hv
        obtain ⟨v, hv'⟩ := List.exists_mem_of_ne_nil _ hv.1
        exact versions_mem_packages repo _ _ v hv'
    exact candidates_mem env tbl repo S hS r hk pk hp hm

theorem itermatch_nodup' (env : Env) (tbl : Nat → Leaf) (repo : Repo) (S : Sorter) (hS : Lawful S) (h : WF repo)
    (versioned : Bool) (r : R) : (itermatch env tbl repo S versioned r).Nodup :=
  nodup_filter _ (genCandidates_nodup repo S hS h versioned _ (candidates_nodup env tbl repo S hS h r))

end Pkgcore.C08
