import Pkgcore.Spec.C10
import Pkgcore.Proofs.C09
/-!
# C10 — helper lemmas
-/
namespace Pkgcore.C10
open Pkgcore.C09 Pkgcore.C09.Spec Pkgcore.C10.Spec

/-! ## splitting -/

@[simp] theorem toMultipleL_nil : toMultipleL [] = [] := by simp [toMultipleL]
@[simp] theorem toMultipleL_cons (c cs) : toMultipleL (c :: cs) = toMultiple c ++ toMultipleL cs := by simp [toMultipleL]
@[simp] theorem allSingle_nil (on) : allSingle on [] = true := by simp [allSingle]
@[simp] theorem allSingle_cons (on c cs) : allSingle on (c :: cs) = (evalSingle on c && allSingle on cs) := by simp [allSingle]

theorem all_or_distrib {α} (l : List α) (u : Bool) (p : α → Bool) : l.all (fun c => u || p c) = (u || l.all p) := by
  induction l with
  | nil => simp
  | cons x xs ih => simp only [List.all_cons, ih]; cases u <;> simp

mutual
theorem toMultiple_all (on : List Tok) : ∀ t : Dep, (toMultiple t).all (·.eval on) = evalSingle on t
  | .leaf k r => by simp [toMultiple, MC.eval]
  | .cond n f cs => by
      have ih := toMultipleL_all on cs
      simp only [toMultiple, List.all_map, evalSingle, ← ih]
      rw [← all_or_distrib]
      congr 1
      funext c
      simp [MC.eval, Bool.or_assoc]
  | .grp .and cs => by simp [toMultiple, evalSingle, toMultipleL_all on cs]
  | .grp .or cs => by simp [toMultiple, MC.eval]
  | .grp .justOne cs => by simp [toMultiple, MC.eval]
  | .grp .atMostOne cs => by simp [toMultiple, MC.eval]
theorem toMultipleL_all (on : List Tok) : ∀ ts : List Dep, (toMultipleL ts).all (·.eval on) = allSingle on ts
  | [] => by simp
  | c :: cs => by simp [List.all_append, toMultiple_all on c, toMultipleL_all on cs]
end

/-! ## the compiled constraints against the specification -/

theorem anySingle_eq (on : List Tok) : ∀ cs : List Dep, anySingle on cs = (cs.map (evalSingle on)).any id
  | [] => by simp [anySingle]
  | c :: cs => by simp [anySingle, anySingle_eq on cs]
theorem allSingle_eq (on : List Tok) : ∀ cs : List Dep, allSingle on cs = (cs.map (evalSingle on)).all id
  | [] => by simp
  | c :: cs => by simp [allSingle_eq on cs]
theorem countSingle_eq (on : List Tok) : ∀ cs : List Dep, countSingle on cs = (cs.map (evalSingle on)).count true
  | [] => by simp [countSingle]
  | c :: cs => by
      simp only [countSingle, List.map_cons, List.count_cons, countSingle_eq on cs]
      cases evalSingle on c <;> simp <;> omega

mutual
/-- without conditionals (and without empty groups) a structure is never absent and the code computes its value -/
theorem condFree_sat (on : List Tok) : ∀ t : Dep, hasCond t = false → nonEmpty t = true →
    satAbs (flagOn on) (litOn on) t = some (evalSingle on t)
  | .leaf k r, _, _ => by simp [satAbs, evalSingle, litOn]
  | .cond n f cs, h, _ => by simp [hasCond] at h
  | .grp kind cs, h, hne => by
      have hc : hasCondL cs = false := by simpa [hasCond] using h
      simp only [nonEmpty, Bool.and_eq_true, Bool.not_eq_true', List.isEmpty_eq_false_iff] at hne
      have hm := condFree_members on cs hc hne.2
      have hmne : (cs.map (evalSingle on)).isEmpty = false := by
        cases cs with
        | nil => exact absurd rfl hne.1
        | cons _ _ => rfl
      simp only [satAbs, hm, hmne, Bool.false_and, Bool.false_eq_true, if_false]
      cases kind with
      | and => simp [judge, evalSingle, allSingle_eq]
      | or => simp [judge, evalSingle, anySingle_eq, hmne]
      | justOne => simp [judge, evalSingle, countSingle_eq, hmne]
      | atMostOne => simp [judge, evalSingle, countSingle_eq]
theorem condFree_members (on : List Tok) : ∀ cs : List Dep, hasCondL cs = false → nonEmptyL cs = true →
    membersAbs (flagOn on) (litOn on) cs = cs.map (evalSingle on)
  | [], _, _ => by simp
  | c :: cs, h, hne => by
      simp only [hasCondL_cons, Bool.or_eq_false_iff] at h
      simp only [nonEmptyL, Bool.and_eq_true] at hne
      simp [condFree_sat on c h.1 hne.1, condFree_members on cs h.2 hne.2]
end

mutual
theorem guarded_sat (on : List Tok) : ∀ t : Dep, choiceCondFree t = true → nonEmpty t = true →
    evalSingle on t = (satAbs (flagOn on) (litOn on) t).getD true
  | .leaf k r, _, _ => by simp [satAbs, evalSingle, litOn]
  | .cond n f cs, hg, hne => by
      have hg' : choiceCondFreeL cs = true := by simpa [choiceCondFree] using hg
      simp only [nonEmpty, Bool.and_eq_true] at hne
      have ih := guarded_all on cs hg' hne.2
      simp only [evalSingle, satAbs, ih]
      have hfo : flagOn on f = on.contains f := rfl
      rw [hfo]
      cases hc : (on.contains f == n) with
      | true =>
        have : (on.contains f != n) = false := by simp only [bne, hc]; rfl
        rw [this]; simp
      | false =>
        have : (on.contains f != n) = true := by simp only [bne, hc]; rfl
        rw [this]
        simp only [if_true, Bool.false_or]
        cases hm : membersAbs (flagOn on) (litOn on) cs with
        | nil => simp
        | cons x xs => simp
  | .grp .and cs, hg, hne => by
      have hg' : choiceCondFreeL cs = true := by simpa [choiceCondFree] using hg
      simp only [nonEmpty, Bool.and_eq_true] at hne
      have ih := guarded_all on cs hg' hne.2
      simp only [evalSingle, satAbs, ih]
      cases hm : membersAbs (flagOn on) (litOn on) cs with
      | nil => simp [wipes]
      | cons x xs => simp [judge, wipes]
  | .grp .or cs, hg, hne => by
      have hc : hasCond (.grp .or cs) = false := by simpa [choiceCondFree, hasCond] using hg
      rw [condFree_sat on _ hc hne]; rfl
  | .grp .justOne cs, hg, hne => by
      have hc : hasCond (.grp .justOne cs) = false := by simpa [choiceCondFree, hasCond] using hg
      rw [condFree_sat on _ hc hne]; rfl
  | .grp .atMostOne cs, hg, hne => by
      have hc : hasCond (.grp .atMostOne cs) = false := by simpa [choiceCondFree, hasCond] using hg
      rw [condFree_sat on _ hc hne]; rfl
theorem guarded_all (on : List Tok) : ∀ cs : List Dep, choiceCondFreeL cs = true → nonEmptyL cs = true →
    allSingle on cs = (membersAbs (flagOn on) (litOn on) cs).all id
  | [], _, _ => by simp
  | c :: cs, hg, hne => by
      simp only [choiceCondFreeL, Bool.and_eq_true] at hg
      simp only [nonEmptyL, Bool.and_eq_true] at hne
      rw [allSingle_cons, guarded_sat on c hg.1 hne.1, guarded_all on cs hg.2 hne.2, membersAbs_cons]
      cases satAbs (flagOn on) (litOn on) c <;> simp
end

/-! ## domains and the product -/

theorem mem_product : ∀ (doms : List (Tok × List Bool)) (a : List (Tok × Bool)),
    a ∈ product doms ↔ inProd a doms = true
  | [], a => by
      cases a with
      | nil => simp [product, inProd]
      | cons e es => obtain ⟨v, b⟩ := e; simp [product, inProd]
  | (w, dom) :: rest, a => by
      cases a with
      | nil => simp [product, inProd]
      | cons e es =>
        obtain ⟨v, b⟩ := e
        simp only [product, List.mem_flatMap, List.mem_reverse, List.mem_map, inProd, Bool.and_eq_true, beq_iff_eq,
          List.contains_iff_mem]
        constructor
        · rintro ⟨b', hb', a', ha', h0⟩
          simp only [List.cons.injEq, Prod.mk.injEq] at h0
          obtain ⟨⟨h1, h2⟩, h3⟩ := h0
          subst h1; subst h2; subst h3
          exact ⟨⟨rfl, hb'⟩, (mem_product rest a').mp ha'⟩
        · rintro ⟨⟨h1, h2⟩, h3⟩
          subst h1
          exact ⟨b, h2, es, (mem_product rest es).mpr h3, rfl⟩

theorem inProd_domain (inp : Inputs) : ∀ (vars : List Tok) (a : List (Tok × Bool)),
    inProd a (vars.map fun v => (v, domainOf inp v)) = true → ∀ e ∈ a, e.2 ∈ domainOf inp e.1
  | [], a, h, e, he => by
      cases a with
      | nil => simp at he
      | cons x xs => obtain ⟨v, b⟩ := x; simp [inProd] at h
  | w :: ws, a, h, e, he => by
      cases a with
      | nil => simp at he
      | cons x xs =>
        obtain ⟨v, b⟩ := x
        simp only [List.map_cons, inProd, Bool.and_eq_true, beq_iff_eq, List.contains_iff_mem] at h
        obtain ⟨⟨h1, h2⟩, h3⟩ := h
        subst h1
        rcases List.mem_cons.mp he with h0 | h0
        · subst h0; exact h2
        · exact inProd_domain inp ws xs h3 e h0

theorem domainOf_cases (inp : Inputs) (v : Tok) (b : Bool) (hb : b ∈ domainOf inp v) :
    (v ∉ inp.iuse → b = false) ∧ (v ∈ inp.iuse → v ∈ inp.forceF → b = false) ∧
    (v ∈ inp.iuse → v ∈ inp.forceT → v ∉ inp.forceF → b = true) := by
  unfold domainOf at hb
  by_cases h1 : v ∈ inp.iuse
  · have h1' : inp.iuse.contains v = true := by simpa using h1
    simp only [h1', Bool.not_true, Bool.false_eq_true, if_false] at hb
    by_cases h2 : v ∈ inp.forceF
    · have h2' : inp.forceF.contains v = true := by simpa using h2
      simp only [h2', if_true, List.mem_singleton] at hb
      exact ⟨fun h => absurd h1 h, fun _ _ => hb, fun _ _ h => absurd h2 h⟩
    · have h2' : inp.forceF.contains v = false := by simpa using h2
      simp only [h2', Bool.false_eq_true, if_false] at hb
      refine ⟨fun h => absurd h1 h, fun _ h => absurd h h2, fun _ h3 _ => ?_⟩
      have h3' : inp.forceT.contains v = true := by simpa using h3
      simp only [h3', if_true, List.mem_singleton] at hb; exact hb
  · have h1' : inp.iuse.contains v = false := by simpa using h1
    simp only [h1', Bool.not_false, if_true, List.mem_singleton] at hb
    exact ⟨fun _ => hb, fun h => absurd h h1, fun h => absurd h h1⟩

/-! ## no duplicates -/

theorem mem_dedup : ∀ (l : List Tok) (x : Tok), x ∈ dedup l ↔ x ∈ l
  | [], x => by simp [dedup]
  | y :: ys, x => by
      unfold dedup
      by_cases h : ys.contains y = true
      · have hy : y ∈ ys := by simpa using h
        simp only [h, if_true, mem_dedup ys x, List.mem_cons]
        exact ⟨Or.inr, fun h0 => h0.elim (fun h1 => h1 ▸ hy) id⟩
      · have hy : y ∉ ys := by simpa using h
        simp only [h, Bool.false_eq_true, if_false, List.mem_cons, mem_dedup ys x]

theorem dedup_nodup : ∀ l : List Tok, (dedup l).Nodup
  | [] => by simp [dedup]
  | y :: ys => by
      unfold dedup
      by_cases h : ys.contains y = true
      · simp only [h, if_true]; exact dedup_nodup ys
      · have hy : y ∉ ys := by simpa using h
        simp only [h, Bool.false_eq_true, if_false, List.nodup_cons]
        exact ⟨fun h0 => hy ((mem_dedup ys y).mp h0), dedup_nodup ys⟩

theorem product_nodup : ∀ (doms : List (Tok × List Bool)), (∀ d ∈ doms, d.2.Nodup) → (product doms).Nodup
  | [], _ => by simp [product]
  | (v, dom) :: rest, h => by
      have ih := product_nodup rest (fun d hd => h d (List.mem_cons_of_mem _ hd))
      have hd : dom.Nodup := h (v, dom) (by simp)
      unfold product
      unfold List.Nodup
      rw [List.pairwise_flatMap]
      refine ⟨fun b _ => ?_, ?_⟩
      · rw [List.pairwise_map]
        exact List.Pairwise.imp (fun {a b} hab h0 => hab (by simpa using h0)) ih
      · have : List.Pairwise (· ≠ ·) dom.reverse := by
          rw [List.pairwise_reverse]; exact List.Pairwise.imp (fun {a b} h => Ne.symm h) hd
        refine List.Pairwise.imp (fun {b1 b2} hne x hx y hy => ?_) this
        simp only [List.mem_map] at hx hy
        obtain ⟨_, _, rfl⟩ := hx
        obtain ⟨_, _, rfl⟩ := hy
        intro h0; simp only [List.cons.injEq, Prod.mk.injEq, true_and] at h0; exact hne h0.1

theorem domainOf_nodup (inp : Inputs) (v : Tok) : (domainOf inp v).Nodup := by
  unfold domainOf; split <;> (try split) <;> (try split) <;> (try split) <;> simp

theorem domainOf_ne_nil (inp : Inputs) (v : Tok) : domainOf inp v ≠ [] := by
  unfold domainOf; split <;> (try split) <;> (try split) <;> (try split) <;> simp

/-- the first assignment of the product takes the last value of every domain -/
theorem product_head : ∀ (doms : List (Tok × List Bool)), (∀ d ∈ doms, d.2 ≠ []) →
    (product doms).head? = some (doms.map fun d => (d.1, d.2.getLast?.getD false))
  | [], _ => by simp [product]
  | (v, dom) :: rest, h => by
      have ih := product_head rest (fun d hd => h d (List.mem_cons_of_mem _ hd))
      have hne : dom ≠ [] := h (v, dom) (by simp)
      unfold product
      cases hr : dom.reverse with
      | nil => simp at hr; exact absurd hr hne
      | cons b bs =>
        have hb : dom.getLast? = some b := by
          rw [← List.head?_reverse, hr]; rfl
        cases hp : product rest with
        | nil => rw [hp] at ih; simp at ih
        | cons a as =>
          rw [hp] at ih
          simp only [List.head?_cons, Option.some.injEq] at ih
          simp [List.flatMap_cons, hp, hb, ih]

/-! ## the preferred assignment, read off the wording -/

/-- the last value of the domain the code builds is the wording's value, as long as no IUSE flag is forced both ways
(`add_variable` asserts it) -/
theorem domainOf_last_eq_wording (inp : Inputs) (v : Tok)
    (hdis : v ∈ inp.iuse → v ∈ inp.forceT → v ∉ inp.forceF) :
    (domainOf inp v).getLast?.getD false = Spec.preferredOn inp v := by
  unfold domainOf Spec.preferredOn
  by_cases h1 : v ∈ inp.iuse
  · by_cases h2 : v ∈ inp.forceF
    · have h3 : v ∉ inp.forceT := fun h3 => hdis h1 h3 h2
      simp [h1, h2, h3]
    · by_cases h3 : v ∈ inp.forceT
      · simp [h1, h2, h3]
      · by_cases h4 : v ∈ inp.preferT
        · simp [h1, h2, h3, h4]
        · simp [h1, h2, h3, h4]
  · simp [h1]

theorem preferred_eq_wording (inp : Inputs) (vars : List Tok)
    (hdis : ∀ f, f ∈ inp.iuse → f ∈ inp.forceT → f ∉ inp.forceF) :
    Spec.preferred inp vars = Spec.preferredByWording inp vars := by
  unfold Spec.preferred Spec.preferredByWording
  exact List.map_congr_left fun v _ => by rw [domainOf_last_eq_wording inp v (hdis v)]

end Pkgcore.C10
