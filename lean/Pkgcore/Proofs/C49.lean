import Pkgcore.Spec.C49
/-! Helper lemmas for C49 (property theorems are in `Pkgcore/Props/C49.lean`). -/
namespace Pkgcore.C49
open Pkgcore.C49.Spec

/-- one eclass value appended to an accumulator: `[[ -n $V ]] && E_V+=${E_V:+ }$V` -/
def accStep (a x : Str) : Str := if x = [] then a else joinSp a x

def defsOf (ms : Str × Stmt) : List Str :=
  match ms.2 with
  | .func n => [n]
  | .export ps => ps
  | _ => []

theorem own_append (v : Str) (l1 l2 : List Stmt) : ∀ cur, own v (l1 ++ l2) cur = own v l2 (own v l1 cur) := by
  induction l1 with
  | nil => intro cur; rfl
  | cons s rest ih =>
    intro cur
    cases s <;> simp [own, ih]

/-- what sourcing a piece of code does to the state, in terms of the tree only -/
structure Facts (A : List Str) (st st' : St) (src : List (Str × List Stmt)) (fl : List (Str × Stmt))
    (dir : List Str) (ownf : Str → Option Str → Option Str) : Prop where
  accVar : ∀ v, v ∈ A → st'.vars v = ownf v (st.vars v)
  plainVar : ∀ v, v ∉ A → st'.vars v = own v (fl.map (·.2)) (st.vars v)
  accE : ∀ v, v ∈ A → st'.acc v = (src.map fun e => (own v e.2 none).getD []).foldl accStep (st.acc v)
  accOther : ∀ v, v ∉ A → st'.acc v = st.acc v
  inh : st'.inherited = st.inherited ++ src.map (·.1)
  fns : st'.funcs = st.funcs ++ fl.flatMap defsOf
  dirs : st'.direct = st.direct ++ dir

theorem Facts.refl (A : List Str) (st : St) : Facts A st st [] [] [] (fun _ c => c) :=
  ⟨fun _ _ => rfl, fun _ _ => rfl, fun _ _ => rfl, fun _ _ => rfl, by simp, by simp, by simp⟩

theorem Facts.trans {A : List Str} {st st1 st2 : St} {src1 src2 fl1 fl2 dir1 dir2 f1 f2}
    (h1 : Facts A st st1 src1 fl1 dir1 f1) (h2 : Facts A st1 st2 src2 fl2 dir2 f2) :
    Facts A st st2 (src1 ++ src2) (fl1 ++ fl2) (dir1 ++ dir2) (fun v c => f2 v (f1 v c)) := by
  refine ⟨?_, ?_, ?_, ?_, ?_, ?_, ?_⟩
  · intro v hv; rw [h2.accVar v hv, h1.accVar v hv]
  · intro v hv; rw [h2.plainVar v hv, h1.plainVar v hv, List.map_append, own_append]
  · intro v hv; rw [h2.accE v hv, h1.accE v hv, List.map_append, List.foldl_append]
  · intro v hv; rw [h2.accOther v hv, h1.accOther v hv]
  · rw [h2.inh, h1.inh]; simp
  · rw [h2.fns, h1.fns]; simp
  · rw [h2.dirs, h1.dirs]; simp

mutual
theorem run_facts (A : List Str) (depth : Nat) (me : Str) (body : List Stmt) (st : St) :
    Facts A st (run A depth me body st) (sourced body) (flat me body)
      (if depth = 0 then directInherits body else []) (fun v c => own v body c) := by
  match body with
  | [] =>
    rw [run, sourced, flat, directInherits]
    have := Facts.refl A st
    simpa [own] using this
  | s :: rest =>
    rw [run]
    have hrest := run_facts A depth me rest (step A depth me s st)
    match s with
    | .set w val =>
      have hs : Facts A st (step A depth me (.set w val) st) [] [(me, .set w val)] [] (fun v c => own v [.set w val] c) := by
        rw [step]
        refine ⟨?_, ?_, fun _ _ => rfl, fun _ _ => rfl, by simp, by simp [defsOf], by simp⟩
        · intro v _; simp only [setVar, own]; split <;> simp_all [eq_comm]
        · intro v _; simp only [setVar, own, List.map_cons, List.map_nil]; split <;> simp_all [eq_comm]
      have := hs.trans hrest
      simpa [sourced, flat, directInherits, own] using this
    | .append w val =>
      have hs : Facts A st (step A depth me (.append w val) st) [] [(me, .append w val)] [] (fun v c => own v [.append w val] c) := by
        rw [step]
        refine ⟨?_, ?_, fun _ _ => rfl, fun _ _ => rfl, by simp, by simp [defsOf], by simp⟩
        · intro v _; simp only [setVar, own]; split <;> simp_all [eq_comm]
        · intro v _; simp only [setVar, own, List.map_cons, List.map_nil]; split <;> simp_all [eq_comm]
      have := hs.trans hrest
      simpa [sourced, flat, directInherits, own] using this
    | .unset w =>
      have hs : Facts A st (step A depth me (.unset w) st) [] [(me, .unset w)] [] (fun v c => own v [.unset w] c) := by
        rw [step]
        refine ⟨?_, ?_, fun _ _ => rfl, fun _ _ => rfl, by simp, by simp [defsOf], by simp⟩
        · intro v _; simp only [setVar, own]; split <;> simp_all [eq_comm]
        · intro v _; simp only [setVar, own, List.map_cons, List.map_nil]; split <;> simp_all [eq_comm]
      have := hs.trans hrest
      simpa [sourced, flat, directInherits, own] using this
    | .func n =>
      have hs : Facts A st (step A depth me (.func n) st) [] [(me, .func n)] [] (fun v c => c) := by
        rw [step]
        exact ⟨fun _ _ => rfl, fun _ _ => by simp [own], fun _ _ => rfl, fun _ _ => rfl, by simp, by simp [defsOf], by simp⟩
      have := hs.trans hrest
      simpa [sourced, flat, directInherits, own] using this
    | .export p =>
      have hs : Facts A st (step A depth me (.export p) st) [] [(me, .export p)] [] (fun v c => c) := by
        rw [step]
        exact ⟨fun _ _ => rfl, fun _ _ => by simp [own], fun _ _ => rfl, fun _ _ => rfl, by simp, by simp [defsOf], by simp⟩
      have := hs.trans hrest
      simpa [sourced, flat, directInherits, own] using this
    | .inherit ecls =>
      have hs : Facts A st (step A depth me (.inherit ecls) st) (sourcedEcls ecls) (flatEcls ecls)
          (if depth = 0 then ecls.map (·.1) else []) (fun v c => c) := by
        rw [step]
        have hd : Facts A st (if depth = 0 then { st with direct := st.direct ++ ecls.map (·.1) } else st) [] []
            (if depth = 0 then ecls.map (·.1) else []) (fun v c => c) := by
          split
          · exact ⟨fun _ _ => rfl, fun _ _ => rfl, fun _ _ => rfl, fun _ _ => rfl, by simp, by simp, by simp⟩
          · exact Facts.refl A st
        have := hd.trans (inheritAll_facts A depth ecls (if depth = 0 then { st with direct := st.direct ++ ecls.map (·.1) } else st))
        simpa using this
      have := hs.trans hrest
      by_cases hd : depth = 0
      · simpa [sourced, flat, directInherits, own, hd] using this
      · simpa [sourced, flat, directInherits, own, hd] using this
termination_by (sizeOf body, 0)
decreasing_by all_goals simp_wf <;> (try apply Prod.Lex.left) <;> omega
theorem inheritAll_facts (A : List Str) (depth : Nat) (ecls : List (Str × List Stmt)) (st : St) :
    Facts A st (inheritAll A depth ecls st) (sourcedEcls ecls) (flatEcls ecls) [] (fun v c => c) := by
  match ecls with
  | [] => rw [inheritAll, sourcedEcls, flatEcls]; exact Facts.refl A st
  | (name, body) :: rest =>
    rw [inheritAll]
    have hb := run_facts A (depth + 1) name body { st with vars := fun k => if k ∈ A then none else st.vars k }
    generalize hst2 : run A (depth + 1) name body { st with vars := fun k => if k ∈ A then none else st.vars k } = st2 at hb
    have hone : Facts A st
        { st2 with
          acc := fun k => if k ∈ A ∧ (st2.vars k).getD [] ≠ [] then joinSp (st2.acc k) ((st2.vars k).getD []) else st2.acc k,
          vars := fun k => if k ∈ A then st.vars k else st2.vars k,
          inherited := st2.inherited ++ [name] }
        (sourced body ++ [(name, body)]) (flat name body) [] (fun v c => c) := by
      refine ⟨?_, ?_, ?_, ?_, ?_, ?_, ?_⟩
      · intro v hv; simp [hv]
      · intro v hv
        simp only [hv, if_false]
        have := hb.plainVar v hv
        simpa [hv] using this
      · intro v hv
        have h1 := hb.accVar v hv
        have h2 := hb.accE v hv
        simp only [hv, if_true] at h1
        simp only [hv, true_and, List.map_append, List.map_cons, List.map_nil, List.foldl_append, List.foldl_cons,
          List.foldl_nil]
        rw [h2, h1]
        simp only [accStep]
        split <;> simp_all
      · intro v hv
        simp only [hv, false_and, if_false]
        exact hb.accOther v hv
      · simp only [hb.inh]; simp
      · simp only [hb.fns]
      · have := hb.dirs
        simpa using this
    have hr := inheritAll_facts A depth rest
      { st2 with
        acc := fun k => if k ∈ A ∧ (st2.vars k).getD [] ≠ [] then joinSp (st2.acc k) ((st2.vars k).getD []) else st2.acc k,
        vars := fun k => if k ∈ A then st.vars k else st2.vars k,
        inherited := st2.inherited ++ [name] }
    have := hone.trans hr
    simpa [sourcedEcls, flatEcls] using this
termination_by (sizeOf ecls, 1)
decreasing_by all_goals simp_wf <;> (first | (apply Prod.Lex.left; omega) | (apply Prod.Lex.right; omega) | omega)
end

theorem definedFuncs_eq (tree : List Stmt) : definedFuncs tree = (flat [] tree).flatMap defsOf := by
  unfold definedFuncs
  congr 1

theorem mem_insertSorted (x y : Str) (l : List Str) : x ∈ insertSorted y l ↔ x = y ∨ x ∈ l := by
  induction l with
  | nil => simp [insertSorted]
  | cons z zs ih =>
    simp only [insertSorted]
    split
    · simp only [List.mem_cons, ih]
      constructor
      · rintro (h | h | h) <;> simp [h]
      · rintro (h | h | h) <;> simp [h]
    · simp

theorem mem_sortStrs (x : Str) (l : List Str) : x ∈ sortStrs l ↔ x ∈ l := by
  induction l with
  | nil => simp [sortStrs]
  | cons y ys ih =>
    have : sortStrs (y :: ys) = insertSorted y (sortStrs ys) := rfl
    rw [this, mem_insertSorted, ih]; simp

end Pkgcore.C49
