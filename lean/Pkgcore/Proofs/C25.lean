import Pkgcore.Spec.C25
import Pkgcore.Proofs.C28
import Pkgcore.Proofs.C24
/-! # C25 helper lemmas -/
namespace Pkgcore.C25
open Pkgcore.C24 Pkgcore.C25.Spec

/-- names survive the trip through `"./" + loc.lstrip("/")` and `abspath(join("/", name.strip("/")))`
(true of every normalised absolute location; checked on all sampled paths, assumed in the theorems) -/
def PathOK (loc : Str) : Prop := absLoc (relName loc) = loc ∧ absLink (relName loc) = loc ∧ loc ≠ ['/']

theorem relName_not_dot (loc : Str) (h : PathOK loc) : stripSlash (relName loc) ≠ ['.'] := by
  intro e
  have h1 := h.1
  unfold absLoc at h1
  rw [e] at h1
  have : normpath ['/', '.'] = ['/'] := by decide
  rw [this] at h1
  exact h.2.2 h1.symm

/-- device modes carry exactly the type bits above the permission bits -/
def DevModeOK (a : Attrs) (chr : Bool) : Prop := a.mode = (a.mode % 4096) ||| (if chr then 8192 else 24576)

/-- every entry that is not a regular file converts to a member and back unchanged, without touching the
reader's state -/
theorem member_roundtrip_aux (dev : Nat) (st : RState) (o : Obj) (hf : o.isReg = false) (hp : PathOK o.loc)
    (hd : ∀ l a c mj mn, o = .dev l a c mj mn → DevModeOK a c) :
    readMember dev st (toMember o) = some (st, some o) := by
  cases o with
  | file f => simp [Obj.isReg] at hf
  | dir l a =>
    simp only [Obj.loc] at hp
    simp [readMember, toMember, relName_not_dot l hp, hp.1]
  | sym l t a => simp only [Obj.loc] at hp; simp [readMember, toMember, hp.1]
  | fifo l a => simp only [Obj.loc] at hp; simp [readMember, toMember, hp.1]
  | dev l a c mj mn =>
    simp only [Obj.loc] at hp
    have hm := hd l a c mj mn rfl
    unfold DevModeOK at hm
    cases c
    · simp only [Bool.false_eq_true, if_false] at hm
      simp only [readMember, toMember, Bool.false_eq_true, if_false, hp.1]
      rw [← hm]
    · simp only [if_true] at hm
      simp only [readMember, toMember, if_true, hp.1]
      rw [← hm]

/-! ## dict assignment on association lists -/

theorem lookup_map_put {κ β : Type} [BEq κ] [LawfulBEq κ] [DecidableEq κ] (d : List (κ × β)) (k k' : κ) (v : β) :
    (d.map (fun p => if p.1 == k then (k, v) else p)).lookup k'
      = if k' = k then (if d.any (·.1 == k) then some v else none) else d.lookup k' := by
  induction d with
  | nil => by_cases h : k' = k <;> simp [List.lookup, h]
  | cons x xs ih =>
    obtain ⟨a, b⟩ := x
    by_cases hak : a = k
    · subst hak
      by_cases h : k' = a
      · subst h; simp [List.lookup]
      · have hb : (k' == a) = false := by simpa using h
        simp only [List.map_cons, beq_self_eq_true, if_true, List.lookup, hb, ih, if_neg h]
    · have hak' : (a == k) = false := by simpa using hak
      by_cases h : k' = a
      · subst h
        simp [List.lookup, hak', hak]
      · have hb : (k' == a) = false := by simpa using h
        simp only [List.map_cons, hak', Bool.false_eq_true, if_false, List.lookup, hb, ih, List.any_cons, Bool.false_or]

theorem lookup_append_put {κ β : Type} [BEq κ] [LawfulBEq κ] [DecidableEq κ] (d : List (κ × β)) (k k' : κ) (v : β)
    (hno : d.any (·.1 == k) = false) :
    (d ++ [(k, v)]).lookup k' = if k' = k then some v else d.lookup k' := by
  induction d with
  | nil =>
    by_cases h : k' = k
    · subst h; simp [List.lookup]
    · have hb : (k' == k) = false := by simpa using h
      simp [List.lookup, h, hb]
  | cons x xs ih =>
    obtain ⟨a, b⟩ := x
    simp only [List.any_cons, Bool.or_eq_false_iff] at hno
    have hak : a ≠ k := by simpa using hno.1
    by_cases h : k' = a
    · subst h; simp [List.lookup, hak]
    · have hb : (k' == a) = false := by simpa using h
      simp only [List.cons_append, List.lookup, hb, ih hno.2]

theorem lookup_put {κ β : Type} [BEq κ] [LawfulBEq κ] [DecidableEq κ] (d : List (κ × β)) (k k' : κ) (v : β) :
    (if d.any (·.1 == k) then d.map (fun p => if p.1 == k then (k, v) else p) else d ++ [(k, v)]).lookup k'
      = if k' = k then some v else d.lookup k' := by
  by_cases hany : d.any (·.1 == k) = true
  · rw [if_pos hany, lookup_map_put]
    by_cases h : k' = k <;> simp [h, hany]
  · have hany' : d.any (·.1 == k) = false := Bool.eq_false_iff.mpr hany
    rw [if_neg hany, lookup_append_put d k k' v hany']

theorem lookup_keyPut (d : List (Key × File)) (k k' : Key) (x : File) :
    (keyPut d k x).lookup k' = if k' = k then some x else d.lookup k' := by
  unfold keyPut; exact lookup_put d k k' x

theorem lookup_seenPut (d : List (Str × Nat × Nat)) (k k' : Str) (v : Nat × Nat) :
    (seenPut d k v).lookup k' = if k' = k then some v else d.lookup k' := by
  unfold seenPut; exact lookup_put d k k' v

/-! ## write ∘ read on the non-directory part, fused -/

def keyOf (x : File) : Key := (x.dev, x.inode)
def keySome (x : File) : Bool := x.dev.isSome && x.inode.isSome

/-- the representative table kept by the specification: key ↦ (inode given, data) -/
def repPut (d : List (Key × Nat × Nat)) (k : Key) (v : Nat × Nat) : List (Key × Nat × Nat) :=
  if d.any (·.1 == k) then d.map (fun p => if p.1 == k then (k, v) else p) else d ++ [(k, v)]

theorem lookup_repPut (d : List (Key × Nat × Nat)) (k k' : Key) (v : Nat × Nat) :
    (repPut d k v).lookup k' = if k' = k then some v else d.lookup k' := by
  unfold repPut; exact lookup_put d k k' v

/-- what reading the written members must produce: every entry as it was; a file whose (dev, inode) class
already has a stored representative gets that representative's inode and data, any other file a fresh
inode and its own data -/
def specRest (dev : Nat) : List Obj → List (Key × Nat × Nat) → Nat → Nat → List Obj
  | [], _, _, _ => []
  | .file x :: rest, reps, next, nsrc =>
    match reps.lookup (keyOf x), keySome x with
    | some (i, d), true => .file ⟨x.loc, x.a, some dev, some i, d, nsrc⟩ :: specRest dev rest reps next (nsrc + 1)
    | _, _ => .file ⟨x.loc, x.a, some dev, some next, x.data, nsrc⟩
        :: specRest dev rest (repPut reps (keyOf x) (next, x.data)) (next + 1) (nsrc + 1)
  | o :: rest, reps, next, nsrc => o :: specRest dev rest reps next nsrc

/-- the link between the writer's table, the specification's table and the reader's cache -/
structure Inv (inodes : List (Key × File)) (reps : List (Key × Nat × Nat)) (st : RState) : Prop where
  key : ∀ k e, inodes.lookup k = some e → keyOf e = k ∧ PathOK e.loc
  rep : ∀ k e, inodes.lookup k = some e → ∃ i, reps.lookup k = some (i, e.data) ∧ st.seen.lookup e.loc = some (i, e.data)
  none : ∀ k, inodes.lookup k = none → reps.lookup k = none

/-- files of one (dev, inode) class agree on owner, mode and mtime (real hard links do) -/
def ConsistentWith (inodes : List (Key × File)) (S : List Obj) : Prop :=
  (∀ x, .file x ∈ S → ∀ e, inodes.lookup (keyOf x) = some e → keySome x = true → x.a = e.a) ∧
  (∀ x y, .file x ∈ S → .file y ∈ S → keyOf x = keyOf y → keySome x = true → x.a = y.a)

theorem canLink_iff (x e : File) (hk : keyOf e = keyOf x) : canLink x e = (keySome x && (x.a == e.a)) := by
  unfold keyOf at hk
  simp only [Prod.mk.injEq] at hk
  unfold canLink keySome
  rw [hk.1, hk.2]
  cases x.inode.isSome <;> cases x.dev.isSome <;> simp

theorem rt_spec (dev : Nat) (S : List Obj) (inodes : List (Key × File)) (reps : List (Key × Nat × Nat)) (st : RState)
    (hinv : Inv inodes reps st)
    (hlocs : (S.map Obj.loc).Nodup)
    (hfresh : ∀ o ∈ S, st.seen.lookup o.loc = none)
    (hpath : ∀ o ∈ S, PathOK o.loc)
    (hdev : ∀ l a c mj mn, Obj.dev l a c mj mn ∈ S → DevModeOK a c)
    (hnodir : ∀ o ∈ S, o.isDir = false ∨ True)
    (hcons : ConsistentWith inodes S) :
    readLoop dev (addRest S inodes) st = some (specRest dev S reps st.next st.nsrc) := by
  induction S generalizing inodes reps st with
  | nil => simp [addRest, readLoop, specRest]
  | cons o rest ih =>
    simp only [List.map_cons, List.nodup_cons] at hlocs
    have hpo := hpath o (by simp)
    have hfresh' : ∀ st' : RState, (∀ p, p ≠ o.loc → st'.seen.lookup p = st.seen.lookup p) →
        ∀ q ∈ rest, st'.seen.lookup q.loc = none := by
      intro st' hst q hq
      have hne : q.loc ≠ o.loc := fun e => hlocs.1 (e ▸ List.mem_map_of_mem hq)
      rw [hst _ hne]; exact hfresh q (by simp [hq])
    have hcons' : ∀ inodes', (∀ x, .file x ∈ rest → ∀ e, inodes'.lookup (keyOf x) = some e → keySome x = true → x.a = e.a) →
        ConsistentWith inodes' rest := fun inodes' h1 =>
      ⟨h1, fun x y hx hy => hcons.2 x y (by simp [hx]) (by simp [hy])⟩
    cases o with
    | file x =>
      simp only [Obj.loc] at hpo hlocs
      have hxfresh : st.seen.lookup x.loc = none := hfresh (.file x) (by simp)
      -- the two ways a file is written
      have stored : ∀ (hnl : (match inodes.lookup (keyOf x) with | some e => canLink x e | none => false) = false),
          readLoop dev (addRest (.file x :: rest) inodes) st
            = some (.file ⟨x.loc, x.a, some dev, some st.next, x.data, st.nsrc⟩ ::
                specRest dev rest (repPut reps (keyOf x) (st.next, x.data)) (st.next + 1) (st.nsrc + 1)) := by
        intro hnl
        have hadd : addRest (.file x :: rest) inodes
            = { toMember (.file x) with data := some x.data } :: addRest rest (keyPut inodes (keyOf x) x) := by
          simp only [addRest, keyOf]
          cases hl : inodes.lookup (x.dev, x.inode) with
          | none => rfl
          | some e =>
            have : canLink x e = false := by simpa [keyOf, hl] using hnl
            simp [this]
        rw [hadd]
        simp only [readLoop, readMember, toMember, hpo.1, Option.getD_some]
        rw [ih (keyPut inodes (keyOf x) x) (repPut reps (keyOf x) (st.next, x.data))
          ⟨st.next + 1, st.nsrc + 1, seenPut st.seen x.loc (st.next, x.data)⟩]
        · rfl
        · -- invariant
          refine ⟨?_, ?_, ?_⟩
          · intro k e hl
            rw [lookup_keyPut] at hl
            split at hl
            · rename_i hk; cases hl; exact ⟨hk.symm, hpo⟩
            · exact hinv.key k e hl
          · intro k e hl
            rw [lookup_keyPut] at hl
            split at hl
            · rename_i hk; cases hl
              exact ⟨st.next, by rw [lookup_repPut, if_pos hk], by simp only; rw [lookup_seenPut, if_pos rfl]⟩
            · rename_i hk
              obtain ⟨i, h1, h2⟩ := hinv.rep k e hl
              refine ⟨i, by rw [lookup_repPut, if_neg hk]; exact h1, ?_⟩
              have hne : e.loc ≠ x.loc := by
                intro he; rw [he, hxfresh] at h2; cases h2
              simp only; rw [lookup_seenPut, if_neg hne]; exact h2
          · intro k hl
            rw [lookup_keyPut] at hl
            split at hl
            · cases hl
            · rename_i hk; rw [lookup_repPut, if_neg hk]; exact hinv.none k hl
        · exact hlocs.2
        · exact hfresh' _ (fun p hp => by simp only [Obj.loc] at hp ⊢; rw [lookup_seenPut, if_neg hp])
        · exact fun q hq => hpath q (by simp [hq])
        · exact fun l a c mj mn h => hdev l a c mj mn (by simp [h])
        · exact fun q _ => Or.inr trivial
        · apply hcons'
          intro y hy e hl hks
          rw [lookup_keyPut] at hl
          split at hl
          · rename_i hk; cases hl
            exact hcons.2 y x (by simp [hy]) (by simp) hk hks
          · exact hcons.1 y (by simp [hy]) e hl hks
      cases hl : inodes.lookup (keyOf x) with
      | none =>
        have := stored (by simp [hl])
        rw [this]
        simp only [specRest, hinv.none _ hl]
      | some e =>
        obtain ⟨hke, hpe⟩ := hinv.key _ e hl
        obtain ⟨i, hr, hs⟩ := hinv.rep _ e hl
        have hcl := canLink_iff x e hke
        cases hks : keySome x with
        | false =>
          have := stored (by simp [hl, hcl, hks])
          rw [this]
          simp only [specRest, hr, hks]
        | true =>
          have ha : x.a = e.a := hcons.1 x (by simp) e hl hks
          have hlink : canLink x e = true := by rw [hcl, hks, ha]; simp
          have hadd : addRest (.file x :: rest) inodes
              = { toMember (.file x) with typ := .lnk, linkname := relName e.loc } :: addRest rest inodes := by
            simp only [addRest]
            have : inodes.lookup (x.dev, x.inode) = some e := hl
            simp [this, hlink]
          rw [hadd]
          simp only [readLoop, readMember, toMember, hpo.1, hpe.2.1, hs]
          rw [ih inodes reps ⟨st.next, st.nsrc + 1, seenPut st.seen x.loc (i, e.data)⟩]
          · simp only [specRest, hr, hks]; rfl
          · refine ⟨hinv.key, ?_, hinv.none⟩
            intro k e' hl'
            obtain ⟨i', h1, h2⟩ := hinv.rep k e' hl'
            have hne : e'.loc ≠ x.loc := by
              intro he; rw [he, hxfresh] at h2; cases h2
            exact ⟨i', h1, by simp only; rw [lookup_seenPut, if_neg hne]; exact h2⟩
          · exact hlocs.2
          · exact hfresh' _ (fun p hp => by simp only [Obj.loc] at hp ⊢; rw [lookup_seenPut, if_neg hp])
          · exact fun q hq => hpath q (by simp [hq])
          · exact fun l a c mj mn h => hdev l a c mj mn (by simp [h])
          · exact fun q _ => Or.inr trivial
          · exact hcons' inodes (fun y hy => hcons.1 y (by simp [hy]))
    | dir l a =>
      have hm := member_roundtrip_aux dev st (.dir l a) rfl hpo (fun _ _ _ _ _ h => by cases h)
      simp only [addRest, readLoop, hm, specRest]
      rw [ih inodes reps st hinv hlocs.2 (fun q hq => hfresh q (by simp [hq])) (fun q hq => hpath q (by simp [hq]))
        (fun l a c mj mn h => hdev l a c mj mn (by simp [h])) (fun q _ => Or.inr trivial)
        (hcons' inodes (fun y hy => hcons.1 y (by simp [hy])))]
      rfl
    | sym l t a =>
      have hm := member_roundtrip_aux dev st (.sym l t a) rfl hpo (fun _ _ _ _ _ h => by cases h)
      simp only [addRest, readLoop, hm, specRest]
      rw [ih inodes reps st hinv hlocs.2 (fun q hq => hfresh q (by simp [hq])) (fun q hq => hpath q (by simp [hq]))
        (fun l a c mj mn h => hdev l a c mj mn (by simp [h])) (fun q _ => Or.inr trivial)
        (hcons' inodes (fun y hy => hcons.1 y (by simp [hy])))]
      rfl
    | fifo l a =>
      have hm := member_roundtrip_aux dev st (.fifo l a) rfl hpo (fun _ _ _ _ _ h => by cases h)
      simp only [addRest, readLoop, hm, specRest]
      rw [ih inodes reps st hinv hlocs.2 (fun q hq => hfresh q (by simp [hq])) (fun q hq => hpath q (by simp [hq]))
        (fun l a c mj mn h => hdev l a c mj mn (by simp [h])) (fun q _ => Or.inr trivial)
        (hcons' inodes (fun y hy => hcons.1 y (by simp [hy])))]
      rfl
    | dev l a c mj mn =>
      have hm := member_roundtrip_aux dev st (.dev l a c mj mn) rfl hpo
        (fun l' a' c' mj' mn' h => by cases h; exact hdev l a c mj mn (by simp))
      simp only [addRest, readLoop, hm, specRest]
      rw [ih inodes reps st hinv hlocs.2 (fun q hq => hfresh q (by simp [hq])) (fun q hq => hpath q (by simp [hq]))
        (fun l a c mj mn h => hdev l a c mj mn (by simp [h])) (fun q _ => Or.inr trivial)
        (hcons' inodes (fun y hy => hcons.1 y (by simp [hy])))]
      rfl

/-! ## what the specification list says -/

theorem keySome_of_key (x y : File) (h : keyOf x = keyOf y) : keySome x = keySome y := by
  unfold keyOf at h
  simp only [Prod.mk.injEq] at h
  unfold keySome
  rw [h.1, h.2]

theorem specRest_obs (dev : Nat) (S : List Obj) (reps : List (Key × Nat × Nat)) (next nsrc : Nat)
    (hrep : ∀ x, .file x ∈ S → ∀ i d, reps.lookup (keyOf x) = some (i, d) → keySome x = true → d = x.data)
    (hdata : ∀ x y, .file x ∈ S → .file y ∈ S → keyOf x = keyOf y → keySome x = true → x.data = y.data) :
    (specRest dev S reps next nsrc).map obs = S.map obs := by
  induction S generalizing reps next nsrc with
  | nil => rfl
  | cons o rest ih =>
    have hdata' : ∀ x y, .file x ∈ rest → .file y ∈ rest → keyOf x = keyOf y → keySome x = true → x.data = y.data :=
      fun x y hx hy => hdata x y (by simp [hx]) (by simp [hy])
    cases o with
    | file x =>
      have stored : (Obj.file ⟨x.loc, x.a, some dev, some next, x.data, nsrc⟩
          :: specRest dev rest (repPut reps (keyOf x) (next, x.data)) (next + 1) (nsrc + 1)).map obs
          = (Obj.file x :: rest).map obs := by
        simp only [List.map_cons]
        rw [ih _ _ _ (by
          intro y hy i d hl hks
          rw [lookup_repPut] at hl
          split at hl
          · rename_i hk; cases hl
            exact hdata x y (by simp) (by simp [hy]) hk.symm (by rw [keySome_of_key x y hk.symm]; exact hks)
          · exact hrep y (by simp [hy]) i d hl hks) hdata']
        rfl
      simp only [specRest]
      split
      · rename_i i d hl hks
        have hd : d = x.data := hrep x (by simp) i d hl hks
        subst hd
        simp only [List.map_cons]
        rw [ih _ _ _ (fun y hy => hrep y (by simp [hy])) hdata']
        rfl
      · exact stored
    | dir l a => simp only [specRest, List.map_cons]; rw [ih _ _ _ (fun y hy => hrep y (by simp [hy])) hdata']
    | sym l t a => simp only [specRest, List.map_cons]; rw [ih _ _ _ (fun y hy => hrep y (by simp [hy])) hdata']
    | fifo l a => simp only [specRest, List.map_cons]; rw [ih _ _ _ (fun y hy => hrep y (by simp [hy])) hdata']
    | dev l a c mj mn => simp only [specRest, List.map_cons]; rw [ih _ _ _ (fun y hy => hrep y (by simp [hy])) hdata']

/-- inode of the entry read back at `loc` -/
def inoAt (R : List Obj) (loc : Str) : Option Nat := (R.find? (·.loc == loc)).bind inodeOf

theorem specRest_locs (dev : Nat) (S : List Obj) (reps : List (Key × Nat × Nat)) (next nsrc : Nat) :
    (specRest dev S reps next nsrc).map Obj.loc = S.map Obj.loc := by
  induction S generalizing reps next nsrc with
  | nil => rfl
  | cons o rest ih =>
    cases o with
    | file x => simp only [specRest]; split <;> simp [Obj.loc, ih]
    | dir l a => simp [specRest, Obj.loc, ih]
    | sym l t a => simp [specRest, Obj.loc, ih]
    | fifo l a => simp [specRest, Obj.loc, ih]
    | dev l a c mj mn => simp [specRest, Obj.loc, ih]

theorem inoAt_cons_ne (o : Obj) (R : List Obj) (loc : Str) (h : o.loc ≠ loc) : inoAt (o :: R) loc = inoAt R loc := by
  have : (o.loc == loc) = false := by simpa using h
  simp [inoAt, List.find?, this]

theorem inoAt_cons_eq (o : Obj) (R : List Obj) : inoAt (o :: R) o.loc = inodeOf o := by
  simp [inoAt, List.find?]

/-- once a class has a representative, every later file of the class gets its inode -/
theorem specRest_hit (dev : Nat) (S : List Obj) (reps : List (Key × Nat × Nat)) (next nsrc : Nat) (k : Key) (i d : Nat)
    (hl : reps.lookup k = some (i, d)) (hlocs : (S.map Obj.loc).Nodup)
    (y : File) (hy : .file y ∈ S) (hk : keyOf y = k) (hks : keySome y = true) :
    inoAt (specRest dev S reps next nsrc) y.loc = some i := by
  induction S generalizing reps next nsrc with
  | nil => simp at hy
  | cons o rest ih =>
    simp only [List.map_cons, List.nodup_cons] at hlocs
    simp only [List.mem_cons] at hy
    have hyne : Obj.file y ∈ rest → o.loc ≠ y.loc := fun hyr e =>
      hlocs.1 (by rw [e]; exact List.mem_map_of_mem (f := Obj.loc) hyr)
    cases o with
    | file z =>
      simp only [specRest]
      by_cases hzk : keyOf z = k
      · have hzs : keySome z = true := by rw [keySome_of_key z y (hzk.trans hk.symm)]; exact hks
        rw [hzk, hl, hzs]
        simp only
        rcases hy with hy | hy
        · cases hy
          simp [inoAt, Obj.loc, inodeOf]
        · rw [inoAt_cons_ne _ _ _ (by exact hyne hy)]
          exact ih reps next (nsrc + 1) hl hlocs.2 hy
      · have hyr : Obj.file y ∈ rest := by
          rcases hy with hy | hy
          · cases hy; exact absurd hk hzk
          · exact hy
        have hne : ¬ (k = keyOf z) := fun e => hzk e.symm
        split
        · rw [inoAt_cons_ne _ _ _ (by exact hyne hyr)]; exact ih reps next (nsrc + 1) hl hlocs.2 hyr
        · rw [inoAt_cons_ne _ _ _ (by exact hyne hyr)]
          exact ih _ _ _ (by rw [lookup_repPut, if_neg hne]; exact hl) hlocs.2 hyr
    | dir l a =>
      have hyr : Obj.file y ∈ rest := by rcases hy with hy | hy; · cases hy
                                         · exact hy
      simp only [specRest]; rw [inoAt_cons_ne _ _ _ (by exact hyne hyr)]; exact ih reps next nsrc hl hlocs.2 hyr
    | sym l t a =>
      have hyr : Obj.file y ∈ rest := by rcases hy with hy | hy; · cases hy
                                         · exact hy
      simp only [specRest]; rw [inoAt_cons_ne _ _ _ (by exact hyne hyr)]; exact ih reps next nsrc hl hlocs.2 hyr
    | fifo l a =>
      have hyr : Obj.file y ∈ rest := by rcases hy with hy | hy; · cases hy
                                         · exact hy
      simp only [specRest]; rw [inoAt_cons_ne _ _ _ (by exact hyne hyr)]; exact ih reps next nsrc hl hlocs.2 hyr
    | dev l a c mj mn =>
      have hyr : Obj.file y ∈ rest := by rcases hy with hy | hy; · cases hy
                                         · exact hy
      simp only [specRest]; rw [inoAt_cons_ne _ _ _ (by exact hyne hyr)]; exact ih reps next nsrc hl hlocs.2 hyr

/-- files of one hard-link class come back with one inode -/
theorem specRest_share (dev : Nat) (S : List Obj) (reps : List (Key × Nat × Nat)) (next nsrc : Nat)
    (hlocs : (S.map Obj.loc).Nodup) (x y : File) (hx : .file x ∈ S) (hy : .file y ∈ S)
    (hk : keyOf x = keyOf y) (hks : keySome x = true) :
    inoAt (specRest dev S reps next nsrc) x.loc = inoAt (specRest dev S reps next nsrc) y.loc ∧
    (inoAt (specRest dev S reps next nsrc) x.loc).isSome = true := by
  have hksy : keySome y = true := by rw [← keySome_of_key x y hk]; exact hks
  induction S generalizing reps next nsrc with
  | nil => simp at hx
  | cons o rest ih =>
    have hlocs' := hlocs
    simp only [List.map_cons, List.nodup_cons] at hlocs
    -- the head is one of the two files: it fixes the class representative for the tail
    have headcase : ∀ (z w : File), o = .file z → .file w ∈ (.file z :: rest) → keyOf z = keyOf w → keySome z = true →
        keySome w = true →
        inoAt (specRest dev (.file z :: rest) reps next nsrc) w.loc = inoAt (specRest dev (.file z :: rest) reps next nsrc) z.loc ∧
        (inoAt (specRest dev (.file z :: rest) reps next nsrc) z.loc).isSome = true := by
      intro z w ho hw hkzw hzs hws
      subst ho
      simp only [List.mem_cons] at hw
      simp only [specRest, hzs]
      have hwne : Obj.file w ∈ rest → z.loc ≠ w.loc := fun hw e =>
        hlocs.1 (by simp only [Obj.loc]; rw [e]; exact List.mem_map_of_mem (f := Obj.loc) hw)
      cases hl : reps.lookup (keyOf z) with
      | some v =>
        obtain ⟨i, d⟩ := v
        simp only
        have hz : inoAt (Obj.file ⟨z.loc, z.a, some dev, some i, d, nsrc⟩ :: specRest dev rest reps next (nsrc + 1)) z.loc = some i := by
          simp [inoAt, Obj.loc, inodeOf]
        rcases hw with hw | hw
        · cases hw; exact ⟨rfl, by rw [hz]; rfl⟩
        · rw [inoAt_cons_ne _ _ _ (by exact hwne hw), hz,
            specRest_hit dev rest reps next (nsrc + 1) (keyOf z) i d hl hlocs.2 w hw hkzw.symm hws]
          exact ⟨rfl, rfl⟩
      | none =>
        simp only
        have hz : inoAt (Obj.file ⟨z.loc, z.a, some dev, some next, z.data, nsrc⟩
            :: specRest dev rest (repPut reps (keyOf z) (next, z.data)) (next + 1) (nsrc + 1)) z.loc = some next := by
          simp [inoAt, Obj.loc, inodeOf]
        rcases hw with hw | hw
        · cases hw; exact ⟨rfl, by rw [hz]; rfl⟩
        · rw [inoAt_cons_ne _ _ _ (by exact hwne hw), hz,
            specRest_hit dev rest _ (next + 1) (nsrc + 1) (keyOf z) next z.data (by rw [lookup_repPut, if_pos rfl]) hlocs.2 w hw hkzw.symm hws]
          exact ⟨rfl, rfl⟩
    simp only [List.mem_cons] at hx hy
    rcases hx with hx | hx
    · subst hx
      have := headcase x y rfl (by simpa using hy) hk hks hksy
      exact ⟨this.1.symm, this.2⟩
    · rcases hy with hy | hy
      · subst hy
        have := headcase y x rfl (by simp [hx]) hk.symm hksy hks
        exact ⟨this.1, by rw [this.1]; exact this.2⟩
      · -- both in the tail: the head only changes the state
        have hnx : o.loc ≠ x.loc := fun e => hlocs.1 (by rw [e]; exact List.mem_map_of_mem (f := Obj.loc) hx)
        have hny : o.loc ≠ y.loc := fun e => hlocs.1 (by rw [e]; exact List.mem_map_of_mem (f := Obj.loc) hy)
        cases o with
        | file z =>
          simp only [specRest]
          simp only [Obj.loc] at hnx hny
          split
          · rw [inoAt_cons_ne _ _ _ (by exact hnx), inoAt_cons_ne _ _ _ (by exact hny)]
            exact ih _ _ _ hlocs.2 hx hy
          · rw [inoAt_cons_ne _ _ _ (by exact hnx), inoAt_cons_ne _ _ _ (by exact hny)]
            exact ih _ _ _ hlocs.2 hx hy
        | dir l a => simp only [specRest]; rw [inoAt_cons_ne _ _ _ hnx, inoAt_cons_ne _ _ _ hny]; exact ih _ _ _ hlocs.2 hx hy
        | sym l t a => simp only [specRest]; rw [inoAt_cons_ne _ _ _ hnx, inoAt_cons_ne _ _ _ hny]; exact ih _ _ _ hlocs.2 hx hy
        | fifo l a => simp only [specRest]; rw [inoAt_cons_ne _ _ _ hnx, inoAt_cons_ne _ _ _ hny]; exact ih _ _ _ hlocs.2 hx hy
        | dev l a c mj mn => simp only [specRest]; rw [inoAt_cons_ne _ _ _ hnx, inoAt_cons_ne _ _ _ hny]; exact ih _ _ _ hlocs.2 hx hy

/-! ## the converse: files of different classes never share an inode -/

/-- bookkeeping of the representative table: every stored inode is below the counter and distinct keys hold
distinct inodes -/
structure RepsOK (reps : List (Key × Nat × Nat)) (next : Nat) : Prop where
  lt : ∀ k i d, reps.lookup k = some (i, d) → i < next
  inj : ∀ k k' i d d', reps.lookup k = some (i, d) → reps.lookup k' = some (i, d') → k = k'

theorem repsOK_put (reps : List (Key × Nat × Nat)) (next : Nat) (k : Key) (d : Nat) (h : RepsOK reps next) :
    RepsOK (repPut reps k (next, d)) (next + 1) := by
  refine ⟨?_, ?_⟩
  · intro k' i d' hl
    rw [lookup_repPut] at hl
    split at hl
    · cases hl; exact Nat.lt_succ_self _
    · exact Nat.lt_succ_of_lt (h.lt k' i d' hl)
  · intro k1 k2 i d1 d2 h1 h2
    rw [lookup_repPut] at h1 h2
    split at h1 <;> split at h2
    · rename_i e1 e2; rw [e1, e2]
    · cases h1; exact absurd (h.lt _ _ _ h2) (Nat.lt_irrefl _)
    · cases h2; exact absurd (h.lt _ _ _ h1) (Nat.lt_irrefl _)
    · exact h.inj _ _ _ _ _ h1 h2

/-- where the inode of a file of the list comes from: the table (through the file's own key) or the counter -/
theorem specRest_ino_src (dev : Nat) (S : List Obj) (reps : List (Key × Nat × Nat)) (next nsrc : Nat)
    (hlocs : (S.map Obj.loc).Nodup) (y : File) (hy : .file y ∈ S) :
    ∃ i, inoAt (specRest dev S reps next nsrc) y.loc = some i ∧
      ((keySome y = true ∧ ∃ d, reps.lookup (keyOf y) = some (i, d)) ∨ next ≤ i) := by
  induction S generalizing reps next nsrc with
  | nil => simp at hy
  | cons o rest ih =>
    simp only [List.map_cons, List.nodup_cons] at hlocs
    simp only [List.mem_cons] at hy
    have hyne : Obj.file y ∈ rest → o.loc ≠ y.loc := fun hyr e =>
      hlocs.1 (by rw [e]; exact List.mem_map_of_mem (f := Obj.loc) hyr)
    have tail : ∀ (hne : o ≠ .file y), Obj.file y ∈ rest := fun hne => by
      rcases hy with hy | hy
      · exact absurd hy.symm hne
      · exact hy
    cases o with
    | file z =>
      simp only [specRest]
      split
      · rename_i i d hl hks
        rcases hy with hy | hy
        · cases hy
          exact ⟨i, by simp [inoAt, Obj.loc, inodeOf], Or.inl ⟨hks, d, hl⟩⟩
        · rw [inoAt_cons_ne _ _ _ (by exact hyne hy)]
          exact ih reps next (nsrc + 1) hlocs.2 hy
      · rcases hy with hy | hy
        · cases hy
          exact ⟨next, by simp [inoAt, Obj.loc, inodeOf], Or.inr (Nat.le_refl _)⟩
        · rw [inoAt_cons_ne _ _ _ (by exact hyne hy)]
          obtain ⟨i, hi, hsrc⟩ := ih (repPut reps (keyOf z) (next, z.data)) (next + 1) (nsrc + 1) hlocs.2 hy
          refine ⟨i, hi, ?_⟩
          rcases hsrc with ⟨hks, d, hl⟩ | hge
          · rw [lookup_repPut] at hl
            split at hl
            · cases hl; exact Or.inr (Nat.le_refl _)
            · exact Or.inl ⟨hks, d, hl⟩
          · exact Or.inr (Nat.le_of_succ_le hge)
    | dir l a =>
      have hyr := tail (by intro e; cases e)
      simp only [specRest]; rw [inoAt_cons_ne _ _ _ (by exact hyne hyr)]; exact ih reps next nsrc hlocs.2 hyr
    | sym l t a =>
      have hyr := tail (by intro e; cases e)
      simp only [specRest]; rw [inoAt_cons_ne _ _ _ (by exact hyne hyr)]; exact ih reps next nsrc hlocs.2 hyr
    | fifo l a =>
      have hyr := tail (by intro e; cases e)
      simp only [specRest]; rw [inoAt_cons_ne _ _ _ (by exact hyne hyr)]; exact ih reps next nsrc hlocs.2 hyr
    | dev l a c mj mn =>
      have hyr := tail (by intro e; cases e)
      simp only [specRest]; rw [inoAt_cons_ne _ _ _ (by exact hyne hyr)]; exact ih reps next nsrc hlocs.2 hyr

/-- two different names that come back with one inode were of one (dev, inode) class -/
theorem specRest_share_conv (dev : Nat) (S : List Obj) (reps : List (Key × Nat × Nat)) (next nsrc : Nat)
    (hok : RepsOK reps next) (hlocs : (S.map Obj.loc).Nodup) (x y : File) (hx : .file x ∈ S) (hy : .file y ∈ S)
    (hne : x.loc ≠ y.loc)
    (h : inoAt (specRest dev S reps next nsrc) x.loc = inoAt (specRest dev S reps next nsrc) y.loc) :
    keyOf x = keyOf y ∧ keySome x = true := by
  induction S generalizing reps next nsrc with
  | nil => simp at hx
  | cons o rest ih =>
    have hlocs' := hlocs
    simp only [List.map_cons, List.nodup_cons] at hlocs
    -- the head is one of the two names
    have headcase : ∀ (z w : File), o = .file z → .file w ∈ rest →
        inoAt (specRest dev (.file z :: rest) reps next nsrc) z.loc
          = inoAt (specRest dev (.file z :: rest) reps next nsrc) w.loc →
        keyOf z = keyOf w ∧ keySome z = true ∧ keySome w = true := by
      intro z w ho hw hzw
      subst ho
      have hwne : z.loc ≠ w.loc := fun e =>
        hlocs.1 (by simp only [Obj.loc]; rw [e]; exact List.mem_map_of_mem (f := Obj.loc) hw)
      simp only [specRest] at hzw
      split at hzw
      · rename_i i d hl hks
        have hz : inoAt (Obj.file ⟨z.loc, z.a, some dev, some i, d, nsrc⟩ :: specRest dev rest reps next (nsrc + 1)) z.loc = some i := by
          simp [inoAt, Obj.loc, inodeOf]
        rw [hz, inoAt_cons_ne _ _ w.loc (by exact hwne)] at hzw
        obtain ⟨i', hi', hsrc⟩ := specRest_ino_src dev rest reps next (nsrc + 1) hlocs.2 w hw
        rw [hi'] at hzw
        cases hzw
        rcases hsrc with ⟨hkw, d', hl'⟩ | hge
        · exact ⟨hok.inj _ _ _ _ _ hl hl', hks, hkw⟩
        · exact absurd (hok.lt _ _ _ hl) (Nat.not_lt.mpr hge)
      · have hz : inoAt (Obj.file ⟨z.loc, z.a, some dev, some next, z.data, nsrc⟩
            :: specRest dev rest (repPut reps (keyOf z) (next, z.data)) (next + 1) (nsrc + 1)) z.loc = some next := by
          simp [inoAt, Obj.loc, inodeOf]
        rw [hz, inoAt_cons_ne _ _ w.loc (by exact hwne)] at hzw
        obtain ⟨i', hi', hsrc⟩ := specRest_ino_src dev rest (repPut reps (keyOf z) (next, z.data)) (next + 1) (nsrc + 1) hlocs.2 w hw
        rw [hi'] at hzw
        cases hzw
        rcases hsrc with ⟨hkw, d', hl'⟩ | hge
        · rw [lookup_repPut] at hl'
          split at hl'
          · rename_i hk
            exact ⟨hk.symm, by rw [keySome_of_key z w hk.symm]; exact hkw, hkw⟩
          · exact absurd (hok.lt _ _ _ hl') (Nat.lt_irrefl _)
        · exact absurd hge (Nat.not_succ_le_self _)
    simp only [List.mem_cons] at hx hy
    rcases hx with hx | hx
    · rcases hy with hy | hy
      · rw [← hx] at hy; cases hy; exact absurd rfl hne
      · subst hx
        have := headcase x y rfl hy h
        exact ⟨this.1, this.2.1⟩
    · rcases hy with hy | hy
      · subst hy
        have := headcase y x rfl hx h.symm
        exact ⟨this.1.symm, this.2.2⟩
      · have hnx : o.loc ≠ x.loc := fun e => hlocs.1 (by rw [e]; exact List.mem_map_of_mem (f := Obj.loc) hx)
        have hny : o.loc ≠ y.loc := fun e => hlocs.1 (by rw [e]; exact List.mem_map_of_mem (f := Obj.loc) hy)
        cases o with
        | file z =>
          simp only [specRest] at h
          simp only [Obj.loc] at hnx hny
          split at h
          · rw [inoAt_cons_ne _ _ _ (by exact hnx), inoAt_cons_ne _ _ _ (by exact hny)] at h
            exact ih _ _ _ hok hlocs.2 hx hy h
          · rw [inoAt_cons_ne _ _ _ (by exact hnx), inoAt_cons_ne _ _ _ (by exact hny)] at h
            exact ih _ _ _ (repsOK_put reps next (keyOf z) z.data hok) hlocs.2 hx hy h
        | dir l a =>
          simp only [specRest] at h; rw [inoAt_cons_ne _ _ _ hnx, inoAt_cons_ne _ _ _ hny] at h
          exact ih _ _ _ hok hlocs.2 hx hy h
        | sym l t a =>
          simp only [specRest] at h; rw [inoAt_cons_ne _ _ _ hnx, inoAt_cons_ne _ _ _ hny] at h
          exact ih _ _ _ hok hlocs.2 hx hy h
        | fifo l a =>
          simp only [specRest] at h; rw [inoAt_cons_ne _ _ _ hnx, inoAt_cons_ne _ _ _ hny] at h
          exact ih _ _ _ hok hlocs.2 hx hy h
        | dev l a c mj mn =>
          simp only [specRest] at h; rw [inoAt_cons_ne _ _ _ hnx, inoAt_cons_ne _ _ _ hny] at h
          exact ih _ _ _ hok hlocs.2 hx hy h

/-! ## the directory prefix -/

theorem readLoop_prefix (dev : Nat) (ds : List Obj) (ms : List Member) (st : RState)
    (hnf : ∀ o ∈ ds, o.isReg = false) (hp : ∀ o ∈ ds, PathOK o.loc)
    (hd : ∀ l a c mj mn, Obj.dev l a c mj mn ∈ ds → DevModeOK a c) :
    readLoop dev (ds.map toMember ++ ms) st = (readLoop dev ms st).map (ds ++ ·) := by
  induction ds with
  | nil => simp
  | cons o rest ih =>
    have hm := member_roundtrip_aux dev st o (hnf o (by simp)) (hp o (by simp))
      (fun l a c mj mn h => hd l a c mj mn (by simp [h]))
    simp only [List.map_cons, List.cons_append, readLoop, hm]
    rw [ih (fun q hq => hnf q (by simp [hq])) (fun q hq => hp q (by simp [hq])) (fun l a c mj mn h => hd l a c mj mn (by simp [h]))]
    cases readLoop dev ms st <;> simp

/-! ## `convert_archive` when nothing lies below a symlink -/

theorem setAdd_fresh (d : List Obj) (o : Obj) (h : o.loc ∉ d.map Obj.loc) : setAdd d o = d ++ [o] := by
  have : d.any (·.loc == o.loc) = false := by
    rw [List.any_eq_false]
    intro x hx hk
    exact h (by rw [← (by simpa using hk : x.loc = o.loc)]; exact List.mem_map_of_mem hx)
  simp [setAdd, this]

theorem setUpdate_fresh (d l : List Obj) (h : ((d ++ l).map Obj.loc).Nodup) : setUpdate d l = d ++ l := by
  unfold setUpdate
  induction l generalizing d with
  | nil => simp
  | cons p r ih =>
    have hp : p.loc ∉ d.map Obj.loc := by
      simp only [List.map_append, List.map_cons] at h
      have := (List.nodup_append.mp h).2.2
      intro hm
      exact this _ hm _ (by simp) rfl
    simp only [List.foldl_cons, setAdd_fresh d p hp]
    rw [ih (d ++ [p]) (by simpa using h)]
    simp

theorem setOf_nodup (l : List Obj) (h : (l.map Obj.loc).Nodup) : setOf l = l := by
  have := setUpdate_fresh [] l (by simpa using h)
  simpa [setOf, setUpdate] using this

theorem childNodes_nil_of_perm (a b : List Obj) (hp : a.Perm b) (start : Str) (h : childNodes b start = []) :
    childNodes a start = [] := by
  unfold childNodes at h ⊢
  rw [List.filter_eq_nil_iff] at h ⊢
  exact fun x hx => h x (hp.mem_iff.mp hx)

theorem childNodes_nil_of_subset (a b : List Obj) (hs : ∀ x ∈ a, x ∈ b) (start : Str) (h : childNodes b start = []) :
    childNodes a start = [] := by
  unfold childNodes at h ⊢
  rw [List.filter_eq_nil_iff] at h ⊢
  exact fun x hx => h x (hs x hx)

theorem symLoop_stable (fuel : Nat) (syms : List Obj) (h : ∀ x ∈ syms, childNodes syms x.loc = []) :
    symLoop (fuel + 1) syms = some syms := by
  unfold symLoop
  have : (C28.sortBy Obj.loc syms).find? (fun x => !(childNodes syms x.loc).isEmpty) = none := by
    apply List.find?_eq_none.mpr
    intro x hx
    have := h x ((C28.sortBy_perm Obj.loc syms).mem_iff.mp hx)
    simp [this]
  simp only [this]

theorem relocate_stable (xs t adds : List Obj) (h : ∀ x ∈ xs, childNodes t x.loc = []) :
    relocate xs t adds = (t, adds) := by
  induction xs with
  | nil => rfl
  | cons x r ih =>
    simp only [relocate, h x (by simp), List.isEmpty_nil, if_true]
    exact ih (fun y hy => h y (by simp [hy]))

theorem relocatePasses_stable (n : Nat) (xs t : List Obj) (h : ∀ x ∈ xs, childNodes t x.loc = []) :
    relocatePasses (n + 1) xs t = t := by
  simp [relocatePasses, relocate_stable xs t [] h]

theorem insertByNat_perm (key : Obj → Nat) (e : Obj) (l : List Obj) : (insertByNat key e l).Perm (e :: l) := by
  induction l with
  | nil => exact List.Perm.refl _
  | cons x xs ih =>
    unfold insertByNat
    split
    · exact List.Perm.refl _
    · exact ((List.Perm.cons x ih).trans (List.Perm.swap e x xs))

theorem sortByNat_perm (key : Obj → Nat) (l : List Obj) : (sortByNat key l).Perm l := by
  induction l with
  | nil => exact List.Perm.refl _
  | cons e r ih =>
    show (insertByNat key e (sortByNat key r)).Perm (e :: r)
    exact (insertByNat_perm key e _).trans (List.Perm.cons e ih)

/-- the three groups of the final ordering partition the set -/
theorem partition_perm (t : List Obj) :
    (t.filter Obj.isDir ++ t.filter (fun o => !o.isDir && !o.isReg) ++ t.filter Obj.isReg).Perm t := by
  induction t with
  | nil => exact List.Perm.refl _
  | cons o r ih =>
    cases o with
    | file f =>
      simp only [List.filter_cons, Obj.isDir, Obj.isReg, Bool.false_eq_true, if_false, Bool.not_false, Bool.not_true,
        Bool.and_false, if_true]
      exact (List.perm_middle.trans (List.Perm.cons _ ih))
    | dir l a =>
      simp only [List.filter_cons, Obj.isDir, Obj.isReg, if_true, Bool.not_true, Bool.false_and, Bool.false_eq_true, if_false,
        List.cons_append]
      exact List.Perm.cons _ ih
    | sym l t' a =>
      simp only [List.filter_cons, Obj.isDir, Obj.isReg, Bool.false_eq_true, if_false, Bool.not_false, Bool.and_self, if_true]
      refine List.Perm.trans ?_ (List.Perm.cons _ ih)
      rw [List.append_assoc, List.append_assoc]
      exact List.perm_middle
    | fifo l a =>
      simp only [List.filter_cons, Obj.isDir, Obj.isReg, Bool.false_eq_true, if_false, Bool.not_false, Bool.and_self, if_true]
      refine List.Perm.trans ?_ (List.Perm.cons _ ih)
      rw [List.append_assoc, List.append_assoc]
      exact List.perm_middle
    | dev l a c mj mn =>
      simp only [List.filter_cons, Obj.isDir, Obj.isReg, Bool.false_eq_true, if_false, Bool.not_false, Bool.and_self, if_true]
      refine List.Perm.trans ?_ (List.Perm.cons _ ih)
      rw [List.append_assoc, List.append_assoc]
      exact List.perm_middle


/-! ## relocation below symlinked directories (`convert_archive`) -/

/-- members with one location are one member -/
def LocInj (l : List Obj) : Prop := ∀ a ∈ l, ∀ b ∈ l, a.loc = b.loc → a = b

theorem LocInj.mono {a b : List Obj} (h : LocInj b) (hs : ∀ x ∈ a, x ∈ b) : LocInj a :=
  fun x hx y hy e => h x (hs x hx) y (hs y hy) e

theorem withLoc_loc (e : Obj) (l : Str) : (withLoc e l).loc = l := by cases e <;> rfl
theorem withLoc_self (e : Obj) : withLoc e e.loc = e := by cases e <;> rfl
theorem withLoc_withLoc (e : Obj) (a b : Str) : withLoc (withLoc e a) b = withLoc e b := by cases e <;> rfl
theorem withLoc_isSym (e : Obj) (l : Str) : (withLoc e l).isSym = e.isSym := by cases e <;> rfl
theorem withLoc_isDir (e : Obj) (l : Str) : (withLoc e l).isDir = e.isDir := by cases e <;> rfl
theorem withLoc_isReg (e : Obj) (l : Str) : (withLoc e l).isReg = e.isReg := by cases e <;> rfl

/-- adding an entry whose location is either new or already held by the same entry -/
theorem setAdd_spec (d : List Obj) (o : Obj) (hd : (d.map Obj.loc).Nodup) (h : ∀ x ∈ d, x.loc = o.loc → x = o) :
    ((setAdd d o).map Obj.loc).Nodup ∧ ∀ y, y ∈ setAdd d o ↔ y ∈ d ∨ y = o := by
  unfold setAdd
  by_cases hany : d.any (·.loc == o.loc) = true
  · rw [if_pos hany]
    have hid : d.map (fun x => if (x.loc == o.loc) = true then o else x) = d := by
      conv => rhs; rw [← List.map_id d]
      apply List.map_congr_left
      intro x hx
      by_cases hl : x.loc = o.loc
      · simp [hl, (h x hx hl)]
      · have : (x.loc == o.loc) = false := by simpa using hl
        simp [this]
    rw [hid]
    refine ⟨hd, fun y => ⟨Or.inl, fun hy => ?_⟩⟩
    rcases hy with hy | hy
    · exact hy
    · obtain ⟨x, hx, hk⟩ := List.any_eq_true.mp hany
      have hxo := h x hx (by simpa using hk)
      rw [hy, ← hxo]; exact hx
  · rw [if_neg hany]
    have hno : o.loc ∉ d.map Obj.loc := by
      intro hm
      obtain ⟨x, hx, hl⟩ := List.mem_map.mp hm
      exact hany (List.any_eq_true.mpr ⟨x, hx, by simp [hl]⟩)
    refine ⟨?_, fun y => by simp⟩
    rw [List.map_append, List.nodup_append]
    refine ⟨hd, by simp, ?_⟩
    intro a ha b hb
    simp only [List.map_cons, List.map_nil, List.mem_singleton] at hb
    intro e; rw [e, hb] at ha; exact hno ha

theorem setUpdate_spec (d l : List Obj) (hd : (d.map Obj.loc).Nodup) (h : LocInj (d ++ l)) :
    ((setUpdate d l).map Obj.loc).Nodup ∧ ∀ y, y ∈ setUpdate d l ↔ y ∈ d ∨ y ∈ l := by
  induction l generalizing d with
  | nil => exact ⟨hd, fun y => by simp [setUpdate]⟩
  | cons p r ih =>
    have hp := setAdd_spec d p hd (fun x hx e => h x (by simp [hx]) p (by simp) e)
    have hstep : setUpdate d (p :: r) = setUpdate (setAdd d p) r := rfl
    rw [hstep]
    have hinj : LocInj (setAdd d p ++ r) := by
      apply h.mono
      intro x hx
      rcases List.mem_append.mp hx with hx | hx
      · rcases (hp.2 x).mp hx with hx | hx
        · simp [hx]
        · simp [hx]
      · simp [hx]
    obtain ⟨h1, h2⟩ := ih (setAdd d p) hp.1 hinj
    refine ⟨h1, fun y => ?_⟩
    rw [h2 y, hp.2 y]
    simp only [List.mem_cons]
    constructor
    · rintro ((h | h) | h)
      · exact Or.inl h
      · exact Or.inr (Or.inl h)
      · exact Or.inr (Or.inr h)
    · rintro (h | h | h)
      · exact Or.inl (Or.inl h)
      · exact Or.inl (Or.inr h)
      · exact Or.inr h

theorem setOf_spec (l : List Obj) (h : LocInj l) : ((setOf l).map Obj.loc).Nodup ∧ ∀ y, y ∈ setOf l ↔ y ∈ l := by
  have := setUpdate_spec [] l (by simp) (by simpa using h)
  refine ⟨this.1, fun y => ?_⟩
  have h2 := this.2 y
  simpa [setOf, setUpdate] using h2

/-- removing the children of `s` by location removes exactly the entries below `s` -/
theorem setRemove_childNodes (t : List Obj) (s : Str) :
    setRemove t (childNodes t s) = t.filter fun e => !isChild s e.loc := by
  unfold setRemove childNodes
  apply List.filter_congr
  intro x hx
  congr 1
  cases hc : isChild s x.loc with
  | true => exact List.any_eq_true.mpr ⟨x, List.mem_filter.mpr ⟨hx, hc⟩, by simp⟩
  | false =>
    rw [List.any_eq_false]
    intro a ha hk
    have hl : a.loc = x.loc := by simpa using hk
    have := (List.mem_filter.mp ha).2
    rw [hl, hc] at this
    cases this

/-- the entry `e` after the symlink `x` above it has been followed -/
def mvBy (x e : Obj) : Obj := withLoc e (moveLoc x.loc (symTarget x) e.loc)

/-- the symlink of the pass that moves `e`: the first one (in the order of the pass) that has `e` below it -/
def mover (xs : List Obj) (e : Obj) : Option Obj := xs.find? fun x => isChild x.loc e.loc

/-- one relocation pass seen from a single entry -/
def stepObj (xs : List Obj) (e : Obj) : Obj :=
  match mover xs e with
  | some x => mvBy x e
  | none => e

/-- what a pass leaves in place -/
def passKeep (xs t : List Obj) : List Obj := t.filter fun e => xs.all fun x => !isChild x.loc e.loc

/-- what a pass re-adds -/
def passAdds : List Obj → List Obj → List Obj
  | [], _ => []
  | x :: xs, t => changeOffset (childNodes t x.loc) x.loc (symTarget x)
      ++ passAdds xs (t.filter fun e => !isChild x.loc e.loc)

theorem relocate_eq (xs t adds : List Obj) : relocate xs t adds = (passKeep xs t, adds ++ passAdds xs t) := by
  induction xs generalizing t adds with
  | nil =>
    simp only [relocate, passKeep, passAdds, List.all_nil, List.append_nil]
    rw [List.filter_eq_self.mpr (fun _ _ => rfl)]
  | cons x xs ih =>
    have hstep : relocate (x :: xs) t adds
        = relocate xs (t.filter fun e => !isChild x.loc e.loc) (adds ++ changeOffset (childNodes t x.loc) x.loc (symTarget x)) := by
      simp only [relocate]
      split
      · rename_i hemp
        have hnil : childNodes t x.loc = [] := by simpa using hemp
        have hself : (t.filter fun e => !isChild x.loc e.loc) = t := by
          rw [List.filter_eq_self]
          intro e he
          unfold childNodes at hnil
          rw [List.filter_eq_nil_iff] at hnil
          simpa using hnil e he
        rw [hself, hnil]
        simp [changeOffset, setOf]
      · rw [setRemove_childNodes]
    rw [hstep, ih]
    simp only [passKeep, passAdds, List.filter_filter, List.all_cons, List.append_assoc]
    congr 1
    apply List.filter_congr
    intro e _
    simp [Bool.and_comm]

theorem mem_passKeep (xs t : List Obj) (o : Obj) : o ∈ passKeep xs t ↔ o ∈ t ∧ mover xs o = none := by
  unfold passKeep mover
  rw [List.mem_filter, List.find?_eq_none]
  simp

theorem mem_passAdds (xs t : List Obj)
    (hinj : ∀ e1 ∈ t, ∀ e2 ∈ t, ∀ x, mover xs e1 = some x → mover xs e2 = some x →
      (mvBy x e1).loc = (mvBy x e2).loc → e1 = e2) :
    ∀ o, o ∈ passAdds xs t ↔ ∃ e ∈ t, ∃ x, mover xs e = some x ∧ o = mvBy x e := by
  induction xs generalizing t with
  | nil => intro o; simp [passAdds, mover]
  | cons x xs ih =>
    intro o
    have hfirst : ∀ e, isChild x.loc e.loc = true → mover (x :: xs) e = some x := fun e he => by
      simp [mover, List.find?, he]
    have hlater : ∀ e, isChild x.loc e.loc = false → mover (x :: xs) e = mover xs e := fun e he => by
      simp [mover, List.find?, he]
    -- the entries below `x`
    have hco : ∀ o, o ∈ changeOffset (childNodes t x.loc) x.loc (symTarget x)
        ↔ ∃ e ∈ t, isChild x.loc e.loc = true ∧ o = mvBy x e := by
      intro o
      have hli : LocInj ((childNodes t x.loc).map fun e => withLoc e (moveLoc x.loc (symTarget x) e.loc)) := by
        intro a ha b hb hab
        obtain ⟨e1, he1, rfl⟩ := List.mem_map.mp ha
        obtain ⟨e2, he2, rfl⟩ := List.mem_map.mp hb
        have h1 := List.mem_filter.mp he1
        have h2 := List.mem_filter.mp he2
        have := hinj e1 h1.1 e2 h2.1 x (hfirst e1 h1.2) (hfirst e2 h2.2) hab
        rw [this]
      unfold changeOffset
      rw [(setOf_spec _ hli).2 o, List.mem_map]
      constructor
      · rintro ⟨e, he, rfl⟩
        exact ⟨e, (List.mem_filter.mp he).1, (List.mem_filter.mp he).2, rfl⟩
      · rintro ⟨e, he, hc, rfl⟩
        exact ⟨e, List.mem_filter.mpr ⟨he, hc⟩, rfl⟩
    have hrest := ih (t.filter fun e => !isChild x.loc e.loc) (by
      intro e1 h1 e2 h2 x' m1 m2 hl
      have c1 : isChild x.loc e1.loc = false := by simpa using (List.mem_filter.mp h1).2
      have c2 : isChild x.loc e2.loc = false := by simpa using (List.mem_filter.mp h2).2
      exact hinj e1 (List.mem_filter.mp h1).1 e2 (List.mem_filter.mp h2).1 x'
        (by rw [hlater e1 c1]; exact m1) (by rw [hlater e2 c2]; exact m2) hl) o
    simp only [passAdds, List.mem_append, hco o, hrest]
    constructor
    · rintro (⟨e, he, hc, rfl⟩ | ⟨e, he, x', hm, rfl⟩)
      · exact ⟨e, he, x, hfirst e hc, rfl⟩
      · have c : isChild x.loc e.loc = false := by simpa using (List.mem_filter.mp he).2
        exact ⟨e, (List.mem_filter.mp he).1, x', by rw [hlater e c]; exact hm, rfl⟩
    · rintro ⟨e, he, x', hm, rfl⟩
      cases hc : isChild x.loc e.loc with
      | true =>
        rw [hfirst e hc] at hm
        cases hm
        exact Or.inl ⟨e, he, hc, rfl⟩
      | false =>
        rw [hlater e hc] at hm
        exact Or.inr ⟨e, List.mem_filter.mpr ⟨he, by simp [hc]⟩, x', hm, rfl⟩

/-- **one pass**: every entry makes the step `stepObj` says, nothing else happens -/
theorem pass_spec (xs t : List Obj) (hnd : (t.map Obj.loc).Nodup)
    (hinj : ∀ e1 ∈ t, ∀ e2 ∈ t, (stepObj xs e1).loc = (stepObj xs e2).loc → e1 = e2) :
    (((setUpdate (relocate xs t []).1 (relocate xs t []).2).map Obj.loc).Nodup ∧
      ∀ o, o ∈ setUpdate (relocate xs t []).1 (relocate xs t []).2 ↔ ∃ e ∈ t, o = stepObj xs e) ∧
    ((relocate xs t []).2 = [] ↔ ∀ e ∈ t, mover xs e = none) ∧
    ((relocate xs t []).2 = [] → (relocate xs t []).1 = t) := by
  rw [relocate_eq]
  simp only [List.nil_append]
  have hadds := mem_passAdds xs t (by
    intro e1 h1 e2 h2 x m1 m2 hl
    apply hinj e1 h1 e2 h2
    simp only [stepObj, m1, m2]
    exact hl)
  have hmem : ∀ o, o ∈ passKeep xs t ∨ o ∈ passAdds xs t ↔ ∃ e ∈ t, o = stepObj xs e := by
    intro o
    rw [mem_passKeep, hadds o]
    constructor
    · rintro (⟨ho, hm⟩ | ⟨e, he, x, hm, rfl⟩)
      · exact ⟨o, ho, by simp [stepObj, hm]⟩
      · exact ⟨e, he, by simp [stepObj, hm]⟩
    · rintro ⟨e, he, rfl⟩
      cases hm : mover xs e with
      | none => left; rw [show stepObj xs e = e by simp [stepObj, hm]]; exact ⟨he, hm⟩
      | some x => right; exact ⟨e, he, x, hm, by simp [stepObj, hm]⟩
  have hli : LocInj (passKeep xs t ++ passAdds xs t) := by
    intro a ha b hb hab
    obtain ⟨e1, h1, rfl⟩ := (hmem a).mp (List.mem_append.mp ha)
    obtain ⟨e2, h2, rfl⟩ := (hmem b).mp (List.mem_append.mp hb)
    rw [hinj e1 h1 e2 h2 hab]
  have hkeep : ((passKeep xs t).map Obj.loc).Nodup := (List.filter_sublist.map Obj.loc).nodup hnd
  have hsu := setUpdate_spec _ _ hkeep hli
  refine ⟨⟨hsu.1, fun o => by rw [hsu.2 o, hmem o]⟩, ?_, ?_⟩
  · constructor
    · intro hnil e he
      cases hm : mover xs e with
      | none => rfl
      | some x =>
        have : mvBy x e ∈ passAdds xs t := (hadds _).mpr ⟨e, he, x, hm, rfl⟩
        rw [hnil] at this
        cases this
    · intro hall
      apply List.eq_nil_iff_forall_not_mem.mpr
      intro o ho
      obtain ⟨e, he, x, hm, _⟩ := (hadds o).mp ho
      rw [hall e he] at hm
      cases hm
  · intro hnil
    unfold passKeep
    rw [List.filter_eq_self]
    intro e he
    have hm : mover xs e = none := by
      cases hm : mover xs e with
      | none => rfl
      | some x =>
        have : mvBy x e ∈ passAdds xs t := (hadds _).mpr ⟨e, he, x, hm, rfl⟩
        rw [hnil] at this
        cases this
    unfold mover at hm
    rw [List.find?_eq_none] at hm
    simpa using hm


/-! ### the repeated passes reach the resolved locations -/

/-- a resolution step, or the location itself when nothing is above it -/
def stepOrId (xs : List Obj) (p : Str) : Str := (stepLoc xs p).getD p

theorem resolveDir_settled (n : Nat) (xs : List Obj) (p : Str) (h : stepLoc xs p = none) : resolveDir n xs p = p := by
  cases n <;> simp [resolveDir, h]

theorem resolveDir_add (a b : Nat) (xs : List Obj) (p : Str) :
    resolveDir (a + b) xs p = resolveDir b xs (resolveDir a xs p) := by
  induction a generalizing p with
  | zero => simp [resolveDir]
  | succ a ih =>
    rw [show a + 1 + b = (a + b) + 1 by omega]
    simp only [resolveDir]
    cases hs : stepLoc xs p with
    | none => simp only; rw [resolveDir_settled b xs p hs]
    | some p' => simp only; exact ih p'

theorem resolveDir_one (xs : List Obj) (p : Str) : resolveDir 1 xs p = stepOrId xs p := by
  simp only [resolveDir, stepOrId]
  cases stepLoc xs p <;> rfl

theorem resolveDir_succ (k : Nat) (xs : List Obj) (p : Str) :
    resolveDir (k + 1) xs p = stepOrId xs (resolveDir k xs p) := by
  rw [resolveDir_add, resolveDir_one]

theorem stepLoc_eq_mover (xs : List Obj) (e : Obj) :
    stepLoc xs e.loc = (mover xs e).map fun s => moveLoc s.loc (symTarget s) e.loc := rfl

theorem stepObj_eq (xs : List Obj) (e : Obj) : stepObj xs e = withLoc e (stepOrId xs e.loc) := by
  unfold stepObj stepOrId
  rw [stepLoc_eq_mover]
  cases mover xs e with
  | none => simp [withLoc_self]
  | some x => simp [mvBy]

theorem relocatePasses_succ (m : Nat) (xs t : List Obj) :
    relocatePasses (m + 1) xs t = if (relocate xs t []).2.isEmpty then (relocate xs t []).1
      else relocatePasses m xs (setUpdate (relocate xs t []).1 (relocate xs t []).2) := by
  cases h : relocate xs t [] with
  | mk a b => simp [relocatePasses, h]

/-- **the passes**: when `n` resolution steps settle every entry and send different entries to different places,
`n + 1` passes (or fewer, when a pass moves nothing) leave every entry at its resolved place -/
theorem passes_spec (xs t0 : List Obj) (n : Nat)
    (hinj : ∀ e1 ∈ t0, ∀ e2 ∈ t0, resolveDir n xs e1.loc = resolveDir n xs e2.loc → e1 = e2)
    (hdepth : ∀ e ∈ t0, stepLoc xs (resolveDir n xs e.loc) = none) :
    ∀ m k t, k + m = n + 1 → (t.map Obj.loc).Nodup →
      (∀ o, o ∈ t ↔ ∃ e ∈ t0, o = withLoc e (resolveDir k xs e.loc)) →
      ((relocatePasses m xs t).map Obj.loc).Nodup ∧
        ∀ o, o ∈ relocatePasses m xs t ↔ ∃ e ∈ t0, o = withLoc e (resolveDir n xs e.loc) := by
  have hlast : ∀ e ∈ t0, resolveDir (n + 1) xs e.loc = resolveDir n xs e.loc := fun e he => by
    rw [resolveDir_add, resolveDir_settled 1 xs _ (hdepth e he)]
  intro m
  induction m with
  | zero =>
    intro k t hk hnd hmem
    have hk' : k = n + 1 := by omega
    subst hk'
    refine ⟨hnd, fun o => ?_⟩
    simp only [relocatePasses]
    rw [hmem o]
    constructor
    · rintro ⟨e, he, rfl⟩; exact ⟨e, he, by rw [hlast e he]⟩
    · rintro ⟨e, he, rfl⟩; exact ⟨e, he, by rw [hlast e he]⟩
  | succ m ih =>
    intro k t hk hnd hmem
    -- a step on a member of `t` is the next resolution step of the entry it comes from
    have hstep : ∀ e, stepObj xs (withLoc e (resolveDir k xs e.loc)) = withLoc e (resolveDir (k + 1) xs e.loc) := by
      intro e
      rw [stepObj_eq, withLoc_loc, withLoc_withLoc, resolveDir_succ]
    have hup : ∀ e ∈ t0, ∀ e' ∈ t0, resolveDir (k + 1) xs e.loc = resolveDir (k + 1) xs e'.loc → e = e' := by
      intro e he e' he' heq
      apply hinj e he e' he'
      rw [← hlast e he, ← hlast e' he', show n + 1 = (k + 1) + m by omega, resolveDir_add (k + 1) m xs e.loc,
        resolveDir_add (k + 1) m xs e'.loc, heq]
    have hpass := pass_spec xs t hnd (by
      intro o1 h1 o2 h2 hl
      obtain ⟨e1, he1, rfl⟩ := (hmem o1).mp h1
      obtain ⟨e2, he2, rfl⟩ := (hmem o2).mp h2
      rw [hstep, hstep, withLoc_loc, withLoc_loc] at hl
      rw [hup e1 he1 e2 he2 hl])
    rw [relocatePasses_succ]
    by_cases hemp : (relocate xs t []).2.isEmpty = true
    · rw [if_pos hemp]
      have hnil : (relocate xs t []).2 = [] := by simpa using hemp
      rw [hpass.2.2 hnil]
      have hnone := hpass.2.1.mp hnil
      refine ⟨hnd, fun o => ?_⟩
      have hsettled : ∀ e ∈ t0, resolveDir n xs e.loc = resolveDir k xs e.loc := by
        intro e he
        have hm := hnone _ ((hmem _).mpr ⟨e, he, rfl⟩)
        have hs : stepLoc xs (resolveDir k xs e.loc) = none := by
          have := stepLoc_eq_mover xs (withLoc e (resolveDir k xs e.loc))
          rw [withLoc_loc, hm] at this
          exact this
        rw [show n = k + (n - k) by omega, resolveDir_add, resolveDir_settled _ xs _ hs]
      rw [hmem o]
      constructor
      · rintro ⟨e, he, rfl⟩; exact ⟨e, he, by rw [hsettled e he]⟩
      · rintro ⟨e, he, rfl⟩; exact ⟨e, he, by rw [hsettled e he]⟩
    · rw [if_neg hemp]
      apply ih (k + 1) _ (by omega) hpass.1.1
      intro o
      rw [hpass.1.2 o]
      constructor
      · rintro ⟨o', ho', rfl⟩
        obtain ⟨e, he, rfl⟩ := (hmem o').mp ho'
        exact ⟨e, he, hstep e⟩
      · rintro ⟨e, he, rfl⟩
        exact ⟨_, (hmem _).mpr ⟨e, he, rfl⟩, (hstep e).symm⟩


/-! ### at most one symlink of a flat archive is above a location -/

/-- the location of a symlinked directory is normalised: `child_nodes` tests the location followed by a slash -/
abbrev LocNorm (l : Str) : Prop := cnPrefix l = l ++ ['/']

theorem slash_prefix_cases (u v p : Str) (hu : (u ++ ['/']) <+: p) (hv : (v ++ ['/']) <+: p) (hl : u.length ≤ v.length) :
    u = v ∨ (u ++ ['/']) <+: v := by
  have h1 : (u ++ ['/']) <+: (v ++ ['/']) := List.prefix_of_prefix_length_le hu hv (by simp; exact hl)
  by_cases he : u.length = v.length
  · left
    have := h1.eq_of_length (by simp [he])
    exact List.append_cancel_right this
  · right
    exact List.prefix_of_prefix_length_le h1 (List.prefix_append v ['/']) (by simp; omega)

theorem ancestor_sym_unique (F : List Obj) (hn : ∀ s ∈ F, LocNorm s.loc)
    (hflat : ∀ a ∈ F, ∀ b ∈ F, isChild a.loc b.loc = false) (hlocs : ∀ a ∈ F, ∀ b ∈ F, a.loc = b.loc → a = b)
    (p : Str) (a b : Obj) (ha : a ∈ F) (hb : b ∈ F) (hpa : isChild a.loc p = true) (hpb : isChild b.loc p = true) : a = b := by
  have ea := hn a ha
  have eb := hn b hb
  unfold LocNorm at ea eb
  unfold isChild at hpa hpb
  rw [ea] at hpa
  rw [eb] at hpb
  rw [List.isPrefixOf_iff_prefix] at hpa hpb
  rcases Nat.le_total a.loc.length b.loc.length with hl | hl
  · rcases slash_prefix_cases _ _ p hpa hpb hl with h | h
    · exact hlocs a ha b hb h
    · have := hflat a ha b hb
      unfold isChild at this
      rw [ea] at this
      rw [← List.isPrefixOf_iff_prefix] at h
      rw [h] at this; cases this
  · rcases slash_prefix_cases _ _ p hpb hpa hl with h | h
    · exact (hlocs b hb a ha h).symm
    · have := hflat b hb a ha
      unfold isChild at this
      rw [eb] at this
      rw [← List.isPrefixOf_iff_prefix] at h
      rw [h] at this; cases this

theorem find?_perm_unique {α : Type} (p : α → Bool) (l1 l2 : List α) (hp : l1.Perm l2)
    (hu : ∀ a ∈ l1, ∀ b ∈ l1, p a = true → p b = true → a = b) : l1.find? p = l2.find? p := by
  cases h1 : l1.find? p with
  | none =>
    rw [List.find?_eq_none] at h1
    symm
    rw [List.find?_eq_none]
    exact fun x hx => h1 x (hp.mem_iff.mpr hx)
  | some a =>
    have ha := List.mem_of_find?_eq_some h1
    have hpa := List.find?_some h1
    cases h2 : l2.find? p with
    | none =>
      rw [List.find?_eq_none] at h2
      exact absurd hpa (h2 a (hp.mem_iff.mp ha))
    | some b =>
      have hb := hp.mem_iff.mpr (List.mem_of_find?_eq_some h2)
      rw [hu a ha b hb hpa (List.find?_some h2)]

theorem resolveDir_congr (n : Nat) (a b : List Obj) (h : ∀ p, stepLoc a p = stepLoc b p) (p : Str) :
    resolveDir n a p = resolveDir n b p := by
  induction n generalizing p with
  | zero => rfl
  | succ n ih =>
    simp only [resolveDir, h p]
    cases stepLoc b p with
    | none => rfl
    | some p' => exact ih p'

/-! ### `dirname` -/

theorem joinWith_dropLast (sep : Char) : ∀ (comps : List Str), 2 ≤ comps.length →
    ∃ last, joinWith sep comps = joinWith sep comps.dropLast ++ sep :: last
  | [], h => by simp at h
  | [_], h => by simp at h
  | [a, b], _ => ⟨b, by simp [joinWith, List.dropLast]⟩
  | a :: b :: c :: rest, _ => by
    obtain ⟨last, hl⟩ := joinWith_dropLast sep (b :: c :: rest) (by simp)
    refine ⟨last, ?_⟩
    have hd : (a :: b :: c :: rest).dropLast = a :: b :: (c :: rest).dropLast := by simp [List.dropLast]
    have hd' : (b :: c :: rest).dropLast = b :: (c :: rest).dropLast := by simp [List.dropLast]
    have e1 : joinWith sep (a :: b :: c :: rest) = a ++ sep :: joinWith sep (b :: c :: rest) := rfl
    have e2 : joinWith sep (a :: b :: (c :: rest).dropLast) = a ++ sep :: joinWith sep (b :: (c :: rest).dropLast) := rfl
    rw [hd, e1, e2, hl, hd']
    simp

theorem rstrip_prefix (s : Str) : ((s.reverse.dropWhile (· = '/')).reverse) <+: s := by
  have hsuf : (s.reverse.dropWhile (· = '/')) <:+ s.reverse := List.dropWhile_suffix _
  have := List.reverse_prefix.mpr hsuf
  simpa using this

/-- `dirname p` is an initial piece of `p` -/
theorem dirName_prefix (p : Str) : dirName p <+: p := by
  unfold dirName
  simp only
  split
  · exact List.nil_prefix
  · rename_i hlen
    obtain ⟨last, hl⟩ := joinWith_dropLast '/' (splitOn '/' p) (by omega)
    rw [joinWith_splitOn] at hl
    have hhead : joinWith '/' (splitOn '/' p).dropLast <+: p := ⟨'/' :: last, hl.symm⟩
    split
    · split
      · rename_i hemp
        have : joinWith '/' (splitOn '/' p).dropLast = [] := by simpa using hemp
        rw [this] at hl
        exact ⟨last, hl.symm⟩
      · exact hhead
    · exact (rstrip_prefix _).trans hhead

/-- `dirname` shortens every path but the root and the empty path -/
theorem dirName_length (p : Str) (h1 : p ≠ []) (h2 : p ≠ ['/']) : (dirName p).length < p.length := by
  unfold dirName
  simp only
  split
  · cases p with
    | nil => exact absurd rfl h1
    | cons c cs => simp
  · rename_i hlen
    obtain ⟨last, hl⟩ := joinWith_dropLast '/' (splitOn '/' p) (by omega)
    rw [joinWith_splitOn] at hl
    have hlen' : p.length = (joinWith '/' (splitOn '/' p).dropLast).length + 1 + last.length := by
      conv => lhs; rw [hl]
      simp; omega
    split
    · split
      · rename_i hemp
        have he : joinWith '/' (splitOn '/' p).dropLast = [] := by simpa using hemp
        rw [he] at hl hlen'
        cases last with
        | nil => exact absurd hl h2
        | cons c cs => simp at hlen' ⊢; omega
      · omega
    · have := (rstrip_prefix (joinWith '/' (splitOn '/' p).dropLast)).length_le
      omega


/-! ### `add_missing_directories` -/

theorem dirNameN_add (a b : Nat) (p : Str) : dirNameN a (dirNameN b p) = dirNameN (a + b) p := by
  induction a with
  | zero => simp [dirNameN]
  | succ a ih => rw [show a + 1 + b = (a + b) + 1 by omega]; simp only [dirNameN, ih]

theorem dirName_root : dirName ['/'] = ['/'] := by decide
theorem dirName_nil : dirName [] = [] := by decide

theorem dirNameN_root (k : Nat) : dirNameN k ['/'] = ['/'] := by
  induction k with
  | zero => rfl
  | succ k ih => simp only [dirNameN, ih, dirName_root]

theorem dirNameN_nil (k : Nat) : dirNameN k [] = [] := by
  induction k with
  | zero => rfl
  | succ k ih => simp only [dirNameN, ih, dirName_nil]

/-- a proper ancestor that is neither the root nor empty is reached in fewer steps than the path has characters -/
theorem dirNameN_length (k : Nat) (q : Str) (h1 : dirNameN k q ≠ []) (h2 : dirNameN k q ≠ ['/']) :
    (dirNameN k q).length + k ≤ q.length := by
  induction k with
  | zero => simp [dirNameN]
  | succ k ih =>
    simp only [dirNameN] at h1 h2 ⊢
    have r1 : dirNameN k q ≠ [] := fun e => h1 (by rw [e]; exact dirName_nil)
    have r2 : dirNameN k q ≠ ['/'] := fun e => h2 (by rw [e]; exact dirName_root)
    have := dirName_length _ r1 r2
    have := ih r1 r2
    omega

theorem mem_ancestors (p q : Str) : p ∈ ancestors q ↔ ∃ j, j < q.length ∧ p = dirNameN (j + 1) q := by
  unfold ancestors
  rw [List.mem_map]
  constructor
  · rintro ⟨j, hj, rfl⟩; exact ⟨j, List.mem_range.mp hj, rfl⟩
  · rintro ⟨j, hj, rfl⟩; exact ⟨j, List.mem_range.mpr hj, rfl⟩

theorem le_maxLocLen (t : List Obj) (e : Obj) (h : e ∈ t) : e.loc.length ≤ maxLocLen t := by
  induction t with
  | nil => simp at h
  | cons x r ih =>
    simp only [maxLocLen, List.foldr_cons]
    rcases List.mem_cons.mp h with h | h
    · rw [h]; exact Nat.le_max_left _ _
    · exact Nat.le_trans (ih h) (Nat.le_max_right _ _)

theorem nodup_eraseDups : ∀ (l : List Str), l.eraseDups.Nodup
  | [] => by simp
  | a :: as => by
    rw [List.eraseDups_cons]
    refine List.nodup_cons.mpr ⟨?_, nodup_eraseDups (as.filter fun b => !(b == a))⟩
    intro h
    have := List.mem_eraseDups.mp h
    simp at this
termination_by l => l.length
decreasing_by
  simp only [List.length_cons]
  exact Nat.lt_succ_of_le (List.length_filter_le _ _)

/-- the missing parents of one round -/
def roundMissing (t : List Obj) : List Str :=
  ((t.map fun x => dirName x.loc).filter fun p => !(t.any (·.loc == p)) && p != ['/'] && !p.isEmpty).eraseDups

theorem missingDirs_succ (fuel : Nat) (t : List Obj) :
    missingDirs (fuel + 1) t = if (roundMissing t).isEmpty then []
      else roundMissing t ++ missingDirs fuel (t ++ (roundMissing t).map newDir) := rfl

theorem mem_roundMissing (t : List Obj) (p : Str) :
    p ∈ roundMissing t ↔ (∃ e ∈ t, p = dirName e.loc) ∧ p ∉ t.map Obj.loc ∧ p ≠ ['/'] ∧ p ≠ [] := by
  unfold roundMissing
  rw [List.mem_eraseDups, List.mem_filter, List.mem_map]
  constructor
  · rintro ⟨⟨e, he, rfl⟩, hc⟩
    simp only [Bool.and_eq_true, Bool.not_eq_true', bne_iff_ne, ne_eq] at hc
    refine ⟨⟨e, he, rfl⟩, ?_, hc.1.2, fun e0 => by rw [e0] at hc; exact absurd hc.2 (by simp)⟩
    intro hm
    obtain ⟨x, hx, hl⟩ := List.mem_map.mp hm
    have : t.any (·.loc == dirName e.loc) = true := List.any_eq_true.mpr ⟨x, hx, by simp [hl]⟩
    rw [this] at hc
    exact absurd hc.1.1 (by simp)
  · rintro ⟨⟨e, he, rfl⟩, hno, h1, h2⟩
    refine ⟨⟨e, he, rfl⟩, ?_⟩
    have : t.any (·.loc == dirName e.loc) = false := by
      rw [List.any_eq_false]
      intro x hx hk
      exact hno (List.mem_map.mpr ⟨x, hx, by simpa using hk⟩)
    simp [this, h1, h2]

theorem missingDirs_sound (fuel : Nat) (t : List Obj) (p : Str) (h : p ∈ missingDirs fuel t) :
    p ∉ t.map Obj.loc ∧ p ≠ ['/'] ∧ p ≠ [] ∧ ∃ e ∈ t, ∃ j, p = dirNameN (j + 1) e.loc := by
  induction fuel generalizing t with
  | zero => simp [missingDirs] at h
  | succ fuel ih =>
    rw [missingDirs_succ] at h
    split at h
    · simp at h
    · rcases List.mem_append.mp h with h | h
      · obtain ⟨⟨e, he, rfl⟩, hno, h1, h2⟩ := (mem_roundMissing t p).mp h
        exact ⟨hno, h1, h2, e, he, 0, rfl⟩
      · obtain ⟨hno, h1, h2, e, he, j, hj⟩ := ih _ h
        refine ⟨fun hm => hno (by rw [List.map_append]; exact List.mem_append_left _ hm), h1, h2, ?_⟩
        rcases List.mem_append.mp he with he | he
        · exact ⟨e, he, j, hj⟩
        · obtain ⟨q, hq, rfl⟩ := List.mem_map.mp he
          obtain ⟨⟨e', he', rfl⟩, _⟩ := (mem_roundMissing t q).mp hq
          refine ⟨e', he', j + 1, ?_⟩
          rw [hj]
          show dirNameN (j + 1) (dirNameN 1 e'.loc) = _
          rw [dirNameN_add]

theorem missingDirs_complete (j : Nat) : ∀ (fuel : Nat) (t : List Obj) (e : Obj), e ∈ t → j + 1 ≤ fuel →
    dirNameN (j + 1) e.loc ∉ t.map Obj.loc → dirNameN (j + 1) e.loc ≠ ['/'] → dirNameN (j + 1) e.loc ≠ [] →
    dirNameN (j + 1) e.loc ∈ missingDirs fuel t := by
  induction j with
  | zero =>
    intro fuel t e he hf hno h1 h2
    obtain ⟨f, rfl⟩ : ∃ f, fuel = f + 1 := ⟨fuel - 1, by omega⟩
    have hm : dirNameN 1 e.loc ∈ roundMissing t := (mem_roundMissing t _).mpr ⟨⟨e, he, rfl⟩, hno, h1, h2⟩
    rw [missingDirs_succ]
    have hne : (roundMissing t).isEmpty = false := by
      cases hr : roundMissing t with
      | nil => rw [hr] at hm; cases hm
      | cons a b => rfl
    rw [hne]
    exact List.mem_append_left _ hm
  | succ j ih =>
    intro fuel t e he hf hno h1 h2
    obtain ⟨f, rfl⟩ : ∃ f, fuel = f + 1 := ⟨fuel - 1, by omega⟩
    have hsplit : dirNameN (j + 1 + 1) e.loc = dirNameN (j + 1) (dirName e.loc) := by
      show _ = dirNameN (j + 1) (dirNameN 1 e.loc)
      rw [dirNameN_add]
    by_cases hq : dirName e.loc ∈ t.map Obj.loc
    · obtain ⟨e', he', hl⟩ := List.mem_map.mp hq
      rw [hsplit, ← hl] at hno h1 h2 ⊢
      exact ih (f + 1) t e' he' (by omega) hno h1 h2
    · have hq1 : dirName e.loc ≠ ['/'] := fun e1 => h1 (by rw [hsplit, e1]; exact dirNameN_root _)
      have hq2 : dirName e.loc ≠ [] := fun e2 => h2 (by rw [hsplit, e2]; exact dirNameN_nil _)
      have hm : dirName e.loc ∈ roundMissing t := (mem_roundMissing t _).mpr ⟨⟨e, he, rfl⟩, hq, hq1, hq2⟩
      rw [missingDirs_succ]
      have hne : (roundMissing t).isEmpty = false := by
        cases hr : roundMissing t with
        | nil => rw [hr] at hm; cases hm
        | cons a b => rfl
      rw [hne]
      simp only [Bool.false_eq_true, if_false]
      by_cases hpm : dirNameN (j + 1 + 1) e.loc ∈ roundMissing t
      · exact List.mem_append_left _ hpm
      · apply List.mem_append_right
        have hin : newDir (dirName e.loc) ∈ t ++ (roundMissing t).map newDir :=
          List.mem_append_right _ (List.mem_map_of_mem hm)
        have := ih f (t ++ (roundMissing t).map newDir) (newDir (dirName e.loc)) hin (by omega)
        rw [show (newDir (dirName e.loc)).loc = dirName e.loc from rfl] at this
        rw [hsplit] at hno h1 h2 hpm ⊢
        apply this _ h1 h2
        rw [List.map_append]
        intro hmem
        rcases List.mem_append.mp hmem with hmem | hmem
        · exact hno hmem
        · rw [List.map_map] at hmem
          obtain ⟨q, hq', hl⟩ := List.mem_map.mp hmem
          rw [show (Obj.loc ∘ newDir) q = q from rfl] at hl
          rw [← hl] at hpm
          exact hpm hq'

/-- **`add_missing_directories`** with enough rounds adds exactly the proper ancestors that are not in the set
(the root excepted) -/
theorem missingDirs_spec (t : List Obj) (p : Str) :
    p ∈ missingDirs (maxLocLen t + 1) t ↔
      p ∉ t.map Obj.loc ∧ p ≠ ['/'] ∧ p ≠ [] ∧ ∃ e ∈ t, p ∈ ancestors e.loc := by
  constructor
  · intro h
    obtain ⟨hno, h1, h2, e, he, j, hj⟩ := missingDirs_sound _ t p h
    refine ⟨hno, h1, h2, e, he, (mem_ancestors p e.loc).mpr ⟨j, ?_, hj⟩⟩
    have := dirNameN_length (j + 1) e.loc (by rw [← hj]; exact h2) (by rw [← hj]; exact h1)
    omega
  · rintro ⟨hno, h1, h2, e, he, ha⟩
    obtain ⟨j, hj, rfl⟩ := (mem_ancestors p e.loc).mp ha
    exact missingDirs_complete j _ t e he (by have := le_maxLocLen t e he; omega) hno h1 h2


/-! ### `convert_archive` assembled -/

/-- the final ordering of `convert_archive`: directories, then symlinks/fifos/devices (both by location), then
the regular files in the order of their data sources in the archive -/
def sort3 (t : List Obj) : List Obj :=
  C28.sortBy Obj.loc (t.filter Obj.isDir) ++ C28.sortBy Obj.loc (t.filter fun o => !o.isDir && !o.isReg)
    ++ sortByNat srcOf (t.filter Obj.isReg)

theorem sort3_perm (t : List Obj) : (sort3 t).Perm t :=
  (((C28.sortBy_perm _ _).append (C28.sortBy_perm _ _)).append (sortByNat_perm _ _)).trans (partition_perm t)

theorem insertByNat_pairwise (key : Obj → Nat) (e : Obj) (l : List Obj) (h : l.Pairwise fun a b => key a ≤ key b) :
    (insertByNat key e l).Pairwise fun a b => key a ≤ key b := by
  induction l with
  | nil => simp [insertByNat]
  | cons x xs ih =>
    rw [List.pairwise_cons] at h
    unfold insertByNat
    split
    · rename_i hle
      rw [List.pairwise_cons]
      refine ⟨?_, List.pairwise_cons.mpr h⟩
      intro y hy
      rcases List.mem_cons.mp hy with rfl | hy
      · exact hle
      · exact Nat.le_trans hle (h.1 y hy)
    · rename_i hnle
      rw [List.pairwise_cons]
      refine ⟨?_, ih h.2⟩
      intro y hy
      rcases List.mem_cons.mp ((insertByNat_perm key e xs).mem_iff.mp hy) with rfl | hy
      · exact Nat.le_of_not_le hnle
      · exact h.1 y hy

theorem sortByNat_pairwise (key : Obj → Nat) (l : List Obj) : (sortByNat key l).Pairwise fun a b => key a ≤ key b := by
  induction l with
  | nil => simp [sortByNat]
  | cons e r ih => exact insertByNat_pairwise key e _ ih

theorem nodup_map_on {α β : Type} (f : α → β) (l : List α) (hl : l.Nodup)
    (hf : ∀ a ∈ l, ∀ b ∈ l, f a = f b → a = b) : (l.map f).Nodup := by
  induction l with
  | nil => simp
  | cons x r ih =>
    rw [List.nodup_cons] at hl
    rw [List.map_cons, List.nodup_cons]
    refine ⟨?_, ih hl.2 (fun a ha b hb => hf a (by simp [ha]) b (by simp [hb]))⟩
    intro hm
    obtain ⟨y, hy, he⟩ := List.mem_map.mp hm
    have := hf y (by simp [hy]) x (by simp) he
    rw [this] at hy
    exact hl.1 hy

theorem nodup_of_nodup_map {α β : Type} (f : α → β) (l : List α) (h : (l.map f).Nodup) : l.Nodup := by
  induction l with
  | nil => simp
  | cons x r ih =>
    rw [List.map_cons, List.nodup_cons] at h
    exact List.nodup_cons.mpr ⟨fun hx => h.1 (List.mem_map_of_mem hx), ih h.2⟩

theorem dirNameN_prefix (k : Nat) (q : Str) : dirNameN k q <+: q := by
  induction k with
  | zero => exact List.prefix_refl _
  | succ k ih => exact (dirName_prefix _).trans ih

/-- removing the symlinks by location removes exactly the symlinks -/
theorem setRemove_syms (raw : List Obj) (hlocs : (raw.map Obj.loc).Nodup) :
    setRemove raw (raw.filter Obj.isSym) = raw.filter (fun o => !o.isSym) := by
  unfold setRemove
  apply List.filter_congr
  intro x hx
  cases hxs : x.isSym with
  | true =>
    have : (raw.filter Obj.isSym).any (·.loc == x.loc) = true :=
      List.any_eq_true.mpr ⟨x, List.mem_filter.mpr ⟨hx, hxs⟩, by simp⟩
    simp [this]
  | false =>
    have : (raw.filter Obj.isSym).any (·.loc == x.loc) = false := by
      rw [List.any_eq_false]
      intro s hs hk
      have hsl : s.loc = x.loc := by simpa using hk
      have heq := C28.key_inj_of_nodup Obj.loc raw hlocs s x (List.mem_filter.mp hs).1 hx hsl
      have hss := (List.mem_filter.mp hs).2
      rw [heq, hxs] at hss
      cases hss
    simp [this]

/-- the archives `convert_relocates` speaks about: distinct locations; the symlinks sit at normalised locations
and none of them is recorded below another one; `symsOf raw`.length resolution steps settle every location (no
cycle: a chain that follows every symlink once is that long); different entries resolve to different places -/
structure Relocatable (raw : List Obj) : Prop where
  locs : (raw.map Obj.loc).Nodup
  norm : ∀ s ∈ symsOf raw, LocNorm s.loc
  flat : ∀ a ∈ symsOf raw, ∀ b ∈ symsOf raw, isChild a.loc b.loc = false
  depth : ∀ e ∈ raw, stepLoc (symsOf raw) (resolveDir (symsOf raw).length (symsOf raw) e.loc) = none
  inj : ∀ a ∈ raw, ∀ b ∈ raw,
    resolveDir (symsOf raw).length (symsOf raw) a.loc = resolveDir (symsOf raw).length (symsOf raw) b.loc → a = b

/-- the directories `add_missing_directories` creates for the set `t` -/
def addedDirs (t : List Obj) : List Str := (missingDirs (maxLocLen t + 1) t).eraseDups

theorem convert_flat (raw : List Obj) (h : Relocatable raw) :
    ∃ t1, (t1.map Obj.loc).Nodup ∧ (∀ o, o ∈ t1 ↔ ∃ e ∈ raw, o = placeOf raw e) ∧
      ((t1 ++ (addedDirs t1).map newDir).map Obj.loc).Nodup ∧
      convertArchive raw = some (sort3 (t1 ++ (addedDirs t1).map newDir)) := by
  have hsub : ∀ x ∈ symsOf raw, x ∈ raw := fun x hx => (List.mem_filter.mp hx).1
  have hset : setOf raw = raw := setOf_nodup raw h.locs
  have hsymsub : ((raw.filter Obj.isSym).map Obj.loc).Nodup := (List.filter_sublist.map Obj.loc).nodup h.locs
  have hsyms : setOf (raw.filter Obj.isSym) = raw.filter Obj.isSym := setOf_nodup _ hsymsub
  have hnoc : ∀ x ∈ raw.filter Obj.isSym, childNodes (raw.filter Obj.isSym) x.loc = [] := by
    intro x hx
    unfold childNodes
    rw [List.filter_eq_nil_iff]
    intro y hy
    simp [h.flat x hx y hy]
  have hperm : (raw.filter (fun o => !o.isSym) ++ raw.filter Obj.isSym).Perm raw :=
    List.perm_append_comm.trans (List.filter_append_perm Obj.isSym raw)
  have hupd : setUpdate (raw.filter (fun o => !o.isSym)) (raw.filter Obj.isSym)
      = raw.filter (fun o => !o.isSym) ++ raw.filter Obj.isSym :=
    setUpdate_fresh _ _ ((hperm.map Obj.loc).nodup_iff.mpr h.locs)
  -- the order of the pass and the order of the archive pick the same symlink
  have hxs : ((C28.sortBy Obj.loc (raw.filter Obj.isSym)).reverse).Perm (symsOf raw) :=
    (List.reverse_perm _).trans (C28.sortBy_perm Obj.loc _)
  have hstep : ∀ p, stepLoc (symsOf raw) p = stepLoc ((C28.sortBy Obj.loc (raw.filter Obj.isSym)).reverse) p := by
    intro p
    unfold stepLoc
    rw [find?_perm_unique _ _ _ hxs.symm (fun a ha b hb pa pb =>
      ancestor_sym_unique (symsOf raw) h.norm h.flat
        (fun a ha b hb e => C28.key_inj_of_nodup Obj.loc raw h.locs a b (hsub a ha) (hsub b hb) e) p a b ha hb pa pb)]
  have hres : ∀ n p, resolveDir n (symsOf raw) p = resolveDir n ((C28.sortBy Obj.loc (raw.filter Obj.isSym)).reverse) p :=
    fun n p => resolveDir_congr n _ _ hstep p
  have hlen : ((C28.sortBy Obj.loc (raw.filter Obj.isSym)).reverse).length = (symsOf raw).length := hxs.length_eq
  have hpass := passes_spec ((C28.sortBy Obj.loc (raw.filter Obj.isSym)).reverse)
    (raw.filter (fun o => !o.isSym) ++ raw.filter Obj.isSym)
    ((C28.sortBy Obj.loc (raw.filter Obj.isSym)).reverse).length
    (by
      intro e1 h1 e2 h2 he
      rw [← hres, ← hres, hlen] at he
      exact h.inj e1 (hperm.mem_iff.mp h1) e2 (hperm.mem_iff.mp h2) he)
    (by
      intro e he
      rw [← hres, ← hstep, hlen]
      exact h.depth e (hperm.mem_iff.mp he))
    (((C28.sortBy Obj.loc (raw.filter Obj.isSym)).reverse).length + 1) 0 _ (by omega)
    ((hperm.map Obj.loc).nodup_iff.mpr h.locs)
    (by
      intro o
      constructor
      · intro ho; exact ⟨o, ho, by simp [resolveDir, withLoc_self]⟩
      · rintro ⟨e, he, rfl⟩; simpa [resolveDir, withLoc_self] using he)
  refine ⟨_, hpass.1, ?_, ?_⟩
  · intro o
    rw [hpass.2 o]
    constructor
    · rintro ⟨e, he, rfl⟩
      exact ⟨e, hperm.mem_iff.mp he, by unfold placeOf; rw [hres, hlen]⟩
    · rintro ⟨e, he, rfl⟩
      exact ⟨e, hperm.mem_iff.mpr he, by unfold placeOf; rw [hres, hlen]⟩
  · unfold convertArchive
    simp only [hset, hsyms, symLoop_stable _ _ hnoc, setRemove_syms raw h.locs, hupd]
    generalize relocatePasses _ _ _ = t1 at hpass ⊢
    have hfreshlocs : ((t1 ++ (addedDirs t1).map newDir).map Obj.loc).Nodup := by
      rw [List.map_append, List.nodup_append]
      refine ⟨hpass.1, ?_, ?_⟩
      · rw [List.map_map]
        have : (Obj.loc ∘ newDir) = id := by funext p; rfl
        rw [this, List.map_id]
        exact nodup_eraseDups _
      · intro a ha b hb e
        rw [List.map_map] at hb
        obtain ⟨p, hp, rfl⟩ := List.mem_map.mp hb
        have hp' := List.mem_eraseDups.mp hp
        have := (missingDirs_sound _ t1 p hp').1
        have e' : a = p := e
        rw [e'] at ha
        exact this ha
    refine ⟨hfreshlocs, ?_⟩
    rw [show setUpdate t1 (List.map newDir (missingDirs (maxLocLen t1 + 1) t1).eraseDups) = t1 ++ (addedDirs t1).map newDir
      from setUpdate_fresh _ _ hfreshlocs]
    rfl


/-- everything the relocation theorems state, in one piece -/
theorem convert_flat_full (raw : List Obj) (h : Relocatable raw) :
    ∃ (R : List Obj) (added : List Str), convertArchive raw = some R ∧
      R.Perm (raw.map (placeOf raw) ++ added.map newDir) ∧
      (R.map Obj.loc).Nodup ∧ added.Nodup ∧
      (∀ p, p ∈ added ↔ p ∉ (raw.map (placeOf raw)).map Obj.loc ∧ p ≠ ['/'] ∧ p ≠ [] ∧
        ∃ e ∈ raw, p ∈ ancestors (placeOf raw e).loc) ∧
      (∀ e ∈ raw, stepLoc (symsOf raw) e.loc = none → e ∈ R) ∧
      (∀ s ∈ R, s.isSym = true → ∀ o ∈ R, isChild s.loc o.loc = false) := by
  obtain ⟨t1, hnd, hmem, hnd2, hconv⟩ := convert_flat raw h
  have hR : (sort3 (t1 ++ (addedDirs t1).map newDir)).Perm (t1 ++ (addedDirs t1).map newDir) := sort3_perm _
  have hinjP : ∀ a ∈ raw, ∀ b ∈ raw, placeOf raw a = placeOf raw b → a = b := by
    intro a ha b hb e
    have := congrArg Obj.loc e
    unfold placeOf at this
    rw [withLoc_loc, withLoc_loc] at this
    exact h.inj a ha b hb this
  have ht1 : t1.Perm (raw.map (placeOf raw)) := by
    rw [List.perm_ext_iff_of_nodup (nodup_of_nodup_map _ _ hnd) (nodup_map_on _ raw (nodup_of_nodup_map _ _ h.locs) hinjP)]
    intro o
    rw [hmem o, List.mem_map]
    constructor
    · rintro ⟨e, he, rfl⟩; exact ⟨e, he, rfl⟩
    · rintro ⟨e, he, rfl⟩; exact ⟨e, he, rfl⟩
  have hlocmem : ∀ p, p ∈ t1.map Obj.loc ↔ p ∈ (raw.map (placeOf raw)).map Obj.loc := fun p => (ht1.map Obj.loc).mem_iff
  -- the symlinks of the result are the symlinks of the archive, where they were
  have hsymfix : ∀ e ∈ symsOf raw, stepLoc (symsOf raw) e.loc = none := by
    intro e he
    unfold stepLoc
    have : (symsOf raw).find? (fun s => isChild s.loc e.loc) = none := by
      rw [List.find?_eq_none]
      intro a ha
      simp [h.flat a ha e he]
    rw [this]; rfl
  have hplace_id : ∀ e, stepLoc (symsOf raw) e.loc = none → placeOf raw e = e := by
    intro e he
    unfold placeOf
    rw [resolveDir_settled _ _ _ he, withLoc_self]
  -- nothing that was placed lies below a symlink of the archive
  have hsettled : ∀ o ∈ t1, ∀ s ∈ symsOf raw, isChild s.loc o.loc = false := by
    intro o ho s hs
    obtain ⟨e, he, rfl⟩ := (hmem o).mp ho
    have hd := h.depth e he
    unfold placeOf
    rw [withLoc_loc]
    unfold stepLoc at hd
    cases hf : (symsOf raw).find? (fun s => isChild s.loc (resolveDir (symsOf raw).length (symsOf raw) e.loc)) with
    | some x => rw [hf] at hd; cases hd
    | none =>
      rw [List.find?_eq_none] at hf
      simpa using hf s hs
  refine ⟨_, addedDirs t1, hconv, hR.trans (List.Perm.append_right _ ht1), (hR.map Obj.loc).nodup_iff.mpr hnd2,
    nodup_eraseDups _, ?_, ?_, ?_⟩
  · intro p
    unfold addedDirs
    rw [List.mem_eraseDups, missingDirs_spec, hlocmem p]
    constructor
    · rintro ⟨h0, h1, h2, o, ho, ha⟩
      obtain ⟨e, he, rfl⟩ := (hmem o).mp ho
      exact ⟨h0, h1, h2, e, he, ha⟩
    · rintro ⟨h0, h1, h2, e, he, ha⟩
      exact ⟨h0, h1, h2, _, (hmem _).mpr ⟨e, he, rfl⟩, ha⟩
  · intro e he hs
    apply hR.mem_iff.mpr
    apply List.mem_append_left
    exact (hmem e).mpr ⟨e, he, (hplace_id e hs).symm⟩
  · intro s hs hsym o ho
    have hs' := List.mem_append.mp (hR.mem_iff.mp hs)
    have hsF : s ∈ symsOf raw := by
      rcases hs' with hs' | hs'
      · obtain ⟨e, he, rfl⟩ := (hmem s).mp hs'
        unfold placeOf at hsym
        rw [withLoc_isSym] at hsym
        have heF : e ∈ symsOf raw := List.mem_filter.mpr ⟨he, hsym⟩
        rw [hplace_id e (hsymfix e heF)]
        exact heF
      · obtain ⟨p, _, rfl⟩ := List.mem_map.mp hs'
        simp [newDir, Obj.isSym] at hsym
    rcases List.mem_append.mp (hR.mem_iff.mp ho) with ho | ho
    · exact hsettled o ho s hsF
    · obtain ⟨p, hp, rfl⟩ := List.mem_map.mp ho
      obtain ⟨_, _, _, e1, he1, j, hj⟩ := missingDirs_sound _ t1 p (List.mem_eraseDups.mp hp)
      cases hc : isChild s.loc (newDir p).loc with
      | false => rfl
      | true =>
        have hpre : (cnPrefix s.loc) <+: e1.loc := by
          unfold isChild at hc
          rw [List.isPrefixOf_iff_prefix] at hc
          have hpp : (newDir p).loc = dirNameN (j + 1) e1.loc := hj
          rw [hpp] at hc
          exact hc.trans (dirNameN_prefix _ _)
        have := hsettled e1 he1 s hsF
        unfold isChild at this
        rw [← List.isPrefixOf_iff_prefix] at hpre
        rw [hpre] at this
        cases this


/-- the executable check of `Spec/C25.lean` establishes the hypotheses -/
theorem relocatable_of_check (raw : List Obj) (h : relocatableB raw = true) : Relocatable raw := by
  unfold relocatableB at h
  simp only [Bool.and_eq_true, decide_eq_true_eq, List.all_eq_true, beq_iff_eq, Bool.not_eq_true',
    Bool.or_eq_true, Option.isNone_iff_eq_none] at h
  obtain ⟨⟨⟨⟨h1, h2⟩, h3⟩, h4⟩, h5⟩ := h
  refine ⟨h1, h2, h3, h4, ?_⟩
  intro a ha b hb e
  rcases h5 a ha b hb with h | h
  · exact absurd e (by simpa using h)
  · exact h


/-! ## normalised absolute locations satisfy `PathOK` and `LocNorm` -/

/-- a normalised absolute location: `/` followed by non-empty components without slash other than `.` and `..` -/
def GoodComp (c : Str) : Prop := c ≠ [] ∧ '/' ∉ c ∧ c ≠ ['.'] ∧ c ≠ ['.', '.']

theorem splitOn_joinWith (comps : List Str) (hne : comps ≠ []) (h : ∀ c ∈ comps, '/' ∉ c) :
    splitOn '/' (joinWith '/' comps) = comps := by
  induction comps with
  | nil => exact absurd rfl hne
  | cons x r ih =>
    cases r with
    | nil => simp only [joinWith]; exact splitOn_nosep _ _ (h x (by simp))
    | cons y r' =>
      have e : joinWith '/' (x :: y :: r') = x ++ '/' :: joinWith '/' (y :: r') := rfl
      rw [e, splitOn_append_sep, splitOn_nosep _ _ (h x (by simp)), ih (by simp) (fun c hc => h c (by simp [hc]))]
      rfl

theorem joinWith_snoc (comps : List Str) (hne : comps ≠ []) (h : ∀ c ∈ comps, c ≠ [] ∧ '/' ∉ c) :
    ∃ a c, joinWith '/' comps = a ++ [c] ∧ c ≠ '/' := by
  induction comps with
  | nil => exact absurd rfl hne
  | cons x r ih =>
    cases r with
    | nil =>
      obtain ⟨hx, hs⟩ := h x (by simp)
      refine ⟨x.dropLast, x.getLast hx, by simp [joinWith, List.dropLast_concat_getLast], ?_⟩
      intro e; exact hs (e ▸ List.getLast_mem hx)
    | cons y r' =>
      obtain ⟨a, c, ha, hc⟩ := ih (by simp) (fun c hc => h c (by simp [hc]))
      refine ⟨x ++ '/' :: a, c, ?_, hc⟩
      have e : joinWith '/' (x :: y :: r') = x ++ '/' :: joinWith '/' (y :: r') := rfl
      rw [e, ha]; simp

theorem joinWith_head (comps : List Str) (hne : comps ≠ []) (h : ∀ c ∈ comps, c ≠ [] ∧ '/' ∉ c) :
    ∃ c rest, joinWith '/' comps = c :: rest ∧ c ≠ '/' := by
  cases comps with
  | nil => exact absurd rfl hne
  | cons x r =>
    obtain ⟨hx, hs⟩ := h x (by simp)
    cases x with
    | nil => exact absurd rfl hx
    | cons c cs =>
      refine ⟨c, (joinWith '/' (cs :: r)), joinWith_cons_cons _ _ _ _, ?_⟩
      intro e; exact hs (by simp [e])

theorem normFold_good (initial : Nat) (acc comps : List Str) (h : ∀ c ∈ comps, GoodComp c) :
    comps.foldl (fun (acc : List Str) comp =>
      if comp = [] ∨ comp = ['.'] then acc
      else if comp ≠ ['.', '.'] ∨ (initial = 0 ∧ acc = []) ∨ acc.getLast? = some ['.', '.'] then acc ++ [comp]
      else acc.dropLast) acc = acc ++ comps := by
  induction comps generalizing acc with
  | nil => simp
  | cons c r ih =>
    obtain ⟨h1, _, h3, h4⟩ := h c (by simp)
    simp only [List.foldl_cons]
    rw [if_neg (by simp [h1, h3]), if_pos (Or.inl h4), ih _ (fun c hc => h c (by simp [hc]))]
    simp

theorem normpath_dot_slash (comps : List Str) (hne : comps ≠ []) (h : ∀ c ∈ comps, GoodComp c) :
    normpath ('/' :: '.' :: '/' :: joinWith '/' comps) = '/' :: joinWith '/' comps := by
  have hs : splitOn '/' ('/' :: '.' :: '/' :: joinWith '/' comps) = [] :: ['.'] :: comps := by
    have e : ('/' :: '.' :: '/' :: joinWith '/' comps) = [] ++ '/' :: (['.'] ++ '/' :: joinWith '/' comps) := rfl
    rw [e, splitOn_append_sep, splitOn_append_sep, splitOn_joinWith comps hne (fun c hc => (h c hc).2.1)]
    rfl
  have hinit : (if ('/' :: '.' :: '/' :: joinWith '/' comps).head? = some '/' then
      (if (List.drop 1 ('/' :: '.' :: '/' :: joinWith '/' comps)).head? = some '/' ∧
          (List.drop 2 ('/' :: '.' :: '/' :: joinWith '/' comps)).head? ≠ some '/' then 2 else 1) else 0) = 1 := by
    simp
  unfold normpath
  simp only [hs, hinit]
  have hf := normFold_good 1 [] comps h
  simp only [List.nil_append] at hf
  have hfold : List.foldl (fun (acc : List Str) comp =>
      if comp = [] ∨ comp = ['.'] then acc
      else if comp ≠ ['.', '.'] ∨ (1 = 0 ∧ acc = []) ∨ acc.getLast? = some ['.', '.'] then acc ++ [comp]
      else acc.dropLast) [] ([] :: ['.'] :: comps) = comps := by
    simp only [List.foldl_cons, true_or, or_true, if_true]
    exact hf
  rw [hfold]
  simp

theorem pathOK_of_normal (comps : List Str) (hne : comps ≠ []) (h : ∀ c ∈ comps, GoodComp c) :
    PathOK ('/' :: joinWith '/' comps) := by
  have hg : ∀ c ∈ comps, c ≠ [] ∧ '/' ∉ c := fun c hc => ⟨(h c hc).1, (h c hc).2.1⟩
  obtain ⟨c0, rest, hj, hc0⟩ := joinWith_head comps hne hg
  obtain ⟨a, cl, hl, hcl⟩ := joinWith_snoc comps hne hg
  have hrel : relName ('/' :: joinWith '/' comps) = '.' :: '/' :: joinWith '/' comps := by
    unfold relName lstripSlash
    rw [hj]
    simp [List.dropWhile, hc0]
  have hstrip : stripSlash ('.' :: '/' :: joinWith '/' comps) = '.' :: '/' :: joinWith '/' comps := by
    unfold stripSlash
    have h1 : List.dropWhile (· = '/') ('.' :: '/' :: joinWith '/' comps) = '.' :: '/' :: joinWith '/' comps := by
      simp [List.dropWhile]
    rw [h1, hl]
    have : ('.' :: '/' :: (a ++ [cl])).reverse = cl :: ('.' :: '/' :: a).reverse := by simp
    rw [this]
    simp [List.dropWhile, hcl]
  refine ⟨?_, ?_, ?_⟩
  · unfold absLoc
    rw [hrel, hstrip, normpath_dot_slash comps hne h]
  · unfold absLink
    rw [hrel]
    have hh : ¬ (('.' :: '/' :: joinWith '/' comps).head? = some '/') := by simp
    rw [if_neg hh, normpath_dot_slash comps hne h]
  · rw [hj]; simp


theorem normpath_normal (comps : List Str) (hne : comps ≠ []) (h : ∀ c ∈ comps, GoodComp c) :
    normpath ('/' :: joinWith '/' comps) = '/' :: joinWith '/' comps := by
  have hg : ∀ c ∈ comps, c ≠ [] ∧ '/' ∉ c := fun c hc => ⟨(h c hc).1, (h c hc).2.1⟩
  obtain ⟨c0, rest, hj, hc0⟩ := joinWith_head comps hne hg
  have hs : splitOn '/' ('/' :: joinWith '/' comps) = [] :: comps := by
    have e : ('/' :: joinWith '/' comps) = [] ++ '/' :: joinWith '/' comps := rfl
    rw [e, splitOn_append_sep, splitOn_joinWith comps hne (fun c hc => (h c hc).2.1)]
    rfl
  have hinit : (if ('/' :: joinWith '/' comps).head? = some '/' then
      (if (List.drop 1 ('/' :: joinWith '/' comps)).head? = some '/' ∧
          (List.drop 2 ('/' :: joinWith '/' comps)).head? ≠ some '/' then 2 else 1) else 0) = 1 := by
    rw [hj]; simp [hc0]
  unfold normpath
  simp only [hs, hinit]
  have hf := normFold_good 1 [] comps h
  simp only [List.nil_append] at hf
  have hfold : List.foldl (fun (acc : List Str) comp =>
      if comp = [] ∨ comp = ['.'] then acc
      else if comp ≠ ['.', '.'] ∨ (1 = 0 ∧ acc = []) ∨ acc.getLast? = some ['.', '.'] then acc ++ [comp]
      else acc.dropLast) [] ([] :: comps) = comps := by
    simp only [List.foldl_cons, true_or, if_true]
    exact hf
  rw [hfold]
  simp

/-- every normalised absolute location satisfies the hypothesis `LocNorm` of the relocation theorems -/
theorem locNorm_of_normal (comps : List Str) (hne : comps ≠ []) (h : ∀ c ∈ comps, GoodComp c) :
    LocNorm ('/' :: joinWith '/' comps) := by
  have hg : ∀ c ∈ comps, c ≠ [] ∧ '/' ∉ c := fun c hc => ⟨(h c hc).1, (h c hc).2.1⟩
  obtain ⟨a, cl, hl, hcl⟩ := joinWith_snoc comps hne hg
  unfold LocNorm cnPrefix
  rw [normpath_normal comps hne h, hl]
  have : ('/' :: (a ++ [cl])).reverse = cl :: ('/' :: a).reverse := by simp
  rw [this]
  simp [List.dropWhile, hcl]



/-! ## the bounded symlink loop -/

/-- when the loop over the symlinks ends normally, no symlink of its result lies below another one -/
theorem symLoop_settled (fuel : Nat) (syms F : List Obj) (h : symLoop fuel syms = some F) :
    ∀ x ∈ F, childNodes F x.loc = [] := by
  induction fuel generalizing syms with
  | zero => simp [symLoop] at h
  | succ fuel ih =>
    unfold symLoop at h
    simp only at h
    split at h
    · rename_i hnone
      cases h
      intro x hx
      rw [List.find?_eq_none] at hnone
      have := hnone x ((C28.sortBy_perm Obj.loc _).mem_iff.mpr hx)
      simpa using this
    · exact ih _ h

/-- `convert_archive` raises only through the pass bound of the symlink loop: everything after it is total -/
theorem convertArchive_none_iff (raw : List Obj) :
    convertArchive raw = none ↔
      symLoop (((setOf raw).filter Obj.isSym).length * ((setOf raw).filter Obj.isSym).length
        + ((setOf raw).filter Obj.isSym).length + 2) (setOf ((setOf raw).filter Obj.isSym)) = none := by
  unfold convertArchive
  simp only
  split
  · rename_i h; simp [h]
  · rename_i h; simp [h]

end Pkgcore.C25
