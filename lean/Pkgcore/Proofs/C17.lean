import Pkgcore.Spec.C17
/-!
# C17 — helper lemmas

Structure of the argument
1. `fwd s e` is the effect on the state of the logged entry `e` alone, `Pre s e` its precondition.
   Every successful `applyCmd` is a chain of `fwd`s (`apply_decomp`): the `decref` entries of the displaced
   choice point followed by the entry of the operation itself.
2. `revertEntry (fwd s e) e ≃ s` for every entry under `Pre` and the invariant `Inv` (`revert_fwd`).
3. `revertEntry` respects `≃` (`Sim`: every container up to permutation, `pkg_choices` up to lookup), so a
   whole suffix of the log can be undone (`revertAll_chain`).
4. `applyCmd` respects `≃` (`apply_congr`); the `decref` loop is insensitive to the order of the blocker list.
5. The history induction (`exec_inv`).
-/
namespace Pkgcore.C17
open List

/-! ## multiset toolkit -/

theorem count_filter' {α} [BEq α] [LawfulBEq α] (p : α → Bool) (a : α) (l : List α) :
    count a (filter p l) = if p a then count a l else 0 := by
  by_cases h : p a
  · simp [h, List.count_filter h]
  · have : count a (filter p l) = 0 := by rw [List.count_eq_zero]; simp [List.mem_filter, h]
    simp [h, this]

theorem perm_append_erase (l : List α) [BEq α] [LawfulBEq α] (x : α) : (l ++ [x]).erase x ~ l := by
  rw [List.perm_iff_count]; intro a
  simp only [List.count_erase, List.count_append, List.count_singleton]
  split <;> simp_all

theorem perm_erase_append [BEq α] [LawfulBEq α] {l : List α} {x : α} (h : x ∈ l) : l.erase x ++ [x] ~ l := by
  rw [List.perm_iff_count]; intro a
  simp only [List.count_erase, List.count_append, List.count_singleton]
  split
  · have : 0 < count a l := by rw [List.count_pos_iff]; simp_all
    omega
  · simp

theorem perm_filter_ne_append {l : List Nat} {x : Nat} (h : count x l = 1) : l.filter (· != x) ++ [x] ~ l := by
  rw [List.perm_iff_count]; intro a
  simp only [List.count_append, count_filter', List.count_singleton]
  by_cases h' : a = x
  · subst h'; simp [h]
  · have : ¬ x = a := fun e => h' e.symm
    simp [h', this]

theorem filter_ne_append_self {l : List Nat} {x : Nat} (h : x ∉ l) : (l ++ [x]).filter (· != x) = l := by
  rw [List.filter_append]
  have : l.filter (· != x) = l := by
    rw [List.filter_eq_self]; intro a ha; simp; rintro rfl; exact h ha
  simp [this]

theorem lookup_filter_ne (l : List (Nat × Nat)) (p q : Nat) :
    (l.filter (·.1 != p)).lookup q = if q = p then none else l.lookup q := by
  induction l with
  | nil => simp
  | cons x xs ih =>
    obtain ⟨k, v⟩ := x
    by_cases hk : k = p
    · subst hk
      simp only [List.filter_cons, bne_self_eq_false, Bool.false_eq_true, if_false, ih, List.lookup_cons]
      by_cases hq : q = k
      · simp [hq]
      · have : (q == k) = false := by simp [hq]
        simp [hq, this]
    · have : (k != p) = true := by simp [hk]
      simp only [List.filter_cons, this, if_true, List.lookup_cons, ih]
      by_cases hq : q = k
      · subst hq; simp [hk]
      · have : (q == k) = false := by simp [hq]
        simp [this]

/-! ## similarity of states, invariant -/

/-- every container up to permutation, `pkg_choices` up to lookup; the plan is not compared -/
structure Sim (s t : State) : Prop where
  slots : s.slots ~ t.slots
  limiters : s.limiters ~ t.limiters
  choices : ∀ p, s.choices.lookup p = t.choices.lookup p
  revb : s.revb ~ t.revb
  refcnt : s.refcnt ~ t.refcnt
  vdb : s.vdb ~ t.vdb
  forced : s.forced ~ t.forced

theorem Sim.refl (s : State) : Sim s s := ⟨.refl _, .refl _, fun _ => rfl, .refl _, .refl _, .refl _, .refl _⟩
theorem Sim.symm {s t : State} (h : Sim s t) : Sim t s :=
  ⟨h.slots.symm, h.limiters.symm, fun p => (h.choices p).symm, h.revb.symm, h.refcnt.symm, h.vdb.symm, h.forced.symm⟩
theorem Sim.trans {s t u : State} (h : Sim s t) (g : Sim t u) : Sim s u :=
  ⟨h.slots.trans g.slots, h.limiters.trans g.limiters, fun p => (h.choices p).trans (g.choices p),
   h.revb.trans g.revb, h.refcnt.trans g.refcnt, h.vdb.trans g.vdb, h.forced.trans g.forced⟩

theorem same_iff {s t : State} : Same s t ↔ Sim s t ∧ s.plan.length = t.plan.length :=
  ⟨fun h => ⟨⟨h.slots, h.limiters, h.choices, h.revb, h.refcnt, h.vdb, h.forced⟩, h.plan⟩,
   fun ⟨h, p⟩ => ⟨h.slots, h.limiters, h.choices, h.revb, h.refcnt, h.vdb, h.forced, p⟩⟩

/-- invariant of every reachable planner state -/
structure Inv (s : State) : Prop where
  /-- a package object is slotted at most once -/
  nodup : s.slots.Nodup
  /-- `pkg_choices` is keyed by exactly the slotted packages -/
  dom : ∀ p, p ∈ s.slots ↔ (s.choices.lookup p).isSome
  /-- a blocker is a limiter (once) exactly while it is referenced -/
  lim : ∀ b, s.limiters.count b = if b ∈ s.refcnt then 1 else 0

theorem Inv.of_sim {s t : State} (h : Sim s t) (i : Inv s) : Inv t where
  nodup := h.slots.nodup_iff.mp i.nodup
  dom p := by rw [← h.slots.mem_iff, ← h.choices p]; exact i.dom p
  lim b := by rw [← h.limiters.count_eq b, i.lim b]; simp [h.refcnt.mem_iff]

theorem Inv.lookup_none {s : State} (i : Inv s) {p : Nat} (h : p ∉ s.slots) : s.choices.lookup p = none := by
  have := mt (i.dom p).mpr h
  cases hq : s.choices.lookup p with
  | none => rfl
  | some v => rw [hq] at this; exact absurd rfl this

theorem inv_init : Inv init := ⟨by simp [init], by simp [init], by simp [init]⟩

theorem Inv.count_slot {s : State} (i : Inv s) {p : Nat} (h : p ∈ s.slots) : s.slots.count p = 1 := by
  have := List.nodup_iff_count.mp i.nodup p
  have : 0 < s.slots.count p := List.count_pos_iff.mpr h
  omega

/-! ## the effect of one logged entry -/

/-- what `apply` does to the state on behalf of the entry it logs (the `decref`s a `remove`/`replace`
triggers are logged, and accounted for, separately) -/
def fwd (U : Univ) (s : State) : Entry → State
  | .add c p f => push (setChoice { s with slots := s.slots ++ [p] } p c) (.add c p f)
  | .hardref r => { push s (.hardref r) with forced := s.forced ++ [r] }
  | .backref c p => push s (.backref c p)
  | .remove c p =>
    { push s (.remove c p) with
      slots := s.slots.filter (· != p), choices := s.choices.filter (·.1 != p), vdb := s.vdb ++ [p] }
  | .replace c p f old oldc =>
    { push s (.replace c p f old oldc) with
      slots := s.slots.filter (· != old) ++ [p]
      choices := (p, c) :: s.choices.filter (·.1 != old)
      vdb := s.vdb ++ [old] }
  | .incref c b => (increfApply U s c b).1
  | .decref c b =>
    { push s (.decref c b) with
      refcnt := s.refcnt.erase b
      limiters := if b ∈ s.refcnt.erase b then s.limiters else s.limiters.filter (· != b)
      revb := s.revb.erase (c, b) }

/-- precondition of an entry -/
def Pre (s : State) : Entry → Prop
  | .add _ p _ => p ∉ s.slots
  | .hardref _ => True
  | .backref _ _ => True
  | .remove c p => p ∈ s.slots ∧ s.choices.lookup p = some c
  | .replace _ p _ old oldc => old ∈ s.slots ∧ s.choices.lookup old = some oldc ∧ (p = old ∨ p ∉ s.slots)
  | .incref _ _ => True
  | .decref c b => b ∈ s.refcnt ∧ (c, b) ∈ s.revb

theorem fwd_plan (U : Univ) (s : State) (e : Entry) : (fwd U s e).plan = s.plan ++ [e] := by
  cases e <;> simp [fwd, push, setChoice, increfApply]

@[simp] theorem fill_force (U : Univ) (s : State) (p : Nat) :
    (fillSlotting U s p true).1 = { s with slots := s.slots ++ [p] } := by simp [fillSlotting]

theorem filter_ne_self {l : List Nat} {x : Nat} (h : x ∉ l) : l.filter (· != x) = l := by
  rw [List.filter_eq_self]; intro a ha; simp; rintro rfl; exact h ha

/-- **undoing one entry** restores the state it was applied to (up to `Sim`), and never raises -/
theorem revert_fwd (U : Univ) {s : State} {e : Entry} (i : Inv s) (h : Pre s e) :
    ∃ s'', revertEntry U (fwd U s e) e = some s'' ∧ Sim s'' s ∧ s''.plan = s.plan ++ [e] := by
  cases e with
  | add c p f =>
    have hp : p ∉ s.slots := h
    have hl : s.choices.lookup p = none := i.lookup_none hp
    simp [revertEntry, fwd, push, setChoice, removeSlotting, delChoice]
    refine ⟨?_, .refl _, ?_, .refl _, .refl _, .refl _, .refl _⟩
    · simp [filter_ne_self hp]
    · intro q; simp only [lookup_filter_ne]
      by_cases hq : q = p
      · simp [hq, hl]
      · simp [hq]
  | hardref r =>
    simp [revertEntry, fwd, push]
    exact ⟨.refl _, .refl _, fun _ => rfl, .refl _, .refl _, .refl _, perm_append_erase _ _⟩
  | backref c p =>
    simp [revertEntry, fwd, push]
    exact ⟨.refl _, .refl _, fun _ => rfl, .refl _, .refl _, .refl _, .refl _⟩
  | remove c p =>
    obtain ⟨hp, hl⟩ : p ∈ s.slots ∧ s.choices.lookup p = some c := h
    simp [revertEntry, fwd, push, setChoice, vdbRemove]
    refine ⟨perm_filter_ne_append (i.count_slot hp), .refl _, ?_, .refl _, .refl _, perm_append_erase _ _, .refl _⟩
    intro q; simp only [List.lookup_cons, lookup_filter_ne]
    by_cases hq : q = p
    · simp [hq, hl]
    · have : (q == p) = false := by simp [hq]
      simp [hq, this]
  | replace c p f old oldc =>
    obtain ⟨ho, hl, hp⟩ : old ∈ s.slots ∧ s.choices.lookup old = some oldc ∧ (p = old ∨ p ∉ s.slots) := h
    have hpf : p ∉ s.slots.filter (· != old) := by
      rcases hp with rfl | hp
      · simp
      · intro hm; exact hp (List.mem_filter.mp hm).1
    have hlp : p ≠ old → s.choices.lookup p = none := by
      intro hne
      rcases hp with rfl | hp
      · exact absurd rfl hne
      · exact i.lookup_none hp
    simp [revertEntry, fwd, push, setChoice, vdbRemove, removeSlotting, delChoice]
    refine ⟨?_, .refl _, ?_, .refl _, .refl _, perm_append_erase _ _, .refl _⟩
    · rw [List.perm_iff_count]; intro a
      simp only [List.count_append, count_filter', List.count_singleton]
      by_cases ha : a = old
      · subst ha; simp [i.count_slot ho]
      · have h1 : ¬ old = a := fun e => ha e.symm
        by_cases hap : a = p
        · subst hap
          have : a ∉ s.slots := by rcases hp with h | h; exact absurd h ha; exact h
          simp [h1, List.count_eq_zero.mpr this]
        · simp [ha, h1, hap]
    · intro q
      have : s.choices.filter (fun a => a.fst != p && a.fst != old)
          = (s.choices.filter (·.1 != old)).filter (·.1 != p) := by
        rw [List.filter_filter]
      simp only [List.lookup_cons, this, lookup_filter_ne]
      by_cases hq : q = old
      · simp [hq, hl]
      · have h1 : (q == old) = false := by simp [hq]
        by_cases hq2 : q = p
        · subst hq2; simp [h1, hlp hq]
        · simp [h1, hq, hq2]
  | incref c b =>
    have hmem : ∀ l : List Nat, b ∈ (l ++ [b]).erase b ↔ b ∈ l := fun l => (perm_append_erase l b).mem_iff
    by_cases hb : b ∈ s.refcnt
    · simp [revertEntry, fwd, increfApply, increfRevert, push, hb, hmem]
      exact ⟨.refl _, .refl _, fun _ => rfl, perm_append_erase _ _, perm_append_erase _ _, .refl _, .refl _⟩
    · have hlim : b ∉ s.limiters := by
        have := i.lim b; simp only [hb, if_false] at this; exact List.count_eq_zero.mp this
      simp [revertEntry, fwd, increfApply, increfRevert, push, hb, hmem, addLimiter, removeLimiter]
      refine ⟨.refl _, ?_, fun _ => rfl, perm_append_erase _ _, perm_append_erase _ _, .refl _, .refl _⟩
      simp [filter_ne_self hlim]
  | decref c b =>
    obtain ⟨hb, hcb⟩ : b ∈ s.refcnt ∧ (c, b) ∈ s.revb := h
    simp [revertEntry, decrefRevert, fwd, push, addLimiter]
    refine ⟨.refl _, ?_, fun _ => rfl, perm_erase_append hcb, perm_erase_append hb, .refl _, .refl _⟩
    by_cases hb' : b ∈ s.refcnt.erase b
    · simp [hb']
    · simp only [hb', if_false]
      apply perm_filter_ne_append
      have := i.lim b; simpa [hb] using this

/-! ## the invariant is kept by every entry -/

theorem inv_fwd (U : Univ) {s : State} {e : Entry} (i : Inv s) (h : Pre s e) : Inv (fwd U s e) := by
  cases e with
  | add c p f =>
    have hp : p ∉ s.slots := h
    refine ⟨?_, ?_, i.lim⟩
    · simp only [fwd, push, setChoice]
      rw [List.nodup_append]
      exact ⟨i.nodup, by simp, by intro a ha b hb; simp at hb; subst hb; rintro rfl; exact hp ha⟩
    · intro q
      simp only [fwd, push, setChoice, List.mem_append, List.mem_singleton, List.lookup_cons]
      by_cases hq : q = p
      · simp [hq]
      · have : (q == p) = false := by simp [hq]
        simp [hq, this, i.dom q]
  | hardref r => exact ⟨i.nodup, i.dom, i.lim⟩
  | backref c p => exact ⟨i.nodup, i.dom, i.lim⟩
  | remove c p =>
    refine ⟨i.nodup.filter _, ?_, i.lim⟩
    intro q
    simp only [fwd, push, List.mem_filter, lookup_filter_ne]
    by_cases hq : q = p
    · simp [hq]
    · simp [hq, i.dom q]
  | replace c p f old oldc =>
    obtain ⟨ho, hl, hp⟩ : old ∈ s.slots ∧ s.choices.lookup old = some oldc ∧ (p = old ∨ p ∉ s.slots) := h
    have hpf : p ∉ s.slots.filter (· != old) := by
      rcases hp with rfl | hp
      · simp
      · intro hm; exact hp (List.mem_filter.mp hm).1
    refine ⟨?_, ?_, i.lim⟩
    · simp only [fwd, push]
      rw [List.nodup_append]
      exact ⟨i.nodup.filter _, by simp, by intro a ha b hb; simp at hb; subst hb; rintro rfl; exact hpf ha⟩
    · intro q
      simp only [fwd, push, List.mem_append, List.mem_filter, List.mem_singleton, List.lookup_cons, lookup_filter_ne]
      by_cases hq : q = p
      · simp [hq]
      · have : (q == p) = false := by simp [hq]
        by_cases hq2 : q = old
        · subst hq2; simp [hq, this]
        · simp [hq, this, hq2, i.dom q]
  | incref c b =>
    refine ⟨i.nodup, i.dom, ?_⟩
    intro x
    simp only [fwd, increfApply, push, addLimiter, List.mem_append, List.mem_singleton]
    by_cases hb : b ∈ s.refcnt
    · simp only [hb, if_true, i.lim x]
      by_cases hx : x = b
      · simp [hx, hb]
      · simp [hx]
    · simp only [hb, if_false, List.count_append, List.count_singleton, i.lim x]
      by_cases hx : x = b
      · subst hx; simp [hb]
      · have : ¬ b = x := fun e => hx e.symm
        simp [hx, this]
  | decref c b =>
    obtain ⟨hb, hcb⟩ : b ∈ s.refcnt ∧ (c, b) ∈ s.revb := h
    refine ⟨i.nodup, i.dom, ?_⟩
    intro x
    simp only [fwd, push]
    by_cases hx : x = b
    · subst hx
      by_cases hb' : x ∈ s.refcnt.erase x
      · simp [hb', i.lim x, hb]
      · simp [hb', count_filter']
    · have hm : x ∈ s.refcnt.erase b ↔ x ∈ s.refcnt := List.mem_erase_of_ne hx
      by_cases hb' : b ∈ s.refcnt.erase b
      · simp [hb', i.lim x, hm]
      · simp [hb', hx, i.lim x, hm]

/-! ## `revertEntry` respects `Sim` -/

def OSim : Option State → Option State → Prop
  | none, none => True
  | some a, some b => Sim a b
  | _, _ => False

theorem OSim.bind {x y : Option State} {f g : State → Option State} (h : OSim x y)
    (hf : ∀ a b, Sim a b → OSim (f a) (g b)) : OSim (x.bind f) (y.bind g) := by
  cases x <;> cases y <;> simp_all [OSim]

theorem OSim.some_left {a : State} {y : Option State} (h : OSim (some a) y) : ∃ b, y = some b ∧ Sim a b := by
  cases y with
  | none => exact absurd h (by simp [OSim])
  | some b => exact ⟨b, rfl, h⟩

theorem sim_slots {s t : State} (h : Sim s t) {l l' : List Nat} (hl : l ~ l') :
    Sim { s with slots := l } { t with slots := l' } :=
  ⟨hl, h.limiters, h.choices, h.revb, h.refcnt, h.vdb, h.forced⟩

theorem removeSlotting_congr {s t : State} (h : Sim s t) (p : Nat) : OSim (removeSlotting s p) (removeSlotting t p) := by
  unfold removeSlotting
  by_cases hp : p ∈ s.slots
  · have hp' : p ∈ t.slots := h.slots.mem_iff.mp hp
    simp only [hp, hp', if_true, OSim]
    exact sim_slots h (h.slots.filter _)
  · have hp' : p ∉ t.slots := fun x => hp (h.slots.mem_iff.mpr x)
    simp [hp, hp', OSim]

theorem fill_force_congr (U : Univ) {s t : State} (h : Sim s t) (p : Nat) :
    Sim (fillSlotting U s p true).1 (fillSlotting U t p true).1 := by
  simp only [fill_force]
  exact sim_slots h (h.slots.append_right _)

theorem lookup_filter_congr {l l' : List (Nat × Nat)} (h : ∀ q, l.lookup q = l'.lookup q) (p q : Nat) :
    (l.filter (·.1 != p)).lookup q = (l'.filter (·.1 != p)).lookup q := by
  simp only [lookup_filter_ne, h]

theorem delChoice_congr {s t : State} (h : Sim s t) (p : Nat) : OSim (delChoice s p) (delChoice t p) := by
  unfold delChoice
  rw [h.choices p]
  by_cases hp : (t.choices.lookup p).isSome
  · simp only [hp, if_true, OSim]
    exact ⟨h.slots, h.limiters, lookup_filter_congr h.choices p, h.revb, h.refcnt, h.vdb, h.forced⟩
  · simp [hp, OSim]

theorem setChoice_congr {s t : State} (h : Sim s t) (p c : Nat) : Sim (setChoice s p c) (setChoice t p c) :=
  ⟨h.slots, h.limiters, by intro q; simp only [setChoice, List.lookup_cons, h.choices q], h.revb, h.refcnt, h.vdb, h.forced⟩

theorem vdbRemove_congr {s t : State} (h : Sim s t) (p : Nat) : OSim (vdbRemove s p) (vdbRemove t p) := by
  unfold vdbRemove
  by_cases hp : p ∈ s.vdb
  · have hp' : p ∈ t.vdb := h.vdb.mem_iff.mp hp
    simp only [hp, hp', if_true, OSim]
    exact ⟨h.slots, h.limiters, h.choices, h.revb, h.refcnt, h.vdb.erase _, h.forced⟩
  · have hp' : p ∉ t.vdb := fun x => hp (h.vdb.mem_iff.mpr x)
    simp [hp, hp', OSim]

theorem removeLimiter_congr {s t : State} (h : Sim s t) (b : Nat) : OSim (removeLimiter s b) (removeLimiter t b) := by
  unfold removeLimiter
  by_cases hp : b ∈ s.limiters
  · have hp' : b ∈ t.limiters := h.limiters.mem_iff.mp hp
    simp only [hp, hp', if_true, OSim]
    exact ⟨h.slots, h.limiters.filter _, h.choices, h.revb, h.refcnt, h.vdb, h.forced⟩
  · have hp' : b ∉ t.limiters := fun x => hp (h.limiters.mem_iff.mpr x)
    simp [hp, hp', OSim]

theorem increfRevert_congr {s t : State} (h : Sim s t) (c b : Nat) : OSim (increfRevert s c b) (increfRevert t c b) := by
  unfold increfRevert
  by_cases h1 : (c, b) ∈ s.revb
  · have h1' : (c, b) ∈ t.revb := h.revb.mem_iff.mp h1
    by_cases h2 : b ∈ s.refcnt
    · have h2' : b ∈ t.refcnt := h.refcnt.mem_iff.mp h2
      have he : s.refcnt.erase b ~ t.refcnt.erase b := h.refcnt.erase _
      have hs : Sim { s with revb := s.revb.erase (c, b), refcnt := s.refcnt.erase b }
          { t with revb := t.revb.erase (c, b), refcnt := t.refcnt.erase b } :=
        ⟨h.slots, h.limiters, h.choices, h.revb.erase _, he, h.vdb, h.forced⟩
      by_cases h3 : b ∈ s.refcnt.erase b
      · have h3' : b ∈ t.refcnt.erase b := he.mem_iff.mp h3
        simp only [h1, h1', h2, h2', h3, h3', if_true, OSim]
        exact hs
      · have h3' : b ∉ t.refcnt.erase b := fun x => h3 (he.mem_iff.mpr x)
        simp only [h1, h1', h2, h2', h3, h3', if_true, if_false]
        exact removeLimiter_congr hs b
    · have h2' : b ∉ t.refcnt := fun x => h2 (h.refcnt.mem_iff.mpr x)
      simp [h1, h1', h2, h2', OSim]
  · have h1' : (c, b) ∉ t.revb := fun x => h1 (h.revb.mem_iff.mpr x)
    simp [h1, h1', OSim]

theorem decrefRevert_congr (U : Univ) {s t : State} (h : Sim s t) (c b : Nat) :
    Sim (decrefRevert U s c b) (decrefRevert U t c b) := by
  unfold decrefRevert
  refine ⟨h.slots, ?_, h.choices, h.revb.append_right _, h.refcnt.append_right _, h.vdb, h.forced⟩
  by_cases h2 : b ∈ s.refcnt
  · have h2' : b ∈ t.refcnt := h.refcnt.mem_iff.mp h2
    simp only [h2, h2', if_true]; exact h.limiters
  · have h2' : b ∉ t.refcnt := fun x => h2 (h.refcnt.mem_iff.mpr x)
    simp only [h2, h2', if_false, addLimiter]; exact h.limiters.append_right _

theorem revertEntry_congr (U : Univ) {s t : State} (h : Sim s t) (e : Entry) :
    OSim (revertEntry U s e) (revertEntry U t e) := by
  cases e with
  | add c p f => exact (removeSlotting_congr h p).bind fun a b hab => delChoice_congr hab p
  | hardref r =>
    simp only [revertEntry]
    by_cases hp : r ∈ s.forced
    · have hp' : r ∈ t.forced := h.forced.mem_iff.mp hp
      simp only [hp, hp', if_true, OSim]
      exact ⟨h.slots, h.limiters, h.choices, h.revb, h.refcnt, h.vdb, h.forced.erase _⟩
    · have hp' : r ∉ t.forced := fun x => hp (h.forced.mem_iff.mpr x)
      simp [hp, hp', OSim]
  | backref c p => exact h
  | remove c p => exact vdbRemove_congr (setChoice_congr (fill_force_congr U h p) p c) p
  | replace c p f old oldc =>
    exact (removeSlotting_congr h p).bind fun a b hab =>
      (delChoice_congr (fill_force_congr U hab old) p).bind fun a b hab => vdbRemove_congr (setChoice_congr hab old oldc) old
  | incref c b => exact increfRevert_congr h c b
  | decref c b => exact decrefRevert_congr U h c b

theorem removeSlotting_plan {s s' : State} {p : Nat} (h : removeSlotting s p = some s') : s'.plan = s.plan := by
  unfold removeSlotting at h; split at h <;> simp at h; subst h; rfl
theorem delChoice_plan {s s' : State} {p : Nat} (h : delChoice s p = some s') : s'.plan = s.plan := by
  unfold delChoice at h; split at h <;> simp at h; subst h; rfl
theorem vdbRemove_plan {s s' : State} {p : Nat} (h : vdbRemove s p = some s') : s'.plan = s.plan := by
  unfold vdbRemove at h; split at h <;> simp at h; subst h; rfl
theorem removeLimiter_plan {s s' : State} {p : Nat} (h : removeLimiter s p = some s') : s'.plan = s.plan := by
  unfold removeLimiter at h; split at h <;> simp at h; subst h; rfl
theorem increfRevert_plan {s s' : State} {c b : Nat} (h : increfRevert s c b = some s') : s'.plan = s.plan := by
  unfold increfRevert at h
  by_cases h1 : (c, b) ∈ s.revb
  · by_cases h2 : b ∈ s.refcnt
    · by_cases h3 : b ∈ s.refcnt.erase b
      · simp only [h1, h2, h3, if_true, Option.some.injEq] at h; subst h; rfl
      · simp only [h1, h2, h3, if_true, if_false] at h; exact (removeLimiter_plan h).trans rfl
    · simp [h1, h2] at h
  · simp [h1] at h

theorem revertEntry_plan (U : Univ) {s s' : State} {e : Entry} (h : revertEntry U s e = some s') : s'.plan = s.plan := by
  cases e with
  | add c p f =>
    simp only [revertEntry, Option.bind_eq_some_iff] at h
    obtain ⟨a, h1, h2⟩ := h
    rw [delChoice_plan h2, removeSlotting_plan h1]
  | hardref r =>
    simp only [revertEntry] at h; split at h <;> simp at h; subst h; rfl
  | backref c p => simp only [revertEntry, Option.some.injEq] at h; subst h; rfl
  | remove c p =>
    simp only [revertEntry] at h
    rw [vdbRemove_plan h]; simp [setChoice]
  | replace c p f old oldc =>
    simp only [revertEntry, Option.bind_eq_some_iff] at h
    obtain ⟨a, h1, b, h2, h3⟩ := h
    rw [vdbRemove_plan h3]; simp only [setChoice]
    rw [delChoice_plan h2]; simp only [fill_force]
    rw [removeSlotting_plan h1]
  | incref c b => exact increfRevert_plan h
  | decref c b => simp only [revertEntry, Option.some.injEq] at h; subst h; rfl

/-! ## undoing a whole suffix of the log -/

/-- a chain of entries, each applicable where it is applied -/
def ChainPre (U : Univ) : State → List Entry → Prop
  | _, [] => True
  | s, e :: es => Pre s e ∧ ChainPre U (fwd U s e) es

def fwdAll (U : Univ) (s : State) (es : List Entry) : State := es.foldl (fwd U) s

theorem fwdAll_plan (U : Univ) (s : State) (es : List Entry) : (fwdAll U s es).plan = s.plan ++ es := by
  induction es generalizing s with
  | nil => simp [fwdAll]
  | cons e es ih => simp only [fwdAll, List.foldl_cons] at ih ⊢; rw [ih, fwd_plan]; simp

theorem inv_fwdAll (U : Univ) {s : State} {es : List Entry} (i : Inv s) (h : ChainPre U s es) : Inv (fwdAll U s es) := by
  induction es generalizing s with
  | nil => exact i
  | cons e es ih => exact ih (inv_fwd U i h.1) h.2

theorem revertAll_congr (U : Univ) {s t : State} (h : Sim s t) (es : List Entry) :
    OSim (revertAll U s es) (revertAll U t es) := by
  induction es generalizing s t with
  | nil => exact h
  | cons e es ih => exact (revertEntry_congr U h e).bind fun a b hab => ih hab

theorem revertAll_plan (U : Univ) {s s' : State} {es : List Entry} (h : revertAll U s es = some s') : s'.plan = s.plan := by
  induction es generalizing s with
  | nil => simp only [revertAll, Option.some.injEq] at h; subst h; rfl
  | cons e es ih =>
    simp only [revertAll, Option.bind_eq_some_iff] at h
    obtain ⟨a, h1, h2⟩ := h
    rw [ih h2, revertEntry_plan U h1]

theorem revertAll_append (U : Univ) (s : State) (es fs : List Entry) :
    revertAll U s (es ++ fs) = (revertAll U s es).bind fun s => revertAll U s fs := by
  induction es generalizing s with
  | nil => simp [revertAll]
  | cons e es ih =>
    simp only [List.cons_append, revertAll, ih]
    cases revertEntry U s e <;> simp

/-- **undoing a chain of entries** (in reverse order) restores the state the chain started from -/
theorem revertAll_chain (U : Univ) {s : State} {es : List Entry} (i : Inv s) (h : ChainPre U s es) :
    ∃ s'', revertAll U (fwdAll U s es) es.reverse = some s'' ∧ Sim s'' s := by
  induction es generalizing s with
  | nil => exact ⟨s, rfl, Sim.refl s⟩
  | cons e es ih =>
    obtain ⟨s1, h1, hs1⟩ := ih (inv_fwd U i h.1) h.2
    obtain ⟨s2, h2, hs2, _⟩ := revert_fwd U i h.1
    have := revertEntry_congr U hs1 e
    rw [h2] at this
    obtain ⟨s3, h3, hs3⟩ : ∃ s3, revertEntry U s1 e = some s3 ∧ Sim s3 s2 := by
      cases hr : revertEntry U s1 e with
      | none => rw [hr] at this; exact absurd this (by simp [OSim])
      | some s3 => rw [hr] at this; exact ⟨s3, rfl, this⟩
    refine ⟨s3, ?_, hs3.trans hs2⟩
    simp only [List.reverse_cons, revertAll_append, fwdAll, List.foldl_cons] at h1 ⊢
    rw [h1]
    simp [revertAll, h3]

/-! ## `backtrack` -/

theorem sim_setplan {s t : State} (h : Sim s t) (pl : List Entry) : Sim { s with plan := pl } t :=
  ⟨h.slots, h.limiters, h.choices, h.revb, h.refcnt, h.vdb, h.forced⟩

/-- rolling back to the position a chain of entries started from -/
theorem backtrack_chain (U : Univ) {s : State} {es : List Entry} (i : Inv s) (h : ChainPre U s es) :
    ∃ s'', backtrack U (fwdAll U s es) s.plan.length = some s'' ∧ Sim s'' s ∧ s''.plan = s.plan := by
  obtain ⟨s1, h1, hs1⟩ := revertAll_chain U i h
  have hp := revertAll_plan U h1
  refine ⟨{ s1 with plan := s1.plan.take s.plan.length }, ?_, sim_setplan hs1 _, ?_⟩
  · simp [backtrack, fwdAll_plan, h1]
  · simp [hp, fwdAll_plan]

theorem revertEntry_setplan (U : Univ) (s : State) (pl : List Entry) (e : Entry) :
    revertEntry U { s with plan := pl } e = (revertEntry U s e).map fun s' => { s' with plan := pl } := by
  cases e with
  | add c p f =>
    simp only [revertEntry, removeSlotting, delChoice]
    by_cases h1 : p ∈ s.slots <;> by_cases h2 : (s.choices.lookup p).isSome <;> simp [h1, h2]
  | hardref r => simp only [revertEntry]; by_cases h1 : r ∈ s.forced <;> simp [h1]
  | backref c p => simp [revertEntry]
  | remove c p => simp only [revertEntry, vdbRemove, setChoice, fill_force]; by_cases h1 : p ∈ s.vdb <;> simp [h1]
  | replace c p f old oldc =>
    simp only [revertEntry, removeSlotting, delChoice, vdbRemove, setChoice, fill_force]
    by_cases h1 : p ∈ s.slots <;> by_cases h2 : (s.choices.lookup p).isSome <;> by_cases h3 : old ∈ s.vdb <;>
      simp [h1, h2, h3]
  | incref c b =>
    simp only [revertEntry, increfRevert, removeLimiter]
    by_cases h1 : (c, b) ∈ s.revb <;> by_cases h2 : b ∈ s.refcnt <;> by_cases h3 : b ∈ s.refcnt.erase b <;>
      by_cases h4 : b ∈ s.limiters <;> simp [h1, h2, h3, h4]
  | decref c b => simp [revertEntry, decrefRevert, addLimiter]

theorem revertAll_setplan (U : Univ) (s : State) (pl : List Entry) (es : List Entry) :
    revertAll U { s with plan := pl } es = (revertAll U s es).map fun s' => { s' with plan := pl } := by
  induction es generalizing s with
  | nil => simp [revertAll]
  | cons e es ih =>
    simp only [revertAll, revertEntry_setplan]
    cases revertEntry U s e with
    | none => simp
    | some a => simp [ih]

/-- rolling back in two stages is rolling back at once -/
theorem backtrack_trans (U : Univ) (s : State) {k m : Nat} (hk : k ≤ m) (hm : m ≤ s.plan.length) :
    backtrack U s k = (backtrack U s m).bind fun s' => backtrack U s' k := by
  have hsplit : (s.plan.drop k).reverse = (s.plan.drop m).reverse ++ ((s.plan.take m).drop k).reverse := by
    rw [← List.reverse_append]
    congr 1
    have : s.plan.drop k = (s.plan.take m ++ s.plan.drop m).drop k := by rw [List.take_append_drop]
    rw [this, List.drop_append_of_le_length (by simp; omega)]
  simp only [backtrack, Nat.le_trans hk hm, hm, if_true, hsplit, revertAll_append]
  cases h1 : revertAll U s (s.plan.drop m).reverse with
  | none => simp
  | some s1 =>
    have hp := revertAll_plan U h1
    simp only [Option.bind_some, Option.map_some, hp, List.length_take, Nat.min_eq_left hm, hk, if_true, revertAll_setplan]
    cases h2 : revertAll U s1 ((s.plan.take m).drop k).reverse with
    | none => simp
    | some s2 =>
      have hp2 := revertAll_plan U h2
      simp [hp2, hp, List.take_take, Nat.min_eq_left hk]

theorem backtrack_self (U : Univ) (s : State) : backtrack U s s.plan.length = some s := by
  simp [backtrack, revertAll]

theorem backtrack_congr (U : Univ) {s t : State} (h : Sim s t) (hp : s.plan = t.plan) (k : Nat) :
    OSim (backtrack U s k) (backtrack U t k) ∧
      ∀ s' t', backtrack U s k = some s' → backtrack U t k = some t' → s'.plan = t'.plan := by
  simp only [backtrack, ← hp]
  by_cases hk : k ≤ s.plan.length
  · simp only [hk, if_true]
    have := revertAll_congr U h (s.plan.drop k).reverse
    cases h1 : revertAll U s (s.plan.drop k).reverse with
    | none =>
      rw [h1] at this
      cases h2 : revertAll U t (s.plan.drop k).reverse with
      | none => simp [OSim]
      | some b => rw [h2] at this; exact absurd this (by simp [OSim])
    | some a =>
      rw [h1] at this
      cases h2 : revertAll U t (s.plan.drop k).reverse with
      | none => rw [h2] at this; exact absurd this (by simp [OSim])
      | some b =>
        rw [h2] at this
        have pa := revertAll_plan U h1
        have pb := revertAll_plan U h2
        refine ⟨?_, ?_⟩
        · simp only [Option.map_some, OSim]
          exact ⟨this.slots, this.limiters, this.choices, this.revb, this.refcnt, this.vdb, this.forced⟩
        · intro s' t' e1 e2
          simp only [Option.map_some, Option.some.injEq] at e1 e2
          subst e1 e2; simp [pa, pb, hp]
  · simp [hk, OSim]

/-! ## every successful `apply` is a chain of entries -/

def decs (c : Nat) (bs : List Nat) : List Entry := bs.map (Entry.decref c)

theorem decrefApply_some (U : Univ) {s s1 : State} {c b : Nat} (h : decrefApply s c b = some s1) :
    Pre s (.decref c b) ∧ s1 = fwd U s (.decref c b) := by
  unfold decrefApply at h
  simp only [push] at h
  by_cases h1 : b ∈ s.refcnt
  · simp only [h1, if_true] at h
    by_cases h2 : b ∈ s.refcnt.erase b
    · simp only [h2, if_true, Option.bind_some] at h
      by_cases h3 : (c, b) ∈ s.revb
      · simp only [h3, if_true, Option.some.injEq] at h
        exact ⟨⟨h1, h3⟩, by subst h; simp [fwd, push, h2]⟩
      · simp [h3] at h
    · simp only [h2, if_false, removeLimiter] at h
      by_cases h4 : b ∈ s.limiters
      · simp only [h4, if_true, Option.bind_some] at h
        by_cases h3 : (c, b) ∈ s.revb
        · simp only [h3, if_true, Option.some.injEq] at h
          exact ⟨⟨h1, h3⟩, by subst h; simp [fwd, push, h2]⟩
        · simp [h3] at h
      · simp [h4] at h
  · simp [h1] at h

theorem decrefAll_decomp (U : Univ) {s s1 : State} {c : Nat} {bs : List Nat} (h : decrefAll s c bs = some s1) :
    ChainPre U s (decs c bs) ∧ s1 = fwdAll U s (decs c bs) := by
  induction bs generalizing s with
  | nil => simp only [decrefAll, Option.some.injEq] at h; subst h; exact ⟨trivial, rfl⟩
  | cons b bs ih =>
    simp only [decrefAll, Option.bind_eq_some_iff] at h
    obtain ⟨a, h1, h2⟩ := h
    obtain ⟨hp, ha⟩ := decrefApply_some U h1
    subst ha
    obtain ⟨hc, hs⟩ := ih h2
    exact ⟨⟨hp, hc⟩, hs⟩

theorem fwdAll_append (U : Univ) (s : State) (es fs : List Entry) :
    fwdAll U s (es ++ fs) = fwdAll U (fwdAll U s es) fs := by simp [fwdAll]

theorem chainPre_append (U : Univ) {s : State} {es fs : List Entry} (h1 : ChainPre U s es)
    (h2 : ChainPre U (fwdAll U s es) fs) : ChainPre U s (es ++ fs) := by
  induction es generalizing s with
  | nil => exact h2
  | cons e es ih => exact ⟨h1.1, ih h1.2 h2⟩

/-- the `decref` entries leave the package side of the state alone … -/
theorem fwdAll_decs_frame (U : Univ) (s : State) (c : Nat) (bs : List Nat) :
    (fwdAll U s (decs c bs)).slots = s.slots ∧ (fwdAll U s (decs c bs)).choices = s.choices ∧
    (fwdAll U s (decs c bs)).vdb = s.vdb ∧ (fwdAll U s (decs c bs)).forced = s.forced := by
  induction bs generalizing s with
  | nil => simp [fwdAll, decs]
  | cons b bs ih =>
    have := ih (fwd U s (.decref c b))
    simp only [fwdAll, decs, List.map_cons, List.foldl_cons] at this ⊢
    simpa [fwd, push] using this

/-- … and do not look at the slot table -/
theorem fwdAll_decs_slots (U : Univ) (s : State) (c : Nat) (bs : List Nat) (X : List Nat) :
    fwdAll U { s with slots := X } (decs c bs) = { fwdAll U s (decs c bs) with slots := X } := by
  induction bs generalizing s with
  | nil => simp [fwdAll, decs]
  | cons b bs ih =>
    simp only [fwdAll, decs, List.map_cons, List.foldl_cons] at ih ⊢
    rw [← ih]; rfl

theorem chainPre_decs_slots (U : Univ) (s : State) (c : Nat) (bs : List Nat) (X : List Nat)
    (h : ChainPre U { s with slots := X } (decs c bs)) : ChainPre U s (decs c bs) := by
  induction bs generalizing s with
  | nil => trivial
  | cons b bs ih =>
    simp only [decs, List.map_cons, ChainPre] at h ⊢
    exact ⟨h.1, ih _ h.2⟩

theorem sameSlot_self (U : Univ) (p : Nat) : sameSlot U p p = true := by simp [sameSlot]

theorem not_mem_of_conflicts_nil (U : Univ) {s : State} {p : Nat} (h : (conflicts U s p).isEmpty = true) : p ∉ s.slots := by
  intro hp
  have : p ∈ occupants U s p := List.mem_filter.mpr ⟨hp, sameSlot_self U p⟩
  simp only [conflicts, List.isEmpty_iff, List.append_eq_nil_iff, List.map_eq_nil_iff] at h
  rw [h.2] at this; exact absurd this (by simp)

/-- what a successful `apply` amounts to: either it logged a chain of entries, or it was refused and the
state is (similar to) what it was -/
def Outcome (U : Univ) (s s' : State) : Prop :=
  (∃ es, es ≠ [] ∧ ChainPre U s es ∧ s' = fwdAll U s es) ∨ (Sim s' s ∧ s'.plan = s.plan)

theorem outcome_one (U : Univ) {s : State} (e : Entry) (h : Pre s e) : Outcome U s (fwd U s e) :=
  .inl ⟨[e], by simp, ⟨h, trivial⟩, rfl⟩

theorem apply_decomp_add (U : Univ) {s s' : State} {c p : Nat} {f : Bool} {out : List Conf}
    (ha : applicable U s (.add c p f) = true) (h : applyCmd U s (.add c p f) = some (s', out)) : Outcome U s s' := by
  simp only [applyCmd, fillSlotting] at h
  cases hc : (conflicts U s p).isEmpty <;> cases f <;>
    simp only [hc, Bool.not_true, Bool.not_false, Bool.and_true, Bool.and_false, Bool.or_true, Bool.or_false,
      Bool.false_eq_true, if_true, if_false, Option.some.injEq, Prod.mk.injEq] at h
  · exact .inr ⟨by rw [← h.1]; exact Sim.refl _, by rw [← h.1]⟩
  · rw [← h.1]; exact outcome_one U (.add c p true) (show p ∉ s.slots by simpa [applicable] using ha)
  · rw [← h.1]; exact outcome_one U (.add c p false) (not_mem_of_conflicts_nil U hc)
  · rw [← h.1]; exact outcome_one U (.add c p true) (show p ∉ s.slots by simpa [applicable] using ha)

theorem removeSlotting_some {s sa : State} {p : Nat} (h : removeSlotting s p = some sa) :
    p ∈ s.slots ∧ sa = { s with slots := s.slots.filter (· != p) } := by
  unfold removeSlotting at h
  by_cases hp : p ∈ s.slots
  · simp only [hp, if_true, Option.some.injEq] at h; exact ⟨hp, h.symm⟩
  · simp [hp] at h

theorem delChoice_some {s sa : State} {p : Nat} (h : delChoice s p = some sa) :
    (s.choices.lookup p).isSome ∧ sa = { s with choices := s.choices.filter (·.1 != p) } := by
  unfold delChoice at h
  by_cases hp : (s.choices.lookup p).isSome
  · simp only [hp, if_true, Option.some.injEq] at h; exact ⟨hp, h.symm⟩
  · simp [hp] at h

theorem apply_decomp_remove (U : Univ) {s s' : State} {c p : Nat} {out : List Conf}
    (ha : applicable U s (.remove c p) = true) (h : applyCmd U s (.remove c p) = some (s', out)) :
    Outcome U s s' := by
  simp only [applyCmd, Option.bind_eq_some_iff, removePkgBlockers] at h
  obtain ⟨sa, h1, sb, h2, sc, h3, h4⟩ := h
  obtain ⟨hp, rfl⟩ := removeSlotting_some h1
  obtain ⟨hch, hsb⟩ := decrefAll_decomp U h2
  obtain ⟨_, rfl⟩ := delChoice_some h3
  simp only [Option.some.injEq, Prod.mk.injEq] at h4
  have hl : s.choices.lookup p = some c := by simpa [applicable] using ha
  have hbs : blockersOf { s with slots := s.slots.filter (· != p) } c = blockersOf s c := rfl
  rw [hbs] at hch hsb
  rw [fwdAll_decs_slots] at hsb
  obtain ⟨f1, f2, f3, f4⟩ := fwdAll_decs_frame U s c (blockersOf s c)
  refine .inl ⟨decs c (blockersOf s c) ++ [.remove c p], by simp, ?_, ?_⟩
  · refine chainPre_append U (chainPre_decs_slots U s c _ _ hch) ⟨?_, trivial⟩
    exact ⟨by rw [f1]; exact hp, by rw [f2]; exact hl⟩
  · rw [fwdAll_append, ← h4.1, hsb]
    have : ∀ T : State, fwdAll U T [.remove c p] = fwd U T (.remove c p) := fun _ => rfl
    rw [this]
    simp [fwd, push, f1]

theorem chainPre_decs_slots' (U : Univ) (s : State) (c : Nat) (bs : List Nat) (X : List Nat)
    (h : ChainPre U s (decs c bs)) : ChainPre U { s with slots := X } (decs c bs) := by
  induction bs generalizing s with
  | nil => trivial
  | cons b bs ih =>
    simp only [decs, List.map_cons, ChainPre] at h ⊢
    exact ⟨h.1, ih _ h.2⟩

theorem occupants_single (U : Univ) {s : State} {p old : Nat} (h : occupants U s p = [old]) :
    old ∈ s.slots ∧ (p = old ∨ p ∉ s.slots) := by
  have ho : old ∈ occupants U s p := by rw [h]; simp
  refine ⟨(List.mem_filter.mp ho).1, ?_⟩
  by_cases hp : p ∈ s.slots
  · have : p ∈ occupants U s p := List.mem_filter.mpr ⟨hp, sameSlot_self U p⟩
    rw [h] at this; left; simpa using this
  · exact .inr hp

/-- the refused branch of `replace_op.apply`: put the old package back, roll the `decref`s back -/
theorem replace_refused (U : Univ) {s sb : State} {old oldc : Nat} (i : Inv s) (ho : old ∈ s.slots)
    (h2 : decrefAll { s with slots := s.slots.filter (· != old) } oldc (blockersOf s oldc) = some sb) :
    ∃ s'', backtrack U { sb with slots := sb.slots ++ [old] } s.plan.length = some s'' ∧ Sim s'' s ∧ s''.plan = s.plan := by
  obtain ⟨hch, hsb⟩ := decrefAll_decomp U h2
  rw [fwdAll_decs_slots] at hsb
  let s0 : State := { s with slots := s.slots.filter (· != old) ++ [old] }
  have hs0 : Sim s0 s := sim_slots (Sim.refl s) (perm_filter_ne_append (i.count_slot ho))
  have i0 : Inv s0 := Inv.of_sim hs0.symm i
  have hch0 : ChainPre U s0 (decs oldc (blockersOf s oldc)) :=
    chainPre_decs_slots' U s oldc _ _ (chainPre_decs_slots U s oldc _ _ hch)
  obtain ⟨s'', hb', hs'', hp''⟩ := backtrack_chain U i0 hch0
  have hX : fwdAll U s0 (decs oldc (blockersOf s oldc)) =
      { fwdAll U s (decs oldc (blockersOf s oldc)) with slots := s.slots.filter (· != old) ++ [old] } :=
    fwdAll_decs_slots U s oldc _ _
  rw [hX] at hb'
  have : s0.plan.length = s.plan.length := rfl
  rw [this] at hb'
  refine ⟨s'', ?_, hs''.trans hs0, hp''⟩
  rw [hsb]; exact hb'

theorem apply_decomp_replace (U : Univ) {s s' : State} {c p : Nat} {f : Bool} {out : List Conf} (i : Inv s)
    (ha : applicable U s (.replace c p f) = true) (h : applyCmd U s (.replace c p f) = some (s', out)) :
    Outcome U s s' := by
  simp only [applyCmd, Option.bind_eq_some_iff, removePkgBlockers, conflictingSlot] at h
  obtain ⟨old, h0, sa, h1, oldc, hl, sb, h2, h3⟩ := h
  have hocc : occupants U s p = [old] := by
    have hlen : (occupants U s p).length = 1 := by simpa [applicable] using ha
    match hq : occupants U s p, hlen with
    | [x], _ => rw [hq] at h0; simp at h0; rw [h0]
  obtain ⟨ho, hpo⟩ := occupants_single U hocc
  obtain ⟨_, rfl⟩ := removeSlotting_some h1
  obtain ⟨hch, hsb⟩ := decrefAll_decomp U h2
  have hbs : blockersOf { s with slots := s.slots.filter (· != old) } oldc = blockersOf s oldc := rfl
  rw [hbs] at hch hsb
  rw [fwdAll_decs_slots] at hsb
  obtain ⟨f1, f2, f3, f4⟩ := fwdAll_decs_frame U s oldc (blockersOf s oldc)
  have hl' : s.choices.lookup old = some oldc := hl
  by_cases hr : (!(fillSlotting U sb p f).2.isEmpty && !f) = true
  · -- refused: the old package goes back, the decrefs are rolled back
    simp only [hr, if_true, Option.map_eq_some_iff] at h3
    obtain ⟨s3, hb, h4⟩ := h3
    simp only [Prod.mk.injEq] at h4
    have hnot : ((conflicts U sb p).isEmpty || f) = false := by
      simp only [fillSlotting] at hr
      cases hc : (conflicts U sb p).isEmpty <;> cases f <;> simp_all
    have hr1 : (fillSlotting U sb p f).1 = sb := by simp [fillSlotting, hnot]
    rw [hr1, fill_force, hsb] at hb
    obtain ⟨s'', hb', hs'', hp''⟩ := replace_refused U i ho h2
    rw [hsb] at hb'
    simp only at hb hb'
    rw [hb] at hb'
    simp only [Option.some.injEq] at hb'
    rw [← h4.1, hb']
    exact .inr ⟨hs'', hp''⟩
  · have hr' : (!(fillSlotting U sb p f).2.isEmpty && !f) = false := by simpa using hr
    simp only [hr', Bool.false_eq_true, if_false, Option.bind_eq_some_iff] at h3
    obtain ⟨sc, h5, h6⟩ := h3
    simp only [Option.some.injEq, Prod.mk.injEq] at h6
    have hyes : ((conflicts U sb p).isEmpty || f) = true := by
      simp only [fillSlotting] at hr
      cases hc : (conflicts U sb p).isEmpty <;> cases f <;> simp_all
    have hr1 : (fillSlotting U sb p f).1 = { sb with slots := sb.slots ++ [p] } := by simp [fillSlotting, hyes]
    rw [hr1] at h5
    obtain ⟨_, rfl⟩ := delChoice_some h5
    refine .inl ⟨decs oldc (blockersOf s oldc) ++ [.replace c p f old oldc], by simp, ?_, ?_⟩
    · refine chainPre_append U (chainPre_decs_slots U s oldc _ _ hch) ⟨?_, trivial⟩
      exact ⟨by rw [f1]; exact ho, by rw [f2]; exact hl', by rw [f1]; exact hpo⟩
    · rw [fwdAll_append, ← h6.1, hsb]
      have : ∀ T : State, fwdAll U T [.replace c p f old oldc] = fwd U T (.replace c p f old oldc) := fun _ => rfl
      rw [this]
      simp [fwd, push, setChoice, f1]

/-- **decomposition**: every successful `apply` of an applicable operation on a consistent state -/
theorem apply_decomp (U : Univ) {s s' : State} {c : Cmd} {out : List Conf} (i : Inv s)
    (ha : applicable U s c = true) (h : applyCmd U s c = some (s', out)) : Outcome U s s' := by
  cases c with
  | add c p f => exact apply_decomp_add U ha h
  | hardref r =>
    simp only [applyCmd, Option.some.injEq, Prod.mk.injEq] at h
    rw [← h.1]; exact outcome_one U (.hardref r) trivial
  | backref c p =>
    simp only [applyCmd, Option.some.injEq, Prod.mk.injEq] at h
    rw [← h.1]; exact outcome_one U (.backref c p) trivial
  | remove c p => exact apply_decomp_remove U ha h
  | replace c p f => exact apply_decomp_replace U i ha h
  | incref c b =>
    simp only [applyCmd, Option.some.injEq, Prod.mk.injEq] at h
    rw [← h.1]; exact outcome_one U (.incref c b) trivial
  | decref c b =>
    simp only [applyCmd, Option.map_eq_some_iff] at h
    obtain ⟨s1, h1, h2⟩ := h
    simp only [Prod.mk.injEq] at h2
    obtain ⟨hp, rfl⟩ := decrefApply_some U h1
    rw [← h2.1]; exact outcome_one U (.decref c b) hp

/-! ## consequences of the decomposition -/

theorem revert_apply_aux (U : Univ) {s s' : State} {c : Cmd} {out : List Conf} (i : Inv s)
    (ha : applicable U s c = true) (h : applyCmd U s c = some (s', out)) :
    ∃ s'', backtrack U s' s.plan.length = some s'' ∧ Sim s'' s ∧ s''.plan = s.plan := by
  rcases apply_decomp U i ha h with ⟨es, _, hch, rfl⟩ | ⟨hs, hp⟩
  · exact backtrack_chain U i hch
  · refine ⟨s', ?_, hs, hp⟩
    rw [← hp]; exact backtrack_self U s'

theorem apply_inv (U : Univ) {s s' : State} {c : Cmd} {out : List Conf} (i : Inv s)
    (ha : applicable U s c = true) (h : applyCmd U s c = some (s', out)) : Inv s' := by
  rcases apply_decomp U i ha h with ⟨es, _, hch, rfl⟩ | ⟨hs, _⟩
  · exact inv_fwdAll U i hch
  · exact Inv.of_sim hs.symm i

theorem apply_plan_le (U : Univ) {s s' : State} {c : Cmd} {out : List Conf} (i : Inv s)
    (ha : applicable U s c = true) (h : applyCmd U s c = some (s', out)) : s.plan.length ≤ s'.plan.length := by
  rcases apply_decomp U i ha h with ⟨es, _, hch, rfl⟩ | ⟨_, hp⟩
  · simp [fwdAll_plan]
  · simp [hp]

/-! ## `applyCmd` respects `Same` -/

def OSame : Option State → Option State → Prop
  | none, none => True
  | some a, some b => Same a b
  | _, _ => False

theorem OSame.bind {x y : Option State} {f g : State → Option State} (h : OSame x y)
    (hf : ∀ a b, Same a b → OSame (f a) (g b)) : OSame (x.bind f) (y.bind g) := by
  cases x <;> cases y <;> simp_all [OSame]

theorem OSame.of {x y : Option State} (h : OSim x y)
    (hp : ∀ a b, x = some a → y = some b → a.plan.length = b.plan.length) : OSame x y := by
  cases x <;> cases y <;> simp_all [OSame, OSim, same_iff]

theorem OSame.trans {x y z : Option State} (h : OSame x y) (g : OSame y z) : OSame x z := by
  cases x <;> cases y <;> cases z <;> simp_all [OSame]
  exact same_iff.mpr ⟨(same_iff.mp h).1.trans (same_iff.mp g).1, (same_iff.mp h).2.trans (same_iff.mp g).2⟩

theorem Same.sim {s t : State} (h : Same s t) : Sim s t := (same_iff.mp h).1
theorem Same.refl (s : State) : Same s s := same_iff.mpr ⟨Sim.refl s, rfl⟩

theorem removeSlotting_same {s t : State} (h : Same s t) (p : Nat) : OSame (removeSlotting s p) (removeSlotting t p) :=
  .of (removeSlotting_congr h.sim p) fun a b ha hb => by rw [removeSlotting_plan ha, removeSlotting_plan hb]; exact h.plan

theorem delChoice_same {s t : State} (h : Same s t) (p : Nat) : OSame (delChoice s p) (delChoice t p) :=
  .of (delChoice_congr h.sim p) fun a b ha hb => by rw [delChoice_plan ha, delChoice_plan hb]; exact h.plan

theorem decrefApply_congr {s t : State} (h : Sim s t) (c b : Nat) : OSim (decrefApply s c b) (decrefApply t c b) := by
  unfold decrefApply
  simp only [push]
  by_cases h1 : b ∈ s.refcnt
  · have h1' : b ∈ t.refcnt := h.refcnt.mem_iff.mp h1
    have he : s.refcnt.erase b ~ t.refcnt.erase b := h.refcnt.erase _
    simp only [h1, h1', if_true]
    have hfin : ∀ a b', Sim a b' → OSim (if (c, b) ∈ a.revb then some { a with revb := a.revb.erase (c, b) } else none)
        (if (c, b) ∈ b'.revb then some { b' with revb := b'.revb.erase (c, b) } else none) := by
      intro a b' hab
      by_cases h3 : (c, b) ∈ a.revb
      · have h3' : (c, b) ∈ b'.revb := hab.revb.mem_iff.mp h3
        simp only [h3, h3', if_true, OSim]
        exact ⟨hab.slots, hab.limiters, hab.choices, hab.revb.erase _, hab.refcnt, hab.vdb, hab.forced⟩
      · have h3' : (c, b) ∉ b'.revb := fun x => h3 (hab.revb.mem_iff.mpr x)
        simp [h3, h3', OSim]
    apply OSim.bind _ hfin
    have hs : Sim { s with refcnt := s.refcnt.erase b, plan := s.plan ++ [Entry.decref c b] }
        { t with refcnt := t.refcnt.erase b, plan := t.plan ++ [Entry.decref c b] } :=
      ⟨h.slots, h.limiters, h.choices, h.revb, he, h.vdb, h.forced⟩
    by_cases h2 : b ∈ s.refcnt.erase b
    · have h2' : b ∈ t.refcnt.erase b := he.mem_iff.mp h2
      simp only [h2, h2', if_true, OSim]; exact hs
    · have h2' : b ∉ t.refcnt.erase b := fun x => h2 (he.mem_iff.mpr x)
      simp only [h2, h2', if_false]; exact removeLimiter_congr hs b
  · have h1' : b ∉ t.refcnt := fun x => h1 (h.refcnt.mem_iff.mpr x)
    simp [h1, h1', OSim]

theorem decrefApply_plan {s s1 : State} {c b : Nat} (h : decrefApply s c b = some s1) : s1.plan = s.plan ++ [.decref c b] := by
  have := (decrefApply_some ⟨id, id, id, fun _ _ => false⟩ h).2
  rw [this, fwd_plan]

theorem decrefApply_same {s t : State} (h : Same s t) (c b : Nat) : OSame (decrefApply s c b) (decrefApply t c b) :=
  .of (decrefApply_congr h.sim c b) fun a b' ha hb => by
    rw [decrefApply_plan ha, decrefApply_plan hb]; simp [h.plan]

theorem decrefAll_same {s t : State} (h : Same s t) (c : Nat) (bs : List Nat) :
    OSame (decrefAll s c bs) (decrefAll t c bs) := by
  induction bs generalizing s t with
  | nil => exact h
  | cons b bs ih => exact (decrefApply_same h c b).bind fun a b' hab => ih hab

/-- closed form of `decref_forward_block_op.apply` -/
def dOk (s : State) (c b : Nat) : Prop :=
  b ∈ s.refcnt ∧ (b ∈ s.refcnt.erase b ∨ b ∈ s.limiters) ∧ (c, b) ∈ s.revb

instance (s : State) (c b : Nat) : Decidable (dOk s c b) := by unfold dOk; infer_instance

def dFwd (s : State) (c b : Nat) : State :=
  { s with
    refcnt := s.refcnt.erase b
    limiters := if b ∈ s.refcnt.erase b then s.limiters else s.limiters.filter (· != b)
    revb := s.revb.erase (c, b)
    plan := s.plan ++ [.decref c b] }

theorem decrefApply_eq (s : State) (c b : Nat) : decrefApply s c b = if dOk s c b then some (dFwd s c b) else none := by
  unfold decrefApply dOk dFwd
  simp only [push, removeLimiter]
  by_cases h1 : b ∈ s.refcnt <;> by_cases h2 : b ∈ s.refcnt.erase b <;> by_cases h3 : (c, b) ∈ s.revb <;>
    by_cases h4 : b ∈ s.limiters <;> simp [h1, h2, h3, h4]

theorem OSame.rfl' (x : Option State) : OSame x x := by
  cases x <;> simp [OSame, Same.refl]

theorem decref_swap (s : State) (c x y : Nat) :
    OSame ((decrefApply s c x).bind fun s => decrefApply s c y) ((decrefApply s c y).bind fun s => decrefApply s c x) := by
  by_cases hxy : x = y
  · subst hxy; exact OSame.rfl' _
  have hyx : y ≠ x := fun e => hxy e.symm
  have hcxy : (c, x) ≠ (c, y) := by simp [hxy]
  have hcyx : (c, y) ≠ (c, x) := by simp [hyx]
  have m1 : y ∈ s.refcnt.erase x ↔ y ∈ s.refcnt := List.mem_erase_of_ne hyx
  have m2 : x ∈ s.refcnt.erase y ↔ x ∈ s.refcnt := List.mem_erase_of_ne hxy
  have m3 : y ∈ (s.refcnt.erase x).erase y ↔ y ∈ s.refcnt.erase y := by
    rw [List.erase_comm]; exact List.mem_erase_of_ne hyx
  have m4 : x ∈ (s.refcnt.erase y).erase x ↔ x ∈ s.refcnt.erase x := by
    rw [List.erase_comm]; exact List.mem_erase_of_ne hxy
  have m5 : (c, y) ∈ s.revb.erase (c, x) ↔ (c, y) ∈ s.revb := List.mem_erase_of_ne hcyx
  have m6 : (c, x) ∈ s.revb.erase (c, y) ↔ (c, x) ∈ s.revb := List.mem_erase_of_ne hcxy
  have m7 : y ∈ s.limiters.filter (· != x) ↔ y ∈ s.limiters := by simp [List.mem_filter, hyx]
  have m8 : x ∈ s.limiters.filter (· != y) ↔ x ∈ s.limiters := by simp [List.mem_filter, hxy]
  have ok1 : dOk (dFwd s c x) c y ↔ dOk s c y := by
    unfold dOk dFwd; simp only [m1, m3, m5]
    by_cases hx : x ∈ s.refcnt.erase x <;> simp [hx, m7]
  have ok2 : dOk (dFwd s c y) c x ↔ dOk s c x := by
    unfold dOk dFwd; simp only [m2, m4, m6]
    by_cases hy : y ∈ s.refcnt.erase y <;> simp [hy, m8]
  simp only [decrefApply_eq]
  by_cases hx : dOk s c x <;> by_cases hy : dOk s c y <;> simp [hx, hy, ok1, ok2, OSame]
  refine same_iff.mpr ⟨⟨.refl _, ?_, fun _ => rfl, ?_, ?_, .refl _, .refl _⟩, by simp [dFwd]⟩
  · simp only [dFwd, m3, m4]
    by_cases ex : x ∈ s.refcnt.erase x <;> by_cases ey : y ∈ s.refcnt.erase y <;> simp [ex, ey]
    rw [List.perm_iff_count]; intro a
    simp only [count_filter']
    by_cases h1 : a = x <;> by_cases h2 : a = y <;> simp [h1, h2]
  · simp only [dFwd]; rw [List.erase_comm]
  · simp only [dFwd]; rw [List.erase_comm]

/-- the `decref` loop does not depend on the order of the blocker list -/
theorem decrefAll_perm (c : Nat) {bs bs' : List Nat} (hp : bs ~ bs') :
    ∀ s t, Same s t → OSame (decrefAll s c bs) (decrefAll t c bs') := by
  induction hp with
  | nil => intro s t h; exact h
  | cons x _ ih => intro s t h; exact (decrefApply_same h c x).bind fun a b hab => ih a b hab
  | swap x y l =>
    intro s t h
    have h1 : OSame (decrefAll s c (y :: x :: l)) (decrefAll s c (x :: y :: l)) := by
      simp only [decrefAll, ← Option.bind_assoc]
      exact (decref_swap s c y x).bind fun a b hab => decrefAll_same hab c l
    exact h1.trans (decrefAll_same h c (x :: y :: l))
  | trans _ _ ih1 ih2 => intro s t h; exact (ih1 s s (Same.refl s)).trans (ih2 s t h)

theorem blockersOf_perm {s t : State} (h : Sim s t) (c : Nat) : blockersOf s c ~ blockersOf t c :=
  (h.revb.filter _).map _

theorem removePkgBlockers_same {s t : State} (h : Same s t) (c : Nat) :
    OSame (removePkgBlockers s c) (removePkgBlockers t c) :=
  decrefAll_perm c (blockersOf_perm h.sim c) s t h

theorem conflicts_perm (U : Univ) {s t : State} (h : Sim s t) (p : Nat) : conflicts U s p ~ conflicts U t p :=
  ((h.limiters.filter _).map _).append ((h.slots.filter _).map _)

theorem conflicts_isEmpty (U : Univ) {s t : State} (h : Sim s t) (p : Nat) :
    (conflicts U s p).isEmpty = (conflicts U t p).isEmpty := by
  have := (conflicts_perm U h p).length_eq
  cases h1 : conflicts U s p <;> cases h2 : conflicts U t p <;> simp_all

theorem same_of {s t s' t' : State} (h : Same s t)
    (e : s'.limiters = s.limiters ∧ s'.revb = s.revb ∧ s'.refcnt = s.refcnt ∧ s'.forced = s.forced)
    (e' : t'.limiters = t.limiters ∧ t'.revb = t.revb ∧ t'.refcnt = t.refcnt ∧ t'.forced = t.forced)
    (hs : s'.slots ~ t'.slots) (hc : ∀ q, s'.choices.lookup q = t'.choices.lookup q) (hv : s'.vdb ~ t'.vdb)
    (hp : s'.plan.length = t'.plan.length) : Same s' t' :=
  ⟨hs, by rw [e.1, e'.1]; exact h.limiters, hc, by rw [e.2.1, e'.2.1]; exact h.revb,
   by rw [e.2.2.1, e'.2.2.1]; exact h.refcnt, hv, by rw [e.2.2.2, e'.2.2.2]; exact h.forced, hp⟩

theorem applicable_congr (U : Univ) {s t : State} (h : Sim s t) (c : Cmd) : applicable U s c = applicable U t c := by
  cases c with
  | add c p f =>
    simp only [applicable]
    have : s.slots.contains p = t.slots.contains p := by
      rw [Bool.eq_iff_iff]; simp [h.slots.mem_iff]
    rw [this]
  | remove c p => simp only [applicable, h.choices p]
  | replace c p f => simp only [applicable, occupants, (h.slots.filter _).length_eq]
  | _ => rfl

theorem OSame.some_left {a : State} {y : Option State} (h : OSame (some a) y) : ∃ b, y = some b ∧ Same a b := by
  cases y with
  | none => exact absurd h (by simp [OSame])
  | some b => exact ⟨b, rfl, h⟩

/-- the state part of `applyCmd` -/
def applySt (U : Univ) (s : State) (c : Cmd) : Option State := (applyCmd U s c).map (·.1)

theorem applySt_remove (U : Univ) (s : State) (c p : Nat) :
    applySt U s (.remove c p) =
      (removeSlotting s p).bind fun s => (removePkgBlockers s c).bind fun s => (delChoice s p).bind fun s =>
        some { push s (.remove c p) with vdb := s.vdb ++ [p] } := by
  simp only [applySt, applyCmd]
  cases removeSlotting s p with
  | none => rfl
  | some a =>
    simp only [Option.bind_some]
    cases removePkgBlockers a c with
    | none => rfl
    | some b =>
      simp only [Option.bind_some]
      cases delChoice b p <;> rfl

theorem remove_same (U : Univ) {s t : State} (h : Same s t) (c p : Nat) :
    OSame (applySt U s (.remove c p)) (applySt U t (.remove c p)) := by
  simp only [applySt_remove]
  refine (removeSlotting_same h p).bind fun a b hab => (removePkgBlockers_same hab c).bind fun a b hab =>
    (delChoice_same hab p).bind fun a b hab => ?_
  simp only [OSame, push]
  exact ⟨hab.slots, hab.limiters, hab.choices, hab.revb, hab.refcnt, hab.vdb.append_right _, hab.forced,
    by simp [hab.plan]⟩

theorem occupants_of_applicable (U : Univ) {s : State} {c p : Nat} {f : Bool} {old : Nat}
    (ha : applicable U s (.replace c p f) = true) (h0 : (occupants U s p).head? = some old) :
    occupants U s p = [old] := by
  have hlen : (occupants U s p).length = 1 := by simpa [applicable] using ha
  match hq : occupants U s p, hlen with
  | [x], _ => rw [hq] at h0; simp at h0; rw [h0]

theorem replace_same (U : Univ) {s t s' : State} {c p : Nat} {f : Bool} {out : List Conf} (h : Same s t)
    (is : Inv s) (it : Inv t) (ha : applicable U s (.replace c p f) = true)
    (hs : applyCmd U s (.replace c p f) = some (s', out)) :
    ∃ t' out', applyCmd U t (.replace c p f) = some (t', out') ∧ Same s' t' := by
  simp only [applyCmd, Option.bind_eq_some_iff, conflictingSlot] at hs
  obtain ⟨old, h0, sa, h1, oldc, hl, sb, h2, h3⟩ := hs
  have hocc : occupants U s p = [old] := occupants_of_applicable U ha h0
  have hocct : occupants U t p = [old] := by
    have : occupants U t p ~ occupants U s p := (h.slots.filter _).symm
    rw [hocc] at this; exact this.eq_singleton
  obtain ⟨ho, _⟩ := occupants_single U hocc
  obtain ⟨hot, _⟩ := occupants_single U hocct
  obtain ⟨ta, h1t, hsa⟩ := OSame.some_left (by have := removeSlotting_same h old; rwa [h1] at this)
  obtain ⟨_, esa⟩ := removeSlotting_some h1
  obtain ⟨_, eta⟩ := removeSlotting_some h1t
  have hlt : ta.choices.lookup old = some oldc := by rw [← hsa.choices old]; exact hl
  obtain ⟨tb, h2t, hsb⟩ := OSame.some_left (by have := removePkgBlockers_same hsa oldc; rwa [h2] at this)
  have hce : (conflicts U sb p).isEmpty = (conflicts U tb p).isEmpty := conflicts_isEmpty U hsb.sim p
  simp only [applyCmd, conflictingSlot, hocct, List.head?_cons, Option.bind_some, h1t, hlt, h2t]
  have hfs : (fillSlotting U sb p f).2 = conflicts U sb p := rfl
  have hft : (fillSlotting U tb p f).2 = conflicts U tb p := rfl
  by_cases hr : (!(conflicts U sb p).isEmpty && !f) = true
  · have hrt : (!(conflicts U tb p).isEmpty && !f) = true := by rw [← hce]; exact hr
    rw [hfs] at h3; rw [hft]
    simp only [hr, hrt, if_true, Option.map_eq_some_iff] at h3 ⊢
    obtain ⟨s3, hb, h4⟩ := h3
    simp only [Prod.mk.injEq] at h4
    have hnot : ((conflicts U sb p).isEmpty || f) = false := by
      cases hc : (conflicts U sb p).isEmpty <;> cases f <;> simp_all
    have hnott : ((conflicts U tb p).isEmpty || f) = false := by rw [← hce]; exact hnot
    have hr1 : (fillSlotting U sb p f).1 = sb := by simp [fillSlotting, hnot]
    have hr1t : (fillSlotting U tb p f).1 = tb := by simp [fillSlotting, hnott]
    rw [hr1, fill_force] at hb
    rw [hr1t, fill_force]
    subst esa eta
    obtain ⟨s'', hb', hs'', hp''⟩ := replace_refused U is ho h2
    obtain ⟨t'', hbt', ht'', hpt''⟩ := replace_refused U it hot h2t
    rw [hb] at hb'; simp only [Option.some.injEq] at hb'
    refine ⟨t'', conflicts U tb p, ⟨t'', ?_, rfl⟩, ?_⟩
    · exact hbt'
    · rw [← h4.1, hb']
      exact same_iff.mpr ⟨(hs''.trans h.sim).trans ht''.symm, by rw [hp'', hpt'']; exact h.plan⟩
  · have hr' : (!(conflicts U sb p).isEmpty && !f) = false := by simpa using hr
    have hrt' : (!(conflicts U tb p).isEmpty && !f) = false := by rw [← hce]; exact hr'
    rw [hfs] at h3; rw [hft]
    simp only [hr', hrt', Bool.false_eq_true, if_false, Option.bind_eq_some_iff] at h3 ⊢
    obtain ⟨sc, h5, h6⟩ := h3
    simp only [Option.some.injEq, Prod.mk.injEq] at h6
    have hyes : ((conflicts U sb p).isEmpty || f) = true := by
      cases hc : (conflicts U sb p).isEmpty <;> cases f <;> simp_all
    have hyest : ((conflicts U tb p).isEmpty || f) = true := by rw [← hce]; exact hyes
    have hr1 : (fillSlotting U sb p f).1 = { sb with slots := sb.slots ++ [p] } := by simp [fillSlotting, hyes]
    have hr1t : (fillSlotting U tb p f).1 = { tb with slots := tb.slots ++ [p] } := by simp [fillSlotting, hyest]
    rw [hr1] at h5
    rw [hr1t]
    have hsame : Same { sb with slots := sb.slots ++ [p] } { tb with slots := tb.slots ++ [p] } :=
      ⟨hsb.slots.append_right _, hsb.limiters, hsb.choices, hsb.revb, hsb.refcnt, hsb.vdb, hsb.forced, hsb.plan⟩
    obtain ⟨tc, h5t, hsc⟩ := OSame.some_left (by have := delChoice_same hsame old; rwa [h5] at this)
    refine ⟨_, [], ⟨tc, h5t, rfl⟩, ?_⟩
    rw [← h6.1]
    simp only [push, setChoice]
    exact ⟨hsc.slots, hsc.limiters, by intro q; simp only [List.lookup_cons, hsc.choices q], hsc.revb, hsc.refcnt,
      hsc.vdb.append_right _, hsc.forced, by simp [hsc.plan]⟩

theorem applySt_some (U : Univ) {s s' : State} {c : Cmd} (h : applySt U s c = some s') :
    ∃ out, applyCmd U s c = some (s', out) := by
  simp only [applySt, Option.map_eq_some_iff] at h
  obtain ⟨⟨a, out⟩, h1, h2⟩ := h
  exact ⟨out, by rw [h1]; simp at h2; rw [h2]⟩

/-- **`apply` respects `Same`**: on states with equal snapshots an operation succeeds on both or on
neither, and the results have equal snapshots again -/
theorem apply_same (U : Univ) {s t s' : State} {c : Cmd} {out : List Conf} (h : Same s t)
    (is : Inv s) (it : Inv t) (ha : applicable U s c = true) (hs : applyCmd U s c = some (s', out)) :
    ∃ t' out', applyCmd U t c = some (t', out') ∧ Same s' t' := by
  cases c with
  | add c p f =>
    have hce := conflicts_isEmpty U h.sim p
    simp only [applyCmd, fillSlotting] at hs ⊢
    cases hc : (conflicts U s p).isEmpty <;> cases f <;>
      (have hct := hce.symm.trans hc
       simp only [hc, hct, Bool.not_true, Bool.not_false, Bool.and_true, Bool.and_false, Bool.or_true, Bool.or_false,
        Bool.false_eq_true, if_true, if_false, Option.some.injEq, Prod.mk.injEq] at hs ⊢)
    · exact ⟨_, _, ⟨rfl, rfl⟩, by rw [← hs.1]; exact h⟩
    all_goals
      refine ⟨_, _, ⟨rfl, rfl⟩, ?_⟩
      rw [← hs.1]
      simp only [push, setChoice]
      exact ⟨h.slots.append_right _, h.limiters, by intro q; simp only [List.lookup_cons, h.choices q], h.revb,
        h.refcnt, h.vdb, h.forced, by simp [h.plan]⟩
  | hardref r =>
    simp only [applyCmd, Option.some.injEq, Prod.mk.injEq] at hs ⊢
    refine ⟨_, _, ⟨rfl, rfl⟩, ?_⟩
    rw [← hs.1]; simp only [push]
    exact ⟨h.slots, h.limiters, h.choices, h.revb, h.refcnt, h.vdb, h.forced.append_right _, by simp [h.plan]⟩
  | backref c p =>
    simp only [applyCmd, Option.some.injEq, Prod.mk.injEq] at hs ⊢
    refine ⟨_, _, ⟨rfl, rfl⟩, ?_⟩
    rw [← hs.1]; simp only [push]
    exact ⟨h.slots, h.limiters, h.choices, h.revb, h.refcnt, h.vdb, h.forced, by simp [h.plan]⟩
  | remove c p =>
    have h1 : applySt U s (.remove c p) = some s' := by simp [applySt, hs]
    obtain ⟨t', h2, h3⟩ := OSame.some_left (by have := remove_same U h c p; rwa [h1] at this)
    obtain ⟨out', h4⟩ := applySt_some U h2
    exact ⟨t', out', h4, h3⟩
  | replace c p f => exact replace_same U h is it ha hs
  | incref c b =>
    simp only [applyCmd, Option.some.injEq, Prod.mk.injEq] at hs ⊢
    refine ⟨_, _, ⟨rfl, rfl⟩, ?_⟩
    rw [← hs.1]; simp only [increfApply, push, addLimiter]
    refine ⟨h.slots, ?_, h.choices, h.revb.append_right _, h.refcnt.append_right _, h.vdb, h.forced, by simp [h.plan]⟩
    by_cases hb : b ∈ s.refcnt
    · have hb' : b ∈ t.refcnt := h.refcnt.mem_iff.mp hb
      simp only [hb, hb', if_true]; exact h.limiters
    · have hb' : b ∉ t.refcnt := fun x => hb (h.refcnt.mem_iff.mpr x)
      simp only [hb, hb', if_false]; exact h.limiters.append_right _
  | decref c b =>
    simp only [applyCmd, Option.map_eq_some_iff] at hs
    obtain ⟨s1, h1, h2⟩ := hs
    simp only [Prod.mk.injEq] at h2
    obtain ⟨t', h3, h4⟩ := OSame.some_left (by have := decrefApply_same h c b; rwa [h1] at this)
    exact ⟨t', [], by simp [applyCmd, h3], by rw [← h2.1]; exact h4⟩

/-! ## histories -/

theorem replay_append (U : Univ) (s : State) (cs : List Cmd) (c : Cmd) :
    replay U s (cs ++ [c]) = (replay U s cs).bind fun t => (applyCmd U t c).map (·.1) := by
  induction cs generalizing s with
  | nil => simp only [List.nil_append, replay, Option.bind_some]; cases applyCmd U s c <;> simp
  | cons d ds ih =>
    simp only [List.cons_append, replay]
    cases applyCmd U s d with
    | none => simp
    | some r => simp [ih]

theorem backtrack_plan (U : Univ) {s s' : State} {k : Nat} (h : backtrack U s k = some s') :
    k ≤ s.plan.length ∧ s'.plan = s.plan.take k := by
  unfold backtrack at h
  by_cases hk : k ≤ s.plan.length
  · simp only [hk, if_true, Option.map_eq_some_iff] at h
    obtain ⟨a, h1, h2⟩ := h
    refine ⟨hk, ?_⟩
    rw [← h2, revertAll_plan U h1]
  · simp [hk] at h

/-- the invariant of a run: `marks[j]` is a position the planner can be rolled back to, and doing so gives
the snapshot of the replay of the first `j` surviving operations -/
structure RunInv (U : Univ) (r : Run) (cs : List Cmd) : Prop where
  len : r.marks.length = cs.length + 1
  inv : Inv r.st
  last : r.marks[cs.length]? = some r.st.plan.length
  mono : ∀ (i j ki kj : Nat), i ≤ j → r.marks[i]? = some ki → r.marks[j]? = some kj → ki ≤ kj
  rel : ∀ (j k : Nat), r.marks[j]? = some k →
    ∃ sj tj, backtrack U r.st k = some sj ∧ replay U init (cs.take j) = some tj ∧ Same sj tj ∧ Inv tj

theorem runInv_init (U : Univ) : RunInv U Run.init [] where
  len := rfl
  inv := inv_init
  last := rfl
  mono := by
    intro i j ki kj _ hi hj
    simp only [Run.init] at hi hj
    cases i <;> cases j <;> simp_all
  rel := by
    intro j k hj
    simp only [Run.init] at hj
    cases j with
    | zero =>
      simp only [List.getElem?_cons_zero, Option.some.injEq] at hj; subst hj
      exact ⟨init, init, backtrack_self U init, rfl, Same.refl _, inv_init⟩
    | succ n => simp at hj

theorem RunInv.cur (U : Univ) {r : Run} {cs : List Cmd} (J : RunInv U r cs) :
    ∃ t, replay U init cs = some t ∧ Same r.st t ∧ Inv t := by
  obtain ⟨sj, tj, h1, h2, h3, h4⟩ := J.rel _ _ J.last
  rw [backtrack_self] at h1
  simp only [Option.some.injEq] at h1; subst h1
  rw [List.take_length] at h2
  exact ⟨tj, h2, h3, h4⟩

theorem RunInv.le (U : Univ) {r : Run} {cs : List Cmd} (J : RunInv U r cs) {j k : Nat} (h : r.marks[j]? = some k) :
    k ≤ r.st.plan.length := by
  have hj : j < r.marks.length := by
    rcases Nat.lt_or_ge j r.marks.length with h' | h'
    · exact h'
    · rw [List.getElem?_eq_none h'] at h; exact absurd h (by simp)
  exact J.mono j cs.length k _ (by rw [J.len] at hj; omega) h J.last

theorem runInv_op (U : Univ) {r : Run} {cs : List Cmd} (J : RunInv U r cs) {c : Cmd} {s' : State} {out : List Conf}
    (ha : applicable U r.st c = true) (h : applyCmd U r.st c = some (s', out)) :
    RunInv U ⟨s', r.marks ++ [s'.plan.length]⟩ (cs ++ [c]) := by
  have hle := apply_plan_le U J.inv ha h
  have hlen : r.marks.length = cs.length + 1 := J.len
  refine ⟨by simp [J.len], apply_inv U J.inv ha h, ?_, ?_, ?_⟩
  · simp only [List.length_append, List.length_singleton]
    rw [List.getElem?_append_right (by omega)]
    simp [hlen]
  · intro i j ki kj hij hi hj
    by_cases hjl : j < r.marks.length
    · rw [List.getElem?_append_left hjl] at hj
      rw [List.getElem?_append_left (by omega)] at hi
      exact J.mono i j ki kj hij hi hj
    · have hj' : j = r.marks.length := by
        rcases Nat.lt_or_ge j (r.marks ++ [s'.plan.length]).length with h' | h'
        · simp at h'; omega
        · rw [List.getElem?_eq_none h'] at hj; exact absurd hj (by simp)
      subst hj'
      rw [List.getElem?_append_right (Nat.le_refl _)] at hj
      simp only [Nat.sub_self, List.getElem?_cons_zero, Option.some.injEq] at hj
      subst hj
      by_cases hil : i < r.marks.length
      · rw [List.getElem?_append_left hil] at hi
        exact Nat.le_trans (J.le U hi) hle
      · have : i = r.marks.length := by omega
        subst this
        rw [List.getElem?_append_right (Nat.le_refl _)] at hi
        simp at hi; omega
  · intro j k hj
    by_cases hjl : j < r.marks.length
    · rw [List.getElem?_append_left hjl] at hj
      obtain ⟨sj, tj, h1, h2, h3, h4⟩ := J.rel j k hj
      have hk := J.le U hj
      obtain ⟨s'', hb, hs'', hp''⟩ := revert_apply_aux U J.inv ha h
      have htr := backtrack_trans U s' hk hle
      rw [hb, Option.bind_some] at htr
      obtain ⟨hc1, hc2⟩ := backtrack_congr U hs'' hp'' k
      rw [h1] at hc1
      cases hq : backtrack U s'' k with
      | none => rw [hq] at hc1; exact absurd hc1 (by simp [OSim])
      | some sq =>
        rw [hq] at hc1
        have hsim : Sim sq sj := hc1
        have hpl : sq.plan = sj.plan := hc2 sq sj hq h1
        refine ⟨sq, tj, by rw [htr, hq], ?_, ?_, h4⟩
        · rw [List.take_append_of_le_length (by omega)]; exact h2
        · exact same_iff.mpr ⟨hsim.trans h3.sim, by rw [hpl]; exact h3.plan⟩
    · have hj' : j = r.marks.length := by
        rcases Nat.lt_or_ge j (r.marks ++ [s'.plan.length]).length with h' | h'
        · simp at h'; omega
        · rw [List.getElem?_eq_none h'] at hj; exact absurd hj (by simp)
      subst hj'
      rw [List.getElem?_append_right (Nat.le_refl _)] at hj
      simp only [Nat.sub_self, List.getElem?_cons_zero, Option.some.injEq] at hj
      subst hj
      obtain ⟨t, ht, hst, hit⟩ := J.cur U
      obtain ⟨t', out', hat, hst'⟩ := apply_same U hst J.inv hit ha h
      have hat' : applicable U t c = true := by rw [← applicable_congr U hst.sim c]; exact ha
      refine ⟨s', t', backtrack_self U s', ?_, hst', apply_inv U hit hat' hat⟩
      rw [hlen, List.take_of_length_le (by simp), replay_append, ht]
      simp [hat]

theorem runInv_rollback (U : Univ) {r : Run} {cs : List Cmd} (J : RunInv U r cs) {j k : Nat}
    (hj : r.marks[j]? = some k) :
    ∃ s, backtrack U r.st k = some s ∧ RunInv U ⟨s, r.marks.take (j + 1)⟩ (cs.take j) := by
  obtain ⟨sj, tj, h1, h2, h3, h4⟩ := J.rel j k hj
  have hjl : j < r.marks.length := by
    rcases Nat.lt_or_ge j r.marks.length with h' | h'
    · exact h'
    · rw [List.getElem?_eq_none h'] at hj; exact absurd hj (by simp)
  have hjc : j ≤ cs.length := by rw [J.len] at hjl; omega
  obtain ⟨hk, hpl⟩ := backtrack_plan U h1
  have hplen : sj.plan.length = k := by rw [hpl]; simp [hk]
  refine ⟨sj, h1, ⟨?_, Inv.of_sim h3.sim.symm h4, ?_, ?_, ?_⟩⟩
  · simp [List.length_take, Nat.min_eq_left hjc]; omega
  · simp only [List.length_take, Nat.min_eq_left hjc]
    rw [List.getElem?_take_of_lt (by omega), hj, hplen]
  · intro i i' ki kj hii hi hi'
    by_cases h1' : i' < j + 1
    · rw [List.getElem?_take_of_lt h1'] at hi'
      rw [List.getElem?_take_of_lt (by omega)] at hi
      exact J.mono i i' ki kj hii hi hi'
    · have : (List.take (j + 1) r.marks)[i']? = none :=
        List.getElem?_eq_none (by simp only [List.length_take]; omega)
      simp only [this] at hi'
      exact absurd hi' (by simp)
  · intro i ki hi
    by_cases h1' : i < j + 1
    · rw [List.getElem?_take_of_lt h1'] at hi
      obtain ⟨si, ti, g1, g2, g3, g4⟩ := J.rel i ki hi
      have hki : ki ≤ k := J.mono i j ki k (by omega) hi hj
      have htr := backtrack_trans U r.st hki hk
      rw [h1, Option.bind_some] at htr
      refine ⟨si, ti, by rw [← htr]; exact g1, ?_, g3, g4⟩
      rw [List.take_take, Nat.min_eq_left (by omega)]; exact g2
    · have : (List.take (j + 1) r.marks)[i]? = none :=
        List.getElem?_eq_none (by simp only [List.length_take]; omega)
      simp only [this] at hi
      exact absurd hi (by simp)

theorem exec_inv (U : Univ) (h : List Step) : ∀ (r : Run) (cs : List Cmd), RunInv U r cs →
    (∀ r', exec U r h = .ok r' → RunInv U r' (surviving h cs)) ∧ exec U r h ≠ .error .rollbackRaised := by
  induction h with
  | nil =>
    intro r cs J
    refine ⟨?_, by simp [exec]⟩
    intro r' hr; simp only [exec, Except.ok.injEq] at hr; subst hr; exact J
  | cons st h ih =>
    intro r cs J
    cases st with
    | op c =>
      simp only [exec, execStep, surviving]
      by_cases ha : applicable U r.st c = true
      · simp only [ha, if_true]
        cases hap : applyCmd U r.st c with
        | none => simp [Except.bind]
        | some res =>
          obtain ⟨s', out⟩ := res
          simp only [Except.bind]
          exact ih _ _ (runInv_op U J ha hap)
      · simp [ha, Except.bind]
    | rollback j =>
      simp only [exec, execStep, surviving]
      cases hm : r.marks[j]? with
      | none => simp [Except.bind]
      | some k =>
        obtain ⟨s, hb, J'⟩ := runInv_rollback U J hm
        simp only [hb, Except.bind]
        exact ih _ _ J'

end Pkgcore.C17
