import Pkgcore.Spec.C45
import Pkgcore.Proofs.C01
/-!
# C45 — helper lemmas
-/
namespace Pkgcore.C45
open Spec
open Pkgcore.C01 (Ver natOfDigits)
open Pkgcore.C01.Spec (pmsCmp pmsNumbers pmsLetter pmsSufs revNat)

/-! ## the PMS order splits into a version part and a revision part -/

def verPart (v1 v2 : Ver) : Ordering :=
  ((pmsNumbers v1.comps v2.comps).then (pmsLetter v1.letter v2.letter)).then (pmsSufs v1.sufs v2.sufs)

theorem pmsCmp_split (v1 v2 : Ver) (r1 r2 : C01.Rev) :
    pmsCmp v1 r1 v2 r2 = (verPart v1 v2).then (compare (revNat r1) (revNat r2)) := by
  unfold pmsCmp verPart
  cases pmsNumbers v1.comps v2.comps <;> cases pmsLetter v1.letter v2.letter <;> cases pmsSufs v1.sufs v2.sufs <;> rfl

theorem pmsCmp_none (v1 v2 : Ver) : pmsCmp v1 none v2 none = verPart v1 v2 := by
  rw [pmsCmp_split]
  have : compare (revNat none) (revNat none) = Ordering.eq := by simp [revNat]
  rw [this]
  cases verPart v1 v2 <;> rfl

theorem compare_zero_ne_lt (n : Nat) : compare n 0 ≠ Ordering.lt := by
  intro h; rw [Nat.compare_eq_lt] at h; omega

/-! ## version restrictions -/

def sym : Cmp → Str
  | .lt => ['<'] | .le => ['<', '='] | .eq => ['='] | .ge => ['>', '='] | .gt => ['>']

theorem vmatch_std (c : Cmp) (v : Ver) (rev : Str) (p : Pkg) :
    VR.eval p (.vmatch (sym c) v (some rev)) = c.holds (pmsCmp p.ver (some p.rev) v (some rev)) := by
  have ok : C01.RevsOk (some p.rev) (some rev) := Or.inr ⟨rfl, rfl⟩
  cases c
  · have h1 : C01.opVals (String.ofList (sym .lt)) = some ([-1], false) := by decide
    simp only [VR.eval, h1, C01.versionMatch, Bool.false_eq_true, if_false, C01.verCmp_eq_pms_aux _ _ _ _ ok]
    generalize pmsCmp p.ver (some p.rev) v (some rev) = o; cases o <;> decide
  · have h1 : C01.opVals (String.ofList (sym .le)) = some ([-1, 0], false) := by decide
    simp only [VR.eval, h1, C01.versionMatch, Bool.false_eq_true, if_false, C01.verCmp_eq_pms_aux _ _ _ _ ok]
    generalize pmsCmp p.ver (some p.rev) v (some rev) = o; cases o <;> decide
  · have h1 : C01.opVals (String.ofList (sym .eq)) = some ([0], false) := by decide
    simp only [VR.eval, h1, C01.versionMatch, Bool.false_eq_true, if_false, C01.verCmp_eq_pms_aux _ _ _ _ ok]
    generalize pmsCmp p.ver (some p.rev) v (some rev) = o; cases o <;> decide
  · have h1 : C01.opVals (String.ofList (sym .ge)) = some ([0, 1], false) := by decide
    simp only [VR.eval, h1, C01.versionMatch, Bool.false_eq_true, if_false, C01.verCmp_eq_pms_aux _ _ _ _ ok]
    generalize pmsCmp p.ver (some p.rev) v (some rev) = o; cases o <;> decide
  · have h1 : C01.opVals (String.ofList (sym .gt)) = some ([1], false) := by decide
    simp only [VR.eval, h1, C01.versionMatch, Bool.false_eq_true, if_false, C01.verCmp_eq_pms_aux _ _ _ _ ok]
    generalize pmsCmp p.ver (some p.rev) v (some rev) = o; cases o <;> decide

theorem vmatch_tilde (v : Ver) (p : Pkg) :
    VR.eval p (.vmatch ['~'] v none) = (verPart p.ver v == .eq) := by
  have ok : C01.RevsOk none none := Or.inl ⟨rfl, rfl⟩
  have h1 : C01.opVals (String.ofList ['~']) = some ([0], true) := by decide
  simp only [VR.eval, h1, C01.versionMatch, if_true, C01.verCmp_eq_pms_aux _ _ _ _ ok, pmsCmp_none]
  generalize verPart p.ver v = o; cases o <;> decide

/-! ## operators -/

def opName : Bool → Cmp → Str
  | false, .lt => "lt".toList | false, .le => "le".toList | false, .eq => "eq".toList
  | false, .ge => "ge".toList | false, .gt => "gt".toList
  | true, .lt => "rlt".toList | true, .le => "rle".toList | true, .ge => "rge".toList | true, .gt => "rgt".toList
  | true, .eq => "eq".toList     -- not an operator; never produced by `parseOp`

theorem parseOp_cases {s : Str} {r : Bool} {c : Cmp} (h : parseOp s = some (r, c)) :
    s = opName r c ∧ ¬ (r = true ∧ c = .eq) := by
  unfold parseOp at h
  repeat' split at h
  all_goals first
    | (cases h; rename_i hs; subst hs; exact ⟨rfl, by simp⟩)
    | cases h

theorem slot_all (p : Pkg) (xs : List VR) (slot : Str) :
    (xs ++ (if slot = [] then [] else [VR.slot slot])).all (VR.eval p)
      = (xs.all (VR.eval p) && (slot.isEmpty || decide (p.slot = slot))) := by
  by_cases h : slot = []
  · simp [h]
  · have : slot.isEmpty = false := by cases slot <;> simp_all
    simp [h, this, VR.eval]

theorem then_eq_iff (a b : Ordering) : (a.then b == .eq) = (a == .eq && b == .eq) := by
  cases a <;> cases b <;> rfl

theorem L1 (a b : Ordering) (c : Cmp) : (a == .eq && c.holds (a.then b)) = (a == .eq && c.holds b) := by
  cases a <;> cases b <;> cases c <;> rfl

theorem L2 (a b : Ordering) (hb : b ≠ .lt) : Cmp.eq.holds (a.then b) = (a == .eq && Cmp.le.holds b) := by
  cases a <;> cases b <;> first | rfl | exact absurd rfl hb

theorem L3 (a b : Ordering) (hb : b ≠ .lt) : (a == .eq) = (a == .eq && Cmp.ge.holds b) := by
  cases a <;> cases b <;> first | rfl | exact absurd rfl hb

theorem head_r (r : Bool) (c : Cmp) (h : ¬ (r = true ∧ c = .eq)) : ((opName r c).head? = some 'r') ↔ r = true := by
  cases r <;> cases c <;> first | decide | exact absurd ⟨rfl, rfl⟩ h

/-- the general branch: `[~] op` -/
theorem general_eval (r : Bool) (c : Cmp) (h : ¬ (r = true ∧ c = .eq)) (v : Ver) (rev slot : Str) (p : Pkg) :
    ((if (opName r c).head? = some 'r' then [VR.vmatch ['~'] v none] else []) ++ [VR.vmatch (sym c) v (some rev)]
        ++ (if slot = [] then [] else [VR.slot slot])).all (VR.eval p)
      = ((if r then verPart p.ver v == .eq && c.holds (compare (natOfDigits p.rev) (natOfDigits rev))
          else c.holds (pmsCmp p.ver (some p.rev) v (some rev))) && (slot.isEmpty || decide (p.slot = slot))) := by
  rw [slot_all]
  congr 1
  cases r with
  | false =>
    have : ¬ (opName false c).head? = some 'r' := fun e => by simpa using (head_r false c h).1 e
    simp [this, vmatch_std]
  | true =>
    have : (opName true c).head? = some 'r' := (head_r true c h).2 rfl
    simp only [this, if_true, List.cons_append, List.nil_append, List.all_cons, List.all_nil, Bool.and_true, vmatch_tilde, vmatch_std]
    rw [pmsCmp_split]
    exact L1 _ _ c

/-- **one range**: for a well-formed range node the code builds a restriction that holds exactly on the packages of
the range (glob as string prefix), negated for unaffected nodes -/
theorem range_ok (n : RangeNode) (hv : rangeValid n = true) (neg : Bool) :
    ∃ rr, restrictFromRange n neg = .ok rr ∧ rr.negate = neg ∧ ∀ p, rr.eval p = (rangeHolds true n p != neg) := by
  obtain ⟨op, slot, text⟩ := n
  unfold rangeValid at hv
  simp only at hv
  cases hop : parseOp op with
  | none => simp [hop] at hv
  | some rc =>
    obtain ⟨r, c⟩ := rc
    cases text with
    | none => simp [hop] at hv
    | some t =>
      obtain ⟨glob, parsed⟩ := t
      cases parsed with
      | none => simp [hop] at hv
      | some fvr =>
        obtain ⟨fv, v, rev⟩ := fvr
        simp only [hop] at hv
        obtain ⟨hname, hnotreq⟩ := parseOp_cases hop
        subst hname
        have hT : opTranslate (lstripR (opName r c)) = some (sym c) := by
          cases r <;> cases c <;> first | decide | exact absurd ⟨rfl, rfl⟩ hnotreq
        unfold restrictFromRange rangeHolds RangeR.eval
        simp only [hT, hop, pmsCmp_none]
        cases glob with
        | true =>
          simp only [if_true] at hv ⊢
          have hv' : opName r c = "eq".toList := by simpa using hv
          have hrc : r = false ∧ c = .eq := by
            cases r <;> cases c <;> first | exact ⟨rfl, rfl⟩ | (exfalso; revert hv'; decide) | exact absurd ⟨rfl, rfl⟩ hnotreq
          obtain ⟨rfl, rfl⟩ := hrc
          simp only [hv', ne_eq, not_true_eq_false, if_false]
          refine ⟨_, rfl, rfl, fun p => ?_⟩
          simp only [slot_all, List.all_cons, List.all_nil, Bool.and_true, VR.eval]
        | false =>
          simp only [Bool.false_eq_true, if_false] at hv ⊢
          by_cases hK : (opName r c = "rlt".toList ∨ opName r c = "rle".toList ∨ opName r c = "rge".toList) ∧ rev = []
          · obtain ⟨hk, rfl⟩ := hK
            rw [if_pos ⟨hk, rfl⟩]
            have hrc : r = true ∧ (c = .lt ∨ c = .le ∨ c = .ge) := by
              cases r <;> cases c <;> first
                | exact ⟨rfl, Or.inl rfl⟩ | exact ⟨rfl, Or.inr (Or.inl rfl)⟩ | exact ⟨rfl, Or.inr (Or.inr rfl)⟩
                | (exfalso; revert hk; decide)
            obtain ⟨rfl, hc⟩ := hrc
            have hB : ∀ p : Pkg, compare (natOfDigits p.rev) (natOfDigits []) ≠ Ordering.lt := fun p => compare_zero_ne_lt _
            rcases hc with rfl | rfl | rfl
            · exfalso; revert hv; decide
            · have e1 : ¬ opName true .le = "rlt".toList := by decide
              have e2 : opName true .le = "rle".toList := by decide
              simp only [e1, e2, if_false, if_true]
              refine ⟨_, rfl, rfl, fun p => ?_⟩
              rw [slot_all]
              simp only [List.all_cons, List.all_nil, Bool.and_true]
              rw [show (['='] : Str) = sym .eq from rfl, vmatch_std, pmsCmp_split]
              simp only [revNat]
              rw [L2 _ _ (hB p)]
            · have e1 : ¬ opName true .ge = "rlt".toList := by decide
              have e2 : ¬ opName true .ge = "rle".toList := by decide
              simp only [e1, e2, if_false]
              refine ⟨_, rfl, rfl, fun p => ?_⟩
              rw [slot_all]
              simp only [List.all_cons, List.all_nil, Bool.and_true, vmatch_tilde]
              rw [L3 _ _ (hB p)]
              simp
          · rw [if_neg hK]
            refine ⟨_, rfl, rfl, fun p => ?_⟩
            simp only
            rw [general_eval r c hnotreq]

/-- operators the code accepts are GLSA operators (the code strips *every* leading `r`, so it also accepts `req`,
`rrle`, …; those are outside the class of advisories) -/
def StdOp (n : RangeNode) : Prop := parseOp n.op = none → opTranslate (lstripR n.op) = none

theorem range_bad (n : RangeNode) (hv : rangeValid n = false) (hs : StdOp n) (neg : Bool) :
    restrictFromRange n neg = .error () := by
  obtain ⟨op, slot, text⟩ := n
  unfold rangeValid at hv
  unfold StdOp at hs
  simp only at hv hs
  unfold restrictFromRange
  cases hop : parseOp op with
  | none => simp only [hs hop]
  | some rc =>
    obtain ⟨r, c⟩ := rc
    obtain ⟨hname, hnotreq⟩ := parseOp_cases hop
    subst hname
    have hT : opTranslate (lstripR (opName r c)) = some (sym c) := by
      cases r <;> cases c <;> first | decide | exact absurd ⟨rfl, rfl⟩ hnotreq
    simp only [hT]
    cases text with
    | none => rfl
    | some t =>
      obtain ⟨glob, parsed⟩ := t
      cases parsed with
      | none => rfl
      | some fvr =>
        obtain ⟨fv, v, rev⟩ := fvr
        simp only [hop] at hv
        cases glob with
        | true =>
          simp only [if_true] at hv
          have : opName r c ≠ "eq".toList := by simpa using hv
          simp only [if_true, this, ne_eq, not_false_eq_true]
        | false =>
          simp only [Bool.false_eq_true, if_false, Bool.not_eq_false', Bool.and_eq_true, beq_iff_eq, List.isEmpty_iff] at hv
          obtain ⟨⟨rfl, rfl⟩, rfl⟩ := hv
          simp only [Bool.false_eq_true, if_false]
          have e : opName true .lt = "rlt".toList := by decide
          simp only [e, true_or, and_self, if_true]

/-! ## a whole `<package>` entry -/

theorem mapM_ok (ns : List RangeNode) (neg : Bool) (hv : ns.all rangeValid = true) :
    ∃ rs, ns.mapM (restrictFromRange · neg) = .ok rs ∧ (∀ r ∈ rs, r.negate = neg) ∧
      ∀ p, rs.map (RangeR.eval p) = ns.map (fun n => rangeHolds true n p != neg) := by
  induction ns with
  | nil => exact ⟨[], rfl, by simp, fun p => rfl⟩
  | cons n ns ih =>
    simp only [List.all_cons, Bool.and_eq_true] at hv
    obtain ⟨rs, h1, h2, h3⟩ := ih hv.2
    obtain ⟨r, g1, g2, g3⟩ := range_ok n hv.1 neg
    refine ⟨r :: rs, ?_, ?_, fun p => ?_⟩
    · simp only [List.mapM_cons, g1, h1]; rfl
    · intro x hx
      rw [List.mem_cons] at hx
      rcases hx with rfl | hx
      · exact g2
      · exact h2 x hx
    · simp [g3 p, h3 p]

theorem mapM_bad (ns : List RangeNode) (neg : Bool) (hs : ∀ n ∈ ns, StdOp n) (hv : ns.all rangeValid = false) :
    ns.mapM (restrictFromRange · neg) = .error () := by
  induction ns with
  | nil => simp at hv
  | cons n ns ih =>
    by_cases hn : rangeValid n = true
    · have hrest : ns.all rangeValid = false := by
        simp only [List.all_cons, hn, Bool.true_and] at hv; exact hv
      obtain ⟨r, g1, _, _⟩ := range_ok n hn neg
      simp only [List.mapM_cons, g1, ih (fun m hm => hs m (by simp [hm])) hrest]; rfl
    · have hn' : rangeValid n = false := by simpa using hn
      simp only [List.mapM_cons, range_bad n hn' (hs n (by simp)) neg]; rfl

theorem filter_negated (inv vuln : List RangeR) (h1 : ∀ r ∈ inv, r.negate = true) (h2 : ∀ r ∈ vuln, r.negate = false) :
    inv.filter (fun x => x ∉ vuln) = inv := by
  rw [List.filter_eq_self]
  intro x hx
  simp only [decide_eq_true_eq]
  intro hm
  have a := h1 x hx
  have b := h2 x hm
  rw [a] at b
  cases b

theorem any_map {α : Type} (l : List α) (f : α → Bool) : l.any f = (l.map f).any id := by
  induction l <;> simp_all

theorem all_map {α : Type} (l : List α) (f : α → Bool) : l.all f = (l.map f).all id := by
  induction l <;> simp_all

theorem A1 (l : List RangeNode) (p : Pkg) :
    (l.map (fun n => rangeHolds true n p != false)).any id = l.any (rangeHolds true · p) := by
  induction l <;> simp_all

theorem A2 (l : List RangeNode) (p : Pkg) :
    (l.map (fun n => rangeHolds true n p != true)).all id = !(l.any (rangeHolds true · p)) := by
  induction l <;> simp_all

theorem A3 (arch : Option (List Str)) (p : Pkg) : archOk (archFilter arch) p = archHolds arch p := by
  cases arch with
  | none => rfl
  | some l =>
    unfold archFilter archOk archHolds
    by_cases hl : l = [] ∨ ['*'] ∈ l
    · have : (l.isEmpty || l.contains ['*']) = true := by
        rcases hl with h | h
        · simp [h]
        · simp [h]
      simp [hl, this]
    · have : (l.isEmpty || l.contains ['*']) = false := by
        cases l with
        | nil => simp at hl
        | cons a l => simp at hl ⊢; exact ⟨fun e => hl.1 e, hl.2⟩
      simp [hl, this]

def StdOps (n : PkgNode) : Prop := ∀ r ∈ n.vulnerable ++ n.unaffected, StdOp r

/-- **the entry as the code evaluates it = the reference evaluator with globs read as string prefixes** -/
theorem entry_eq_loose (n : PkgNode) (hs : StdOps n) (p : Pkg) : entryMatch n p = affected true n p := by
  unfold entryMatch fromPkgNode affected
  by_cases hempty : n.vulnerable = []
  · simp [hempty]
  · have hne : n.vulnerable.isEmpty = false := by cases h : n.vulnerable <;> simp_all
    simp only [hempty, if_false, hne, Bool.false_eq_true]
    by_cases hv : n.vulnerable.all rangeValid = true
    · obtain ⟨vs, e1, n1, m1⟩ := mapM_ok n.vulnerable false hv
      rw [e1]
      simp only
      by_cases hu : n.unaffected.all rangeValid = true
      · obtain ⟨us, e2, n2, m2⟩ := mapM_ok n.unaffected true hu
        rw [e2]
        simp only [filter_negated us vs n2 n1, hv, hu, Bool.true_and]
        cases hok : n.nameOk with
        | false => simp
        | true =>
          simp only [if_true, Bool.not_true, Bool.false_eq_true, if_false, Option.some.injEq]
          unfold Advisory.eval
          simp only
          rw [any_map vs, m1 p, all_map us, m2 p, A1, A2, A3]
          simp only [Bool.and_assoc]
      · have hu' : n.unaffected.all rangeValid = false := by simpa using hu
        rw [mapM_bad n.unaffected true (fun m hm => hs m (by simp [hm])) hu']
        simp [hv, hu']
    · have hv' : n.vulnerable.all rangeValid = false := by simpa using hv
      rw [mapM_bad n.vulnerable false (fun m hm => hs m (by simp [hm])) hv']
      simp [hv']

/-! ## component prefix versus string prefix: the open finding -/

/-- the input class of the open finding: an `eq V*` range whose base is a string prefix of the package's full
version that does not end at a component boundary (`1.2*` against `1.20`) -/
def LoosePrefix (r : RangeNode) (p : Pkg) : Prop :=
  ∃ fv v rev, r.text = some ⟨true, some (fv, v, rev)⟩ ∧ fv.isPrefixOf p.fullver = true ∧
    boundary fv (p.fullver.drop fv.length) = false

theorem rangeHolds_strict (r : RangeNode) (p : Pkg) (h : ¬ LoosePrefix r p) :
    rangeHolds false r p = rangeHolds true r p := by
  obtain ⟨op, slot, text⟩ := r
  unfold rangeHolds
  simp only
  cases parseOp op with
  | none => rfl
  | some rc =>
    cases text with
    | none => rfl
    | some t =>
      obtain ⟨glob, parsed⟩ := t
      cases parsed with
      | none => rfl
      | some fvr =>
        obtain ⟨fv, v, rev⟩ := fvr
        cases glob with
        | false => rfl
        | true =>
          simp only [if_true, Bool.false_eq_true, if_false, compPrefix]
          cases hp : fv.isPrefixOf p.fullver with
          | false => rfl
          | true =>
            cases hb : boundary fv (p.fullver.drop fv.length) with
            | true => rfl
            | false => exact absurd ⟨fv, v, rev, rfl, hp, hb⟩ h

theorem any_congr' {α : Type} {l : List α} {f g : α → Bool} (h : ∀ x ∈ l, f x = g x) : l.any f = l.any g := by
  induction l with
  | nil => rfl
  | cons a l ih => simp only [List.any_cons]; rw [h a (by simp), ih (fun x hx => h x (by simp [hx]))]

theorem affected_strict (n : PkgNode) (p : Pkg) (h : ∀ r ∈ n.vulnerable ++ n.unaffected, ¬ LoosePrefix r p) :
    affected false n p = affected true n p := by
  unfold affected
  rw [any_congr' (l := n.vulnerable) (fun x hx => rangeHolds_strict x p (h x (by simp [hx]))),
    any_congr' (l := n.unaffected) (fun x hx => rangeHolds_strict x p (h x (by simp [hx])))]

end Pkgcore.C45
