import Pkgcore.Spec.C39
/-! # C39 helper lemmas -/
namespace Pkgcore.C39
open Pkgcore.C39.Spec

variable {α β : Type} [DecidableEq α] [DecidableEq β]

/-- what `__post_init__` demands, as propositions -/
theorem ListChange.valid_iff (c : ListChange α) :
    c.valid = true ↔ (c.replace.isSome = true → c.add = [] ∧ c.remove = []) ∧ (∀ x, x ∈ c.add → x ∉ c.remove) := by
  unfold ListChange.valid
  cases c.replace <;> cases c.add <;> cases c.remove <;> simp

theorem ListChange.mk?_eq_some (add remove : List α) (replace : Option (List α)) (c : ListChange α) :
    ListChange.mk? add remove replace = some c ↔ c = ⟨add, remove, replace⟩ ∧ c.valid = true := by
  by_cases hv : (⟨add, remove, replace⟩ : ListChange α).valid = true
  · simp only [ListChange.mk?, hv, if_true, Option.some.injEq]
    constructor
    · rintro rfl; exact ⟨rfl, hv⟩
    · rintro ⟨rfl, _⟩; rfl
  · simp only [ListChange.mk?, hv]
    constructor
    · intro h; cases h
    · rintro ⟨rfl, h⟩; exact absurd h hv

theorem ListChange.mk?_eq_none (add remove : List α) (replace : Option (List α)) :
    ListChange.mk? add remove replace = none ↔ (⟨add, remove, replace⟩ : ListChange α).valid = false := by
  by_cases hv : (⟨add, remove, replace⟩ : ListChange α).valid = true <;> simp [ListChange.mk?, hv]

omit [DecidableEq α] in
/-- membership in the result of applying a valid change through its wire form -/
theorem mem_applyWire_toWire (str : α → β) (c : ListChange α) (l : List β) (y : β) :
    y ∈ applyWire (c.toWire str) l ↔
      match c.replace with
      | some r => y ∈ r.map str
      | none => (y ∈ l ∧ y ∉ c.remove.map str) ∨ y ∈ c.add.map str := by
  unfold applyWire ListChange.toWire
  cases hr : c.replace with
  | some r => simp
  | none =>
    cases ha : c.add <;> cases hm : c.remove <;> simp

/-- the pinned (pre-repair) `__or__`, kept only to record the defect: the left operand's set is dropped -/
def ListChange.orPinned (a b : ListChange α) : Option (ListChange α) :=
  match b.replace with
  | some _ => some b
  | none =>
    ListChange.mk? (a.add ++ b.add.filter (fun x => !a.add.contains x))
                   (a.remove ++ b.remove.filter (fun x => !a.remove.contains x)) none

/-! ## BugUpdate: segment lemmas — each `if … : wire[k] = …` statement is "field set ⇒ one entry" -/

theorem map_filter_cons {γ δ : Type} (p : γ → Bool) (f : γ → δ) (a : γ) (l : List γ) :
    (List.filter p (a :: l)).map f = (if p a then [f a] else []) ++ (List.filter p l).map f := by
  by_cases h : p a <;> simp [h]

theorem optEntry_str (k : String) (x : Option String) :
    optEntry k x .str = if (FieldVal.optStr x != FieldVal.optStr none) then [(k, render (.optStr x))] else [] := by
  cases x <;> simp [optEntry, render]

theorem optEntry_nat (k : String) (x : Option Nat) :
    optEntry k x .nat = if (FieldVal.optNat x != FieldVal.optNat none) then [(k, render (.optNat x))] else [] := by
  cases x <;> simp [optEntry, render]

theorem optEntry_comment (k : String) (x : Option NewComment) :
    optEntry k x NewComment.toWire
      = if (FieldVal.comment x != FieldVal.comment none) then [(k, render (.comment x))] else [] := by
  cases x <;> simp [optEntry, render, NewComment.toWire]

/-- `bool(change)` is "differs from `ListChange()`" -/
theorem ListChange.truthy_iff_ne_default (c : ListChange String) :
    c.truthy = (FieldVal.change c != FieldVal.change {}) := by
  rcases c with ⟨a, r, s⟩
  cases a <;> cases r <;> cases s <;> simp [ListChange.truthy]

theorem changeEntry_eq (k : String) (c : ListChange String) :
    changeEntry k c = if (FieldVal.change c != FieldVal.change {}) then [(k, render (.change c))] else [] := by
  simp only [changeEntry, ListChange.truthy_iff_ne_default, render]

theorem flagsEntry_eq (k : String) (l : List FlagChange) :
    (if l.isEmpty then [] else [(k, WireVal.flags (l.map FlagChange.toWire))])
      = if (FieldVal.flags l != FieldVal.flags []) then [(k, render (.flags l))] else [] := by
  cases l <;> simp [render]

end Pkgcore.C39
