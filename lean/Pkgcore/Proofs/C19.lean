import Pkgcore.Proofs.C18
import Pkgcore.Model.C19
import Pkgcore.Spec.C19
/-! # C19 — helper lemmas: every state a merge passes through (`Reach`, Proofs/C18) is crash-safe -/
namespace Pkgcore.C19
open Pkgcore.C18 Pkgcore.C18.Spec Pkgcore.C19.Spec

theorem reach_old_W {pre : Fs} {es : List Entry} {f : Fs} (h : Reach pre es f) (q : Path) : OldPathSafeW pre es f q := by
  unfold OldPathSafeW OldPathSafe
  cases hv : pre.view q with
  | none => exact Or.inl trivial
  | some v =>
    obtain ⟨i, nd⟩ := v
    simp only
    rcases h q with h1 | ⟨e, he, h1, h2⟩ | ⟨h1, _⟩ | ⟨e, he, h1, h2, j, h3⟩ | ⟨e, he, h1, h2, h3⟩
    · left; left; rw [h1, hv]
    · left; right; right; right; exact ⟨e, he, h1, h2⟩
    · rw [hv] at h1; cases h1
    · left; right; left; exact ⟨e, he, h2.symm, j, h3⟩
    · unfold DirAt at h3
      rcases h3 with ⟨i', nd0, nd', g1, g2, g3, g4, g5, g6⟩ | g1 | ⟨⟨i', nd0, t, g1, g2⟩, g3⟩
      · rw [← h2, hv] at g1; cases g1
        left; right; right; left
        exact ⟨e, he, h1, h2.symm, nd', g2, g3, g4, g5, g6⟩
      · rw [← h2, hv] at g1; cases g1
      · right
        exact ⟨e, he, h1, h2.symm, ⟨i', nd0, t, by rw [h2]; exact g1, g2⟩, g3⟩

theorem reach_new {pre : Fs} {es : List Entry} {f : Fs} (h : Reach pre es f) (q : Path) : NewPathInside pre es f q := by
  intro hv hc
  rcases h q with h1 | ⟨e, he, h1, h2⟩ | ⟨_, e, he, h2⟩ | ⟨e, he, h1, h2, _⟩ | ⟨e, he, h1, h2, _⟩
  · rw [h1, hv] at hc; exact absurd rfl hc
  · exact Or.inr ⟨e, he, h1, h2⟩
  · exact Or.inl ⟨e, he, h2⟩
  · exact Or.inl ⟨e, he, h2 ▸ List.suffix_refl _⟩
  · exact Or.inl ⟨e, he, h2 ▸ List.suffix_refl _⟩

theorem windowAt_excluded {pre : Fs} {es : List Entry} (hg : NoDirOverSymlink pre es) {q : Path}
    {v : Option (Nat × Inode)} (h : WindowAt pre es q v) : False := by
  obtain ⟨e, he, h1, h2, ⟨i, nd, t, h3, h4⟩, _⟩ := h
  exact hg e he h1 ⟨i, nd, h2 ▸ h3, t, h4⟩

theorem reach_crashSafe {pre : Fs} {es : List Entry} {f : Fs} (hg : NoDirOverSymlink pre es) (h : Reach pre es f) :
    CrashSafe pre es f := by
  refine ⟨fun q => ?_, reach_new h⟩
  rcases reach_old_W h q with h1 | h1
  · exact h1
  · exact absurd h1 (fun hw => windowAt_excluded hg hw)

/-- the bounded evaluation of the driver is the specification -/
theorem crashSafe_iff_failures (pre : Fs) (es : List Entry) (cur : Fs) :
    CrashSafe pre es cur ↔ crashFailures pre es cur = [] := by
  unfold crashFailures
  rw [List.append_eq_nil_iff, List.filter_eq_nil_iff, List.filter_eq_nil_iff]
  constructor
  · intro h
    exact ⟨fun q _ => by simp [h.old q], fun q _ => by simp [h.new q]⟩
  · rintro ⟨h1, h2⟩
    refine ⟨fun q => ?_, fun q => ?_⟩
    · by_cases hm : q ∈ keys pre
      · have := h1 q hm
        simpa using this
      · unfold OldPathSafe; rw [view_none_of_not_key hm]; trivial
    · by_cases hm : q ∈ keys cur
      · have := h2 q hm
        simpa using this
      · intro _ hc; exact absurd (view_none_of_not_key hm) hc

end Pkgcore.C19
