import Pkgcore.Proofs.C18
import Pkgcore.Model.C19
import Pkgcore.Spec.C19
/-! # C19 — helper lemmas: every state a merge passes through (`Reach`, Proofs/C18) is crash-safe -/
namespace Pkgcore.C19
open Pkgcore.C18 Pkgcore.C18.Spec Pkgcore.C19.Spec

theorem reach_old_W {pre : Fs} {es : List Entry} {f : Fs} (h : Reach pre es f) (q : Path) : OldPathSafeW pre es f q := by
  unfold OldPathSafeW OldPathSafe
  cases hv : pre.view q with
  | none => exact Or.inl trivial
  | some v =>
    obtain ⟨i, nd⟩ := v
    simp only
    rcases h q with h1 | ⟨e, he, h1, h2⟩ | ⟨h1, _⟩ | ⟨e, he, h1, h2, j, h3⟩ | ⟨e, he, h1, h2, h3⟩
    · left; left; rw [h1, hv]
    · left; right; right; right; exact ⟨e, he, h1, h2⟩
    · rw [hv] at h1; cases h1
    · left; right; left; exact ⟨e, he, h2.symm, j, h3⟩
    · unfold DirAt at h3
      rcases h3 with ⟨i', nd0, nd', g1, g2, g3, g4, g5, g6⟩ | g1 | ⟨⟨i', nd0, t, g1, g2⟩, g3⟩
      · rw [← h2, hv] at g1; cases g1
        left; right; right; left
        exact ⟨e, he, h1, h2.symm, nd', g2, g3, g4, g5, g6⟩
      · rw [← h2, hv] at g1; cases g1
      · right
        exact ⟨e, he, h1, h2.symm, ⟨i', nd0, t, by rw [h2]; exact g1, g2⟩, g3⟩

theorem reach_new {pre : Fs} {es : List Entry} {f : Fs} (h : Reach pre es f) (q : Path) : NewPathInside pre es f q := by
  intro hv hc
  rcases h q with h1 | ⟨e, he, h1, h2⟩ | ⟨_, e, he, h2⟩ | ⟨e, he, h1, h2, _⟩ | ⟨e, he, h1, h2, _⟩
  · rw [h1, hv] at hc; exact absurd rfl hc
  · exact Or.inr ⟨e, he, h1, h2⟩
  · exact Or.inl ⟨e, he, h2⟩
  · exact Or.inl ⟨e, he, h2 ▸ List.suffix_refl _⟩
  · exact Or.inl ⟨e, he, h2 ▸ List.suffix_refl _⟩

theorem windowAt_excluded {pre : Fs} {es : List Entry} (hg : NoDirOverSymlink pre es) {q : Path}
    {v : Option (Nat × Inode)} (h : WindowAt pre es q v) : False := by
  obtain ⟨e, he, h1, h2, ⟨i, nd, t, h3, h4⟩, _⟩ := h
  exact hg e he h1 ⟨i, nd, h2 ▸ h3, t, h4⟩

theorem reach_crashSafe {pre : Fs} {es : List Entry} {f : Fs} (hg : NoDirOverSymlink pre es) (h : Reach pre es f) :
    CrashSafe pre es f := by
  refine ⟨fun q => ?_, reach_new h⟩
  rcases reach_old_W h q with h1 | h1
  · exact h1
  · exact absurd h1 (fun hw => windowAt_excluded hg hw)

/-- the bounded evaluation of the driver is the specification -/
theorem crashSafe_iff_failures (pre : Fs) (es : List Entry) (cur : Fs) :
    CrashSafe pre es cur ↔ crashFailures pre es cur = [] := by
  unfold crashFailures
  rw [List.append_eq_nil_iff, List.filter_eq_nil_iff, List.filter_eq_nil_iff]
  constructor
  · intro h
    exact ⟨fun q _ => by simp [h.old q], fun q _ => by simp [h.new q]⟩
  · rintro ⟨h1, h2⟩
    refine ⟨fun q => ?_, fun q => ?_⟩
    · by_cases hm : q ∈ keys pre
      · have := h1 q hm
        simpa using this
      · unfold OldPathSafe; rw [view_none_of_not_key hm]; trivial
    · by_cases hm : q ∈ keys cur
      · have := h2 q hm
        simpa using this
      · intro _ hc; exact absurd (view_none_of_not_key hm) hc

end Pkgcore.C19

/-!
# Every run, not only the successful ones

The lemmas of `Proofs/C18` describe a fragment that returns normally.  For the crash property the same
trajectory statements are needed whatever the fragment returns (an `OSError` in the middle stops the merge just
like a crash does): `*_traj` below, then the two loops and `mergeContents`.
-/
namespace Pkgcore.C19
open Pkgcore.C18 Pkgcore.C18.Spec

theorem Traj.sys_any {env : Env} {P : Fs → Prop} {s : St} (op : Op) (h0 : P s.fs)
    (hok : ∀ f, step env s.fs op = .ok f → P f) : Traj env P s (s.sys env op).1 := by
  apply Traj.sys op h0
  unfold applyOp
  cases hs : step env s.fs op with
  | ok f => exact hok f hs
  | error e => exact h0

/-- a list of calls each of which keeps the invariant `I` when it succeeds: every state `sysAll` passes through
satisfies `I`, wherever it stops -/
theorem sysAll_traj {env : Env} {I : Fs → Prop} (ops : List Op) :
    (∀ f op f', I f → op ∈ ops → step env f op = .ok f' → I f') →
    ∀ s : St, I s.fs → Traj env I s (s.sysAll env ops).1 := by
  induction ops with
  | nil => intro _ s h0; exact Traj.refl h0
  | cons op ops ih =>
    intro hstep s h0
    unfold St.sysAll
    have t1 := Traj.sys_any (env := env) (P := I) (s := s) op h0
      (fun f hf => hstep _ _ _ h0 List.mem_cons_self hf)
    generalize hs : s.sys env op = r at t1
    obtain ⟨s1, e⟩ := r
    cases e with
    | none =>
      exact t1.trans (ih (fun f o f' hf ho => hstep f o f' hf (List.mem_cons_of_mem _ ho)) s1 t1.final)
    | some e => exact t1

theorem sysAll_append_eq (env : Env) (a b : List Op) (s : St) :
    s.sysAll env (a ++ b) = match s.sysAll env a with
      | (s1, .ok ()) => s1.sysAll env b
      | (s1, .error e) => (s1, .error e) := by
  induction a generalizing s with
  | nil => simp [St.sysAll]
  | cons op ops ih =>
    simp only [List.cons_append, St.sysAll]
    generalize s.sys env op = r
    obtain ⟨s1, e⟩ := r
    cases e with
    | none => exact ih s1
    | some e => rfl

/-- `f` is `base` except at `fp`, where it has nothing yet or a (so far unshared) inode allocated from `base` -/
def FreshAt (base : Fs) (fp : Path) (f : Fs) : Prop :=
  OffEq base fp f ∧
    ((f.view fp = none ∧ f.next = base.next) ∨ (∃ nd, f.view fp = some (base.next, nd) ∧ f.next = base.next + 1))

/-- the call names `fp` and nothing else -/
def TargetsOnly (fp : Path) : Op → Prop
  | .creat p _ => p = fp
  | .write p _ => p = fp
  | .symlink _ p => p = fp
  | .mkfifo p _ => p = fp
  | .mkdir p _ => p = fp
  | .lchown p _ _ => p = fp
  | .chmod p _ => p = fp
  | .utime p _ _ => p = fp
  | _ => False

theorem freshAt_upd {base f : Fs} {fp : Path} {nd : Inode} (hwf : base.WF1) (ho : OffEq base fp f)
    (hv : f.view fp = some (base.next, nd)) (hn : f.next = base.next + 1) (g : Inode → Inode) :
    FreshAt base fp (f.updIno base.next g) := by
  refine ⟨?_, Or.inr ⟨g nd, by simp [hv], by simpa using hn⟩⟩
  intro q hq
  rw [← ho q hq]
  apply view_updIno_of_ne_ino
  intro j nd' hvq
  rw [ho q hq] at hvq
  exact Nat.ne_of_lt (hwf q j nd' hvq)

theorem freshAt_alloc {base f : Fs} {fp : Path} (ho : OffEq base fp f) (hn : f.next = base.next) (nd : Inode) :
    FreshAt base fp (f.alloc fp nd) := by
  refine ⟨fun q hq => by rw [Fs.view_alloc, if_neg hq]; exact ho q hq, Or.inr ⟨nd, by simp [hn], by simp [hn]⟩⟩

theorem freshAt_step {env : Env} {base f f' : Fs} {fp : Path} {op : Op} (hwf : base.WF1) (hI : FreshAt base fp f)
    (ht : TargetsOnly fp op) (hs : step env f op = .ok f') : FreshAt base fp f' := by
  obtain ⟨ho, hst⟩ := hI
  cases op <;> simp only [TargetsOnly] at ht <;> try (exact absurd ht id)
  all_goals subst ht
  case mkdir p mode =>
    simp only [step] at hs
    split at hs
    · cases hs
    · split at hs
      · cases hs
      · next hv =>
        injection hs with hs; subst hs
        rcases hst with ⟨_, hn⟩ | ⟨nd, h1, _⟩
        · exact freshAt_alloc ho hn _
        · simp [h1] at hv
  case creat p mode =>
    simp only [step] at hs
    split at hs
    · cases hs
    · split at hs
      · next hv =>
        injection hs with hs; subst hs
        rcases hst with ⟨_, hn⟩ | ⟨nd, h1, _⟩
        · exact freshAt_alloc ho hn _
        · rw [h1] at hv; cases hv
      · next i nd hv =>
        rcases hst with ⟨h0, _⟩ | ⟨nd', h1, hn⟩
        · rw [h0] at hv; cases hv
        · rw [h1] at hv; cases hv
          split at hs
          · injection hs with hs; subst hs; exact freshAt_upd hwf ho h1 hn _
          · cases hs
          · cases hs
  case write p data =>
    simp only [step] at hs
    split at hs
    · cases hs
    · next i nd hv =>
      rcases hst with ⟨h0, _⟩ | ⟨nd', h1, hn⟩
      · rw [h0] at hv; cases hv
      · rw [h1] at hv; cases hv
        split at hs
        · injection hs with hs; subst hs; exact freshAt_upd hwf ho h1 hn _
        · cases hs
  case symlink t p =>
    simp only [step] at hs
    split at hs
    · cases hs
    · split at hs
      · cases hs
      · next hv =>
        injection hs with hs; subst hs
        rcases hst with ⟨_, hn⟩ | ⟨nd, h1, _⟩
        · exact freshAt_alloc ho hn _
        · simp [h1] at hv
  case mkfifo p mode =>
    simp only [step] at hs
    split at hs
    · cases hs
    · split at hs
      · cases hs
      · next hv =>
        injection hs with hs; subst hs
        rcases hst with ⟨_, hn⟩ | ⟨nd, h1, _⟩
        · exact freshAt_alloc ho hn _
        · simp [h1] at hv
  case lchown p u g =>
    simp only [step] at hs
    split at hs
    · cases hs
    · next i nd hv =>
      rcases hst with ⟨h0, _⟩ | ⟨nd', h1, hn⟩
      · rw [h0] at hv; cases hv
      · rw [h1] at hv; cases hv
        injection hs with hs; subst hs; exact freshAt_upd hwf ho h1 hn _
  case chmod p m =>
    simp only [step] at hs
    split at hs
    · cases hs
    · next i nd hv =>
      rcases hst with ⟨h0, _⟩ | ⟨nd', h1, hn⟩
      · rw [h0] at hv; cases hv
      · rw [h1] at hv; cases hv
        split at hs
        · cases hs
        · injection hs with hs; subst hs; exact freshAt_upd hwf ho h1 hn _
  case utime p t follow =>
    simp only [step] at hs
    split at hs
    · cases hs
    · next i nd hv =>
      rcases hst with ⟨h0, _⟩ | ⟨nd', h1, hn⟩
      · rw [h0] at hv; cases hv
      · rw [h1] at hv; cases hv
        split at hs
        · injection hs with hs; subst hs; exact ⟨ho, Or.inr ⟨_, h1, hn⟩⟩
        · split at hs
          · cases hs
          · injection hs with hs; subst hs; exact freshAt_upd hwf ho h1 hn _
        · injection hs with hs; subst hs; exact freshAt_upd hwf ho h1 hn _

theorem build_ops_target (env : Env) (e : Entry) (fp : Path) :
    ∀ op ∈ createOps env e fp ++ permsOps e fp, TargetsOnly fp op := by
  intro op hop
  obtain ⟨loc, kind, mode, uid, gid, mtime⟩ := e
  cases kind with
  | dir => simp [createOps, permsOps] at hop; rcases hop with h | h <;> (subst h; rfl)
  | sym t => simp [createOps, permsOps] at hop; rcases hop with h | h | h <;> (subst h; rfl)
  | fifo => simp [createOps, permsOps] at hop; rcases hop with h | h | h | h <;> (subst h; rfl)
  | reg d key =>
    simp only [createOps, permsOps] at hop
    split at hop
    · simp at hop; rcases hop with h | h | h | h <;> (subst h; rfl)
    · simp at hop; rcases hop with h | h | h | h | h <;> (subst h; rfl)

/-- building an object at a free location `fp`: whatever happens, only `fp` differs from the start state -/
theorem build_traj {env : Env} {s : St} {e : Entry} {fp : Path} (extra : List Op) (hv : s.fs.view fp = none)
    (hwf : s.fs.WF1) (hex : ∀ op ∈ extra, TargetsOnly fp op) :
    Traj env (OffEq s.fs fp) s (s.sysAll env (createOps env e fp ++ permsOps e fp ++ extra)).1 := by
  have := sysAll_traj (env := env) (I := FreshAt s.fs fp) (createOps env e fp ++ permsOps e fp ++ extra)
    (fun f op f' hI hop hs => freshAt_step hwf hI (by
      rcases List.mem_append.mp hop with h | h
      · exact build_ops_target env e fp op h
      · exact hex op h) hs)
    s ⟨fun _ _ => rfl, Or.inl ⟨hv, rfl⟩⟩
  exact this.mono (fun f hf => hf.1)

/-! ## fragments, any outcome -/

theorem unlinkIfExists_fst (env : Env) (s : St) (p : Path) :
    (unlinkIfExists env s p).1 = (s.sys env (.unlink p)).1 := by
  unfold unlinkIfExists
  generalize s.sys env (.unlink p) = r
  obtain ⟨s1, e⟩ := r
  cases e with
  | none => rfl
  | some e => cases e <;> rfl

theorem unlinkIfExists_traj {env : Env} {s : St} {p : Path} :
    Traj env (OffEq s.fs p) s (unlinkIfExists env s p).1 := by
  rw [unlinkIfExists_fst]
  apply Traj.sys_any _ (fun _ _ => rfl)
  intro f hf
  simp only [step] at hf
  split at hf
  · cases hf
  · split at hf
    · cases hf
    · injection hf with hf; subst hf
      intro q hq; simp [hq]

theorem offEq_nonDirP {base f : Fs} {x : Entry} (h : OffEq base (tmpOf x.loc) f) : NonDirP base x f := by
  intro q
  by_cases h2 : q = tmpOf x.loc
  · exact Or.inr (Or.inl h2)
  · exact Or.inl (h q h2)

theorem copyfile_traj {env : Env} {s : St} {x : Entry} (hnd : x.isDir = false) (hwf : s.fs.WF) (hloc : x.loc ≠ []) :
    Traj env (NonDirP s.fs x) s (copyfile env s x).1 := by
  have base0 : NonDirP s.fs x s.fs := fun q => Or.inl rfl
  have hne : tmpOf x.loc ≠ x.loc := tmpOf_ne hloc
  unfold copyfile
  cases hv : s.fs.view x.loc with
  | some v =>
    obtain ⟨i0, nd0⟩ := v
    simp only
    split
    · exact Traj.refl base0
    · next hk0 =>
      have t1 := (unlinkIfExists_traj (env := env) (s := s) (p := tmpOf x.loc)).mono (fun f hf => offEq_nonDirP hf)
      generalize hu : unlinkIfExists env s (tmpOf x.loc) = ru at t1
      obtain ⟨s1, r1⟩ := ru
      cases r1 with
      | error e => exact t1
      | ok u =>
        simp only
        obtain ⟨u1, u2, u3⟩ := unlinkIfExists_ok hu
        have wf1 := (u3.WF hwf).1
        have hv1 : s1.fs.view (tmpOf x.loc) = none := by rw [u1]; simp
        rw [sysAll_append_eq]
        have t2 := build_traj (env := env) (s := s1) (e := x) (fp := tmpOf x.loc) [] hv1 wf1.lt (fun _ h => by cases h)
        rw [List.append_nil] at t2
        have t2' : Traj env (NonDirP s.fs x) s1 (s1.sysAll env (createOps env x (tmpOf x.loc) ++ permsOps x (tmpOf x.loc))).1 :=
          t2.mono (fun f hf => offEq_nonDirP (fun q hq => by rw [hf q hq, u1, if_neg hq]))
        generalize hb : s1.sysAll env (createOps env x (tmpOf x.loc) ++ permsOps x (tmpOf x.loc)) = rb at t2'
        obtain ⟨s2, r2⟩ := rb
        cases r2 with
        | error e => exact t1.trans t2'
        | ok u' =>
          simp only
          obtain ⟨b1, _, _, _⟩ := build_ok hnd hv1 wf1.lt hb
          have hv2 : s2.fs.view x.loc = some (i0, nd0) := by
            rw [b1.off _ (Ne.symm hne), u1, if_neg (Ne.symm hne), hv]
          have hi0 : i0 ≠ s1.fs.next := by rw [u2]; exact Nat.ne_of_lt (hwf.lt _ _ _ hv)
          have p2 : NonDirP s.fs x s2.fs := t2'.final
          refine (t1.trans t2').trans ?_
          unfold St.sysAll
          have t3 := Traj.sys_any (env := env) (P := NonDirP s.fs x) (s := s2) (.rename (tmpOf x.loc) x.loc) p2 (by
            intro f hf
            simp only [step, b1.here, hv2] at hf
            split at hf
            · cases hf
            · simp only [inode_kind_ne_dir hnd, if_false, hi0, hk0] at hf
              injection hf with hf; subst hf
              intro q
              simp only [Fs.view_put, Fs.view_del]
              by_cases h1 : q = x.loc
              · exact Or.inr (Or.inr (Or.inr ⟨h1, s1.fs.next, by simp [h1]⟩))
              · by_cases h2 : q = tmpOf x.loc
                · exact Or.inr (Or.inl h2)
                · left; rw [if_neg h1, if_neg h2, b1.off q h2, u1, if_neg h2])
          generalize s2.sys env (.rename (tmpOf x.loc) x.loc) = r3 at t3
          obtain ⟨s3, e3⟩ := r3
          cases e3 with
          | none => exact t3
          | some e => exact t3
  | none =>
    simp only
    generalize hr : (if (statFollow s.fs 8 x.loc.tail).isSome = true then (s, true) else ensureDirs env s x.loc.tail) = r
    obtain ⟨s1, okDirs⟩ := r
    have hens : Traj env (EnsP s.fs (ancestorsIncl x.loc.tail)) s s1 := by
      split at hr
      · simp only [Prod.mk.injEq] at hr
        obtain ⟨rfl, -⟩ := hr
        exact Traj.refl (fun q => Or.inl rfl)
      · exact ensureDirs_ok hwf.lt hr
    have hanc : ∀ q, q ∈ ancestorsIncl x.loc.tail → ProperAnc q x.loc := fun q hq =>
      properAnc_of_suffix_tail hloc (mem_ancestorsIncl.mp hq)
    have pens : ∀ f, EnsP s.fs (ancestorsIncl x.loc.tail) f → NonDirP s.fs x f := by
      intro f hf q
      rcases hf q with h1 | ⟨h1, h2, _⟩
      · exact Or.inl h1
      · exact Or.inr (Or.inr (Or.inl ⟨h1, (hanc q h2).2⟩))
    cases okDirs with
    | false => simp only [Bool.false_eq_true, if_false]; exact hens.mono pens
    | true =>
      simp only [if_true]
      have wf1 := (hens.WF hwf)
      have e1 := hens.final
      have hv1 : s1.fs.view x.loc = none := by
        rcases e1 x.loc with h1 | ⟨_, h2, _⟩
        · rw [h1, hv]
        · exact absurd rfl (hanc _ h2).1
      have t2 := build_traj (env := env) (s := s1) (e := x) (fp := x.loc) [] hv1 wf1.1.lt (fun _ h => by cases h)
      rw [List.append_nil] at t2
      refine (hens.mono pens).trans (t2.mono ?_)
      intro f hf q
      by_cases h1 : q = x.loc
      · exact Or.inr (Or.inr (Or.inl ⟨by rw [h1, hv], by rw [h1]; exact List.suffix_refl _⟩))
      · rw [hf q h1]; exact pens _ e1 q

theorem doLink_traj {env : Env} {s : St} {src trg : Path} {i : Nat} {nd : Inode}
    (hsrc : s.fs.view src = some (i, nd)) (hstmp : src ≠ tmpOf trg)
    (hino : ∀ j nd', s.fs.view trg = some (j, nd') → j ≠ i) :
    Traj env (LinkP s.fs trg i nd) s (doLink env s src trg).1 := by
  have base0 : LinkP s.fs trg i nd s.fs := fun q => Or.inl rfl
  have pmid : ∀ f, OffEq s.fs (tmpOf trg) f → LinkP s.fs trg i nd f := by
    intro f hf q
    by_cases h2 : q = tmpOf trg
    · exact Or.inr (Or.inl h2)
    · exact Or.inl (hf q h2)
  unfold doLink
  have t1 := Traj.sys_any (env := env) (P := LinkP s.fs trg i nd) (s := s) (.link src trg) base0 (by
    intro f hf
    simp only [step, hsrc] at hf
    split at hf
    · cases hf
    · split at hf
      · cases hf
      · split at hf
        · cases hf
        · injection hf with hf; subst hf
          intro q
          rw [Fs.view_put]
          by_cases h1 : q = trg
          · exact Or.inr (Or.inr ⟨h1, by simp [h1]⟩)
          · simp [h1])
  generalize hsys : s.sys env (.link src trg) = r at t1
  obtain ⟨s1, e⟩ := r
  cases e with
  | none => exact t1
  | some e =>
    obtain ⟨e1, e2⟩ := St.sys_err hsys
    cases e <;> try (exact t1)
    -- EEXIST
    simp only
    simp only [step, hsrc] at e1
    split at e1
    · cases e1
    · next hknd =>
      split at e1
      · next e' hpe => injection e1 with e1; subst e1; exact absurd hpe (parentErr_ne_EEXIST _ _)
      · next hpe =>
        split at e1
        · next hvt =>
          have hloc := parentErr_none_ne_nil hpe
          have hne : tmpOf trg ≠ trg := tmpOf_ne hloc
          obtain ⟨v0, hv0⟩ : ∃ v0, s.fs.view trg = some v0 := by
            cases hx : s.fs.view trg with
            | none => simp [hx] at hvt
            | some v => exact ⟨v, rfl⟩
          obtain ⟨i0, nd0⟩ := v0
          have t2 := (unlinkIfExists_traj (env := env) (s := s1) (p := tmpOf trg)).mono
            (fun f hf => pmid f (fun q hq => by rw [hf q hq, e2]))
          generalize hu : unlinkIfExists env s1 (tmpOf trg) = ru at t2
          obtain ⟨s2, r2⟩ := ru
          cases r2 with
          | error x => exact t1.trans t2
          | ok u =>
            simp only
            obtain ⟨u1, _, _⟩ := unlinkIfExists_ok hu
            have hsrc2 : s2.fs.view src = some (i, nd) := by rw [u1, if_neg hstmp, e2, hsrc]
            have htmp2 : s2.fs.view (tmpOf trg) = none := by rw [u1]; simp
            have p2 : LinkP s.fs trg i nd s2.fs := t2.final
            have t3 := Traj.sys_any (env := env) (P := LinkP s.fs trg i nd) (s := s2) (.link src (tmpOf trg)) p2 (by
              intro f hf
              simp only [step, hsrc2, if_neg hknd, htmp2] at hf
              split at hf
              · cases hf
              · simp only [Option.isSome_none, Bool.false_eq_true, if_false] at hf
                injection hf with hf; subst hf
                apply pmid
                intro q hq
                rw [Fs.view_put, if_neg hq, u1, if_neg hq, e2])
            generalize hsys2 : s2.sys env (.link src (tmpOf trg)) = r3 at t3
            obtain ⟨s3, e3⟩ := r3
            cases e3 with
            | some x => exact (t1.trans t2).trans t3
            | none =>
              simp only
              have f3 := (St.sys_ok hsys2).1
              simp only [step, hsrc2, if_neg hknd, htmp2] at f3
              split at f3
              · cases f3
              · simp only [Option.isSome_none, Bool.false_eq_true, if_false] at f3
                injection f3 with f3
                have hv3 : ∀ q, s3.fs.view q = if q = tmpOf trg then some (i, nd) else s.fs.view q := by
                  intro q; rw [← f3]; simp only [Fs.view_put]
                  split
                  · rfl
                  · next hq => rw [u1, if_neg hq, e2]
                have p3 : LinkP s.fs trg i nd s3.fs := t3.final
                have hparent3 : s3.fs.parentErr trg = none := by
                  refine parentErr_none_congr ?_ hpe
                  have hb : trg.tail ≠ tmpOf trg := by
                    intro hb
                    have := congrArg List.length hb
                    rw [tmpOf_length] at this
                    cases htr : trg with
                    | nil => exact absurd htr hloc
                    | cons n b => rw [htr] at this; simp at this
                  rw [hv3, if_neg hb]
                have t4 := Traj.sys_any (env := env) (P := LinkP s.fs trg i nd) (s := s3) (.rename (tmpOf trg) trg) p3 (by
                  intro f hf
                  simp only [step, hv3 (tmpOf trg), if_true, hparent3, if_neg hknd, hv3 trg, if_neg (Ne.symm hne), hv0,
                    if_neg (hino i0 nd0 hv0)] at hf
                  split at hf
                  · cases hf
                  · injection hf with hf; subst hf
                    intro q
                    simp only [Fs.view_put, Fs.view_del]
                    by_cases h1 : q = trg
                    · exact Or.inr (Or.inr ⟨h1, by simp [h1]⟩)
                    · by_cases h2 : q = tmpOf trg
                      · exact Or.inr (Or.inl h2)
                      · left; rw [if_neg h1, if_neg h2, hv3, if_neg h2])
                generalize hsys3 : s3.sys env (.rename (tmpOf trg) trg) = r4 at t4
                obtain ⟨s4, e4⟩ := r4
                cases e4 with
                | none => exact ((t1.trans t2).trans t3).trans t4
                | some x =>
                  simp only
                  obtain ⟨_, g2⟩ := St.sys_err hsys3
                  have t5 := (unlinkIfExists_traj (env := env) (s := s4) (p := tmpOf trg)).mono
                    (fun f hf => pmid f (fun q hq => by rw [hf q hq, g2, hv3, if_neg hq]))
                  generalize unlinkIfExists env s4 (tmpOf trg) = ru2 at t5
                  obtain ⟨s5, r5⟩ := ru2
                  cases r5 <;> exact (((t1.trans t2).trans t3).trans t4).trans t5
        · cases e1

theorem dirPerms_ops_target (x : Entry) (fp : Path) (hd : x.isDir = true) :
    ∀ op ∈ permsOps x fp ++ permsOps x fp, TargetsOnly fp op := by
  intro op hop
  obtain ⟨loc, kind, mode, uid, gid, mtime⟩ := x
  cases kind <;> simp [Entry.isDir] at hd
  simp [permsOps] at hop
  rcases hop with h | h | h | h <;> (subst h; rfl)

theorem sysAll_cons (env : Env) (s : St) (op : Op) (ops : List Op) :
    s.sysAll env (op :: ops) = match s.sys env op with
      | (s', none) => s'.sysAll env ops
      | (s', some e) => (s', .error (.os e)) := by
  rw [St.sysAll]
  generalize s.sys env op = r
  obtain ⟨s', e⟩ := r
  cases e <;> rfl

/-- the calls that set up a directory at `fp` -/
def DirOpAt (fp : Path) (op : Op) : Prop :=
  (∃ m, op = .mkdir fp m) ∨ (∃ u g, op = .lchown fp u g) ∨ (∃ m, op = .chmod fp m)

/-- nothing, or a directory, sits at `fp` -/
def NoneOrDir (fp : Path) (f : Fs) : Prop := f.view fp = none ∨ ∃ j nd, f.view fp = some (j, nd) ∧ nd.kind = .dir

theorem noneOrDir_step {env : Env} {f f' : Fs} {fp : Path} {op : Op} (hI : NoneOrDir fp f) (ht : DirOpAt fp op)
    (hs : step env f op = .ok f') : NoneOrDir fp f' := by
  rcases ht with ⟨m, rfl⟩ | ⟨u, g, rfl⟩ | ⟨m, rfl⟩
  · simp only [step] at hs
    split at hs
    · cases hs
    · split at hs
      · cases hs
      · injection hs with hs; subst hs; right; exact ⟨f.next, ⟨.dir, newDirMode f fp (m &&& 0o1777), env.uid, newGid env f fp, 0⟩, by simp, rfl⟩
  · simp only [step] at hs
    split at hs
    · cases hs
    · next i nd hvv =>
      injection hs with hs; subst hs
      rcases hI with h0 | ⟨j, nd', h1, h2⟩
      · rw [h0] at hvv; cases hvv
      · rw [h1] at hvv; cases hvv
        right; exact ⟨i, { nd with uid := u, gid := g }, by simp [h1], h2⟩
  · simp only [step] at hs
    split at hs
    · cases hs
    · next i nd hvv =>
      rcases hI with h0 | ⟨j, nd', h1, h2⟩
      · rw [h0] at hvv; cases hvv
      · rw [h1] at hvv; cases hvv
        rw [h2] at hs
        injection hs with hs; subst hs
        right; exact ⟨i, { nd with mode := m }, by simp [h1], h2⟩

theorem dirPerms_ops_dirOp (x : Entry) (fp : Path) (hd : x.isDir = true) :
    ∀ op ∈ permsOps x fp ++ permsOps x fp, DirOpAt fp op := by
  intro op hop
  obtain ⟨loc, kind, mode, uid, gid, mtime⟩ := x
  cases kind <;> simp [Entry.isDir] at hd
  simp [permsOps] at hop
  rcases hop with h | h | h | h
  · exact Or.inr (Or.inl ⟨_, _, h⟩)
  · exact Or.inr (Or.inr ⟨_, h⟩)
  · exact Or.inr (Or.inl ⟨_, _, h⟩)
  · exact Or.inr (Or.inr ⟨_, h⟩)

theorem mergeDir_traj {env : Env} {s : St} {x : Entry} (hd : x.isDir = true) (hwf : s.fs.WF)
    (hsym : ∀ i nd t, s.fs.view x.loc = some (i, nd) → nd.kind = .sym t →
      ∀ q, q ≠ x.loc → ∀ nd', s.fs.view q ≠ some (i, nd')) :
    Traj env (DirP s.fs x) s (mergeDir env s x).1 := by
  have base0 : DirP s.fs x s.fs := fun q => Or.inl rfl
  unfold mergeDir
  cases hsf : statFollow s.fs 8 x.loc with
  | some r =>
    obtain ⟨p', i', nd'⟩ := r
    simp only
    split
    · exact Traj.refl base0
    · next hkd =>
      have hkd : nd'.kind = .dir := by simpa using hkd
      unfold dirPermsExisting
      split
      · next hown =>
        cases hv : s.fs.view x.loc with
        | none => rw [statFollow_view_none 8 hv] at hsf; cases hsf
        | some v0 =>
          obtain ⟨i0, nd0⟩ := v0
          have hsolo : nd0.kind = .dir ∨ (∃ t, nd0.kind = .sym t) := by
            by_cases hs : ∃ t, nd0.kind = .sym t
            · exact Or.inr hs
            · left
              have := statFollow_nonsym 7 hv (fun t ht => hs ⟨t, ht⟩)
              rw [this] at hsf
              cases hsf; exact hkd
          have hother : ∀ q, q ≠ x.loc → ∀ nd'', s.fs.view q ≠ some (i0, nd'') := by
            intro q hq nd'' hvq
            rcases hsolo with hk | ⟨t, hk⟩
            · exact hq (hwf.dir1 x.loc q i0 nd0 nd'' hv hvq hk).symm
            · exact hsym i0 nd0 t hv hk q hq nd'' hvq
          unfold St.sysAll
          have t1 := Traj.sys_any (env := env) (P := DirP s.fs x) (s := s) (.lchown x.loc x.uid x.gid) base0 (by
            intro f hf
            simp only [step, hv] at hf
            injection hf with hf; subst hf
            intro q
            rw [Fs.view_updIno]
            by_cases hq : q = x.loc
            · right
              refine ⟨hq, Or.inl ⟨i0, nd0, withOwner nd0 x, hv, by subst hq; simp [hv, withOwner], rfl, rfl, rfl,
                Or.inr ⟨rfl, rfl⟩⟩⟩
            · left
              cases hvq : s.fs.view q with
              | none => rfl
              | some w =>
                obtain ⟨j, w⟩ := w
                have : j ≠ i0 := fun e => hother q hq w (e ▸ hvq)
                simp [this])
          generalize s.sys env (.lchown x.loc x.uid x.gid) = r1 at t1
          obtain ⟨s1, e1⟩ := r1
          cases e1 with
          | none => simpa [St.sysAll] using t1
          | some e => exact t1
      · exact Traj.refl base0
  | none =>
    simp only
    split
    · exact Traj.refl base0
    · have t1 := Traj.sys_any (env := env) (P := DirP s.fs x) (s := s) (.mkdir x.loc (mkdirMode env x)) base0 (by
        intro f hf
        simp only [step] at hf
        split at hf
        · cases hf
        · split at hf
          · cases hf
          · next hvx =>
            injection hf with hf; subst hf
            have hv : s.fs.view x.loc = none := by
              cases hx : s.fs.view x.loc with
              | none => rfl
              | some v => simp [hx] at hvx
            intro q
            by_cases hq : q = x.loc
            · exact Or.inr ⟨hq, Or.inr (Or.inl hv)⟩
            · left; rw [Fs.view_alloc, if_neg hq])
      generalize hsys : s.sys env (.mkdir x.loc (mkdirMode env x)) = r at t1
      obtain ⟨s1, e⟩ := r
      cases e with
      | none =>
        simp only
        have e1 := (St.sys_ok hsys).1
        simp only [step] at e1
        split at e1
        · cases e1
        · split at e1
          · cases e1
          · next hvx =>
            injection e1 with e1
            have hv : s.fs.view x.loc = none := by
              cases hx : s.fs.view x.loc with
              | none => rfl
              | some v => simp [hx] at hvx
            -- from here on everything happens on the new inode at `x.loc`
            have hI : FreshAt s.fs x.loc s1.fs := by
              rw [← e1]; exact freshAt_alloc (fun _ _ => rfl) rfl _
            have t2 := sysAll_traj (env := env) (I := FreshAt s.fs x.loc) (permsOps x x.loc ++ permsOps x x.loc)
              (fun f op f' hI hop hs => freshAt_step hwf.lt hI (dirPerms_ops_target x x.loc hd op hop) hs) s1 hI
            refine t1.trans (t2.mono ?_)
            intro f hf q
            by_cases hq : q = x.loc
            · exact Or.inr ⟨hq, Or.inr (Or.inl hv)⟩
            · exact Or.inl (hf.1 q hq)
      | some e =>
        obtain ⟨e1, e2⟩ := St.sys_err hsys
        cases e <;> try (exact t1)
        -- EEXIST
        simp only
        simp only [step] at e1
        split at e1
        · next e' hpe =>
          injection e1 with e1; subst e1
          split at hpe
          · cases hpe
          · exact absurd hpe (parentErr_ne_EEXIST _ _)
        · next hpe =>
          split at e1
          · next hvx =>
            obtain ⟨v0, hv⟩ : ∃ v0, s.fs.view x.loc = some v0 := by
              cases hx : s.fs.view x.loc with
              | none => simp [hx] at hvx
              | some v => exact ⟨v, rfl⟩
            obtain ⟨i0, nd0⟩ := v0
            obtain ⟨t, hk⟩ := statFollow_none_sym 7 hv hsf
            have psym : ∃ i nd t, s.fs.view x.loc = some (i, nd) ∧ nd.kind = .sym t := ⟨i0, nd0, t, hv, hk⟩
            have p1 : DirP s.fs x s1.fs := t1.final
            have hlist : [Op.unlink x.loc, Op.mkdir x.loc (mkdirMode env x)] ++ permsOps x x.loc ++ permsOps x x.loc
                = .unlink x.loc :: .mkdir x.loc (mkdirMode env x) :: (permsOps x x.loc ++ permsOps x x.loc) := by simp
            rw [hlist, sysAll_cons]
            have t2 := Traj.sys_any (env := env) (P := DirP s.fs x) (s := s1) (.unlink x.loc) p1 (by
              intro f hf
              rw [e2] at hf
              simp only [step, hv, hk] at hf
              injection hf with hf; subst hf
              intro q
              by_cases hq : q = x.loc
              · exact Or.inr ⟨hq, Or.inr (Or.inr ⟨psym, Or.inl (by rw [hq]; simp)⟩)⟩
              · left; rw [Fs.view_del, if_neg hq])
            generalize hsys2 : s1.sys env (.unlink x.loc) = r2 at t2
            obtain ⟨s2, e2'⟩ := r2
            cases e2' with
            | some e => exact t1.trans t2
            | none =>
              simp only
              have f2 := (St.sys_ok hsys2).1
              rw [e2] at f2
              simp only [step, hv, hk] at f2
              injection f2 with f2
              have hv2 : ∀ q, s2.fs.view q = if q = x.loc then none else s.fs.view q := by
                intro q; rw [← f2]; simp
              have wf2 : s2.fs.WF := by rw [← f2]; exact WF_del hwf _
              have hoff2 : ∀ q, q ≠ x.loc → s2.fs.view q = s.fs.view q := fun q hq => by rw [hv2, if_neg hq]
              -- mkdir + perms + perms all name `x.loc`, on the inode mkdir allocates
              have hI2 : FreshAt s2.fs x.loc s2.fs := ⟨fun _ _ => rfl, Or.inl ⟨by rw [hv2]; simp, rfl⟩⟩
              have t3 := sysAll_traj (env := env) (I := FreshAt s2.fs x.loc)
                (.mkdir x.loc (mkdirMode env x) :: (permsOps x x.loc ++ permsOps x x.loc))
                (fun f op f' hI hop hs => freshAt_step wf2.lt hI (by
                  rcases List.mem_cons.mp hop with h | h
                  · subst h; rfl
                  · exact dirPerms_ops_target x x.loc hd op h) hs) s2 hI2
              -- what sits at `x.loc` in those states is nothing or a directory
              have kinds := sysAll_traj (env := env) (I := NoneOrDir x.loc)
                (.mkdir x.loc (mkdirMode env x) :: (permsOps x x.loc ++ permsOps x x.loc))
                (fun f op f' hI hop hs => noneOrDir_step hI (by
                  rcases List.mem_cons.mp hop with h | h
                  · exact Or.inl ⟨_, h⟩
                  · exact dirPerms_ops_dirOp x x.loc hd op h) hs)
                s2 (Or.inl (by rw [hv2]; simp))
              -- both trajectories are over the same calls: combine them pointwise
              obtain ⟨ops3, l3, f3, k3⟩ := t3
              obtain ⟨ops4, l4, _, k4⟩ := kinds
              have hops : ops3 = ops4 := List.append_cancel_left (l3.symm.trans l4)
              subst hops
              have t34 : Traj env (DirP s.fs x) s2
                  (s2.sysAll env (.mkdir x.loc (mkdirMode env x) :: (permsOps x x.loc ++ permsOps x x.loc))).1 := by
                refine ⟨ops3, l3, f3, fun k => ?_⟩
                intro q
                by_cases hq : q = x.loc
                · refine Or.inr ⟨hq, Or.inr (Or.inr ⟨psym, ?_⟩)⟩
                  rw [hq]
                  rcases k4 k with h0 | h0
                  · exact Or.inl h0
                  · exact Or.inr h0
                · left; rw [(k3 k).1 q hq, hoff2 q hq]
              exact (t1.trans t2).trans t34
          · cases e1

/-! ## the loops, any outcome -/

section loops
variable {env : Env} {pre : Fs} {es done todo : List Entry} {x : Entry} {s : St}

theorem mid_hsym (hpre : pre.WF) (g : Guards pre es) (m : Mid pre es done (x :: todo) s.fs) (hd : x.isDir = true) :
    ∀ i nd t, s.fs.view x.loc = some (i, nd) → nd.kind = .sym t →
      ∀ q, q ≠ x.loc → ∀ nd', s.fs.view q ≠ some (i, nd') := by
  have hx : x ∈ es := m.x_mem
  have hvx : s.fs.view x.loc = pre.view x.loc := m.todo x List.mem_cons_self
  intro i nd t hv hk q hq nd' hvq
  rw [hvx] at hv
  rcases m.inos q i nd' hvq with ⟨nd'', h1⟩ | h1
  · exact symsolo_use g.symsolo hx hd hv hk hq h1
  · exact absurd (hpre.lt _ _ _ hv) (Nat.not_lt.mpr h1)

theorem dirP_reach (m : Mid pre es done (x :: todo) s.fs) (hd : x.isDir = true) {f : Fs} (hf : DirP s.fs x f) :
    Reach pre es f := by
  have hx : x ∈ es := m.x_mem
  have hvx : s.fs.view x.loc = pre.view x.loc := m.todo x List.mem_cons_self
  intro q
  rcases hf q with h1 | ⟨h1, h2⟩
  · rw [h1]; exact m.reach q
  · exact Or.inr (Or.inr (Or.inr (Or.inr ⟨x, hx, hd, h1, dirAt_congr hvx h2⟩)))

theorem mergeDirs_traj (hpre : pre.WF) (g : Guards pre es) :
    ∀ (xs : List Entry) (s : St) (done rest : List Entry),
      Mid pre es done (xs ++ rest) s.fs → (∀ x ∈ xs, x.isDir = true) →
      Traj env (Reach pre es) s (mergeDirs env s xs).1 := by
  intro xs
  induction xs with
  | nil => intro s done rest m _; exact Traj.refl m.reach
  | cons x xs ih =>
    intro s done rest m hall
    have m' : Mid pre es done (x :: (xs ++ rest)) s.fs := by simpa using m
    have hd := hall x List.mem_cons_self
    simp only [mergeDirs]
    have tr := mergeDir_traj (env := env) hd m'.wf (mid_hsym hpre g m' hd)
    generalize hm : mergeDir env s x = r at tr
    obtain ⟨s1, r1⟩ := r
    cases r1 with
    | error e => exact tr.mono (fun f hf => dirP_reach m' hd hf)
    | ok u =>
      obtain ⟨m1, t1⟩ := mid_dir_step hpre g m' hd hm
      exact t1.trans (ih s1 (done ++ [x]) rest m1 (fun y hy => hall y (List.mem_cons_of_mem _ hy)))

theorem candsOK_keep {c : Cands} {s1 : St} (hc : CandsOK done c s.fs)
    (hd1 : ∀ e ∈ done, s1.fs.view e.loc = s.fs.view e.loc) (c1 : Cands)
    (hmem : ∀ t ∈ c1, t ∈ c ∨ (t = x ∧ x.isDir = false))
    (hfirst : ∀ e ∈ done, ∀ k t, firstCand c k e = some t → firstCand c1 k e = some t)
    (hx : ∀ k, x.key = some k → ∃ t, firstCand c1 k x = some t ∧
      (s1.fs.view x.loc).map (·.1) = (s1.fs.view t.loc).map (·.1)) :
    CandsOK (done ++ [x]) c1 s1.fs := by
  refine ⟨?_, ?_⟩
  · intro t ht
    rcases hmem t ht with h | ⟨h, h'⟩
    · exact ⟨List.mem_append_left _ (hc.mem t h).1, (hc.mem t h).2⟩
    · subst h; exact ⟨List.mem_append_right _ (List.mem_singleton.mpr rfl), h'⟩
  · intro e he k hek
    rcases List.mem_append.mp he with he | he
    · obtain ⟨t, ht1, ht2⟩ := hc.rep e he k hek
      have htc : t ∈ c := List.mem_of_find?_eq_some ht1
      exact ⟨t, hfirst e he k t ht1, by rw [hd1 e he, hd1 t (hc.mem t htc).1]; exact ht2⟩
    · rw [List.mem_singleton.mp he] at hek ⊢
      exact hx k hek

theorem mergeNonDirs_traj (hpre : pre.WF) (g : Guards pre es) (hroot : ∀ e ∈ es, e.isDir = false → e.loc ≠ []) :
    ∀ (xs : List Entry) (s : St) (c : Cands) (done : List Entry),
      Mid pre es done xs s.fs → (∀ x ∈ xs, x.isDir = false) → CandsOK done c s.fs →
      Traj env (Reach pre es) s (mergeNonDirs env s c xs).1 := by
  intro xs
  induction xs with
  | nil => intro s c done m _ _; exact Traj.refl m.reach
  | cons x xs ih =>
    intro s c done m hall hc
    have hnd : x.isDir = false := hall x List.mem_cons_self
    have htodo : ∀ e ∈ xs, e.isDir = false := fun y hy => hall y (List.mem_cons_of_mem _ hy)
    have hx : x ∈ es := m.x_mem
    have hloc : x.loc ≠ [] := hroot x hx hnd
    have tcopy := (copyfile_traj (env := env) hnd m.wf hloc).mono (fun f hf => nonDirP_reach g m hnd hf)
    -- a successful plain copy with the candidate list `c1`
    have copyOk : ∀ {s1 : St} (c1 : Cands), copyfile env s x = (s1, .ok ()) →
        (∀ t ∈ c1, t ∈ c ∨ (t = x ∧ x.isDir = false)) →
        (∀ e ∈ done, ∀ k t, firstCand c k e = some t → firstCand c1 k e = some t) →
        (∀ k, x.key = some k → firstCand c1 k x = some x) →
        Traj env (Reach pre es) s (mergeNonDirs env s1 c1 xs).1 := by
      intro s1 c1 hcp h1 h2 h3
      obtain ⟨m1, hd1, t1⟩ := mid_copy_step g m hnd htodo hcp
      exact t1.trans (ih s1 c1 (done ++ [x]) m1 htodo
        (candsOK_keep hc hd1 c1 h1 h2 (fun k hk => ⟨x, h3 k hk, rfl⟩)))
    simp only [mergeNonDirs]
    split
    · next d k hkind =>
      have hxk : x.key = some k := by simp [Entry.key, hkind]
      split
      · next t hfc =>
        have htc : t ∈ c := List.mem_of_find?_eq_some hfc
        have htp := List.find?_some hfc
        simp only [Bool.and_eq_true, decide_eq_true_eq] at htp
        have htd := (hc.mem t htc).1
        have htn := (hc.mem t htc).2
        have hti := inode_eq_of_link g.hlc (m.done_mem htd) hx htp.1 hxk htp.2
        obtain ⟨j, hj, hjle⟩ := m.nondirs t htd htn
        have hvx : s.fs.view x.loc = pre.view x.loc := m.todo x List.mem_cons_self
        have hstmp : t.loc ≠ tmpOf x.loc := Ne.symm (m.tmp_ne g hx (m.done_mem htd))
        have hino : ∀ j' nd', s.fs.view x.loc = some (j', nd') → j' ≠ j := by
          intro j' nd' hv
          rw [hvx] at hv
          have := hpre.lt _ _ _ hv
          omega
        have tl : Traj env (Reach pre es) s (doLink env s t.loc x.loc).1 :=
            (doLink_traj (env := env) hj hstmp hino).mono (fun f hf => by
          apply nonDirP_reach g m hnd
          intro q
          rcases hf q with h1 | h1 | ⟨h1, h2⟩
          · exact Or.inl h1
          · exact Or.inr (Or.inl h1)
          · exact Or.inr (Or.inr (Or.inr ⟨h1, j, by rw [h2, hti]⟩)))
        generalize hl : doLink env s t.loc x.loc = r at tl
        obtain ⟨s1, r1⟩ := r
        cases r1 with
        | error e => exact tl
        | ok u =>
          obtain ⟨m1, hd1, t1, hino'⟩ := mid_link_step hpre g m hnd htodo htd htn hti hl
          exact t1.trans (ih s1 c (done ++ [x]) m1 htodo
            (candsOK_keep hc hd1 c (fun t' ht' => Or.inl ht') (fun _ _ _ _ h => h)
              (fun k' hk' => by rw [hxk] at hk'; cases hk'; exact ⟨t, hfc, hino'⟩)))
      · next hfc =>
        generalize hcp : copyfile env s x = r at tcopy
        obtain ⟨s1, r1⟩ := r
        cases r1 with
        | error e => exact tcopy
        | ok u =>
          refine copyOk (c ++ [x]) hcp ?_ ?_ ?_
          · intro t ht
            rcases List.mem_append.mp ht with h | h
            · exact Or.inl h
            · exact Or.inr ⟨List.mem_singleton.mp h, hnd⟩
          · intro e _ k' t ht
            unfold firstCand at ht ⊢
            rw [List.find?_append, ht]; rfl
          · intro k' hk'
            rw [hxk] at hk'; cases hk'
            unfold firstCand at hfc ⊢
            rw [List.find?_append, hfc]
            simp [hxk, canHardlink]
    · next hnokey =>
      have hxk : x.key = none := by
        obtain ⟨loc, kind, mode, uid, gid, mtime⟩ := x
        cases kind with
        | reg d k => cases k with
          | none => rfl
          | some k => exact absurd rfl (hnokey d k)
        | _ => rfl
      generalize hcp : copyfile env s x = r at tcopy
      obtain ⟨s1, r1⟩ := r
      cases r1 with
      | ok u =>
        exact copyOk c hcp (fun t ht => Or.inl ht) (fun _ _ _ _ h => h)
          (fun k' hk' => by rw [hxk] at hk'; cases hk')
      | error e =>
        cases e with
        | cannotOverwrite =>
          simp only
          split
          · next hskip =>
            exfalso
            obtain ⟨j, nd, hv, hk⟩ := copyfile_cannotOverwrite hcp
            have hsymx : x.isSym = true := by
              unfold symOverDirSkips at hskip
              unfold Entry.isSym
              split at hskip
              · next t hkx => first | rfl | simp [hkx]
              · cases hskip
            rw [m.todo x List.mem_cons_self] at hv
            exact g.nosym x hx hsymx ⟨j, nd, hv, hk⟩
          · exact tcopy
        | failedCopy => exact tcopy
        | os n => exact tcopy

end loops

theorem merge_traj {env : Env} {off : Bool} {pre : Fs} {es : List Entry}
    (hpre : pre.WF) (g : Guards pre es) (hd : DistinctLocs es) (hroot : RootGuard off pre es)
    (hrootND : ∀ e ∈ es, e.isDir = false → e.loc ≠ []) :
    Traj env (Reach pre es) ⟨pre, []⟩ (mergeContents env off es pre).1 := by
  unfold mergeContents
  simp only
  have m0 := mid_init hpre hd
  -- the optional creation of the root
  have hinit : ∀ s1 r1, (if off = true ∧ pre.view [] = none then
        St.sysAll env ⟨pre, []⟩ [.mkdir [] (maskMode 0o777 env.umask)] else (⟨pre, []⟩, .ok ())) = (s1, r1) →
      Traj env (Reach pre es) ⟨pre, []⟩ s1 ∧ (r1 = .ok () → Mid pre es [] (order es) s1.fs) := by
    intro s1 r1 h0
    split at h0
    · next hc =>
      obtain ⟨hoff, hv0⟩ := hc
      obtain ⟨hnl, hne⟩ := hroot hoff hv0
      have hmp : MissingParent pre es [] := by
        obtain ⟨e, he⟩ := List.exists_mem_of_ne_nil es hne
        have : e.loc ≠ [] := fun e0 => hnl (mem_locs.mpr ⟨e, he, e0⟩)
        exact ⟨hv0, e, he, nil_properAnc this⟩
      have preach : ∀ f, (∀ q, q ≠ [] → f.view q = pre.view q) → Reach pre es f := by
        intro f hf q
        by_cases hq : q = []
        · subst hq; exact Or.inr (Or.inr (Or.inl ⟨hv0, hmp.2.imp fun e he => ⟨he.1, he.2.2⟩⟩))
        · rw [hf q hq]; exact Or.inl rfl
      rw [sysAll_cons] at h0
      have t1 := Traj.sys_any (env := env) (P := Reach pre es) (s := ⟨pre, []⟩) (.mkdir [] (maskMode 0o777 env.umask))
        m0.reach (by
          intro f hf
          simp only [step, if_true, hv0, Option.isSome_none, Bool.false_eq_true, if_false] at hf
          injection hf with hf; subst hf
          exact preach _ (fun q hq => by rw [Fs.view_alloc, if_neg hq]))
      generalize hsys : St.sys env ⟨pre, []⟩ (.mkdir [] (maskMode 0o777 env.umask)) = r at h0 t1
      obtain ⟨s2, e2⟩ := r
      cases e2 with
      | some e =>
        simp only [Prod.mk.injEq] at h0
        obtain ⟨rfl, rfl⟩ := h0
        exact ⟨t1, fun h => by cases h⟩
      | none =>
        simp only [St.sysAll, Prod.mk.injEq] at h0
        obtain ⟨rfl, rfl⟩ := h0
        refine ⟨t1, fun _ => ?_⟩
        have e1 := (St.sys_ok hsys).1
        have hwf1 := step_WF hpre e1
        simp only [step, if_true, hv0, Option.isSome_none, Bool.false_eq_true, if_false] at e1
        injection e1 with e1
        have hv1 : ∀ q, s2.fs.view q = if q = [] then some (pre.next, ⟨.dir, newDirMode pre [] ((maskMode 0o777 env.umask) &&& 0o1777), env.uid, newGid env pre [], 0⟩)
            else pre.view q := by
          intro q; rw [← e1]; simp
        refine { wf := hwf1.1, nextLe := hwf1.2, nodup := m0.nodup, sub := m0.sub,
                 nondirs := (by intro e he; cases he), dirs := (by intro e he; cases he),
                 tmps := (by intro e he; cases he), todo := ?_, frame := ?_, parents := ?_, inos := ?_ }
        · intro e he
          have : e.loc ≠ [] := fun e0 => hnl (mem_locs.mpr ⟨e, m0.todo_mem (s := ⟨pre, []⟩) he, e0⟩)
          rw [hv1, if_neg this]
        · intro q hq
          have : q ≠ [] := fun e0 => hq.2.1 (e0 ▸ hmp)
          rw [hv1, if_neg this]
        · intro q _ hq
          rw [hv1]
          by_cases h0 : q = []
          · right; exact ⟨_, _, by rw [if_pos h0], rfl⟩
          · left; rw [if_neg h0]; exact hq.1
        · intro q i nd hq
          rw [hv1] at hq
          split at hq
          · cases hq; exact Or.inr (Nat.le_refl _)
          · exact Or.inl ⟨nd, hq⟩
    · simp only [Prod.mk.injEq] at h0
      obtain ⟨rfl, rfl⟩ := h0
      exact ⟨Traj.refl m0.reach, fun _ => m0⟩
  generalize h0 : (if off = true ∧ pre.view [] = none then
      St.sysAll env ⟨pre, []⟩ [.mkdir [] (maskMode 0o777 env.umask)] else (⟨pre, []⟩, .ok ())) = r0
  obtain ⟨s1, r1⟩ := r0
  obtain ⟨t1, hm1⟩ := hinit s1 r1 h0
  cases r1 with
  | error e => exact t1
  | ok u =>
    simp only
    have m1 := hm1 rfl
    have t2 := mergeDirs_traj (env := env) hpre g (sortDirs (es.filter (·.isDir))) s1 [] _ m1 sortDirs_isDir
    generalize hmd : mergeDirs env s1 (sortDirs (es.filter (·.isDir))) = r2 at t2
    obtain ⟨s2, r2⟩ := r2
    cases r2 with
    | error e => exact t1.trans t2
    | ok u2 =>
      simp only
      obtain ⟨m2, _⟩ := mergeDirs_mid hpre g _ s1 [] _ m1 sortDirs_isDir hmd
      have t3 := mergeNonDirs_traj (env := env) hpre g hrootND (es.filter (fun e => !e.isDir)) s2 [] _ m2
        (fun x hx => by simpa using (List.mem_filter.mp hx).2)
        { mem := (fun t ht => by cases ht)
          rep := (fun e he k hek => by
            have hdir : e.isDir = true := sortDirs_isDir e (by simpa using he)
            obtain ⟨d, hk⟩ := key_some_kind hek
            simp [Entry.isDir, hk] at hdir) }
      exact (t1.trans t2).trans t3

end Pkgcore.C19
