import Pkgcore.Spec.C46
/-!
# C46 — helper lemmas
-/
namespace Pkgcore.C46
open Spec

theorem mem_removed (i : Input) (f : String) :
    f ∈ removed i ↔ f ∈ names i ∧ f ∈ targetFiles i ∧ f ∉ saving i ∧ passes i f = true := by
  unfold removed
  simp only [List.mem_filter, List.mem_mergeSort, List.mem_eraseDups, Bool.and_eq_true, List.contains_iff_mem,
    Bool.not_eq_true', and_assoc]
  constructor
  · rintro ⟨h1, h2, h3, h4⟩
    refine ⟨h1, h2, fun hm => ?_, h4⟩
    have := List.contains_iff_mem.2 hm
    rw [h3] at this; cases this
  · rintro ⟨h1, h2, h3, h4⟩
    refine ⟨h1, h2, ?_, h4⟩
    cases hc : (saving i).contains f with
    | false => rfl
    | true => exact absurd (List.contains_iff_mem.1 hc) h3

theorem passes_spec (i : Input) (f : String) (h : passes i f = true) : passesFilters i f := by
  unfold passes at h
  cases hf : i.files.find? (·.name = f) with
  | none => simp [hf] at h
  | some fi =>
    simp only [hf, Bool.and_eq_true] at h
    have hm := List.mem_of_find?_eq_some hf
    have hn : fi.name = f := by simpa using List.find?_some hf
    refine ⟨fi, hm, hn, ?_, ?_⟩
    · intro t ht; rw [ht] at h; simpa using h.1
    · intro s hs; rw [hs] at h; simpa using h.2

theorem mem_flatten_map {α : Type} {l : List α} {g : α → List String} {f : String} :
    f ∈ (l.map g).flatten ↔ ∃ a ∈ l, f ∈ g a := by
  simp only [List.mem_flatten, List.mem_map]
  constructor
  · rintro ⟨_, ⟨a, ha, rfl⟩, hf⟩; exact ⟨a, ha, hf⟩
  · rintro ⟨a, ha, hf⟩; exact ⟨_, ⟨a, ha, rfl⟩, hf⟩

theorem needed_saved (i : Input) (f : String) (h : needed i f) : f ∈ saving i := by
  unfold saving
  simp only [List.mem_append]
  rcases h with ⟨ho, l, hl, hf⟩ | ⟨ho, p, hp, hf⟩ | ⟨ho, p, hp, hr, hf⟩ | ⟨ho, p, hp, hx, hf⟩
  · left; left; left
    unfold installedDist
    rw [if_pos ho, List.mem_flatten]
    exact ⟨l, hl, hf⟩
  · left; left; right
    unfold existsDist scans
    rw [List.mem_append]
    left
    simp only [ho, Bool.or_true, if_true]
    exact mem_flatten_map.2 ⟨p, hp, hf⟩
  · right
    unfold restrictedDist scans
    simp only [ho, Bool.true_or, if_true]
    exact mem_flatten_map.2 ⟨p, List.mem_filter.2 ⟨hp, hr⟩, hf⟩
  · left; right
    unfold excludesDist
    rw [if_pos ho]
    exact mem_flatten_map.2 ⟨p, List.mem_filter.2 ⟨hp, hx⟩, hf⟩

/-! ## packages with unreadable metadata -/

theorem filter_map_of_fix {α : Type} (q : α → Bool) (g : α → α) (l : List α)
    (h : ∀ p ∈ l, q (g p) = q p ∧ (q p = true → g p = p)) : (l.map g).filter q = l.filter q := by
  induction l with
  | nil => rfl
  | cons a l ih =>
    have ha := h a (by simp)
    have ih' := ih (fun p hp => h p (by simp [hp]))
    simp only [List.map_cons, List.filter_cons, ha.1]
    cases hq : q a with
    | false => simpa using ih'
    | true => simp [ha.2 hq, ih']

def blank (p : RepoPkg) : RepoPkg := if p.broken then { p with distfiles := [] } else p

theorem visible_repo (i : Input) : (visible i).repo = i.repo.map blank := rfl

theorem blank_targeted (p : RepoPkg) : (blank p).targeted = p.targeted := by unfold blank; split <;> rfl
theorem blank_excluded (p : RepoPkg) : (blank p).excluded = p.excluded := by unfold blank; split <;> rfl

theorem not_aborts (i : Input) (h : aborts i = false) : ∀ p ∈ i.repo, p.broken = true → touched i p = false := by
  intro p hp hb
  unfold aborts at h
  rw [List.any_eq_false] at h
  have := h p hp
  simpa [hb] using this

theorem visible_eq_of_scans (i : Input) (h : aborts i = false) (hs : scans i = true) : visible i = i := by
  have hnb : ∀ p ∈ i.repo, blank p = p := by
    intro p hp
    unfold blank
    cases hb : p.broken with
    | false => simp
    | true =>
      have := not_aborts i h p hp hb
      unfold touched at this
      simp [hs] at this
  unfold visible
  have : i.repo.map (fun p => if p.broken then { p with distfiles := [] } else p) = i.repo := by
    have h2 : i.repo.map blank = i.repo := by
      conv => rhs; rw [← List.map_id i.repo]
      exact List.map_congr_left (fun p hp => by simpa using hnb p hp)
    exact h2
  rw [this]

theorem removed_visible (i : Input) (h : aborts i = false) : removed (visible i) = removed i := by
  cases hs : scans i with
  | true => rw [visible_eq_of_scans i h hs]
  | false =>
    have hE : i.opts.excludeExists = false := by
      unfold scans at hs; cases hx : i.opts.excludeExists <;> simp_all
    have hF : i.opts.excludeFetchRestricted = false := by
      unfold scans at hs; cases hx : i.opts.excludeFetchRestricted <;> simp_all
    have hnames : names (visible i) = names i := rfl
    have hpass : passes (visible i) = passes i := rfl
    have htarget : targetFiles (visible i) = targetFiles i := by
      unfold targetFiles
      have : (visible i).repo.any (·.targeted) = i.repo.any (·.targeted) := by
        rw [visible_repo, List.any_map]
        congr 1
        funext p
        exact blank_targeted p
      rw [this]
      rfl
    have hinst : installedDist (visible i) = installedDist i := rfl
    have hex1 : existsDist (visible i) = [] := by
      unfold existsDist scans
      have h1 : (visible i).opts.excludeExists = false := hE
      have h2 : (visible i).opts.excludeFetchRestricted = false := hF
      simp [h1, h2]
    have hex2 : existsDist i = [] := by
      unfold existsDist scans
      simp [hE, hF]
    have hr1 : restrictedDist (visible i) = [] := by
      unfold restrictedDist scans
      have h1 : (visible i).opts.excludeExists = false := hE
      have h2 : (visible i).opts.excludeFetchRestricted = false := hF
      simp [h1, h2]
    have hr2 : restrictedDist i = [] := by
      unfold restrictedDist scans
      simp [hE, hF]
    have hexc : excludesDist (visible i) = excludesDist i := by
      unfold excludesDist
      have ho : (visible i).opts.hasExclude = i.opts.hasExclude := rfl
      rw [ho]
      cases hx : i.opts.hasExclude with
      | false => simp
      | true =>
        simp only [if_true]
        rw [visible_repo, filter_map_of_fix (·.excluded) blank i.repo]
        intro p hp
        refine ⟨blank_excluded p, fun hpe => ?_⟩
        unfold blank
        cases hb : p.broken with
        | false => simp
        | true =>
          have := not_aborts i h p hp hb
          unfold touched at this
          simp [hx, hpe] at this
    have hsav : saving (visible i) = saving i := by
      unfold saving
      rw [hinst, hex1, hex2, hr1, hr2, hexc]
    unfold removed
    rw [hnames, htarget, hsav, hpass]

end Pkgcore.C46
