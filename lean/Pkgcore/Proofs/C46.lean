import Pkgcore.Spec.C46
/-!
# C46 — helper lemmas
-/
namespace Pkgcore.C46
open Spec

theorem mem_removed (i : Input) (f : String) :
    f ∈ removed i ↔ f ∈ names i ∧ f ∈ targetFiles i ∧ f ∉ saving i ∧ passes i f = true := by
  unfold removed
  simp only [List.mem_filter, List.mem_mergeSort, List.mem_eraseDups, Bool.and_eq_true, List.contains_iff_mem,
    Bool.not_eq_true', and_assoc]
  constructor
  · rintro ⟨h1, h2, h3, h4⟩
    refine ⟨h1, h2, fun hm => ?_, h4⟩
    have := List.contains_iff_mem.2 hm
    rw [h3] at this; cases this
  · rintro ⟨h1, h2, h3, h4⟩
    refine ⟨h1, h2, ?_, h4⟩
    cases hc : (saving i).contains f with
    | false => rfl
    | true => exact absurd (List.contains_iff_mem.1 hc) h3

theorem passes_spec (i : Input) (f : String) (h : passes i f = true) : passesFilters i f := by
  unfold passes at h
  cases hf : i.files.find? (·.name = f) with
  | none => simp [hf] at h
  | some fi =>
    simp only [hf, Bool.and_eq_true] at h
    have hm := List.mem_of_find?_eq_some hf
    have hn : fi.name = f := by simpa using List.find?_some hf
    refine ⟨fi, hm, hn, ?_, ?_⟩
    · intro t ht; rw [ht] at h; simpa using h.1
    · intro s hs; rw [hs] at h; simpa using h.2

theorem mem_flatten_map {α : Type} {l : List α} {g : α → List String} {f : String} :
    f ∈ (l.map g).flatten ↔ ∃ a ∈ l, f ∈ g a := by
  simp only [List.mem_flatten, List.mem_map]
  constructor
  · rintro ⟨_, ⟨a, ha, rfl⟩, hf⟩; exact ⟨a, ha, hf⟩
  · rintro ⟨a, ha, hf⟩; exact ⟨_, ⟨a, ha, rfl⟩, hf⟩

theorem needed_saved (i : Input) (f : String) (h : needed i f) : f ∈ saving i := by
  unfold saving
  simp only [List.mem_append]
  rcases h with ⟨ho, l, hl, hf⟩ | ⟨ho, p, hp, hf⟩ | ⟨ho, p, hp, hr, hf⟩ | ⟨ho, p, hp, hx, hf⟩
  · left; left; left
    unfold installedDist
    rw [if_pos ho, List.mem_flatten]
    exact ⟨l, hl, hf⟩
  · left; left; right
    unfold existsDist scans
    rw [List.mem_append]
    left
    simp only [ho, Bool.or_true, if_true]
    exact mem_flatten_map.2 ⟨p, hp, hf⟩
  · right
    unfold restrictedDist scans
    simp only [ho, Bool.true_or, if_true]
    exact mem_flatten_map.2 ⟨p, List.mem_filter.2 ⟨hp, hr⟩, hf⟩
  · left; right
    unfold excludesDist
    rw [if_pos ho]
    exact mem_flatten_map.2 ⟨p, List.mem_filter.2 ⟨hp, hx⟩, hf⟩

end Pkgcore.C46
