import Pkgcore.Model.C24
import Pkgcore.Generated.C27Tables
/-!
# C27 model — `pkgcore.cache.base.__setitem__/__getitem__`, `deconstruct/reconstruct_eclasses`,
`flat_hash.database._setitem/_getitem/_parse_data/keys` (and `md5_cache`) as written, after the two
`fix:` commits (`keys()` skips `.update.*`, values keep trailing white space).

Two layouts (`Kind`): `flat` = `flat_hash.database` (`_mtime_`, eclass tuples `(eclassdir, mtime)`), `md5` =
`flat_hash.md5_cache` (`_md5_`, eclass tuples `(md5,)`).  String and number primitives, the abstract file
system and `hexPad/parseHex/renderInt/parseInt` come from `Model/C24.lean`.  A cache directory is an
`Fs` whose paths are relative to `self.location` (`cat/pkg-1`).

`f"{math.floor(t):.0f}"` / `math.floor(float(s))` are modelled as `renderInt`/`parseInt` on the integral
value (exact for |t| < 2^53, i.e. every real mtime).
-/
namespace Pkgcore.C27
open Pkgcore.C24 Pkgcore.Generated.C27

inductive Kind | flat | md5
  deriving DecidableEq, Repr

def Kind.chfKey : Kind → Str
  | .flat => tag ("_" ++ flatChf ++ "_")
  | .md5 => tag ("_" ++ md5Chf ++ "_")

def eclassesKey : Str := tag "_eclasses_"

/-- `_known_keys`: `metadata_keys` plus the chf key -/
def known (k : Kind) (key : Str) : Bool := metadataKeys.any (fun s => s.toList == key) || key == k.chfKey

/-- validation data of one inherited eclass as the serialisers see it: name, `dirname(data.path)`,
`floor(data.mtime)` (flat) or `data.md5` (md5) -/
structure Eclass where
  name : Str
  dir : Str
  chf : Int
  deriving DecidableEq, Repr

/-- what is handed to `cache[cpv] = values`: ordinary `key: str` items, the `_chf_` object
(`floor(mtime)` resp. `md5`), and `_eclasses_` if present -/
structure Entry where
  vals : List (Str × Str)
  chf : Int
  eclasses : Option (List Eclass)
  deriving DecidableEq, Repr

/-- `_chf_serializer` / one eclass chf serializer -/
def serChf : Kind → Int → Str
  | .flat, v => renderInt v
  | .md5, v => hexPad v.toNat

/-- `_chf_deserializer` -/
def deserChf : Kind → Str → Option Int
  | .flat, s => parseInt s
  | .md5, s => (parseHex s).map Int.ofNat

/-- `deconstruct_eclasses`: `"\t".join([name, *chfs, name, *chfs, …])` -/
def eclassFields (k : Kind) (e : Eclass) : List Str :=
  match k with
  | .flat => [e.name, e.dir, serChf .flat e.chf]
  | .md5 => [e.name, serChf .md5 e.chf]

def deconstruct (k : Kind) (es : List Eclass) : Str := joinWith eclassSplitter (es.flatMap (eclassFields k))

/-- `sorted(values.items())`: by key (keys are distinct) -/
def insertItem (e : Str × Str) : List (Str × Str) → List (Str × Str)
  | [] => [e]
  | x :: xs => if e.1 ≤ x.1 then e :: x :: xs else x :: insertItem e xs

def sortItems (l : List (Str × Str)) : List (Str × Str) := l.foldr insertItem []

/-- the dict `__setitem__` passes to `_setitem` -/
def storedItems (k : Kind) (e : Entry) : List (Str × Str) :=
  e.vals ++ (match e.eclasses with | some es => [(eclassesKey, deconstruct k es)] | none => [])
    ++ [(k.chfKey, serChf k e.chf)]

/-- text of the cache file -/
def renderEntry (k : Kind) (e : Entry) : Str :=
  (sortItems (storedItems k e)).flatMap fun (key, v) => key ++ '=' :: v ++ ['\n']

/-! ## reading -/

/-- iteration over a text-mode file: `\n`, `\r`, `\r\n` end a line; pieces between the breaks -/
def uniGo : Bool → Str → List Str
  | _, [] => [[]]
  | prevCR, c :: cs =>
    if c = '\n' then (if prevCR then uniGo false cs else [] :: uniGo false cs)
    else if c = '\r' then [] :: uniGo true cs
    else match uniGo false cs with
      | [] => [[c]]
      | h :: t => (c :: h) :: t

/-- the lines a file object yields, terminator removed (a final piece without terminator is a line
only when it is not empty) -/
def fileLines (content : Str) : List Str :=
  let ps := uniGo false content
  if ps.getLast? = some [] then ps.dropLast else ps

/-- `x.split("=", 1)` (two-element unpacking: `none` = ValueError) -/
def splitFirst (sep : Char) : Str → Option (Str × Str)
  | [] => none
  | c :: cs => if c = sep then some ([], cs) else (splitFirst sep cs).map fun (a, b) => (c :: a, b)

/-- dict assignment `d[k] = v` -/
def dictSet (d : List (Str × Str)) (key v : Str) : List (Str × Str) :=
  if d.any (·.1 == key) then d.map (fun p => if p.1 == key then (key, v) else p) else d ++ [(key, v)]

inductive Err
  | missing       -- KeyError(cpv): no such entry
  | corrupt       -- CacheCorruption
  | keyError      -- a bare KeyError escaping _parse_data (no chf line)
  deriving DecidableEq, Repr

/-- the `for x in data` loop of `_parse_data` -/
def parseLines (k : Kind) : List Str → List (Str × Str) → Except Err (List (Str × Str))
  | [], d => .ok d
  | x :: xs, d =>
    match splitFirst '=' x with
    | none => .error .corrupt
    | some (key, v) => parseLines k xs (if known k key then dictSet d key v else d)

/-- group the flat field list of `_eclasses_` (`reconstruct_eclasses`); `fuel` ≥ number of fields -/
def regroup (k : Kind) : Nat → List Str → Option (List Eclass)
  | _, [] => some []
  | 0, _ => none
  | fuel + 1, fields =>
    match k, fields with
    | .flat, n :: d :: m :: rest => do
      let v ← deserChf .flat m
      let tl ← regroup k fuel rest
      pure (⟨n, d, v⟩ :: tl)
    | .md5, n :: m :: rest => do
      let v ← deserChf .md5 m
      let tl ← regroup k fuel rest
      pure (⟨n, [], v⟩ :: tl)
    | _, _ => none

/-- `str.isspace` (table of all white-space code points, generated from Python) -/
def isSpace (c : Char) : Bool := pySpaces.contains c.toNat

/-- `s.strip()` -/
def stripSpace (s : Str) : Str := ((s.dropWhile isSpace).reverse.dropWhile isSpace).reverse

/-- `reconstruct_eclasses(cpv, eclass_string)` -/
def reconstruct (k : Kind) (s : Str) : Except Err (List Eclass) :=
  let fields := splitOn eclassSplitter (stripSpace s)
  if fields = [[]] then .ok []
  else
    let tupleLen := match k with | .flat => 3 | .md5 => 2
    if fields.length % tupleLen ≠ 0 then .error .corrupt
    else match regroup k fields.length fields with
      | some es => .ok es
      | none => .error .corrupt

/-- `cache[cpv]` on a file with this content: known ordinary keys in dict order, chf, eclasses -/
def parseEntry (k : Kind) (content : Str) : Except Err Entry :=
  match parseLines k (fileLines content) [] with
  | .error e => .error e
  | .ok d =>
    match d.lookup k.chfKey with
    | none => .error .keyError
    | some cs =>
      match deserChf k cs with
      | none => .error .corrupt
      | some chf =>
        let vals := d.filter fun p => p.1 != k.chfKey && p.1 != eclassesKey
        match d.lookup eclassesKey with
        | none => .ok ⟨vals, chf, none⟩
        | some es => match reconstruct k es with
          | .ok l => .ok ⟨vals, chf, some l⟩
          | .error e => .error e

def getItem (k : Kind) (fs : Fs) (cpv : Str) : Except Err Entry :=
  match fs.read cpv with
  | none => .error .missing
  | some c => parseEntry k c

/-! ## listing -/

def isSuffixOf (suf s : Str) : Bool := suf.reverse.isPrefixOf s.reverse

/-- a directory entry `keys()` does not skip -/
def okName (n : Str) : Bool := !(isSuffixOf (tag ".cpickle") n) && !((tag ".update.").isPrefixOf n)

/-- `keys()`: every file below the cache directory all of whose path components pass the filter -/
def keys (fs : Fs) : List Str := (fs.map (·.1)).filter fun p => (splitOn '/' p).all okName

/-! ## storing -/

/-- name of the temporary file: `.update.<pid>.<cpv[s:]>` with `s = cpv.rfind("/") + 1` -/
def tmpBase (pid base : Str) : Str := tag ".update." ++ pid ++ '.' :: base

/-- `pjoin(cpv[:s], tmpBase)`: the last `/`-separated component of `cpv` replaced by the temporary name
(`cpv[:s]` is the text up to and including the last `/`, `cpv[s:]` the last component) -/
def tmpOf (pid cpv : Str) : Str :=
  let comps := splitOn '/' cpv
  joinWith '/' (comps.dropLast ++ [tmpBase pid (comps.getLast?.getD [])])

/-- operations of `_setitem`: (directories created on demand,) temp file opened, text written in
chunks, closed, `_ensure_access` (chown gid, chmod perms), renamed over the entry -/
def storeOps (pid cpv : Str) (gid : Int) (mkdirs : List Str) (chunks : List Str) : List FsOp :=
  mkdirs.map .mkdir ++ [.creat (tmpOf pid cpv)] ++ chunks.map (.write (tmpOf pid cpv))
    ++ [.close (tmpOf pid cpv), .chown (tmpOf pid cpv) (-1) gid, .chmod (tmpOf pid cpv) entryPerms,
        .rename (tmpOf pid cpv) cpv]

/-- a store that fails — an os-level call returns an error (`ENOSPC`, `EIO`, `EACCES` …) or the rendering of a
value raises: the first `k` operations before the rename ran, then (`cleanup`: the `except OSError:
os.remove(fp)` after a failed rename) the temp file may be removed.  Nothing else is ever done: in particular
the entry being replaced is not touched. -/
def failedStoreOps (pid cpv : Str) (gid : Int) (mkdirs chunks : List Str) (k : Nat) (cleanup : Bool) : List FsOp :=
  ((storeOps pid cpv gid mkdirs chunks).dropLast).take k ++ (if cleanup then [.unlink (tmpOf pid cpv)] else [])

end Pkgcore.C27
